(** C01 -- t2data.read (t2data.write d) for any subset and order of the covered sections:
    the keyword dispatch loop with the PARAM look-ahead line composes the section theorems.
    Main file only (mesh in the file, no extra-precision companion). *)
From Coq Require Import Ascii String List Bool Arith ZArith NArith Lia.
From PTBase Require Import Exn PyStr PyNum PyVal Fmt FixedFormat.
From Gen Require Import GenTables GenSections.
From P Require Import Comb Obj Fields Sections SectionsB Rec SecRocks SecMesh SecGener SecMisc SecParam SecHist SecSel SecShort SecMeshm T2DataIO.
Import ListNotations.
Open Scope string_scope.

(** the sections whose round trip is a theorem: all 23 kinds *)
Definition covered21 : list string :=
  ["SIMUL"; "ROCKS"; "PARAM"; "MOMOP"; "START"; "NOVER"; "RPCAP"; "LINEQ"; "SOLVR"; "MULTI"; "TIMES"; "ELEME"; "CONNE"; "GENER"; "INCON";
   "SELEC"; "DIFFU"; "FOFT"; "COFT"; "GOFT"; "INDOM"].
Definition covered : list string := covered21 +++ ["SHORT"; "MESHM"].
(** ... which are exactly the keywords of the regenerated t2data_sections *)
Lemma covered_all k : In k t2data_sections <-> In k covered.
Proof.
  assert (A : forallb (fun x => existsb (String.eqb x) covered) t2data_sections = true) by (vm_compute; reflexivity).
  assert (B : forallb (fun x => existsb (String.eqb x) t2data_sections) covered = true) by (vm_compute; reflexivity).
  rewrite forallb_forall in A, B. split; intro H.
  - apply A in H. apply existsb_exists in H as [y [I E]]. apply String.eqb_eq in E. subst. exact I.
  - apply B in H. apply existsb_exists in H as [y [I E]]. apply String.eqb_eq in E. subst. exact I.
Qed.

(** ** the regenerated tables and dispatch dictionaries have the shape the theorems need *)
Definition tables_ok : bool :=
  rocks_table_ok T0 && blocks_table_ok T0 && conns_table_ok T0 && gener_table_ok T0 && incon_table_ok T0 &&
  momop_table_ok T0 && times_table_ok T0 && simul_table_ok T0 && param_table_ok T0 && selec_table_ok T0 && short_table_ok T0 && meshm_table_ok T0.
Lemma tables_ok_true : tables_ok = true.
Proof. vm_compute. reflexivity. Qed.

(** what reading section k of [d] does to the reader's object [d0] *)
Definition supd (k : string) (d d0 : t2d) : t2d :=
  if k =? "SIMUL" then set_simulator d0 (strip (simulator d))
  else if k =? "ROCKS" then set_rocks d0 (canon_rocks T0 (rocks d))
  else if k =? "PARAM" then set_param d0 (canon_param T0 d0 d)
  else if k =? "MOMOP" then set_momop d0 (momop d)
  else if k =? "START" then set_start d0 true
  else if k =? "NOVER" then set_noversion d0 true
  else if k =? "RPCAP" then set_capil (set_relperm d0 (canon_tp T0 "relative_permeability" (relperm d))) (canon_tp T0 "capillarity" (capil d))
  else if k =? "LINEQ" then set_lineq d0 (canon_dict T0 "lineq" (lineq d0) (lineq d))
  else if k =? "SOLVR" then set_solver d0 (canon_dict T0 "solver" (solver d0) (solver d))
  else if k =? "MULTI" then match strip_eos (canon_dict T0 (multi_spec d) (multi d0) (multi d)) with Ok m => set_multi d0 m | Raise _ => d0 end
  else if k =? "TIMES" then
    match otimes d with
    | Some x => set_otimes d0 (Some (canon_times T0 (match otimes d0 with Some (y, _) => y | None => [] end) x))
    | None => d0 end
  else if k =? "ELEME" then set_blocks d0 (canon_blocks T0 (blocks d))
  else if k =? "CONNE" then set_conns d0 (canon_conns T0 (conns d))
  else if k =? "GENER" then set_gens d0 (canon_gens T0 (gens d))
  else if k =? "INCON" then set_incon d0 (canon_incons T0 d)
  else if k =? "SELEC" then match selection d with Some x => set_selection d0 (Some (canon_selection T0 x)) | None => d0 end
  else if k =? "DIFFU" then
    match dget (multi d0) "num_phases" with Some (XInt np) => set_diffusion d0 (canon_diffusion T0 np (diffusion d)) | _ => d0 end
  else if k =? "FOFT" then set_hist_block d0 (hist_block d)
  else if k =? "COFT" then set_hist_conn d0 (hist_conn d)
  else if k =? "GOFT" then set_hist_gen d0 (hist_gen d)
  else if k =? "INDOM" then set_indom d0 (canon_indom T0 (indom d))
  else if k =? "SHORT" then match short d with Some s => set_short d0 (Some (canon_short s)) | None => d0 end
  else if k =? "MESHM" then set_meshmaker d0 (map (canon_mm T0) (meshmaker d))
  else d0.

(** what section k of [d] must satisfy for the reader in state [d0] *)
Definition secwf (k : string) (d d0 : t2d) : bool :=
  if k =? "SIMUL" then
    nonempty (strip (simulator d)) && no_nl (strip (simulator d)) && (length (strip (simulator d)) <=? rec_width T0 "simulator")%nat
  else if k =? "ROCKS" then forallb (wf_rock T0) (rocks d)
  else if k =? "PARAM" then wf_param T0 param_keywords d0 d
  else if k =? "MOMOP" then forallb digit_z (momop d) && (length (momop d) =? 21)%nat
  else if k =? "START" then start d
  else if k =? "NOVER" then noversion d
  else if k =? "RPCAP" then isSome (relperm d)
  else if k =? "LINEQ" then nonempty (lineq d)
  else if k =? "SOLVR" then nonempty (solver d)
  else if k =? "MULTI" then nonempty (multi d) && Bool.eqb (autough2 d0) (autough2 d) &&
                             is_ok (strip_eos (canon_dict T0 (multi_spec d) (multi d0) (multi d)))
  else if k =? "TIMES" then
    match otimes d with
    | Some (dt, tl) =>
        match dget dt "num_times_specified", nth_error (Sections.sp T0 "output_times1") 0 with
        | Some (XInt z), Some f => fits_int f z && (Z.of_nat (length tl) =? z)%Z
        | _, _ => false end
    | None => false end
  else if k =? "ELEME" then forallb (wf_block T0 (rocks d0)) (blocks d)
  else if k =? "CONNE" then forallb (wf_conn T0 (blocks d0)) (conns d)
  else if k =? "GENER" then nonempty (gens d) && forallb (wf_gen T0) (gens d)
  else if k =? "INCON" then nonempty (incon d) && forallb (wf_inc T0) (incon_items d) && negb (nonempty (incon d0))
  else if k =? "SELEC" then match selection d with Some x => wf_selection T0 x | None => false end
  else if k =? "DIFFU" then
    nonempty (diffusion d) && negb (nonempty (diffusion d0)) &&
    match dget (multi d0) "num_components", dget (multi d0) "num_phases" with
    | Some (XInt nc), Some (XInt _) => (nc =? Z.of_nat (length (diffusion d)))%Z
    | _, _ => false end
  else if k =? "FOFT" then nonempty (hist_block d) && forallb hname_ok (hist_block d) && forallb (keep_block d0) (hist_block d)
  else if k =? "COFT" then nonempty (hist_conn d) && forallb hpair_ok (hist_conn d) && forallb (keep_conn d0) (hist_conn d)
  else if k =? "GOFT" then nonempty (hist_gen d) && forallb hname_ok (hist_gen d) && forallb (keep_block d0) (hist_gen d)
  else if k =? "INDOM" then nonempty (indom d) && forallb (wf_indom1) (indom d) && negb (nonempty (indom d0))
  else if k =? "SHORT" then match short d with Some s => wf_short d0 s && negb (isSome (short d0)) | None => false end
  else if k =? "MESHM" then nonempty (meshmaker d) && forallb (wf_mm T0) (meshmaker d) && negb (nonempty (meshmaker d0))
  else false.

(** the call the keyword loop makes for keyword k (no extra-precision companion) *)
Definition rname (k : string) : string := match slookup (s2l k) read_fn_names with Some m => m | None => "" end.
Definition dispatch (d0 : t2d) (k : string) (line : str) (r : file) : res (t2d * option str * file) :=
  if rname k =? "read_simulator" then read_simulator_xp d0 None r else read_method T0 d0 (rname k) line r.
Definition wsec (d : t2d) (k : string) : res file := write_section T0 write_fn_names d (s2l k).

Definition next_ok0 := next_ok param_keywords.

Lemma simul_line s : no_nl s = true -> (length s <= rec_width T0 "simulator")%nat ->
  vnth (pline T0 "simulator" (s ++ [nl])%list) 0 = XStr s.
Proof.
  intros NL L. pose proof tables_ok_true as TK. unfold tables_ok in TK.
  repeat (apply andb_prop in TK as [TK ?]). unfold simul_table_ok in *.
  match goal with H : shape_ok T0 "simulator" _ _ && _ = true |- _ => apply andb_prop in H as [SH _] end.
  destruct (shape_nth _ _ _ _ 0 Ts SH eq_refl) as [f [N0 [Ty _]]].
  pose proof (shape_length _ _ _ _ SH) as SL. unfold rec_width in L.
  destruct (Sections.sp T0 "simulator") as [|g [|g' gs]] eqn:S; try discriminate. cbn in N0. inversion N0; subst g. cbn in L. rewrite Nat.add_0_r in L.
  unfold pline, parse, parse_string, field_slices. fold (Sections.sp T0 "simulator"). rewrite S.
  cbn [map line_spec combine fst snd vnth nth]. unfold slice. cbn [skipn]. rewrite Nat.sub_0_r, Nat.add_0_l.
  unfold default_rf. rewrite Ty. cbn [rv2v]. f_equal.
  destruct (Nat.eq_dec (length s) (width f)) as [E|E].
  - rewrite <- E, firstn_app, firstn_all, Nat.sub_diag. cbn [firstn]. rewrite app_nil_r. apply rstrip_c_clean. exact NL.
  - rewrite firstn_all2 by (rewrite app_length; cbn [length]; lia). apply rstrip_c_nl. exact NL.
Qed.

Lemma disp_SIMUL d0 line r : dispatch d0 "SIMUL" line r = read_simulator_xp d0 None r.
Proof. reflexivity. Qed.
Lemma wsec_SIMUL d : wsec d "SIMUL" = write_simulator d.
Proof. reflexivity. Qed.
Lemma disp_ROCKS d0 line r : dispatch d0 "ROCKS" line r = lift (read_rocks T0 d0 r).
Proof. reflexivity. Qed.
Lemma wsec_ROCKS d : wsec d "ROCKS" = write_rocks T0 d.
Proof. reflexivity. Qed.
Lemma disp_PARAM d0 line r : dispatch d0 "PARAM" line r = read_param T0 param_keywords d0 r.
Proof. reflexivity. Qed.
Lemma wsec_PARAM d : wsec d "PARAM" = write_param T0 d.
Proof. reflexivity. Qed.
Lemma disp_MOMOP d0 line r : dispatch d0 "MOMOP" line r = lift (read_momop T0 d0 r).
Proof. reflexivity. Qed.
Lemma wsec_MOMOP d : wsec d "MOMOP" = write_momop T0 d.
Proof. reflexivity. Qed.
Lemma disp_START d0 line r : dispatch d0 "START" line r = Ok (set_start d0 true, None, r).
Proof. reflexivity. Qed.
Lemma wsec_START d : wsec d "START" = write_start d.
Proof. reflexivity. Qed.
Lemma disp_NOVER d0 line r : dispatch d0 "NOVER" line r = Ok (set_noversion d0 true, None, r).
Proof. reflexivity. Qed.
Lemma wsec_NOVER d : wsec d "NOVER" = write_noversion d.
Proof. reflexivity. Qed.
Lemma disp_RPCAP d0 line r : dispatch d0 "RPCAP" line r = lift (read_rpcap T0 d0 r).
Proof. reflexivity. Qed.
Lemma wsec_RPCAP d : wsec d "RPCAP" = write_rpcap T0 d.
Proof. reflexivity. Qed.
Lemma disp_LINEQ d0 line r : dispatch d0 "LINEQ" line r = lift (read_lineq T0 d0 r).
Proof. reflexivity. Qed.
Lemma wsec_LINEQ d : wsec d "LINEQ" = write_lineq T0 d.
Proof. reflexivity. Qed.
Lemma disp_SOLVR d0 line r : dispatch d0 "SOLVR" line r = lift (read_solver T0 d0 r).
Proof. reflexivity. Qed.
Lemma wsec_SOLVR d : wsec d "SOLVR" = write_solver T0 d.
Proof. reflexivity. Qed.
Lemma disp_MULTI d0 line r : dispatch d0 "MULTI" line r = lift (read_multi T0 d0 r).
Proof. reflexivity. Qed.
Lemma wsec_MULTI d : wsec d "MULTI" = write_multi T0 d.
Proof. reflexivity. Qed.
Lemma disp_TIMES d0 line r : dispatch d0 "TIMES" line r = lift (read_times T0 d0 r).
Proof. reflexivity. Qed.
Lemma wsec_TIMES d : wsec d "TIMES" = write_times T0 d.
Proof. reflexivity. Qed.
Lemma disp_ELEME d0 line r : dispatch d0 "ELEME" line r = lift (read_blocks T0 d0 r).
Proof. reflexivity. Qed.
Lemma wsec_ELEME d : wsec d "ELEME" = write_blocks T0 d.
Proof. reflexivity. Qed.
Lemma disp_CONNE d0 line r : dispatch d0 "CONNE" line r = lift (read_conns T0 d0 r).
Proof. reflexivity. Qed.
Lemma wsec_CONNE d : wsec d "CONNE" = write_conns T0 d.
Proof. reflexivity. Qed.
Lemma disp_GENER d0 line r : dispatch d0 "GENER" line r = lift (read_gens T0 d0 r).
Proof. reflexivity. Qed.
Lemma wsec_GENER d : wsec d "GENER" = write_gens T0 d.
Proof. reflexivity. Qed.
Lemma disp_INCON d0 line r : dispatch d0 "INCON" line r = lift (read_incons T0 d0 r).
Proof. reflexivity. Qed.
Lemma wsec_INCON d : wsec d "INCON" = write_incons T0 d.
Proof. reflexivity. Qed.
Lemma disp_SELEC d0 line r : dispatch d0 "SELEC" line r = lift (read_selection T0 d0 r).
Proof. reflexivity. Qed.
Lemma wsec_SELEC d : wsec d "SELEC" = write_selection T0 d.
Proof. reflexivity. Qed.
Lemma disp_DIFFU d0 line r : dispatch d0 "DIFFU" line r = lift (read_diffusion T0 d0 r).
Proof. reflexivity. Qed.
Lemma wsec_DIFFU d : wsec d "DIFFU" = write_diffusion T0 d.
Proof. reflexivity. Qed.
Lemma disp_FOFT d0 line r : dispatch d0 "FOFT" line r = lift (read_hist_block d0 r).
Proof. reflexivity. Qed.
Lemma wsec_FOFT d : wsec d "FOFT" = write_hist_block d.
Proof. reflexivity. Qed.
Lemma disp_COFT d0 line r : dispatch d0 "COFT" line r = lift (read_hist_conn d0 r).
Proof. reflexivity. Qed.
Lemma wsec_COFT d : wsec d "COFT" = write_hist_conn d.
Proof. reflexivity. Qed.
Lemma disp_GOFT d0 line r : dispatch d0 "GOFT" line r = lift (read_hist_gen d0 r).
Proof. reflexivity. Qed.
Lemma wsec_GOFT d : wsec d "GOFT" = write_hist_gen d.
Proof. reflexivity. Qed.
Lemma disp_INDOM d0 line r : dispatch d0 "INDOM" line r = lift (read_indom T0 d0 r).
Proof. reflexivity. Qed.
Lemma wsec_INDOM d : wsec d "INDOM" = write_indom T0 d.
Proof. reflexivity. Qed.
Lemma disp_SHORT d0 line r : dispatch d0 "SHORT" line r = lift (read_short T0 d0 line r).
Proof. reflexivity. Qed.
Lemma wsec_SHORT d : wsec d "SHORT" = write_short d.
Proof. reflexivity. Qed.
Lemma disp_MESHM d0 line r : dispatch d0 "MESHM" line r = lift (read_meshmaker T0 d0 r).
Proof. reflexivity. Qed.
Lemma wsec_MESHM d : wsec d "MESHM" = write_meshmaker T0 d.
Proof. reflexivity. Qed.
(** ** one section: the writer's lines start with the keyword line, the reader consumes exactly them *)
Definition plain (k : string) : bool := negb (k =? "PARAM").
Theorem section_step21 k d d0 lines : In k covered21 -> wsec d k = Ok lines -> secwf k d d0 = true ->
  exists body, lines = kw k :: body /\
    if plain k then forall line rest, dispatch d0 k line (body ++ rest)%list = Ok (supd k d d0, None, rest)
    else forall line nextl rest, next_ok0 nextl = true ->
         dispatch d0 k line (body ++ nextl :: rest)%list = Ok (supd k d d0, Some (padstring nextl), rest).
Proof.
  pose proof tables_ok_true as TK. unfold tables_ok in TK. apply andb_prop in TK as [TK _]. apply andb_prop in TK as [TK _]. apply andb_prop in TK as [TK K10].
  apply andb_prop in TK as [TK K9]. apply andb_prop in TK as [TK K8]. apply andb_prop in TK as [TK K7].
  apply andb_prop in TK as [TK K6]. apply andb_prop in TK as [TK K5]. apply andb_prop in TK as [TK K4].
  apply andb_prop in TK as [TK K3]. apply andb_prop in TK as [K1 K2].
  intros IN W WF. unfold covered21 in IN. cbn [In] in IN.
  repeat (destruct IN as [IN|IN]; [subst k|]); [..|contradiction];
    unfold secwf in WF; cbn [String.eqb Ascii.eqb Bool.eqb] in WF;
    unfold plain, supd; cbn [String.eqb Ascii.eqb Bool.eqb negb].
  - (* SIMUL *)
    rewrite wsec_SIMUL in W.
    apply andb_prop in WF as [WF L]. apply andb_prop in WF as [NE NL]. apply Nat.leb_le in L.
    unfold write_simulator in W. destruct (simulator d) as [|c s] eqn:S; [cbn in NE; discriminate|]. rewrite <- S in *.
    inv_ok W. eexists. split; [reflexivity|]. intros line rest. rewrite disp_SIMUL. unfold lift.
    unfold read_simulator_xp, read_simulator. cbn [app readline bind]. rewrite (simul_line _ NL L). cbn [bind fst snd].
    destruct (autough2 (set_simulator d0 (strip (simulator d)))); reflexivity.
  - (* ROCKS *)
    rewrite wsec_ROCKS in W.
    destruct lines as [|l0 body]; [unfold write_rocks in W; destruct (write_list _ _); discriminate|].
    assert (l0 = kw "ROCKS") by (unfold write_rocks in W; destruct (write_list _ _); cbn in W; [inversion W; reflexivity|discriminate]). subst l0.
    exists body. split; [reflexivity|]. intros line rest. rewrite disp_ROCKS. unfold lift. rewrite (rocks_roundtrip T0 d body K1 W WF d0 rest). reflexivity.
  - (* PARAM *)
    rewrite wsec_PARAM in W.
    destruct lines as [|l0 body]; [unfold write_param in W; repeat (match type of W with bind ?x _ = _ => destruct x; cbn [bind] in W; try discriminate end)|].
    assert (l0 = kw "PARAM").
    { unfold write_param in W. repeat (match type of W with bind ?x _ = _ => destruct x; cbn [bind] in W; try discriminate end). inversion W; reflexivity. }
    subst l0. exists body. split; [reflexivity|]. intros line nextl rest NX. rewrite disp_PARAM.
    apply (param_roundtrip T0 param_keywords d body d0 K9 W WF nextl rest NX).
  - (* MOMOP *)
    rewrite wsec_MOMOP in W.
    apply andb_prop in WF as [D L]. apply Nat.eqb_eq in L.
    destruct lines as [|l0 body]; [unfold write_momop in W; destruct (wline _ _ _); discriminate|].
    assert (l0 = kw "MOMOP") by (unfold write_momop in W; destruct (wline _ _ _); cbn in W; [inversion W; reflexivity|discriminate]). subst l0.
    exists body. split; [reflexivity|]. intros line rest. rewrite disp_MOMOP. unfold lift. rewrite (momop_roundtrip T0 d body K6 W D L d0 rest). reflexivity.
  - (* START *)
    rewrite wsec_START in W.
    unfold write_start in W. rewrite WF in W. inv_ok W. exists []. split; [reflexivity|]. intros line rest. rewrite disp_START. reflexivity.
  - (* NOVER *)
    rewrite wsec_NOVER in W.
    unfold write_noversion in W. rewrite WF in W. inv_ok W. exists []. split; [reflexivity|]. intros line rest. rewrite disp_NOVER. reflexivity.
  - (* RPCAP *)
    rewrite wsec_RPCAP in W.
    destruct lines as [|l0 body].
    { unfold write_rpcap in W. destruct (relperm d) as [[? ?]|]; [|discriminate]. destruct (wline _ _ _); cbn [bind] in W; [|discriminate].
      destruct (capil d) as [[? ?]|]; [|discriminate]. destruct (wline _ _ _); discriminate. }
    assert (l0 = kw "RPCAP").
    { unfold write_rpcap in W. destruct (relperm d) as [[? ?]|]; [|discriminate]. destruct (wline _ _ _); cbn [bind] in W; [|discriminate].
      destruct (capil d) as [[? ?]|]; [|discriminate]. destruct (wline _ _ _); cbn [bind] in W; [|discriminate]. inversion W; reflexivity. }
    subst l0. exists body. split; [reflexivity|]. intros line rest. rewrite disp_RPCAP. unfold lift. rewrite (rpcap_roundtrip T0 d body W d0 rest). reflexivity.
  - (* LINEQ *)
    rewrite wsec_LINEQ in W.
    destruct lines as [|l0 body]; [unfold write_lineq, write_dictsec in W; destruct (lineq d); [discriminate|]; destruct (wline _ _ _); discriminate|].
    assert (l0 = kw "LINEQ").
    { unfold write_lineq, write_dictsec in W. destruct (lineq d); [discriminate|]. destruct (wline _ _ _); cbn [bind] in W; [|discriminate]. inversion W; reflexivity. }
    subst l0. exists body. split; [reflexivity|]. intros line rest. rewrite disp_LINEQ. unfold lift. rewrite (lineq_roundtrip T0 d body W d0 rest). reflexivity.
  - (* SOLVR *)
    rewrite wsec_SOLVR in W.
    destruct lines as [|l0 body]; [unfold write_solver, write_dictsec in W; destruct (solver d); [discriminate|]; destruct (wline _ _ _); discriminate|].
    assert (l0 = kw "SOLVR").
    { unfold write_solver, write_dictsec in W. destruct (solver d); [discriminate|]. destruct (wline _ _ _); cbn [bind] in W; [|discriminate]. inversion W; reflexivity. }
    subst l0. exists body. split; [reflexivity|]. intros line rest. rewrite disp_SOLVR. unfold lift. rewrite (solver_roundtrip T0 d body W d0 rest). reflexivity.
  - (* MULTI *)
    rewrite wsec_MULTI in W.
    apply andb_prop in WF as [WF OK]. apply andb_prop in WF as [NE A]. apply Bool.eqb_prop in A.
    destruct lines as [|l0 body]; [unfold write_multi in W; destruct (multi d); [discriminate|]; destruct (wline _ _ _); discriminate|].
    assert (l0 = kw "MULTI").
    { unfold write_multi in W. destruct (multi d); [discriminate|]. destruct (wline _ _ _); cbn [bind] in W; [|discriminate]. inversion W; reflexivity. }
    subst l0. exists body. split; [reflexivity|]. intros line rest. rewrite disp_MULTI. unfold lift. rewrite (multi_roundtrip T0 d body W d0 rest A).
    destruct (strip_eos _); [reflexivity|discriminate].
  - (* TIMES *)
    rewrite wsec_TIMES in W.
    destruct (otimes d) as [[dt tl]|] eqn:OT; [|discriminate].
    destruct (dget dt "num_times_specified") as [[|z| |]|] eqn:NT; try discriminate.
    destruct (nth_error (Sections.sp T0 "output_times1") 0) as [f|] eqn:N0; [|discriminate].
    apply andb_prop in WF as [FI LN]. apply Z.eqb_eq in LN.
    destruct lines as [|l0 body].
    { unfold write_times in W. rewrite OT in W. destruct (wline _ _ _); cbn [bind] in W; [|discriminate].
      destruct (ceil_div _ _); cbn [bind] in W; [|discriminate]. destruct (write_chunks _ _ _ _); discriminate. }
    assert (l0 = kw "TIMES").
    { unfold write_times in W. rewrite OT in W. destruct (wline _ _ _); cbn [bind] in W; [|discriminate].
      destruct (ceil_div _ _); cbn [bind] in W; [|discriminate]. destruct (write_chunks _ _ _ _); cbn [bind] in W; [|discriminate]. inversion W; reflexivity. }
    subst l0. exists body. split; [reflexivity|]. intros line rest. rewrite disp_TIMES. unfold lift.
    rewrite (times_roundtrip T0 d dt tl body K7 OT W z NT) by (try rewrite N0; assumption). reflexivity.
  - (* ELEME *)
    rewrite wsec_ELEME in W.
    destruct lines as [|l0 body]; [unfold write_blocks in W; destruct (write_list _ _); discriminate|].
    assert (l0 = kw "ELEME") by (unfold write_blocks in W; destruct (write_list _ _); cbn in W; [inversion W; reflexivity|discriminate]). subst l0.
    exists body. split; [reflexivity|]. intros line rest. rewrite disp_ELEME. unfold lift. rewrite (blocks_roundtrip T0 d body K2 W d0 rest WF). reflexivity.
  - (* CONNE *)
    rewrite wsec_CONNE in W.
    destruct lines as [|l0 body]; [unfold write_conns in W; destruct (write_list _ _); discriminate|].
    assert (l0 = kw "CONNE") by (unfold write_conns in W; destruct (write_list _ _); cbn in W; [inversion W; reflexivity|discriminate]). subst l0.
    exists body. split; [reflexivity|]. intros line rest. rewrite disp_CONNE. unfold lift. rewrite (conns_roundtrip T0 d body K3 W d0 rest WF). reflexivity.
  - (* GENER *)
    rewrite wsec_GENER in W.
    apply andb_prop in WF as [NE WF].
    destruct lines as [|l0 body]; [unfold write_gens in W; destruct (gens d); [discriminate|]; destruct (write_list _ _); discriminate|].
    assert (l0 = kw "GENER").
    { unfold write_gens in W. destruct (gens d); [discriminate|]. destruct (write_list _ _); cbn [bind] in W; [|discriminate]. inversion W; reflexivity. }
    subst l0. exists body. split; [reflexivity|]. intros line rest. rewrite disp_GENER. unfold lift. rewrite (gens_roundtrip T0 d body K4 W WF d0 rest). reflexivity.
  - (* INCON *)
    rewrite wsec_INCON in W.
    apply andb_prop in WF as [WF E0]. apply andb_prop in WF as [NE WF].
    assert (I0 : incon d0 = []) by (destruct (incon d0); [reflexivity|discriminate]).
    destruct lines as [|l0 body]; [unfold write_incons in W; destruct (incon d); [discriminate|]; destruct (write_list _ _); discriminate|].
    assert (l0 = kw "INCON").
    { unfold write_incons in W. destruct (incon d); [discriminate|]. destruct (write_list _ _); cbn [bind] in W; [|discriminate]. inversion W; reflexivity. }
    subst l0. exists body. split; [reflexivity|]. intros line rest. rewrite disp_INCON. unfold lift. rewrite (incons_roundtrip T0 d body K5 W WF d0 rest I0). reflexivity.  - (* SELEC *)
    rewrite wsec_SELEC in W. destruct (selection d) as [x|] eqn:SX; [|discriminate].
    destruct lines as [|l0 body].
    { unfold write_selection in W. rewrite SX in W. destruct x. destruct (wline _ _ _); cbn [bind] in W; [|discriminate].
      destruct (v_nat _); cbn [bind] in W; [|discriminate]. destruct (write_chunks _ _ _ _); discriminate. }
    assert (l0 = kw "SELEC").
    { unfold write_selection in W. rewrite SX in W. destruct x. destruct (wline _ _ _); cbn [bind] in W; [|discriminate].
      destruct (v_nat _); cbn [bind] in W; [|discriminate]. destruct (write_chunks _ _ _ _); cbn [bind] in W; [|discriminate]. inversion W; reflexivity. }
    subst l0. exists body. split; [reflexivity|]. intros line rest. rewrite disp_SELEC. unfold lift.
    rewrite (selection_roundtrip T0 d x body K10 SX W WF d0 rest). reflexivity.
  - (* DIFFU *)
    rewrite wsec_DIFFU in W. apply andb_prop in WF as [WF MC]. apply andb_prop in WF as [NE E0].
    assert (I0 : diffusion d0 = []) by (destruct (diffusion d0); [reflexivity|discriminate]).
    destruct (dget (multi d0) "num_components") as [[|nc| |]|] eqn:NC; try discriminate.
    destruct (dget (multi d0) "num_phases") as [[|np| |]|] eqn:NP; try discriminate. apply Z.eqb_eq in MC. subst nc.
    destruct lines as [|l0 body]; [unfold write_diffusion in W; destruct (diffusion d); [discriminate|]; destruct (mapM _ _); discriminate|].
    assert (l0 = kw "DIFFU").
    { unfold write_diffusion in W. destruct (diffusion d); [discriminate|]. destruct (mapM _ _); cbn [bind] in W; [|discriminate]. inversion W; reflexivity. }
    subst l0. exists body. split; [reflexivity|]. intros line rest. rewrite disp_DIFFU. unfold lift.
    rewrite (diffusion_roundtrip T0 d body W d0 rest np NC NP I0). reflexivity.
  - (* FOFT *)
    rewrite wsec_FOFT in W. apply andb_prop in WF as [WF KP]. apply andb_prop in WF as [NE HN].
    destruct lines as [|l0 body]; [unfold write_hist_block, write_names in W; destruct (hist_block d); discriminate|].
    assert (l0 = kw "FOFT") by (unfold write_hist_block, write_names in W; destruct (hist_block d); [discriminate|]; inversion W; reflexivity).
    subst l0. exists body. split; [reflexivity|]. intros line rest. rewrite disp_FOFT. unfold lift.
    rewrite (foft_roundtrip d body W d0 rest HN KP). reflexivity.
  - (* COFT *)
    rewrite wsec_COFT in W. apply andb_prop in WF as [WF KP]. apply andb_prop in WF as [NE HN].
    destruct lines as [|l0 body]; [unfold write_hist_conn in W; destruct (hist_conn d); discriminate|].
    assert (l0 = kw "COFT") by (unfold write_hist_conn in W; destruct (hist_conn d); [discriminate|]; inversion W; reflexivity).
    subst l0. exists body. split; [reflexivity|]. intros line rest. rewrite disp_COFT. unfold lift.
    rewrite (coft_roundtrip d body W d0 rest HN KP). reflexivity.
  - (* GOFT *)
    rewrite wsec_GOFT in W. apply andb_prop in WF as [WF KP]. apply andb_prop in WF as [NE HN].
    destruct lines as [|l0 body]; [unfold write_hist_gen, write_names in W; destruct (hist_gen d); discriminate|].
    assert (l0 = kw "GOFT") by (unfold write_hist_gen, write_names in W; destruct (hist_gen d); [discriminate|]; inversion W; reflexivity).
    subst l0. exists body. split; [reflexivity|]. intros line rest. rewrite disp_GOFT. unfold lift.
    rewrite (goft_roundtrip d body W d0 rest HN KP). reflexivity.
  - (* INDOM *)
    rewrite wsec_INDOM in W. apply andb_prop in WF as [WF E0]. apply andb_prop in WF as [NE WI].
    assert (I0 : indom d0 = []) by (destruct (indom d0); [reflexivity|discriminate]).
    destruct lines as [|l0 body]; [unfold write_indom in W; destruct (indom d); [discriminate|]; destruct (write_list _ _); discriminate|].
    assert (l0 = kw "INDOM").
    { unfold write_indom in W. destruct (indom d); [discriminate|]. destruct (write_list _ _); cbn [bind] in W; [|discriminate]. inversion W; reflexivity. }
    subst l0. exists body. split; [reflexivity|]. intros line rest. rewrite disp_INDOM. unfold lift.
    rewrite (indom_roundtrip T0 d body W WI d0 rest I0). reflexivity.
Qed.

(** ** the keyword loop *)
Definition push (k : string) (d1 : t2d) : t2d := set_sections d1 (sections d1 +++ [s2l k]).
Fixpoint chain_ok (d : t2d) (ks : list string) (d0 : t2d) : bool :=
  match ks with
  | [] => true
  | k :: r => existsb (String.eqb k) covered && secwf k d d0 && chain_ok d r (push k (supd k d d0))
  end.
Fixpoint final (d : t2d) (ks : list string) (d0 : t2d) : t2d :=
  match ks with [] => d0 | k :: r => final d r (push k (supd k d d0)) end.
Definition is_end (e : str) : bool := str_eqb e (s2l "ENDCY") || str_eqb e (s2l "ENDFI").

Lemma covered_in k : existsb (String.eqb k) covered = true -> In k covered.
Proof. intro H. apply existsb_exists in H as [x [I E]]. apply String.eqb_eq in E. subst. exact I. Qed.

(** facts about a covered keyword line, by computation on the regenerated lists *)
Definition kwline (k : string) (l0 : str) : Prop :=
  strip (slice 0 5 l0) = s2l k /\ strip (slice 0 5 (padstring l0)) = s2l k /\ next_ok0 l0 = true /\
  (exists c l, padstring l0 = c :: l) /\ (exists c l, l0 = c :: l).
Lemma kwline_kw k : In k covered21 -> kwline k (kw k).
Proof.
  intro IN. unfold covered21 in IN. cbn [In] in IN. unfold kwline.
  repeat (destruct IN as [IN|IN]; [subst k; vm_compute; repeat split; eauto|]). contradiction.
Qed.
Lemma key_facts k : In k covered ->
  in_str (s2l k) end_kws = false /\ in_str (s2l k) all_sections = true /\ slookup (s2l k) read_fn_names = Some (rname k).
Proof.
  intro IN. unfold covered, covered21 in IN. cbn [In app] in IN.
  repeat (destruct IN as [IN|IN]; [subst k; vm_compute; repeat split; eauto|]). contradiction.
Qed.
Lemma kwline_short f : kwline "SHORT" (header_of f).
Proof.
  unfold kwline, header_of, padstring, ljust. cbn [s2l list_ascii_of_string app].
  repeat split; try reflexivity; eauto.
Qed.
Lemma kwline_meshm : kwline "MESHM" (kw "MESHMAKER").
Proof. unfold kwline. vm_compute. repeat split; eauto. Qed.

(** every section kind: the writer's first line is its keyword line; the reader, given that line
    (as read, or padded when it was the PARAM look-ahead), consumes exactly the rest *)
Theorem section_step k d d0 lines : In k covered -> wsec d k = Ok lines -> secwf k d d0 = true ->
  exists l0 body, lines = l0 :: body /\ kwline k l0 /\
    if plain k then forall line rest, line = l0 \/ line = padstring l0 ->
                    dispatch d0 k line (body ++ rest)%list = Ok (supd k d d0, None, rest)
    else forall line nextl rest, next_ok0 nextl = true ->
         dispatch d0 k line (body ++ nextl :: rest)%list = Ok (supd k d d0, Some (padstring nextl), rest).
Proof.
  intros IN W WF. unfold covered in IN. apply in_app_or in IN as [IN|IN].
  - destruct (section_step21 k d d0 lines IN W WF) as [body [E ST]]. exists (kw k), body.
    split; [exact E|]. split; [apply kwline_kw; exact IN|].
    destruct (plain k); [intros line rest _; apply ST|exact ST].
  - pose proof tables_ok_true as TK. unfold tables_ok in TK. apply andb_prop in TK as [TK KM]. apply andb_prop in TK as [_ KS].
    cbn [In] in IN. destruct IN as [IN|[IN|IN]]; [subst k|subst k|contradiction];
      unfold secwf in WF; cbn [String.eqb Ascii.eqb Bool.eqb] in WF; unfold plain, supd; cbn [String.eqb Ascii.eqb Bool.eqb negb].
    + rewrite wsec_SHORT in W. destruct (short d) as [s|] eqn:SD; [|discriminate]. apply andb_prop in WF as [WF S0].
      assert (E0 : short d0 = None) by (destruct (short d0); [discriminate|reflexivity]).
      destruct (short_roundtrip T0 d s lines KS SD W d0 E0 WF) as [f [body [E R]]].
      exists (header_of f), body. split; [exact E|]. split; [apply kwline_short|].
      intros line rest LN. rewrite disp_SHORT. unfold lift. rewrite (R line rest LN). reflexivity.
    + rewrite wsec_MESHM in W. apply andb_prop in WF as [WF E0]. apply andb_prop in WF as [NE WM].
      assert (I0 : meshmaker d0 = []) by (destruct (meshmaker d0); [reflexivity|discriminate]).
      destruct lines as [|l0 body]; [unfold write_meshmaker in W; destruct (meshmaker d); [discriminate|]; destruct (mapM _ _); discriminate|].
      assert (l0 = kw "MESHMAKER").
      { unfold write_meshmaker in W. destruct (meshmaker d); [discriminate|]. destruct (mapM _ _); cbn [bind] in W; [|discriminate]. inversion W; reflexivity. }
      subst l0. exists (kw "MESHMAKER"), body. split; [reflexivity|]. split; [apply kwline_meshm|].
      intros line rest _. rewrite disp_MESHM. unfold lift. rewrite (meshmaker_roundtrip T0 d body KM W WM d0 rest I0). reflexivity.
Qed.
Lemma end_facts e : is_end e = true ->
  strip (slice 0 5 (e +++ [nl])) = e /\ strip (slice 0 5 (padstring (e +++ [nl]))) = e /\ in_str e end_kws = true /\
  next_ok0 (e +++ [nl]) = true /\ (exists c l, padstring (e +++ [nl]) = c :: l) /\ (exists c l, e +++ [nl] = c :: l).
Proof.
  unfold is_end. intro H. apply orb_prop in H as [H|H]; apply str_eqb_eq in H; subst e; vm_compute; repeat split; eauto.
Qed.
Lemma xprec_supd k d d0 : xprec (push k (supd k d d0)) = xprec d0.
Proof.
  unfold push, supd.
  repeat match goal with |- context [if ?b then _ else _] => destruct b; [try reflexivity|] end; try reflexivity.
  all: repeat match goal with |- context [match ?x with _ => _ end] => destruct x end; reflexivity.
Qed.

(** one turn of the loop on a covered keyword line, read from the file or handed over as look-ahead *)
Lemma loop_turn k d0 (next : option str) ls line r d1 look r' fuel :
  In k covered -> xprec d0 = [] ->
  (match next with Some (c :: l) => (c :: l, ls) | _ => readline ls end) = (line, r) ->
  (exists c l, line = c :: l) -> strip (slice 0 5 line) = s2l k ->
  dispatch d0 k line r = Ok (d1, look, r') ->
  read_loop (S fuel) None d0 next ls = read_loop fuel None (push k d1) look r'.
Proof.
  intros IN XP EN [c [l NE]] KW DP. destruct (key_facts k IN) as [F3 [F4 F5]].
  cbn [read_loop]. rewrite EN. subst line. rewrite KW, F3, F4.
  unfold reader_name. rewrite XP. cbn [in_str existsb andb]. rewrite andb_false_r. rewrite F5.
  unfold dispatch in DP. rewrite DP. cbn [bind]. reflexivity.
Qed.
Lemma loop_end d0 (next : option str) ls line r e fuel :
  (match next with Some (c :: l) => (c :: l, ls) | _ => readline ls end) = (line, r) ->
  (exists c l, line = c :: l) -> strip (slice 0 5 line) = e -> in_str e end_kws = true ->
  read_loop (S fuel) None d0 next ls = Ok (set_end_keyword d0 e).
Proof.
  intros EN [c [l NE]] KW IE. cbn [read_loop]. rewrite EN. subst line. rewrite KW, IE. reflexivity.
Qed.

Lemma write_sections_cons d k r all : write_sections T0 write_fn_names d (s2l k :: r) = Ok all ->
  exists a b, wsec d k = Ok a /\ write_sections T0 write_fn_names d r = Ok b /\ all = (a ++ b)%list.
Proof.
  cbn [write_sections]. fold (wsec d k). destruct (wsec d k) as [a|]; cbn [bind]; [|discriminate].
  destruct (write_sections T0 write_fn_names d r) as [b|]; cbn [bind]; [|discriminate].
  intro H. inv_ok H. eauto.
Qed.
(** what follows a section: the next keyword line, or the end line *)
Lemma head_next d e : is_end e = true -> forall ks d0 all, write_sections T0 write_fn_names d (map s2l ks) = Ok all -> chain_ok d ks d0 = true ->
  exists nextl rest, (all ++ [e +++ [nl]])%list = nextl :: rest /\ next_ok0 nextl = true.
Proof.
  intros E ks d0 all W C. destruct ks as [|k r].
  - cbn in W. inv_ok W. exists (e +++ [nl]), []. split; [reflexivity|]. apply (end_facts e E).
  - cbn [map] in W. destruct (write_sections_cons _ _ _ _ W) as [a [b [Wa [Wb EQ]]]]. subst all.
    cbn [chain_ok] in C. apply andb_prop in C as [C _]. apply andb_prop in C as [IN WF]. apply covered_in in IN.
    destruct (section_step k d d0 a IN Wa WF) as [l0 [body [EA [KL _]]]]. subst a.
    exists l0, ((body ++ b) ++ [e +++ [nl]])%list. split; [reflexivity|]. apply KL.
Qed.

Theorem loop_sections d e : is_end e = true -> forall ks d0 fuel all,
  write_sections T0 write_fn_names d (map s2l ks) = Ok all -> chain_ok d ks d0 = true -> xprec d0 = [] -> (length ks < fuel)%nat ->
  read_loop fuel None d0 None (all ++ [e +++ [nl]])%list = Ok (set_end_keyword (final d ks d0) e) /\
  (forall l0 rest, (all ++ [e +++ [nl]])%list = l0 :: rest ->
     read_loop fuel None d0 (Some (padstring l0)) rest = Ok (set_end_keyword (final d ks d0) e)).
Proof.
  intro E. destruct (end_facts e E) as [E1 [E2 [E3 [_ [E5 E6]]]]].
  induction ks as [|k r IH]; intros d0 fuel all W C XP F.
  - cbn in W. inv_ok W. destruct fuel; [lia|]. cbn [app final]. split.
    + eapply loop_end; [reflexivity|exact E6|exact E1|exact E3].
    + intros l0 rest EQ. inversion EQ; subst. destruct E5 as [c [l P]].
      apply (loop_end d0 (Some (padstring (e +++ [nl]))) [] (padstring (e +++ [nl])) [] e fuel); [rewrite P; reflexivity|eauto|exact E2|exact E3].
  - cbn [map] in W. destruct (write_sections_cons _ _ _ _ W) as [a [b [Wa [Wb EQ]]]]. subst all.
    cbn [chain_ok] in C. apply andb_prop in C as [C CR]. apply andb_prop in C as [IN WF]. apply covered_in in IN.
    destruct (section_step k d d0 a IN Wa WF) as [l0 [body [EA [[F1 [F2 [_ [F7 F8]]]] ST]]]]. subst a.
    destruct fuel; [cbn in F; lia|]. cbn [length] in F.
    assert (XP' : xprec (push k (supd k d d0)) = []) by (rewrite xprec_supd; exact XP).
    assert (F' : (length r < fuel)%nat) by lia.
    cbn [final].
    destruct (plain k) eqn:PL.
    + (* a section that reads exactly its own lines *)
      destruct (IH (push k (supd k d d0)) fuel b Wb CR XP' F') as [IA _].
      split.
      * rewrite (loop_turn k d0 None _ l0 ((body ++ b) ++ [e +++ [nl]])%list (supd k d d0) None (b ++ [e +++ [nl]])%list fuel IN XP); auto.
        rewrite <- app_assoc. apply ST. left. reflexivity.
      * intros l1 rest EQ. cbn [app] in EQ. inversion EQ; subst l1 rest. destruct F7 as [c [l P]].
        rewrite (loop_turn k d0 (Some (padstring l0)) _ (padstring l0) ((body ++ b) ++ [e +++ [nl]])%list (supd k d d0) None (b ++ [e +++ [nl]])%list fuel IN XP); auto.
        -- rewrite P. reflexivity.
        -- eauto.
        -- rewrite <- app_assoc. apply ST. right. reflexivity.
    + (* PARAM: the next line comes back as look-ahead *)
      destruct (head_next d e E r (push k (supd k d d0)) b Wb CR) as [nextl [rest' [EQ NX]]].
      destruct (IH (push k (supd k d d0)) fuel b Wb CR XP' F') as [_ IB].
      specialize (IB nextl rest' EQ).
      split.
      * rewrite (loop_turn k d0 None _ l0 ((body ++ b) ++ [e +++ [nl]])%list (supd k d d0) (Some (padstring nextl)) rest' fuel IN XP); auto.
        rewrite <- app_assoc, EQ. apply ST. exact NX.
      * intros l1 rest EQ0. cbn [app] in EQ0. inversion EQ0; subst l1 rest. destruct F7 as [c [l P]].
        rewrite (loop_turn k d0 (Some (padstring l0)) _ (padstring l0) ((body ++ b) ++ [e +++ [nl]])%list (supd k d d0) (Some (padstring nextl)) rest' fuel IN XP); auto.
        -- rewrite P. reflexivity.
        -- eauto.
        -- rewrite <- app_assoc, EQ. apply ST. exact NX.
Qed.

(** ** the whole file *)
Lemma line80 k s : shape_ok T0 k [Ts] 0 = true -> no_nl s = true -> (length s <= rec_width T0 k)%nat ->
  vnth (pline T0 k (s ++ [nl])%list) 0 = XStr s.
Proof.
  intros SH NL L.
  destruct (shape_nth _ _ _ _ 0 Ts SH eq_refl) as [f [N0 [Ty _]]].
  pose proof (shape_length _ _ _ _ SH) as SL. unfold rec_width in L.
  destruct (Sections.sp T0 k) as [|g [|g' gs]] eqn:S; try discriminate. cbn in N0. inversion N0; subst g. cbn in L. rewrite Nat.add_0_r in L.
  unfold pline, parse, parse_string, field_slices. fold (Sections.sp T0 k). rewrite S.
  cbn [map line_spec combine fst snd vnth nth]. unfold slice. cbn [skipn]. rewrite Nat.sub_0_r, Nat.add_0_l.
  unfold default_rf. rewrite Ty. cbn [rv2v]. f_equal.
  destruct (Nat.eq_dec (length s) (width f)) as [E|E].
  - rewrite <- E, firstn_app, firstn_all, Nat.sub_diag. cbn [firstn]. rewrite app_nil_r. apply rstrip_c_clean. exact NL.
  - rewrite firstn_all2 by (rewrite app_length; cbn [length]; lia). apply rstrip_c_nl. exact NL.
Qed.
Definition title_ok (d : t2d) : bool := no_nl (strip (title d)) && (length (strip (title d)) <=? rec_width T0 "title")%nat.
Definition start_state (d : t2d) : t2d := set_sections (set_title empty_t2d (strip (title d))) [].

Lemma write_section_sections T names d s k : write_section T names (set_sections d s) k = write_section T names d k.
Proof. destruct d. reflexivity. Qed.
Lemma write_sections_sections T names d s ks : write_sections T names (set_sections d s) ks = write_sections T names d ks.
Proof. induction ks as [|k r IH]; [reflexivity|]. cbn [write_sections]. rewrite write_section_sections, IH. reflexivity. Qed.
Lemma filter_all {A} (p : A -> bool) l : (forall x, p x = true) -> filter p l = l.
Proof. intro H. induction l as [|a l IH]; [reflexivity|]. cbn. rewrite H, IH. reflexivity. Qed.
Lemma xprec_final d ks : forall d0, xprec (final d ks d0) = xprec d0.
Proof. induction ks as [|k r IH]; intro d0; [reflexivity|]. cbn [final]. rewrite IH. apply xprec_supd. Qed.
Lemma chain_lines d : forall ks d0 all, write_sections T0 write_fn_names d (map s2l ks) = Ok all -> chain_ok d ks d0 = true ->
  (length ks <= length all)%nat.
Proof.
  induction ks as [|k r IH]; intros d0 all W C; [cbn; lia|].
  cbn [map] in W. destruct (write_sections_cons _ _ _ _ W) as [a [b [Wa [Wb EQ]]]]. subst all.
  cbn [chain_ok] in C. apply andb_prop in C as [C CR]. apply andb_prop in C as [IN WF]. apply covered_in in IN.
  destruct (section_step k d d0 a IN Wa WF) as [l0 [body [EA _]]]. subst a.
  specialize (IH _ _ Wb CR). rewrite app_length. cbn [length]. lia.
Qed.

(** the main file written for [d] (mesh in the file, no extra precision) *)
Lemma write_lines_shape d ls : write_lines d = Ok ls -> update_sections d = sections d -> xprec d = [] ->
  exists all, write_sections T0 write_fn_names d (sections d) = Ok all /\
              ls = ((strip (title d) +++ [nl]) :: all ++ [end_keyword d +++ [nl]])%list.
Proof.
  intros W US XP. unfold write_lines, write_files in W. rewrite US in W. cbn [w_mesh] in W. cbn [bind] in W.
  assert (X : (if autough2 (set_sections d (sections d)) then write_xp (mk_wcfg 0 None None) (set_sections d (sections d))
               else Ok (set_sections d (sections d), None)) = Ok (set_sections d (sections d), None)).
  { destruct (autough2 _); [|reflexivity]. unfold write_xp. cbn [w_xp w_echo].
    replace (xprec (set_sections d (sections d))) with (xprec d) by (destruct d; reflexivity). rewrite XP. reflexivity. }
  rewrite X in W. cbn [bind] in W.
  replace (xprec (set_sections d (sections d))) with (xprec d) in W by (destruct d; reflexivity). rewrite XP in W.
  rewrite filter_all in W by (intro x; reflexivity).
  replace (sections (set_sections d (sections d))) with (sections d) in W by (destruct d; reflexivity).
  rewrite write_sections_sections in W.
  destruct (write_sections T0 write_fn_names d (sections d)) as [all|]; cbn [bind] in W; [|discriminate].
  inv_ok W. exists all. split; [reflexivity|]. cbn [f_main snd]. destruct d; reflexivity.
Qed.

(** THE round trip, for any subset and order [ks] of the covered sections *)
Theorem read_write_main d ks ls :
  write_lines d = Ok ls ->
  update_sections d = sections d -> sections d = map s2l ks -> xprec d = [] -> is_end (end_keyword d) = true ->
  title_ok d = true -> chain_ok d ks (start_state d) = true ->
  read_lines ls = Ok (set_end_keyword (final d ks (start_state d)) (end_keyword d)).
Proof.
  intros W US SK XP EK TI CH.
  destruct (write_lines_shape d ls W US XP) as [all [WS EL]]. subst ls. rewrite SK in WS.
  pose proof tables_ok_true as TK. unfold tables_ok in TK.
  apply andb_prop in TK as [TK _]. apply andb_prop in TK as [TK _]. apply andb_prop in TK as [TK _]. apply andb_prop in TK as [TK _]. apply andb_prop in TK as [_ K8]. unfold simul_table_ok in K8. apply andb_prop in K8 as [_ SHT].
  unfold title_ok in TI. apply andb_prop in TI as [NL LT]. apply Nat.leb_le in LT.
  unfold read_lines, read_files. cbn [f_main f_mesh f_pdat].
  unfold read_title. cbn [readline]. rewrite (line80 "title" _ SHT NL LT). fold (start_state d).
  destruct (loop_sections d (end_keyword d) EK ks (start_state d)
              (2 * length ((strip (title d) +++ [nl]) :: all ++ [end_keyword d +++ [nl]])%list + 2) all WS CH eq_refl) as [A _].
  { pose proof (chain_lines d ks _ all WS CH). cbn [length]. rewrite app_length. lia. }
  match goal with |- bind ?X _ = _ =>
    assert (EX : X = Ok (set_end_keyword (final d ks (start_state d)) (end_keyword d))) by exact A end.
  rewrite EX. cbn [bind].
  assert (XF : xprec (set_end_keyword (final d ks (start_state d)) (end_keyword d)) = []).
  { replace (xprec (set_end_keyword (final d ks (start_state d)) (end_keyword d))) with (xprec (final d ks (start_state d)))
      by (destruct (final d ks (start_state d)); reflexivity).
    rewrite xprec_final. reflexivity. }
  rewrite XF. destruct read_reinfers_echo; reflexivity.
Qed.

(** the extra-precision table has the same shape for the sections the companion file holds *)
Definition xp_tables_ok : bool := rocks_table_ok T1 && blocks_table_ok T1 && conns_table_ok T1 && gener_table_ok T1.
Lemma xp_tables_ok_true : xp_tables_ok = true.
Proof. vm_compute. reflexivity. Qed.

(** ** the mesh in a separate ASCII file: write(filename, meshfilename) / t2data(filename, meshfilename) *)
Lemma blocks_supd k d d0 : (k =? "ELEME") = false -> blocks (push k (supd k d d0)) = blocks d0.
Proof.
  intro H. unfold push, supd. rewrite H.
  repeat match goal with |- context [if ?b then _ else _] => destruct b; [try reflexivity|] end; try reflexivity.
  all: repeat match goal with |- context [match ?x with _ => _ end] => destruct x end; reflexivity.
Qed.
Lemma blocks_final d ks : forallb (fun k => negb (k =? "ELEME")) ks = true -> forall d0, blocks (final d ks d0) = blocks d0.
Proof.
  induction ks as [|k r IH]; intros H d0; [reflexivity|]. cbn [forallb] in H. apply andb_prop in H as [H1 H2].
  cbn [final]. rewrite (IH H2). apply blocks_supd. apply negb_true_iff. exact H1.
Qed.
Definition mesh_state (d d2 : t2d) : t2d :=
  let a := push "ELEME" (set_blocks d2 (canon_blocks T0 (blocks d))) in
  push "CONNE" (set_conns a (canon_conns T0 (conns d))).
Theorem read_meshfile_lines d ml : (do a <- write_blocks T0 d; do b <- write_conns T0 d; Ok (a +++ b)) = Ok ml ->
  forall d2, forallb (wf_block T0 (rocks d2)) (blocks d) = true ->
  forallb (wf_conn T0 (canon_blocks T0 (blocks d))) (conns d) = true ->
  read_mesh_loop (S (length ml)) d2 ml = Ok (mesh_state d d2).
Proof.
  pose proof tables_ok_true as TK. unfold tables_ok in TK. repeat (apply andb_prop in TK as [TK ?]).
  intros W d2 WB WC.
  destruct (write_blocks T0 d) as [a|] eqn:WA; cbn [bind] in W; [|discriminate].
  destruct (write_conns T0 d) as [b|] eqn:WBc; cbn [bind] in W; [|discriminate]. inv_ok W.
  assert (EA : exists ba, a = kw "ELEME" :: ba).
  { unfold write_blocks in WA. destruct (write_list _ _); cbn [bind] in WA; [|discriminate]. inv_ok WA. eauto. }
  assert (EB : exists bb, b = kw "CONNE" :: bb).
  { unfold write_conns in WBc. destruct (write_list _ _); cbn [bind] in WBc; [|discriminate]. inv_ok WBc. eauto. }
  destruct EA as [ba EA]. destruct EB as [bb EB]. subst a b.
  cbn [app length read_mesh_loop]. change (strip (slice 0 5 (kw "ELEME"))) with (s2l "ELEME"). cbn [str_eqb ceqb s2l list_ascii_of_string andb Ascii.eqb Bool.eqb].
  match goal with H : blocks_table_ok T0 = true |- _ => rewrite (blocks_roundtrip T0 d ba H WA d2 (kw "CONNE" :: bb) WB) end.
  cbn [bind fst snd]. destruct (length (ba ++ kw "CONNE" :: bb)%list) as [|n] eqn:L; [rewrite app_length in L; cbn in L; lia|].
  cbn [read_mesh_loop]. change (strip (slice 0 5 (kw "CONNE"))) with (s2l "CONNE"). cbn [str_eqb ceqb s2l list_ascii_of_string andb Ascii.eqb Bool.eqb].
  rewrite <- (app_nil_r bb).
  match goal with H : conns_table_ok T0 = true |- _ =>
    rewrite (conns_roundtrip T0 d bb H WBc (set_sections (set_blocks d2 (canon_blocks T0 (blocks d))) _) [] WC) end.
  cbn [bind fst snd]. destruct n; reflexivity.
Qed.

Definition main_secs (d : t2d) : list str := filter (fun k => negb (in_str k mesh_kws)) (sections d).
Lemma write_files_mesh_shape d d' fs : write_files (mk_wcfg 1 None None) d = Ok (d', fs) -> update_sections d = sections d -> xprec d = [] ->
  exists all ml, write_sections T0 write_fn_names d (main_secs d) = Ok all /\
     (do a <- write_blocks T0 d; do b <- write_conns T0 d; Ok (a +++ b)) = Ok ml /\
     fs = mk_files ((strip (title d) +++ [nl]) :: all ++ [end_keyword d +++ [nl]])%list (Some ml) None.
Proof.
  intros W US XP. unfold write_files in W. rewrite US in W. cbn [w_mesh] in W.
  replace (write_blocks T0 (set_sections d (sections d))) with (write_blocks T0 d) in W by (destruct d; reflexivity).
  replace (write_conns T0 (set_sections d (sections d))) with (write_conns T0 d) in W by (destruct d; reflexivity).
  destruct (do a <- write_blocks T0 d; do b <- write_conns T0 d; Ok (Some (a +++ b))) as [mesh|] eqn:WM; cbn [bind] in W; [|discriminate].
  assert (X : (if autough2 (set_sections d (sections d)) then write_xp (mk_wcfg 1 None None) (set_sections d (sections d))
               else Ok (set_sections d (sections d), None)) = Ok (set_sections d (sections d), None)).
  { destruct (autough2 _); [|reflexivity]. unfold write_xp. cbn [w_xp w_echo].
    replace (xprec (set_sections d (sections d))) with (xprec d) by (destruct d; reflexivity). rewrite XP. reflexivity. }
  rewrite X in W. cbn [bind] in W.
  replace (xprec (set_sections d (sections d))) with (xprec d) in W by (destruct d; reflexivity). rewrite XP in W.
  replace (sections (set_sections d (sections d))) with (sections d) in W by (destruct d; reflexivity).
  assert (FE : filter (fun k => negb (in_str k mesh_kws) && (negb (in_str k []) || xecho (set_sections d (sections d)))) (sections d) = main_secs d).
  { unfold main_secs. apply filter_ext. intro k. cbn [in_str existsb negb orb]. apply andb_true_r. }
  rewrite FE in W. rewrite write_sections_sections in W.
  destruct (write_sections T0 write_fn_names d (main_secs d)) as [all|]; cbn [bind] in W; [|discriminate].
  inv_ok W.
  destruct (write_blocks T0 d) as [a|]; cbn [bind] in WM; [|discriminate].
  destruct (write_conns T0 d) as [b|]; cbn [bind] in WM; [|discriminate]. inv_ok WM.
  exists all, (a +++ b). split; [reflexivity|]. split; [reflexivity|]. destruct d; reflexivity.
Qed.

(** THE round trip with the mesh in a separate ASCII file (MESH): the main file's sections in any legal order,
    then ELEME and CONNE from the mesh file, appended to the section list as read_meshfile does *)
Theorem read_write_meshfile d ks d' fs :
  write_files (mk_wcfg 1 None None) d = Ok (d', fs) ->
  update_sections d = sections d -> main_secs d = map s2l ks -> xprec d = [] -> is_end (end_keyword d) = true ->
  title_ok d = true -> chain_ok d ks (start_state d) = true -> forallb (fun k => negb (k =? "ELEME")) ks = true ->
  let d2 := set_end_keyword (final d ks (start_state d)) (end_keyword d) in
  forallb (wf_block T0 (rocks d2)) (blocks d) = true -> forallb (wf_conn T0 (canon_blocks T0 (blocks d))) (conns d) = true ->
  read_files fs = Ok (mesh_state d d2).
Proof.
  intros W US SK XP EK TI CH NE d2 WB WC.
  destruct (write_files_mesh_shape d d' fs W US XP) as [all [ml [WS [WM EF]]]]. subst fs. rewrite SK in WS.
  pose proof tables_ok_true as TK. unfold tables_ok in TK.
  apply andb_prop in TK as [TK _]. apply andb_prop in TK as [TK _]. apply andb_prop in TK as [TK _]. apply andb_prop in TK as [TK _]. apply andb_prop in TK as [_ K8]. unfold simul_table_ok in K8. apply andb_prop in K8 as [_ SHT].
  unfold title_ok in TI. apply andb_prop in TI as [NL LT]. apply Nat.leb_le in LT.
  unfold read_files. cbn [f_main f_mesh f_pdat].
  unfold read_title. cbn [readline]. rewrite (line80 "title" _ SHT NL LT). fold (start_state d).
  destruct (loop_sections d (end_keyword d) EK ks (start_state d)
              (2 * length ((strip (title d) +++ [nl]) :: all ++ [end_keyword d +++ [nl]])%list + 2) all WS CH eq_refl) as [A _].
  { pose proof (chain_lines d ks _ all WS CH). cbn [length]. rewrite app_length. lia. }
  match goal with |- bind ?X _ = _ => assert (EX : X = Ok d2) by exact A end.
  rewrite EX. cbn [bind].
  assert (XF : xprec d2 = []).
  { unfold d2. replace (xprec (set_end_keyword (final d ks (start_state d)) (end_keyword d))) with (xprec (final d ks (start_state d)))
      by (destruct (final d ks (start_state d)); reflexivity).
    rewrite xprec_final. reflexivity. }
  assert (BF : blocks d2 = []).
  { unfold d2. replace (blocks (set_end_keyword (final d ks (start_state d)) (end_keyword d))) with (blocks (final d ks (start_state d)))
      by (destruct (final d ks (start_state d)); reflexivity).
    rewrite (blocks_final d ks NE). reflexivity. }
  rewrite XF.
  assert (D2 : (if read_reinfers_echo then d2 else d2) = d2) by (destruct read_reinfers_echo; reflexivity).
  rewrite D2, BF. apply (read_meshfile_lines d ml WM d2 WB WC).
Qed.
