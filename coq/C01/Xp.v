(** C01 -- the extra-precision companion file (.pdat): write(extra_precision = xs,
    echo_extra_precision = b) / t2data(filename) with the companion present.  The companion is
    read first (inside SIMUL), with the extra-precision table; the sections it holds are then
    skipped in the main file if they were echoed there. *)
From Coq Require Import Ascii String List Bool Arith ZArith NArith Lia.
From PTBase Require Import Exn PyStr PyNum PyVal Fmt FixedFormat.
From Gen Require Import GenTables GenSections.
From P Require Import Comb Obj Fields Sections SectionsB Rec SecRocks SecMesh SecGener SecMisc SecParam SecHist SecSel SecShort SecMeshm T2DataIO Whole.
Import ListNotations.
Open Scope string_scope.

(** ** the companion file *)
Definition xp_kinds : list string := ["ROCKS"; "ELEME"; "CONNE"; "RPCAP"; "GENER"].
Definition supd1 (k : string) (d d0 : t2d) : t2d :=
  if k =? "ROCKS" then set_rocks d0 (canon_rocks T1 (rocks d))
  else if k =? "ELEME" then set_blocks d0 (canon_blocks T1 (blocks d))
  else if k =? "CONNE" then set_conns d0 (canon_conns T1 (conns d))
  else if k =? "RPCAP" then set_capil (set_relperm d0 (canon_tp T1 "relative_permeability" (relperm d))) (canon_tp T1 "capillarity" (capil d))
  else if k =? "GENER" then set_gens d0 (canon_gens T1 (gens d))
  else d0.
Definition secwf1 (k : string) (d d0 : t2d) : bool :=
  if k =? "ROCKS" then forallb (wf_rock T1) (rocks d)
  else if k =? "ELEME" then forallb (wf_block T1 (rocks d0)) (blocks d)
  else if k =? "CONNE" then forallb (wf_conn T1 (blocks d0)) (conns d)
  else if k =? "RPCAP" then isSome (relperm d)
  else if k =? "GENER" then nonempty (gens d) && forallb (wf_gen T1) (gens d)
  else false.
(** RPCAP and GENER write nothing when there is nothing to write *)
Definition xpresent (k : string) (d : t2d) : bool :=
  if k =? "RPCAP" then isSome (relperm d) else if k =? "GENER" then nonempty (gens d) else true.
Definition wsec1 (d : t2d) (k : string) : res file := write_section T1 xp_write_fn_names d (s2l k).
Definition rname1 (k : string) : string := match slookup (s2l k) xp_read_fn_names with Some m => m | None => "" end.

Lemma wsec1_absent k d : In k xp_kinds -> xpresent k d = false -> wsec1 d k = Ok [].
Proof.
  unfold xp_kinds. cbn [In]. intros IN H.
  repeat (destruct IN as [IN|IN]; [subst k; try discriminate H|]); [| |contradiction].
  - unfold xpresent in H. cbn [String.eqb Ascii.eqb Bool.eqb] in H. change (wsec1 d "RPCAP") with (write_rpcap T1 d).
    unfold write_rpcap. destruct (relperm d); [discriminate|reflexivity].
  - unfold xpresent in H. cbn [String.eqb Ascii.eqb Bool.eqb] in H. change (wsec1 d "GENER") with (write_gens T1 d).
    unfold write_gens. destruct (gens d); [reflexivity|discriminate].
Qed.
Theorem xp_section_step k d d0 lines : In k xp_kinds -> xpresent k d = true -> wsec1 d k = Ok lines -> secwf1 k d d0 = true ->
  exists body, lines = kw k :: body /\
    forall line rest, read_method T1 d0 (rname1 k) line (body ++ rest)%list = Ok (supd1 k d d0, None, rest).
Proof.
  pose proof xp_tables_ok_true as TK. unfold xp_tables_ok in TK.
  apply andb_prop in TK as [TK K4]. apply andb_prop in TK as [TK K3]. apply andb_prop in TK as [K1 K2].
  unfold xp_kinds. cbn [In]. intros IN XP W WF.
  repeat (destruct IN as [IN|IN]; [subst k|]); [..|contradiction];
    unfold secwf1 in WF; cbn [String.eqb Ascii.eqb Bool.eqb] in WF; unfold supd1; cbn [String.eqb Ascii.eqb Bool.eqb].
  - change (wsec1 d "ROCKS") with (write_rocks T1 d) in W. change (rname1 "ROCKS") with "read_rocktypes".
    destruct lines as [|l0 body]; [unfold write_rocks in W; destruct (write_list _ _); discriminate|].
    assert (l0 = kw "ROCKS") by (unfold write_rocks in W; destruct (write_list _ _); cbn in W; [inversion W; reflexivity|discriminate]). subst l0.
    exists body. split; [reflexivity|]. intros line rest. change (read_method T1 d0 "read_rocktypes" line (body ++ rest)%list) with (lift (read_rocks T1 d0 (body ++ rest)%list)).
    unfold lift. rewrite (rocks_roundtrip T1 d body K1 W WF d0 rest). reflexivity.
  - change (wsec1 d "ELEME") with (write_blocks T1 d) in W. change (rname1 "ELEME") with "read_blocks".
    destruct lines as [|l0 body]; [unfold write_blocks in W; destruct (write_list _ _); discriminate|].
    assert (l0 = kw "ELEME") by (unfold write_blocks in W; destruct (write_list _ _); cbn in W; [inversion W; reflexivity|discriminate]). subst l0.
    exists body. split; [reflexivity|]. intros line rest. change (read_method T1 d0 "read_blocks" line (body ++ rest)%list) with (lift (read_blocks T1 d0 (body ++ rest)%list)).
    unfold lift. rewrite (blocks_roundtrip T1 d body K2 W d0 rest WF). reflexivity.
  - change (wsec1 d "CONNE") with (write_conns T1 d) in W. change (rname1 "CONNE") with "read_connections".
    destruct lines as [|l0 body]; [unfold write_conns in W; destruct (write_list _ _); discriminate|].
    assert (l0 = kw "CONNE") by (unfold write_conns in W; destruct (write_list _ _); cbn in W; [inversion W; reflexivity|discriminate]). subst l0.
    exists body. split; [reflexivity|]. intros line rest. change (read_method T1 d0 "read_connections" line (body ++ rest)%list) with (lift (read_conns T1 d0 (body ++ rest)%list)).
    unfold lift. rewrite (conns_roundtrip T1 d body K3 W d0 rest WF). reflexivity.
  - change (wsec1 d "RPCAP") with (write_rpcap T1 d) in W. change (rname1 "RPCAP") with "read_rpcap".
    destruct lines as [|l0 body].
    { unfold write_rpcap in W. destruct (relperm d) as [[? ?]|]; [|discriminate]. destruct (wline _ _ _); cbn [bind] in W; [|discriminate].
      destruct (capil d) as [[? ?]|]; [|discriminate]. destruct (wline _ _ _); discriminate. }
    assert (l0 = kw "RPCAP").
    { unfold write_rpcap in W. destruct (relperm d) as [[? ?]|]; [|discriminate]. destruct (wline _ _ _); cbn [bind] in W; [|discriminate].
      destruct (capil d) as [[? ?]|]; [|discriminate]. destruct (wline _ _ _); cbn [bind] in W; [|discriminate]. inversion W; reflexivity. }
    subst l0. exists body. split; [reflexivity|]. intros line rest.
    change (read_method T1 d0 "read_rpcap" line (body ++ rest)%list) with (lift (read_rpcap T1 d0 (body ++ rest)%list)).
    unfold lift. rewrite (rpcap_roundtrip T1 d body W d0 rest). reflexivity.
  - change (wsec1 d "GENER") with (write_gens T1 d) in W. change (rname1 "GENER") with "read_generators".
    apply andb_prop in WF as [NE WF].
    destruct lines as [|l0 body]; [unfold write_gens in W; destruct (gens d); [discriminate|]; destruct (write_list _ _); discriminate|].
    assert (l0 = kw "GENER").
    { unfold write_gens in W. destruct (gens d); [discriminate|]. destruct (write_list _ _); cbn [bind] in W; [|discriminate]. inversion W; reflexivity. }
    subst l0. exists body. split; [reflexivity|]. intros line rest.
    change (read_method T1 d0 "read_generators" line (body ++ rest)%list) with (lift (read_gens T1 d0 (body ++ rest)%list)).
    unfold lift. rewrite (gens_roundtrip T1 d body K4 W WF d0 rest). reflexivity.
Qed.

Definition pushx (k : string) (d0 : t2d) : t2d := set_xprec d0 (xprec d0 +++ [s2l k]).
Fixpoint xchain_ok (d : t2d) (xs : list string) (d0 : t2d) : bool :=
  match xs with
  | [] => true
  | k :: r => existsb (String.eqb k) xp_kinds &&
              (if xpresent k d then secwf1 k d (pushx k d0) && xchain_ok d r (supd1 k d (pushx k d0)) else xchain_ok d r d0)
  end.
Fixpoint xfinal (d : t2d) (xs : list string) (d0 : t2d) : t2d :=
  match xs with
  | [] => d0
  | k :: r => if xpresent k d then xfinal d r (supd1 k d (pushx k d0)) else xfinal d r d0
  end.
Lemma xp_kw_facts k : In k xp_kinds ->
  strip (slice 0 5 (kw k)) = s2l k /\ in_str (s2l k) end_kws = false /\ slookup (s2l k) xp_read_fn_names = Some (rname1 k).
Proof. unfold xp_kinds. cbn [In]. intro IN. repeat (destruct IN as [IN|IN]; [subst k; vm_compute; repeat split|]). contradiction. Qed.
Lemma in_xp_kinds k : existsb (String.eqb k) xp_kinds = true -> In k xp_kinds.
Proof. intro H. apply existsb_exists in H as [x [I E]]. apply String.eqb_eq in E. subst. exact I. Qed.
Lemma write_sections1_cons d k r all : write_sections T1 xp_write_fn_names d (s2l k :: r) = Ok all ->
  exists a b, wsec1 d k = Ok a /\ write_sections T1 xp_write_fn_names d r = Ok b /\ all = (a ++ b)%list.
Proof.
  cbn [write_sections]. fold (wsec1 d k). destruct (wsec1 d k) as [a|]; cbn [bind]; [|discriminate].
  destruct (write_sections T1 xp_write_fn_names d r) as [b|]; cbn [bind]; [|discriminate].
  intro H. inv_ok H. eauto.
Qed.
Theorem xp_loop d : forall xs d0 fuel pd,
  write_sections T1 xp_write_fn_names d (map s2l xs) = Ok pd -> xchain_ok d xs d0 = true -> (length pd < fuel)%nat ->
  read_xp_loop fuel d0 pd = Ok (xfinal d xs d0).
Proof.
  induction xs as [|k r IH]; intros d0 fuel pd W C F.
  - cbn in W. inv_ok W. destruct fuel; [lia|]. reflexivity.
  - cbn [map] in W. destruct (write_sections1_cons _ _ _ _ W) as [a [b [Wa [Wb E]]]]. subst pd.
    cbn [xchain_ok] in C. apply andb_prop in C as [IN C]. apply in_xp_kinds in IN. cbn [xfinal].
    destruct (xpresent k d) eqn:XP.
    + apply andb_prop in C as [WF CR].
      destruct (xp_section_step k d (pushx k d0) a IN XP Wa WF) as [body [EA ST]]. subst a.
      destruct (xp_kw_facts k IN) as [F1 [F2 F3]].
      destruct fuel; [cbn in F; lia|]. cbn [app read_xp_loop]. rewrite F1, F2, F3.
      fold (pushx k d0). rewrite ST. cbn [bind]. apply IH; [exact Wb|exact CR|].
      rewrite app_length in F. cbn [length] in F. lia.
    + rewrite (wsec1_absent k d IN XP) in Wa. inv_ok Wa. cbn [app] in *. apply IH; [exact Wb|exact C|exact F].
Qed.

(** what the companion's sections leave untouched *)
Lemma sections_supd1 k d d0 : sections (supd1 k d (pushx k d0)) = sections d0 /\ xecho (supd1 k d (pushx k d0)) = xecho d0 /\
  simulator (supd1 k d (pushx k d0)) = simulator d0.
Proof.
  unfold supd1, pushx. repeat match goal with |- context [if ?b then _ else _] => destruct b end; destruct d0; repeat split.
Qed.
Lemma xfinal_keeps d xs : forall d0, sections (xfinal d xs d0) = sections d0 /\ xecho (xfinal d xs d0) = xecho d0 /\ simulator (xfinal d xs d0) = simulator d0.
Proof.
  induction xs as [|k r IH]; intro d0; [repeat split|]. cbn [xfinal]. destruct (xpresent k d); [|apply IH].
  destruct (IH (supd1 k d (pushx k d0))) as [A [B C]]. destruct (sections_supd1 k d d0) as [A' [B' C']].
  rewrite A, B, C, A', B', C'. repeat split.
Qed.
(** read_extra_precision: at that point no main-file section has been recorded, so the echo flag is off *)
Definition xp_state (d : t2d) (xs : list string) (d1 : t2d) : t2d :=
  let dx := xfinal d xs d1 in set_xecho (set_sections dx (fold_left (fun l k => remove_first k l) (xprec dx) (sections dx))) false.
Theorem read_xp_pdat d xs d1 pd : write_sections T1 xp_write_fn_names d (map s2l xs) = Ok pd -> xchain_ok d xs d1 = true ->
  sections d1 = [] -> xecho d1 = true -> read_xp d1 pd = Ok (xp_state d xs d1).
Proof.
  intros W C S0 E0. unfold read_xp.
  assert (L : read_xp_loop (S (length pd)) d1 pd = Ok (xfinal d xs d1)).
  { apply (xp_loop d xs d1 _ pd W C). lia. }
  rewrite L. cbn [bind]. destruct (xfinal_keeps d xs d1) as [A [B _]]. unfold xp_state.
  assert (EB : forall l : list str, existsb (fun k => in_str k (sections (xfinal d xs d1))) l = false).
  { intro l. rewrite A, S0. induction l as [|x l IH]; [reflexivity|]. cbn. exact IH. }
  destruct (xprec (xfinal d xs d1)) as [|x0 xr] eqn:XPR.
  - unfold set_echo_arg. rewrite B, E0. cbn [Bool.eqb]. rewrite XPR. reflexivity.
  - rewrite EB. unfold set_echo_arg. rewrite B, E0. cbn [Bool.eqb]. rewrite XPR. reflexivity.
Qed.

(** ** the main file after the companion: its sections are skipped where they were echoed *)
Definition skipped (d0 : t2d) (k : string) : bool := negb (xecho d0) && in_str (s2l k) (xprec d0).
Definition sname (k : string) : string := match slookup (s2l k) skip_fn_names with Some m => m | None => "" end.
(** the call the keyword loop makes for keyword k, with companion [p] *)
Definition call (p : option file) (d0 : t2d) (k : string) (line : str) (r : file) : res (t2d * option str * file) :=
  match reader_name d0 (s2l k) with
  | Some m => if m =? "read_simulator" then read_simulator_xp d0 p r else read_method T0 d0 m line r
  | None => Raise KeyError
  end.
Definition nonblank (l : str) : bool := negb (blank l).
(** the lines of a skipped section: keyword line, non-blank lines, the blank line (RPCAP: two lines) *)
Definition skip_ok (d : t2d) (k : string) : bool :=
  match wsec d k with
  | Ok (l0 :: body) =>
      str_eqb l0 (kw k) &&
      (if k =? "RPCAP" then (length body =? 2)%nat
       else match rev body with last :: mid => blank last && forallb nonblank mid | [] => false end)
  | _ => false
  end.
Lemma skip_to_blank_lines : forall mid last rest fuel, forallb nonblank mid = true -> blank last = true -> (length mid < fuel)%nat ->
  skip_to_blank fuel (mid ++ last :: rest)%list = Ok rest.
Proof.
  induction mid as [|l mid IH]; intros last rest fuel NB BL F.
  - destruct fuel; [lia|]. cbn [app skip_to_blank readline]. rewrite BL. reflexivity.
  - destruct fuel; [cbn in F; lia|]. cbn [forallb] in NB. apply andb_prop in NB as [N1 N2]. unfold nonblank in N1. apply negb_true_iff in N1.
    cbn [app skip_to_blank readline]. rewrite N1. apply IH; [exact N2|exact BL|cbn in F; lia].
Qed.
Lemma skip_facts k : In k xp_kinds -> slookup (s2l k) skip_fn_names = Some (sname k) /\ (sname k =? "read_simulator") = false /\ In k covered21.
Proof. unfold xp_kinds. cbn [In]. intro IN. repeat (destruct IN as [IN|IN]; [subst k; vm_compute; repeat split; tauto|]). contradiction. Qed.
Lemma skip_turn k d d0 lines : In k xp_kinds -> wsec d k = Ok lines -> skip_ok d k = true ->
  exists body, lines = kw k :: body /\ forall line rest, read_method T0 d0 (sname k) line (body ++ rest)%list = Ok (d0, None, rest).
Proof.
  intros IN W SK. unfold skip_ok in SK. rewrite W in SK. destruct lines as [|l0 body]; [discriminate|].
  apply andb_prop in SK as [E SK]. apply str_eqb_eq in E. subst l0. exists body. split; [reflexivity|]. intros line rest.
  unfold xp_kinds in IN. cbn [In] in IN.
  repeat (destruct IN as [IN|IN]; [subst k|]); [..|contradiction]; cbn [String.eqb Ascii.eqb Bool.eqb] in SK.
  4:{ change (sname "RPCAP") with "skip_rpcap". apply Nat.eqb_eq in SK. destruct body as [|a [|b [|c r]]]; try discriminate. reflexivity. }
  all: destruct (rev body) as [|last mid] eqn:RB; [discriminate|]; apply andb_prop in SK as [BL NB];
    assert (EB : body = (rev mid ++ [last])%list) by (rewrite <- (rev_involutive body), RB; reflexivity);
    assert (NB' : forallb nonblank (rev mid) = true) by (rewrite forallb_rev; exact NB).
  - change (sname "ROCKS") with "skip_rocktypes". change (read_method T0 d0 "skip_rocktypes" line (body ++ rest)%list) with (do r <- skip_to_blank (S (length (body ++ rest)%list)) (body ++ rest)%list; Ok (d0, @None str, r)).
    rewrite EB, <- app_assoc. cbn [app]. rewrite skip_to_blank_lines; [reflexivity|exact NB'|exact BL|rewrite app_length; lia].
  - change (sname "ELEME") with "skip_blocks". change (read_method T0 d0 "skip_blocks" line (body ++ rest)%list) with (do r <- skip_to_blank (S (length (body ++ rest)%list)) (body ++ rest)%list; Ok (d0, @None str, r)).
    rewrite EB, <- app_assoc. cbn [app]. rewrite skip_to_blank_lines; [reflexivity|exact NB'|exact BL|rewrite app_length; lia].
  - change (sname "CONNE") with "skip_connections". change (read_method T0 d0 "skip_connections" line (body ++ rest)%list) with (do r <- skip_to_blank (S (length (body ++ rest)%list)) (body ++ rest)%list; Ok (d0, @None str, r)).
    rewrite EB, <- app_assoc. cbn [app]. rewrite skip_to_blank_lines; [reflexivity|exact NB'|exact BL|rewrite app_length; lia].
  - change (sname "GENER") with "skip_generators". change (read_method T0 d0 "skip_generators" line (body ++ rest)%list) with (do r <- skip_to_blank (S (length (body ++ rest)%list)) (body ++ rest)%list; Ok (d0, @None str, r)).
    rewrite EB, <- app_assoc. cbn [app]. rewrite skip_to_blank_lines; [reflexivity|exact NB'|exact BL|rewrite app_length; lia].
Qed.

Definition okX (k : string) (d d0 : t2d) : bool :=
  if skipped d0 k then existsb (String.eqb k) xp_kinds && skip_ok d k else negb (k =? "SIMUL") && secwf k d d0.
Definition stX (k : string) (d d0 : t2d) : t2d := if skipped d0 k then d0 else supd k d d0.
Lemma rname_simul k : In k covered -> (k =? "SIMUL") = false -> (rname k =? "read_simulator") = false.
Proof.
  unfold covered, covered21. cbn [In app]. intros IN NS.
  repeat (destruct IN as [IN|IN]; [subst k; try discriminate NS; reflexivity|]). contradiction.
Qed.
Theorem turnX p k d d0 lines : In k covered -> wsec d k = Ok lines -> okX k d d0 = true ->
  exists l0 body, lines = l0 :: body /\ kwline k l0 /\
    if plain k then forall line rest, line = l0 \/ line = padstring l0 ->
                    call p d0 k line (body ++ rest)%list = Ok (stX k d d0, None, rest)
    else forall line nextl rest, next_ok0 nextl = true ->
         call p d0 k line (body ++ nextl :: rest)%list = Ok (stX k d d0, Some (padstring nextl), rest).
Proof.
  intros IN W OK. unfold okX, stX in *. unfold call, reader_name. fold (skipped d0 k). destruct (skipped d0 k) eqn:SKP.
  - apply andb_prop in OK as [XK SO]. apply in_xp_kinds in XK. destruct (skip_facts k XK) as [S1 [S2 S3]].
    destruct (skip_turn k d d0 lines XK W SO) as [body [E R]]. exists (kw k), body. split; [exact E|]. split; [apply kwline_kw; exact S3|].
    assert (PL : plain k = true).
    { unfold xp_kinds in XK. cbn [In] in XK. repeat (destruct XK as [XK|XK]; [subst k; reflexivity|]). contradiction. }
    rewrite PL. intros line rest _. rewrite S1, S2. apply R.
  - apply andb_prop in OK as [NS WF]. apply negb_true_iff in NS.
    destruct (section_step k d d0 lines IN W WF) as [l0 [body [E [KL ST]]]]. exists l0, body. split; [exact E|]. split; [exact KL|].
    destruct (key_facts k IN) as [_ [_ F5]]. rewrite F5. rewrite (rname_simul k IN NS).
    unfold dispatch in ST. rewrite (rname_simul k IN NS) in ST. exact ST.
Qed.

Fixpoint chain_okX (d : t2d) (ks : list string) (d0 : t2d) : bool :=
  match ks with
  | [] => true
  | k :: r => existsb (String.eqb k) covered && okX k d d0 && chain_okX d r (push k (stX k d d0))
  end.
Fixpoint finalX (d : t2d) (ks : list string) (d0 : t2d) : t2d :=
  match ks with [] => d0 | k :: r => finalX d r (push k (stX k d d0)) end.

Lemma loop_turnX p k d0 (next : option str) ls line r d1 look r' fuel :
  In k covered ->
  (match next with Some (c :: l) => (c :: l, ls) | _ => readline ls end) = (line, r) ->
  (exists c l, line = c :: l) -> strip (slice 0 5 line) = s2l k ->
  call p d0 k line r = Ok (d1, look, r') ->
  read_loop (S fuel) p d0 next ls = read_loop fuel p (push k d1) look r'.
Proof.
  intros IN EN [c [l NE]] KW DP. destruct (key_facts k IN) as [F3 [F4 F5]].
  cbn [read_loop]. rewrite EN. subst line. rewrite KW, F3, F4.
  unfold call in DP. destruct (reader_name d0 (s2l k)) as [m|]; [|discriminate]. rewrite DP. cbn [bind]. reflexivity.
Qed.
Lemma loop_endX p d0 (next : option str) ls line r e fuel :
  (match next with Some (c :: l) => (c :: l, ls) | _ => readline ls end) = (line, r) ->
  (exists c l, line = c :: l) -> strip (slice 0 5 line) = e -> in_str e end_kws = true ->
  read_loop (S fuel) p d0 next ls = Ok (set_end_keyword d0 e).
Proof.
  intros EN [c [l NE]] KW IE. cbn [read_loop]. rewrite EN. subst line. rewrite KW, IE. reflexivity.
Qed.
Lemma head_nextX (p : option file) d e : is_end e = true -> forall ks d0 all, write_sections T0 write_fn_names d (map s2l ks) = Ok all -> chain_okX d ks d0 = true ->
  exists nextl rest, (all ++ [e +++ [nl]])%list = nextl :: rest /\ next_ok0 nextl = true.
Proof.
  intros E ks d0 all W C. destruct ks as [|k r].
  - cbn in W. inv_ok W. exists (e +++ [nl]), []. split; [reflexivity|]. apply (end_facts e E).
  - cbn [map] in W. destruct (write_sections_cons _ _ _ _ W) as [a [b [Wa [Wb EQ]]]]. subst all.
    cbn [chain_okX] in C. apply andb_prop in C as [C _]. apply andb_prop in C as [IN WF]. apply covered_in in IN.
    destruct (turnX p k d d0 a IN Wa WF) as [l0 [body [EA [KL _]]]]. subst a.
    exists l0, ((body ++ b) ++ [e +++ [nl]])%list. split; [reflexivity|]. apply KL.
Qed.
Theorem loop_sectionsX p d e : is_end e = true -> forall ks d0 fuel all,
  write_sections T0 write_fn_names d (map s2l ks) = Ok all -> chain_okX d ks d0 = true -> (length ks < fuel)%nat ->
  read_loop fuel p d0 None (all ++ [e +++ [nl]])%list = Ok (set_end_keyword (finalX d ks d0) e) /\
  (forall l0 rest, (all ++ [e +++ [nl]])%list = l0 :: rest ->
     read_loop fuel p d0 (Some (padstring l0)) rest = Ok (set_end_keyword (finalX d ks d0) e)).
Proof.
  intro E. destruct (end_facts e E) as [E1 [E2 [E3 [_ [E5 E6]]]]].
  induction ks as [|k r IH]; intros d0 fuel all W C F.
  - cbn in W. inv_ok W. destruct fuel; [lia|]. cbn [app finalX]. split.
    + eapply loop_endX; [reflexivity|exact E6|exact E1|exact E3].
    + intros l0 rest EQ. inversion EQ; subst. destruct E5 as [c [l P]].
      apply (loop_endX p d0 (Some (padstring (e +++ [nl]))) [] (padstring (e +++ [nl])) [] e fuel); [rewrite P; reflexivity|eauto|exact E2|exact E3].
  - cbn [map] in W. destruct (write_sections_cons _ _ _ _ W) as [a [b [Wa [Wb EQ]]]]. subst all.
    cbn [chain_okX] in C. apply andb_prop in C as [C CR]. apply andb_prop in C as [IN WF]. apply covered_in in IN.
    destruct (turnX p k d d0 a IN Wa WF) as [l0 [body [EA [[F1 [F2 [_ [F7 F8]]]] ST]]]]. subst a.
    destruct fuel; [cbn in F; lia|]. cbn [length] in F.
    assert (F' : (length r < fuel)%nat) by lia.
    cbn [finalX].
    destruct (plain k) eqn:PL.
    + destruct (IH (push k (stX k d d0)) fuel b Wb CR F') as [IA _].
      split.
      * rewrite (loop_turnX p k d0 None _ l0 ((body ++ b) ++ [e +++ [nl]])%list (stX k d d0) None (b ++ [e +++ [nl]])%list fuel IN); auto.
        rewrite <- app_assoc. apply ST. left. reflexivity.
      * intros l1 rest EQ. cbn [app] in EQ. inversion EQ; subst l1 rest. destruct F7 as [c [l P]].
        rewrite (loop_turnX p k d0 (Some (padstring l0)) _ (padstring l0) ((body ++ b) ++ [e +++ [nl]])%list (stX k d d0) None (b ++ [e +++ [nl]])%list fuel IN); auto.
        -- rewrite P. reflexivity.
        -- eauto.
        -- rewrite <- app_assoc. apply ST. right. reflexivity.
    + destruct (head_nextX p d e E r (push k (stX k d d0)) b Wb CR) as [nextl [rest' [EQ NX]]].
      destruct (IH (push k (stX k d d0)) fuel b Wb CR F') as [_ IB].
      specialize (IB nextl rest' EQ).
      split.
      * rewrite (loop_turnX p k d0 None _ l0 ((body ++ b) ++ [e +++ [nl]])%list (stX k d d0) (Some (padstring nextl)) rest' fuel IN); auto.
        rewrite <- app_assoc, EQ. apply ST. exact NX.
      * intros l1 rest EQ0. cbn [app] in EQ0. inversion EQ0; subst l1 rest. destruct F7 as [c [l P]].
        rewrite (loop_turnX p k d0 (Some (padstring l0)) _ (padstring l0) ((body ++ b) ++ [e +++ [nl]])%list (stX k d d0) (Some (padstring nextl)) rest' fuel IN); auto.
        -- rewrite P. reflexivity.
        -- eauto.
        -- rewrite <- app_assoc, EQ. apply ST. exact NX.
Qed.
Lemma chain_linesX (p : option file) d : forall ks d0 all, write_sections T0 write_fn_names d (map s2l ks) = Ok all -> chain_okX d ks d0 = true ->
  (length ks <= length all)%nat.
Proof.
  induction ks as [|k r IH]; intros d0 all W C; [cbn; lia|].
  cbn [map] in W. destruct (write_sections_cons _ _ _ _ W) as [a [b [Wa [Wb EQ]]]]. subst all.
  cbn [chain_okX] in C. apply andb_prop in C as [C CR]. apply andb_prop in C as [IN WF]. apply covered_in in IN.
  destruct (turnX p k d d0 a IN Wa WF) as [l0 [body [EA _]]]. subst a.
  specialize (IH _ _ Wb CR). rewrite app_length. cbn [length]. lia.
Qed.

(** ** the whole configuration *)
Lemma write_section_xprec T names d x k : write_section T names (set_xprec d x) k = write_section T names d k.
Proof. destruct d. reflexivity. Qed.
Lemma write_section_xecho T names d x k : write_section T names (set_xecho d x) k = write_section T names d k.
Proof. destruct d. reflexivity. Qed.
Lemma write_sections_xprec T names d x ks : write_sections T names (set_xprec d x) ks = write_sections T names d ks.
Proof. induction ks as [|k r IH]; [reflexivity|]. cbn [write_sections]. rewrite write_section_xprec, IH. reflexivity. Qed.
Lemma write_sections_xecho T names d x ks : write_sections T names (set_xecho d x) ks = write_sections T names d ks.
Proof. induction ks as [|k r IH]; [reflexivity|]. cbn [write_sections]. rewrite write_section_xecho, IH. reflexivity. Qed.

Lemma filter_in_nil (l : list str) : filter (fun k : str => in_str k []) l = [].
Proof. induction l as [|a l IH]; [reflexivity|exact IH]. Qed.
Definition rm_all (xs l : list str) : list str := fold_left (fun l k => remove_first k l) xs l.
Definition sections_after (d : t2d) (xs : list str) (b : bool) : list str :=
  if b then sections d else rm_all xs (rm_all xs (sections d)).
(** the sections of the main file: those not in the companion, or all of them when echoed *)
Definition msecs (d : t2d) (xs : list str) (b : bool) : list str :=
  filter (fun k => negb (in_str k xs) || b) (sections_after d xs b).

Lemma write_files_xp_shape d xs b d' fs : write_files (mk_wcfg 0 (Some xs) (Some b)) d = Ok (d', fs) ->
  update_sections d = sections d -> xprec d = [] -> xecho d = true -> autough2 d = true -> xs <> [] ->
  exists all pd, write_sections T0 write_fn_names d (msecs d xs b) = Ok all /\
     write_sections T1 xp_write_fn_names d xs = Ok pd /\
     fs = mk_files ((strip (title d) +++ [nl]) :: all ++ [end_keyword d +++ [nl]])%list None (Some pd).
Proof.
  intros W US XP XE AU NE. destruct xs as [|x0 xr]; [congruence|]. set (xs := x0 :: xr) in *. unfold write_files in W. rewrite US in W. cbn [w_mesh bind] in W.
  replace (autough2 (set_sections d (sections d))) with (autough2 d) in W by (destruct d; reflexivity). rewrite AU in W.
  unfold write_xp in W. cbn [w_xp w_echo] in W. unfold set_xp_arg in W.
  replace (xprec (set_sections d (sections d))) with (xprec d) in W by (destruct d; reflexivity). rewrite XP in W.
  assert (FN : forall v, filter (fun k => negb (in_str k v)) (filter (fun k => in_str k []) all_sections) = []).
  { intro v. rewrite filter_in_nil. reflexivity. }
  rewrite FN in W. cbn [fold_left] in W.
  replace (sections (set_sections d (sections d))) with (sections d) in W by (destruct d; reflexivity).
  set (dA := set_xprec (set_sections (set_sections d (sections d)) (sections d)) xs) in *.
  assert (A1 : xecho dA = true) by (unfold dA; destruct d; exact XE).
  assert (A2 : xprec dA = xs) by (unfold dA; destruct d; reflexivity).
  assert (A3 : sections dA = sections d) by (unfold dA; destruct d; reflexivity).
  unfold set_echo_arg in W. rewrite A1, A2, A3 in W.
  destruct b; cbn [Bool.eqb] in W.
  - (* echoed *)
    rewrite A2 in W. unfold xs in W at 1. fold xs in W. rewrite A1 in W.
    destruct (write_sections T1 xp_write_fn_names dA xs) as [pd|] eqn:WP; cbn [bind] in W; [|discriminate].
    replace (xprec (set_sections dA (sections dA))) with xs in W by (rewrite <- A2; destruct dA; reflexivity).
    replace (xecho (set_sections dA (sections dA))) with true in W by (rewrite <- A1; destruct dA; reflexivity).
    replace (sections (set_sections dA (sections dA))) with (sections d) in W by (rewrite <- A3; destruct dA; reflexivity).
    rewrite write_sections_sections in W.
    assert (FE : filter (fun k => negb (in_str k []) && (negb (in_str k xs) || true)) (sections d) = msecs d xs true).
    { unfold msecs, sections_after. apply filter_ext. intro k. reflexivity. }
    rewrite FE in W. unfold dA in W, WP. rewrite write_sections_xprec, !write_sections_sections in W, WP.
    destruct (write_sections T0 write_fn_names d (msecs d xs true)) as [all|]; cbn [bind] in W; [|discriminate]. inv_ok W.
    exists all, pd. split; [reflexivity|]. split; [exact WP|]. destruct d; reflexivity.
  - (* not echoed *)
    set (dB := set_xecho (set_sections dA (rm_all xs (sections d))) false) in *.
    assert (B1 : xecho dB = false) by (unfold dB; destruct dA; reflexivity).
    assert (B2 : xprec dB = xs) by (unfold dB; rewrite <- A2; destruct dA; reflexivity).
    assert (B3 : sections dB = rm_all xs (sections d)) by (unfold dB; destruct dA; reflexivity).
    fold (rm_all xs (sections d)) in W. fold dB in W. rewrite B2 in W. unfold xs in W at 1. fold xs in W. rewrite B1, B3 in W.
    destruct (write_sections T1 xp_write_fn_names dB xs) as [pd|] eqn:WP; cbn [bind] in W; [|discriminate].
    fold (rm_all xs (rm_all xs (sections d))) in W.
    set (S2 := rm_all xs (rm_all xs (sections d))) in *.
    rewrite write_sections_sections in W.
    match type of W with context [filter ?f ?l] => assert (FE : filter f l = msecs d xs false) end.
    { replace (sections (set_sections dB S2)) with S2 by (destruct dB; reflexivity).
      unfold msecs, sections_after. apply filter_ext. intro k.
      replace (xprec (set_sections dB S2)) with xs by (rewrite <- B2; destruct dB; reflexivity).
      replace (xecho (set_sections dB S2)) with false by (rewrite <- B1; destruct dB; reflexivity). reflexivity. }
    rewrite FE in W. unfold dB, dA in W, WP. rewrite write_sections_xecho, write_sections_sections, write_sections_xprec, !write_sections_sections in W, WP.
    destruct (write_sections T0 write_fn_names d (msecs d xs false)) as [all|]; cbn [bind] in W; [|discriminate]. inv_ok W.
    exists all, pd. split; [reflexivity|]. split; [exact WP|]. destruct d; reflexivity.
Qed.

(** the echo flag as the (repaired) reader re-derives it after the main file *)
Definition reinfer (dE : t2d) : t2d :=
  if read_reinfers_echo then
    match xprec dE with [] => dE | xs => set_xecho dE (existsb (fun k => in_str k (sections dE)) xs) end
  else dE.
Definition simul_state (d : t2d) : t2d := set_simulator (start_state d) (strip (simulator d)).

(** THE round trip with an extra-precision companion, echoed ([b] = true) or not *)
Theorem read_write_xp d xs b ks d' fs :
  write_files (mk_wcfg 0 (Some (map s2l xs)) (Some b)) d = Ok (d', fs) ->
  update_sections d = sections d -> xprec d = [] -> xecho d = true -> autough2 d = true -> xs <> [] ->
  msecs d (map s2l xs) b = map s2l ("SIMUL" :: ks) -> is_end (end_keyword d) = true -> title_ok d = true ->
  secwf "SIMUL" d (start_state d) = true ->
  xchain_ok d xs (simul_state d) = true ->
  chain_okX d ks (push "SIMUL" (xp_state d xs (simul_state d))) = true ->
  read_files fs = Ok (reinfer (set_end_keyword (finalX d ks (push "SIMUL" (xp_state d xs (simul_state d)))) (end_keyword d))).
Proof.
  intros W US XP XE AU NE MS EK TI WS XC CH.
  assert (NE' : map s2l xs <> []) by (destruct xs; [congruence|discriminate]).
  destruct (write_files_xp_shape d (map s2l xs) b d' fs W US XP XE AU NE') as [all [pd [WA [WP EF]]]]. subst fs.
  rewrite MS in WA. cbn [map] in WA. destruct (write_sections_cons _ _ _ _ WA) as [a [rb [Wa [Wb EA]]]]. subst all.
  pose proof tables_ok_true as TK. unfold tables_ok in TK.
  apply andb_prop in TK as [TK _]. apply andb_prop in TK as [TK _]. apply andb_prop in TK as [TK _]. apply andb_prop in TK as [TK _].
  apply andb_prop in TK as [_ K8]. unfold simul_table_ok in K8. apply andb_prop in K8 as [_ SHT].
  unfold title_ok in TI. apply andb_prop in TI as [NL LT]. apply Nat.leb_le in LT.
  unfold read_files. cbn [f_main f_mesh f_pdat].
  unfold read_title. cbn [readline]. rewrite (line80 "title" _ SHT NL LT). fold (start_state d).
  (* the SIMUL section and, inside it, the companion *)
  rewrite wsec_SIMUL in Wa. unfold secwf in WS. cbn [String.eqb Ascii.eqb Bool.eqb] in WS.
  apply andb_prop in WS as [WS L]. apply andb_prop in WS as [NEs NLs]. apply Nat.leb_le in L.
  unfold write_simulator in Wa. destruct (simulator d) as [|c0 s0] eqn:SM; [cbn in NEs; discriminate|]. rewrite <- SM in *. inv_ok Wa.
  set (e := end_keyword d) in *.
  assert (CALL : forall rest, call (Some pd) (start_state d) "SIMUL" (kw "SIMUL") ((strip (simulator d) +++ [nl]) :: rest)
                 = Ok (xp_state d xs (simul_state d), None, rest)).
  { intro rest. unfold call, reader_name. change (xprec (start_state d)) with (@nil str). cbn [in_str existsb]. rewrite andb_false_r.
    change (slookup (s2l "SIMUL") read_fn_names) with (Some "read_simulator"). cbn [String.eqb Ascii.eqb Bool.eqb].
    unfold read_simulator_xp, read_simulator. cbn [readline bind]. rewrite (simul_line _ NLs L). fold (simul_state d).
    assert (AS : autough2 (simul_state d) = true).
    { unfold simul_state, autough2. replace (simulator (set_simulator (start_state d) (strip (simulator d)))) with (strip (simulator d)) by reflexivity.
      destruct (strip (simulator d)); [discriminate|reflexivity]. }
    rewrite AS. rewrite (read_xp_pdat d xs (simul_state d) pd WP XC eq_refl eq_refl). reflexivity. }
  set (dS := push "SIMUL" (xp_state d xs (simul_state d))) in *.
  destruct (loop_sectionsX (Some pd) d e EK ks dS
              (2 * length ((strip (title d) +++ [nl]) :: ([kw "SIMUL"; strip (simulator d) +++ [nl]] ++ rb) ++ [e +++ [nl]])%list + 1) rb Wb CH) as [A _].
  { pose proof (chain_linesX (Some pd) d ks _ rb Wb CH). cbn [length]. rewrite !app_length. cbn [length]. lia. }
  assert (T1' : read_loop (2 * length ((strip (title d) +++ [nl]) :: ([kw "SIMUL"; strip (simulator d) +++ [nl]] ++ rb) ++ [e +++ [nl]])%list + 2)
                 (Some pd) (start_state d) None (([kw "SIMUL"; strip (simulator d) +++ [nl]] ++ rb) ++ [e +++ [nl]])%list
               = Ok (set_end_keyword (finalX d ks dS) e)).
  { replace (2 * length ((strip (title d) +++ [nl]) :: ([kw "SIMUL"; strip (simulator d) +++ [nl]] ++ rb) ++ [e +++ [nl]])%list + 2)%nat
      with (S (2 * length ((strip (title d) +++ [nl]) :: ([kw "SIMUL"; strip (simulator d) +++ [nl]] ++ rb) ++ [e +++ [nl]])%list + 1)) by lia.
    assert (INS : In "SIMUL" covered) by (unfold covered, covered21; cbn; tauto).
    rewrite (loop_turnX (Some pd) "SIMUL" (start_state d) None _ (kw "SIMUL") (((strip (simulator d) +++ [nl]) :: rb) ++ [e +++ [nl]])%list
               (xp_state d xs (simul_state d)) None (rb ++ [e +++ [nl]])%list _ INS); [exact A|reflexivity|vm_compute; eauto|reflexivity|].
    cbn [app]. apply CALL. }
  match goal with |- bind ?X _ = _ => assert (EX : X = Ok (set_end_keyword (finalX d ks dS) e)) by exact T1' end.
  rewrite EX. cbn [bind]. unfold reinfer. destruct read_reinfers_echo; reflexivity.
Qed.
