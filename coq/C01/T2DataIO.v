(** C01 -- t2data.write() / t2data.read(): update_sections, the keyword dispatch (tied to the
    dispatch dictionaries regenerated from the source), COMBINATOR 4: the keyword loop with
    the PARAM look-ahead line, ENDCY / ENDFI. *)
From Coq Require Import Ascii String List Bool Arith ZArith NArith Lia.
From PTBase Require Import Exn PyStr PyNum PyVal Fmt FixedFormat.
From Gen Require Import GenTables GenSections.
From P Require Import Comb Obj Sections SectionsB.
Import ListNotations.
Open Scope string_scope.

Definition kws (l : list string) : list str := map s2l l.
Definition in_str (k : str) (l : list str) : bool := existsb (str_eqb k) l.
Fixpoint slookup (k : str) (l : list (string * string)) : option string :=
  match l with [] => None | (k', v) :: r => if str_eqb k (s2l k') then Some v else slookup k r end.
Definition nonempty {A} (l : list A) : bool := match l with [] => false | _ => true end.
Definition is_some {A} (o : option A) : bool := match o with Some _ => true | None => false end.

(** ** get_present_sections: the truth value of each expression of the zip, by its source text *)
Definition present_expr (d : t2d) (e : string) : option bool :=
  if e =? "self.simulator" then Some (nonempty (simulator d))
  else if e =? "self.grid and self.grid.rocktypelist" then Some (nonempty (rocks d))
  else if e =? "self.parameter" then Some true
  else if e =? "np.any(self.more_option)" then Some (existsb (fun z => negb (z =? 0)%Z) (momop d))
  else if e =? "self.start" then Some (start d)
  else if e =? "self.noversion" then Some (noversion d)
  else if e =? "self.relative_permeability or self.capillarity" then Some (is_some (relperm d) || is_some (capil d))
  else if e =? "self.lineq" then Some (nonempty (lineq d))
  else if e =? "self.solver" then Some (nonempty (solver d))
  else if e =? "self.multi" then Some (nonempty (multi d))
  else if e =? "self.output_times" then Some (is_some (otimes d))
  else if e =? "self.selection" then Some (is_some (selection d))
  else if e =? "self.diffusion" then Some (nonempty (diffusion d))
  else if e =? "self.grid" then Some true
  else if e =? "self.meshmaker" then Some (nonempty (meshmaker d))
  else if e =? "self.generatorlist" then Some (nonempty (gens d))
  else if e =? "self.short_output" then Some (is_some (short d))
  else if e =? "self.history_block" then Some (nonempty (hist_block d))
  else if e =? "self.history_connection" then Some (nonempty (hist_conn d))
  else if e =? "self.history_generator" then Some (nonempty (hist_gen d))
  else if e =? "self.incon" then Some (nonempty (incon d))
  else if e =? "self.indom" then Some (nonempty (indom d))
  else None.
Definition present (d : t2d) (k : str) : bool :=
  match slookup k present_exprs with
  | Some e => match present_expr d e with Some b => b | None => false end
  | None => false
  end.

(** ** insert_section / delete_section / section_insertion_index / update_sections *)
Fixpoint index_of (k : str) (l : list str) (i : nat) : option nat :=
  match l with [] => None | x :: r => if str_eqb k x then Some i else index_of k r (S i) end.
Fixpoint first_index (cands secs : list str) : option nat :=
  match cands with
  | [] => None
  | k :: r => match index_of k secs 0 with Some j => Some j | None => first_index r secs end
  end.
Definition insertion_index (all secs : list str) (s : str) : nat :=
  match index_of s all 0 with
  | None => length secs
  | Some O => O
  | Some li =>
      match first_index (rev (firstn li all)) secs with
      | Some j => S j
      | None => match first_index (skipn li all) secs with Some j => j | None => length secs end
      end
  end.
Definition insert_section (all secs : list str) (s : str) : list str :=
  if in_str s secs then secs
  else let i := insertion_index all secs s in firstn i secs +++ s :: skipn i secs.
Fixpoint remove_first (s : str) (l : list str) : list str :=
  match l with [] => [] | x :: r => if str_eqb s x then r else x :: remove_first s r end.
Definition all_sections : list str := kws t2data_sections.
Definition update_sections (d : t2d) : list str :=
  let pres := filter (present d) all_sections in
  let missing := filter (fun k => negb (in_str k (sections d))) pres in
  let secs1 := fold_left (insert_section all_sections) missing (sections d) in
  let extra := filter (fun k => negb (in_str k pres)) secs1 in
  fold_left (fun l k => remove_first k l) extra secs1.

(** ** dispatch by the names in the regenerated write_fn / read_fn dictionaries *)
Definition unmodelled {A} : res A := Raise PlainException.
Definition write_method (T : table) (d : t2d) (m : string) : res file :=
  if m =? "write_simulator" then write_simulator d
  else if m =? "write_rocktypes" then write_rocks T d
  else if m =? "write_parameters" then write_param T d
  else if m =? "write_more_options" then write_momop T d
  else if m =? "write_start" then write_start d
  else if m =? "write_noversion" then write_noversion d
  else if m =? "write_rpcap" then write_rpcap T d
  else if m =? "write_lineq" then write_lineq T d
  else if m =? "write_solver" then write_solver T d
  else if m =? "write_multi" then write_multi T d
  else if m =? "write_times" then write_times T d
  else if m =? "write_blocks" then write_blocks T d
  else if m =? "write_connections" then write_conns T d
  else if m =? "write_generators" then write_gens T d
  else if m =? "write_incons" then write_incons T d
  else write_methodB T d m.
Definition write_section (T : table) (d : t2d) (k : str) : res file :=
  match slookup k write_fn_names with Some m => write_method T d m | None => Raise KeyError end.

Definition param_keywords : list str := kws (t2data_sections +++ param_lookahead_extra).
(** a reader returns the object, the look-ahead line (PARAM only) and the remaining lines;
    [line] is the keyword line itself (SHORT reads its frequency from it) *)
Definition lift (r : res (t2d * file)) : res (t2d * option str * file) :=
  do x <- r; Ok (fst x, None, snd x).
Definition read_method (T : table) (d : t2d) (m : string) (line : str) (ls : file) : res (t2d * option str * file) :=
  if m =? "read_simulator" then lift (read_simulator T d ls)
  else if m =? "read_rocktypes" then lift (read_rocks T d ls)
  else if m =? "read_parameters" then read_param T param_keywords d ls
  else if m =? "read_more_options" then lift (read_momop T d ls)
  else if m =? "read_start" then Ok (set_start d true, None, ls)
  else if m =? "read_noversion" then Ok (set_noversion d true, None, ls)
  else if m =? "read_rpcap" then lift (read_rpcap T d ls)
  else if m =? "read_lineq" then lift (read_lineq T d ls)
  else if m =? "read_solver" then lift (read_solver T d ls)
  else if m =? "read_multi" then lift (read_multi T d ls)
  else if m =? "read_times" then lift (read_times T d ls)
  else if m =? "read_blocks" then lift (read_blocks T d ls)
  else if m =? "read_connections" then lift (read_conns T d ls)
  else if m =? "read_generators" then lift (read_gens T d ls)
  else if m =? "read_incons" then lift (read_incons T d ls)
  else lift (read_methodB T d m line ls).

(** ** write(): main file only (mesh in-file, no extra precision) *)
Definition T0 : table := t2data_format.
Fixpoint write_sections (T : table) (d : t2d) (secs : list str) : res file :=
  match secs with
  | [] => Ok []
  | k :: r => do a <- write_section T d k; do b <- write_sections T d r; Ok (a +++ b)
  end.
Definition write_lines (d : t2d) : res file :=
  do body <- write_sections T0 d (update_sections d);
  Ok (write_title d +++ body +++ [end_keyword d +++ [nl]]).

(** ** read(): COMBINATOR 4 *)
Definition end_kws : list str := kws end_keywords.
Fixpoint read_loop (fuel : nat) (d : t2d) (next : option str) (ls : file) : res t2d :=
  match fuel with
  | O => Raise OutOfFuel
  | S f =>
      let '(line, r) := match next with
                        | Some (c :: l) => (c :: l, ls)
                        | _ => readline ls end in
      match line with
      | [] => Ok d
      | _ =>
          let keyword := strip (slice 0 5 line) in
          if in_str keyword end_kws then Ok (set_end_keyword d keyword)
          else match (if in_str keyword all_sections then slookup keyword read_fn_names else None) with
               | Some m =>
                   do x <- read_method T0 d m line r;
                   let '(d', look, r') := x in
                   read_loop f (set_sections d' (sections d' +++ [keyword])) look r'
               | None => if in_str keyword all_sections then Raise KeyError else read_loop f d next r
               end
      end
  end.
Definition read_lines (ls : file) : res t2d :=
  let (d, r) := read_title T0 empty_t2d ls in
  read_loop (2 * length ls + 2) (set_sections d []) None r.

(** bytes <-> lines *)
Fixpoint split_lines_aux (cur : str) (acc : file) (s : str) : file :=
  match s with
  | [] => rev_append acc (match cur with [] => [] | _ => [rev_append cur []] end)
  | c :: r => if ceqb c nl then split_lines_aux [] (rev_append cur [nl] :: acc) r else split_lines_aux (c :: cur) acc r
  end.
Definition split_lines (s : str) : file := split_lines_aux [] [] s.
