(** C01 -- t2data.write() / t2data.read(): update_sections, the keyword dispatch (tied to the
    dispatch dictionaries regenerated from the source), the keyword loop with the PARAM
    look-ahead line, ENDCY / ENDFI, the separate ASCII mesh file and the extra-precision
    companion file. *)
From Coq Require Import Ascii String List Bool Arith ZArith NArith Lia.
From PTBase Require Import Exn PyStr PyNum PyVal Fmt FixedFormat.
From Gen Require Import GenTables GenSections.
From P Require Import Comb Obj Sections SectionsB.
Import ListNotations.
Open Scope string_scope.

Definition kws (l : list string) : list str := map s2l l.
Definition in_str (k : str) (l : list str) : bool := existsb (str_eqb k) l.
Fixpoint slookup (k : str) (l : list (string * string)) : option string :=
  match l with [] => None | (k', v) :: r => if str_eqb k (s2l k') then Some v else slookup k r end.
Definition nonempty {A} (l : list A) : bool := match l with [] => false | _ => true end.
Definition is_some {A} (o : option A) : bool := match o with Some _ => true | None => false end.

(** ** get_present_sections: the truth value of each expression of the zip, by its source text *)
Definition present_expr (d : t2d) (e : string) : option bool :=
  if e =? "self.simulator" then Some (nonempty (simulator d))
  else if e =? "self.grid and self.grid.rocktypelist" then Some (nonempty (rocks d))
  else if e =? "self.parameter" then Some true
  else if e =? "np.any(self.more_option)" then Some (existsb (fun z => negb (z =? 0)%Z) (momop d))
  else if e =? "self.start" then Some (start d)
  else if e =? "self.noversion" then Some (noversion d)
  else if e =? "self.relative_permeability or self.capillarity" then Some (is_some (relperm d) || is_some (capil d))
  else if e =? "self.lineq" then Some (nonempty (lineq d))
  else if e =? "self.solver" then Some (nonempty (solver d))
  else if e =? "self.multi" then Some (nonempty (multi d))
  else if e =? "self.output_times" then Some (is_some (otimes d))
  else if e =? "self.selection" then Some (is_some (selection d))
  else if e =? "self.diffusion" then Some (nonempty (diffusion d))
  else if e =? "self.grid" then Some true
  else if e =? "self.meshmaker" then Some (nonempty (meshmaker d))
  else if e =? "self.generatorlist" then Some (nonempty (gens d))
  else if e =? "self.short_output" then Some (is_some (short d))
  else if e =? "self.history_block" then Some (nonempty (hist_block d))
  else if e =? "self.history_connection" then Some (nonempty (hist_conn d))
  else if e =? "self.history_generator" then Some (nonempty (hist_gen d))
  else if e =? "self.incon" then Some (nonempty (incon d))
  else if e =? "self.indom" then Some (nonempty (indom d))
  else None.
Definition present (d : t2d) (k : str) : bool :=
  match slookup k present_exprs with
  | Some e => match present_expr d e with Some b => b | None => false end
  | None => false
  end.

(** ** insert_section / delete_section / section_insertion_index / update_sections *)
Fixpoint index_of (k : str) (l : list str) (i : nat) : option nat :=
  match l with [] => None | x :: r => if str_eqb k x then Some i else index_of k r (S i) end.
Fixpoint first_index (cands secs : list str) : option nat :=
  match cands with
  | [] => None
  | k :: r => match index_of k secs 0 with Some j => Some j | None => first_index r secs end
  end.
Definition insertion_index (all secs : list str) (s : str) : nat :=
  match index_of s all 0 with
  | None => length secs
  | Some O => O
  | Some li =>
      match first_index (rev (firstn li all)) secs with
      | Some j => S j
      | None => match first_index (skipn li all) secs with Some j => j | None => length secs end
      end
  end.
Definition insert_section (all secs : list str) (s : str) : list str :=
  if in_str s secs then secs
  else let i := insertion_index all secs s in firstn i secs +++ s :: skipn i secs.
Fixpoint remove_first (s : str) (l : list str) : list str :=
  match l with [] => [] | x :: r => if str_eqb s x then r else x :: remove_first s r end.
Definition all_sections : list str := kws t2data_sections.
Definition update_sections (d : t2d) : list str :=
  let pres := filter (present d) all_sections in
  let missing := filter (fun k => negb (in_str k (sections d))) pres in
  let secs1 := fold_left (insert_section all_sections) missing (sections d) in
  let extra := filter (fun k => negb (in_str k pres)) secs1 in
  fold_left (fun l k => remove_first k l) extra secs1.

(** ** dispatch by the names in the regenerated write_fn / read_fn dictionaries *)
Definition write_method (T : table) (d : t2d) (m : string) : res file :=
  if m =? "write_simulator" then write_simulator d
  else if m =? "write_rocktypes" then write_rocks T d
  else if m =? "write_parameters" then write_param T d
  else if m =? "write_more_options" then write_momop T d
  else if m =? "write_start" then write_start d
  else if m =? "write_noversion" then write_noversion d
  else if m =? "write_rpcap" then write_rpcap T d
  else if m =? "write_lineq" then write_lineq T d
  else if m =? "write_solver" then write_solver T d
  else if m =? "write_multi" then write_multi T d
  else if m =? "write_times" then write_times T d
  else if m =? "write_selection" then write_selection T d
  else if m =? "write_diffusion" then write_diffusion T d
  else if m =? "write_blocks" then write_blocks T d
  else if m =? "write_connections" then write_conns T d
  else if m =? "write_meshmaker" then write_meshmaker T d
  else if m =? "write_generators" then write_gens T d
  else if m =? "write_short_output" then write_short d
  else if m =? "write_history_blocks" then write_hist_block d
  else if m =? "write_history_connections" then write_hist_conn d
  else if m =? "write_history_generators" then write_hist_gen d
  else if m =? "write_incons" then write_incons T d
  else if m =? "write_indom" then write_indom T d
  else Raise PlainException.
Definition write_section (T : table) (names : list (string * string)) (d : t2d) (k : str) : res file :=
  match slookup k names with Some m => write_method T d m | None => Raise KeyError end.

Definition param_keywords : list str := kws (t2data_sections +++ param_lookahead_extra).
Definition end_kws : list str := kws end_keywords.
(** a reader returns the object, the look-ahead line (PARAM only) and the remaining lines;
    [line] is the keyword line itself (SHORT reads its frequency from it) *)
Definition lift (r : res (t2d * file)) : res (t2d * option str * file) :=
  do x <- r; Ok (fst x, None, snd x).
(** [while infile.readline().strip(): pass] *)
Fixpoint skip_to_blank (fuel : nat) (ls : file) : res file :=
  match fuel with
  | O => Raise OutOfFuel
  | S f => let (l, r) := readline ls in if blank l then Ok r else skip_to_blank f r
  end.
Definition read_method (T : table) (d : t2d) (m : string) (line : str) (ls : file) : res (t2d * option str * file) :=
  if m =? "read_rocktypes" then lift (read_rocks T d ls)
  else if m =? "read_parameters" then read_param T param_keywords d ls
  else if m =? "read_more_options" then lift (read_momop T d ls)
  else if m =? "read_start" then Ok (set_start d true, None, ls)
  else if m =? "read_noversion" then Ok (set_noversion d true, None, ls)
  else if m =? "read_rpcap" then lift (read_rpcap T d ls)
  else if m =? "read_lineq" then lift (read_lineq T d ls)
  else if m =? "read_solver" then lift (read_solver T d ls)
  else if m =? "read_multi" then lift (read_multi T d ls)
  else if m =? "read_times" then lift (read_times T d ls)
  else if m =? "read_selection" then lift (read_selection T d ls)
  else if m =? "read_diffusion" then lift (read_diffusion T d ls)
  else if m =? "read_blocks" then lift (read_blocks T d ls)
  else if m =? "read_connections" then lift (read_conns T d ls)
  else if m =? "read_meshmaker" then lift (read_meshmaker T d ls)
  else if m =? "read_generators" then lift (read_gens T d ls)
  else if m =? "read_short_output" then lift (read_short T d line ls)
  else if m =? "read_history_blocks" then lift (read_hist_block d ls)
  else if m =? "read_history_connections" then lift (read_hist_conn d ls)
  else if m =? "read_history_generators" then lift (read_hist_gen d ls)
  else if m =? "read_incons" then lift (read_incons T d ls)
  else if m =? "read_indom" then lift (read_indom T d ls)
  else if m =? "skip_rocktypes" then do r <- skip_to_blank (S (length ls)) ls; Ok (d, None, r)
  else if m =? "skip_blocks" then do r <- skip_to_blank (S (length ls)) ls; Ok (d, None, r)
  else if m =? "skip_connections" then do r <- skip_to_blank (S (length ls)) ls; Ok (d, None, r)
  else if m =? "skip_generators" then do r <- skip_to_blank (S (length ls)) ls; Ok (d, None, r)
  else if m =? "skip_rpcap" then Ok (d, None, snd (readline (snd (readline ls))))
  else Raise PlainException.

Definition T0 : table := t2data_format.
Definition T1 : table := t2data_extra_format.

(** ** write() *)
Record wcfg := mk_wcfg { w_mesh : nat;                   (* 0 in-file, 1 ASCII mesh file, 2 binary pair (not modelled: only left out of the main file) *)
                         w_xp : option (list str);       (* extra_precision argument, normalised to a list; None = not given *)
                         w_echo : option bool }.
Record files := mk_files { f_main : file; f_mesh : option file; f_pdat : option file }.

Fixpoint write_sections (T : table) (names : list (string * string)) (d : t2d) (secs : list str) : res file :=
  match secs with
  | [] => Ok []
  | k :: r => do a <- write_section T names d k; do b <- write_sections T names d r; Ok (a +++ b)
  end.
(** the extra_precision / echo_extra_precision property setters, then write_extra_precision *)
Definition set_xp_arg (d : t2d) (v : list str) : t2d :=
  let removed := filter (fun k => negb (in_str k v)) (filter (fun k => in_str k (xprec d)) all_sections) in
  set_xprec (set_sections d (fold_left (insert_section all_sections) removed (sections d))) v.
Definition set_echo_arg (d : t2d) (b : bool) : t2d :=
  if Bool.eqb b (xecho d) then d
  else set_xecho (set_sections d (if b then fold_left (insert_section all_sections) (xprec d) (sections d)
                                  else fold_left (fun l k => remove_first k l) (xprec d) (sections d))) b.
Definition write_xp (c : wcfg) (d : t2d) : res (t2d * option file) :=
  let d1 := match w_xp c with Some v => set_xp_arg d v | None => d end in
  let d2 := match w_echo c with Some b => set_echo_arg d1 b | None => d1 end in
  match xprec d2 with
  | [] => Ok (d2, None)
  | xs => do body <- write_sections T1 xp_write_fn_names d2 xs;
          let secs := if xecho d2 then sections d2 else fold_left (fun l k => remove_first k l) xs (sections d2) in
          Ok (set_sections d2 secs, Some body)
  end.
Definition mesh_kws : list str := [s2l "ELEME"; s2l "CONNE"].
Definition write_files (c : wcfg) (d : t2d) : res (t2d * files) :=
  let d0 := set_sections d (update_sections d) in
  do mesh <- match w_mesh c with
             | 1%nat => do a <- write_blocks T0 d0; do b <- write_conns T0 d0; Ok (Some (a +++ b))
             | _ => Ok None end;
  let mesh_sections := match w_mesh c with O => [] | _ => mesh_kws end in
  do x <- (if autough2 d0 then write_xp c d0 else Ok (d0, None));
  let (d1, pdat) := x in
  let secs := filter (fun k => negb (in_str k mesh_sections) && (negb (in_str k (xprec d1)) || xecho d1)) (sections d1) in
  do body <- write_sections T0 write_fn_names d1 secs;
  Ok (d1, mk_files (write_title d1 +++ body +++ [end_keyword d1 +++ [nl]]) mesh pdat).
Definition write_lines (d : t2d) : res file :=
  do x <- write_files (mk_wcfg 0 None None) d; Ok (f_main (snd x)).

(** ** read() *)
(** read_extra_precision: the companion file, keyword by keyword *)
Fixpoint read_xp_loop (fuel : nat) (d : t2d) (ls : file) : res t2d :=
  match fuel with
  | O => Raise OutOfFuel
  | S f =>
      match ls with
      | [] => Ok d
      | line :: r =>
          let keyword := strip (slice 0 5 line) in
          if in_str keyword end_kws then Ok d
          else match slookup keyword xp_read_fn_names with
               | Some m =>
                   do x <- read_method T1 (set_xprec d (xprec d +++ [keyword])) m line r;
                   let '(d', _, r') := x in read_xp_loop f d' r'
               | None => read_xp_loop f d r
               end
      end
  end.
Definition read_xp (d : t2d) (pdat : file) : res t2d :=
  do d1 <- read_xp_loop (S (length pdat)) d pdat;
  match xprec d1 with
  | [] => Ok (set_echo_arg d1 false)
  | xs => Ok (set_echo_arg d1 (existsb (fun k => in_str k (sections d1)) xs))
  end.
Definition read_simulator_xp (d : t2d) (pdat : option file) (ls : file) : res (t2d * option str * file) :=
  do x <- read_simulator T0 d ls;
  let (d1, r) := x in
  if autough2 d1 then
    match pdat with
    | Some p => do d2 <- read_xp d1 p; Ok (d2, None, r)
    | None => Ok (d1, None, r)
    end
  else Ok (d1, None, r).
(** read_fn as update_read_write_functions leaves it: skip functions for the extra-precision
    sections that are not echoed *)
Definition reader_name (d : t2d) (keyword : str) : option string :=
  if negb (xecho d) && in_str keyword (xprec d) then slookup keyword skip_fn_names
  else slookup keyword read_fn_names.
Fixpoint read_loop (fuel : nat) (pdat : option file) (d : t2d) (next : option str) (ls : file) : res t2d :=
  match fuel with
  | O => Raise OutOfFuel
  | S f =>
      let '(line, r) := match next with
                        | Some (c :: l) => (c :: l, ls)
                        | _ => readline ls end in
      match line with
      | [] => Ok d
      | _ =>
          let keyword := strip (slice 0 5 line) in
          if in_str keyword end_kws then Ok (set_end_keyword d keyword)
          else if in_str keyword all_sections then
            match reader_name d keyword with
            | Some m =>
                do x <- (if m =? "read_simulator" then read_simulator_xp d pdat r else read_method T0 d m line r);
                let '(d', look, r') := x in
                read_loop f pdat (set_sections d' (sections d' +++ [keyword])) look r'
            | None => Raise KeyError
            end
          else read_loop f pdat d next r
      end
  end.
(** read_meshfile *)
Fixpoint read_mesh_loop (fuel : nat) (d : t2d) (ls : file) : res t2d :=
  match fuel with
  | O => Raise OutOfFuel
  | S f =>
      match ls with
      | [] => Ok d
      | line :: r =>
          let keyword := strip (slice 0 5 line) in
          if str_eqb keyword (s2l "ELEME") then
            do x <- read_blocks T0 d r; read_mesh_loop f (set_sections (fst x) (sections (fst x) +++ [keyword])) (snd x)
          else if str_eqb keyword (s2l "CONNE") then
            do x <- read_conns T0 d r; read_mesh_loop f (set_sections (fst x) (sections (fst x) +++ [keyword])) (snd x)
          else read_mesh_loop f d r
      end
  end.
Definition read_files (fs : files) : res t2d :=
  let ls := f_main fs in
  let (d, r) := read_title T0 empty_t2d ls in
  do d1 <- read_loop (2 * length ls + 2) (f_pdat fs) (set_sections d []) None r;
  let d2 := if read_reinfers_echo then
              match xprec d1 with [] => d1 | xs => set_xecho d1 (existsb (fun k => in_str k (sections d1)) xs) end
            else d1 in
  match f_mesh fs, blocks d2 with
  | Some m, [] => read_mesh_loop (S (length m)) d2 m
  | _, _ => Ok d2
  end.
Definition read_lines (ls : file) : res t2d := read_files (mk_files ls None None).
