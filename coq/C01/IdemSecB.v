(** C01 -- line programs of the remaining sections (P1 and P2 as in IdemSec.v): RPCAP, LINEQ,
    SOLVR, MULTI, TIMES, GENER, INCON, INDOM, SELEC, DIFFU. *)
From Coq Require Import Ascii String List Bool Arith ZArith NArith Lia.
From PTBase Require Import Exn PyStr PyNum PyVal Fmt FixedFormat.
From Gen Require Import GenTables GenSections.
From P Require Import Comb Obj Fields Idem Sections SectionsB Rec Prog SecRocks SecMesh SecGener SecMisc SecParam SecHist SecSel SecShort SecMeshm IdemSec T2DataIO IdemMeshm RbDigits RbSciTrip RbReadBack RealStable.
Import ListNotations.
Open Scope string_scope.

(** ** names that repeat (the '' of blank columns): decided *)
Definition dup_noneb (ns : list string) (vs : list value) : bool :=
  forallb (fun i => forallb (fun j =>
     (i =? j)%nat || negb (match nth_error ns i, nth_error ns j with Some a, Some b => (a =? b)%string | _, _ => false end)
     || (is_none (nth i vs XNone) && is_none (nth j vs XNone))) (seq 0 (length ns))) (seq 0 (length ns)).
Lemma dup_noneb_spec ns vs : dup_noneb ns vs = true -> dup_none ns vs.
Proof.
  unfold dup_noneb, dup_none. intros H i j NE NN E. rewrite forallb_forall in H.
  assert (Li : (i < length ns)%nat) by (apply nth_error_Some; exact NN).
  assert (Lj : (j < length ns)%nat) by (apply nth_error_Some; rewrite <- E; exact NN).
  specialize (H i (proj2 (in_seq _ _ _) (conj (Nat.le_0_l i) Li))). rewrite forallb_forall in H.
  specialize (H j (proj2 (in_seq _ _ _) (conj (Nat.le_0_l j) Lj))).
  rewrite <- E in H. destruct (nth_error ns i) as [a|]; [|congruence]. rewrite String.eqb_refl in H.
  apply Nat.eqb_neq in NE. rewrite NE in H. cbn [negb orb] in H. apply andb_prop in H. exact H.
Qed.
Definition layer_okd (d0 : dict) (ns : list string) (vs : list value) : bool :=
  (length vs =? length ns)%nat && dup_noneb ns vs &&
  forallb (fun i => match nth_error ns i with Some n => negb (is_none (nth i vs XNone)) || is_none (dgetv d0 n) | None => true end) (seq 0 (length vs)).
Lemma layer_vals_d d0 ns vs : layer_okd d0 ns vs = true -> dict_vals (dict_update d0 ns vs) ns = vs.
Proof.
  intros L. unfold layer_okd in L. apply andb_prop in L as [L Z]. apply andb_prop in L as [LN ND]. apply Nat.eqb_eq in LN.
  apply dict_vals_update'; [exact LN|apply dup_noneb_spec; exact ND|].
  intros i n Hn Nn. rewrite forallb_forall in Z.
  assert (IL : (i < length vs)%nat) by (rewrite LN; apply nth_error_Some; congruence).
  specialize (Z i (proj2 (in_seq _ _ _) (conj (Nat.le_0_l i) IL))). rewrite Hn, Nn in Z. cbn [negb orb] in Z.
  destruct (dgetv d0 n); try discriminate; reflexivity.
Qed.
Lemma fold_left_map {A B C} (f : A -> B -> A) (g : C -> B) xs : forall acc,
  fold_left (fun a x => f a (g x)) xs acc = fold_left f (map g xs) acc.
Proof. induction xs as [|x xs IH]; intro acc; [reflexivity|]. cbn. apply IH. Qed.

Section WithTable.
Variable T : table.
Notation sp := (sp T).
Notation nm := (nm T).
Notation render := (render T).
Notation citem := (citem T).

(** ** RPCAP *)
Definition prog_rpcap (d : t2d) : list item :=
  [Lit (kw "RPCAP"); Rec "relative_permeability" (tpv (relperm d)); Rec "capillarity" (tpv (capil d))].
Definition wfw_rpcap (d : t2d) : bool := isSome (relperm d) && isSome (capil d).
Lemma write_rpcap_prog d : wfw_rpcap d = true -> write_rpcap T d = render (prog_rpcap d).
Proof.
  unfold wfw_rpcap. intro H. apply andb_prop in H as [A B]. unfold write_rpcap, prog_rpcap.
  destruct (relperm d) as [[t1 p1]|]; [|discriminate]. destruct (capil d) as [[t2 p2]|]; [|discriminate].
  unfold Prog.render. cbn [mapM render1 tpv bind].
  destruct (wline T "relative_permeability" _); cbn [bind]; [|reflexivity]. destruct (wline T "capillarity" _); reflexivity.
Qed.
Definition tp_ok (k : string) : bool :=
  (2 <=? length (sp k))%nat && match nth_error (sp k) 1 with Some f => numeric f | None => false end.
Lemma prog_rpcap_canon d X : tp_ok "relative_permeability" = true -> tp_ok "capillarity" = true -> wfw_rpcap d = true ->
  relperm X = canon_tp T "relative_permeability" (relperm d) -> capil X = canon_tp T "capillarity" (capil d) ->
  prog_rpcap X = map citem (prog_rpcap d) /\ wfw_rpcap X = true.
Proof.
  intros K1 K2 W R C. apply andb_prop in K1 as [L1 N1]. apply andb_prop in K2 as [L2 N2]. apply Nat.leb_le in L1, L2.
  unfold wfw_rpcap in *. apply andb_prop in W as [A B]. split.
  - unfold prog_rpcap. rewrite R, C, (canon_tp_vals T _ _ L1 N1 A), (canon_tp_vals T _ _ L2 N2 B). reflexivity.
  - rewrite R, C. destruct (relperm d) as [[? ?]|]; [|discriminate]. destruct (capil d) as [[? ?]|]; [|discriminate]. reflexivity.
Qed.

(** ** LINEQ, SOLVR *)
Definition prog_dictsec (key lt : string) (dct : dict) : list item :=
  match dct with [] => [] | _ => [Lit (kw key); Rec lt (dict_vals dct (nm lt))] end.
Lemma write_dictsec_prog key lt dct : write_dictsec T key lt dct = render (prog_dictsec key lt dct).
Proof.
  unfold write_dictsec, prog_dictsec. destruct dct as [|e es]; [reflexivity|].
  unfold Prog.render. cbn [mapM render1 bind]. destruct (wline T lt _); reflexivity.
Qed.
Definition idem_dict (lt : string) (d0 dct : dict) : bool :=
  layer_okd d0 (nm lt) (cvals (sp lt) (dict_vals dct (nm lt))) && nonempty (canon_dict T lt d0 dct) && nonempty dct.
Lemma prog_dictsec_canon key lt d0 dct : idem_dict lt d0 dct = true ->
  prog_dictsec key lt (canon_dict T lt d0 dct) = map citem (prog_dictsec key lt dct).
Proof.
  intro H. apply andb_prop in H as [H N2]. apply andb_prop in H as [L N]. unfold prog_dictsec.
  destruct dct as [|e es] eqn:ED; [discriminate|]. rewrite <- ED in *.
  destruct (canon_dict T lt d0 dct) as [|c cs] eqn:E; [discriminate|]. rewrite <- E. unfold canon_dict.
  cbn [map citem]. rewrite (layer_vals_d _ _ _ L). reflexivity.
Qed.

(** ** MULTI: the reader strips the name of the equation of state, the writer pads it again; the program holds
    the name as it is read back ([neos]); the second program is derived from conditions on that one value *)
Definition fspec_eqb (a b : fspec) : bool :=
  (fw a =? fw b)%Z && match fp a, fp b with Some x, Some y => (x =? y)%Z | None, None => true | _, _ => false end && fty_eqb (ft a) (ft b).
Lemma fspec_eqb_eq a b : fspec_eqb a b = true -> a = b.
Proof.
  destruct a as [w1 p1 t1], b as [w2 p2 t2]. unfold fspec_eqb. cbn [fw fp ft]. intro H. apply andb_prop in H as [H T3]. apply andb_prop in H as [W P].
  apply Z.eqb_eq in W. apply fty_eqb_eq in T3. subst. destruct p1, p2; try discriminate; [apply Z.eqb_eq in P; subst|]; reflexivity.
Qed.
Fixpoint eos_field_of (specs : list fspec) (ns : list string) : option fspec :=
  match specs, ns with f :: fs, n :: r => if (n =? "eos")%string then Some f else eos_field_of fs r | _, _ => None end.
Fixpoint eos_cols_ok (fe : fspec) (specs : list fspec) (ns : list string) : bool :=
  match specs, ns with
  | f :: fs, n :: r => (negb (n =? "eos")%string || fspec_eqb f fe) && eos_cols_ok fe fs r
  | _, _ => true
  end.
Definition neos (fe : option fspec) (m : dict) : dict :=
  match fe, dget m "eos" with Some f, Some v => dset m "eos" (cf f v) | _, _ => m end.
Lemma neos_other fe m n : n <> "eos" -> dget (neos fe m) n = dget m n.
Proof. intro NE. unfold neos. destruct fe as [f|]; [|reflexivity]. destruct (dget m "eos"); [|reflexivity]. apply dget_dset_other. exact NE. Qed.
Lemma neos_same fe m : (forall f v, fe = Some f -> dget m "eos" = Some v -> stable f v) ->
  forall specs ns, (match fe with Some f => eos_cols_ok f specs ns | None => true end) = true ->
  fmt_same specs (dict_vals (neos fe m) ns) (dict_vals m ns).
Proof.
  intros ST. induction specs as [|f fs IH]; intros ns H; [exact I|]. destruct ns as [|n r]; [exact I|].
  cbn [dict_vals map fmt_same]. split.
  - destruct (string_dec n "eos") as [E|NE]; [|unfold dgetv; rewrite neos_other by exact NE; reflexivity].
    subst n. unfold neos. destruct fe as [g|]; [|reflexivity]. cbn [eos_cols_ok] in H. apply andb_prop in H as [H1 _].
    rewrite String.eqb_refl in H1. cbn [negb orb] in H1. apply fspec_eqb_eq in H1. subst g.
    destruct (dget m "eos") as [v|] eqn:G; [|unfold dgetv; rewrite G; reflexivity].
    unfold dgetv at 1. rewrite dget_dset_same. unfold dgetv. rewrite ?G. apply (ST f v eq_refl); first [exact G|reflexivity].
  - apply IH. destruct fe as [g|]; [|reflexivity]. cbn [eos_cols_ok] in H. apply andb_prop in H as [_ H]. exact H.
Qed.
Definition eos_of (spec : string) : option fspec := eos_field_of (sp spec) (nm spec).
Definition multi_items (spec : string) (m : dict) : list item :=
  match m with [] => [] | _ => [Lit (kw "MULTI"); Rec spec (dict_vals (neos (eos_of spec) m) (nm spec))] end.
Lemma multi_items_ne spec m : nonempty m = true -> multi_items spec m = [Lit (kw "MULTI"); Rec spec (dict_vals (neos (eos_of spec) m) (nm spec))].
Proof. destruct m; [discriminate|reflexivity]. Qed.
Definition prog_multi (d : t2d) : list item := multi_items (multi_spec d) (multi d).
(** the name of the equation of state (when there is one) is a string whose padded text has no newline; the columns
    called 'eos' have the format found for it *)
Definition eos_value_ok (spec : string) (m : dict) : bool :=
  match eos_of spec with
  | Some f => eos_cols_ok f (sp spec) (nm spec) &&
              match dget m "eos" with
              | Some (XStr s) => fty_eqb (ft f) Ts && match fmt_field f (XStr s) with Ok t => no_nl t | Raise _ => false end
              | Some _ => false
              | None => true end
  | None => true
  end.
Definition wfw_multi (d : t2d) : bool := eos_value_ok (multi_spec d) (multi d).
Lemma eos_value_stable spec m : eos_value_ok spec m = true ->
  (forall f v, eos_of spec = Some f -> dget m "eos" = Some v -> stable f v) /\
  (match eos_of spec with Some f => eos_cols_ok f (sp spec) (nm spec) | None => true end) = true.
Proof.
  unfold eos_value_ok. destruct (eos_of spec) as [g|]; [|intros _; split; [intros; discriminate|reflexivity]].
  intro H. apply andb_prop in H as [C V]. split; [|exact C]. intros f v E G. injection E as <-. rewrite G in V.
  destruct v as [s| | |]; try discriminate. apply andb_prop in V as [Ty N]. apply fty_eqb_eq in Ty.
  destruct (fmt_field g (XStr s)) as [t|] eqn:F; [|discriminate]. apply (name_stable g s t Ty F N).
Qed.
Lemma write_multi_prog d : wfw_multi d = true -> write_multi T d = render (prog_multi d).
Proof.
  unfold wfw_multi, write_multi, prog_multi, multi_items. intro H. destruct (multi d) as [|e es] eqn:E; [reflexivity|]. rewrite <- E in *.
  destruct (eos_value_stable _ _ H) as [ST CO].
  unfold Prog.render. cbn [mapM render1 bind]. unfold wline, write_values. fold (sp (multi_spec d)).
  rewrite (fmt_same_write _ _ _ (neos_same _ _ ST _ _ CO)). destruct (write_fields _ _); reflexivity.
Qed.
(** the conditions of the second MULTI: the line read into the fresh dictionary gives back its values; the stripped name
    pads back to the text that was read; it is a well-formed name again *)
Definition idem_multi (dk d : t2d) : bool :=
  let spec := multi_spec d in
  let vs := cvals (sp spec) (dict_vals (multi d) (nm spec)) in
  let m0 := canon_dict T spec (multi dk) (multi d) in
  layer_okd (multi dk) (nm spec) vs && wfw_multi d && nonempty (multi d) &&
  match strip_eos m0 with
  | Ok m => eos_value_ok spec m && nonempty m &&
            match eos_of spec, dget m0 "eos" with
            | Some f, Some (XStr s') => value_eqb (cf f (XStr (strip s'))) (XStr s')
            | None, Some _ => negb (existsb (String.eqb "eos") (nm spec))
            | _, _ => true end
  | Raise _ => false
  end.
Lemma prog_multi_canon dk d X m : idem_multi dk d = true ->
  strip_eos (canon_dict T (multi_spec d) (multi dk) (multi d)) = Ok m -> multi X = m -> autough2 X = autough2 d ->
  prog_multi X = map citem (prog_multi d) /\ wfw_multi X = true.
Proof.
  intros ID SE MX AX. unfold idem_multi in ID. cbv zeta in ID. rewrite SE in ID.
  apply andb_prop in ID as [ID H2]. apply andb_prop in ID as [ID NE]. apply andb_prop in ID as [L WD].
  apply andb_prop in H2 as [H2 EV]. apply andb_prop in H2 as [WM NM].
  assert (SX : multi_spec X = multi_spec d) by (unfold multi_spec; rewrite AX; reflexivity).
  split; [|unfold wfw_multi; rewrite SX, MX; exact WM].
  unfold prog_multi. rewrite SX, MX, (multi_items_ne _ _ NM), (multi_items_ne _ _ NE).
  set (spec := multi_spec d) in *. set (m0 := canon_dict T spec (multi dk) (multi d)) in *.
  cbn [map citem].
  cut (dict_vals (neos (eos_of spec) m) (nm spec) = cvals (sp spec) (dict_vals (neos (eos_of spec) (multi d)) (nm spec))); [intro EQ; rewrite EQ; reflexivity|].
  destruct (eos_value_stable _ _ WD) as [ST CO]. fold spec in ST, CO.
  rewrite (fmt_same_cvals _ _ _ (neos_same _ _ ST _ _ CO)).
  transitivity (dict_vals m0 (nm spec)); [|exact (layer_vals_d _ _ _ L)].
  apply dict_vals_ext. intros n IN. unfold dgetv.
  destruct (string_dec n "eos") as [E|NEQ].
  - subst n. clear MX. unfold strip_eos in SE. destruct (dget m0 "eos") as [[s'| | |]|] eqn:G; try discriminate; injection SE as SE; subst m.
    + unfold neos. destruct (eos_of spec) as [f|] eqn:EF.
      * rewrite dget_dset_same, dget_dset_same. apply value_eqb_eq in EV. rewrite EV. reflexivity.
      * exfalso. apply (not_in_names _ _ EV IN).
    + unfold neos. destruct (eos_of spec); rewrite ?G; cbv iota; rewrite ?G; reflexivity.
  - rewrite neos_other by exact NEQ. clear MX. unfold strip_eos in SE. destruct (dget m0 "eos") as [[s'| | |]|]; try discriminate; injection SE as SE; subst m; [|reflexivity].
    rewrite dget_dset_other by exact NEQ. reflexivity.
Qed.

(** ** TIMES *)
Definition times_n (dt : dict) : nat := match ceil_div (dgetv dt "num_times_specified") (chunk_of "write_times") with Ok n => n | Raise _ => O end.
Definition prog_times (d : t2d) : list item :=
  match otimes d with
  | None => []
  | Some (dt, tl) => Lit (kw "TIMES") :: Rec "output_times1" (dict_vals dt (nm "output_times1")) ::
                     chunk_items "output_times2" (chunk_of "write_times") (times_n dt) tl
  end.
Definition wfw_times (d : t2d) : bool :=
  match otimes d with Some (dt, _) => is_ok (ceil_div (dgetv dt "num_times_specified") (chunk_of "write_times")) | None => true end.
Lemma write_times_prog d : wfw_times d = true -> write_times T d = render (prog_times d).
Proof.
  unfold wfw_times, write_times, prog_times, times_n. destruct (otimes d) as [[dt tl]|]; [|reflexivity]. intro H.
  rewrite !render_cons. cbn [render1 bind]. destruct (wline T "output_times1" _); cbn [bind]; [|reflexivity].
  destruct (ceil_div _ _) as [n|]; [|discriminate]. cbn [bind]. rewrite write_chunks_render.
  destruct (Prog.render T (chunk_items "output_times2" (chunk_of "write_times") n tl)); reflexivity.
Qed.
Definition idem_times (dt0 : dict) (x : dict * list value) : bool :=
  layer_okd dt0 (nm "output_times1") (cvals (sp "output_times1") (dict_vals (fst x) (nm "output_times1"))) &&
  value_eqb (dgetv (canon_dict T "output_times1" dt0 (fst x)) "num_times_specified") (dgetv (fst x) "num_times_specified") &&
  all_some (map (cf (field0 T "output_times2")) (snd x)).
Lemma prog_times_canon d X dt0 x : times_table_ok T = true -> idem_times dt0 x = true -> wfw_times d = true ->
  otimes d = Some x -> otimes X = Some (canon_times T dt0 x) ->
  prog_times X = map citem (prog_times d) /\ wfw_times X = true.
Proof.
  intros TOK ID WW OD OX. unfold times_table_ok in TOK.
  apply andb_prop in TOK as [TOK _]. apply andb_prop in TOK as [TOK _]. apply andb_prop in TOK as [_ U].
  unfold idem_times in ID. apply andb_prop in ID as [ID AS]. apply andb_prop in ID as [L NT]. apply value_eqb_eq in NT.
  destruct x as [dt tl]. cbn [fst snd] in *.
  unfold prog_times, wfw_times, times_n in *. rewrite OX, OD in *. unfold canon_times. cbn [fst snd]. rewrite NT. split; [|exact WW].
  cbn [map citem]. f_equal. f_equal; [unfold canon_dict; rewrite (layer_vals_d _ _ _ L); reflexivity|].
  unfold ctab. rewrite (somes_all_some _ AS). apply chunk_items_cf. exact U.
Qed.

(** ** GENER *)
Definition tab_items (key : string) (g : gen) (l : list value) : list item :=
  chunk_items key (chunk_of "write_generator") (nlines_z (Z.of_nat (chunk_of "write_generator")) (ntimes g)) (firstn (Z.to_nat (ntimes g)) l).
Definition prog_gen (g : gen) : list item :=
  Rec "generator" (gen_vals g) ::
  (if (1 <? ntimes g)%Z then
     (tab_items "generation_times" g (g_time g) ++ tab_items "generation_rates" g (g_rate g) ++
      match g_enth g with [] => [] | en => tab_items "generation_enthalpy" g en end)%list
   else []).
Definition wfw_gen (g : gen) : bool := match g_ltab g with XNone | XInt _ => true | _ => false end.
Lemma write_gen_prog g : gener_table_ok T = true -> wfw_gen g = true -> write_gen T g = render (prog_gen g).
Proof.
  intros TOK W. unfold gener_table_ok in TOK. do 5 (apply andb_prop in TOK as [TOK _]). apply andb_prop in TOK as [_ NM]. apply names_eqb_eq in NM.
  unfold write_gen, prog_gen.
  assert (DV : dict_vals (gen_dict g) (nm "generator") = gen_vals g) by (rewrite NM; reflexivity). rewrite DV.
  rewrite render_cons. cbn [render1]. destruct (wline T "generator" (gen_vals g)) as [l1|]; cbn [bind]; [|reflexivity].
  rewrite (gen_ntimes_spec g) by (unfold wfw_gen in W; destruct (g_ltab g); try discriminate; exact I). cbn [bind].
  destruct (1 <? ntimes g)%Z; [|reflexivity]. cbv zeta. rewrite !render_app. unfold tab_items. rewrite <- !write_chunks_render.
  destruct (write_chunks (sp "generation_times") _ _ _); cbn [bind]; [|reflexivity].
  destruct (write_chunks (sp "generation_rates") _ _ _); cbn [bind]; [|reflexivity].
  destruct (g_enth g) as [|e0 en]; [reflexivity|]. rewrite <- write_chunks_render.
  destruct (write_chunks (sp "generation_enthalpy") _ _ _); reflexivity.
Qed.
Definition idem_gen (g : gen) : bool :=
  let v := cvals (sp "generator") (gen_vals g) in
  wf_gen T g && is_xstr (vnth v 8) &&
  all_some (map (cf (field0 T "generation_times")) (g_time g)) && all_some (map (cf (field0 T "generation_rates")) (g_rate g)) &&
  all_some (map (cf (field0 T "generation_enthalpy")) (g_enth g)).
Lemma list13 {A} (l : list A) (dflt : A) : length l = 13%nat ->
  l = [nth 0 l dflt; nth 1 l dflt; nth 2 l dflt; nth 3 l dflt; nth 4 l dflt; nth 5 l dflt; nth 6 l dflt; nth 7 l dflt; nth 8 l dflt;
       nth 9 l dflt; nth 10 l dflt; nth 11 l dflt; nth 12 l dflt].
Proof. do 14 (destruct l as [|? l]; try discriminate). reflexivity. Qed.
Lemma gen_vals_canon g : gener_table_ok T = true -> idem_gen g = true -> gen_vals (canon_gen T g) = cvals (sp "generator") (gen_vals g).
Proof.
  intros TOK ID. unfold gener_table_ok in TOK. do 6 (apply andb_prop in TOK as [TOK _]). rename TOK into SH.
  destruct (shape_nth _ _ _ _ 0 Ts SH eq_refl) as [f0 [N0 [T0 _]]].
  destruct (shape_nth _ _ _ _ 1 Ts SH eq_refl) as [f1 [N1 [T1 _]]].
  destruct (shape_nth _ _ _ _ 5 Td SH eq_refl) as [f5 [N5 [T5 P5]]]. specialize (P5 eq_refl).
  destruct (shape_nth _ _ _ _ 6 Tx SH eq_refl) as [f6 [N6 [T6 _]]].
  destruct (shape_nth _ _ _ _ 7 Ts SH eq_refl) as [f7 [N7 [T7 _]]].
  destruct (shape_nth _ _ _ _ 8 Ts SH eq_refl) as [f8 [N8 [T8 _]]].
  unfold idem_gen in ID. cbv zeta in ID. do 3 (apply andb_prop in ID as [ID _]). apply andb_prop in ID as [WF X8].
  unfold wf_gen in WF. fold (sp "generator") in N0, N1, N5, N6, N7, N8. rewrite N0, N1, N5, N7, N8 in WF.
  apply andb_prop in WF as [WF W9]. apply andb_prop in WF as [WF W8]. apply andb_prop in WF as [WF W7].
  apply andb_prop in WF as [WF W6]. apply andb_prop in WF as [WF W5]. apply andb_prop in WF as [WF W4].
  apply andb_prop in WF as [WF W3]. apply andb_prop in WF as [W1 W2].
  set (v := cvals (sp "generator") (gen_vals g)) in *.
  assert (LV : length v = 13%nat) by (unfold v; rewrite cvals_length, (shape_length _ _ _ _ SH); reflexivity).
  assert (V0 : vnth v 0 = XStr (unfix_blockname (g_block g))) by (unfold v; rewrite (cvals_nth (sp "generator") (gen_vals g) 0 f0 _ N0 eq_refl); apply cf_str; assumption).
  assert (V1 : vnth v 1 = XStr (unfix_blockname (g_name g))) by (unfold v; rewrite (cvals_nth (sp "generator") (gen_vals g) 1 f1 _ N1 eq_refl); apply cf_str; assumption).
  assert (V5 : vnth v 5 = g_ltab g).
  { unfold v. rewrite (cvals_nth (sp "generator") (gen_vals g) 5 f5 (g_ltab g) N5 eq_refl).
    destruct (g_ltab g) as [|z| |] eqn:E; try discriminate W6; [apply cf_int; assumption|apply cf_none; unfold numeric; rewrite T5; reflexivity]. }
  assert (V6 : vnth v 6 = XNone) by (unfold v; rewrite (cvals_nth (sp "generator") (gen_vals g) 6 f6 XNone N6 eq_refl); apply cf_none; unfold numeric; rewrite T6; reflexivity).
  assert (V7 : vnth v 7 = XStr (g_type g)) by (unfold v; rewrite (cvals_nth (sp "generator") (gen_vals g) 7 f7 _ N7 eq_refl); apply cf_str; assumption).
  transitivity [vnth v 0; vnth v 1; vnth v 2; vnth v 3; vnth v 4; vnth v 5; vnth v 6; vnth v 7; vnth v 8; vnth v 9; vnth v 10; vnth v 11; vnth v 12];
    [|symmetry; exact (list13 v XNone LV)].
  unfold canon_gen. fold v. unfold gen_vals.
  cbn [g_block g_name g_nseq g_nadd g_nads g_ltab g_type g_itab g_gx g_ex g_hg g_fg].
  rewrite V0, V1, V5, V6, V7, (xstr_sval _ X8). reflexivity.
Qed.
Lemma ctab_all key l : all_some (map (cf (field0 T key)) l) = true -> ctab T key l = map (cf (field0 T key)) l.
Proof. intro H. unfold ctab. apply somes_all_some. exact H. Qed.
Lemma prog_gen_canon g : gener_table_ok T = true -> idem_gen g = true ->
  prog_gen (canon_gen T g) = map citem (prog_gen g) /\ wfw_gen (canon_gen T g) = wfw_gen g.
Proof.
  intros TOK ID. pose proof (gen_vals_canon g TOK ID) as GV.
  unfold gener_table_ok in TOK. do 2 (apply andb_prop in TOK as [TOK _]). apply andb_prop in TOK as [TOK U3].
  apply andb_prop in TOK as [TOK U2]. apply andb_prop in TOK as [_ U1].
  unfold idem_gen in ID. cbv zeta in ID. apply andb_prop in ID as [ID A3]. apply andb_prop in ID as [ID A2]. apply andb_prop in ID as [_ A1].
  assert (NT : ntimes (canon_gen T g) = ntimes g) by reflexivity.
  assert (TI : forall key l, uniform T key (chunk_of "write_generator") = true -> all_some (map (cf (field0 T key)) l) = true ->
               tab_items key (canon_gen T g) (ctab T key l) = map citem (tab_items key g l)).
  { intros key l U A. unfold tab_items. rewrite NT, (ctab_all key l A), firstn_map. apply chunk_items_cf. exact U. }
  split; [|reflexivity]. unfold prog_gen. rewrite NT, GV. cbn [map citem]. f_equal.
  destruct (1 <? ntimes g)%Z; [|reflexivity]. rewrite !map_app.
  assert (ET : g_time (canon_gen T g) = ctab T "generation_times" (g_time g)) by reflexivity.
  assert (ER : g_rate (canon_gen T g) = ctab T "generation_rates" (g_rate g)) by reflexivity.
  assert (EE : g_enth (canon_gen T g) = ctab T "generation_enthalpy" (g_enth g)) by reflexivity.
  rewrite ET, ER, EE, (TI _ _ U1 A1), (TI _ _ U2 A2). f_equal. f_equal.
  destruct (g_enth g) as [|e0 en] eqn:EN; [reflexivity|]. rewrite <- (TI _ _ U3 A3). rewrite (ctab_all _ _ A3). reflexivity.
Qed.
Definition prog_gener (d : t2d) : list item :=
  match gens d with [] => [] | gs => (Lit (kw "GENER") :: flat_map prog_gen gs ++ [Lit [nl]])%list end.

(** ** INCON *)
Definition inc_vals1 (ni : str * inc) : list value :=
  [XStr (unfix_blockname (fst ni)); match i_seq (snd ni) with Some (a, _) => a | None => XNone end;
   match i_seq (snd ni) with Some (_, b) => b | None => XNone end; i_por (snd ni)].
Definition prog_inc (ni : str * inc) : list item := [Rec "incon1" (inc_vals1 ni); RecK "incon2" (i_vars (snd ni))].
Lemma write_inc_prog ni : write_incon1 T (fst ni) (snd ni) = render (prog_inc ni).
Proof.
  unfold write_incon1, prog_inc, Prog.render. cbv zeta. fold (inc_vals1 ni). cbn [mapM render1].
  destruct (wline T "incon1" (inc_vals1 ni)); cbn [bind]; [|reflexivity]. destruct (wline T "incon2" _); reflexivity.
Qed.
(** nseq / nadd not the number 0, nadd only with nseq, the variables read back are those written *)
Definition idem_inc (ni : str * inc) : bool :=
  let v := cvals (sp "incon1") (inc_vals1 ni) in
  wf_inc T ni && negb (v_is0 (vnth v 1)) && negb (v_is0 (vnth v 2)) && (negb (is_none (vnth v 1)) || is_none (vnth v 2)) &&
  vlist_eqb (trim_nones (cvals (sp "incon2") (i_vars (snd ni)))) (kept (sp "incon2") (i_vars (snd ni))).
Lemma list4 {A} (l : list A) (dflt : A) : length l = 4%nat -> l = [nth 0 l dflt; nth 1 l dflt; nth 2 l dflt; nth 3 l dflt].
Proof. do 5 (destruct l as [|? l]; try discriminate). reflexivity. Qed.
Lemma prog_inc_canon ni : incon_table_ok T = true -> idem_inc ni = true -> prog_inc (canon_inc T ni) = map citem (prog_inc ni).
Proof.
  intros SH ID. unfold incon_table_ok in SH. destruct (shape_nth _ _ _ _ 0 Ts SH eq_refl) as [f0 [N0 [T0 _]]].
  unfold idem_inc in ID. cbv zeta in ID. apply andb_prop in ID as [ID KE]. apply andb_prop in ID as [ID C]. apply andb_prop in ID as [ID Z2].
  apply andb_prop in ID as [WF Z1]. apply negb_true_iff in Z1, Z2. apply vlist_eqb_eq in KE.
  unfold wf_inc in WF. fold (sp "incon1") in N0. rewrite N0 in WF. apply andb_prop in WF as [WF _]. apply andb_prop in WF as [W1 _].
  set (v := cvals (sp "incon1") (inc_vals1 ni)) in *.
  assert (LV : length v = 4%nat) by (unfold v; rewrite cvals_length, (shape_length _ _ _ _ SH); reflexivity).
  assert (V0 : vnth v 0 = XStr (unfix_blockname (fst ni))) by (unfold v; rewrite (cvals_nth (sp "incon1") (inc_vals1 ni) 0 f0 _ N0 eq_refl); apply cf_str; assumption).
  unfold prog_inc. cbn [map citem]. f_equal; [f_equal|f_equal; f_equal].
  - transitivity [vnth v 0; vnth v 1; vnth v 2; vnth v 3]; [|symmetry; exact (list4 v XNone LV)].
    unfold canon_inc. cbv zeta. fold (inc_vals1 ni). fold v. unfold inc_vals1 at 1. cbn [fst snd i_seq i_por].
    rewrite (zero_none_id _ Z1), (zero_none_id _ Z2), V0.
    destruct (vnth v 1) eqn:E1; try reflexivity. cbn [is_none negb orb] in C. destruct (vnth v 2); try discriminate. reflexivity.
  - unfold canon_inc. cbv zeta. cbn [snd i_vars]. exact KE.
Qed.
Definition prog_incon (d : t2d) : list item :=
  match incon d with [] => [] | _ => (Lit (kw "INCON") :: flat_map prog_inc (incon_items d) ++ [Lit [nl]])%list end.
Lemma write_incons_prog d : write_incons T d = render (prog_incon d).
Proof.
  unfold write_incons, prog_incon. destruct (incon d); [reflexivity|].
  apply (list_section_render T (fun ni => write_incon1 T (fst ni) (snd ni)) prog_inc "INCON" write_inc_prog).
Qed.
(** the incons the writer finds, by block name *)
Definition items_of {X} (ns : list str) (A : list (str * X)) : list (str * X) :=
  flat_map (fun n => match alookup n A with Some i => [(n, i)] | None => [] end) ns.
Lemma incon_items_names d : incon_items d = items_of (map b_name (blocks d)) (incon d).
Proof. unfold incon_items, items_of. induction (blocks d) as [|b bs IH]; [reflexivity|]. cbn [map flat_map]. rewrite IH. reflexivity. Qed.
Lemma alookup_app {X} n (a b : list (str * X)) : alookup n (a ++ b)%list = match alookup n a with Some x => Some x | None => alookup n b end.
Proof. induction a as [|[k x] a IH]; [reflexivity|]. cbn [app alookup]. destruct (str_eqb n k); [reflexivity|exact IH]. Qed.
Section Items.
Context {X : Type} (g : str * X -> str * X) (Hg : forall ni, fst (g ni) = fst ni).
Lemma items_of_lookup ns : forall (A M : list (str * X)),
  (forall n, In n ns -> alookup n M = option_map (fun i => snd (g (n, i))) (alookup n A)) -> items_of ns M = map g (items_of ns A).
Proof.
  induction ns as [|n ns IH]; intros A M H; [reflexivity|]. cbn [items_of flat_map]. rewrite map_app. fold (items_of ns M). fold (items_of ns A).
  rewrite (IH A M) by (intros m I; apply H; right; exact I). f_equal.
  rewrite (H n (or_introl eq_refl)). destruct (alookup n A) as [i|]; [|reflexivity]. cbn [option_map map]. f_equal.
  rewrite (surjective_pairing (g (n, i))). rewrite Hg. reflexivity.
Qed.
Lemma lookup_fresh n ns (A : list (str * X)) : existsb (fun y => str_eqb y n) ns = false -> alookup n (map g (items_of ns A)) = None.
Proof.
  induction ns as [|m ns IH]; intro H; [reflexivity|]. cbn [existsb] in H. apply orb_false_iff in H as [H1 H2].
  cbn [items_of flat_map]. rewrite map_app, alookup_app. fold (items_of ns A). rewrite (IH H2).
  destruct (alookup m A) as [i|]; [|reflexivity]. cbn [map alookup]. rewrite (surjective_pairing (g (m, i))), Hg. cbn [fst].
  replace (str_eqb n m) with false; [reflexivity|]. symmetry. destruct (str_eqb n m) eqn:E; [|reflexivity].
  apply str_eqb_eq in E. subst. rewrite str_eqb_refl in H1. discriminate.
Qed.
Lemma lookup_items ns : all_distinct str_eqb ns = true -> forall (A : list (str * X)) n, In n ns ->
  alookup n (map g (items_of ns A)) = option_map (fun i => snd (g (n, i))) (alookup n A).
Proof.
  induction ns as [|m ns IH]; intros D A n I; [contradiction|]. cbn [all_distinct] in D. apply andb_prop in D as [D1 D2]. apply negb_true_iff in D1.
  cbn [items_of flat_map]. rewrite map_app, alookup_app. fold (items_of ns A).
  destruct (str_eqb n m) eqn:E.
  - apply str_eqb_eq in E. subst m. destruct (alookup n A) as [i|] eqn:LA.
    + cbn [map alookup]. rewrite (surjective_pairing (g (n, i))), Hg. cbn [fst]. rewrite str_eqb_refl. reflexivity.
    + cbn [map alookup option_map]. apply lookup_fresh. exact D1.
  - assert (IN : In n ns). { destruct I as [I|I]; [subst; rewrite str_eqb_refl in E; discriminate|exact I]. }
    replace (alookup n (map g match alookup m A with Some i => [(m, i)] | None => [] end)) with (@None X); [apply IH; assumption|].
    destruct (alookup m A) as [i|]; [|reflexivity]. cbn [map alookup]. rewrite (surjective_pairing (g (m, i))), Hg. cbn [fst]. rewrite E. reflexivity.
Qed.
Theorem items_of_canon ns A : all_distinct str_eqb ns = true -> items_of ns (map g (items_of ns A)) = map g (items_of ns A).
Proof. intro D. apply items_of_lookup. intros n I. apply lookup_items; assumption. Qed.
End Items.
Definition idem_incon (d : t2d) : bool :=
  forallb idem_inc (incon_items d) && nonempty (incon_items d) && all_distinct str_eqb (map b_name (blocks d)) &&
  all_distinct same_key (map (canon_inc T) (incon_items d)).
Lemma canon_inc_key ni : fst (canon_inc T ni) = fst ni.
Proof. reflexivity. Qed.
Lemma prog_incon_canon d X : incon_table_ok T = true -> idem_incon d = true -> nonempty (incon d) = true ->
  incon X = canon_incons T d -> map b_name (blocks X) = map b_name (blocks d) ->
  prog_incon X = map citem (prog_incon d).
Proof.
  intros TOK ID NE IX BX. unfold idem_incon in ID. apply andb_prop in ID as [ID DK]. apply andb_prop in ID as [ID DB]. apply andb_prop in ID as [IA NI].
  assert (CI : canon_incons T d = map (canon_inc T) (incon_items d)).
  { unfold canon_incons, inc_step. rewrite (fold_left_map (add_named same_key) (canon_inc T)). apply fold_add_named_fresh. exact DK. }
  assert (II : incon_items X = map (canon_inc T) (incon_items d)).
  { rewrite (incon_items_names X), BX, IX, CI, (incon_items_names d). apply items_of_canon; [exact canon_inc_key|exact DB]. }
  unfold prog_incon. rewrite II, IX, CI. destruct (incon d) as [|i0 ir]; [discriminate|].
  assert (NM : nonempty (map (canon_inc T) (incon_items d)) = true) by (destruct (incon_items d); [discriminate NI|reflexivity]).
  destruct (map (canon_inc T) (incon_items d)) as [|m ms] eqn:EM; [discriminate|]. cbv iota. rewrite <- EM. clear EM NM.
  cbn [map citem]. f_equal. rewrite map_app. cbn [map citem]. f_equal.
  rewrite forallb_forall in IA. clear NI. induction (incon_items d) as [|a l IH]; [reflexivity|].
  cbn [map flat_map]. rewrite map_app, (prog_inc_canon a TOK (IA a (or_introl eq_refl))). f_equal. apply IH. intros y I. apply IA. right. exact I.
Qed.

(** ** INDOM *)
Definition prog_indom1 (ri : str * list value) : list item := [Lit (fst ri +++ [nl]); RecK "indom2" (snd ri)].
Definition prog_indom (d : t2d) : list item :=
  match indom d with [] => [] | items => (Lit (kw "INDOM") :: flat_map prog_indom1 items ++ [Lit [nl]])%list end.
Lemma write_indom_prog d : write_indom T d = render (prog_indom d).
Proof.
  unfold write_indom, prog_indom. destruct (indom d) as [|i0 ir]; [reflexivity|].
  apply (list_section_render T (fun ri => do l <- wline T "indom2" (snd ri); Ok [fst ri +++ [nl]; l]) prog_indom1 "INDOM").
  intro ri. unfold prog_indom1, Prog.render. cbn [mapM render1 bind].
  match goal with |- bind ?A _ = bind (bind ?B _) _ => change B with A; destruct A; reflexivity end.
Qed.
Definition idem_indom (l : list (str * list value)) : bool :=
  forallb (fun ri => vlist_eqb (trim_nones (cvals (sp "indom2") (snd ri))) (kept (sp "indom2") (snd ri))) l &&
  all_distinct same_key (map (canon_indom1 T) l) && nonempty l.
Lemma prog_indom_canon d X : idem_indom (indom d) = true -> indom X = canon_indom T (indom d) -> prog_indom X = map citem (prog_indom d).
Proof.
  intros ID IX. unfold idem_indom in ID. apply andb_prop in ID as [ID NE]. apply andb_prop in ID as [KE DK].
  assert (CI : canon_indom T (indom d) = map (canon_indom1 T) (indom d)).
  { unfold canon_indom, indom_step. rewrite (fold_left_map (add_named same_key) (canon_indom1 T)). apply fold_add_named_fresh. exact DK. }
  unfold prog_indom. rewrite IX, CI.
  assert (NM : nonempty (map (canon_indom1 T) (indom d)) = true) by (destruct (indom d); [discriminate NE|reflexivity]).
  destruct (map (canon_indom1 T) (indom d)) as [|m ms] eqn:EM; [discriminate|]. cbv iota. rewrite <- EM. clear EM NM.
  destruct (indom d) as [|x xs] eqn:EI; [discriminate|]. cbv iota. rewrite <- EI in *. clear EI.
  cbn [map citem]. f_equal. rewrite map_app. cbn [map citem]. f_equal.
  rewrite forallb_forall in KE. clear NE IX CI DK. induction (indom d) as [|a l IH]; [reflexivity|].
  cbn [map flat_map]. rewrite map_app. f_equal; [|apply IH; intros y I; apply KE; right; exact I].
  unfold prog_indom1, canon_indom1. cbn [fst snd map citem]. specialize (KE a (or_introl eq_refl)). apply vlist_eqb_eq in KE. rewrite KE. reflexivity.
Qed.

(** ** SELEC *)
Definition sel_n (ints : list value) : nat := match v_nat (vnth ints 0) with Ok n => n | Raise _ => O end.
Definition prog_selec (d : t2d) : list item :=
  match selection d with
  | None => []
  | Some (ints, floats) => Lit (kw "SELEC") :: Rec "selec1" ints :: chunk_items "selec2" (chunk_of "write_selection") (sel_n ints) floats
  end.
Definition wfw_selec (d : t2d) : bool := match selection d with Some (ints, _) => is_ok (v_nat (vnth ints 0)) | None => true end.
Lemma write_selec_prog d : wfw_selec d = true -> write_selection T d = render (prog_selec d).
Proof.
  unfold wfw_selec, write_selection, prog_selec, sel_n. destruct (selection d) as [[ints floats]|]; [|reflexivity]. intro H.
  rewrite !render_cons. cbn [render1 bind]. destruct (wline T "selec1" ints); cbn [bind]; [|reflexivity].
  destruct (v_nat (vnth ints 0)) as [n|]; [|discriminate]. cbn [bind]. rewrite write_chunks_render.
  destruct (Prog.render T (chunk_items "selec2" (chunk_of "write_selection") n floats)); reflexivity.
Qed.
Lemma chunk_items_cells key c : length (sp key) = c -> forall n l,
  chunk_items key c n (chunk_cells (sp key) c n l) = map citem (chunk_items key c n l).
Proof.
  intro L. induction n as [|n IH]; intro l; [reflexivity|]. cbn [chunk_cells chunk_items map citem].
  set (P := cvals (sp key) (pad_none c (firstn c l))). assert (LP : length P = c) by (unfold P; rewrite cvals_length; exact L).
  rewrite firstn_app, skipn_app, LP, Nat.sub_diag. cbn [firstn skipn]. rewrite app_nil_r, <- LP, firstn_all, skipn_all. cbn [app].
  rewrite LP, IH. f_equal. f_equal. unfold pad_none. rewrite LP, Nat.sub_diag. apply app_nil_r.
Qed.
Lemma prog_selec_canon d X x : selec_table_ok T = true -> wf_selection T x = true -> (length (sp "selec2") =? chunk_of "write_selection")%nat = true ->
  selection d = Some x -> selection X = Some (canon_selection T x) ->
  prog_selec X = map citem (prog_selec d) /\ wfw_selec X = true.
Proof.
  intros TOK WF L2 SD SX. apply Nat.eqb_eq in L2. destruct x as [ints floats]. unfold selec_table_ok in TOK. unfold wf_selection in WF. cbn [fst] in WF.
  destruct (sp "selec1") as [|f fs] eqn:S; [discriminate|]. apply andb_prop in TOK as [Ty Pw]. apply fty_eqb_eq in Ty. apply Z.leb_le in Pw.
  destruct ints as [|[|z| |] ints']; try discriminate.
  unfold prog_selec, wfw_selec, sel_n. rewrite SD, SX. unfold canon_selection. cbn [fst snd vnth nth]. rewrite S. cbn [cvals nth].
  rewrite (cf_int _ _ Ty Pw WF). cbn [v_nat is_ok]. split; [|reflexivity]. cbn [map citem]. rewrite S. cbn [cvals]. rewrite (cf_int _ _ Ty Pw WF).
  f_equal. f_equal. apply chunk_items_cells. exact L2.
Qed.

(** ** DIFFU *)
Definition prog_diffu (d : t2d) : list item :=
  match diffusion d with [] => [] | cs => Lit (kw "DIFFU") :: map (fun c => RecK "diffusion" c) cs end.
Lemma write_diffu_prog d : write_diffusion T d = render (prog_diffu d).
Proof.
  unfold write_diffusion, prog_diffu. destruct (diffusion d) as [|c0 cs]; [reflexivity|]. rewrite render_cons. cbn [render1 bind].
  assert (E : forall l, mapM (fun c => wline T "diffusion" c) l = Prog.render T (map (fun c => RecK "diffusion" c) l)).
  { induction l as [|a l IH]; [reflexivity|]. cbn [map mapM]. rewrite render_cons. cbn [render1]. rewrite IH. reflexivity. }
  rewrite E. reflexivity.
Qed.
(** each line has as many values as there are phases *)
Definition idem_diffu (np : Z) (cs : list (list value)) : bool :=
  forallb (fun c => vlist_eqb (pyslice (Some 0%Z) (Some np) (cvals (sp "diffusion") c)) (kept (sp "diffusion") c)) cs && nonempty cs.
Lemma prog_diffu_canon d X np : idem_diffu np (diffusion d) = true -> diffusion X = canon_diffusion T np (diffusion d) ->
  prog_diffu X = map citem (prog_diffu d).
Proof.
  intros ID DX. unfold idem_diffu in ID. apply andb_prop in ID as [KE NE]. unfold prog_diffu. rewrite DX. unfold canon_diffusion.
  set (f := fun c => pyslice (Some 0%Z) (Some np) (cvals (sp "diffusion") c)).
  assert (NM : nonempty (map f (diffusion d)) = true) by (destruct (diffusion d); [discriminate NE|reflexivity]).
  destruct (map f (diffusion d)) as [|m ms] eqn:EM; [discriminate|]. cbv iota. rewrite <- EM. clear EM NM.
  destruct (diffusion d) as [|c0 cs] eqn:ED; [discriminate|]. cbv iota. rewrite <- ED in *. clear ED. unfold f. cbn [map citem]. f_equal.
  rewrite forallb_forall in KE. clear NE DX. induction (diffusion d) as [|a l IH]; [reflexivity|]. cbn [map citem].
  pose proof (KE a (or_introl eq_refl)) as K. apply vlist_eqb_eq in K. rewrite K. f_equal. apply IH. intros y I. apply KE. right. exact I.
Qed.

End WithTable.
