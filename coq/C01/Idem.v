(** C01 -- writing again what was read: the record-level core of "the second file equals the
    first up to trailing blanks, every later file equals the second byte for byte".

    [stable f v]: the text of the value read back from v's text is v's text again.  It holds
    for integers and names that fit and for blanks (proved here); for reals it is the
    15-significant-digit round trip of binary64 (p + 1 <= 15 digits for every real field of
    the tables), which is a hypothesis here and is exercised on every run by the
    correspondence (three write / read cycles of the model and of the implementation). *)
From Coq Require Import Ascii String List Bool Arith ZArith NArith Lia.
From PTBase Require Import Exn PyStr PyNum PyVal Fmt FixedFormat.
From P Require Import Comb Fields.
Import ListNotations.
Open Scope char_scope.

Definition stable (f : fspec) (v : value) : Prop := fmt_field f (cf f v) = fmt_field f v.
Lemma spaces_no_nl w : no_nl (spaces w) = true.
Proof. unfold no_nl, spaces. induction w as [|w IH]; [reflexivity|]. cbn [repeat forallb]. rewrite IH. reflexivity. Qed.
Lemma spaces_all_blank w : forallb (fun c => ceqb c " ") (spaces w) = true.
Proof. unfold spaces. induction w as [|w IH]; [reflexivity|]. cbn [repeat forallb]. rewrite IH. reflexivity. Qed.

Lemma cf_of_text f v s : fmt_field f v = Ok s -> cf f v = rd_field f s.
Proof. intro H. unfold cf. rewrite H. reflexivity. Qed.
Lemma cf_idem f v s : fmt_field f v = Ok s -> stable f v -> cf f (cf f v) = cf f v.
Proof. intros H S. rewrite (cf_of_text f (cf f v) s) by (rewrite S; exact H). symmetry. apply cf_of_text. exact H. Qed.
Lemma stable_again f v s : fmt_field f v = Ok s -> stable f v -> stable f (cf f v).
Proof. intros H S. unfold stable. rewrite (cf_idem f v s H S). reflexivity. Qed.
Lemma stable_int f z : ft f = Td -> (0 <= fw f)%Z -> fits_int f z = true -> stable f (XInt z).
Proof. intros. unfold stable. rewrite cf_int by assumption. reflexivity. Qed.
Lemma stable_str f s : ft f = Ts -> fits_str f s = true -> stable f (XStr s).
Proof. intros. unfold stable. rewrite cf_str by assumption. reflexivity. Qed.
Lemma stable_none f : stable f XNone.
Proof.
  unfold stable. unfold cf at 1. cbn [fmt_field]. unfold rd_field, default_rf.
  destruct (spaces_blank (width f)) as [A B].
  destruct (ft f) eqn:T; rewrite ?A, ?B; cbn [rv2v]; try reflexivity.
  (* a blank name field reads back as blanks, which print as blanks *)
  unfold fmt_field. rewrite T. unfold fmt_raw. rewrite T. cbn [bind].
  assert (R : rstrip_c newline (spaces (width f)) = spaces (width f)).
  { apply rstrip_c_clean. apply spaces_no_nl. }
  rewrite R.
  assert (P : fmt_str (fw f) (spaces (width f)) = spaces (width f)).
  { unfold fmt_str, pad, width. destruct (fw f <? 0)%Z eqn:N.
    - unfold ljust. rewrite spaces_length. apply Z.ltb_lt in N. replace (Z.to_nat (- fw f)) with (Z.to_nat (Z.abs (fw f))) by lia.
      rewrite Nat.sub_diag. apply app_nil_r.
    - unfold rjust. rewrite spaces_length. apply Z.ltb_ge in N. replace (Z.to_nat (fw f)) with (Z.to_nat (Z.abs (fw f))) by lia.
      rewrite Nat.sub_diag. reflexivity. }
  rewrite P, spaces_length, Nat.leb_refl. reflexivity.
Qed.
(** a field for which no value was written: read from the empty text, written as blanks *)
Lemma blank_text f : fmt_field f (rd_field f []) = Ok (spaces (width f)).
Proof.
  unfold rd_field, default_rf. destruct (ft f) eqn:T; cbn [rv2v]; try reflexivity.
  change (rstrip_c newline []) with (@nil ascii).
  unfold fmt_field. rewrite T. unfold fmt_raw. rewrite T. cbn [bind].
  assert (P : fmt_str (fw f) [] = spaces (width f)).
  { unfold fmt_str, pad, width. destruct (fw f <? 0)%Z eqn:N.
    - unfold ljust. cbn [length app]. rewrite Nat.sub_0_r. apply Z.ltb_lt in N. f_equal. lia.
    - unfold rjust. cbn [length]. rewrite Nat.sub_0_r, app_nil_r. apply Z.ltb_ge in N. f_equal. lia. }
  rewrite P, spaces_length, Nat.leb_refl. reflexivity.
Qed.
Lemma stable_missing f : stable f (rd_field f []).
Proof.
  unfold stable. rewrite (cf_of_text _ _ _ (blank_text f)). rewrite blank_text.
  pose proof (stable_none f) as S. unfold stable in S. unfold cf in S at 1. cbn [fmt_field] in S. exact S.
Qed.

(** every value of the record is stable (values beyond the record's fields are never written) *)
Fixpoint all_stable (specs : list fspec) (vals : list value) : Prop :=
  match specs, vals with
  | f :: fs, v :: vs => stable f v /\ all_stable fs vs
  | _, _ => True
  end.
Definition blanks_for (specs : list fspec) : list str := map (fun f => spaces (width f)) specs.

Lemma write_missing specs : write_fields specs (map (fun f => rd_field f []) specs) = Ok (blanks_for specs).
Proof.
  induction specs as [|f fs IH]; [reflexivity|]. cbn [map write_fields blanks_for]. rewrite blank_text. cbn [bind].
  fold (blanks_for fs). rewrite IH. reflexivity.
Qed.
(** the record written from what was read: the same field texts, then blanks for the
    fields the first record did not reach *)
Theorem record_rewrite specs : forall vals l, write_fields specs vals = Ok l -> all_stable specs vals ->
  write_fields specs (cvals specs vals) = Ok (l ++ blanks_for (skipn (length l) specs))%list.
Proof.
  induction specs as [|f fs IH]; intros vals l W S.
  - cbn in W. inversion W; subst. destruct vals; reflexivity.
  - destruct vals as [|v vs].
    + cbn in W. inversion W; subst. cbn [cvals length skipn app]. apply (write_missing (f :: fs)).
    + cbn [write_fields] in W. destruct (fmt_field f v) as [s|] eqn:E; cbn [bind] in W; [|discriminate].
      destruct (write_fields fs vs) as [r|] eqn:R; cbn [bind] in W; [|discriminate]. inversion W; subst l. clear W.
      destruct S as [S1 S2]. cbn [cvals write_fields]. unfold stable in S1. rewrite S1, E. cbn [bind].
      rewrite (IH vs r R S2). reflexivity.
Qed.
Lemma cvals_full_length specs vals : length (cvals specs vals) = length specs.
Proof. apply cvals_length. Qed.
Lemma all_stable_cvals specs : forall vals l, write_fields specs vals = Ok l -> all_stable specs vals -> all_stable specs (cvals specs vals).
Proof.
  induction specs as [|f fs IH]; intros vals l W S; [exact I|].
  destruct vals as [|v vs].
  - cbn [cvals]. clear. change (all_stable (f :: fs) (map (fun g => rd_field g []) (f :: fs))).
    generalize (f :: fs). intro sp. induction sp as [|g gs IHg]; [exact I|]. cbn [map all_stable]. split; [apply stable_missing|exact IHg].
  - cbn [write_fields] in W. destruct (fmt_field f v) as [s|] eqn:E; cbn [bind] in W; [|discriminate].
    destruct (write_fields fs vs) as [r|] eqn:R; cbn [bind] in W; [|discriminate].
    destruct S as [S1 S2]. cbn [cvals all_stable]. split; [exact (stable_again f v s E S1)|exact (IH vs r R S2)].
Qed.
(** ... and from then on nothing changes: byte for byte *)
Theorem record_rewrite_fixpoint specs vals l : write_fields specs vals = Ok l -> all_stable specs vals ->
  write_fields specs (cvals specs (cvals specs vals)) = write_fields specs (cvals specs vals).
Proof.
  intros W S. pose proof (record_rewrite specs vals l W S) as W2.
  pose proof (record_rewrite specs (cvals specs vals) _ W2 (all_stable_cvals specs vals l W S)) as W3.
  rewrite W3, W2.
  assert (L : length (l ++ blanks_for (skipn (length l) specs))%list = length specs).
  { destruct (write_fields_widths _ _ _ W2) as [_ B]. rewrite B, cvals_length. apply Nat.min_id. }
  rewrite L, skipn_all. cbn [blanks_for map]. rewrite app_nil_r. reflexivity.
Qed.
(** the line of the second file: the line of the first, then blanks only *)
Corollary line_rewrite specs vals s : write_values specs vals = Ok s -> all_stable specs vals ->
  exists t, write_values specs (cvals specs vals) = Ok (s ++ t)%list /\ forallb (fun c => ceqb c " ") t = true.
Proof.
  unfold write_values. intros W S. destruct (write_fields specs vals) as [l|] eqn:E; cbn [bind] in W; [|discriminate].
  inversion W; subst s. rewrite (record_rewrite specs vals l E S). cbn [bind].
  exists (concat (blanks_for (skipn (length l) specs))). split; [rewrite concat_app; reflexivity|].
  generalize (skipn (length l) specs). intro sp. induction sp as [|f fs IH]; [reflexivity|].
  cbn [blanks_for map concat]. rewrite forallb_app. fold (blanks_for fs). rewrite IH, andb_true_r. apply spaces_all_blank.
Qed.
