(** C01 -- every writer as a line program ([prog_X], P1: write_X = render prog_X), and the
    program of what the reader built from it (P2: prog_X of the canonical content = the
    program of the original with every record's values read back). *)
From Coq Require Import Ascii String List Bool Arith ZArith NArith Lia.
From PTBase Require Import Exn PyStr PyNum PyVal Fmt FixedFormat.
From Gen Require Import GenTables GenSections.
From P Require Import Comb Obj Fields Idem Sections SectionsB Rec Prog SecRocks SecMesh SecGener SecMisc SecParam SecHist SecSel SecShort SecMeshm.
Import ListNotations.
Open Scope string_scope.

(** ** lists of known length *)
Lemma list9 {A} (l : list A) (dflt : A) : length l = 9%nat ->
  l = [nth 0 l dflt; nth 1 l dflt; nth 2 l dflt; nth 3 l dflt; nth 4 l dflt; nth 5 l dflt; nth 6 l dflt; nth 7 l dflt; nth 8 l dflt].
Proof. do 10 (destruct l as [|? l]; try discriminate). reflexivity. Qed.
Lemma vnth_eq l i : vnth l i = nth i l XNone.
Proof. reflexivity. Qed.
Lemma list_by_nth {A} (dflt : A) : forall (l : list A), l = map (fun i => nth i l dflt) (seq 0 (length l)).
Proof.
  induction l as [|a l IH]; [reflexivity|]. cbn [length seq map nth]. f_equal. rewrite <- seq_shift, map_map. exact IH.
Qed.
Definition is_xstr (v : value) : bool := match v with XStr _ => true | _ => false end.
Lemma xstr_sval v : is_xstr v = true -> XStr (sval v) = v.
Proof. destruct v; try discriminate; reflexivity. Qed.

(** ** dictionaries read from a line and written again *)
Lemma dget_update_none ns : forall d vs k, (forall j, nth_error ns j = Some k -> is_none (nth j vs XNone) = true) ->
  dget (dict_update d ns vs) k = dget d k.
Proof.
  induction ns as [|n ns IH]; intros d vs k H; [reflexivity|]. destruct vs as [|v vs]; [reflexivity|].
  cbn [dict_update]. rewrite IH by (intros j Hj; apply (H (S j)); exact Hj).
  destruct (is_none v) eqn:N; [reflexivity|]. apply dget_dset_other. intro E. subst n.
  specialize (H 0%nat eq_refl). cbn in H. congruence.
Qed.
(** names may repeat only where every value is None (the '' name of blank columns) *)
Definition dup_none (ns : list string) (vs : list value) : Prop :=
  forall i j, i <> j -> nth_error ns i <> None -> nth_error ns i = nth_error ns j -> is_none (nth i vs XNone) = true /\ is_none (nth j vs XNone) = true.
Lemma dict_vals_update ns : forall d0 vs, length vs = length ns -> dup_none ns vs ->
  (forall i n, nth_error ns i = Some n -> is_none (nth i vs XNone) = true -> dgetv d0 n = XNone) ->
  dict_vals (dict_update d0 ns vs) ns = map (fun v => v) vs.
Proof.
  induction ns as [|n ns IH]; intros d0 vs L DN Z; [destruct vs; [reflexivity|discriminate]|].
  destruct vs as [|v vs]; [discriminate|]. cbn [dict_update dict_vals map]. f_equal.
  - unfold dgetv. destruct (in_dec string_dec n ns) as [I|NI].
    + (* a repeated name: all its values are None *)
      apply In_nth_error in I as [j Hj].
      destruct (DN 0%nat (S j)) as [A _]; [lia|discriminate|cbn; symmetry; exact Hj|]. cbn in A.
      rewrite dget_update_none.
      * rewrite A. specialize (Z 0%nat n eq_refl A). unfold dgetv in Z. rewrite Z. destruct v; try discriminate; reflexivity.
      * intros j' Hj'. destruct (DN 0%nat (S j')) as [_ B]; [lia|discriminate|cbn; symmetry; exact Hj'|]. exact B.
    + rewrite dget_update_other by exact NI. destruct (is_none v) eqn:N.
      * specialize (Z 0%nat n eq_refl N). unfold dgetv in Z. rewrite Z. destruct v; try discriminate; reflexivity.
      * rewrite dget_dset_same. reflexivity.
  - rewrite map_id. rewrite <- (map_id vs) at 2. apply IH.
    + cbn in L. lia.
    + intros i j NE NN E. destruct (DN (S i) (S j)) as [A B]; [lia|exact NN|exact E|]. split; assumption.
    + intros i m Hm Nm. destruct (is_none v) eqn:N.
      * apply (Z (S i) m Hm Nm).
      * unfold dgetv. destruct (string_dec m n) as [E|NE].
        -- subst m. destruct (DN 0%nat (S i)) as [A _]; [lia|discriminate|cbn; symmetry; exact Hm|]. cbn in A. congruence.
        -- rewrite dget_dset_other by exact NE. apply (Z (S i) m Hm Nm).
Qed.
Lemma dict_vals_update' ns d0 vs : length vs = length ns -> dup_none ns vs ->
  (forall i n, nth_error ns i = Some n -> is_none (nth i vs XNone) = true -> dgetv d0 n = XNone) ->
  dict_vals (dict_update d0 ns vs) ns = vs.
Proof. intros. rewrite dict_vals_update by assumption. apply map_id. Qed.

Section WithTable.
Variable T : table.
Notation sp := (sp T).
Notation nm := (nm T).
Notation render := (render T).
Notation citem := (citem T).

(** ** ROCKS *)
Definition tpv (o : option (value * list value)) : list value := match o with Some (t, p) => [t; XNone] +++ p | None => [] end.
Definition prog_rock (r : rock) : list item :=
  Rec "rocks1" (rock_vals1 r) ::
  match nad_level (r_nad r) with
  | 0 => []
  | 1 => [Rec "rocks1.1" (dict_vals (r_extra r) (nm "rocks1.1"))]
  | _ => [Rec "rocks1.1" (dict_vals (r_extra r) (nm "rocks1.1")); Rec "rocks1.2" (tpv (r_rp r)); Rec "rocks1.2" (tpv (r_cap r))]
  end.
(** what the writer itself needs of a rock type: nad an int or None, both curves when nad >= 2 *)
Definition wfw_rock (r : rock) : bool :=
  match r_nad r with XNone | XInt _ => true | _ => false end &&
  (if (2 <=? nad_level (r_nad r))%nat then isSome (r_rp r) && isSome (r_cap r) else true).
Lemma write_rock_prog r : wfw_rock r = true -> write_rock T r = render (prog_rock r).
Proof.
  unfold wfw_rock. intro H. apply andb_prop in H as [H1 H2]. unfold write_rock, prog_rock. fold (rock_vals1 r).
  rewrite render_cons. cbn [render1]. destruct (wline T "rocks1" (rock_vals1 r)) as [l1|]; cbn [bind]; [|reflexivity].
  destruct (r_nad r) as [|z| |]; try discriminate H1; [|reflexivity].
  cbn [v_ge bind nad_level] in *. destruct (2 <=? z)%Z eqn:G2.
  - assert (G1 : (1 <=? z)%Z = true) by (apply Z.leb_le in G2; apply Z.leb_le; lia). rewrite G1. cbn [negb].
    cbn in H2. apply andb_prop in H2 as [A B]. destruct (r_rp r) as [[t1 p1]|]; [|discriminate]. destruct (r_cap r) as [[t2 p2]|]; [|discriminate].
    unfold Prog.render. cbn [mapM render1 tpv bind].
    destruct (wline T "rocks1.1" _); cbn [bind]; [|reflexivity]. destruct (wline T "rocks1.2" ([t1; XNone] +++ p1)); cbn [bind]; [|reflexivity].
    destruct (wline T "rocks1.2" ([t2; XNone] +++ p2)); reflexivity.
  - destruct (1 <=? z)%Z; cbn [negb]; [|reflexivity]. unfold Prog.render. cbn [mapM render1 bind].
    destruct (wline T "rocks1.1" _); reflexivity.
Qed.
(** the four attributes a new rock type always has keep their default when a blank is read: they must not be blank *)
Definition extra_ok (r : rock) : bool :=
  let vs := cvals (sp "rocks1.1") (dict_vals (r_extra r) (nm "rocks1.1")) in
  forallb (fun i => match nth_error (nm "rocks1.1") i with
                    | Some n => negb (is_none (nth i vs XNone)) || is_none (dgetv rock_default_extra n)
                    | None => true end) (seq 0 (length vs)).
Definition names_nodup (ns : list string) : bool := all_distinct String.eqb ns.
Lemma all_distinct_dup_none ns vs : names_nodup ns = true -> dup_none ns vs.
Proof.
  unfold names_nodup. intros D i j NE NN E. exfalso. revert i j NE NN E.
  induction ns as [|n ns IH]; intros i j NE NN E; [destruct i; cbn in NN; congruence|].
  cbn [all_distinct] in D. apply andb_prop in D as [D1 D2]. apply negb_true_iff in D1.
  destruct i as [|i], j as [|j]; cbn in *; try lia.
  - symmetry in E. apply nth_error_In in E. pose proof (existsb_false _ _ D1 n E) as F. cbn beta in F. rewrite String.eqb_refl in F. discriminate.
  - destruct (nth_error ns i) as [m|] eqn:Hi; [|congruence]. inversion E; subst m. apply nth_error_In in Hi.
    pose proof (existsb_false _ _ D1 n Hi) as F. cbn beta in F. rewrite String.eqb_refl in F. discriminate.
  - apply (IH D2 i j); [lia|exact NN|exact E].
Qed.
Definition idem_rock (r : rock) : bool := wf_rock T r && names_nodup (nm "rocks1.1") && (length (nm "rocks1.1") =? length (sp "rocks1.1"))%nat && extra_ok r.
Lemma rock_nad_back r : rocks_table_ok T = true -> wf_rock T r = true -> r_nad (canon_rock T r) = r_nad r /\
  rock_vals1 (canon_rock T r) = cvals (sp "rocks1") (rock_vals1 r).
Proof.
  intros TOK WF. unfold rocks_table_ok in TOK. apply andb_prop in TOK as [SH _].
  destruct (shape_nth _ _ _ _ 0 Ts SH eq_refl) as [f0 [N0 [T0 _]]].
  destruct (shape_nth _ _ _ _ 1 Td SH eq_refl) as [f1 [N1 [T1 P1]]]. specialize (P1 eq_refl).
  unfold wf_rock in WF. fold (sp "rocks1") in N0, N1. rewrite N0, N1 in WF.
  apply andb_prop in WF as [WF W5]. apply andb_prop in WF as [WF W4]. apply andb_prop in WF as [WF W3].
  apply andb_prop in WF as [W1 W2]. apply Nat.eqb_eq in W3.
  set (v := cvals (sp "rocks1") (rock_vals1 r)).
  assert (LV : length v = 9%nat) by (unfold v; rewrite cvals_length, (shape_length _ _ _ _ SH); reflexivity).
  assert (NAD : vnth v 1 = r_nad r).
  { unfold v. rewrite (cvals_nth (sp "rocks1") (rock_vals1 r) 1 f1 (r_nad r) N1 eq_refl).
    destruct (r_nad r) as [|z| |]; try discriminate W4; [apply cf_int; assumption|apply cf_none; unfold numeric; rewrite T1; reflexivity]. }
  assert (NAME : vnth v 0 = XStr (r_name r)).
  { unfold v. rewrite (cvals_nth (sp "rocks1") (rock_vals1 r) 0 f0 _ N0 eq_refl). apply cf_str; assumption. }
  assert (F : forall e a b, r_nad (mk_rock (sval (vnth v 0)) (vnth v 1) (vnth v 2) (vnth v 3) [vnth v 4; vnth v 5; vnth v 6] (vnth v 7) (vnth v 8) e a b) = r_nad r /\
              rock_vals1 (mk_rock (sval (vnth v 0)) (vnth v 1) (vnth v 2) (vnth v 3) [vnth v 4; vnth v 5; vnth v 6] (vnth v 7) (vnth v 8) e a b) = v).
  { intros e a b. split; [exact NAD|]. unfold rock_vals1. cbn [r_name r_nad r_density r_porosity r_perm r_cond r_spec app].
    transitivity [vnth v 0; vnth v 1; vnth v 2; vnth v 3; vnth v 4; vnth v 5; vnth v 6; vnth v 7; vnth v 8];
      [rewrite NAME; reflexivity|symmetry; exact (list9 v XNone LV)]. }
  unfold canon_rock. fold v. destruct (nad_level (r_nad r)) as [|[|n]]; apply F.
Qed.
Lemma canon_tp_vals k o : (2 <= length (sp k))%nat -> (match nth_error (sp k) 1 with Some f => numeric f | None => false end) = true ->
  isSome o = true -> tpv (canon_tp T k o) = cvals (sp k) (tpv o).
Proof.
  intros L N S. destruct o as [[t p]|]; [|discriminate]. cbn [canon_tp tpv].
  set (w := cvals (sp k) ([t; XNone] +++ p)).
  assert (LW : (2 <= length w)%nat) by (unfold w; rewrite cvals_length; exact L).
  destruct (nth_error (sp k) 1) as [f1|] eqn:N1; [|discriminate].
  assert (W1 : vnth w 1 = XNone) by (unfold w; rewrite (cvals_nth (sp k) ([t; XNone] +++ p) 1 f1 XNone N1 eq_refl); apply cf_none; exact N).
  destruct w as [|w0 [|w1 wr]]; cbn in LW; try lia. cbn [vnth nth] in *. subst w1. reflexivity.
Qed.
Lemma prog_rock_canon r : rocks_table_ok T = true -> idem_rock r = true -> wfw_rock r = true ->
  shape_ok T "rocks1.2" [Td; Tx; Te; Te; Te; Te; Te; Te; Te] 0 = true ->
  prog_rock (canon_rock T r) = map citem (prog_rock r) /\ wfw_rock (canon_rock T r) = true.
Proof.
  intros TOK ID WW S2. unfold idem_rock in ID. apply andb_prop in ID as [ID EX]. apply andb_prop in ID as [ID LN]. apply andb_prop in ID as [WF ND].
  apply Nat.eqb_eq in LN. destruct (rock_nad_back r TOK WF) as [NAD VALS].
  unfold wfw_rock in WW. apply andb_prop in WW as [W1 W2].
  assert (L2 : (2 <= length (sp "rocks1.2"))%nat) by (rewrite (shape_length _ _ _ _ S2); cbn; lia).
  assert (N2 : (match nth_error (sp "rocks1.2") 1 with Some f => numeric f | None => false end) = true).
  { destruct (shape_nth _ _ _ _ 1 Tx S2 eq_refl) as [f [N [Ty _]]]. fold (sp "rocks1.2") in N. rewrite N. unfold numeric. rewrite Ty. reflexivity. }
  assert (EXT : nad_level (r_nad r) <> 0%nat ->
                dict_vals (r_extra (canon_rock T r)) (nm "rocks1.1") = cvals (sp "rocks1.1") (dict_vals (r_extra r) (nm "rocks1.1"))).
  { intro NZ. assert (RE : r_extra (canon_rock T r) = dict_update rock_default_extra (nm "rocks1.1") (cvals (sp "rocks1.1") (dict_vals (r_extra r) (nm "rocks1.1")))).
    { unfold canon_rock. destruct (nad_level (r_nad r)) as [|[|n]]; [congruence|reflexivity|reflexivity]. }
    rewrite RE. apply dict_vals_update'.
    - rewrite cvals_length. symmetry. exact LN.
    - apply all_distinct_dup_none. exact ND.
    - intros i n Hn Nn. unfold extra_ok in EX. rewrite forallb_forall in EX.
      assert (IL : (i < length (cvals (sp "rocks1.1") (dict_vals (r_extra r) (nm "rocks1.1"))))%nat).
      { rewrite cvals_length, <- LN. apply nth_error_Some. congruence. }
      specialize (EX i (proj2 (in_seq _ _ _) (conj (Nat.le_0_l i) IL))). rewrite Hn, Nn in EX. cbn [negb orb] in EX.
      destruct (dgetv rock_default_extra n); try discriminate; reflexivity. }
  split.
  - unfold prog_rock. rewrite NAD, VALS. cbn [map citem]. f_equal.
    destruct (nad_level (r_nad r)) as [|[|n]] eqn:LV; [reflexivity| |].
    + cbn [map citem]. rewrite EXT by lia. reflexivity.
    + cbn [map citem]. rewrite EXT by lia. cbn in W2. apply andb_prop in W2 as [A B].
      assert (RP : r_rp (canon_rock T r) = canon_tp T "rocks1.2" (r_rp r) /\ r_cap (canon_rock T r) = canon_tp T "rocks1.2" (r_cap r)).
      { unfold canon_rock. rewrite LV. split; reflexivity. }
      destruct RP as [R1 R2]. rewrite R1, R2, (canon_tp_vals _ _ L2 N2 A), (canon_tp_vals _ _ L2 N2 B). reflexivity.
  - unfold wfw_rock. rewrite NAD, W1. cbn [andb]. destruct (2 <=? nad_level (r_nad r))%nat eqn:G; [|reflexivity].
    unfold canon_rock. destruct (nad_level (r_nad r)) as [|[|n]]; try discriminate G. cbn [r_rp r_cap].
    apply andb_prop in W2 as [A B]. destruct (r_rp r) as [[? ?]|]; [|discriminate]. destruct (r_cap r) as [[? ?]|]; [|discriminate]. reflexivity.
Qed.

End WithTable.

Lemma list_eq_nth {A} (dflt : A) : forall l l' : list A, length l = length l' ->
  (forall i, (i < length l)%nat -> nth i l dflt = nth i l' dflt) -> l = l'.
Proof.
  induction l as [|a l IH]; intros [|b l'] L H; try discriminate; [reflexivity|]. f_equal.
  - apply (H 0%nat). cbn. lia.
  - apply IH; [cbn in L; lia|]. intros i Hi. apply (H (S i)). cbn. lia.
Qed.

Section WithTable2.
Variable T : table.
Notation sp := (sp T).
Notation nm := (nm T).
Notation render := (render T).
Notation citem := (citem T).

(** ** ELEME *)
Definition prog_block (b : block) : list item := [Rec "blocks" (block_vals b)].
Lemma write_block_prog b : blocks_table_ok T = true -> write_block T b = render (prog_block b).
Proof.
  intro TOK. unfold blocks_table_ok in TOK. apply andb_prop in TOK as [_ NM]. rewrite (write_block_vals T b NM).
  unfold prog_block, Prog.render. cbn [mapM render1]. destruct (wline T "blocks" (block_vals b)); reflexivity.
Qed.
(** nseq / nadd are not the number 0 (which the reader takes for "absent"); the centre reads back whole or not at all *)
Definition idem_block (b : block) : bool :=
  let v := cvals (sp "blocks") (block_vals b) in
  negb (v_is0 (vnth v 1)) && negb (v_is0 (vnth v 2)) &&
  (let n7 := is_none (vnth v 7) in let n8 := is_none (vnth v 8) in let n9 := is_none (vnth v 9) in
   (n7 && n8 && n9) || (negb n7 && negb n8 && negb n9)).
Lemma zero_none_id v : v_is0 v = false -> zero_none v = v.
Proof. unfold zero_none. intro H. rewrite H. reflexivity. Qed.
Lemma centre_vals v : (let n7 := is_none (vnth v 7) in let n8 := is_none (vnth v 8) in let n9 := is_none (vnth v 9) in
   (n7 && n8 && n9) || (negb n7 && negb n8 && negb n9)) = true ->
  match centre_of v with Some c => c | None => [XNone; XNone; XNone] end = [vnth v 7; vnth v 8; vnth v 9].
Proof.
  unfold centre_of. cbv zeta. destruct (vnth v 7), (vnth v 8), (vnth v 9); cbn; intro H; try discriminate H; reflexivity.
Qed.
Lemma block_vals_canon rs b : blocks_table_ok T = true -> wf_block T rs b = true -> idem_block b = true ->
  block_vals (canon_block T b) = cvals (sp "blocks") (block_vals b).
Proof.
  intros TOK WF ID. unfold blocks_table_ok in TOK. apply andb_prop in TOK as [SH _].
  destruct (shape_nth _ _ _ _ 0 Ts SH eq_refl) as [f0 [N0 [T0 _]]]. destruct (shape_nth _ _ _ _ 3 Ts SH eq_refl) as [f3 [N3 [T3 _]]].
  unfold wf_block in WF. fold (sp "blocks") in N0, N3. rewrite N0, N3 in WF.
  apply andb_prop in WF as [WF W6]. apply andb_prop in WF as [WF W5]. apply andb_prop in WF as [WF W4].
  apply andb_prop in WF as [WF W3]. apply andb_prop in WF as [W1 W2].
  unfold idem_block in ID. cbv zeta in ID. apply andb_prop in ID as [ID CE]. apply andb_prop in ID as [Z1 Z2].
  apply negb_true_iff in Z1. apply negb_true_iff in Z2.
  set (v := cvals (sp "blocks") (block_vals b)) in *.
  assert (LV : length v = 10%nat) by (unfold v; rewrite cvals_length, (shape_length _ _ _ _ SH); reflexivity).
  assert (V0 : vnth v 0 = XStr (unfix_blockname (b_name b))) by (unfold v; rewrite (cvals_nth (sp "blocks") (block_vals b) 0 f0 _ N0 eq_refl); apply cf_str; assumption).
  assert (V3 : vnth v 3 = XStr (b_rock b)) by (unfold v; rewrite (cvals_nth (sp "blocks") (block_vals b) 3 f3 _ N3 eq_refl); apply cf_str; assumption).
  unfold canon_block. fold v. unfold block_vals at 1. cbn [b_name b_nseq b_nadd b_rock b_volume b_ahtx b_pmx b_centre].
  rewrite (centre_vals v CE), (zero_none_id _ Z1), (zero_none_id _ Z2), <- V0, <- V3. cbn [app].
  do 11 (destruct v as [|? v]; try discriminate LV). reflexivity.
Qed.

(** ** CONNE *)
Definition prog_conn (c : conn) : list item := [Rec "connections" (conn_vals c)].
Lemma write_conn_prog c : write_conn T c = render (prog_conn c).
Proof. unfold write_conn, prog_conn, Prog.render. fold (conn_vals c). cbn [mapM render1]. destruct (wline T "connections" (conn_vals c)); reflexivity. Qed.
Definition idem_conn (c : conn) : bool :=
  let v := cvals (sp "connections") (conn_vals c) in
  negb (v_is0 (vnth v 2)) && negb (v_is0 (vnth v 3)) && negb (v_is0 (vnth v 4)).
Lemma conn_vals_canon bs c : conns_table_ok T = true -> wf_conn T bs c = true -> idem_conn c = true ->
  conn_vals (canon_conn T c) = cvals (sp "connections") (conn_vals c).
Proof.
  intros SH WF ID. unfold conns_table_ok in SH.
  destruct (shape_nth _ _ _ _ 0 Ts SH eq_refl) as [f0 [N0 [T0 _]]]. destruct (shape_nth _ _ _ _ 1 Ts SH eq_refl) as [f1 [N1 [T1 _]]].
  unfold wf_conn in WF. fold (sp "connections") in N0, N1. rewrite N0, N1 in WF.
  apply andb_prop in WF as [WF W10]. apply andb_prop in WF as [WF W9]. apply andb_prop in WF as [WF W8].
  apply andb_prop in WF as [WF W7]. apply andb_prop in WF as [WF W6]. apply andb_prop in WF as [WF W5].
  apply andb_prop in WF as [WF W4]. apply andb_prop in WF as [WF W3]. apply andb_prop in WF as [W1 W2].
  unfold idem_conn in ID. cbv zeta in ID. apply andb_prop in ID as [ID Z3]. apply andb_prop in ID as [Z1 Z2].
  apply negb_true_iff in Z1. apply negb_true_iff in Z2. apply negb_true_iff in Z3.
  set (v := cvals (sp "connections") (conn_vals c)) in *.
  assert (LV : length v = 11%nat) by (unfold v; rewrite cvals_length, (shape_length _ _ _ _ SH); reflexivity).
  assert (V0 : vnth v 0 = XStr (unfix_blockname (c_b1 c))) by (unfold v; rewrite (cvals_nth (sp "connections") (conn_vals c) 0 f0 _ N0 eq_refl); apply cf_str; assumption).
  assert (V1 : vnth v 1 = XStr (unfix_blockname (c_b2 c))) by (unfold v; rewrite (cvals_nth (sp "connections") (conn_vals c) 1 f1 _ N1 eq_refl); apply cf_str; assumption).
  unfold canon_conn. fold v. unfold conn_vals at 1. cbn [c_b1 c_b2 c_nseq c_nad1 c_nad2 c_dir c_dist c_area c_dircos c_sigma].
  rewrite (zero_none_id _ Z1), (zero_none_id _ Z2), (zero_none_id _ Z3), <- V0, <- V1. cbn [app].
  do 12 (destruct v as [|? v]; try discriminate LV). reflexivity.
Qed.

End WithTable2.

(** ** chunked lists *)
Section WithTable3.
Variable T : table.
Notation sp := (sp T).
Notation nm := (nm T).
Notation render := (render T).
Notation citem := (citem T).

Lemma cvals_pad_none f k chunk : numeric f = true -> (length chunk <= k)%nat ->
  cvals (repeat f k) (pad_none k chunk) = pad_none k (map (cf f) chunk).
Proof.
  intros N L. rewrite (cvals_uniform f k _ N) by (unfold pad_none; rewrite app_length, repeat_length; lia).
  unfold pad_none. rewrite map_app, map_length. f_equal.
  induction (k - length chunk)%nat as [|m IH]; [reflexivity|]. cbn [repeat map]. rewrite (cf_none f N), IH. reflexivity.
Qed.
Lemma chunk_items_cf key k : uniform T key k = true -> forall n l,
  chunk_items key k n (map (cf (field0 T key)) l) = map citem (chunk_items key k n l).
Proof.
  intro U. destruct (uniform_spec T _ _ U) as [S N]. induction n as [|n IH]; intro l; [reflexivity|].
  cbn [chunk_items map citem]. rewrite skipn_map, firstn_map, IH. f_equal. f_equal.
  fold (sp key). rewrite S. symmetry. apply cvals_pad_none; [exact N|]. rewrite firstn_length. lia.
Qed.

(** ** dictionaries written again: a layer of later updates that leaves the record's own names alone *)
Lemma dict_vals_ext d d' ns : (forall n, In n ns -> dgetv d n = dgetv d' n) -> dict_vals d ns = dict_vals d' ns.
Proof. intro H. unfold dict_vals. apply map_ext_in. intros n I. apply H. exact I. Qed.
Lemma dgetv_of_dget a b n : dget a n = dget b n -> dgetv a n = dgetv b n.
Proof. unfold dgetv. intro H. rewrite H. reflexivity. Qed.
Definition layer_ok (d0 : dict) (ns : list string) (vs : list value) : bool :=
  (length vs =? length ns)%nat && names_nodup ns &&
  forallb (fun i => match nth_error ns i with Some n => negb (is_none (nth i vs XNone)) || is_none (dgetv d0 n) | None => true end) (seq 0 (length vs)).
Lemma layer_vals d0 ns vs (W : dict) : layer_ok d0 ns vs = true ->
  (forall n, In n ns -> dgetv W n = dgetv (dict_update d0 ns vs) n) -> dict_vals W ns = vs.
Proof.
  intros L H. unfold layer_ok in L. apply andb_prop in L as [L Z]. apply andb_prop in L as [LN ND]. apply Nat.eqb_eq in LN.
  rewrite (dict_vals_ext W (dict_update d0 ns vs) ns H). apply dict_vals_update'; [exact LN|apply all_distinct_dup_none; exact ND|].
  intros i n Hn Nn. rewrite forallb_forall in Z.
  assert (IL : (i < length vs)%nat) by (rewrite LN; apply nth_error_Some; congruence).
  specialize (Z i (proj2 (in_seq _ _ _) (conj (Nat.le_0_l i) IL))). rewrite Hn, Nn in Z. cbn [negb orb] in Z.
  destruct (dgetv d0 n); try discriminate; reflexivity.
Qed.
Lemma pb_fix_other d n : n <> "print_block" -> dget (pb_fix d) n = dget d n.
Proof.
  intro NE. unfold pb_fix. destruct (dgetv d "print_block") as [s| | |]; try reflexivity.
  destruct (blank s); [apply dget_dset_other; exact NE|].
  destruct (read_fixes_print_block && (length s =? 5)%nat); [|reflexivity].
  destruct (fix_blockname s); [apply dget_dset_other; exact NE|reflexivity].
Qed.

(** ** two value lists with the same field texts *)
Fixpoint fmt_same (specs : list fspec) (a b : list value) : Prop :=
  match specs with
  | [] => True
  | f :: fs => match a, b with
               | x :: a', y :: b' => fmt_field f x = fmt_field f y /\ fmt_same fs a' b'
               | [], [] => True
               | _, _ => False end
  end.
Lemma fmt_same_write specs : forall a b, fmt_same specs a b -> write_fields specs a = write_fields specs b.
Proof.
  induction specs as [|f fs IH]; intros a b H; [destruct a, b; reflexivity|].
  destruct a as [|x a], b as [|y b]; try contradiction; [reflexivity|]. destruct H as [H1 H2]. cbn [write_fields]. rewrite H1, (IH a b H2). reflexivity.
Qed.
Lemma fmt_same_cvals specs : forall a b, fmt_same specs a b -> cvals specs a = cvals specs b.
Proof.
  induction specs as [|f fs IH]; intros a b H; [destruct a, b; reflexivity|].
  destruct a as [|x a], b as [|y b]; try contradiction; [reflexivity|]. destruct H as [H1 H2]. cbn [cvals]. rewrite (IH a b H2). f_equal.
  unfold cf. rewrite H1. reflexivity.
Qed.
Definition res_str_same (a b : res str) : bool := match a, b with Ok x, Ok y => str_eqb x y | _, _ => false end.
Lemma res_str_same_eq a b : res_str_same a b = true -> a = b.
Proof. destruct a, b; cbn; intro H; try discriminate. apply str_eqb_eq in H. subst. reflexivity. Qed.
Fixpoint fmt_sameb (specs : list fspec) (a b : list value) : bool :=
  match specs with
  | [] => true
  | f :: fs => match a, b with
               | x :: a', y :: b' => res_str_same (fmt_field f x) (fmt_field f y) && fmt_sameb fs a' b'
               | [], [] => true
               | _, _ => false end
  end.
Lemma fmt_sameb_spec specs : forall a b, fmt_sameb specs a b = true -> fmt_same specs a b.
Proof.
  induction specs as [|f fs IH]; intros a b H; [exact I|]. destruct a as [|x a], b as [|y b]; try discriminate; [exact I|].
  cbn in H. apply andb_prop in H as [H1 H2]. split; [apply res_str_same_eq; exact H1|apply IH; exact H2].
Qed.
(** print_block None is written as five blanks, which is what is read back: the program holds the blanks *)
Definition norm_pb (dct : dict) : dict :=
  match dgetv dct "print_block" with XNone => dset dct "print_block" (XStr (spaces 5)) | _ => dct end.
Lemma norm_pb_other dct n : n <> "print_block" -> dget (norm_pb dct) n = dget dct n.
Proof. intro NE. unfold norm_pb. destruct (dgetv dct "print_block"); try reflexivity. apply dget_dset_other. exact NE. Qed.
Fixpoint pb_cols_ok (specs : list fspec) (ns : list string) : bool :=
  match specs, ns with
  | f :: fs, n :: r => (negb (n =? "print_block") || (fty_eqb (ft f) Ts && (width f =? 5)%nat)) && pb_cols_ok fs r
  | _, _ => true
  end.
Lemma norm_pb_same dct : forall specs ns, pb_cols_ok specs ns = true -> fmt_same specs (dict_vals (norm_pb dct) ns) (dict_vals dct ns).
Proof.
  induction specs as [|f fs IH]; intros ns H; [exact I|]. destruct ns as [|n r]; [exact I|]. cbn [pb_cols_ok] in H. apply andb_prop in H as [H1 H2].
  cbn [dict_vals map fmt_same]. split; [|apply IH; exact H2].
  destruct (string_dec n "print_block") as [E|NE].
  - subst n. rewrite String.eqb_refl in H1. cbn [negb orb] in H1.
    apply andb_prop in H1 as [Ty W5]. apply fty_eqb_eq in Ty. apply Nat.eqb_eq in W5.
    unfold norm_pb. destruct (dgetv dct "print_block") eqn:G; try (rewrite G; reflexivity).
    unfold dgetv at 1. rewrite dget_dset_same. rewrite <- W5, <- (cf_none_str f Ty). apply stable_none.
  - unfold dgetv. rewrite norm_pb_other by exact NE. reflexivity.
Qed.

(** ** PARAM *)
Definition ts_items (p : params) : list item :=
  let c0 := dgetv (p_dict p) "const_timestep" in
  if is_neg c0 then chunk_items "timestep" (chunk_of "write_timesteps") (match v_int c0 with Ok z => Z.to_nat (- z) | Raise _ => O end) (p_timestep p) else [].
Definition di_items (l : list value) : list item :=
  match l with
  | [] => [Lit [nl]]
  | _ => chunk_items "default_incons" (chunk_of "write_parameters") (nlines_z (Z.of_nat (chunk_of "write_parameters")) (Z.of_nat (length l))) l
  end.
Definition prog_param (d : t2d) : list item :=
  let p := param d in
  ([Lit (kw "PARAM"); Rec (param_spec d) (dict_vals (dict1_of p) (nm (param_spec d))); Rec "param2" (dict_vals (norm_pb (paramw_of p)) (nm "param2"))]
   ++ ts_items p ++ [Rec "param3" (dict_vals (dict1_of p) (nm "param3"))] ++ di_items (p_dincons p))%list.
(** what the writer itself needs: print_block a name or None, const_timestep a number *)
Definition wfw_param (d : t2d) : bool :=
  let p := param d in let c0 := dgetv (p_dict p) "const_timestep" in
  is_ok (pbw_of p) && is_ok (v_lt0 c0) && (if is_neg c0 then is_ok (v_int c0) else true) && pb_cols_ok (sp "param2") (nm "param2").
Lemma write_param_prog d : wfw_param d = true -> write_param T d = render (prog_param d).
Proof.
  unfold wfw_param. cbv zeta. intro H. apply andb_prop in H as [H PC]. apply andb_prop in H as [H H3]. apply andb_prop in H as [H1 H2].
  unfold write_param, prog_param. fold (pbw_of (param d)). fold (opt_str (p_option (param d))). fold (dict1_of (param d)).
  destruct (pbw_of (param d)) as [pbw|] eqn:PB; [|discriminate]. cbn [bind].
  replace (dset (p_dict (param d)) "print_block" pbw) with (paramw_of (param d)) by (unfold paramw_of; rewrite PB; reflexivity).
  cbv zeta. cbn [app]. rewrite !render_cons. cbn [render1 bind].
  assert (NP : wline T "param2" (dict_vals (norm_pb (paramw_of (param d))) (nm "param2")) = wline T "param2" (dict_vals (paramw_of (param d)) (nm "param2"))).
  { unfold wline, write_values. fold (sp "param2"). rewrite (fmt_same_write _ _ _ (norm_pb_same (paramw_of (param d)) _ _ PC)). reflexivity. }
  rewrite NP. clear NP.
  destruct (wline T (param_spec d) _) as [l1|]; cbn [bind]; [|reflexivity].
  destruct (wline T "param2" _) as [l2|]; cbn [bind]; [|reflexivity].
  rewrite render_app.
  assert (TS : write_timesteps T (param d) = render (ts_items (param d))).
  { unfold write_timesteps, ts_items, is_neg in *. cbv zeta.
    destruct (v_lt0 (dgetv (p_dict (param d)) "const_timestep")) as [ng|]; [|discriminate]. cbn [bind].
    destruct ng; [|reflexivity]. destruct (v_int _) as [z|]; [|discriminate]. cbn [bind]. apply write_chunks_render. }
  rewrite TS. destruct (render (ts_items (param d))) as [ts|]; cbn [bind]; [|reflexivity].
  rewrite render_cons. cbn [render1]. destruct (wline T "param3" _) as [l3|]; cbn [bind]; [|reflexivity].
  assert (DI : write_dincons T (p_dincons (param d)) = render (di_items (p_dincons (param d)))).
  { unfold write_dincons, di_items. destruct (p_dincons (param d)); [reflexivity|apply write_chunks_render]. }
  rewrite DI. destruct (render (di_items (p_dincons (param d)))); reflexivity.
Qed.

(** the decidable conditions of the second PARAM: the three parameter lines take their values from
    disjoint names, blanks only where the default is blank, print_block reads back as written *)
Definition disjoint_names (a b : list string) : bool := forallb (fun n => negb (existsb (String.eqb n) b)) a.
Definition vs1_of (d : t2d) := cvals (sp (param_spec d)) (dict_vals (dict1_of (param d)) (nm (param_spec d))).
Definition vs2_of (d : t2d) := cvals (sp "param2") (dict_vals (paramw_of (param d)) (nm "param2")).
Definition vs3_of (d : t2d) := cvals (sp "param3") (dict_vals (dict1_of (param d)) (nm "param3")).
Definition idem_param (dk d : t2d) : bool :=
  let n1 := nm (param_spec d) in let n2 := nm "param2" in let n3 := nm "param3" in
  let def := p_dict (param dk) in
  let c1 := cd1 T dk d in
  let u2 := dict_update c1 n2 (vs2_of d) in
  let c2 := cd2 T dk d in
  let pc := canon_param T dk d in
  disjoint_names n1 n2 && disjoint_names n1 n3 && disjoint_names n2 n3 && disjoint_names n2 n1 && disjoint_names n3 n1 && disjoint_names n3 n2 &&
  negb (existsb (String.eqb "print_block") n1) && negb (existsb (String.eqb "print_block") n3) &&
  negb (existsb (String.eqb "_option_str") n2) && negb (existsb (String.eqb "_option_str") n3) &&
  layer_ok def n1 (vs1_of d) && layer_ok c1 n2 (vs2_of d) && layer_ok c2 n3 (vs3_of d) &&
  (* print_block: what the writer takes from the re-read parameters is what was read *)
  value_eqb (dgetv (norm_pb (paramw_of pc)) "print_block") (dgetv u2 "print_block") && is_ok (pbw_of pc) &&
  (* the lists read back whole *)
  all_some (map (cf (field0 T "timestep")) (p_timestep (param d))) &&
  negb (existsb (String.eqb "const_timestep") n3).
Lemma not_in_names n ns : negb (existsb (String.eqb n) ns) = true -> ~ In n ns.
Proof. intros H I. apply negb_true_iff in H. pose proof (existsb_false _ _ H n I) as F. cbn beta in F. rewrite String.eqb_refl in F. discriminate. Qed.
Lemma disjoint_spec a b n : disjoint_names a b = true -> In n a -> ~ In n b.
Proof. unfold disjoint_names. intros H I. rewrite forallb_forall in H. apply not_in_names. apply H. exact I. Qed.

Theorem prog_param_canon dk d X : param_table_ok T = true -> wf_param T (map s2l (t2data_sections +++ param_lookahead_extra)) dk d = true ->
  idem_param dk d = true -> wfw_param d = true ->
  param X = canon_param T dk d -> autough2 X = autough2 d ->
  prog_param X = map citem (prog_param d) /\ wfw_param X = true.
Proof.
  intros TOK WF ID WW PX AX. unfold param_table_ok in TOK.
  assert (PC : pb_cols_ok (sp "param2") (nm "param2") = true) by (unfold wfw_param in WW; cbv zeta in WW; apply andb_prop in WW as [_ PC]; exact PC).
  apply andb_prop in TOK as [TOK _]. apply andb_prop in TOK as [TOK C4]. apply andb_prop in TOK as [TOK U4].
  apply andb_prop in TOK as [U8 C8].
  unfold wf_param in WF. cbv zeta in WF.
  apply andb_prop in WF as [WF A0]. apply andb_prop in WF as [WF E0]. apply andb_prop in WF as [WF DL].
  apply andb_prop in WF as [WF AS]. apply andb_prop in WF as [WF TS]. apply andb_prop in WF as [WF OS].
  apply andb_prop in WF as [OD OL]. apply value_eqb_eq in OS. apply andb_prop in TS as [TS1 TS2].
  unfold idem_param in ID. cbv zeta in ID.
  apply andb_prop in ID as [ID CT3]. apply andb_prop in ID as [ID AT]. apply andb_prop in ID as [ID PBO]. apply andb_prop in ID as [ID PBE].
  apply andb_prop in ID as [ID L3]. apply andb_prop in ID as [ID L2]. apply andb_prop in ID as [ID L1].
  apply andb_prop in ID as [ID O3]. apply andb_prop in ID as [ID O2]. apply andb_prop in ID as [ID P3]. apply andb_prop in ID as [ID P1].
  apply andb_prop in ID as [ID D32]. apply andb_prop in ID as [ID D31]. apply andb_prop in ID as [ID D21]. apply andb_prop in ID as [ID D23].
  apply andb_prop in ID as [D12 D13]. apply value_eqb_eq in PBE.
  assert (SPX : param_spec X = param_spec d) by (unfold param_spec; rewrite AX; reflexivity).
  set (n1 := nm (param_spec d)) in *. set (n2 := nm "param2") in *. set (n3 := nm "param3") in *.
  set (c1 := cd1 T dk d) in *. set (c2 := cd2 T dk d) in *. set (c3 := cd3 T dk d).
  assert (PD : p_dict (param X) = c3 /\ p_option (param X) = p_option (param d)) by (rewrite PX; split; reflexivity).
  destruct PD as [PD PO].
  (* dget through the layers *)
  assert (G3 : forall n, ~ In n n3 -> dget c3 n = dget c2 n) by (intros n NI; unfold c3, cd3; apply dget_update_other; exact NI).
  assert (G2 : forall n, ~ In n n2 -> n <> "print_block" -> dget c2 n = dget c1 n).
  { intros n NI NP. unfold c2, cd2. rewrite pb_fix_other by exact NP. apply dget_update_other. exact NI. }
  (* line 1 *)
  assert (R1 : dict_vals (dict1_of (param X)) (nm (param_spec X)) = vs1_of d).
  { rewrite SPX. fold n1. apply (layer_vals _ _ _ _ L1). intros n I. apply dgetv_of_dget. unfold dict1_of. rewrite PD, PO.
    destruct (string_dec n "_option_str") as [E|NE].
    - subst n. rewrite dget_dset_same. change (dict_update (p_dict (param dk)) n1 (vs1_of d)) with c1. unfold dgetv in OS.
      destruct (dget c1 "_option_str") as [v|]; [subst v; reflexivity|discriminate].
    - rewrite dget_dset_other by exact NE. rewrite G3 by (apply (disjoint_spec n1 n3 n D13 I)).
      rewrite G2; [reflexivity|apply (disjoint_spec n1 n2 n D12 I)|intro E; subst n; apply (not_in_names _ _ P1 I)]. }
  (* line 3 *)
  assert (R3 : dict_vals (dict1_of (param X)) (nm "param3") = vs3_of d).
  { fold n3. apply (layer_vals _ _ _ _ L3). intros n I. apply dgetv_of_dget. unfold dict1_of. rewrite PD.
    rewrite dget_dset_other by (intro E; subst n; apply (not_in_names _ _ O3 I)). reflexivity. }
  (* line 2 *)
  assert (R2 : dict_vals (norm_pb (paramw_of (param X))) (nm "param2") = vs2_of d).
  { fold n2. apply (layer_vals _ _ _ _ L2). intros n I.
    destruct (string_dec n "print_block") as [E|NE].
    - subst n. rewrite PX. exact PBE.
    - apply dgetv_of_dget. rewrite norm_pb_other by exact NE. unfold paramw_of. rewrite dget_dset_other by exact NE. rewrite PD. rewrite G3 by (apply (disjoint_spec n2 n3 n D23 I)).
      unfold c2, cd2. rewrite pb_fix_other by exact NE. reflexivity. }
  (* const_timestep and the lists *)
  set (c := dgetv c2 "const_timestep") in *. set (c0 := dgetv (p_dict (param d)) "const_timestep") in *.
  assert (CX : dgetv (p_dict (param X)) "const_timestep" = c).
  { rewrite PD. unfold c, dgetv. rewrite G3; [reflexivity|apply not_in_names; exact CT3]. }
  assert (NG : is_neg c = is_neg c0 /\ is_ok (v_lt0 c) = true).
  { unfold is_neg, res_bool_eqb in *. destruct (v_lt0 c) as [b|]; [|discriminate]. destruct (v_lt0 c0) as [b0|]; [|discriminate].
    apply Bool.eqb_prop in TS1. subst. split; reflexivity. }
  destruct NG as [NG OKC].
  assert (VI : is_neg c0 = true -> v_int c = v_int c0 /\ is_ok (v_int c) = true).
  { intro N. rewrite N in TS2. apply andb_prop in TS2 as [TI _]. unfold res_z_eqb in TI.
    destruct (v_int c) as [z|]; [|discriminate]. destruct (v_int c0) as [z0|]; [|discriminate]. apply Z.eqb_eq in TI. subst. split; reflexivity. }
  assert (TSX : p_timestep (param X) = if is_neg c then ctab T "timestep" (p_timestep (param d)) else [c]) by (rewrite PX; reflexivity).
  assert (DIX : p_dincons (param X) = map (cf (field0 T "default_incons")) (p_dincons (param d))) by (rewrite PX; reflexivity).
  split.
  - assert (ETS : ts_items (param X) = map citem (ts_items (param d))).
    { unfold ts_items. cbv zeta. rewrite CX, NG, TSX, NG. fold c0. destruct (is_neg c0) eqn:N; [|reflexivity]. destruct (VI eq_refl) as [V _]. rewrite V.
      unfold ctab. rewrite (somes_all_some _ AT). apply chunk_items_cf. exact U8. }
    assert (EDI : di_items (p_dincons (param X)) = map citem (di_items (p_dincons (param d)))).
    { rewrite DIX. unfold di_items. destruct (p_dincons (param d)) as [|v0 vs]; [reflexivity|]. cbn [map]. rewrite <- (map_cons (cf (field0 T "default_incons"))).
      rewrite map_length. apply chunk_items_cf. exact U4. }
    assert (NV : cvals (sp "param2") (dict_vals (norm_pb (paramw_of (param d))) (nm "param2")) = vs2_of d).
    { unfold vs2_of. apply fmt_same_cvals, norm_pb_same. exact PC. }
    unfold prog_param. cbv zeta. rewrite R1, R2, R3, SPX, ETS, EDI. rewrite !map_app. cbn [map citem]. rewrite NV. reflexivity.
  - unfold wfw_param. cbv zeta. apply andb_true_intro. split; [|exact PC]. rewrite CX, PX, PBO, OKC, NG. cbn [andb]. destruct (is_neg c0) eqn:N; [|reflexivity]. apply (VI eq_refl).
Qed.

End WithTable3.
