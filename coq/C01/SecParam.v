(** C01 -- PARAM: read_parameters (write_parameters p) followed by the next keyword line gives
    the parameters back and returns that line as look-ahead: option digits, the three
    parameter lines, the time-step lines (const_timestep < 0), 0..N default initial
    conditions four per line. *)
From Coq Require Import Ascii String List Bool Arith ZArith NArith Lia.
From PTBase Require Import Exn PyStr PyNum PyVal Fmt FixedFormat.
From Gen Require Import GenSections.
From P Require Import Comb Obj Fields Sections Rec SecRocks SecMesh SecGener SecMisc.
Import ListNotations.
Open Scope string_scope.

(** ** trailing Nones *)
Lemma lstrip_none_nones m x : lstrip_none (repeat XNone m ++ x)%list = lstrip_none x.
Proof. induction m as [|m IH]; [reflexivity|]. cbn [repeat app lstrip_none]. exact IH. Qed.
Lemma rev_repeat {A} (a : A) m : rev (repeat a m) = repeat a m.
Proof.
  induction m as [|m IH]; [reflexivity|]. cbn [repeat rev]. rewrite IH.
  clear IH. induction m as [|m IH]; [reflexivity|]. cbn [repeat app]. f_equal. exact IH.
Qed.
Definition all_some (l : list value) : bool := forallb (fun v => negb (is_none v)) l.
Lemma trim_nones_clean a m : all_some a = true -> trim_nones (a ++ repeat XNone m)%list = a.
Proof.
  intro H. unfold trim_nones. rewrite rev_app_distr, rev_repeat, lstrip_none_nones.
  assert (E : lstrip_none (rev a) = rev a).
  { unfold all_some in H. rewrite <- forallb_rev in H. destruct (rev a) as [|x r]; [reflexivity|].
    cbn [forallb] in H. apply andb_prop in H as [H _]. destruct x; try discriminate H; reflexivity. }
  rewrite E. apply rev_involutive.
Qed.
Lemma somes_all_some l : all_some l = true -> somes l = l.
Proof.
  unfold somes, all_some. induction l as [|v l IH]; [reflexivity|]. cbn [forallb filter]. intro H. apply andb_prop in H as [A B].
  rewrite A. f_equal. apply IH. exact B.
Qed.

Definition res_bool_eqb (a b : res bool) : bool :=
  match a, b with Ok x, Ok y => Bool.eqb x y | _, _ => false end.
Definition res_z_eqb (a b : res Z) : bool :=
  match a, b with Ok x, Ok y => (x =? y)%Z | _, _ => false end.

Section WithTable.
Variable T : table.
Variable keywords : list str.
Notation sp := (sp T).
Notation nm := (nm T).

(** a line of numbers must not be taken for the end of the default initial conditions *)
Definition dline_ok (line : str) : bool :=
  negb (blank (padstring line)) && negb (existsb (fun k => prefix k (padstring line)) keywords).
(** the next section's keyword line (or ENDCY / ENDFI) *)
Definition next_ok (line : str) : bool :=
  negb (blank (padstring line)) && existsb (fun k => prefix k (padstring line)) keywords.

Definition param_table_ok : bool :=
  uniform T "timestep" (chunk_of "write_timesteps") && (0 <? chunk_of "write_timesteps")%nat &&
  uniform T "default_incons" (chunk_of "write_parameters") && (0 <? chunk_of "write_parameters")%nat &&
  (79 <=? rec_width T "default_incons")%nat.

Definition pbw_of (p : params) : res value :=
  match dgetv (p_dict p) "print_block" with
  | XNone => Ok XNone | XStr s => Ok (XStr (unfix_blockname s)) | _ => Raise TypeError end.
Definition dict1_of (p : params) : dict := dset (p_dict p) "_option_str" (XStr (opt_str (p_option p))).
Definition paramw_of (p : params) : dict :=
  dset (p_dict p) "print_block" (match pbw_of p with Ok v => v | Raise _ => XNone end).
Definition cd1 (d0 d : t2d) : dict :=
  dict_update (p_dict (param d0)) (nm (param_spec d)) (cvals (sp (param_spec d)) (dict_vals (dict1_of (param d)) (nm (param_spec d)))).
Definition cd2 (d0 d : t2d) : dict :=
  pb_fix (dict_update (cd1 d0 d) (nm "param2") (cvals (sp "param2") (dict_vals (paramw_of (param d)) (nm "param2")))).
Definition cd3 (d0 d : t2d) : dict :=
  dict_update (cd2 d0 d) (nm "param3") (cvals (sp "param3") (dict_vals (dict1_of (param d)) (nm "param3"))).
Definition is_neg (v : value) : bool := match v_lt0 v with Ok b => b | Raise _ => false end.
Definition canon_param (d0 d : t2d) : params :=
  let c := dgetv (cd2 d0 d) "const_timestep" in
  mk_params (cd3 d0 d) (p_option (param d))
            (if is_neg c then ctab T "timestep" (p_timestep (param d)) else [c])
            (map (cf (field0 T "default_incons")) (p_dincons (param d))).

(** the default-incons lines after the first one, as the look-ahead loop reads them *)
Fixpoint dlines_ok (ls : file) : bool := match ls with [] => true | l :: r => dline_ok l && dlines_ok r end.
Definition wf_param (d0 d : t2d) : bool :=
  let p := param d in
  forallb digit_z (p_option p) && (length (p_option p) =? 24)%nat &&
  value_eqb (dgetv (cd1 d0 d) "_option_str") (XStr (opt_str (p_option p))) &&
  (* const_timestep reads back with the same sign and the same integer part *)
  (let c := dgetv (cd2 d0 d) "const_timestep" in let c0 := dgetv (p_dict p) "const_timestep" in
   res_bool_eqb (v_lt0 c) (v_lt0 c0) &&
   (if is_neg c0 then res_z_eqb (v_int c) (v_int c0) &&
                      match v_int c0 with Ok z => (length (p_timestep p) <=? Z.to_nat (- z) * chunk_of "write_timesteps")%nat | _ => false end
    else true)) &&
  (* every default initial condition reads back as a number; its lines do not look like a keyword line *)
  all_some (map (cf (field0 T "default_incons")) (p_dincons p)) &&
  match write_dincons T (p_dincons p) with Ok (_ :: more) => dlines_ok more | _ => false end &&
  match p_dincons (param d0) with [] => true | _ => false end && Bool.eqb (autough2 d0) (autough2 d).

(** one line of default initial conditions *)
Lemma dincons_line f k chunk s : sp "default_incons" = repeat f k -> numeric f = true -> (79 <= rec_width T "default_incons")%nat ->
  (length chunk <= k)%nat -> all_some (map (cf f) chunk) = true ->
  write_values (sp "default_incons") (pad_none k chunk) = Ok s ->
  trim_nones (pline T "default_incons" (padstring (s ++ [nl])%list)) = map (cf f) chunk.
Proof.
  intros S N W L A H.
  assert (WL : wline T "default_incons" (pad_none k chunk) = Ok (s ++ [nl])%list).
  { unfold wline. fold (sp "default_incons"). rewrite H. reflexivity. }
  assert (LP : length (pad_none k chunk) = k) by (unfold pad_none; rewrite app_length, repeat_length; lia).
  rewrite (padstring_wline T _ _ _ WL); [|rewrite S, repeat_length, LP; lia|exact W].
  rewrite (wp T _ _ _ WL). rewrite S. rewrite (cvals_uniform f k _ N LP).
  unfold pad_none. rewrite map_app.
  assert (E : map (cf f) (repeat XNone (k - length chunk)) = repeat XNone (k - length chunk)).
  { induction (k - length chunk)%nat as [|m IH]; [reflexivity|]. cbn [repeat map]. rewrite (cf_none f N), IH. reflexivity. }
  rewrite E. apply trim_nones_clean. exact A.
Qed.
(** the look-ahead loop over the remaining lines, then the next keyword line *)
Lemma more_incons_lines f k : sp "default_incons" = repeat f k -> numeric f = true -> (79 <= rec_width T "default_incons")%nat -> (0 < k)%nat ->
  forall n l ls acc nextl rest fuel,
  write_chunks (sp "default_incons") k n l = Ok ls -> (length l <= n * k)%nat -> (n = 0%nat \/ (n - 1) * k < length l)%nat ->
  all_some (map (cf f) l) = true -> dlines_ok ls = true -> next_ok nextl = true -> (length ls < fuel)%nat ->
  more_incons T keywords fuel acc (ls ++ nextl :: rest)%list = Ok ((acc ++ map (cf f) l)%list, Some (padstring nextl), rest).
Proof.
  intros S N W K. induction n as [|n IH]; intros l ls acc nextl rest fuel WC L1 L2 A D NX F.
  - cbn [write_chunks] in WC. inv_ok WC. destruct l; [|cbn in L1; lia]. cbn [map app]. rewrite app_nil_r.
    destruct fuel; [cbn in F; lia|]. cbn [more_incons readline].
    unfold next_ok in NX. apply andb_prop in NX as [B P]. apply negb_true_iff in B. rewrite B, P. reflexivity.
  - cbn [write_chunks] in WC.
    destruct (write_values (sp "default_incons") (pad_none k (firstn k l))) as [s|] eqn:E; cbn [bind] in WC; [|discriminate].
    destruct (write_chunks (sp "default_incons") k n (skipn k l)) as [r|] eqn:R; cbn [bind] in WC; [|discriminate]. inv_ok WC.
    cbn [dlines_ok] in D. apply andb_prop in D as [D1 D2]. unfold dline_ok in D1. apply andb_prop in D1 as [B P].
    apply negb_true_iff in B. apply negb_true_iff in P.
    destruct fuel; [cbn in F; lia|]. cbn [app more_incons readline]. rewrite B, P.
    assert (AF : all_some (map (cf f) (firstn k l)) = true /\ all_some (map (cf f) (skipn k l)) = true).
    { rewrite <- (firstn_skipn k l) in A. rewrite map_app in A. unfold all_some in *. rewrite forallb_app in A. apply andb_prop in A. exact A. }
    destruct AF as [A1 A2].
    rewrite (dincons_line f k (firstn k l) s S N W); [| rewrite firstn_length; lia | exact A1 | exact E].
    rewrite (IH (skipn k l) r (acc ++ map (cf f) (firstn k l))%list nextl rest fuel R); auto.
    + rewrite <- app_assoc, <- map_app, firstn_skipn. reflexivity.
    + rewrite skipn_length. cbn in L1. lia.
    + rewrite skipn_length. destruct n as [|n']; [left; reflexivity|right]. destruct L2 as [L2|L2]; [discriminate|].
      cbn in L2 |- *. rewrite Nat.sub_0_r in *. lia.
    + cbn [length] in F. lia.
Qed.

Theorem param_roundtrip d body d0 : param_table_ok = true -> write_param T d = Ok (kw "PARAM" :: body) -> wf_param d0 d = true ->
  forall nextl rest, next_ok nextl = true ->
  read_param T keywords d0 (body ++ nextl :: rest)%list = Ok (set_param d0 (canon_param d0 d), Some (padstring nextl), rest).
Proof.
  intros TOK W WF nextl rest NX. unfold param_table_ok in TOK.
  apply andb_prop in TOK as [TOK WD]. apply andb_prop in TOK as [TOK C4]. apply andb_prop in TOK as [TOK U4].
  apply andb_prop in TOK as [U8 C8]. apply Nat.leb_le in WD. apply Nat.ltb_lt in C4. apply Nat.ltb_lt in C8.
  destruct (uniform_spec T _ _ U4) as [S4 N4]. set (f4 := field0 T "default_incons") in *.
  unfold wf_param in WF. cbv zeta in WF.
  apply andb_prop in WF as [WF A0]. apply andb_prop in WF as [WF E0]. apply andb_prop in WF as [WF DL].
  apply andb_prop in WF as [WF AS]. apply andb_prop in WF as [WF TS]. apply andb_prop in WF as [WF OS].
  apply andb_prop in WF as [OD OL]. apply Nat.eqb_eq in OL. apply value_eqb_eq in OS. apply Bool.eqb_prop in A0.
  destruct (p_dincons (param d0)) as [|? ?] eqn:DI0; [|discriminate]. clear E0.
  apply andb_prop in TS as [TS1 TS2].
  (* the writer *)
  unfold write_param in W. fold (pbw_of (param d)) in W.
  destruct (pbw_of (param d)) as [pbw|] eqn:PB; cbn [bind] in W; [|discriminate].
  fold (opt_str (p_option (param d))) in W. fold (dict1_of (param d)) in W.
  assert (PW : dset (p_dict (param d)) "print_block" pbw = paramw_of (param d)) by (unfold paramw_of; rewrite PB; reflexivity).
  rewrite PW in W.
  destruct (wline T (param_spec d) (dict_vals (dict1_of (param d)) (nm (param_spec d)))) as [l1|] eqn:L1; cbn [bind] in W; [|discriminate].
  destruct (wline T "param2" (dict_vals (paramw_of (param d)) (nm "param2"))) as [l2|] eqn:L2; cbn [bind] in W; [|discriminate].
  destruct (write_timesteps T (param d)) as [ts|] eqn:WT; cbn [bind] in W; [|discriminate].
  destruct (wline T "param3" (dict_vals (dict1_of (param d)) (nm "param3"))) as [l3|] eqn:L3; cbn [bind] in W; [|discriminate].
  destruct (write_dincons T (p_dincons (param d))) as [di|] eqn:WDI; cbn [bind] in W; [|discriminate].
  injection W as W. subst body.
  (* the reader *)
  unfold read_param. cbn [app readline].
  assert (SP : param_spec d0 = param_spec d) by (unfold param_spec; rewrite A0; reflexivity).
  rewrite SP, (wp T _ _ _ L1). fold (cd1 d0 d). rewrite OS. cbn [bind].
  rewrite (options_decode 24 _ OD OL). cbn [bind].
  rewrite (wp T _ _ _ L2). fold (cd2 d0 d).
  set (c := dgetv (cd2 d0 d) "const_timestep") in *. set (c0 := dgetv (p_dict (param d)) "const_timestep") in *.
  (* time steps *)
  assert (TSR : forall more, read_timesteps T (cd2 d0 d) (ts ++ more)%list =
                             Ok (if is_neg c then ctab T "timestep" (p_timestep (param d)) else [c], more)).
  { intro more. unfold read_timesteps, write_timesteps in *. fold c. fold c0 in WT.
    unfold res_bool_eqb in TS1. unfold is_neg in *.
    destruct (v_lt0 c) as [b|] eqn:VC; [|discriminate]. destruct (v_lt0 c0) as [b0|] eqn:VC0; [|discriminate].
    apply Bool.eqb_prop in TS1. subst b0. cbn [bind] in *. destruct b.
    - apply andb_prop in TS2 as [TI TL]. unfold res_z_eqb in TI.
      destruct (v_int c) as [z|] eqn:VI; [|discriminate]. destruct (v_int c0) as [z0|] eqn:VI0; [|discriminate].
      apply Z.eqb_eq in TI. subst z0. cbn [bind] in *. apply Nat.leb_le in TL.
      rewrite (tab_roundtrip T _ _ _ _ _ more U8 C8 TL WT). reflexivity.
    - inv_ok WT. reflexivity. }
  rewrite <- app_assoc. rewrite TSR. cbn [bind fst snd app readline].
  rewrite (wp T _ _ _ L3). fold (cd3 d0 d). rewrite DI0. cbn [app].
  (* default initial conditions *)
  unfold write_dincons in WDI. unfold all_some in AS. fold (all_some (map (cf f4) (p_dincons (param d)))) in AS.
  destruct (p_dincons (param d)) as [|v0 vs] eqn:DI.
  - inv_ok WDI. cbn [app readline].
    assert (E : pline T "default_incons" [nl] = map (fun f => rd_field f []) (sp "default_incons")).
    { unfold pline, parse, parse_string, field_slices. fold (sp "default_incons"). rewrite map_map.
      pose proof (tails_read (sp "default_incons") [] 0 (le_n 0)) as TR. cbn [app] in TR. rewrite <- TR.
      apply map_ext. intros [f x]. reflexivity. }
    rewrite E, S4.
    assert (E2 : forall m, map (fun f => rd_field f []) (repeat f4 m) = repeat XNone m).
    { induction m as [|m IH]; [reflexivity|]. cbn [repeat map]. rewrite (rd_empty_none f4 N4), IH. reflexivity. }
    rewrite E2. pose proof (trim_nones_clean [] (chunk_of "write_parameters") eq_refl) as TN. cbn [app] in TN. rewrite TN.
    cbn [more_incons readline]. unfold next_ok in NX. apply andb_prop in NX as [B P]. apply negb_true_iff in B. rewrite B, P.
    cbn [bind]. unfold canon_param. fold c. rewrite DI. reflexivity.
  - rewrite <- DI in *. set (k := chunk_of "write_parameters") in *.
    set (n := nlines_z (Z.of_nat k) (Z.of_nat (length (p_dincons (param d))))) in *.
    assert (NP : (0 < n)%nat).
    { unfold n, nlines_z. rewrite DI. cbn [length]. destruct (Z.of_nat (S (length vs)) <=? 0)%Z eqn:E; [apply Z.leb_le in E; lia|].
      apply Z.leb_gt in E. assert (1 <= (Z.of_nat (S (length vs)) + Z.of_nat k - 1) / Z.of_nat k)%Z; [|lia].
      apply Z.div_le_lower_bound; lia. }
    assert (COV : (length (p_dincons (param d)) <= n * k)%nat) by (apply nlines_cover; [exact C4|reflexivity]).
    assert (TIGHT : ((n - 1) * k < length (p_dincons (param d)))%nat).
    { unfold n, nlines_z. destruct (Z.of_nat (length (p_dincons (param d))) <=? 0)%Z eqn:E; [rewrite DI in E; cbn [length] in E; apply Z.leb_le in E; lia|].
      set (L := Z.of_nat (length (p_dincons (param d)))) in *. apply Z.leb_gt in E.
      pose proof (Z.mul_div_le (L + Z.of_nat k - 1) (Z.of_nat k) ltac:(lia)) as M.
      assert (1 <= (L + Z.of_nat k - 1) / Z.of_nat k)%Z by (apply Z.div_le_lower_bound; lia).
      assert (Q : (Z.of_nat ((Z.to_nat ((L + Z.of_nat k - 1) / Z.of_nat k) - 1) * k) < L)%Z); [|unfold L in Q; lia].
      rewrite Nat2Z.inj_mul, Nat2Z.inj_sub by lia. rewrite Z2Nat.id by lia. nia. }
    destruct n as [|n']; [lia|]. cbn [write_chunks] in WDI.
    destruct (write_values (sp "default_incons") (pad_none k (firstn k (p_dincons (param d))))) as [s|] eqn:E; cbn [bind] in WDI; [|discriminate].
    destruct (write_chunks (sp "default_incons") k n' (skipn k (p_dincons (param d)))) as [r|] eqn:R; cbn [bind] in WDI; [|discriminate].
    inv_ok WDI. cbn [app readline].
    assert (AF : all_some (map (cf f4) (firstn k (p_dincons (param d)))) = true /\ all_some (map (cf f4) (skipn k (p_dincons (param d)))) = true).
    { rewrite <- (firstn_skipn k (p_dincons (param d))) in AS. rewrite map_app in AS. unfold all_some in *. rewrite forallb_app in AS. apply andb_prop in AS. exact AS. }
    destruct AF as [A1 A2].
    (* the first line is read without padding: the same cells *)
    assert (FL : trim_nones (pline T "default_incons" (s ++ [nl])%list) = map (cf f4) (firstn k (p_dincons (param d)))).
    { assert (WL : wline T "default_incons" (pad_none k (firstn k (p_dincons (param d)))) = Ok (s ++ [nl])%list).
      { unfold wline. fold (sp "default_incons"). rewrite E. reflexivity. }
      rewrite <- (dincons_line f4 k _ s S4 N4 WD) by (try rewrite firstn_length; try lia; assumption).
      rewrite (padstring_wline T _ _ _ WL); [reflexivity| |exact WD].
      rewrite S4, repeat_length. unfold pad_none. rewrite app_length, repeat_length, firstn_length. lia. }
    rewrite FL.
    replace (S n' - 1)%nat with n' in TIGHT by lia.
    assert (LS : (length (skipn k (p_dincons (param d))) <= n' * k)%nat) by (rewrite skipn_length; lia).
    assert (LT : (n' = 0 \/ (n' - 1) * k < length (skipn k (p_dincons (param d))))%nat).
    { rewrite skipn_length. destruct n' as [|n'']; [left; reflexivity|right]. replace (S n'' - 1)%nat with n'' by lia. lia. }
    assert (FU : (length r < S (length (r ++ nextl :: rest)%list))%nat) by (rewrite app_length; lia).
    rewrite (more_incons_lines f4 k S4 N4 WD C4 n' (skipn k (p_dincons (param d))) r _ nextl rest _ R LS LT A2 DL NX FU).
    cbn [bind]. rewrite <- map_app, firstn_skipn. unfold canon_param. fold c. reflexivity.
Qed.

End WithTable.
