(** C01 -- writing the re-read object: t2data.write (t2data.read (t2data.write d)) is the first
    file up to trailing blanks, and from then on nothing changes.  Main file, mesh in the file,
    no extra precision; all 23 section kinds ([idem_covered]). *)
From Coq Require Import Ascii String List Bool Arith ZArith NArith Lia.
From PTBase Require Import Exn PyStr PyNum PyVal Fmt FixedFormat.
From Gen Require Import GenTables GenSections.
From P Require Import Comb Obj Fields Idem Sections SectionsB Rec Prog SecRocks SecMesh SecGener SecMisc SecParam SecHist SecSel SecShort SecMeshm T2DataIO Whole IdemSec IdemSecB IdemMeshm.
Import ListNotations.
Open Scope string_scope.

Notation render0 := (render T0).
Notation citem0 := (citem T0).

(** ** the state of the reader: a section's fields are touched by that section only *)
Lemma final_app d a : forall b d0, final d (a ++ b)%list d0 = final d b (final d a d0).
Proof. induction a as [|k a IH]; intros b d0; [reflexivity|]. cbn [app final]. apply IH. Qed.
Definition frame {A} (pi : t2d -> A) (k : string) : Prop :=
  forall k' d d0, (k' =? k) = false -> pi (push k' (supd k' d d0)) = pi d0.
Lemma final_frame {A} (pi : t2d -> A) k : frame pi k -> forall ks d d0, ~ In k ks -> pi (final d ks d0) = pi d0.
Proof.
  intros F. induction ks as [|k' ks IH]; intros d d0 NI; [reflexivity|]. cbn [final]. rewrite IH by (intro H; apply NI; right; exact H).
  apply (F k' d d0). apply String.eqb_neq. intro E. apply NI. left. exact E.
Qed.
Lemma final_at {A} (pi : t2d -> A) k : frame pi k -> forall ks d d0, NoDup ks -> In k ks ->
  exists pre post, ks = (pre ++ k :: post)%list /\ ~ In k pre /\
    pi (final d ks d0) = pi (push k (supd k d (final d pre d0))).
Proof.
  intros F ks d d0 ND IN. apply in_split in IN as [pre [post E]]. subst ks. exists pre, post.
  assert (NP : ~ In k pre /\ ~ In k post).
  { apply NoDup_remove_2 in ND. split; intro H; apply ND; apply in_or_app; [left|right]; exact H. }
  split; [reflexivity|]. split; [tauto|]. rewrite final_app. cbn [final]. apply (final_frame pi k F); tauto.
Qed.
Ltac frame_tac := intros k' d d0 H; unfold push, supd; rewrite ?H;
  repeat match goal with |- context [if ?b then _ else _] => destruct b; [try reflexivity|] end; try reflexivity;
  repeat match goal with |- context [match ?x with _ => _ end] => destruct x end; reflexivity.
Lemma frame_sections_keep d k d0 : sections (push k (supd k d d0)) = (sections d0 ++ [s2l k])%list.
Proof.
  unfold push, supd.
  repeat match goal with |- context [if ?b then _ else _] => destruct b; [try (destruct d0; reflexivity)|] end; try (destruct d0; reflexivity).
  all: repeat match goal with |- context [match ?x with _ => _ end] => destruct x end; destruct d0; reflexivity.
Qed.
Lemma sections_final d ks : forall d0, sections (final d ks d0) = (sections d0 ++ map s2l ks)%list.
Proof.
  induction ks as [|k ks IH]; intro d0; [cbn; rewrite app_nil_r; reflexivity|]. cbn [final map]. rewrite IH, frame_sections_keep, <- app_assoc. reflexivity.
Qed.
Lemma title_final d ks : forall d0, title (final d ks d0) = title d0 /\ end_keyword (final d ks d0) = end_keyword d0.
Proof.
  induction ks as [|k ks IH]; intro d0; [split; reflexivity|]. cbn [final]. destruct (IH (push k (supd k d d0))) as [A B]. rewrite A, B.
  unfold push, supd. split;
    repeat match goal with |- context [if ?b then _ else _] => destruct b; [try reflexivity|] end; try reflexivity;
    repeat match goal with |- context [match ?x with _ => _ end] => destruct x end; reflexivity.
Qed.

(** ** sections whose content the reader gives back unchanged: their lines are literal *)
Definition ident_kinds : list string := ["SIMUL"; "MOMOP"; "START"; "NOVER"; "FOFT"; "COFT"; "GOFT"; "SHORT"].
Definition lits (r : res file) : list item := match r with Ok ls => map Lit ls | Raise _ => [] end.
Lemma render_lits ls : render0 (map Lit ls) = Ok ls.
Proof. induction ls as [|l ls IH]; [reflexivity|]. cbn [map]. rewrite render_cons. cbn [render1 bind]. rewrite IH. reflexivity. Qed.
Lemma map_citem_lits ls : map citem0 (map Lit ls) = map Lit ls.
Proof. induction ls as [|l ls IH]; [reflexivity|]. cbn [map citem]. rewrite IH. reflexivity. Qed.

(** ** the line program of a section *)
Definition list_prog {X} (key : string) (px : X -> list item) (xs : list X) : list item :=
  (Lit (kw key) :: flat_map px xs ++ [Lit [nl]])%list.
Definition prog_sec (d : t2d) (k : string) : list item :=
  if k =? "ROCKS" then list_prog "ROCKS" (prog_rock T0) (rocks d)
  else if k =? "ELEME" then list_prog "ELEME" prog_block (blocks d)
  else if k =? "CONNE" then list_prog "CONNE" prog_conn (conns d)
  else if k =? "PARAM" then prog_param T0 d
  else if k =? "RPCAP" then prog_rpcap d
  else if k =? "LINEQ" then prog_dictsec T0 "LINEQ" "lineq" (lineq d)
  else if k =? "SOLVR" then prog_dictsec T0 "SOLVR" "solver" (solver d)
  else if k =? "MULTI" then prog_multi T0 d
  else if k =? "TIMES" then prog_times T0 d
  else if k =? "GENER" then prog_gener d
  else if k =? "INCON" then prog_incon d
  else if k =? "INDOM" then prog_indom d
  else if k =? "SELEC" then prog_selec d
  else if k =? "DIFFU" then prog_diffu d
  else if k =? "MESHM" then prog_mms T0 (meshmaker d)
  else lits (wsec d k).
Definition wfw_sec (d : t2d) (k : string) : bool :=
  if k =? "ROCKS" then forallb wfw_rock (rocks d)
  else if k =? "ELEME" then true
  else if k =? "CONNE" then true
  else if k =? "PARAM" then wfw_param T0 d
  else if k =? "RPCAP" then wfw_rpcap d
  else if k =? "LINEQ" then true
  else if k =? "SOLVR" then true
  else if k =? "MULTI" then wfw_multi T0 d
  else if k =? "TIMES" then wfw_times d
  else if k =? "GENER" then forallb wfw_gen (gens d)
  else if k =? "INCON" then true
  else if k =? "INDOM" then true
  else if k =? "SELEC" then wfw_selec d
  else if k =? "DIFFU" then true
  else if k =? "MESHM" then forallb wfw_mm (meshmaker d)
  else existsb (String.eqb k) ident_kinds && is_ok (wsec d k).
(** sections for which the second file is a theorem *)
Definition rec_kinds : list string := ["ROCKS"; "ELEME"; "CONNE"; "PARAM"].
Definition rec_kinds2 : list string := ["RPCAP"; "LINEQ"; "SOLVR"; "MULTI"; "TIMES"; "GENER"; "INCON"; "INDOM"; "SELEC"; "DIFFU"; "MESHM"].
Definition idem_covered : list string := rec_kinds +++ rec_kinds2 +++ ident_kinds.

Lemma flat_map_ext_in {A B} (f g : A -> list B) l : (forall x, In x l -> f x = g x) -> flat_map f l = flat_map g l.
Proof. intro H. induction l as [|a l IH]; [reflexivity|]. cbn. rewrite H by (left; reflexivity). rewrite IH; [reflexivity|]. intros. apply H. right. assumption. Qed.
Lemma write_list_ext {X} (f g : X -> res file) xs : (forall x, In x xs -> f x = g x) -> write_list f xs = write_list g xs.
Proof.
  intro H. induction xs as [|x xs IH]; [reflexivity|]. cbn [write_list]. rewrite H by (left; reflexivity).
  rewrite IH; [reflexivity|]. intros. apply H. right. assumption.
Qed.
Lemma list_writer_prog {X} (wr : X -> res file) (px : X -> list item) key xs : (forall x, In x xs -> wr x = render0 (px x)) ->
  (do recs <- write_list wr xs; Ok (kw key :: concat recs +++ [[nl]])) = render0 (list_prog key px xs).
Proof.
  intro H. unfold list_prog. rewrite <- (list_section_render T0 (fun r => render0 (px r)) px key (fun r => eq_refl) xs).
  rewrite (write_list_ext wr (fun r => render0 (px r)) xs H). reflexivity.
Qed.
Lemma list_prog_canon {X} key (px : X -> list item) (cn : X -> X) xs : (forall x, In x xs -> px (cn x) = map citem0 (px x)) ->
  list_prog key px (map cn xs) = map citem0 (list_prog key px xs).
Proof.
  intro H. unfold list_prog. cbn [map citem]. f_equal. rewrite map_app. cbn [map citem]. f_equal.
  induction xs as [|x xs IH]; [reflexivity|]. cbn [map flat_map]. rewrite map_app, (H x (or_introl eq_refl)). f_equal.
  apply IH. intros y I. apply H. right. exact I.
Qed.
(** P1: the writer is the rendering of the program *)
Theorem wsec_prog d k : In k idem_covered -> wfw_sec d k = true -> wsec d k = render0 (prog_sec d k).
Proof.
  pose proof tables_ok_true as TK. unfold tables_ok in TK. repeat (apply andb_prop in TK as [TK ?]).
  intros IN WF. unfold idem_covered in IN. apply in_app_or in IN as [IN|IN]; [|apply in_app_or in IN as [IN|IN]].
  - unfold rec_kinds in IN. cbn [In] in IN.
    repeat (destruct IN as [IN|IN]; [subst k|]); [..|contradiction]; unfold wfw_sec, prog_sec in *; cbn [String.eqb Ascii.eqb Bool.eqb] in *.
    + rewrite wsec_ROCKS. unfold write_rocks. apply list_writer_prog. intros r I. rewrite forallb_forall in WF. apply write_rock_prog. apply WF. exact I.
    + rewrite wsec_ELEME. unfold write_blocks. apply list_writer_prog. intros b I. apply write_block_prog. assumption.
    + rewrite wsec_CONNE. unfold write_conns. apply list_writer_prog. intros c I. apply write_conn_prog.
    + rewrite wsec_PARAM. apply write_param_prog. exact WF.
  - unfold rec_kinds2 in IN. cbn [In] in IN.
    repeat (destruct IN as [IN|IN]; [subst k|]); [..|contradiction]; unfold wfw_sec, prog_sec in *; cbn [String.eqb Ascii.eqb Bool.eqb] in *.
    + rewrite wsec_RPCAP. apply write_rpcap_prog. exact WF.
    + rewrite wsec_LINEQ. apply write_dictsec_prog.
    + rewrite wsec_SOLVR. apply write_dictsec_prog.
    + rewrite wsec_MULTI. apply write_multi_prog. exact WF.
    + rewrite wsec_TIMES. apply write_times_prog. exact WF.
    + rewrite wsec_GENER. unfold write_gens, prog_gener. destruct (gens d) as [|g0 gs] eqn:EG; [reflexivity|]. rewrite <- EG in *.
      apply (list_writer_prog (write_gen T0) prog_gen "GENER"). intros g I. rewrite forallb_forall in WF. apply write_gen_prog; [assumption|apply WF; exact I].
    + rewrite wsec_INCON. apply write_incons_prog.
    + rewrite wsec_INDOM. apply write_indom_prog.
    + rewrite wsec_SELEC. apply write_selec_prog. exact WF.
    + rewrite wsec_DIFFU. apply write_diffu_prog.
    + rewrite wsec_MESHM. apply write_meshmaker_prog; [|exact WF].
      match goal with M : meshm_table_ok T0 = true |- _ => unfold meshm_table_ok in M; apply andb_prop in M as [_ M]; unfold minc_table_ok in M;
        do 3 (apply andb_prop in M as [M _]); exact M end.
  - unfold ident_kinds in IN. cbn [In] in IN.
    repeat (destruct IN as [IN|IN]; [subst k|]); [..|contradiction]; unfold wfw_sec, prog_sec in *; cbn [String.eqb Ascii.eqb Bool.eqb] in *;
      apply andb_prop in WF as [_ OK]; unfold lits;
      match goal with |- ?W = _ => destruct W as [ls|]; [|discriminate] end; symmetry; apply render_lits.
Qed.

(** P2: the program of the section as the reader left it *)
Definition same_for (k : string) (X Y : t2d) : Prop :=
  if k =? "ROCKS" then rocks X = rocks Y
  else if k =? "ELEME" then blocks X = blocks Y
  else if k =? "CONNE" then conns X = conns Y
  else if k =? "PARAM" then param X = param Y
  else if k =? "RPCAP" then (relperm X, capil X) = (relperm Y, capil Y)
  else if k =? "LINEQ" then lineq X = lineq Y
  else if k =? "SOLVR" then solver X = solver Y
  else if k =? "MULTI" then multi X = multi Y
  else if k =? "TIMES" then otimes X = otimes Y
  else if k =? "GENER" then gens X = gens Y
  else if k =? "INCON" then incon X = incon Y
  else if k =? "INDOM" then indom X = indom Y
  else if k =? "SELEC" then selection X = selection Y
  else if k =? "DIFFU" then diffusion X = diffusion Y
  else if k =? "MESHM" then meshmaker X = meshmaker Y
  else if k =? "SIMUL" then simulator X = simulator Y
  else if k =? "MOMOP" then momop X = momop Y
  else if k =? "START" then start X = start Y
  else if k =? "NOVER" then noversion X = noversion Y
  else if k =? "FOFT" then hist_block X = hist_block Y
  else if k =? "COFT" then hist_conn X = hist_conn Y
  else if k =? "GOFT" then hist_gen X = hist_gen Y
  else if k =? "SHORT" then short X = short Y
  else True.
(** decidable conditions on section k of d, read in state dk, for the second file *)
Definition idem_sec (d dk : t2d) (k : string) : bool :=
  if k =? "ROCKS" then forallb (idem_rock T0) (rocks d) &&
                        shape_ok T0 "rocks1.2" [Td; Tx; Te; Te; Te; Te; Te; Te; Te] 0 &&
                        all_distinct same_rock (map (canon_rock T0) (rocks d))
  else if k =? "ELEME" then forallb (idem_block T0) (blocks d) && all_distinct same_block (map (canon_block T0) (blocks d))
  else if k =? "CONNE" then forallb (idem_conn T0) (conns d) && all_distinct same_conn (map (canon_conn T0) (conns d))
  else if k =? "PARAM" then idem_param T0 dk d
  else if k =? "RPCAP" then tp_ok T0 "relative_permeability" && tp_ok T0 "capillarity"
  else if k =? "LINEQ" then idem_dict T0 "lineq" (lineq dk) (lineq d)
  else if k =? "SOLVR" then idem_dict T0 "solver" (solver dk) (solver d)
  else if k =? "MULTI" then idem_multi T0 dk d
  else if k =? "TIMES" then
    match otimes d with Some x => idem_times T0 (match otimes dk with Some (y, _) => y | None => [] end) x | None => false end
  else if k =? "GENER" then forallb (idem_gen T0) (gens d)
  else if k =? "INCON" then idem_incon T0 d
  else if k =? "INDOM" then idem_indom T0 (indom d)
  else if k =? "SELEC" then (length (Sections.sp T0 "selec2") =? chunk_of "write_selection")%nat
  else if k =? "DIFFU" then
    match dget (multi dk) "num_phases" with Some (XInt np) => idem_diffu T0 np (diffusion d) | _ => false end
  else if k =? "MESHM" then idem_meshm T0 (meshmaker d)
  else if k =? "SIMUL" then str_eqb (strip (simulator d)) (simulator d)
  else true.
Lemma short_freq_same s : wf_freq s = true ->
  write_short (set_short empty_t2d (Some (canon_short s))) = write_short (set_short empty_t2d (Some s)).
Proof.
  intro WF. unfold write_short. cbn [short set_short]. unfold canon_short. cbn [sh_freq sh_block sh_conn sh_gen].
  unfold freq_back, wf_freq in *. destruct (sh_freq s) as [[x|z|ng m e|]|]; try discriminate WF; try reflexivity.
  destruct (z =? 0)%Z eqn:Z0; [apply Z.eqb_eq in Z0; subst z; reflexivity|]. cbn [v_truthy]. rewrite Z0. reflexivity.
Qed.
Theorem prog_sec_canon d k dk X : In k idem_covered -> secwf k d dk = true -> idem_sec d dk k = true -> wfw_sec d k = true ->
  same_for k X (push k (supd k d dk)) -> autough2 X = autough2 d ->
  (k = "INCON" -> map b_name (blocks X) = map b_name (blocks d)) ->
  prog_sec X k = map citem0 (prog_sec d k) /\ wfw_sec X k = true.
Proof.
  pose proof tables_ok_true as TK. unfold tables_ok in TK. repeat (apply andb_prop in TK as [TK ?]).
  intros IN WF ID WW SF AX BN. unfold idem_covered, rec_kinds, rec_kinds2, ident_kinds in IN. cbn [In app] in IN.
  repeat (destruct IN as [IN|IN]; [subst k|]); [..|contradiction];
    unfold same_for, push, supd in SF; cbn [String.eqb Ascii.eqb Bool.eqb] in SF;
    unfold idem_sec in ID; cbn [String.eqb Ascii.eqb Bool.eqb] in ID;
    unfold secwf in WF; cbn [String.eqb Ascii.eqb Bool.eqb] in WF;
    unfold wfw_sec, prog_sec in *; cbn [String.eqb Ascii.eqb Bool.eqb] in *.
  - (* ROCKS *)
    apply andb_prop in ID as [ID DI]. apply andb_prop in ID as [ID1 S2].
    replace (rocks X) with (map (canon_rock T0) (rocks d)).
    2:{ rewrite SF. destruct dk; cbn. symmetry. apply canon_rocks_distinct. exact DI. }
    assert (P : forall r, In r (rocks d) -> prog_rock T0 (canon_rock T0 r) = map citem0 (prog_rock T0 r) /\ wfw_rock (canon_rock T0 r) = true).
    { intros r I. rewrite forallb_forall in ID1, WW. apply prog_rock_canon; auto. }
    split; [apply list_prog_canon; intros r I; apply P; exact I|].
    rewrite forallb_forall. intros r' I. apply in_map_iff in I as [r [E I]]. subst r'. apply P. exact I.
  - (* ELEME *)
    apply andb_prop in ID as [ID1 DI].
    replace (blocks X) with (map (canon_block T0) (blocks d)).
    2:{ rewrite SF. destruct dk; cbn. symmetry. apply canon_blocks_distinct. exact DI. }
    split; [|reflexivity]. apply list_prog_canon. intros b I. unfold prog_block. cbn [map citem].
    rewrite forallb_forall in ID1, WF. rewrite (block_vals_canon T0 (rocks dk) b); auto.
  - (* CONNE *)
    apply andb_prop in ID as [ID1 DI].
    replace (conns X) with (map (canon_conn T0) (conns d)).
    2:{ rewrite SF. destruct dk; cbn. symmetry. apply canon_conns_distinct. exact DI. }
    split; [|reflexivity]. apply list_prog_canon. intros c I. unfold prog_conn. cbn [map citem].
    rewrite forallb_forall in ID1, WF. rewrite (conn_vals_canon T0 (blocks dk) c); auto.
  - (* PARAM *)
    apply (prog_param_canon T0 dk d X); auto; try (rewrite SF; destruct dk; reflexivity).
  - (* RPCAP *)
    apply andb_prop in ID as [K1 K2]. injection SF as S1 S2.
    apply prog_rpcap_canon; [exact K1|exact K2|exact WW|rewrite S1; destruct dk; reflexivity|rewrite S2; destruct dk; reflexivity].
  - (* LINEQ *)
    assert (E : lineq X = canon_dict T0 "lineq" (lineq dk) (lineq d)) by (rewrite SF; destruct dk; reflexivity).
    split; [rewrite E; apply prog_dictsec_canon; exact ID|reflexivity].
  - (* SOLVR *)
    assert (E : solver X = canon_dict T0 "solver" (solver dk) (solver d)) by (rewrite SF; destruct dk; reflexivity).
    split; [rewrite E; apply prog_dictsec_canon; exact ID|reflexivity].
  - (* MULTI *)
    apply andb_prop in WF as [_ OKS]. destruct (strip_eos (canon_dict T0 (multi_spec d) (multi dk) (multi d))) as [m|] eqn:SE; [|discriminate].
    apply (prog_multi_canon T0 dk d X m ID SE); [rewrite SF; destruct dk; reflexivity|exact AX].
  - (* TIMES *)
    destruct (otimes d) as [x|] eqn:OD; [|discriminate].
    apply (prog_times_canon T0 d X (match otimes dk with Some (y, _) => y | None => [] end) x); auto; try (rewrite SF; destruct dk; reflexivity).
  - (* GENER *)
    apply andb_prop in WF as [NE WG].
    assert (E : gens X = map (canon_gen T0) (gens d)) by (rewrite SF; destruct dk; reflexivity).
    assert (P : forall g, In g (gens d) -> prog_gen (canon_gen T0 g) = map citem0 (prog_gen g) /\ wfw_gen (canon_gen T0 g) = wfw_gen g).
    { intros g I. rewrite forallb_forall in ID. apply prog_gen_canon; [assumption|apply ID; exact I]. }
    split.
    + unfold prog_gener. rewrite E.
      assert (NM : nonempty (map (canon_gen T0) (gens d)) = true) by (destruct (gens d); [discriminate NE|reflexivity]).
      destruct (map (canon_gen T0) (gens d)) as [|m ms] eqn:EM; [discriminate|]. cbv iota. rewrite <- EM. clear EM NM.
      destruct (gens d) as [|g0 gs] eqn:EG; [discriminate|]. cbv iota. rewrite <- EG in *. clear EG.
      apply (list_prog_canon "GENER" prog_gen (canon_gen T0)). intros g I. apply P. exact I.
    + rewrite E. rewrite forallb_forall in *. intros g' I. apply in_map_iff in I as [g [EG I]]. subst g'. rewrite (proj2 (P g I)). apply WW. exact I.
  - (* INCON *)
    apply andb_prop in WF as [WF _]. apply andb_prop in WF as [NE _]. split; [|reflexivity].
    apply (prog_incon_canon T0 d X); auto; try (rewrite SF; destruct dk; reflexivity).
  - (* INDOM *)
    split; [|reflexivity]. apply (prog_indom_canon T0 d X ID). rewrite SF. destruct dk; reflexivity.
  - (* SELEC *)
    destruct (selection d) as [x|] eqn:SD; [|discriminate].
    apply (prog_selec_canon T0 d X x); auto; try (rewrite SF; destruct dk; reflexivity).
  - (* DIFFU *)
    destruct (dget (multi dk) "num_phases") as [[|np| |]|] eqn:NP; try discriminate. split; [|reflexivity].
    apply (prog_diffu_canon T0 d X np ID). rewrite SF. destruct dk; reflexivity.
  - (* MESHM *)
    assert (E : meshmaker X = map (canon_mm T0) (meshmaker d)) by (rewrite SF; destruct dk; reflexivity).
    unfold idem_meshm in ID. apply andb_prop in ID as [WX PE]. apply items_eqb_eq in PE. rewrite E. split; [exact PE|exact WX].
  - (* SIMUL *)
    apply str_eqb_eq in ID. rewrite !wsec_SIMUL in *. unfold write_simulator in *.
    assert (E : simulator X = simulator d) by (rewrite SF; destruct dk; cbn; exact ID). rewrite E.
    split; [unfold lits; destruct (simulator d); [reflexivity|apply eq_sym, map_citem_lits]|exact WW].
  - (* MOMOP *)
    rewrite !wsec_MOMOP in *. unfold write_momop in *. assert (E : momop X = momop d) by (rewrite SF; destruct dk; reflexivity). rewrite E.
    split; [unfold lits; destruct (wline T0 _ _); cbn [bind]; [apply eq_sym, map_citem_lits|reflexivity]|exact WW].
  - (* START *)
    rewrite !wsec_START in *. unfold write_start in *. assert (E : start X = start d) by (rewrite SF; destruct dk; cbn; symmetry; exact WF). rewrite E.
    split; [unfold lits; destruct (start d); reflexivity|exact WW].
  - (* NOVER *)
    rewrite !wsec_NOVER in *. unfold write_noversion in *. assert (E : noversion X = noversion d) by (rewrite SF; destruct dk; cbn; symmetry; exact WF). rewrite E.
    split; [unfold lits; destruct (noversion d); reflexivity|exact WW].
  - (* FOFT *)
    rewrite !wsec_FOFT in *. unfold write_hist_block in *. assert (E : hist_block X = hist_block d) by (rewrite SF; destruct dk; reflexivity). rewrite E.
    split; [unfold lits; destruct (write_names "FOFT" (hist_block d)); [apply eq_sym, map_citem_lits|reflexivity]|exact WW].
  - (* COFT *)
    rewrite !wsec_COFT in *. unfold write_hist_conn in *. assert (E : hist_conn X = hist_conn d) by (rewrite SF; destruct dk; reflexivity). rewrite E.
    split; [unfold lits; destruct (hist_conn d); [reflexivity|apply eq_sym, map_citem_lits]|exact WW].
  - (* GOFT *)
    rewrite !wsec_GOFT in *. unfold write_hist_gen in *. assert (E : hist_gen X = hist_gen d) by (rewrite SF; destruct dk; reflexivity). rewrite E.
    split; [unfold lits; destruct (write_names "GOFT" (hist_gen d)); [apply eq_sym, map_citem_lits|reflexivity]|exact WW].
  - (* SHORT *)
    rewrite !wsec_SHORT in *. destruct (short d) as [s|] eqn:SD; [|discriminate].
    assert (E : write_short X = write_short d).
    { transitivity (write_short (set_short empty_t2d (Some (canon_short s)))).
      - unfold write_short. rewrite SF. destruct dk; reflexivity.
      - rewrite short_freq_same by (apply andb_prop in WF as [WF _]; unfold wf_short in WF; apply andb_prop in WF as [WF _]; exact WF).
        unfold write_short. cbn [short set_short]. rewrite SD. reflexivity. }
    rewrite E. split; [unfold lits; destruct (write_short d); [apply eq_sym, map_citem_lits|reflexivity]|exact WW].
Qed.

(** ** the whole file as a program *)
Definition prog_file (d : t2d) (ks : list string) : list item :=
  (Lit (strip (title d) +++ [nl]) :: flat_map (prog_sec d) ks ++ [Lit (end_keyword d +++ [nl])])%list.
Lemma write_sections_prog d : forall ks, Forall (fun k => In k idem_covered) ks -> forallb (wfw_sec d) ks = true ->
  write_sections T0 write_fn_names d (map s2l ks) = render0 (flat_map (prog_sec d) ks).
Proof.
  induction ks as [|k ks IH]; intros C W; [reflexivity|]. inversion C; subst. cbn [forallb] in W. apply andb_prop in W as [W1 W2].
  cbn [map write_sections flat_map]. fold (wsec d k). rewrite render_app, (wsec_prog d k H1 W1), (IH H2 W2). reflexivity.
Qed.
Lemma write_lines_eq d : update_sections d = sections d -> xprec d = [] ->
  write_lines d = (do all <- write_sections T0 write_fn_names d (sections d);
                   Ok ((strip (title d) +++ [nl]) :: all ++ [end_keyword d +++ [nl]])%list).
Proof.
  intros US XP. unfold write_lines, write_files. rewrite US. cbn [w_mesh bind].
  assert (X : (if autough2 (set_sections d (sections d)) then write_xp (mk_wcfg 0 None None) (set_sections d (sections d))
               else Ok (set_sections d (sections d), None)) = Ok (set_sections d (sections d), None)).
  { destruct (autough2 _); [|reflexivity]. unfold write_xp. cbn [w_xp w_echo].
    replace (xprec (set_sections d (sections d))) with (xprec d) by (destruct d; reflexivity). rewrite XP. reflexivity. }
  rewrite X. cbn [bind].
  replace (xprec (set_sections d (sections d))) with (xprec d) by (destruct d; reflexivity). rewrite XP.
  rewrite filter_all by (intro x; reflexivity).
  replace (sections (set_sections d (sections d))) with (sections d) by (destruct d; reflexivity).
  rewrite write_sections_sections.
  destruct (write_sections T0 write_fn_names d (sections d)) as [all|]; cbn [bind]; [|reflexivity].
  cbn [f_main snd]. destruct d; reflexivity.
Qed.
Theorem write_lines_prog d ks : update_sections d = sections d -> xprec d = [] -> sections d = map s2l ks ->
  Forall (fun k => In k idem_covered) ks -> forallb (wfw_sec d) ks = true ->
  write_lines d = render0 (prog_file d ks).
Proof.
  intros US XP SK C W. rewrite (write_lines_eq d US XP), SK, (write_sections_prog d ks C W).
  unfold prog_file. rewrite render_cons. cbn [render1 bind]. rewrite render_app.
  destruct (render0 (flat_map (prog_sec d) ks)); reflexivity.
Qed.

Lemma strip_by_idem p s : strip_by p (strip_by p s) = strip_by p s.
Proof.
  destruct (strip_by p s) as [|c r] eqn:E; [reflexivity|]. rewrite <- E.
  pose proof (strip_by_head p s c r E) as H1.
  assert (L : lstrip_by p (strip_by p s) = strip_by p s) by (rewrite E; apply lstrip_by_keep; exact H1).
  unfold strip_by at 1. rewrite L. unfold strip_by, rstrip_by. rewrite rev_involutive.
  destruct (lstrip_by p (rev (lstrip_by p s))) as [|c' r'] eqn:E2; [reflexivity|].
  rewrite (lstrip_by_keep p (c' :: r')); [reflexivity|]. apply (lstrip_by_head p _ _ _ E2).
Qed.

Lemma chain_ok_split d : forall pre k post d0, chain_ok d (pre ++ k :: post)%list d0 = true -> secwf k d (final d pre d0) = true.
Proof.
  induction pre as [|a pre IH]; intros k post d0 C; cbn [app chain_ok final] in *.
  - apply andb_prop in C as [C _]. apply andb_prop in C as [_ C]. exact C.
  - apply andb_prop in C as [_ C]. apply (IH k post _ C).
Qed.
(** the conditions of the second file along the sections, each in the reader state it meets *)
Fixpoint idem_chain (d : t2d) (ks : list string) (d0 : t2d) : bool :=
  match ks with
  | [] => true
  | k :: r => existsb (String.eqb k) idem_covered && idem_sec d d0 k && wfw_sec d k && idem_chain d r (push k (supd k d d0))
  end.
Lemma idem_chain_split d : forall pre k post d0, idem_chain d (pre ++ k :: post)%list d0 = true ->
  In k idem_covered /\ idem_sec d (final d pre d0) k = true /\ wfw_sec d k = true.
Proof.
  induction pre as [|a pre IH]; intros k post d0 C; cbn [app idem_chain final] in *.
  - apply andb_prop in C as [C _]. apply andb_prop in C as [C W]. apply andb_prop in C as [I S].
    apply existsb_exists in I as [x [IX EX]]. apply String.eqb_eq in EX. subst x. tauto.
  - apply andb_prop in C as [_ C]. apply (IH k post _ C).
Qed.

Lemma frame_rocks : frame rocks "ROCKS". Proof. frame_tac. Qed.
Lemma frame_blocks : frame blocks "ELEME". Proof. frame_tac. Qed.
Lemma frame_conns : frame conns "CONNE". Proof. frame_tac. Qed.
Lemma frame_param : frame param "PARAM". Proof. frame_tac. Qed.
Lemma frame_rpcap : frame (fun t => (relperm t, capil t)) "RPCAP". Proof. frame_tac. Qed.
Lemma frame_lineq : frame lineq "LINEQ". Proof. frame_tac. Qed.
Lemma frame_solver : frame solver "SOLVR". Proof. frame_tac. Qed.
Lemma frame_multi : frame multi "MULTI". Proof. frame_tac. Qed.
Lemma frame_otimes : frame otimes "TIMES". Proof. frame_tac. Qed.
Lemma frame_gens : frame gens "GENER". Proof. frame_tac. Qed.
Lemma frame_incon : frame incon "INCON". Proof. frame_tac. Qed.
Lemma frame_indom : frame indom "INDOM". Proof. frame_tac. Qed.
Lemma frame_selection : frame selection "SELEC". Proof. frame_tac. Qed.
Lemma frame_diffusion : frame diffusion "DIFFU". Proof. frame_tac. Qed.
Lemma frame_meshmaker : frame meshmaker "MESHM". Proof. frame_tac. Qed.
Lemma frame_simulator : frame simulator "SIMUL". Proof. frame_tac. Qed.
Lemma frame_momop : frame momop "MOMOP". Proof. frame_tac. Qed.
Lemma frame_start : frame start "START". Proof. frame_tac. Qed.
Lemma frame_noversion : frame noversion "NOVER". Proof. frame_tac. Qed.
Lemma frame_hist_block : frame hist_block "FOFT". Proof. frame_tac. Qed.
Lemma frame_hist_conn : frame hist_conn "COFT". Proof. frame_tac. Qed.
Lemma frame_hist_gen : frame hist_gen "GOFT". Proof. frame_tac. Qed.
Lemma frame_short : frame short "SHORT". Proof. frame_tac. Qed.

Ltac sf_case pi fr ks d d0 ND IK :=
  destruct (final_at pi _ fr ks d d0 ND IK) as [pre [post [E [_ H]]]]; exists pre, post; split; [exact E|]; rewrite <- H; destruct (final d ks d0); reflexivity.
Lemma same_for_final k : In k idem_covered -> forall ks d d0 e, NoDup ks -> In k ks ->
  exists pre post, ks = (pre ++ k :: post)%list /\ same_for k (set_end_keyword (final d ks d0) e) (push k (supd k d (final d pre d0))).
Proof.
  intros IN ks d d0 e ND IK. unfold idem_covered, rec_kinds, rec_kinds2, ident_kinds in IN. cbn [In app] in IN.
  repeat (destruct IN as [IN|IN]; [subst k|]); [..|contradiction]; unfold same_for; cbn [String.eqb Ascii.eqb Bool.eqb].
  - sf_case rocks frame_rocks ks d d0 ND IK.
  - sf_case blocks frame_blocks ks d d0 ND IK.
  - sf_case conns frame_conns ks d d0 ND IK.
  - sf_case param frame_param ks d d0 ND IK.
  - sf_case (fun t => (relperm t, capil t)) frame_rpcap ks d d0 ND IK.
  - sf_case lineq frame_lineq ks d d0 ND IK.
  - sf_case solver frame_solver ks d d0 ND IK.
  - sf_case multi frame_multi ks d d0 ND IK.
  - sf_case otimes frame_otimes ks d d0 ND IK.
  - sf_case gens frame_gens ks d d0 ND IK.
  - sf_case incon frame_incon ks d d0 ND IK.
  - sf_case indom frame_indom ks d d0 ND IK.
  - sf_case selection frame_selection ks d d0 ND IK.
  - sf_case diffusion frame_diffusion ks d d0 ND IK.
  - sf_case meshmaker frame_meshmaker ks d d0 ND IK.
  - sf_case simulator frame_simulator ks d d0 ND IK.
  - sf_case momop frame_momop ks d d0 ND IK.
  - sf_case start frame_start ks d d0 ND IK.
  - sf_case noversion frame_noversion ks d d0 ND IK.
  - sf_case hist_block frame_hist_block ks d d0 ND IK.
  - sf_case hist_conn frame_hist_conn ks d d0 ND IK.
  - sf_case hist_gen frame_hist_gen ks d d0 ND IK.
  - sf_case short frame_short ks d d0 ND IK.
Qed.

(** the object the reader builds from the file of [d] *)
Definition reread (d : t2d) (ks : list string) : t2d := set_end_keyword (final d ks (start_state d)) (end_keyword d).
(** the decidable conditions of the second file *)
Fixpoint strs_eqb (a b : list str) : bool :=
  match a, b with [], [] => true | x :: a', y :: b' => str_eqb x y && strs_eqb a' b' | _, _ => false end.
Lemma strs_eqb_eq a : forall b, strs_eqb a b = true -> a = b.
Proof.
  induction a as [|x a IH]; intros [|y b] H; try discriminate; [reflexivity|]. cbn in H. apply andb_prop in H as [H1 H2].
  apply str_eqb_eq in H1. subst. f_equal. apply IH. exact H2.
Qed.
Definition idem_ok (d : t2d) (ks : list string) : bool :=
  idem_chain d ks (start_state d) && all_distinct String.eqb ks && Bool.eqb (autough2 (reread d ks)) (autough2 d) &&
  strs_eqb (map b_name (blocks (reread d ks))) (map b_name (blocks d)).
Lemma all_distinct_nodup ks : all_distinct String.eqb ks = true -> NoDup ks.
Proof.
  induction ks as [|k ks IH]; intro D; [constructor|]. cbn [all_distinct] in D. apply andb_prop in D as [D1 D2]. apply negb_true_iff in D1.
  constructor; [|apply IH; exact D2]. intro I. pose proof (existsb_false _ _ D1 k I) as F. cbn beta in F. rewrite String.eqb_refl in F. discriminate.
Qed.
Lemma idem_chain_all d : forall ks d0, idem_chain d ks d0 = true -> Forall (fun k => In k idem_covered) ks /\ forallb (wfw_sec d) ks = true.
Proof.
  induction ks as [|k ks IH]; intros d0 C; [split; [constructor|reflexivity]|]. cbn [idem_chain] in C.
  apply andb_prop in C as [C CR]. apply andb_prop in C as [C W]. apply andb_prop in C as [I S].
  apply existsb_exists in I as [x [IX EX]]. apply String.eqb_eq in EX. subst x. destruct (IH _ CR) as [A B].
  split; [constructor; assumption|]. cbn [forallb]. rewrite W, B. reflexivity.
Qed.
(** the sections of [ks] in any object [X] that holds, for each of them, what the reader left *)
Theorem prog_secs_canon d ks X : chain_ok d ks (start_state d) = true -> idem_chain d ks (start_state d) = true ->
  autough2 X = autough2 d -> map b_name (blocks X) = map b_name (blocks d) ->
  (forall k, In k ks -> exists pre post, ks = (pre ++ k :: post)%list /\ same_for k X (push k (supd k d (final d pre (start_state d))))) ->
  flat_map (prog_sec X) ks = map citem0 (flat_map (prog_sec d) ks) /\ forallb (wfw_sec X) ks = true.
Proof.
  intros CH ID AX BN SAME.
  assert (P : forall k, In k ks -> prog_sec X k = map citem0 (prog_sec d k) /\ wfw_sec X k = true).
  { intros k IK. destruct (SAME k IK) as [pre [post [E SF]]].
    assert (IC := ID). rewrite E in IC. apply idem_chain_split in IC as [IX [IS WW]].
    apply (prog_sec_canon d k (final d pre (start_state d)) X IX); auto.
    rewrite E in CH. apply (chain_ok_split d pre k post _ CH). }
  split.
  - assert (Q : forall l, (forall k, In k l -> In k ks) -> flat_map (prog_sec X) l = map citem0 (flat_map (prog_sec d) l)).
    { induction l as [|k l IH]; intro SUB; [reflexivity|]. cbn [flat_map]. rewrite map_app.
      rewrite (proj1 (P k (SUB k (or_introl eq_refl)))). f_equal. apply IH. intros k' I. apply SUB. right. exact I. }
    apply Q. auto.
  - rewrite forallb_forall. intros k I. apply P. exact I.
Qed.
Theorem prog_file_canon d ks : chain_ok d ks (start_state d) = true -> idem_ok d ks = true ->
  prog_file (reread d ks) ks = map citem0 (prog_file d ks) /\ forallb (wfw_sec (reread d ks)) ks = true.
Proof.
  intros CH ID. unfold idem_ok in ID. apply andb_prop in ID as [ID BN]. apply andb_prop in ID as [ID AX]. apply andb_prop in ID as [ID ND]. apply all_distinct_nodup in ND.
  apply Bool.eqb_prop in AX. apply strs_eqb_eq in BN.
  assert (SAME : forall k, In k ks -> exists pre post, ks = (pre ++ k :: post)%list /\ same_for k (reread d ks) (push k (supd k d (final d pre (start_state d))))).
  { intros k IK. destruct (in_split k ks IK) as [pre0 [post0 E0]].
    assert (IC := ID). rewrite E0 in IC. apply idem_chain_split in IC as [IX _].
    exact (same_for_final k IX ks d (start_state d) (end_keyword d) ND IK). }
  destruct (prog_secs_canon d ks (reread d ks) CH ID AX BN SAME) as [Q W].
  split; [|exact W].
  unfold prog_file. cbn [map citem]. rewrite map_app. cbn [map citem].
  destruct (title_final d ks (start_state d)) as [TT TE].
  assert (T1 : title (reread d ks) = strip (title d)) by (unfold reread; transitivity (title (final d ks (start_state d))); [destruct (final d ks (start_state d)); reflexivity|rewrite TT; reflexivity]).
  assert (T2 : end_keyword (reread d ks) = end_keyword d) by (unfold reread; destruct (final d ks (start_state d)); reflexivity).
  rewrite T1, T2. unfold strip at 1. rewrite strip_by_idem. fold (strip (title d)). f_equal. f_equal. exact Q.
Qed.

(** ** the theorems *)
Lemma reread_facts d ks : xprec (reread d ks) = [] /\ sections (reread d ks) = map s2l ks /\ end_keyword (reread d ks) = end_keyword d.
Proof.
  unfold reread. split; [|split].
  - transitivity (xprec (final d ks (start_state d))); [destruct (final d ks (start_state d)); reflexivity|]. rewrite xprec_final. reflexivity.
  - transitivity (sections (final d ks (start_state d))); [destruct (final d ks (start_state d)); reflexivity|]. rewrite sections_final. reflexivity.
  - destruct (final d ks (start_state d)); reflexivity.
Qed.
(** the second file: the first up to trailing blanks *)
Theorem write_idem d ks ls :
  write_lines d = Ok ls -> update_sections d = sections d -> sections d = map s2l ks -> xprec d = [] ->
  chain_ok d ks (start_state d) = true -> idem_ok d ks = true ->
  update_sections (reread d ks) = sections (reread d ks) ->
  Forall (istable T0) (prog_file d ks) ->
  exists ls', write_lines (reread d ks) = Ok ls' /\ Forall2 lpad ls ls' /\ render0 (map citem0 (prog_file d ks)) = Ok ls'.
Proof.
  intros W US SK XP CH ID USD ST.
  assert (IC : idem_chain d ks (start_state d) = true) by (unfold idem_ok in ID; do 3 (apply andb_prop in ID as [ID _]); exact ID).
  destruct (idem_chain_all d ks _ IC) as [COV WFW].
  rewrite (write_lines_prog d ks US XP SK COV WFW) in W.
  destruct (render_rewrite T0 _ _ W ST) as [ls' [R' F]].
  destruct (prog_file_canon d ks CH ID) as [PC WD].
  destruct (reread_facts d ks) as [XD [SD _]].
  exists ls'. split; [|split; [exact F|exact R']].
  rewrite (write_lines_prog (reread d ks) ks USD XD SD COV WD), PC. exact R'.
Qed.
(** from then on: the second file is read as the object it was written from re-read, and written again byte for byte *)
Theorem write_fixpoint d ks ls :
  write_lines d = Ok ls -> update_sections d = sections d -> sections d = map s2l ks -> xprec d = [] ->
  chain_ok d ks (start_state d) = true -> idem_ok d ks = true ->
  update_sections (reread d ks) = sections (reread d ks) ->
  Forall (istable T0) (prog_file d ks) ->
  let D := reread d ks in
  is_end (end_keyword d) = true -> title_ok D = true -> chain_ok D ks (start_state D) = true -> idem_ok D ks = true ->
  update_sections (reread D ks) = sections (reread D ks) ->
  exists ls', write_lines D = Ok ls' /\ Forall2 lpad ls ls' /\ read_lines ls' = Ok (reread D ks) /\ write_lines (reread D ks) = Ok ls'.
Proof.
  intros W US SK XP CH ID USD ST D EK TI CHD IDD USD2.
  destruct (write_idem d ks ls W US SK XP CH ID USD ST) as [ls' [WD [F R']]]. fold D in WD.
  destruct (reread_facts d ks) as [XD [SD ED]]. fold D in XD, SD, ED.
  exists ls'. split; [exact WD|]. split; [exact F|]. split.
  - unfold reread. apply (read_write_main D ks ls' WD USD SD XD); [rewrite ED; exact EK|exact TI|exact CHD].
  - assert (IC : idem_chain D ks (start_state D) = true) by (unfold idem_ok in IDD; do 3 (apply andb_prop in IDD as [IDD _]); exact IDD).
    destruct (idem_chain_all D ks _ IC) as [COV _].
    destruct (prog_file_canon D ks CHD IDD) as [PC2 WD2]. destruct (prog_file_canon d ks CH ID) as [PC1 _]. fold D in PC1.
    destruct (reread_facts D ks) as [XD2 [SD2 _]].
    rewrite (write_lines_prog (reread D ks) ks USD2 XD2 SD2 COV WD2), PC2, PC1.
    assert (IC1 : idem_chain d ks (start_state d) = true) by (unfold idem_ok in ID; do 3 (apply andb_prop in ID as [ID _]); exact ID).
    destruct (idem_chain_all d ks _ IC1) as [COV1 WFW1].
    rewrite (write_lines_prog d ks US XP SK COV1 WFW1) in W.
    rewrite (render_fixpoint T0 _ _ W ST). exact R'.
Qed.
