(** C01 -- property theorems only. *)
From Coq Require Import Ascii String List Bool Arith ZArith NArith.
From PTBase Require Import Exn PyStr PyNum PyVal Fmt FixedFormat.
From Gen Require Import GenTables GenSections.
From P Require Import Comb Obj Sections SectionsB T2DataIO.
Import ListNotations.

(** COMBINATOR 1: a record the writer returns reads back field by field as the read-back of
    each field's own text, whatever the other values are *)
Theorem record_roundtrip : forall specs vals s,
  write_values specs vals = Ok s -> parse specs (s ++ [nl])%list = cvals specs vals.
Proof. exact Comb.record_roundtrip. Qed.
Print Assumptions record_roundtrip.

(** COMBINATOR 2: a list written k per line and read back as n lines: every k > 0, every
    length, every n (both sides of every 4- and 8-per-line boundary) *)
Theorem chunks_roundtrip : forall f k n l ls rest,
  (0 < k)%nat -> numeric f = true ->
  write_chunks (repeat f k) k n l = Ok ls ->
  read_chunks (repeat f k) n (ls ++ rest)%list = (somes (map (cf f) (firstn (n * k) l)), rest).
Proof. exact Comb.chunks_roundtrip. Qed.
Print Assumptions chunks_roundtrip.
