(** C01 -- property theorems only. *)
From Coq Require Import Ascii String List Bool Arith ZArith NArith.
From PTBase Require Import Exn PyStr PyNum PyVal Fmt FixedFormat.
From Gen Require Import GenTables GenSections.
From P Require Import Comb Obj Fields Idem Sections SectionsB Rec SecRocks SecMesh SecGener SecMisc SecParam SecHist SecSel SecShort SecMeshm T2DataIO Whole Xp Example Prog IdemSec IdemSecB IdemMeshm IdemWhole RbReadBack RealStable IdemEx Bin BinEx IdemMesh IdemMeshEx IdemBin IdemBinEx.
Import ListNotations.
Open Scope string_scope.

(** ** the regenerated tables, dispatch dictionaries and per-line constants have the shape the
    theorems below are stated for (finite, by computation) *)
Theorem format_tables_shape : tables_ok = true /\ xp_tables_ok = true.
Proof. exact (conj tables_ok_true xp_tables_ok_true). Qed.
Print Assumptions format_tables_shape.

(** ** fields *)
Theorem integer_field_reads_back : forall f z, ft f = Td -> (0 <= fw f)%Z -> fits_int f z = true -> cf f (XInt z) = XInt z.
Proof. exact cf_int. Qed.
Print Assumptions integer_field_reads_back.
Theorem name_field_reads_back : forall f s, ft f = Ts -> fits_str f s = true -> cf f (XStr s) = XStr s.
Proof. exact cf_str. Qed.
Print Assumptions name_field_reads_back.
Theorem blank_field_reads_none : forall f, numeric f = true -> cf f XNone = XNone.
Proof. exact cf_none. Qed.
Print Assumptions blank_field_reads_none.

(** ** combinators *)
Theorem record_roundtrip : forall specs vals s,
  write_values specs vals = Ok s -> parse specs (s ++ [nl])%list = cvals specs vals.
Proof. exact Comb.record_roundtrip. Qed.
Print Assumptions record_roundtrip.
Theorem chunks_roundtrip : forall f k n l ls rest,
  (0 < k)%nat -> numeric f = true ->
  write_chunks (repeat f k) k n l = Ok ls ->
  read_chunks (repeat f k) n (ls ++ rest)%list = (somes (map (cf f) (firstn (n * k) l)), rest).
Proof. exact Comb.chunks_roundtrip. Qed.
Print Assumptions chunks_roundtrip.
Theorem chunked_table_roundtrip : forall T k c n l ls rest,
  uniform T k c = true -> (0 < c)%nat -> (length l <= n * c)%nat ->
  write_chunks (Sections.sp T k) c n l = Ok ls -> read_chunks (Sections.sp T k) n (ls ++ rest)%list = (ctab T k l, rest).
Proof. exact tab_roundtrip. Qed.
Print Assumptions chunked_table_roundtrip.

(** ** sections (T: the main table or the extra-precision table) *)
Theorem rocks_read_write : forall T d body, rocks_table_ok T = true -> write_rocks T d = Ok (kw "ROCKS" :: body) ->
  forallb (wf_rock T) (rocks d) = true ->
  forall d0 rest, read_rocks T d0 (body ++ rest)%list = Ok (set_rocks d0 (canon_rocks T (rocks d)), rest).
Proof. exact rocks_roundtrip. Qed.
Print Assumptions rocks_read_write.
Theorem eleme_read_write : forall T d body, blocks_table_ok T = true -> write_blocks T d = Ok (kw "ELEME" :: body) ->
  forall d0 rest, forallb (wf_block T (rocks d0)) (blocks d) = true ->
  read_blocks T d0 (body ++ rest)%list = Ok (set_blocks d0 (canon_blocks T (blocks d)), rest).
Proof. exact blocks_roundtrip. Qed.
Print Assumptions eleme_read_write.
Theorem conne_read_write : forall T d body, conns_table_ok T = true -> write_conns T d = Ok (kw "CONNE" :: body) ->
  forall d0 rest, forallb (wf_conn T (blocks d0)) (conns d) = true ->
  read_conns T d0 (body ++ rest)%list = Ok (set_conns d0 (canon_conns T (conns d)), rest).
Proof. exact conns_roundtrip. Qed.
Print Assumptions conne_read_write.
Theorem gener_read_write : forall T d body, gener_table_ok T = true -> write_gens T d = Ok (kw "GENER" :: body) ->
  forallb (wf_gen T) (gens d) = true ->
  forall d0 rest, read_gens T d0 (body ++ rest)%list = Ok (set_gens d0 (canon_gens T (gens d)), rest).
Proof. exact gens_roundtrip. Qed.
Print Assumptions gener_read_write.
Theorem incon_read_write : forall T d body, incon_table_ok T = true -> write_incons T d = Ok (kw "INCON" :: body) ->
  forallb (wf_inc T) (incon_items d) = true ->
  forall d0 rest, incon d0 = [] -> read_incons T d0 (body ++ rest)%list = Ok (set_incon d0 (canon_incons T d), rest).
Proof. exact incons_roundtrip. Qed.
Print Assumptions incon_read_write.
Theorem param_read_write : forall T keywords d body d0, param_table_ok T = true -> write_param T d = Ok (kw "PARAM" :: body) ->
  wf_param T keywords d0 d = true ->
  forall nextl rest, next_ok keywords nextl = true ->
  read_param T keywords d0 (body ++ nextl :: rest)%list = Ok (set_param d0 (canon_param T d0 d), Some (padstring nextl), rest).
Proof. exact param_roundtrip. Qed.
Print Assumptions param_read_write.
Theorem times_read_write : forall T d dt tl body, times_table_ok T = true -> otimes d = Some (dt, tl) ->
  write_times T d = Ok (kw "TIMES" :: body) ->
  forall z, dget dt "num_times_specified" = Some (XInt z) ->
  (match nth_error (Sections.sp T "output_times1") 0 with Some f => fits_int f z | None => false end) = true ->
  Z.of_nat (length tl) = z ->
  forall d0 rest, read_times T d0 (body ++ rest)%list =
    Ok (set_otimes d0 (Some (canon_times T (match otimes d0 with Some (x, _) => x | None => [] end) (dt, tl))), rest).
Proof. exact times_roundtrip. Qed.
Print Assumptions times_read_write.
Theorem momop_read_write : forall T d body, momop_table_ok T = true -> write_momop T d = Ok (kw "MOMOP" :: body) ->
  forallb digit_z (momop d) = true -> length (momop d) = 21%nat ->
  forall d0 rest, read_momop T d0 (body ++ rest)%list = Ok (set_momop d0 (momop d), rest).
Proof. exact momop_roundtrip. Qed.
Print Assumptions momop_read_write.
Theorem rpcap_read_write : forall T d body, write_rpcap T d = Ok (kw "RPCAP" :: body) ->
  forall d0 rest, read_rpcap T d0 (body ++ rest)%list =
    Ok (set_capil (set_relperm d0 (canon_tp T "relative_permeability" (relperm d))) (canon_tp T "capillarity" (capil d)), rest).
Proof. exact rpcap_roundtrip. Qed.
Print Assumptions rpcap_read_write.
Theorem lineq_read_write : forall T d body, write_lineq T d = Ok (kw "LINEQ" :: body) ->
  forall d0 rest, read_lineq T d0 (body ++ rest)%list = Ok (set_lineq d0 (canon_dict T "lineq" (lineq d0) (lineq d)), rest).
Proof. exact lineq_roundtrip. Qed.
Print Assumptions lineq_read_write.
Theorem solvr_read_write : forall T d body, write_solver T d = Ok (kw "SOLVR" :: body) ->
  forall d0 rest, read_solver T d0 (body ++ rest)%list = Ok (set_solver d0 (canon_dict T "solver" (solver d0) (solver d)), rest).
Proof. exact solver_roundtrip. Qed.
Print Assumptions solvr_read_write.
Theorem multi_read_write : forall T d body, write_multi T d = Ok (kw "MULTI" :: body) ->
  forall d0 rest, autough2 d0 = autough2 d ->
  read_multi T d0 (body ++ rest)%list =
    (do m <- strip_eos (canon_dict T (multi_spec d) (multi d0) (multi d)); Ok (set_multi d0 m, rest)).
Proof. exact multi_roundtrip. Qed.
Print Assumptions multi_read_write.

Theorem selec_read_write : forall T d x body, selec_table_ok T = true -> selection d = Some x ->
  write_selection T d = Ok (kw "SELEC" :: body) -> wf_selection T x = true ->
  forall d0 rest, read_selection T d0 (body ++ rest)%list = Ok (set_selection d0 (Some (canon_selection T x)), rest).
Proof. exact selection_roundtrip. Qed.
Print Assumptions selec_read_write.
Theorem diffu_read_write : forall T d body, write_diffusion T d = Ok (kw "DIFFU" :: body) ->
  forall d0 rest np, dget (multi d0) "num_components" = Some (XInt (Z.of_nat (length (diffusion d)))) ->
  dget (multi d0) "num_phases" = Some (XInt np) -> diffusion d0 = [] ->
  read_diffusion T d0 (body ++ rest)%list = Ok (set_diffusion d0 (canon_diffusion T np (diffusion d)), rest).
Proof. exact diffusion_roundtrip. Qed.
Print Assumptions diffu_read_write.
Theorem foft_read_write : forall d body, write_hist_block d = Ok (kw "FOFT" :: body) ->
  forall d0 rest, forallb hname_ok (hist_block d) = true -> forallb (keep_block d0) (hist_block d) = true ->
  read_hist_block d0 (body ++ rest)%list = Ok (set_hist_block d0 (hist_block d), rest).
Proof. exact foft_roundtrip. Qed.
Print Assumptions foft_read_write.
Theorem coft_read_write : forall d body, write_hist_conn d = Ok (kw "COFT" :: body) ->
  forall d0 rest, forallb hpair_ok (hist_conn d) = true -> forallb (keep_conn d0) (hist_conn d) = true ->
  read_hist_conn d0 (body ++ rest)%list = Ok (set_hist_conn d0 (hist_conn d), rest).
Proof. exact coft_roundtrip. Qed.
Print Assumptions coft_read_write.
Theorem goft_read_write : forall d body, write_hist_gen d = Ok (kw "GOFT" :: body) ->
  forall d0 rest, forallb hname_ok (hist_gen d) = true -> forallb (keep_block d0) (hist_gen d) = true ->
  read_hist_gen d0 (body ++ rest)%list = Ok (set_hist_gen d0 (hist_gen d), rest).
Proof. exact goft_roundtrip. Qed.
Print Assumptions goft_read_write.
Theorem indom_read_write : forall T d body, write_indom T d = Ok (kw "INDOM" :: body) -> forallb wf_indom1 (indom d) = true ->
  forall d0 rest, indom d0 = [] -> read_indom T d0 (body ++ rest)%list = Ok (set_indom d0 (canon_indom T (indom d)), rest).
Proof. exact indom_roundtrip. Qed.
Print Assumptions indom_read_write.

Theorem short_read_write : forall T d s lines, short_table_ok T = true -> short d = Some s -> write_short d = Ok lines ->
  forall d0, short d0 = None -> wf_short d0 s = true ->
  exists f body, lines = header_of f :: body /\
    forall line rest, line = header_of f \/ line = padstring (header_of f) ->
    read_short T d0 line (body ++ rest)%list = Ok (set_short d0 (Some (canon_short s)), rest).
Proof. exact short_roundtrip. Qed.
Print Assumptions short_read_write.
Theorem meshmaker_rz2d_read_write : forall T subs, rz_table_ok T = true -> wf_rz T subs = true ->
  forall lss, mapM (write_rz2d_sub T) subs = Ok lss ->
  forall fuel acc rest, (length subs <= fuel)%nat ->
  read_rz2d T fuel acc (concat lss ++ rest)%list = Ok ((rev acc ++ canon_rz T subs)%list, rest).
Proof. exact rz2d_roundtrip. Qed.
Print Assumptions meshmaker_rz2d_read_write.
Theorem meshmaker_xyz_read_write : forall T subs, xyz_table_ok T = true -> forallb (wf_xyz_sub T) subs = true ->
  forall lss, mapM (write_xyz_sub T) subs = Ok lss ->
  forall fuel acc rest, (length subs < fuel)%nat ->
  read_xyz T fuel acc (concat lss ++ [nl] :: rest)%list = Ok ((rev acc ++ map (canon_xyz_sub T) subs)%list, rest).
Proof. exact xyz_subs_roundtrip. Qed.
Print Assumptions meshmaker_xyz_read_write.
Theorem meshmaker_read_write : forall T d body, meshm_table_ok T = true -> write_meshmaker T d = Ok (kw "MESHMAKER" :: body) ->
  forallb (wf_mm T) (meshmaker d) = true ->
  forall d0 rest, meshmaker d0 = [] ->
  read_meshmaker T d0 (body ++ rest)%list = Ok (set_meshmaker d0 (map (canon_mm T) (meshmaker d)), rest).
Proof. exact meshmaker_roundtrip. Qed.
Print Assumptions meshmaker_read_write.

(** ** every section kind through the keyword dispatch: the writer's first line is the keyword line;
    given that line (as read, or padded when it was the PARAM look-ahead) the reader consumes exactly
    the writer's lines (PARAM: plus the next keyword line, handed back as look-ahead) *)
Theorem section_read_write : forall k d d0 lines, In k covered -> wsec d k = Ok lines -> secwf k d d0 = true ->
  exists l0 body, lines = l0 :: body /\ kwline k l0 /\
    if plain k then forall line rest, line = l0 \/ line = padstring l0 ->
                    dispatch d0 k line (body ++ rest)%list = Ok (supd k d d0, None, rest)
    else forall line nextl rest, next_ok0 nextl = true ->
         dispatch d0 k line (body ++ nextl :: rest)%list = Ok (supd k d d0, Some (padstring nextl), rest).
Proof. exact section_step. Qed.
Print Assumptions section_read_write.
Theorem all_section_kinds_covered : forall k, In k t2data_sections <-> In k covered.
Proof. exact covered_all. Qed.
Print Assumptions all_section_kinds_covered.

(** ** THE round trip of the main file (mesh in the file, no extra precision): any subset and order
    [ks] of the 23 section kinds *)
Theorem t2data_read_write : forall d ks ls,
  write_lines d = Ok ls ->
  update_sections d = sections d -> sections d = map s2l ks -> xprec d = [] -> is_end (end_keyword d) = true ->
  title_ok d = true -> chain_ok d ks (start_state d) = true ->
  read_lines ls = Ok (set_end_keyword (final d ks (start_state d)) (end_keyword d)).
Proof. exact read_write_main. Qed.
Print Assumptions t2data_read_write.
(** the hypotheses are met by two concrete objects, one per flavour, in a non-standard order *)
Theorem t2data_read_write_hypotheses_met :
  hyps_ok example_autough2 example_autough2_order = true /\ hyps_ok example_tough2 example_tough2_order = true.
Proof. exact (conj example_autough2_ok example_tough2_ok). Qed.
Print Assumptions t2data_read_write_hypotheses_met.

(** ** writing again what was read: a record *)
Theorem exact_fields_are_stable :
  (forall f z, ft f = Td -> (0 <= fw f)%Z -> fits_int f z = true -> stable f (XInt z)) /\
  (forall f s, ft f = Ts -> fits_str f s = true -> stable f (XStr s)) /\
  (forall f, stable f XNone) /\ (forall f, stable f (rd_field f [])).
Proof. exact (conj stable_int (conj stable_str (conj stable_none stable_missing))). Qed.
Print Assumptions exact_fields_are_stable.
Theorem record_write_idem_partial : forall specs vals s, write_values specs vals = Ok s -> all_stable specs vals ->
  exists t, write_values specs (cvals specs vals) = Ok (s ++ t)%list /\ forallb (fun c => ceqb c " "%char) t = true.
Proof. exact line_rewrite. Qed.
Print Assumptions record_write_idem_partial.
Theorem record_write_fixpoint_partial : forall specs vals l, write_fields specs vals = Ok l -> all_stable specs vals ->
  write_fields specs (cvals specs (cvals specs vals)) = write_fields specs (cvals specs vals).
Proof. exact record_rewrite_fixpoint. Qed.
Print Assumptions record_write_fixpoint_partial.

(** ** the same with the mesh in a separate ASCII file: main file, then ELEME and CONNE from the MESH file *)
Theorem t2data_read_write_meshfile : forall d ks d' fs,
  write_files (mk_wcfg 1 None None) d = Ok (d', fs) ->
  update_sections d = sections d -> main_secs d = map s2l ks -> xprec d = [] -> is_end (end_keyword d) = true ->
  title_ok d = true -> chain_ok d ks (start_state d) = true -> forallb (fun k => negb (k =? "ELEME")) ks = true ->
  let d2 := set_end_keyword (final d ks (start_state d)) (end_keyword d) in
  forallb (wf_block T0 (rocks d2)) (blocks d) = true -> forallb (wf_conn T0 (canon_blocks T0 (blocks d))) (conns d) = true ->
  read_files fs = Ok (mesh_state d d2).
Proof. exact read_write_meshfile. Qed.
Print Assumptions t2data_read_write_meshfile.
Theorem t2data_read_write_meshfile_hypotheses_met :
  hyps_mesh_ok (drop_short example_autough2) (no_mesh example_autough2_order) = true /\
  hyps_mesh_ok (drop_short example_tough2) (no_mesh example_tough2_order) = true.
Proof. exact (conj example_autough2_mesh_ok example_tough2_mesh_ok). Qed.
Print Assumptions t2data_read_write_meshfile_hypotheses_met.

(** ** the extra-precision companion (.pdat) holding the sections [xs], echoed in the main file (b = true) or
    not: SIMUL reads the companion first (with the extra-precision table), the main file's other sections
    follow in any legal order, echoed ones are skipped, the (repaired) reader re-derives the echo flag *)
Theorem extra_precision_section_read_write : forall k d d0 lines, In k xp_kinds -> xpresent k d = true -> wsec1 d k = Ok lines ->
  secwf1 k d d0 = true ->
  exists body, lines = kw k :: body /\
    forall line rest, read_method T1 d0 (rname1 k) line (body ++ rest)%list = Ok (supd1 k d d0, None, rest).
Proof. exact xp_section_step. Qed.
Print Assumptions extra_precision_section_read_write.
Theorem companion_file_read : forall d xs d1 pd, write_sections T1 xp_write_fn_names d (map s2l xs) = Ok pd -> xchain_ok d xs d1 = true ->
  sections d1 = [] -> xecho d1 = true -> read_xp d1 pd = Ok (xp_state d xs d1).
Proof. exact read_xp_pdat. Qed.
Print Assumptions companion_file_read.
Theorem t2data_read_write_extra_precision : forall d xs b ks d' fs,
  write_files (mk_wcfg 0 (Some (map s2l xs)) (Some b)) d = Ok (d', fs) ->
  update_sections d = sections d -> xprec d = [] -> xecho d = true -> autough2 d = true -> xs <> [] ->
  msecs d (map s2l xs) b = map s2l ("SIMUL" :: ks) -> is_end (end_keyword d) = true -> title_ok d = true ->
  secwf "SIMUL" d (start_state d) = true ->
  xchain_ok d xs (simul_state d) = true ->
  chain_okX d ks (push "SIMUL" (xp_state d xs (simul_state d))) = true ->
  read_files fs = Ok (reinfer (set_end_keyword (finalX d ks (push "SIMUL" (xp_state d xs (simul_state d)))) (end_keyword d))).
Proof. exact read_write_xp. Qed.
Print Assumptions t2data_read_write_extra_precision.
Theorem t2data_read_write_extra_precision_hypotheses_met :
  hyps_xp_ok example_autough2 all_xp false (no_xp example_autough2_order) = true /\
  hyps_xp_ok example_autough2 all_xp true (no_simul example_autough2_order) = true.
Proof. exact (conj example_xp_ok example_xp_echo_ok). Qed.
Print Assumptions t2data_read_write_extra_precision_hypotheses_met.

(** ** the grid in the binary pair MESHA / MESHB: the records, then the whole configuration through any
    packing of a record into bytes that unpacks ([unpack_pack]: what struct.pack / struct.unpack and the
    record markers do -- a hypothesis, not modelled) *)
Theorem binary_mesh_records_read_write : forall d RA RB d2,
  write_bin d = Ok (RA, RB) -> wf_bin d d2 = true -> read_bin RA RB d2 = Ok (bin_state d d2).
Proof. exact bin_roundtrip. Qed.
Print Assumptions binary_mesh_records_read_write.
Theorem t2data_read_write_binary_mesh : forall (rbytes : Type) (pack : brec -> rbytes) (unpack : bfmt -> rbytes -> res brec),
  (forall r, brec_ok r = true -> unpack (fmt_of r) (pack r) = Ok r) ->
  forall d ks d' fs RA RB,
  write_files (mk_wcfg 2 None None) d = Ok (d', fs) -> write_bin d = Ok (RA, RB) ->
  update_sections d = sections d -> main_secs d = map s2l ks -> xprec d = [] -> is_end (end_keyword d) = true ->
  title_ok d = true -> chain_ok d ks (start_state d) = true -> forallb (fun k => negb (k =? "ELEME")) ks = true ->
  let d2 := set_end_keyword (final d ks (start_state d)) (end_keyword d) in
  wf_bin d d2 = true -> forallb brec_ok RA = true -> forallb brec_ok RB = true ->
  read_files_bin_bytes rbytes unpack fs (map pack RA) (map pack RB) = Ok (bin_state d d2).
Proof. exact read_write_binary_bytes. Qed.
Print Assumptions t2data_read_write_binary_mesh.
Theorem t2data_read_write_binary_mesh_hypotheses_met :
  hyps_bin_ok (with_centres (drop_short example_autough2)) (no_mesh example_autough2_order) = true /\
  hyps_bin_ok (with_centres (drop_short example_tough2)) (no_mesh example_tough2_order) = true.
Proof. exact (conj example_autough2_bin_ok example_tough2_bin_ok). Qed.
Print Assumptions t2data_read_write_binary_mesh_hypotheses_met.

(** ** writing again what was read: the whole file (mesh in the file, no extra precision).
    [reread d ks] is the object t2data.read builds from the file of [d] (by t2data_read_write).  Its file is
    the first file with blanks before some newlines ([lpad]), and is reproduced byte for byte from then on.
    All 23 section kinds ([idem_covered]).  Decidable hypotheses, all of them computed in [idem_hyps]:
    each written value survives the trip ([istable]: its text, read and written again, is the same text --
    proved for integers, names and blanks, computed for reals); [idem_ok]: no field holds the number 0 where
    the reader takes 0 for absent, names fill their columns, lists read back whole, ...; for MESHMAKER the
    agreement of the two line programs is itself computed ([idem_meshm]) *)
Theorem second_file_sections_covered : forall k, In k covered -> In k idem_covered.
Proof. exact idem_covered_all. Qed.
Print Assumptions second_file_sections_covered.
Theorem line_program_write_idem : forall p ls, render T0 p = Ok ls -> Forall (istable T0) p ->
  (exists ls', render T0 (map (citem T0) p) = Ok ls' /\ Forall2 lpad ls ls') /\
  render T0 (map (citem T0) (map (citem T0) p)) = render T0 (map (citem T0) p).
Proof. exact (fun p ls W S => conj (render_rewrite T0 p ls W S) (render_fixpoint T0 p ls W S)). Qed.
Print Assumptions line_program_write_idem.
Theorem t2data_write_idem : forall d ks ls,
  write_lines d = Ok ls -> update_sections d = sections d -> sections d = map s2l ks -> xprec d = [] ->
  chain_ok d ks (start_state d) = true -> idem_ok d ks = true ->
  update_sections (reread d ks) = sections (reread d ks) ->
  Forall (istable T0) (prog_file d ks) ->
  exists ls', write_lines (reread d ks) = Ok ls' /\ Forall2 lpad ls ls' /\ render T0 (map (citem T0) (prog_file d ks)) = Ok ls'.
Proof. exact write_idem. Qed.
Print Assumptions t2data_write_idem.
Theorem t2data_write_fixpoint : forall d ks ls,
  write_lines d = Ok ls -> update_sections d = sections d -> sections d = map s2l ks -> xprec d = [] ->
  chain_ok d ks (start_state d) = true -> idem_ok d ks = true ->
  update_sections (reread d ks) = sections (reread d ks) ->
  Forall (istable T0) (prog_file d ks) ->
  let D := reread d ks in
  is_end (end_keyword d) = true -> title_ok D = true -> chain_ok D ks (start_state D) = true -> idem_ok D ks = true ->
  update_sections (reread D ks) = sections (reread D ks) ->
  exists ls', write_lines D = Ok ls' /\ Forall2 lpad ls ls' /\ read_lines ls' = Ok (reread D ks) /\ write_lines (reread D ks) = Ok ls'.
Proof. exact write_fixpoint. Qed.
Print Assumptions t2data_write_fixpoint.
(** ** the text of a real survives read + write (x-C02's float() of a printed real, b-C13's digits-survive argument,
    tied here to Comb.strtod / Comb.cf and to the precision-lowering loop): '%w.qe' with q <= 14 decimals and a printed
    exponent in [-300, 300]; '%w.qf' printing fewer than 15 digits; both when the re-read value is printed with q
    decimals again, which is proved when q is the precision of the table; names; [field_ok] collects the cases *)
Theorem real_field_text_survives : forall f ng m e q, ft f = Te -> (0 <= m)%Z -> used_prec f (XReal ng m e) = Some q -> (0 <= q <= 14)%Z ->
  (m <> 0%Z -> (-300 <= exp10 q m e <= 300)%Z) -> used_prec f (cf f (XReal ng m e)) = Some q -> stable f (XReal ng m e).
Proof. exact real_e_stable. Qed.
Print Assumptions real_field_text_survives.
Theorem real_field_table_precision_kept : forall f ng m e, ft f = Te -> (0 <= m)%Z -> used_prec f (XReal ng m e) = Some (prec f) ->
  (0 <= prec f <= 14)%Z -> (m <> 0%Z -> (-300 <= exp10 (prec f) m e <= 300)%Z) -> used_prec f (cf f (XReal ng m e)) = Some (prec f).
Proof. exact full_precision_kept. Qed.
Print Assumptions real_field_table_precision_kept.
Theorem fixed_point_field_text_survives : forall f ng m e q, ft f = Tf -> (0 <= m)%Z -> used_prec f (XReal ng m e) = Some q -> (0 <= q <= 22)%Z ->
  (f_parts q m e < 10 ^ 15)%Z -> used_same f (XReal ng m e) q = true -> stable f (XReal ng m e).
Proof. exact real_f_stable. Qed.
Print Assumptions fixed_point_field_text_survives.
Theorem name_field_text_survives : forall f s t, ft f = Ts -> fmt_field f (XStr s) = Ok t -> no_nl t = true -> stable f (XStr s).
Proof. exact name_stable. Qed.
Print Assumptions name_field_text_survives.
Theorem value_conditions_give_stability : forall strict specs vals, all_field_ok strict specs vals = true -> all_stable specs vals.
Proof. exact all_field_ok_stable. Qed.
Print Assumptions value_conditions_give_stability.

(** all of these hypotheses as one boolean, and two objects that meet it.  [idem_hyps] takes [field_ok] for every written
    value ([field_ok_strict], or the two texts computed for the value kinds it does not cover: an integer in a real
    field, ...); [idem_hyps_strict] takes [field_ok_strict] only: no text is computed, the conditions are on the values *)
Theorem t2data_write_idem_checked : forall d ks, idem_hyps d ks = true ->
  exists ls ls', write_lines d = Ok ls /\ write_lines (reread d ks) = Ok ls' /\ Forall2 lpad ls ls' /\
    read_lines ls' = Ok (reread (reread d ks) ks) /\ write_lines (reread (reread d ks) ks) = Ok ls'.
Proof. exact write_fixpoint_checked. Qed.
Print Assumptions t2data_write_idem_checked.
Theorem t2data_write_idem_derived : forall d ks, idem_hyps_strict d ks = true ->
  exists ls ls', write_lines d = Ok ls /\ write_lines (reread d ks) = Ok ls' /\ Forall2 lpad ls ls' /\
    read_lines ls' = Ok (reread (reread d ks) ks) /\ write_lines (reread (reread d ks) ks) = Ok ls'.
Proof. exact write_fixpoint_derived. Qed.
Print Assumptions t2data_write_idem_derived.
Theorem t2data_write_idem_hypotheses_met :
  idem_hyps_strict example_tough2 example_tough2_order = true /\ idem_hyps_strict example_autough2 example_autough2_order = true.
Proof. exact (conj example_tough2_idem_strict example_autough2_idem_strict). Qed.
Print Assumptions t2data_write_idem_hypotheses_met.

(** ** writing again what was read, grid in a separate ASCII MESH file: both files of the second write are the first
    ones up to blanks before the newlines ([mesh_state d (reread d ks)] is what t2data_read_write_meshfile reads) *)
Theorem t2data_write_idem_meshfile : forall d ks d' fs,
  write_files (mk_wcfg 1 None None) d = Ok (d', fs) ->
  update_sections d = sections d -> main_secs d = map s2l ks -> xprec d = [] ->
  chain_ok d ks (start_state d) = true ->
  let d2 := reread d ks in let X := mesh_state d d2 in
  forallb (wf_block T0 (rocks d2)) (blocks d) = true -> forallb (wf_conn T0 (canon_blocks T0 (blocks d))) (conns d) = true ->
  idem_mesh_ok d ks = true -> update_sections X = sections X ->
  Forall (istable T0) (prog_file d ks) -> Forall (istable T0) (mesh_prog d) ->
  exists d'' fs' m m', write_files (mk_wcfg 1 None None) X = Ok (d'', fs') /\ Forall2 lpad (f_main fs) (f_main fs') /\
    f_mesh fs = Some m /\ f_mesh fs' = Some m' /\ Forall2 lpad m m' /\ f_pdat fs' = None.
Proof. exact write_idem_meshfile. Qed.
Print Assumptions t2data_write_idem_meshfile.
Theorem t2data_write_idem_meshfile_checked : forall strict d ks, idem_mesh_hyps strict d ks = true ->
  exists d' fs d'' fs' m m', write_files (mk_wcfg 1 None None) d = Ok (d', fs) /\
    write_files (mk_wcfg 1 None None) (mesh_state d (reread d ks)) = Ok (d'', fs') /\ Forall2 lpad (f_main fs) (f_main fs') /\
    f_mesh fs = Some m /\ f_mesh fs' = Some m' /\ Forall2 lpad m m' /\ f_pdat fs' = None.
Proof. exact write_idem_meshfile_checked. Qed.
Print Assumptions t2data_write_idem_meshfile_checked.
Theorem t2data_write_idem_meshfile_hypotheses_met :
  idem_mesh_hyps true (drop_short example_tough2) (no_mesh example_tough2_order) = true /\
  idem_mesh_hyps true (drop_short example_autough2) (no_mesh example_autough2_order) = true.
Proof. exact (conj example_tough2_mesh_idem example_autough2_mesh_idem). Qed.
Print Assumptions t2data_write_idem_meshfile_hypotheses_met.

(** ** ... and grid in the binary pair: the main file up to blanks before the newlines, the records of MESHA / MESHB exactly
    ([bin_state d (reread d ks)] is what t2data_read_write_binary_mesh reads) *)
Theorem binary_mesh_records_written_again : forall d d2 RA RB, write_bin d = Ok (RA, RB) ->
  map r_name (rocks d2) = map r_name (rocks d) -> write_bin (bin_state d d2) = Ok (RA, RB).
Proof. exact write_bin_again. Qed.
Print Assumptions binary_mesh_records_written_again.
Theorem t2data_write_idem_binary_mesh : forall d ks d' fs RA RB,
  write_files (mk_wcfg 2 None None) d = Ok (d', fs) -> write_bin d = Ok (RA, RB) ->
  update_sections d = sections d -> main_secs d = map s2l ks -> xprec d = [] ->
  chain_ok d ks (start_state d) = true -> idem_bin_ok d ks = true ->
  Forall (istable T0) (prog_file d ks) ->
  let X := bin_state d (reread d ks) in
  exists d'' fs', write_files (mk_wcfg 2 None None) X = Ok (d'', fs') /\ Forall2 lpad (f_main fs) (f_main fs') /\
    f_mesh fs' = None /\ f_pdat fs' = None /\ write_bin X = Ok (RA, RB).
Proof. exact write_idem_binary. Qed.
Print Assumptions t2data_write_idem_binary_mesh.
Theorem t2data_write_idem_binary_mesh_checked : forall strict d ks, idem_bin_hyps strict d ks = true ->
  exists d' fs RA RB d'' fs', write_files (mk_wcfg 2 None None) d = Ok (d', fs) /\ write_bin d = Ok (RA, RB) /\
    write_files (mk_wcfg 2 None None) (bin_state d (reread d ks)) = Ok (d'', fs') /\ Forall2 lpad (f_main fs) (f_main fs') /\
    f_mesh fs' = None /\ f_pdat fs' = None /\ write_bin (bin_state d (reread d ks)) = Ok (RA, RB).
Proof. exact write_idem_binary_checked. Qed.
Print Assumptions t2data_write_idem_binary_mesh_checked.
Theorem t2data_write_idem_binary_mesh_hypotheses_met :
  idem_bin_hyps true (with_centres (drop_short example_tough2)) (no_mesh example_tough2_order) = true /\
  idem_bin_hyps true (with_centres (drop_short example_autough2)) (no_mesh example_autough2_order) = true.
Proof. exact (conj example_tough2_bin_idem example_autough2_bin_idem). Qed.
Print Assumptions t2data_write_idem_binary_mesh_hypotheses_met.
