(** C01 -- property theorems only. *)
From Coq Require Import Ascii String List Bool Arith ZArith NArith.
From PTBase Require Import Exn PyStr PyNum PyVal Fmt FixedFormat.
From Gen Require Import GenTables GenSections.
From P Require Import Comb Obj Fields Idem Sections SectionsB Rec SecRocks SecMesh SecGener GenerLines SecMisc SecParam SecHist SecSel SecShort SecMeshm T2DataIO Whole Xp Example Bin BinEx.
Import ListNotations.
Open Scope string_scope.

(** ** the regenerated tables, dispatch dictionaries and per-line constants have the shape the
    theorems below are stated for (finite, by computation) *)
Theorem format_tables_shape : tables_ok = true /\ xp_tables_ok = true.
Proof. exact (conj tables_ok_true xp_tables_ok_true). Qed.
Print Assumptions format_tables_shape.

(** ** fields *)
Theorem integer_field_reads_back : forall f z, ft f = Td -> (0 <= fw f)%Z -> fits_int f z = true -> cf f (XInt z) = XInt z.
Proof. exact cf_int. Qed.
Print Assumptions integer_field_reads_back.
Theorem name_field_reads_back : forall f s, ft f = Ts -> fits_str f s = true -> cf f (XStr s) = XStr s.
Proof. exact cf_str. Qed.
Print Assumptions name_field_reads_back.
Theorem blank_field_reads_none : forall f, numeric f = true -> cf f XNone = XNone.
Proof. exact cf_none. Qed.
Print Assumptions blank_field_reads_none.

(** ** combinators *)
Theorem record_roundtrip : forall specs vals s,
  write_values specs vals = Ok s -> parse specs (s ++ [nl])%list = cvals specs vals.
Proof. exact Comb.record_roundtrip. Qed.
Print Assumptions record_roundtrip.
Theorem chunks_roundtrip : forall f k n l ls rest,
  (0 < k)%nat -> numeric f = true ->
  write_chunks (repeat f k) k n l = Ok ls ->
  read_chunks (repeat f k) n (ls ++ rest)%list = (somes (map (cf f) (firstn (n * k) l)), rest).
Proof. exact Comb.chunks_roundtrip. Qed.
Print Assumptions chunks_roundtrip.
Theorem chunked_table_roundtrip : forall T k c n l ls rest,
  uniform T k c = true -> (0 < c)%nat -> (length l <= n * c)%nat ->
  write_chunks (Sections.sp T k) c n l = Ok ls -> read_chunks (Sections.sp T k) n (ls ++ rest)%list = (ctab T k l, rest).
Proof. exact tab_roundtrip. Qed.
Print Assumptions chunked_table_roundtrip.

(** ** sections (T: the main table or the extra-precision table) *)
Theorem rocks_read_write : forall T d body, rocks_table_ok T = true -> write_rocks T d = Ok (kw "ROCKS" :: body) ->
  forallb (wf_rock T) (rocks d) = true ->
  forall d0 rest, read_rocks T d0 (body ++ rest)%list = Ok (set_rocks d0 (canon_rocks T (rocks d)), rest).
Proof. exact rocks_roundtrip. Qed.
Print Assumptions rocks_read_write.
Theorem eleme_read_write : forall T d body, blocks_table_ok T = true -> write_blocks T d = Ok (kw "ELEME" :: body) ->
  forall d0 rest, forallb (wf_block T (rocks d0)) (blocks d) = true ->
  read_blocks T d0 (body ++ rest)%list = Ok (set_blocks d0 (canon_blocks T (blocks d)), rest).
Proof. exact blocks_roundtrip. Qed.
Print Assumptions eleme_read_write.
Theorem conne_read_write : forall T d body, conns_table_ok T = true -> write_conns T d = Ok (kw "CONNE" :: body) ->
  forall d0 rest, forallb (wf_conn T (blocks d0)) (conns d) = true ->
  read_conns T d0 (body ++ rest)%list = Ok (set_conns d0 (canon_conns T (conns d)), rest).
Proof. exact conns_roundtrip. Qed.
Print Assumptions conne_read_write.
Theorem gener_read_write : forall T d body, gener_table_ok T = true -> write_gens T d = Ok (kw "GENER" :: body) ->
  forallb (wf_gen T) (gens d) = true ->
  forall d0 rest, read_gens T d0 (body ++ rest)%list = Ok (set_gens d0 (canon_gens T (gens d)), rest).
Proof. exact gens_roundtrip. Qed.
Print Assumptions gener_read_write.
(** GENER, every generator type, no well-formedness hypothesis: the number of lines written is decided by the one
    table count [abs(ltab) if ltab and type != 'DELV' else 1] that the reader computes too *)
Theorem generator_lines_written : forall T g ls, write_gen T g = Ok ls ->
  exists nt, gen_ntimes (g_ltab g) (g_type g) = Ok nt /\ length ls = gen_nlines g nt.
Proof. exact gen_lines_written. Qed.
Print Assumptions generator_lines_written.
Theorem delv_generator_written_on_one_line : forall T g ls, g_type g = s2l "DELV" -> write_gen T g = Ok ls -> length ls = 1%nat.
Proof. exact delv_one_line_written. Qed.
Print Assumptions delv_generator_written_on_one_line.
Theorem delv_generator_read_from_one_line : forall T acc line r gs r',
  sval (vnth (pline T "generator" line) 7) = s2l "DELV" ->
  read_gen T acc line r = Ok (gs, r') ->
  r' = r /\ exists g, gs = g :: acc /\ g_time g = [] /\ g_rate g = [] /\ g_enth g = [] /\
                      g_ltab g = vnth (pline T "generator" line) 5.
Proof. exact delv_one_line_read. Qed.
Print Assumptions delv_generator_read_from_one_line.
Theorem generator_lines_hypotheses_met :
  (exists l1, write_gen t2data_format delv_gen = Ok [l1] /\
    sval (vnth (pline t2data_format "generator" l1) 7) = s2l "DELV" /\
    exists g, read_gen t2data_format [] l1 [s2l "next"] = Ok ([g], [s2l "next"]) /\ g_ltab g = XInt 3) /\
  (exists ls, write_gen t2data_format mass_gen = Ok ls /\ gen_ntimes (g_ltab mass_gen) (g_type mass_gen) = Ok 5%Z /\
    length ls = 7%nat /\ gen_nlines mass_gen 5 = 7%nat).
Proof. exact (conj delv_example mass_example). Qed.
Print Assumptions generator_lines_hypotheses_met.
Theorem incon_read_write : forall T d body, incon_table_ok T = true -> write_incons T d = Ok (kw "INCON" :: body) ->
  forallb (wf_inc T) (incon_items d) = true ->
  forall d0 rest, incon d0 = [] -> read_incons T d0 (body ++ rest)%list = Ok (set_incon d0 (canon_incons T d), rest).
Proof. exact incons_roundtrip. Qed.
Print Assumptions incon_read_write.
Theorem param_read_write : forall T keywords d body d0, param_table_ok T = true -> write_param T d = Ok (kw "PARAM" :: body) ->
  wf_param T keywords d0 d = true ->
  forall nextl rest, next_ok keywords nextl = true ->
  read_param T keywords d0 (body ++ nextl :: rest)%list = Ok (set_param d0 (canon_param T d0 d), Some (padstring nextl), rest).
Proof. exact param_roundtrip. Qed.
Print Assumptions param_read_write.
Theorem times_read_write : forall T d dt tl body, times_table_ok T = true -> otimes d = Some (dt, tl) ->
  write_times T d = Ok (kw "TIMES" :: body) ->
  forall z, dget dt "num_times_specified" = Some (XInt z) ->
  (match nth_error (Sections.sp T "output_times1") 0 with Some f => fits_int f z | None => false end) = true ->
  Z.of_nat (length tl) = z ->
  forall d0 rest, read_times T d0 (body ++ rest)%list =
    Ok (set_otimes d0 (Some (canon_times T (match otimes d0 with Some (x, _) => x | None => [] end) (dt, tl))), rest).
Proof. exact times_roundtrip. Qed.
Print Assumptions times_read_write.
Theorem momop_read_write : forall T d body, momop_table_ok T = true -> write_momop T d = Ok (kw "MOMOP" :: body) ->
  forallb digit_z (momop d) = true -> length (momop d) = 21%nat ->
  forall d0 rest, read_momop T d0 (body ++ rest)%list = Ok (set_momop d0 (momop d), rest).
Proof. exact momop_roundtrip. Qed.
Print Assumptions momop_read_write.
Theorem rpcap_read_write : forall T d body, write_rpcap T d = Ok (kw "RPCAP" :: body) ->
  forall d0 rest, read_rpcap T d0 (body ++ rest)%list =
    Ok (set_capil (set_relperm d0 (canon_tp T "relative_permeability" (relperm d))) (canon_tp T "capillarity" (capil d)), rest).
Proof. exact rpcap_roundtrip. Qed.
Print Assumptions rpcap_read_write.
Theorem lineq_read_write : forall T d body, write_lineq T d = Ok (kw "LINEQ" :: body) ->
  forall d0 rest, read_lineq T d0 (body ++ rest)%list = Ok (set_lineq d0 (canon_dict T "lineq" (lineq d0) (lineq d)), rest).
Proof. exact lineq_roundtrip. Qed.
Print Assumptions lineq_read_write.
Theorem solvr_read_write : forall T d body, write_solver T d = Ok (kw "SOLVR" :: body) ->
  forall d0 rest, read_solver T d0 (body ++ rest)%list = Ok (set_solver d0 (canon_dict T "solver" (solver d0) (solver d)), rest).
Proof. exact solver_roundtrip. Qed.
Print Assumptions solvr_read_write.
Theorem multi_read_write : forall T d body, write_multi T d = Ok (kw "MULTI" :: body) ->
  forall d0 rest, autough2 d0 = autough2 d ->
  read_multi T d0 (body ++ rest)%list =
    (do m <- strip_eos (canon_dict T (multi_spec d) (multi d0) (multi d)); Ok (set_multi d0 m, rest)).
Proof. exact multi_roundtrip. Qed.
Print Assumptions multi_read_write.

Theorem selec_read_write : forall T d x body, selec_table_ok T = true -> selection d = Some x ->
  write_selection T d = Ok (kw "SELEC" :: body) -> wf_selection T x = true ->
  forall d0 rest, read_selection T d0 (body ++ rest)%list = Ok (set_selection d0 (Some (canon_selection T x)), rest).
Proof. exact selection_roundtrip. Qed.
Print Assumptions selec_read_write.
Theorem diffu_read_write : forall T d body, write_diffusion T d = Ok (kw "DIFFU" :: body) ->
  forall d0 rest np, dget (multi d0) "num_components" = Some (XInt (Z.of_nat (length (diffusion d)))) ->
  dget (multi d0) "num_phases" = Some (XInt np) -> diffusion d0 = [] ->
  read_diffusion T d0 (body ++ rest)%list = Ok (set_diffusion d0 (canon_diffusion T np (diffusion d)), rest).
Proof. exact diffusion_roundtrip. Qed.
Print Assumptions diffu_read_write.
Theorem foft_read_write : forall d body, write_hist_block d = Ok (kw "FOFT" :: body) ->
  forall d0 rest, forallb hname_ok (hist_block d) = true -> forallb (keep_block d0) (hist_block d) = true ->
  read_hist_block d0 (body ++ rest)%list = Ok (set_hist_block d0 (hist_block d), rest).
Proof. exact foft_roundtrip. Qed.
Print Assumptions foft_read_write.
Theorem coft_read_write : forall d body, write_hist_conn d = Ok (kw "COFT" :: body) ->
  forall d0 rest, forallb hpair_ok (hist_conn d) = true -> forallb (keep_conn d0) (hist_conn d) = true ->
  read_hist_conn d0 (body ++ rest)%list = Ok (set_hist_conn d0 (hist_conn d), rest).
Proof. exact coft_roundtrip. Qed.
Print Assumptions coft_read_write.
Theorem goft_read_write : forall d body, write_hist_gen d = Ok (kw "GOFT" :: body) ->
  forall d0 rest, forallb hname_ok (hist_gen d) = true -> forallb (keep_block d0) (hist_gen d) = true ->
  read_hist_gen d0 (body ++ rest)%list = Ok (set_hist_gen d0 (hist_gen d), rest).
Proof. exact goft_roundtrip. Qed.
Print Assumptions goft_read_write.
Theorem indom_read_write : forall T d body, write_indom T d = Ok (kw "INDOM" :: body) -> forallb wf_indom1 (indom d) = true ->
  forall d0 rest, indom d0 = [] -> read_indom T d0 (body ++ rest)%list = Ok (set_indom d0 (canon_indom T (indom d)), rest).
Proof. exact indom_roundtrip. Qed.
Print Assumptions indom_read_write.

Theorem short_read_write : forall T d s lines, short_table_ok T = true -> short d = Some s -> write_short d = Ok lines ->
  forall d0, short d0 = None -> wf_short d0 s = true ->
  exists f body, lines = header_of f :: body /\
    forall line rest, line = header_of f \/ line = padstring (header_of f) ->
    read_short T d0 line (body ++ rest)%list = Ok (set_short d0 (Some (canon_short s)), rest).
Proof. exact short_roundtrip. Qed.
Print Assumptions short_read_write.
Theorem meshmaker_rz2d_read_write : forall T subs, rz_table_ok T = true -> wf_rz T subs = true ->
  forall lss, mapM (write_rz2d_sub T) subs = Ok lss ->
  forall fuel acc rest, (length subs <= fuel)%nat ->
  read_rz2d T fuel acc (concat lss ++ rest)%list = Ok ((rev acc ++ canon_rz T subs)%list, rest).
Proof. exact rz2d_roundtrip. Qed.
Print Assumptions meshmaker_rz2d_read_write.
Theorem meshmaker_xyz_read_write : forall T subs, xyz_table_ok T = true -> forallb (wf_xyz_sub T) subs = true ->
  forall lss, mapM (write_xyz_sub T) subs = Ok lss ->
  forall fuel acc rest, (length subs < fuel)%nat ->
  read_xyz T fuel acc (concat lss ++ [nl] :: rest)%list = Ok ((rev acc ++ map (canon_xyz_sub T) subs)%list, rest).
Proof. exact xyz_subs_roundtrip. Qed.
Print Assumptions meshmaker_xyz_read_write.
Theorem meshmaker_read_write : forall T d body, meshm_table_ok T = true -> write_meshmaker T d = Ok (kw "MESHMAKER" :: body) ->
  forallb (wf_mm T) (meshmaker d) = true ->
  forall d0 rest, meshmaker d0 = [] ->
  read_meshmaker T d0 (body ++ rest)%list = Ok (set_meshmaker d0 (map (canon_mm T) (meshmaker d)), rest).
Proof. exact meshmaker_roundtrip. Qed.
Print Assumptions meshmaker_read_write.
