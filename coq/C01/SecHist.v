(** C01 -- FOFT, COFT, GOFT (history requests) and INDOM: names written through
    unfix_blockname, read through fix_blockname; kept when the grid is empty or has them. *)
From Coq Require Import Ascii String List Bool Arith ZArith NArith Lia.
From PTBase Require Import Exn PyStr PyNum PyVal Fmt FixedFormat.
From Gen Require Import GenSections.
From P Require Import Comb Obj Fields Sections SectionsB Rec SecRocks SecMesh SecGener SecMisc.
Import ListNotations.
Open Scope string_scope.

(** a block name as a history line shows it: five characters, not blank, surviving unfix / fix *)
Definition hname_ok (n : str) : bool :=
  (length (unfix_blockname n) =? 5)%nat && negb (blank (unfix_blockname n)) && name_ok n.
Lemma slice_head5 (a b : str) : length a = 5%nat -> slice 0 5 (a ++ b)%list = a.
Proof. intro L. unfold slice. cbn [skipn]. rewrite <- L at 1. rewrite Nat.sub_0_r, firstn_app, firstn_all, Nat.sub_diag. cbn [firstn]. apply app_nil_r. Qed.
Lemma slice_second5 (a b c : str) : length a = 5%nat -> length b = 5%nat -> slice 5 10 (a ++ b ++ c)%list = b.
Proof.
  intros La Lb. replace 5%nat with (length a + 0)%nat at 1 by lia. replace 10%nat with (length a + 5)%nat by lia.
  rewrite slice_app_skip. apply slice_head5. exact Lb.
Qed.
Lemma fold_cons_rev {X} (l : list X) : forall acc, fold_left (fun a x => x :: a) l acc = (rev l ++ acc)%list.
Proof. induction l as [|x l IH]; intro acc; [reflexivity|]. cbn [fold_left rev]. rewrite IH, <- app_assoc. reflexivity. Qed.

Section Names.
Variable keep : str -> bool.
Theorem name_roundtrip n : hname_ok n = true -> keep n = true ->
  enc_ok (list str) (fun l => l) blank (read_name1 keep) str (fun a x => x :: a) (fun _ => True) n [name_line n].
Proof.
  intros H K. unfold hname_ok in H. apply andb_prop in H as [H H3]. apply andb_prop in H as [H1 H2].
  apply Nat.eqb_eq in H1. apply negb_true_iff in H2. unfold name_line. split.
  - rewrite blank_app, H2. reflexivity.
  - intros acc rest _. split; [|exact I]. unfold read_name1. rewrite slice_head5 by exact H1.
    rewrite (name_ok_fix _ H3). cbn [bind app]. rewrite K. reflexivity.
Qed.
Theorem names_roundtrip l rest : forallb hname_ok l = true -> forallb keep l = true ->
  loop (list str) (fun x => x) blank (read_name1 keep) (S (length (map name_line l ++ [nl] :: rest)%list)) [] (map name_line l ++ [nl] :: rest)%list
  = Ok (rev l, rest).
Proof.
  intros H K.
  assert (F : Forall2 (enc_ok (list str) (fun x => x) blank (read_name1 keep) str (fun a x => x :: a) (fun _ => True)) l (map (fun n => [name_line n]) l)).
  { clear rest. induction l as [|n l IH]; [constructor|]. cbn [forallb] in H, K. apply andb_prop in H as [H1 H2]. apply andb_prop in K as [K1 K2].
    cbn [map]. constructor; [apply name_roundtrip; assumption|apply IH; assumption]. }
  assert (C : concat (map (fun n => [name_line n]) l) = map name_line l).
  { clear. induction l as [|n l IH]; [reflexivity|]. cbn [map concat app]. f_equal. exact IH. }
  pose proof (list_section (fun x => x) blank (read_name1 keep) (fun a x => x :: a) l _ [nl] rest [] F eq_refl) as L.
  rewrite C in L. etransitivity; [exact L|]. rewrite fold_cons_rev, app_nil_r. reflexivity.
Qed.
End Names.

Section Pairs.
Variable keep : str * str -> bool.
Definition hpair_ok (p : str * str) : bool := hname_ok (fst p) && hname_ok (snd p).
Theorem pair_roundtrip p : hpair_ok p = true -> keep p = true ->
  enc_ok (list (str * str)) (fun l => l) blank (read_pair1 keep) (str * str) (fun a x => x :: a) (fun _ => True) p [pair_line p].
Proof.
  intros H K. destruct p as [a b]. unfold hpair_ok in H. cbn [fst snd] in H. apply andb_prop in H as [Ha Hb].
  unfold hname_ok in Ha, Hb. apply andb_prop in Ha as [Ha A3]. apply andb_prop in Ha as [A1 A2].
  apply andb_prop in Hb as [Hb B3]. apply andb_prop in Hb as [B1 B2].
  apply Nat.eqb_eq in A1. apply Nat.eqb_eq in B1. apply negb_true_iff in A2. unfold pair_line. cbn [fst snd]. split.
  - rewrite blank_app, A2. reflexivity.
  - intros acc rest _. split; [|exact I]. unfold read_pair1. rewrite slice_head5 by exact A1. rewrite slice_second5 by assumption.
    rewrite (name_ok_fix _ A3), (name_ok_fix _ B3). cbn [bind app]. rewrite K. reflexivity.
Qed.
Theorem pairs_roundtrip l rest : forallb hpair_ok l = true -> forallb keep l = true ->
  loop (list (str * str)) (fun x => x) blank (read_pair1 keep) (S (length (map pair_line l ++ [nl] :: rest)%list)) [] (map pair_line l ++ [nl] :: rest)%list
  = Ok (rev l, rest).
Proof.
  intros H K.
  assert (F : Forall2 (enc_ok (list (str * str)) (fun x => x) blank (read_pair1 keep) (str * str) (fun a x => x :: a) (fun _ => True)) l (map (fun n => [pair_line n]) l)).
  { clear rest. induction l as [|n l IH]; [constructor|]. cbn [forallb] in H, K. apply andb_prop in H as [H1 H2]. apply andb_prop in K as [K1 K2].
    cbn [map]. constructor; [apply pair_roundtrip; assumption|apply IH; assumption]. }
  assert (C : concat (map (fun n => [pair_line n]) l) = map pair_line l).
  { clear. induction l as [|n l IH]; [reflexivity|]. cbn [map concat app]. f_equal. exact IH. }
  pose proof (list_section (fun x => x) blank (read_pair1 keep) (fun a x => x :: a) l _ [nl] rest [] F eq_refl) as L.
  rewrite C in L. etransitivity; [exact L|]. rewrite fold_cons_rev, app_nil_r. reflexivity.
Qed.
End Pairs.

Definition keep_block (d0 : t2d) (n : str) : bool := no_grid d0 || has_block (blocks d0) n.
Definition keep_conn (d0 : t2d) (p : str * str) : bool := no_grid d0 || has_conn (conns d0) p.

Theorem foft_roundtrip d body : write_hist_block d = Ok (kw "FOFT" :: body) ->
  forall d0 rest, forallb hname_ok (hist_block d) = true -> forallb (keep_block d0) (hist_block d) = true ->
  read_hist_block d0 (body ++ rest)%list = Ok (set_hist_block d0 (hist_block d), rest).
Proof.
  intros W d0 rest H K. unfold write_hist_block, write_names in W. destruct (hist_block d) as [|n0 ns] eqn:E; [discriminate|]. rewrite <- E in *.
  inv_ok W. unfold read_hist_block. rewrite <- app_assoc. cbn [app].
  match goal with |- bind ?X _ = _ => assert (EX : X = Ok (rev (hist_block d), rest)) by exact (names_roundtrip (keep_block d0) (hist_block d) rest H K) end.
  rewrite EX. cbn [bind fst snd]. rewrite rev_involutive. reflexivity.
Qed.
Theorem goft_roundtrip d body : write_hist_gen d = Ok (kw "GOFT" :: body) ->
  forall d0 rest, forallb hname_ok (hist_gen d) = true -> forallb (keep_block d0) (hist_gen d) = true ->
  read_hist_gen d0 (body ++ rest)%list = Ok (set_hist_gen d0 (hist_gen d), rest).
Proof.
  intros W d0 rest H K. unfold write_hist_gen, write_names in W. destruct (hist_gen d) as [|n0 ns] eqn:E; [discriminate|]. rewrite <- E in *.
  inv_ok W. unfold read_hist_gen. rewrite <- app_assoc. cbn [app].
  match goal with |- bind ?X _ = _ => assert (EX : X = Ok (rev (hist_gen d), rest)) by exact (names_roundtrip (keep_block d0) (hist_gen d) rest H K) end.
  rewrite EX. cbn [bind fst snd]. rewrite rev_involutive. reflexivity.
Qed.
Theorem coft_roundtrip d body : write_hist_conn d = Ok (kw "COFT" :: body) ->
  forall d0 rest, forallb hpair_ok (hist_conn d) = true -> forallb (keep_conn d0) (hist_conn d) = true ->
  read_hist_conn d0 (body ++ rest)%list = Ok (set_hist_conn d0 (hist_conn d), rest).
Proof.
  intros W d0 rest H K. unfold write_hist_conn in W. destruct (hist_conn d) as [|n0 ns] eqn:E; [discriminate|]. rewrite <- E in *.
  inv_ok W. unfold read_hist_conn. rewrite <- app_assoc. cbn [app].
  match goal with |- bind ?X _ = _ => assert (EX : X = Ok (rev (hist_conn d), rest)) by exact (pairs_roundtrip (keep_conn d0) (hist_conn d) rest H K) end.
  rewrite EX. cbn [bind fst snd]. rewrite rev_involutive. reflexivity.
Qed.

(** ** INDOM *)
Section WithTable.
Variable T : table.
Notation sp := (sp T).
Definition canon_indom1 (ri : str * list value) : str * list value := (fst ri, trim_nones (cvals (sp "indom2") (snd ri))).
Definition wf_indom1 (ri : str * list value) : bool := (length (fst ri) =? 5)%nat && negb (blank (fst ri)).
Definition indom_step (acc : list (str * list value)) (ri : str * list value) := add_named same_key acc (canon_indom1 ri).
Theorem indom1_roundtrip ri l : wline T "indom2" (snd ri) = Ok l -> wf_indom1 ri = true ->
  enc_ok (list (str * list value)) (fun x => x) blank (read_indom1 T) (str * list value) indom_step (fun _ => True) ri [fst ri +++ [nl]; l].
Proof.
  intros W H. unfold wf_indom1 in H. apply andb_prop in H as [H1 H2]. apply Nat.eqb_eq in H1. apply negb_true_iff in H2. split.
  - rewrite blank_app, H2. reflexivity.
  - intros acc rest _. split; [|exact I]. unfold read_indom1. cbn [app readline]. rewrite (wp T _ _ _ W), slice_head5 by exact H1. reflexivity.
Qed.
Definition canon_indom (l : list (str * list value)) : list (str * list value) := rev (fold_left indom_step l []).
Theorem indom_roundtrip d body : write_indom T d = Ok (kw "INDOM" :: body) -> forallb wf_indom1 (indom d) = true ->
  forall d0 rest, indom d0 = [] -> read_indom T d0 (body ++ rest)%list = Ok (set_indom d0 (canon_indom (indom d)), rest).
Proof.
  intros W WF d0 rest E0. unfold write_indom in W. destruct (indom d) as [|i0 is_] eqn:E; [discriminate|]. rewrite <- E in *.
  match type of W with bind ?X _ = _ => destruct X as [recs|] eqn:WL end; cbn [bind] in W; [|discriminate]. inv_ok W.
  assert (F : Forall2 (enc_ok (list (str * list value)) (fun x => x) blank (read_indom1 T) (str * list value) indom_step (fun _ => True)) (indom d) recs).
  { apply (write_list_Forall2 _ _ _ _ WL). intros x ls Ix Wx.
    destruct (wline T "indom2" (snd x)) as [l|] eqn:L; cbn [bind] in Wx; [|discriminate]. inv_ok Wx.
    apply indom1_roundtrip; [exact L|]. rewrite forallb_forall in WF. apply WF. exact Ix. }
  unfold read_indom. rewrite E0. cbn [rev]. rewrite <- app_assoc. cbn [app].
  rewrite (list_section (fun x => x) blank (read_indom1 T) indom_step (indom d) recs [nl] rest [] F eq_refl). reflexivity.
Qed.
End WithTable.
