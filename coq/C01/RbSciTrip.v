(* copied from coq/C13/SciTrip.v (b-C13) for the real-field stability proof of C01 *)
(** C13 -- the trip text -> nearest double -> text of a ['%w.pe'] field, in exact rationals.
    Adapted from coq/C03/{Rounding,Flt,SciIdem}.v (b-C03: [sci_unique], [sci_spec], [round53_rel],
    [sci_trip]); here stated without C03's [dy] record and with the conclusion for every
    fraction of the same value (the re-read double is stored in normal form).
    For a decimal of p+1 <= 15 digits and decimal exponent in [-307, 307]: the double nearest
    to it prints, with p decimals, the same p+1 digits and the same exponent. *)
From Coq Require Import List Bool Arith ZArith NArith Lia QArith Qabs Lqa Qpower.
From PTBase Require Import Fmt.
From P Require Import RbDigits.
Import ListNotations.
Open Scope Z_scope.

(** * round-half-even of a quotient, in Z *)
Lemma rhe_bounds n d : 0 <= n -> 0 < d -> 2 * n - d <= 2 * (rhe n d * d) <= 2 * n + d.
Proof.
  intros Hn Hd. unfold rhe. pose proof (Z.div_mod n d ltac:(lia)) as E. pose proof (Z.mod_pos_bound n d Hd) as B.
  set (q := n / d) in *. set (r := n mod d) in *.
  assert (M : forall k, (q + k) * d = d * q + k * d) by (intro k; ring).
  destruct (Z.compare_spec (2 * r) d) as [C|C|C].
  - destruct (Z.even q).
    + replace (q * d) with (d * q) by ring. lia.
    + rewrite M. lia.
  - replace (q * d) with (d * q) by ring. lia.
  - rewrite M. lia.
Qed.
(** the integer strictly within 1/2 of n/d is what [rhe] returns *)
Lemma rhe_unique n d N : 0 <= n -> 0 < d -> 2 * n - d < 2 * (N * d) < 2 * n + d -> rhe n d = N.
Proof.
  intros Hn Hd H. pose proof (rhe_bounds n d Hn Hd) as B.
  assert (A : -(2 * d) < 2 * ((rhe n d - N) * d) < 2 * d) by (rewrite Z.mul_sub_distr_r; lia).
  assert (rhe n d - N = 0); [|lia]. nia.
Qed.
Lemma rhe_nonneg n d : (0 <= n)%Z -> (0 < d)%Z -> (0 <= rhe n d)%Z.
Proof.
  intros Hn Hd. unfold rhe. pose proof (Z.div_pos n d Hn Hd).
  destruct (Z.compare (2 * (n mod d)) d); [destruct (Z.even (n / d))| |]; lia.
Qed.
Lemma num_den_pos m e : (0 <= m)%Z -> (0 <= fst (num_den m e) /\ 0 < snd (num_den m e))%Z.
Proof.
  intro H. unfold num_den. destruct (0 <=? e)%Z eqn:E; cbn [fst snd].
  - split; [|lia]. apply Z.leb_le in E. apply Z.mul_nonneg_nonneg; [exact H|]. apply Z.pow_nonneg. lia.
  - split; [exact H|]. apply Z.pow_pos_nonneg; lia.
Qed.
Lemma num_den_pos_strict m e : (0 < m)%Z -> (0 < fst (num_den m e))%Z.
Proof.
  intro H. unfold num_den. destruct (0 <=? e)%Z eqn:E; cbn [fst snd]; [|exact H].
  apply Z.leb_le in E. apply Z.mul_pos_pos; [exact H|apply Z.pow_pos_nonneg; lia].
Qed.

(** floor(log2 (num/den)), num, den > 0 *)
Definition ilog2 (num den : Z) : Z :=
  let k0 := Z.log2 num - Z.log2 den in
  let ge k := if 0 <=? k then den * 2 ^ k <=? num else den <=? num * 2 ^ (- k) in
  if ge k0 then k0 else k0 - 1.
(** nearest double (ties to even) of num/den > 0, as mantissa and exponent *)
Definition round53 (num den : Z) : Z * Z :=
  let k := Z.max (ilog2 num den - 52) (-1074) in
  let m := if 0 <=? k then rhe num (den * 2 ^ k) else rhe (num * 2 ^ (- k)) den in
  (m, k).

(** * exact rationals *)
Open Scope Q_scope.
Definition qv (n d : Z) : Q := inject_Z n / inject_Z d.
Lemma inject_pos d : (0 < d)%Z -> 0 < inject_Z d.
Proof. intro H. change 0 with (inject_Z 0). rewrite <- Zlt_Qlt. exact H. Qed.
Lemma qv_nonneg n d : (0 <= n)%Z -> (0 < d)%Z -> 0 <= qv n d.
Proof.
  intros Hn Hd. unfold qv. apply Qle_shift_div_l; [apply inject_pos; exact Hd|]. rewrite Qmult_0_l.
  change 0 with (inject_Z 0). rewrite <- Zle_Qle. exact Hn.
Qed.
(** [x <= y * d] from [x / d <= y] and back, for the positive denominator of a [qv] *)
Lemma qv_le_r n d y : (0 < d)%Z -> inject_Z n <= y * inject_Z d -> qv n d <= y.
Proof. intros Hd H. unfold qv. apply Qle_shift_div_r; [apply inject_pos; exact Hd|exact H]. Qed.
Lemma qv_le_l n d y : (0 < d)%Z -> y * inject_Z d <= inject_Z n -> y <= qv n d.
Proof. intros Hd H. unfold qv. apply Qle_shift_div_l; [apply inject_pos; exact Hd|exact H]. Qed.
Lemma qv_mul_den n d : (0 < d)%Z -> qv n d * inject_Z d == inject_Z n.
Proof. intro Hd. unfold qv. pose proof (inject_pos d Hd). field. lra. Qed.

Ltac qpush H := repeat (rewrite inject_Z_plus in H || rewrite inject_Z_mult in H || rewrite inject_Z_opp in H).
Lemma rhe_Q n d : (0 <= n)%Z -> (0 < d)%Z -> qv n d - (1#2) <= inject_Z (rhe n d) <= qv n d + (1#2).
Proof.
  intros Hn Hd. destruct (rhe_bounds n d Hn Hd) as [A B]. pose proof (inject_pos d Hd) as P.
  rewrite Zle_Qle in A. rewrite Zle_Qle in B.
  unfold Zminus in A. qpush A. qpush B.
  change (inject_Z 2) with 2 in *.
  split.
  - assert (qv n d <= inject_Z (rhe n d) + (1#2)); [|lra]. apply qv_le_r; [exact Hd|]. lra.
  - assert (inject_Z (rhe n d) - (1#2) <= qv n d); [|lra]. apply qv_le_l; [exact Hd|]. lra.
Qed.

Definition Vnd (md : Z * Z) : Q := qv (fst md) (snd md).

Open Scope Q_scope.
Lemma qv_ge1 n d : (0 < d)%Z -> (1 <= qv n d <-> (d <= n)%Z).
Proof.
  intro Hd. pose proof (inject_pos d Hd) as P. pose proof (qv_mul_den n d Hd) as E. rewrite Zle_Qle. split; intro H.
  - rewrite <- E. set (q := qv n d) in *. nra.
  - apply qv_le_l; [exact Hd|]. lra.
Qed.

Section Base.
  Variable b : Z.
  Hypothesis Hb : (1 < b)%Z.
  Definition Bq : Q := inject_Z b.
  Lemma Bq_gt1 : 1 < Bq.
  Proof. unfold Bq. change 1 with (inject_Z 1). rewrite <- Zlt_Qlt. exact Hb. Qed.
  Lemma Bq_pos k : 0 < Bq ^ k.
  Proof. apply Qpower_0_lt. pose proof Bq_gt1. lra. Qed.
  Lemma Bq_nz : ~ Bq == 0.
  Proof. pose proof Bq_gt1. intro E. rewrite E in H. lra. Qed.
  Lemma Bq_inj k : (0 <= k)%Z -> inject_Z (b ^ k) == Bq ^ k.
  Proof. intro H. apply Zpower_Qpower. exact H. Qed.
  Lemma Bq_neg k : Bq ^ (- k) * Bq ^ k == 1.
  Proof. rewrite <- Qpower_plus by exact Bq_nz. replace (- k + k)%Z with 0%Z by lia. reflexivity. Qed.
  Lemma Bq_add j k : Bq ^ j * Bq ^ k == Bq ^ (j + k).
  Proof. symmetry. apply Qpower_plus. exact Bq_nz. Qed.
  Lemma mul_pow_cancel v k : v * Bq ^ (- k) * Bq ^ k == v.
  Proof. rewrite <- Qmult_assoc, Bq_neg. ring. Qed.
  (** the bracket [b^k <= v < b^(k+1)] determines k *)
  Lemma bracket_unique v j k : Bq ^ j <= v < Bq ^ (j + 1) -> Bq ^ k <= v < Bq ^ (k + 1) -> j = k.
  Proof.
    intros [A1 A2] [B1 B2].
    assert (X : (j < k + 1)%Z) by (apply (Qpower_lt_compat_l_inv Bq); [lra|exact Bq_gt1]).
    assert (Y : (k < j + 1)%Z) by (apply (Qpower_lt_compat_l_inv Bq); [lra|exact Bq_gt1]).
    lia.
  Qed.

  Definition scaled (num den s : Z) : Z * Z :=
    if (0 <=? s)%Z then ((num * b ^ s)%Z, den) else (num, (den * b ^ (- s))%Z).
  Lemma scaled_spec num den s : (0 < den)%Z ->
    (0 < snd (scaled num den s))%Z /\ qv (fst (scaled num den s)) (snd (scaled num den s)) == qv num den * Bq ^ s.
  Proof.
    intro Hd. unfold scaled. pose proof (inject_pos den Hd) as PD. destruct (0 <=? s)%Z eqn:E; cbn [fst snd].
    - apply Z.leb_le in E. split; [exact Hd|]. unfold qv. rewrite inject_Z_mult, (Bq_inj s E). field. lra.
    - apply Z.leb_gt in E. assert (P : (0 < b ^ (- s))%Z) by (apply Z.pow_pos_nonneg; lia).
      split; [lia|]. unfold qv. rewrite inject_Z_mult, (Bq_inj (- s)) by lia.
      pose proof (Bq_pos (- s)) as PP.
      assert (X : Bq ^ s == / Bq ^ (- s)) by (rewrite <- (Z.opp_involutive s) at 1; apply Qpower_opp). rewrite X. field. split; lra.
  Qed.
  Lemma scaled_nonneg num den s : (0 <= num)%Z -> (0 <= fst (scaled num den s))%Z.
  Proof. intro H. unfold scaled. destruct (0 <=? s)%Z eqn:E; cbn [fst]; [|exact H]. apply Z.leb_le in E. apply Z.mul_nonneg_nonneg; [exact H|apply Z.pow_nonneg; lia]. Qed.

  (** the test of [ilog10] / [ilog2] *)
  Definition ge_test (num den k : Z) : bool :=
    if (0 <=? k)%Z then (den * b ^ k <=? num)%Z else (den <=? num * b ^ (- k))%Z.
  Lemma ge_spec num den k : (0 < den)%Z -> (ge_test num den k = true <-> Bq ^ k <= qv num den).
  Proof.
    intro Hd. unfold ge_test. destruct (scaled_spec num den (- k) Hd) as [SD SV]. unfold scaled in *.
    pose proof (Bq_pos k) as PK. pose proof (mul_pow_cancel (qv num den) k) as MC.
    destruct (0 <=? k)%Z eqn:E.
    - apply Z.leb_le in E. destruct (Z.eq_dec k 0) as [K0|K0].
      + subst k. cbn [Z.opp Z.leb] in *. cbn [fst snd] in *. rewrite Z.leb_le, Z.pow_0_r, Z.mul_1_r. rewrite <- (qv_ge1 num den Hd). cbn. reflexivity.
      + replace (0 <=? - k)%Z with false in * by (symmetry; apply Z.leb_gt; lia). cbn [fst snd] in *. rewrite Z.opp_involutive in *.
        rewrite Z.leb_le. rewrite <- (qv_ge1 num (den * b ^ k) SD), SV.
        set (v := qv num den) in *. set (a := Bq ^ k) in *. set (c := Bq ^ (- k)) in *. split; intro H; nra.
    - apply Z.leb_gt in E. replace (0 <=? - k)%Z with true in * by (symmetry; apply Z.leb_le; lia). cbn [fst snd] in *.
      rewrite Z.leb_le. rewrite <- (qv_ge1 (num * b ^ (- k)) den SD), SV.
      set (v := qv num den) in *. set (a := Bq ^ k) in *. set (c := Bq ^ (- k)) in *. split; intro H; nra.
  Qed.

  (** floor of the base-b logarithm from digit counts *)
  Variable dig : Z -> Z.
  Hypothesis dig_bounds : forall n, (0 < n)%Z -> (b ^ (dig n - 1) <= n < b ^ dig n)%Z /\ (1 <= dig n)%Z.
  Definition ilogb (num den : Z) : Z :=
    let k0 := (dig num - dig den)%Z in if ge_test num den k0 then k0 else (k0 - 1)%Z.
  Lemma ilogb_spec num den : (0 < num)%Z -> (0 < den)%Z ->
    Bq ^ (ilogb num den) <= qv num den < Bq ^ (ilogb num den + 1).
  Proof.
    intros Hn Hd. unfold ilogb. cbv zeta.
    destruct (dig_bounds num Hn) as [[NL NU] N1]. destruct (dig_bounds den Hd) as [[DL DU] D1].
    set (nn := dig num) in *. set (nd := dig den) in *. set (k0 := (nn - nd)%Z).
    pose proof (inject_pos den Hd) as PD. pose proof (qv_mul_den num den Hd) as EV. set (v := qv num den) in *.
    rewrite Zle_Qle in NL, DL. rewrite Zlt_Qlt in NU, DU. rewrite Bq_inj in NL, DL, NU, DU by lia.
    assert (UP : v < Bq ^ (k0 + 1)).
    { assert (E : Bq ^ (k0 + 1) * Bq ^ (nd - 1) == Bq ^ nn) by (rewrite Bq_add; unfold k0; replace (nn - nd + 1 + (nd - 1))%Z with nn by lia; reflexivity).
      pose proof (Bq_pos (k0 + 1)). pose proof (Bq_pos (nd - 1)).
      set (a := Bq ^ (k0 + 1)) in *. set (c := Bq ^ (nd - 1)) in *. set (e := Bq ^ nn) in *. set (D := inject_Z den) in *. set (N := inject_Z num) in *.
      destruct (Qlt_le_dec v a) as [L|L]; [exact L|]. exfalso. nra. }
    assert (LO : Bq ^ (k0 - 1) < v).
    { assert (E : Bq ^ (k0 - 1) * Bq ^ nd == Bq ^ (nn - 1)) by (rewrite Bq_add; unfold k0; replace (nn - nd - 1 + nd)%Z with (nn - 1)%Z by lia; reflexivity).
      pose proof (Bq_pos (k0 - 1)). pose proof (Bq_pos nd).
      set (a := Bq ^ (k0 - 1)) in *. set (c := Bq ^ nd) in *. set (e := Bq ^ (nn - 1)) in *. set (D := inject_Z den) in *. set (N := inject_Z num) in *.
      destruct (Qlt_le_dec a v) as [L|L]; [exact L|]. exfalso. nra. }
    destruct (ge_test num den k0) eqn:G.
    - apply (ge_spec num den k0 Hd) in G. split; assumption.
    - assert (NG : ~ Bq ^ k0 <= v) by (intro X; apply (ge_spec num den k0 Hd) in X; congruence).
      replace (k0 - 1 + 1)%Z with k0 by lia. split; [lra|]. destruct (Qlt_le_dec v (Bq ^ k0)); [assumption|contradiction].
  Qed.
End Base.

(** * base 10: [ilog10], [sci] *)
Notation B10 := (Bq 10).
Lemma ten_gt1 : (1 < 10)%Z. Proof. lia. Qed.
Lemma two_gt1 : (1 < 2)%Z. Proof. lia. Qed.
Lemma ndig_dig n : (0 < n)%Z -> (10 ^ (ndig n - 1) <= n < 10 ^ ndig n)%Z /\ (1 <= ndig n)%Z.
Proof. intro H. split; [apply ndig_spec; exact H|apply ndig_pos]. Qed.
Lemma ilog10_eq num den : ilog10 num den = ilogb 10 ndig num den.
Proof. reflexivity. Qed.
Lemma ilog10_spec num den : (0 < num)%Z -> (0 < den)%Z -> B10 ^ (ilog10 num den) <= qv num den < B10 ^ (ilog10 num den + 1).
Proof. intros. rewrite ilog10_eq. apply ilogb_spec; [exact ten_gt1|exact ndig_dig|assumption|assumption]. Qed.

(** the rounded mantissa of [sci], before the carry test *)
Definition sciN (p num den : Z) : Z :=
  let s := (p - ilog10 num den)%Z in rhe (fst (scaled 10 num den s)) (snd (scaled 10 num den s)).
Lemma sci_unfold p num den :
  sci p num den = if (sciN p num den =? pow10 (p + 1))%Z then (pow10 p, (ilog10 num den + 1)%Z) else (sciN p num den, ilog10 num den).
Proof. unfold sci, sciN, scaled, pow10. cbv zeta. destruct (0 <=? p - ilog10 num den)%Z; reflexivity. Qed.

Lemma rhe_Q_unique n d N : (0 <= n)%Z -> (0 < d)%Z -> inject_Z N - (1#2) < qv n d < inject_Z N + (1#2) -> rhe n d = N.
Proof.
  intros Hn Hd [A B]. apply rhe_unique; [exact Hn|exact Hd|].
  pose proof (inject_pos d Hd) as P. pose proof (qv_mul_den n d Hd) as E.
  split; rewrite Zlt_Qlt; unfold Zminus; repeat (rewrite inject_Z_plus || rewrite inject_Z_mult || rewrite inject_Z_opp);
    change (inject_Z 2) with 2; rewrite <- E; set (q := qv n d) in *; set (D := inject_Z d) in *; set (M := inject_Z N) in *; nra.
Qed.

(** when does [sci] return a given (N, k)?  Either the value lies in decade k and rounds to N,
    or it lies just below decade k and rounds up to the carry 10^(p+1) (then N = 10^p) *)
Lemma sci_unique p num den N k : (0 <= p)%Z -> (0 < num)%Z -> (0 < den)%Z -> (10 ^ p <= N < 10 ^ (p + 1))%Z ->
  (B10 ^ k <= qv num den /\ inject_Z N - (1#2) < qv num den * B10 ^ (p - k) < inject_Z N + (1#2)) \/
  (qv num den < B10 ^ k /\ N = (10 ^ p)%Z /\ B10 ^ (k - 1) <= qv num den /\ inject_Z (10 ^ (p + 1)) - (1#2) < qv num den * B10 ^ (p - k + 1)) ->
  sci p num den = (N, k).
Proof.
  intros Hp Hn Hd HN C. rewrite sci_unfold. pose proof (ilog10_spec num den Hn Hd) as IL.
  set (v := qv num den) in *. set (k2 := ilog10 num den) in *.
  assert (Vp : 0 < v) by (pose proof (Bq_pos 10 ten_gt1 k2); lra).
  destruct C as [[C1 [C2 C3]]|[C1 [C2 [C3 C4]]]].
  - (* same decade *)
    assert (UP : v < B10 ^ (k + 1)).
    { destruct HN as [_ HN]. rewrite Zlt_Qlt, (Bq_inj 10) in HN by lia.
      assert (E : B10 ^ (p - k) * B10 ^ (k + 1) == B10 ^ (p + 1)) by (rewrite (Bq_add 10 ten_gt1); replace (p - k + (k + 1))%Z with (p + 1)%Z by lia; reflexivity).
      assert (I : inject_Z N + 1 <= B10 ^ (p + 1)).
      { destruct (Bq_inj 10 (p + 1) ltac:(lia)). rewrite <- (Bq_inj 10) in HN by lia. rewrite <- Zlt_Qlt in HN.
        rewrite <- (Bq_inj 10) by lia. change 1 with (inject_Z 1). rewrite <- inject_Z_plus, <- Zle_Qle. lia. }
      pose proof (Bq_pos 10 ten_gt1 (p - k)). pose proof (Bq_pos 10 ten_gt1 (k + 1)).
      set (a := B10 ^ (p - k)) in *. set (c := B10 ^ (k + 1)) in *. set (e := B10 ^ (p + 1)) in *. set (M := inject_Z N) in *.
      destruct (Qlt_le_dec v c) as [L|L]; [exact L|]. exfalso. nra. }
    assert (K : k2 = k) by (apply (bracket_unique 10 ten_gt1 v); [exact IL|split; assumption]).
    assert (SN : sciN p num den = N).
    { unfold sciN. fold k2. rewrite K. destruct (scaled_spec 10 ten_gt1 num den (p - k) Hd) as [SD SV].
      apply rhe_Q_unique; [apply (scaled_nonneg 10 ten_gt1); lia|exact SD|]. rewrite SV. fold v. split; assumption. }
    rewrite SN, K. replace (N =? pow10 (p + 1))%Z with false by (symmetry; apply Z.eqb_neq; unfold pow10; lia). reflexivity.
  - (* just below the decade: carry *)
    assert (K : k2 = (k - 1)%Z).
    { apply (bracket_unique 10 ten_gt1 v); [exact IL|]. replace (k - 1 + 1)%Z with k by lia. split; assumption. }
    assert (SN : sciN p num den = (10 ^ (p + 1))%Z).
    { unfold sciN. fold k2. rewrite K. destruct (scaled_spec 10 ten_gt1 num den (p - (k - 1)) Hd) as [SD SV].
      apply rhe_Q_unique; [apply (scaled_nonneg 10 ten_gt1); lia|exact SD|]. rewrite SV. fold v. replace (p - (k - 1))%Z with (p - k + 1)%Z by lia.
      split; [exact C4|].
      assert (E : B10 ^ (p - k + 1) * B10 ^ k == B10 ^ (p + 1)) by (rewrite (Bq_add 10 ten_gt1); replace (p - k + 1 + k)%Z with (p + 1)%Z by lia; reflexivity).
      rewrite (Bq_inj 10) by lia.
      pose proof (Bq_pos 10 ten_gt1 (p - k + 1)). pose proof (Bq_pos 10 ten_gt1 k).
      set (a := B10 ^ (p - k + 1)) in *. set (c := B10 ^ k) in *. set (e := B10 ^ (p + 1)) in *. nra. }
    rewrite SN, K. unfold pow10. rewrite Z.eqb_refl. subst N. f_equal. lia.
Qed.

(** what [sci] returns: a normalised mantissa within 1/2 of the scaled value, in its decade *)
Lemma sci_spec p num den : (0 <= p)%Z -> (0 < num)%Z -> (0 < den)%Z ->
  let N := fst (sci p num den) in let k := snd (sci p num den) in
  (10 ^ p <= N < 10 ^ (p + 1))%Z /\
  inject_Z N - (1#2) <= qv num den * B10 ^ (p - k) <= inject_Z N + (1#2).
Proof.
  intros Hp Hn Hd. rewrite sci_unfold. pose proof (ilog10_spec num den Hn Hd) as [I1 I2].
  set (v := qv num den) in *. set (k2 := ilog10 num den) in *.
  destruct (scaled_spec 10 ten_gt1 num den (p - k2) Hd) as [SD SV]. fold v in SV.
  assert (SN0 : (0 <= fst (scaled 10 num den (p - k2)))%Z) by (apply (scaled_nonneg 10 ten_gt1); lia).
  destruct (rhe_Q _ _ SN0 SD) as [R1 R2]. rewrite SV in R1, R2. change (rhe (fst (scaled 10 num den (p - k2))) (snd (scaled 10 num den (p - k2)))) with (sciN p num den) in R1, R2. set (M := sciN p num den) in *.
  (* x = v * 10^(p-k2) lies in [10^p, 10^(p+1)) *)
  assert (E1 : B10 ^ k2 * B10 ^ (p - k2) == B10 ^ p) by (rewrite (Bq_add 10 ten_gt1); replace (k2 + (p - k2))%Z with p by lia; reflexivity).
  assert (E2 : B10 ^ (k2 + 1) * B10 ^ (p - k2) == B10 ^ (p + 1)) by (rewrite (Bq_add 10 ten_gt1); replace (k2 + 1 + (p - k2))%Z with (p + 1)%Z by lia; reflexivity).
  pose proof (Bq_pos 10 ten_gt1 (p - k2)) as PS.
  assert (X1 : B10 ^ p <= v * B10 ^ (p - k2)) by (rewrite <- E1; set (a := B10 ^ (p - k2)) in *; set (c := B10 ^ k2) in *; nra).
  assert (X2 : v * B10 ^ (p - k2) < B10 ^ (p + 1)) by (rewrite <- E2; set (a := B10 ^ (p - k2)) in *; set (c := B10 ^ (k2 + 1)) in *; nra).
  pose proof (Bq_inj 10 p Hp) as EP. pose proof (Bq_inj 10 (p + 1) ltac:(lia)) as EP1. set (x := v * B10 ^ (p - k2)) in *.
  assert (ML : (10 ^ p <= M)%Z).
  { destruct (Z.le_gt_cases (10 ^ p) M) as [L|G]; [exact L|]. exfalso.
    assert (G' : inject_Z M + 1 <= inject_Z (10 ^ p)) by (change 1 with (inject_Z 1); rewrite <- inject_Z_plus, <- Zle_Qle; lia). lra. }
  assert (MU : (M <= 10 ^ (p + 1))%Z).
  { destruct (Z.le_gt_cases M (10 ^ (p + 1))) as [L|G]; [exact L|]. exfalso.
    assert (G' : inject_Z (10 ^ (p + 1)) + 1 <= inject_Z M) by (change 1 with (inject_Z 1); rewrite <- inject_Z_plus, <- Zle_Qle; lia). lra. }
  unfold pow10. destruct (M =? 10 ^ (p + 1))%Z eqn:EQ; cbn [fst snd].
  - apply Z.eqb_eq in EQ. split; [split; [lia|apply Z.pow_lt_mono_r; lia]|].
    assert (E3 : B10 ^ (p - (k2 + 1)) * 10 == B10 ^ (p - k2)).
    { change 10 with (B10 ^ 1). rewrite (Bq_add 10 ten_gt1). replace (p - (k2 + 1) + 1)%Z with (p - k2)%Z by lia. reflexivity. }
    assert (TP : inject_Z (10 ^ (p + 1)) == inject_Z (10 ^ p) * 10) by (rewrite Z.pow_add_r by lia; rewrite inject_Z_mult; reflexivity).
    rewrite EQ in R1, R2. unfold x in *.
    assert (VC : v * B10 ^ (p - k2) == v * B10 ^ (p - (k2 + 1)) * 10) by (rewrite <- E3; ring).
    set (a := B10 ^ (p - (k2 + 1))) in *. set (c := B10 ^ (p - k2)) in *.
    set (P := inject_Z (10 ^ p)) in *. set (Q1 := inject_Z (10 ^ (p + 1))) in *. split; lra.
  - apply Z.eqb_neq in EQ. split; [split; [exact ML|apply Z.le_neq; split; assumption]|]. unfold x in *. split; lra.
Qed.

(** * base 2: [ilog2], [round53] in the normal range *)
Notation B2 := (Bq 2).
Lemma log2_dig n : (0 < n)%Z -> (2 ^ (Z.log2 n + 1 - 1) <= n < 2 ^ (Z.log2 n + 1))%Z /\ (1 <= Z.log2 n + 1)%Z.
Proof.
  intro H. destruct (Z.log2_spec n H) as [A B]. replace (Z.log2 n + 1 - 1)%Z with (Z.log2 n) by lia.
  replace (Z.log2 n + 1)%Z with (Z.succ (Z.log2 n)) by lia. pose proof (Z.log2_nonneg n). repeat split; try assumption; lia.
Qed.
Lemma ilog2_eq num den : ilog2 num den = ilogb 2 (fun n => (Z.log2 n + 1)%Z) num den.
Proof. unfold ilog2, ilogb, ge_test. replace (Z.log2 num + 1 - (Z.log2 den + 1))%Z with (Z.log2 num - Z.log2 den)%Z by lia. reflexivity. Qed.
Lemma ilog2_spec num den : (0 < num)%Z -> (0 < den)%Z -> B2 ^ (ilog2 num den) <= qv num den < B2 ^ (ilog2 num den + 1).
Proof. intros. rewrite ilog2_eq. apply ilogb_spec; [exact two_gt1|exact log2_dig|assumption|assumption]. Qed.

Lemma qv_scale_num b num den k : (0 < den)%Z -> (0 <= k)%Z -> qv (num * b ^ k) den == qv num den * Bq b ^ k.
Proof. intros Hd Hk. pose proof (inject_pos den Hd). unfold qv. rewrite inject_Z_mult, (Bq_inj b k Hk). field. lra. Qed.
Lemma qv_scale_den b num den k : (1 < b)%Z -> (0 < den)%Z -> (0 <= k)%Z -> qv num (den * b ^ k) * Bq b ^ k == qv num den.
Proof.
  intros Hb Hd Hk. pose proof (inject_pos den Hd). pose proof (Bq_pos b Hb k). unfold qv. rewrite inject_Z_mult, (Bq_inj b k Hk). field. split; lra.
Qed.
Lemma num_den_Q m e : Vnd (num_den m e) * B2 ^ (- e) == inject_Z m.
Proof.
  unfold Vnd, num_den. destruct (0 <=? e)%Z eqn:E; cbn [fst snd].
  - apply Z.leb_le in E. rewrite (qv_scale_num 2) by lia. rewrite <- Qmult_assoc, (Qmult_comm (B2 ^ e)), (Bq_neg 2 two_gt1). unfold qv. field.
  - apply Z.leb_gt in E. rewrite <- (Z.mul_1_l (2 ^ (- e))). rewrite (qv_scale_den 2) by lia. unfold qv. field.
Qed.

Definition eps53 : Q := 1 # 9007199254740992.   (* 2^-53 *)
Lemma eps53_pow : B2 ^ (-53) == eps53. Proof. reflexivity. Qed.

Lemma round53_rel num den : (0 < num)%Z -> (0 < den)%Z -> B2 ^ (-1022) <= qv num den ->
  let mk := round53 num den in
  (0 <= fst mk)%Z /\ qv num den * (1 - eps53) <= Vnd (num_den (fst mk) (snd mk)) <= qv num den * (1 + eps53).
Proof.
  intros Hn Hd HV. destruct (ilog2_spec num den Hn Hd) as [I1 I2]. unfold round53. cbv zeta.
  set (il := ilog2 num den) in *. set (v := qv num den) in *.
  assert (IL : (-1022 <= il)%Z).
  { assert (X : (-1022 < il + 1)%Z) by (apply (Qpower_lt_compat_l_inv B2); [lra|exact (Bq_gt1 2 two_gt1)]). lia. }
  replace (Z.max (il - 52) (-1074)) with (il - 52)%Z by lia. set (kk := (il - 52)%Z). cbn [fst snd].
  set (m := if (0 <=? kk)%Z then rhe num (den * 2 ^ kk) else rhe (num * 2 ^ (- kk)) den).
  (* m is within 1/2 of x = v * 2^(-kk) *)
  assert (MX : (0 <= m)%Z /\ v * B2 ^ (- kk) - (1#2) <= inject_Z m <= v * B2 ^ (- kk) + (1#2)).
  { unfold m. destruct (0 <=? kk)%Z eqn:E.
    - apply Z.leb_le in E. assert (D2 : (0 < den * 2 ^ kk)%Z) by (apply Z.mul_pos_pos; [exact Hd|apply Z.pow_pos_nonneg; lia]).
      split; [apply rhe_nonneg; lia|]. destruct (rhe_Q num (den * 2 ^ kk) ltac:(lia) D2) as [A B].
      pose proof (qv_scale_den 2 num den kk two_gt1 Hd E) as Q. fold v in Q.
      assert (X : qv num (den * 2 ^ kk) == v * B2 ^ (- kk)).
      { rewrite <- Q. rewrite <- Qmult_assoc, (Qmult_comm (B2 ^ kk)), (Bq_neg 2 two_gt1). ring. }
      rewrite X in A, B. split; assumption.
    - apply Z.leb_gt in E. assert (N2 : (0 <= num * 2 ^ (- kk))%Z) by (apply Z.mul_nonneg_nonneg; [lia|apply Z.pow_nonneg; lia]).
      split; [apply rhe_nonneg; assumption|]. destruct (rhe_Q _ den N2 Hd) as [A B].
      rewrite (qv_scale_num 2) in A, B by lia. fold v in A, B. split; assumption. }
  destruct MX as [M0 [M1 M2]]. split; [exact M0|].
  pose proof (num_den_Q m kk) as NV. set (V := Vnd (num_den m kk)) in *.
  (* 2^kk = 2^il * 2^-52, and 2^-kk * 2^kk = 1 *)
  pose proof (Bq_neg 2 two_gt1 kk) as NK. pose proof (Bq_pos 2 two_gt1 kk) as PK. pose proof (Bq_pos 2 two_gt1 (- kk)) as PNK.
  assert (EK : B2 ^ kk == B2 ^ il * (2 * eps53)).
  { unfold kk. replace (il - 52)%Z with (il + (-52))%Z by lia. rewrite <- (Bq_add 2 two_gt1).
    assert (E52 : B2 ^ (-52) == 2 * eps53) by reflexivity. rewrite E52. reflexivity. }
  set (a := B2 ^ kk) in *. set (c := B2 ^ (- kk)) in *. set (t := B2 ^ il) in *. set (M := inject_Z m) in *.
  assert (VM : V == M * a).
  { assert (X : V * c * a == M * a) by (rewrite NV; reflexivity). rewrite <- X. rewrite <- Qmult_assoc, NK. ring. }
  assert (XV : v * c * a == v) by (rewrite <- Qmult_assoc, NK; ring).
  assert (E0 : 0 < eps53) by reflexivity. unfold eps53 in *.
  split; nra.
Qed.

(** * the trip of a %w.pe field: text -> nearest double -> text *)
Lemma pow_range : B2 ^ (-1022) <= B10 ^ (-307).
Proof. vm_compute. intro H. discriminate H. Qed.

(** the decimal [N * 10^e10] as a fraction *)
Definition dec_nd (N e10 : Z) : Z * Z := if (0 <=? e10)%Z then ((N * 10 ^ e10)%Z, 1%Z) else (N, (10 ^ (- e10))%Z).
Lemma dec_nd_spec N e10 : (0 < N)%Z ->
  (0 < fst (dec_nd N e10))%Z /\ (0 < snd (dec_nd N e10))%Z /\ qv (fst (dec_nd N e10)) (snd (dec_nd N e10)) == inject_Z N * B10 ^ e10.
Proof.
  intro HN. unfold dec_nd. destruct (0 <=? e10)%Z eqn:E; cbn [fst snd].
  - apply Z.leb_le in E.
    split; [apply Z.mul_pos_pos; [exact HN|apply Z.pow_pos_nonneg; lia]|]. split; [lia|].
    rewrite (qv_scale_num 10) by lia. unfold qv. field.
  - apply Z.leb_gt in E.
    split; [exact HN|]. split; [apply Z.pow_pos_nonneg; lia|].
    pose proof (qv_scale_den 10 N 1 (- e10) ten_gt1 ltac:(lia) ltac:(lia)) as Q. rewrite Z.mul_1_l in Q.
    pose proof (Bq_neg 10 ten_gt1 e10) as NK. pose proof (Bq_pos 10 ten_gt1 e10). pose proof (Bq_pos 10 ten_gt1 (- e10)).
    assert (X : qv N 1 == inject_Z N) by (unfold qv; field). rewrite X in Q.
    assert (Y : qv N (10 ^ (- e10)) * B10 ^ (- e10) * B10 ^ e10 == qv N (10 ^ (- e10))) by (rewrite <- Qmult_assoc, NK; ring).
    rewrite <- Y, Q. reflexivity.
Qed.

Section SciTrip.
  Variable p N k : Z.
  Hypothesis Hp : (0 <= p <= 14)%Z.
  Hypothesis HN : (10 ^ p <= N < 10 ^ (p + 1))%Z.
  Hypothesis Hk : (-307 <= k)%Z.
  Let nd := fst (dec_nd N (k - p)).
  Let dd := snd (dec_nd N (k - p)).
  Let m := fst (round53 nd dd).
  Let kk := snd (round53 nd dd).

  (** the double [m * 2^kk] nearest to the (p+1)-digit decimal [N * 10^(k-p)] is positive, within
      2^-53 of it, and every fraction of its value prints, with p decimals, as (N, k) again *)
  Lemma sci_trip : (0 < m)%Z /\
    Vnd (num_den m kk) <= inject_Z N * B10 ^ (k - p) * (1 + eps53) /\
    forall num' den', (0 < num')%Z -> (0 < den')%Z -> qv num' den' == Vnd (num_den m kk) -> sci p num' den' = (N, k).
  Proof.
    destruct HN as [NL NU].
    assert (N0 : (0 < N)%Z) by (assert (0 < 10 ^ p)%Z by (apply Z.pow_pos_nonneg; lia); lia).
    destruct (dec_nd_spec N (k - p) N0) as [Pn [Pd Qd]]. fold nd dd in Pn, Pd, Qd.
    (* atoms *)
    pose proof (Bq_pos 10 ten_gt1 (p - k)) as Pa. pose proof (Bq_pos 10 ten_gt1 (k - p)) as Pc. pose proof (Bq_pos 10 ten_gt1 k) as Pt.
    assert (AC : B10 ^ (p - k) * B10 ^ (k - p) == 1) by (rewrite (Bq_add 10 ten_gt1); replace (p - k + (k - p))%Z with 0%Z by lia; reflexivity).
    assert (TA : B10 ^ k * B10 ^ (p - k) == inject_Z (10 ^ p)) by (rewrite (Bq_add 10 ten_gt1), (Bq_inj 10) by lia; replace (k + (p - k))%Z with p by lia; reflexivity).
    assert (UA : B10 ^ (p - k + 1) == B10 ^ (p - k) * 10) by (rewrite <- (Bq_add 10 ten_gt1); reflexivity).
    assert (WT : B10 ^ (k - 1) * 10 == B10 ^ k) by (change 10 with (B10 ^ 1); rewrite (Bq_add 10 ten_gt1); replace (k - 1 + 1)%Z with k by lia; reflexivity).
    assert (P1 : inject_Z (10 ^ (p + 1)) == inject_Z (10 ^ p) * 10) by (rewrite Z.pow_add_r by lia; rewrite inject_Z_mult; reflexivity).
    assert (P15 : inject_Z (10 ^ (p + 1)) <= 1000000000000000).
    { change 1000000000000000 with (inject_Z (10 ^ 15)). rewrite <- Zle_Qle. apply Z.pow_le_mono_r; lia. }
    assert (PP : 1 <= inject_Z (10 ^ p)) by (change 1 with (inject_Z 1); rewrite <- Zle_Qle; assert (0 < 10 ^ p)%Z by (apply Z.pow_pos_nonneg; lia); lia).
    assert (NLz := NL). assert (NUz := NU).
    rewrite Zle_Qle in NL. rewrite Zlt_Qlt in NU.
    assert (NU' : inject_Z N + 1 <= inject_Z (10 ^ (p + 1))).
    { change 1 with (inject_Z 1). rewrite <- inject_Z_plus, <- Zle_Qle. lia. }
    (* the decimal is in the normal range *)
    assert (RANGE : B2 ^ (-1022) <= qv nd dd).
    { rewrite Qd. pose proof pow_range as PR.
      assert (M : B10 ^ (-307) <= B10 ^ k) by (apply Qpower_le_compat_l; [exact Hk|pose proof (Bq_gt1 10 ten_gt1); lra]).
      set (a := B10 ^ (p - k)) in *. set (c := B10 ^ (k - p)) in *. set (t := B10 ^ k) in *. set (M' := inject_Z N) in *. set (P := inject_Z (10 ^ p)) in *.
      assert (TC : t == P * c) by (rewrite <- TA; rewrite <- Qmult_assoc, AC; ring).
      assert (t <= M' * c) by (rewrite TC; nra). lra. }
    destruct (round53_rel nd dd Pn Pd RANGE) as [M0 [R1 R2]]. fold m kk in M0, R1, R2.
    rewrite Qd in R1, R2.
    set (V := Vnd (num_den m kk)) in *.
    assert (E0 : 0 < eps53) by reflexivity.
    assert (Vpos : 0 < V).
    { set (a := B10 ^ (p - k)) in *. set (c := B10 ^ (k - p)) in *. set (M' := inject_Z N) in *. unfold eps53 in *.
      assert (0 < M' * c) by nra. nra. }
    assert (Mpos : (0 < m)%Z).
    { destruct (Z.eq_dec m 0) as [Z0|NZ]; [|lia]. exfalso. unfold V in Vpos. rewrite Z0 in Vpos. unfold Vnd, num_den, qv in Vpos.
      destruct (0 <=? kk)%Z; cbn [fst snd] in Vpos; rewrite ?Z.mul_0_l in Vpos; unfold Qdiv in Vpos; rewrite Qmult_0_l in Vpos; lra. }
    split; [exact Mpos|]. split; [exact R2|].
    intros num' den' Hn2 Hd2 EV.
    apply sci_unique; [lia|exact Hn2|exact Hd2|split; assumption|]. rewrite EV.
    (* V * 10^(p-k) lies within N (1 +- eps) *)
    assert (VA1 : inject_Z N * (1 - eps53) <= V * B10 ^ (p - k)).
    { assert (X : inject_Z N * B10 ^ (k - p) * (1 - eps53) * B10 ^ (p - k) == inject_Z N * (1 - eps53)).
      { transitivity (inject_Z N * (1 - eps53) * (B10 ^ (p - k) * B10 ^ (k - p))); [ring|rewrite AC; ring]. }
      rewrite <- X. apply Qmult_le_compat_r; [exact R1|lra]. }
    assert (VA2 : V * B10 ^ (p - k) <= inject_Z N * (1 + eps53)).
    { assert (X : inject_Z N * B10 ^ (k - p) * (1 + eps53) * B10 ^ (p - k) == inject_Z N * (1 + eps53)).
      { transitivity (inject_Z N * (1 + eps53) * (B10 ^ (p - k) * B10 ^ (k - p))); [ring|rewrite AC; ring]. }
      rewrite <- X. apply Qmult_le_compat_r; [exact R2|lra]. }
    destruct (Qlt_le_dec V (B10 ^ k)) as [Below|Above].
    - right. split; [exact Below|].
      assert (VT : V * B10 ^ (p - k) < inject_Z (10 ^ p)).
      { rewrite <- TA. apply Qmult_lt_r; assumption. }
      assert (NE : N = (10 ^ p)%Z).
      { assert (LT : inject_Z N < inject_Z (10 ^ p) + 1).
        { set (M' := inject_Z N) in *. set (P := inject_Z (10 ^ p)) in *. set (P' := inject_Z (10 ^ (p + 1))) in *. unfold eps53 in *. nra. }
        change 1 with (inject_Z 1) in LT. rewrite <- inject_Z_plus, <- Zlt_Qlt in LT. lia. }
      split; [exact NE|]. split.
      + assert (X : B10 ^ k * (1 - eps53) <= V).
        { assert (Y : B10 ^ k == inject_Z N * B10 ^ (k - p)).
          { rewrite NE. rewrite <- TA. rewrite <- Qmult_assoc, AC. ring. }
          rewrite Y. exact R1. }
        set (t := B10 ^ k) in *. set (w := B10 ^ (k - 1)) in *. unfold eps53 in *. nra.
      + rewrite UA. rewrite NE in VA1.
        set (a := B10 ^ (p - k)) in *. set (P := inject_Z (10 ^ p)) in *. set (P' := inject_Z (10 ^ (p + 1))) in *. unfold eps53 in *.
        assert (Z1 : V * (a * 10) == V * a * 10) by ring. rewrite Z1. nra.
    - left. split; [exact Above|].
      set (M' := inject_Z N) in *. set (P' := inject_Z (10 ^ (p + 1))) in *. set (a := B10 ^ (p - k)) in *. unfold eps53 in *. split; nra.
  Qed.
End SciTrip.
