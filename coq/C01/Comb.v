(** C01 -- the codec combinators of t2data.read / t2data.write and their round-trip laws.

    A file is the list of the strings [readline()] returns (each line with its newline).
    1. fixed record:    [parse specs (write_values specs vals ++ "\n") = cvals specs vals]
                        (on top of C02's no-spill theorem [written_fields_in_place]);
    2. counted list in chunks of k per line ([chunks_roundtrip], every k > 0, every length);
    3. records until a stop line, with an accumulating reader state ([loop_roundtrip]);
    4. the keyword dispatch loop with look-ahead line lives in T2DataIO.v. *)
From Coq Require Import Ascii String List Bool Arith ZArith NArith Lia.
From PTBase Require Import Exn PyStr PyNum PyVal Fmt FixedFormat.
Import ListNotations.
Open Scope char_scope.

Definition nl : ascii := newline.
Definition file := list str.
(** [f.readline()]: the empty string at end of file *)
Definition readline (ls : file) : str * file := match ls with [] => ([], []) | l :: r => (l, r) end.
(** [not line.strip()] *)
Definition blank (s : str) : bool := forallb is_space s.
(** [mulgrids.padstring]: pads after the newline character *)
Definition padstring (s : str) : str := ljust 80 s.

(** ** CPython's strtod: correctly rounded (half-even) decimal -> binary64, exact.
    Non-finite values are outside the value universe; they are represented by the
    non-normal triples (0, 1) = nan, (0, 2) = inf so that dumps still show them. *)
Open Scope Z_scope.
Fixpoint strip2 (p : positive) (e : Z) : Z * Z :=
  match p with xO q => strip2 q (e + 1) | _ => (Zpos p, e) end.
Definition norm_dy (m e : Z) : Z * Z := match m with Zpos p => strip2 p e | _ => (0, 0) end.
Definition strtod (ng : bool) (mant : N) (e10 : Z) : value :=
  if (mant =? 0)%N then XReal ng 0 0 else
  let num := if 0 <=? e10 then Z.of_N mant * 10 ^ e10 else Z.of_N mant in
  let den := if 0 <=? e10 then 1 else 10 ^ (- e10) in
  let k := Z.log2 num - Z.log2 den in
  let e0 := k - 53 in
  let qn e := if 0 <=? e then num else num * 2 ^ (- e) in
  let qd e := if 0 <=? e then den * 2 ^ e else den in
  let e1 := if qd e0 * 2 ^ 53 <=? qn e0 then e0 + 1 else e0 in
  let e2 := Z.max e1 (-1074) in
  let m := rhe (qn e2) (qd e2) in
  if 1024 <? e2 + Z.log2 m + 1 then XReal ng 0 2
  else let '(m', e') := norm_dy m e2 in XReal ng m' e'.
Close Scope Z_scope.

Definition rv2v (r : rvalue) : value :=
  match r with
  | RStr s => XStr s | RInt z => XInt z | RNone => XNone
  | RFloat (Fin ng m e) => strtod ng m e
  | RFloat (Inf ng) => XReal ng 0 2
  | RFloat NaN => XReal false 0 1
  end.
(** what the default read function returns for the text of one field *)
Definition rd_field (f : fspec) (s : str) : value := rv2v (default_rf (ft f) s).
(** [parse_string] *)
Definition parse (specs : list fspec) (line : str) : list value :=
  map rv2v (parse_string default_rf specs line).
(** canonical (read-back) value of one written field *)
Definition cf (f : fspec) (v : value) : value :=
  match fmt_field f v with Ok s => rd_field f s | Raise _ => XNone end.
(** read-back of a record written from [vals]: fields beyond the values ([zip]
    truncation, short line) read the empty text *)
Fixpoint cvals (specs : list fspec) (vals : list value) : list value :=
  match specs, vals with
  | f :: fs, v :: vs => cf f v :: cvals fs vs
  | fs, [] => map (fun f => rd_field f []) fs
  | [], _ => []
  end.

Lemma rd_field_nl f : rd_field f [nl] = rd_field f [].
Proof. unfold rd_field, default_rf. destruct (ft f); reflexivity. Qed.

Lemma slice_tail {A} (X : list A) (c : A) a b : (length X <= a)%nat ->
  slice a b (X ++ [c]) = [] \/ slice a b (X ++ [c]) = [c].
Proof.
  intro H. unfold slice. rewrite skipn_app.
  rewrite skipn_all2 by lia. cbn [app].
  destruct (a - length X)%nat; cbn [skipn].
  - destruct (b - a)%nat as [|m]; cbn [firstn]; [left; reflexivity|right; rewrite firstn_nil; reflexivity].
  - left. destruct n; cbn [skipn]; apply firstn_nil.
Qed.

Lemma tails_read specs : forall X pos, (length X <= pos)%nat ->
  map (fun p => rd_field (fst p) (snd p))
      (combine specs (map (fun ab => slice (fst ab) (snd ab) (X ++ [nl])) (line_spec pos (map width specs))))
  = map (fun f => rd_field f []) specs.
Proof.
  induction specs as [|f fs IH]; intros X pos H; [reflexivity|].
  cbn [map line_spec combine fst snd]. f_equal.
  - destruct (slice_tail X nl pos (pos + width f) H) as [E|E]; rewrite E; [reflexivity|apply rd_field_nl].
  - apply IH. lia.
Qed.

Lemma parse_gen specs : forall vals l pre, write_fields specs vals = Ok l ->
  map (fun p => rd_field (fst p) (snd p))
      (combine specs (map (fun ab => slice (fst ab) (snd ab) (pre ++ concat l ++ [nl])) (line_spec (length pre) (map width specs))))
  = cvals specs vals.
Proof.
  induction specs as [|f fs IH]; intros vals l pre; cbn [write_fields].
  - intros _. destruct vals; reflexivity.
  - destruct vals as [|v vs].
    + intro H; inversion H; subst. cbn [concat app cvals]. apply (tails_read (f :: fs) pre (length pre)). lia.
    + destruct (fmt_field f v) as [s0|e] eqn:E; cbn [bind]; [|discriminate].
      destruct (write_fields fs vs) as [r|e] eqn:R; cbn [bind]; [|discriminate].
      intro H; inversion H; subst. cbn [map line_spec combine fst snd cvals concat]. f_equal.
      * unfold cf. rewrite E. f_equal.
        pose proof (fmt_field_width _ _ _ E) as W.
        rewrite <- W. rewrite <- (Nat.add_0_r (length pre)) at 1.
        rewrite slice_app_skip. unfold slice. cbn [skipn]. rewrite Nat.sub_0_r.
        rewrite <- app_assoc. rewrite firstn_app, firstn_all, Nat.sub_diag. cbn [firstn]. apply app_nil_r.
      * pose proof (fmt_field_width _ _ _ E) as W. specialize (IH vs r (pre ++ s0) R).
        rewrite app_length, W in IH. rewrite <- IH. repeat rewrite <- app_assoc. reflexivity.
Qed.

(** COMBINATOR 1 (fixed record): whatever the values, a record the writer returns reads
    back field by field as the read-back of each field's own text *)
Theorem record_roundtrip specs vals s :
  write_values specs vals = Ok s -> parse specs (s ++ [nl]) = cvals specs vals.
Proof.
  unfold write_values. destruct (write_fields specs vals) as [l|e] eqn:W; cbn [bind]; [|discriminate].
  intro H; inversion H; subst. unfold parse, parse_string, field_slices.
  rewrite map_map. pose proof (parse_gen specs vals l [] W) as P. cbn [app length] in P.
  rewrite <- P. apply map_ext. intros [f x]. reflexivity.
Qed.
Lemma cvals_length specs vals : length (cvals specs vals) = length specs.
Proof.
  revert vals; induction specs as [|f fs IH]; intro vals; destruct vals; cbn [cvals length map]; auto.
  rewrite map_length. reflexivity.
Qed.
Lemma parse_length specs line : length (parse specs line) = length specs.
Proof. unfold parse. rewrite map_length. apply parse_string_length. Qed.

(** ** format tables *)
Definition table := list (string * (list string * list fspec)).
Fixpoint tlookup (k : string) (t : table) : option (list string * list fspec) :=
  match t with [] => None | (k', v) :: r => if String.eqb k k' then Some v else tlookup k r end.
Definition specs_of (t : table) (k : string) : list fspec := match tlookup k t with Some (_, s) => s | None => [] end.
Definition names_of (t : table) (k : string) : list string := match tlookup k t with Some (n, _) => n | None => [] end.

(** [outfile.write_values(vals, linetype)] -> the line written (with newline) *)
Definition wline (t : table) (k : string) (vals : list value) : res str :=
  do s <- write_values (specs_of t k) vals; Ok (s ++ [nl])%list.
(** [infile.parse_string(line, linetype)] *)
Definition pline (t : table) (k : string) (line : str) : list value := parse (specs_of t k) line.
Lemma wline_pline t k vals s : wline t k vals = Ok s -> pline t k s = cvals (specs_of t k) vals.
Proof.
  unfold wline, pline. destruct (write_values (specs_of t k) vals) as [x|e] eqn:E; cbn [bind]; [|discriminate].
  intro H; inversion H; subst. apply record_roundtrip. exact E.
Qed.

(** Python dictionaries with string keys *)
Definition dict := list (string * value).
Fixpoint dget (d : dict) (k : string) : option value :=
  match d with [] => None | (k', v) :: r => if String.eqb k k' then Some v else dget r k end.
Fixpoint dset (d : dict) (k : string) (v : value) : dict :=
  match d with [] => [(k, v)] | (k', v') :: r => if String.eqb k k' then (k', v) :: r else (k', v') :: dset r k v end.
Definition dgetv (d : dict) (k : string) : value := match dget d k with Some v => v | None => XNone end.
Definition is_none (v : value) : bool := match v with XNone => true | _ => false end.
(** [write_value_line]: a missing key is written as None *)
Definition dict_vals (d : dict) (names : list string) : list value := map (dgetv d) names.
(** [read_value_line]: None results are ignored *)
Fixpoint dict_update (d : dict) (names : list string) (vals : list value) : dict :=
  match names, vals with
  | n :: ns, v :: vs => dict_update (if is_none v then d else dset d n v) ns vs
  | _, _ => d
  end.

(** ** COMBINATOR 2: a list written k values per line (last line padded with None),
    read back as "n lines, keep the non-None values" *)
Definition pad_none (k : nat) (l : list value) : list value := (l ++ repeat XNone (k - length l))%list.
Fixpoint write_chunks (specs : list fspec) (k n : nat) (l : list value) : res file :=
  match n with
  | O => Ok []
  | S n' => do s <- write_values specs (pad_none k (firstn k l));
            do r <- write_chunks specs k n' (skipn k l);
            Ok ((s ++ [nl])%list :: r)
  end.
Definition somes (l : list value) : list value := filter (fun v => negb (is_none v)) l.
Fixpoint read_chunks (specs : list fspec) (n : nat) (ls : file) : list value * file :=
  match n with
  | O => ([], ls)
  | S n' => let (l, r) := readline ls in
            let (vs, r') := read_chunks specs n' r in
            ((somes (parse specs l) ++ vs)%list, r')
  end.
(** all values of the lines, Nones included ([layer += infile.read_values(...)]) *)
Fixpoint read_chunks_all (specs : list fspec) (n : nat) (ls : file) : list value * file :=
  match n with
  | O => ([], ls)
  | S n' => let (l, r) := readline ls in
            let (vs, r') := read_chunks_all specs n' r in
            ((parse specs l ++ vs)%list, r')
  end.
(** the read-back of the cells of n lines of k *)
Fixpoint chunk_cells (specs : list fspec) (k n : nat) (l : list value) : list value :=
  match n with
  | O => []
  | S n' => (cvals specs (pad_none k (firstn k l)) ++ chunk_cells specs k n' (skipn k l))%list
  end.

Lemma somes_app a b : somes (a ++ b) = (somes a ++ somes b)%list.
Proof. unfold somes. apply filter_app. Qed.

Lemma chunks_roundtrip_cells specs k : forall n l ls rest,
  write_chunks specs k n l = Ok ls ->
  read_chunks specs n (ls ++ rest) = (somes (chunk_cells specs k n l), rest) /\
  read_chunks_all specs n (ls ++ rest) = (chunk_cells specs k n l, rest).
Proof.
  induction n as [|n IH]; intros l ls rest; cbn [write_chunks read_chunks read_chunks_all chunk_cells].
  - intro H; inversion H; subst. auto.
  - destruct (write_values specs (pad_none k (firstn k l))) as [s|e] eqn:E; cbn [bind]; [|discriminate].
    destruct (write_chunks specs k n (skipn k l)) as [r|e] eqn:R; cbn [bind]; [|discriminate].
    intro H; inversion H; subst. cbn [app readline].
    destruct (IH _ _ rest R) as [I1 I2]. rewrite I1, I2.
    rewrite (record_roundtrip _ _ _ E). rewrite somes_app. auto.
Qed.

(** uniform numeric specs: k copies of one real/int field *)
Definition numeric (f : fspec) : bool := match ft f with Ts => false | _ => true end.
Lemma spaces_blank w : py_float_opt (spaces w) = None /\ py_int_opt (spaces w) = None.
Proof.
  assert (C : cstrip (spaces w) = []).
  { unfold cstrip, strip_by. rewrite (lstrip_by_all is_cspace (spaces w)); [reflexivity|].
    induction w; [reflexivity|]. cbn. exact IHw. }
  unfold py_float_opt, py_int_opt. rewrite C. split; reflexivity.
Qed.
Lemma cf_none f : numeric f = true -> cf f XNone = XNone.
Proof.
  unfold cf, numeric. cbn [fmt_field]. unfold rd_field, default_rf. destruct (spaces_blank (width f)) as [A B].
  destruct (ft f); try discriminate; intros _; rewrite ?A, ?B; reflexivity.
Qed.
Lemma rd_empty_none f : numeric f = true -> rd_field f [] = XNone.
Proof. unfold numeric, rd_field, default_rf. destruct (ft f); try discriminate; reflexivity. Qed.

Lemma cvals_uniform f : forall k vals, numeric f = true -> length vals = k ->
  cvals (repeat f k) vals = map (cf f) vals.
Proof.
  induction k as [|k IH]; intros vals N L; destruct vals as [|v vs]; try discriminate; [reflexivity|].
  cbn [repeat cvals map]. f_equal. apply IH; auto.
Qed.
Lemma somes_map_none f m : numeric f = true -> somes (map (cf f) (repeat XNone m)) = [].
Proof. intro N. induction m as [|m IH]; [reflexivity|]. cbn [repeat map]. unfold somes in *. cbn [filter]. rewrite (cf_none f N). cbn. exact IH. Qed.

Lemma chunk_cells_uniform f k : (0 < k)%nat -> numeric f = true -> forall n l,
  somes (chunk_cells (repeat f k) k n l) = somes (map (cf f) (firstn (n * k) l)).
Proof.
  intros K N. induction n as [|n IH]; intro l; [reflexivity|].
  cbn [chunk_cells]. rewrite somes_app, IH.
  rewrite cvals_uniform; auto.
  2:{ unfold pad_none. rewrite app_length, repeat_length, firstn_length. lia. }
  unfold pad_none. rewrite map_app, somes_app. rewrite (somes_map_none f _ N). rewrite app_nil_r.
  rewrite <- somes_app, <- map_app. f_equal. f_equal.
  replace (S n * k)%nat with (k + n * k)%nat by lia.
  rewrite <- (firstn_skipn k l) at 3.
  destruct (le_lt_dec k (length l)) as [H|H].
  - rewrite firstn_app. rewrite firstn_length, Nat.min_l by lia.
    replace (k + n * k - k)%nat with (n * k)%nat by lia.
    rewrite (firstn_all2 (firstn k l)); [reflexivity|]. rewrite firstn_length. lia.
  - rewrite (skipn_all2 l) by lia. rewrite firstn_nil, !app_nil_r.
    rewrite firstn_firstn. f_equal. lia.
Qed.

(** COMBINATOR 2, the law: for every k > 0, every list and every number of lines n (so on
    both sides of every 4- and 8-per-line boundary at once), reading n lines back returns
    the read-back of the first n*k values that are not blank, and leaves what follows *)
Theorem chunks_roundtrip f k n l ls rest :
  (0 < k)%nat -> numeric f = true ->
  write_chunks (repeat f k) k n l = Ok ls ->
  read_chunks (repeat f k) n (ls ++ rest) = (somes (map (cf f) (firstn (n * k) l)), rest).
Proof.
  intros K N W. destruct (chunks_roundtrip_cells _ _ _ _ _ rest W) as [A _].
  rewrite A. rewrite chunk_cells_uniform; auto.
Qed.
(** with enough lines for the whole list and no value reading back blank: the list itself *)
Corollary chunks_roundtrip_full f k n l ls rest :
  (0 < k)%nat -> numeric f = true -> (length l <= n * k)%nat ->
  forallb (fun v => negb (is_none (cf f v))) l = true ->
  write_chunks (repeat f k) k n l = Ok ls ->
  read_chunks (repeat f k) n (ls ++ rest) = (map (cf f) l, rest).
Proof.
  intros K N L A W. rewrite (chunks_roundtrip f k n l ls rest K N W).
  rewrite firstn_all2 by exact L. f_equal.
  clear - A. induction l as [|v l IH]; [reflexivity|]. cbn [forallb map] in *. apply andb_prop in A as [A1 A2].
  unfold somes in *. cbn [filter]. rewrite A1. f_equal. apply IH. exact A2.
Qed.
Lemma write_chunks_length specs k : forall n l ls, write_chunks specs k n l = Ok ls -> length ls = n.
Proof.
  induction n as [|n IH]; intros l ls; cbn [write_chunks]; [intro H; inversion H; reflexivity|].
  destruct (write_values specs (pad_none k (firstn k l))) as [s|e]; cbn [bind]; [|discriminate].
  destruct (write_chunks specs k n (skipn k l)) as [r|e] eqn:R; cbn [bind]; [|discriminate].
  intro H; inversion H; subst. cbn [length]. f_equal. eapply IH; eauto.
Qed.
(** [int(ceil(n / k.))] for an int n *)
Definition nlines_z (k : Z) (n : Z) : nat := if (n <=? 0)%Z then O else Z.to_nat ((n + k - 1) / k).
Lemma nlines_enough k n : (0 < k)%Z -> (n <= Z.of_nat (nlines_z k n) * k)%Z.
Proof.
  intro K. unfold nlines_z. destruct (n <=? 0)%Z eqn:E; [apply Z.leb_le in E; lia|].
  apply Z.leb_gt in E. rewrite Z2Nat.id by (apply Z.div_pos; lia).
  pose proof (Z.mul_succ_div_gt (n + k - 1) k K). lia.
Qed.

(** ** COMBINATOR 3: records until a stop line, reader state accumulated.
    [prep] is [padstring] or the identity; the loop runs on fuel (one unit per record). *)
Section Loop.
  Variable A : Type.
  Variable prep : str -> str.
  Variable stop : str -> bool.
  Variable body : A -> str -> file -> res (A * file).
  Fixpoint loop (fuel : nat) (a : A) (ls : file) : res (A * file) :=
    match fuel with
    | O => Raise OutOfFuel
    | S f => let (l, r) := readline ls in
             let l' := prep l in
             if stop l' then Ok (a, r)
             else match body a l' r with
                  | Ok (a', r') => loop f a' r'
                  | Raise e => Raise e
                  end
    end.

  Variable X : Type.                       (* what one record is written from *)
  Variable step : A -> X -> A.             (* the reader's effect of one record *)
  Variable Inv : A -> Prop.
  (** [enc_ok x ls]: ls is the (non-empty) list of lines of record x, its first line does
      not stop the loop and the body reads exactly these lines *)
  Definition enc_ok (x : X) (ls : file) : Prop :=
    match ls with
    | [] => False
    | l0 :: more => stop (prep l0) = false /\
        forall a rest, Inv a -> body a (prep l0) (more ++ rest) = Ok (step a x, rest) /\ Inv (step a x)
    end.
  Theorem loop_roundtrip : forall xs encs term rest a fuel,
    Forall2 enc_ok xs encs -> stop (prep term) = true -> Inv a -> (length xs < fuel)%nat ->
    loop fuel a (concat encs ++ term :: rest) = Ok (fold_left step xs a, rest) /\ Inv (fold_left step xs a).
  Proof.
    induction xs as [|x xs IH]; intros encs term rest a fuel F T I L; inversion F; subst.
    - destruct fuel; [cbn in L; lia|]. cbn [concat app loop readline fold_left]. rewrite T. auto.
    - destruct fuel; [cbn in L; lia|]. cbn [concat fold_left].
      destruct y as [|l0 more]; [contradiction|]. destruct H1 as [NS B].
      cbn [app loop readline]. rewrite NS. rewrite <- app_assoc.
      destruct (B a (concat l' ++ term :: rest) I) as [B1 B2]. rewrite B1.
      apply IH; auto. cbn [length] in L. lia.
  Qed.
  (** end of file also ends the loop when the empty line stops it *)
  Theorem loop_roundtrip_eof : forall xs encs a fuel,
    Forall2 enc_ok xs encs -> stop (prep []) = true -> Inv a -> (length xs < fuel)%nat ->
    loop fuel a (concat encs) = Ok (fold_left step xs a, []) /\ Inv (fold_left step xs a).
  Proof.
    induction xs as [|x xs IH]; intros encs a fuel F T I L; inversion F; subst.
    - destruct fuel; [cbn in L; lia|]. cbn [concat loop readline fold_left]. rewrite T. auto.
    - destruct fuel; [cbn in L; lia|]. cbn [concat fold_left].
      destruct y as [|l0 more]; [contradiction|]. destruct H1 as [NS B].
      cbn [app loop readline]. rewrite NS.
      destruct (B a (concat l') I) as [B1 B2]. rewrite B1.
      apply IH; auto. cbn [length] in L. lia.
  Qed.
End Loop.

(** writer of a record list: the lines of every record, in order *)
Fixpoint write_list {X} (wr : X -> res file) (xs : list X) : res (list file) :=
  match xs with
  | [] => Ok []
  | x :: r => do a <- wr x; do b <- write_list wr r; Ok (a :: b)
  end.
Lemma write_list_Forall2 {X} (wr : X -> res file) (P : X -> file -> Prop) :
  forall xs encs, write_list wr xs = Ok encs -> (forall x ls, In x xs -> wr x = Ok ls -> P x ls) -> Forall2 P xs encs.
Proof.
  induction xs as [|x r IH]; intros encs; cbn [write_list].
  - intro H; inversion H; subst. constructor.
  - destruct (wr x) as [a|e] eqn:E; cbn [bind]; [|discriminate].
    destruct (write_list wr r) as [b|e] eqn:R; cbn [bind]; [|discriminate].
    intros H HP; inversion H; subst. constructor; [apply HP; [left; reflexivity|exact E]|].
    apply IH; auto. intros. apply HP; auto. right; assumption.
Qed.
Lemma write_list_length {X} (wr : X -> res file) : forall xs encs, write_list wr xs = Ok encs -> length encs = length xs.
Proof.
  induction xs as [|x r IH]; intros encs; cbn [write_list]; [intro H; inversion H; reflexivity|].
  destruct (wr x) as [a|e]; cbn [bind]; [|discriminate].
  destruct (write_list wr r) as [b|e] eqn:R; cbn [bind]; [|discriminate].
  intro H; inversion H; subst. cbn [length]. f_equal. apply IH. reflexivity.
Qed.

(** the blank line that ends a list section, and padded lines *)
Lemma blank_nl : blank (padstring [nl]) = true.
Proof. reflexivity. Qed.
Lemma padstring_long s : (80 <= length s)%nat -> padstring s = s.
Proof. intro H. unfold padstring, ljust. replace (80 - length s)%nat with 0%nat by lia. apply app_nil_r. Qed.
