(** C01 -- INCON, RPCAP, LINEQ, SOLVR, MULTI, MOMOP, TIMES, START, NOVER, SIMUL and the title:
    each reader applied to what its writer wrote gives the content back, every field read
    back from its own text. *)
From Coq Require Import Ascii String List Bool Arith ZArith NArith Lia.
From PTBase Require Import Exn PyStr PyNum PyVal Fmt FixedFormat.
From Gen Require Import GenSections.
From P Require Import Comb Obj Fields Sections Rec SecRocks SecMesh SecGener.
Import ListNotations.
Open Scope string_scope.

(** ** dictionaries *)
Lemma dget_dset_same d k v : dget (dset d k v) k = Some v.
Proof.
  induction d as [|[k' v'] r IH]; cbn [dset dget]; [rewrite String.eqb_refl; reflexivity|].
  destruct (String.eqb k k') eqn:E; cbn [dget]; rewrite E; [reflexivity|exact IH].
Qed.
Lemma dget_dset_other d k k' v : k <> k' -> dget (dset d k' v) k = dget d k.
Proof.
  intro N. induction d as [|[k2 v2] r IH]; cbn [dset dget].
  - destruct (String.eqb k k') eqn:E; [apply String.eqb_eq in E; congruence|reflexivity].
  - destruct (String.eqb k' k2) eqn:E2; cbn [dget].
    + apply String.eqb_eq in E2. subst k2. destruct (String.eqb k k') eqn:E; [apply String.eqb_eq in E; congruence|reflexivity].
    + destruct (String.eqb k k2); [reflexivity|exact IH].
Qed.
Lemma dget_update_other ns : forall d vs k, ~ In k ns -> dget (dict_update d ns vs) k = dget d k.
Proof.
  induction ns as [|n ns IH]; intros d vs k NI; [reflexivity|]. destruct vs as [|v vs]; [reflexivity|].
  cbn [dict_update]. rewrite IH by (intro H; apply NI; right; exact H).
  destruct (is_none v); [reflexivity|]. apply dget_dset_other. intro E. apply NI. left. congruence.
Qed.

Lemma cvals_cons f fs v vs : cvals (f :: fs) (v :: vs) = cf f v :: cvals fs vs.
Proof. reflexivity. Qed.
Lemma dict_update_cons d n ns v vs : dict_update d (n :: ns) (v :: vs) = dict_update (if is_none v then d else dset d n v) ns vs.
Proof. reflexivity. Qed.

(** ** option digits ([_option_str], [_more_option_str]) *)
Definition digit_z (z : Z) : bool := (0 <=? z)%Z && (z <=? 9)%Z.
Lemma digit_z_cases z : digit_z z = true -> In z [0; 1; 2; 3; 4; 5; 6; 7; 8; 9]%Z.
Proof. unfold digit_z. intro H. apply andb_prop in H as [A B]. apply Z.leb_le in A. apply Z.leb_le in B. cbn. lia. Qed.
Definition opt_str (l : list Z) : str := concat (map z_to_str l).
Lemma opt_str_cons z l : digit_z z = true -> exists c, opt_str (z :: l) = c :: opt_str l /\ is_digit c = true /\ digit_of c = Ok z.
Proof.
  intro H. apply digit_z_cases in H. cbn in H.
  repeat (destruct H as [H|H]; [subst z; eexists; split; [reflexivity|split; reflexivity]|]). contradiction.
Qed.
Lemma opt_str_facts l : forallb digit_z l = true ->
  length (opt_str l) = length l /\ forallb is_digit (opt_str l) = true /\ mapM digit_of (opt_str l) = Ok l.
Proof.
  induction l as [|z l IH]; intro H; [repeat split|]. cbn [forallb] in H. apply andb_prop in H as [A B].
  destruct (opt_str_cons z l A) as [c [E [D G]]]. destruct (IH B) as [I1 [I2 I3]]. rewrite E.
  cbn [length forallb mapM]. rewrite I1, D, I2, G, I3. repeat split.
Qed.
Lemma digits_no_space s : forallb is_digit s = true -> forallb (fun c => negb (is_space c)) s = true.
Proof.
  induction s as [|c r IH]; [reflexivity|]. cbn [forallb]. intro H. apply andb_prop in H as [A B].
  destruct (digit_facts c A) as [_ [_ [_ E]]]. rewrite E, (IH B). reflexivity.
Qed.
Lemma rstrip_clean s : forallb (fun c => negb (is_space c)) s = true -> rstrip s = s.
Proof.
  intro H. unfold rstrip, rstrip_by. rewrite (lstrip_by_keep is_space (rev s)); [apply rev_involutive|].
  rewrite <- forallb_rev in H. apply forallb_head in H. destruct (rev s); [trivial|]. destruct (is_space a); [discriminate|reflexivity].
Qed.
Lemma replace1_clean c new s : forallb (fun x => negb (ceqb x c)) s = true -> replace1 c new s = s.
Proof.
  induction s as [|x r IH]; [reflexivity|]. cbn [forallb replace1 flat_map]. intro H. apply andb_prop in H as [A B].
  destruct (ceqb x c); [discriminate|]. cbn [app]. f_equal. apply IH. exact B.
Qed.
Lemma digits_not_blank s : forallb is_digit s = true -> forallb (fun x => negb (ceqb x " "%char)) s = true.
Proof.
  induction s as [|c r IH]; [reflexivity|]. cbn [forallb]. intro H. apply andb_prop in H as [A B].
  rewrite (IH B). apply is_digit_cases in A. cbn in A.
  repeat (destruct A as [A|A]; [subst c; reflexivity|]). contradiction.
Qed.
Lemma digits_no_nl s : forallb is_digit s = true -> no_nl s = true.
Proof.
  unfold no_nl. induction s as [|c r IH]; [reflexivity|]. cbn [forallb]. intro H. apply andb_prop in H as [A B].
  rewrite (IH B). apply is_digit_cases in A. cbn in A.
  repeat (destruct A as [A|A]; [subst c; reflexivity|]). contradiction.
Qed.
(** the reader's decoding of an option string of exactly n digits *)
Lemma options_decode n l : forallb digit_z l = true -> length l = n ->
  mapM digit_of (replace1 " "%char ["0"%char] (ljust n (rstrip (opt_str l)))) = Ok l.
Proof.
  intros D L. destruct (opt_str_facts l D) as [I1 [I2 I3]].
  rewrite rstrip_clean by (apply digits_no_space; exact I2).
  unfold ljust. rewrite I1, L, Nat.sub_diag. cbn [spaces repeat]. rewrite app_nil_r.
  rewrite replace1_clean by (apply digits_not_blank; exact I2). exact I3.
Qed.

Section WithTable.
Variable T : table.
Notation sp := (sp T).
Notation nm := (nm T).

(** ** INCON *)
Definition incon_table_ok : bool := shape_ok T "incon1" [Ts; Td; Td; Te] 0.
Definition canon_inc (ni : str * inc) : str * inc :=
  let i := snd ni in
  let nseq := match i_seq i with Some (a, _) => a | None => XNone end in
  let nadd := match i_seq i with Some (_, b) => b | None => XNone end in
  let v := cvals (sp "incon1") [XStr (unfix_blockname (fst ni)); nseq; nadd; i_por i] in
  let w := cvals (sp "incon2") (i_vars i) in
  (fst ni, mk_inc (vnth v 3) (trim_nones w)
                  (match zero_none (vnth v 1) with XNone => None | _ => Some (zero_none (vnth v 1), zero_none (vnth v 2)) end)).
Definition wf_inc (ni : str * inc) : bool :=
  match nth_error (sp "incon1") 0 with
  | Some f0 => fits_str f0 (unfix_blockname (fst ni)) && negb (blank (unfix_blockname (fst ni))) && name_ok (fst ni)
  | None => false
  end.
Definition inc_step (acc : list (str * inc)) (ni : str * inc) : list (str * inc) := add_named same_key acc (canon_inc ni).

Theorem inc_roundtrip ni ls : incon_table_ok = true -> write_incon1 T (fst ni) (snd ni) = Ok ls -> wf_inc ni = true ->
  enc_ok (list (str * inc)) (fun l => l) blank (read_incon1 T) (str * inc) inc_step (fun _ => True) ni ls.
Proof.
  intros SH W WF. unfold incon_table_ok in SH.
  destruct (shape_nth _ _ _ _ 0 Ts SH eq_refl) as [f0 [N0 [T0 _]]].
  unfold wf_inc in WF. rewrite N0 in WF. apply andb_prop in WF as [WF W3]. apply andb_prop in WF as [W1 W2]. apply negb_true_iff in W2.
  unfold write_incon1 in W.
  match type of W with bind (wline T "incon1" ?V) _ = _ => set (vals := V) in * end.
  destruct (wline T "incon1" vals) as [l1|] eqn:L1; cbn [bind] in W; [|discriminate].
  destruct (wline T "incon2" (i_vars (snd ni))) as [l2|] eqn:L2; cbn [bind] in W; [|discriminate]. inv_ok W.
  assert (NB : blank l1 = false).
  { destruct (sp "incon1") as [|g0 gs] eqn:S; [discriminate|]. cbn in N0. inversion N0; subst g0.
    destruct (wline_name_head T "incon1" f0 gs (unfix_blockname (fst ni)) _ l1 S T0 W1 L1) as [rest E].
    rewrite E, blank_app, W2. reflexivity. }
  split; [exact NB|]. intros acc rest _. split; [|exact I].
  unfold read_incon1. rewrite (wp T _ _ _ L1). cbn [app readline]. rewrite (wp T _ _ _ L2).
  rewrite (cvals_nth (sp "incon1") vals 0 f0 _ N0 eq_refl), (cf_str _ _ T0 W1).
  cbn [sval]. rewrite (name_ok_fix _ W3). cbn [bind]. reflexivity.
Qed.
Definition canon_incons (d : t2d) : list (str * inc) := rev (fold_left inc_step (incon_items d) []).
Theorem incons_roundtrip d body : incon_table_ok = true -> write_incons T d = Ok (kw "INCON" :: body) ->
  forallb wf_inc (incon_items d) = true ->
  forall d0 rest, incon d0 = [] -> read_incons T d0 (body ++ rest)%list = Ok (set_incon d0 (canon_incons d), rest).
Proof.
  intros TOK W WF d0 rest E0. unfold write_incons in W. destruct (incon d) as [|i0 is_]; [discriminate|].
  destruct (write_list (fun ni => write_incon1 T (fst ni) (snd ni)) (incon_items d)) as [recs|] eqn:WL; cbn [bind] in W; [|discriminate].
  inversion W; subst body; clear W.
  assert (F : Forall2 (enc_ok (list (str * inc)) (fun l => l) blank (read_incon1 T) (str * inc) inc_step (fun _ => True)) (incon_items d) recs).
  { apply (write_list_Forall2 _ _ _ _ WL). intros x ls Ix Wx. apply inc_roundtrip; auto.
    rewrite forallb_forall in WF. apply WF. exact Ix. }
  unfold read_incons. rewrite E0. cbn [rev]. rewrite <- app_assoc. cbn [app].
  rewrite (list_section (fun l => l) blank (read_incon1 T) inc_step (incon_items d) recs [nl] rest [] F eq_refl).
  reflexivity.
Qed.

(** ** RPCAP *)
Theorem rpcap_roundtrip d body : write_rpcap T d = Ok (kw "RPCAP" :: body) ->
  forall d0 rest, read_rpcap T d0 (body ++ rest)%list =
    Ok (set_capil (set_relperm d0 (canon_tp T "relative_permeability" (relperm d))) (canon_tp T "capillarity" (capil d)), rest).
Proof.
  intros W d0 rest. unfold write_rpcap in W. destruct (relperm d) as [[t1 p1]|]; [|discriminate].
  destruct (wline T "relative_permeability" ([t1; XNone] +++ p1)) as [l1|] eqn:L1; cbn [bind] in W; [|discriminate].
  destruct (capil d) as [[t2 p2]|]; [|discriminate].
  destruct (wline T "capillarity" ([t2; XNone] +++ p2)) as [l2|] eqn:L2; cbn [bind] in W; [|discriminate]. inv_ok W.
  unfold read_rpcap. cbn [app readline]. rewrite (wp T _ _ _ L1), (wp T _ _ _ L2). reflexivity.
Qed.

(** ** LINEQ, SOLVR: one line written from a dictionary, read into a dictionary *)
Definition canon_dict (k : string) (d0 dct : dict) : dict := dict_update d0 (nm k) (cvals (sp k) (dict_vals dct (nm k))).
Theorem lineq_roundtrip d body : write_lineq T d = Ok (kw "LINEQ" :: body) ->
  forall d0 rest, read_lineq T d0 (body ++ rest)%list = Ok (set_lineq d0 (canon_dict "lineq" (lineq d0) (lineq d)), rest).
Proof.
  intros W d0 rest. unfold write_lineq, write_dictsec in W. destruct (lineq d) as [|e0 es] eqn:E; [discriminate|]. rewrite <- E in *.
  destruct (wline T "lineq" (dict_vals (lineq d) (nm "lineq"))) as [l|] eqn:L; cbn [bind] in W; [|discriminate]. inv_ok W.
  unfold read_lineq. cbn [app readline]. rewrite (wp T _ _ _ L). reflexivity.
Qed.
Theorem solver_roundtrip d body : write_solver T d = Ok (kw "SOLVR" :: body) ->
  forall d0 rest, read_solver T d0 (body ++ rest)%list = Ok (set_solver d0 (canon_dict "solver" (solver d0) (solver d)), rest).
Proof.
  intros W d0 rest. unfold write_solver, write_dictsec in W. destruct (solver d) as [|e0 es] eqn:E; [discriminate|]. rewrite <- E in *.
  destruct (wline T "solver" (dict_vals (solver d) (nm "solver"))) as [l|] eqn:L; cbn [bind] in W; [|discriminate]. inv_ok W.
  unfold read_solver. cbn [app readline]. rewrite (wp T _ _ _ L). reflexivity.
Qed.

(** ** MULTI (both flavours): as LINEQ, then eos stripped *)
Definition strip_eos (m : dict) : res dict :=
  match dget m "eos" with
  | Some (XStr s) => Ok (dset m "eos" (XStr (strip s)))
  | Some _ => Raise AttributeError
  | None => Ok m end.
Theorem multi_roundtrip d body : write_multi T d = Ok (kw "MULTI" :: body) ->
  forall d0 rest, autough2 d0 = autough2 d ->
  read_multi T d0 (body ++ rest)%list =
    (do m <- strip_eos (canon_dict (multi_spec d) (multi d0) (multi d)); Ok (set_multi d0 m, rest)).
Proof.
  intros W d0 rest A. unfold write_multi in W. destruct (multi d) as [|e0 es] eqn:E; [discriminate|]. rewrite <- E in *.
  destruct (wline T (multi_spec d) (dict_vals (multi d) (nm (multi_spec d)))) as [l|] eqn:L; cbn [bind] in W; [|discriminate]. inv_ok W.
  unfold read_multi. cbn [app readline].
  assert (S : multi_spec d0 = multi_spec d) by (unfold multi_spec; rewrite A; reflexivity).
  rewrite S, (wp T _ _ _ L). reflexivity.
Qed.

(** ** MOMOP *)
Definition momop_table_ok : bool := shape_ok T "_more_option_str" [Ts] 0 && (rec_width T "_more_option_str" =? 21)%nat.
Theorem momop_roundtrip d body : momop_table_ok = true -> write_momop T d = Ok (kw "MOMOP" :: body) ->
  forallb digit_z (momop d) = true -> length (momop d) = 21%nat ->
  forall d0 rest, read_momop T d0 (body ++ rest)%list = Ok (set_momop d0 (momop d), rest).
Proof.
  intros TOK W D L d0 rest. unfold momop_table_ok in TOK. apply andb_prop in TOK as [SH WD]. apply Nat.eqb_eq in WD.
  destruct (shape_nth _ _ _ _ 0 Ts SH eq_refl) as [f0 [N0 [T0 _]]].
  unfold write_momop in W. fold (opt_str (momop d)) in W.
  destruct (wline T "_more_option_str" [XStr (opt_str (momop d))]) as [l|] eqn:WL; cbn [bind] in W; [|discriminate]. inv_ok W.
  destruct (opt_str_facts _ D) as [I1 [I2 I3]].
  assert (FS : fits_str f0 (opt_str (momop d)) = true).
  { unfold fits_str. rewrite (digits_no_nl _ I2), andb_true_r. apply Nat.eqb_eq. rewrite I1, L.
    pose proof (shape_length _ _ _ _ SH) as SL. unfold rec_width in WD.
    destruct (sp "_more_option_str") as [|g0 [|g1 gs]]; try discriminate. cbn in N0. inversion N0; subst. cbn in WD. lia. }
  unfold read_momop. cbn [app readline]. rewrite (wp T _ _ _ WL).
  rewrite (cvals_nth (sp "_more_option_str") [XStr (opt_str (momop d))] 0 f0 _ N0 eq_refl), (cf_str _ _ T0 FS).
  rewrite (options_decode 21 _ D L). reflexivity.
Qed.

(** ** TIMES *)
Definition times_table_ok : bool :=
  shape_ok T "output_times1" [Td; Td; Te; Te] 0 &&
  names_eqb (nm "output_times1") ["num_times_specified"; "num_times"; "max_timestep"; "time_increment"] &&
  uniform T "output_times2" (chunk_of "write_times") && (0 <? chunk_of "write_times")%nat &&
  (chunk_of "read_times" =? chunk_of "write_times")%nat.
Definition canon_times (dt0 : dict) (x : dict * list value) : dict * list value :=
  (canon_dict "output_times1" dt0 (fst x), ctab T "output_times2" (snd x)).
Theorem times_roundtrip d dt tl body : times_table_ok = true -> otimes d = Some (dt, tl) ->
  write_times T d = Ok (kw "TIMES" :: body) ->
  forall z, dget dt "num_times_specified" = Some (XInt z) ->
  (match nth_error (sp "output_times1") 0 with Some f => fits_int f z | None => false end) = true ->
  Z.of_nat (length tl) = z ->
  forall d0 rest, read_times T d0 (body ++ rest)%list =
    Ok (set_otimes d0 (Some (canon_times (match otimes d0 with Some (x, _) => x | None => [] end) (dt, tl))), rest).
Proof.
  intros TOK OT W z NT FI LN d0 rest. unfold times_table_ok in TOK.
  apply andb_prop in TOK as [TOK CE]. apply andb_prop in TOK as [TOK CP]. apply andb_prop in TOK as [TOK U].
  apply andb_prop in TOK as [SH NM]. apply names_eqb_eq in NM. apply Nat.eqb_eq in CE. apply Nat.ltb_lt in CP.
  destruct (shape_nth _ _ _ _ 0 Td SH eq_refl) as [f0 [N0 [T0 P0]]]. specialize (P0 eq_refl). rewrite N0 in FI.
  unfold write_times in W. rewrite OT in W.
  destruct (wline T "output_times1" (dict_vals dt (nm "output_times1"))) as [l1|] eqn:L1; cbn [bind] in W; [|discriminate].
  unfold dgetv in W. rewrite NT in W. cbn [ceil_div bind] in W.
  set (c := chunk_of "write_times") in *. set (n := nlines_z (Z.of_nat c) z) in *.
  destruct (write_chunks (sp "output_times2") c n tl) as [ch|] eqn:CH; cbn [bind] in W; [|discriminate].
  injection W as W. subst body.
  unfold read_times. cbn [app readline]. rewrite (wp T _ _ _ L1).
  set (dt0 := match otimes d0 with Some (x, _) => x | None => [] end).
  fold (canon_dict "output_times1" dt0 dt).
  assert (G : dget (canon_dict "output_times1" dt0 dt) "num_times_specified" = Some (XInt z)).
  { unfold canon_dict. rewrite NM. unfold dict_vals. rewrite map_cons. unfold dgetv at 1. rewrite NT.
    destruct (sp "output_times1") as [|g0 gs] eqn:S; [discriminate|]. cbn in N0. inversion N0; subst g0.
    rewrite cvals_cons, dict_update_cons, (cf_int _ _ T0 P0 FI). cbn [is_none].
    rewrite dget_update_other; [apply dget_dset_same|].
    cbn. intros [H|[H|[H|H]]]; try discriminate; exact H. }
  rewrite G. cbn [ceil_div bind]. rewrite CE. fold c. fold n.
  rewrite (tab_roundtrip T _ c n _ _ _ U CP (nlines_cover c _ _ CP LN) CH). reflexivity.
Qed.

(** ** SIMUL (no extra-precision companion), START, NOVER, title *)
Definition simul_table_ok : bool := shape_ok T "simulator" [Ts] 0 && shape_ok T "title" [Ts] 0.
Lemma rstrip_c_nl s : no_nl s = true -> rstrip_c nl (s ++ [nl])%list = s.
Proof.
  intro H. unfold rstrip_c. rewrite rev_app_distr. cbn [rev app lstrip_c]. change (ceqb nl nl) with true. cbv iota.
  fold (rstrip_c nl s). apply rstrip_c_clean. exact H.
Qed.
(** a line shorter than its 80-character name field reads back without its newline *)
Lemma line_field_read k f s : sp k = [f] -> ft f = Ts -> (length s < width f)%nat -> no_nl s = true ->
  vnth (pline T k (s ++ [nl])%list) 0 = XStr s.
Proof.
  intros S Ty L NL. unfold pline, parse, parse_string, field_slices. fold (sp k). rewrite S.
  cbn [map line_spec combine fst snd vnth nth rv2v]. unfold slice. cbn [skipn]. rewrite Nat.sub_0_r, Nat.add_0_l.
  rewrite firstn_all2 by (rewrite app_length; cbn [length]; lia).
  unfold default_rf. rewrite Ty. cbn [rv2v]. rewrite rstrip_c_nl by exact NL. reflexivity.
Qed.

End WithTable.
