(** C01 -- the echoed copy of an extra-precision section cannot be stable (finding
    write:echoed-copy-double-rounding): a refutation witness computed in the model.  The block
    volume 1.234549999999 is written as 1.23455000e+00 in the companion (15.8e) and as 1.2345e+00 in
    the echoed ELEME of the main file (10.4e); the re-read object holds 1.23455 (the companion wins),
    and its echoed copy is written as 1.2346e+00.  The companion itself and, without the echo, the
    main file are reproduced. *)
From Coq Require Import Ascii String List Bool Arith ZArith NArith Lia.
From PTBase Require Import Exn PyStr PyNum PyVal Fmt FixedFormat.
From Gen Require Import GenTables GenSections.
From P Require Import Comb Obj Fields Sections SectionsB Rec T2DataIO Whole Xp Example.
Import ListNotations.
Open Scope string_scope.

Definition rstrip_blanks (s : str) : str := rstrip_by (fun c => ceqb c " "%char) s.
Definition strip_blanks_line (l : str) : str :=
  match rev l with c :: r => if ceqb c nl then rstrip_blanks (rev r) +++ [nl] else rstrip_blanks l | [] => [] end.
Fixpoint same_file (a b : file) : bool :=
  match a, b with [], [] => true | x :: a', y :: b' => str_eqb x y && same_file a' b' | _, _ => false end.
Definition same_opt (a b : option file) : bool :=
  match a, b with Some x, Some y => same_file (map strip_blanks_line x) (map strip_blanks_line y) | None, None => true | _, _ => false end.
(** write with the configuration [c], read, write again (the settings are part of the re-read object) *)
Definition two_writes (c : wcfg) (d : t2d) : res (files * files) :=
  do x <- write_files c d; do D <- read_files (snd x); do y <- write_files (mk_wcfg 0 None None) D; Ok (snd x, snd y).
Definition main_same (r : res (files * files)) : option bool :=
  match r with Ok (f1, f2) => Some (same_file (map strip_blanks_line (f_main f1)) (map strip_blanks_line (f_main f2))) | Raise _ => None end.
Definition pdat_same (r : res (files * files)) : option bool :=
  match r with Ok (f1, f2) => Some (same_opt (f_pdat f1) (f_pdat f2)) | Raise _ => None end.

Definition v_witness : value := XReal false 2779959459982871 (-51).     (* 1.234549999999 *)
Definition witness_obj : t2d :=
  set_blocks example_autough2
    (map (fun b => mk_block (b_name b) (b_nseq b) (b_nadd b) (b_rock b) v_witness (b_ahtx b) (b_pmx b) (b_centre b)) (blocks example_autough2)).
Definition xp_eleme (echo : bool) : wcfg := mk_wcfg 0 (Some [s2l "ROCKS"; s2l "ELEME"]) (Some echo).

Example echoed_copy_refuted :
  main_same (two_writes (xp_eleme true) witness_obj) = Some false /\ pdat_same (two_writes (xp_eleme true) witness_obj) = Some true.
Proof. split; vm_compute; reflexivity. Qed.
(** controls: the same object without the echo, and the object with 4-digit volumes with the echo, are reproduced *)
Example not_echoed_reproduced :
  main_same (two_writes (xp_eleme false) witness_obj) = Some true /\ pdat_same (two_writes (xp_eleme false) witness_obj) = Some true.
Proof. split; vm_compute; reflexivity. Qed.
Example echoed_short_values_reproduced :
  main_same (two_writes (xp_eleme true) example_autough2) = Some true /\ pdat_same (two_writes (xp_eleme true) example_autough2) = Some true.
Proof. split; vm_compute; reflexivity. Qed.
