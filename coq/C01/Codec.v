(** C01 -- wire codec of the abstract object for the extracted driver: a token tree
    ([ ... ] lists; N | I:z | S:hex | R:neg:m:e values).  Not part of any theorem. *)
From Coq Require Import Ascii String List Bool Arith ZArith NArith Lia.
From PTBase Require Import Exn PyStr PyNum PyVal Fmt FixedFormat Wire.
From P Require Import Comb Obj.
Import ListNotations.
Open Scope string_scope.

Inductive node := NV (v : value) | NL (l : list node).

Definition colon : ascii := ":"%char.
Definition dec_value (s : str) : value :=
  match split_c colon s with
  | [k; a] => if str_eqb k (s2l "I") then XInt (z_of_str a) else if str_eqb k (s2l "S") then XStr (unhex a) else XNone
  | [k; a; b; c] => XReal (str_eqb a (s2l "1")) (z_of_str b) (z_of_str c)
  | _ => XNone
  end.
Definition enc_value (v : value) : str :=
  match v with
  | XNone => s2l "N"
  | XInt z => s2l "I:" +++ show_z z
  | XStr s => s2l "S:" +++ hex s
  | XReal ng m e => s2l "R:" +++ show_bool ng +++ colon :: show_z m +++ colon :: show_z e
  end.
Fixpoint parse_toks (toks : list str) (stack : list (list node)) (cur : list node) : option node :=
  match toks with
  | [] => match stack with [] => Some (NL (rev cur)) | _ => None end
  | t :: r =>
      if str_eqb t (s2l "[") then parse_toks r (cur :: stack) []
      else if str_eqb t (s2l "]") then
        match stack with p :: st => parse_toks r st (NL (rev cur) :: p) | [] => None end
      else parse_toks r stack (NV (dec_value t) :: cur)
  end.
(** printing with an accumulator (prepends), tokens separated by TAB *)
Fixpoint pr (n : node) (acc : str) : str :=
  let fix prl (l : list node) (acc : str) : str :=
    match l with [] => acc | x :: r => pr x (prl r acc) end in
  match n with
  | NV v => tab :: enc_value v +++ acc
  | NL l => tab :: "["%char :: prl l (tab :: "]"%char :: acc)
  end.

(** ** decoders *)
Definition bad {A} : res A := Raise ValueError.
Definition dstr (n : node) : res str := match n with NV (XStr s) => Ok s | _ => bad end.
Definition dval (n : node) : res value := match n with NV v => Ok v | _ => bad end.
Definition dz (n : node) : res Z := match n with NV (XInt z) => Ok z | _ => bad end.
Definition dbool (n : node) : res bool := match n with NV (XInt z) => Ok (negb (z =? 0)%Z) | _ => bad end.
Definition dlist {A} (f : node -> res A) (n : node) : res (list A) := match n with NL l => mapM f l | _ => bad end.
Definition dopt {A} (f : node -> res A) (n : node) : res (option A) :=
  match n with NL [] => Ok None | NL [x] => do a <- f x; Ok (Some a) | _ => bad end.
Definition dpair {A B} (f : node -> res A) (g : node -> res B) (n : node) : res (A * B) :=
  match n with NL [a; b] => do x <- f a; do y <- g b; Ok (x, y) | _ => bad end.
Definition dvals := dlist dval.
Definition ddict (n : node) : res dict :=
  match n with
  | NL (NV (XStr _) :: l) => mapM (fun e => match e with NL [NV (XStr k); NV v] => Ok (l2s k, v) | _ => bad end) l
  | _ => bad
  end.
Definition drock (n : node) : res rock :=
  match n with
  | NL [a; b; c; d; e; f; g; h; i; j] =>
      do a' <- dstr a; do b' <- dval b; do c' <- dval c; do d' <- dval d; do e' <- dvals e; do f' <- dval f; do g' <- dval g;
      do h' <- ddict h; do i' <- dopt (dpair dval dvals) i; do j' <- dopt (dpair dval dvals) j;
      Ok (mk_rock a' b' c' d' e' f' g' h' i' j')
  | _ => bad
  end.
Definition dblock (n : node) : res block :=
  match n with
  | NL [a; b; c; d; e; f; g; h] =>
      do a' <- dstr a; do b' <- dval b; do c' <- dval c; do d' <- dstr d; do e' <- dval e; do f' <- dval f; do g' <- dval g;
      do h' <- dopt dvals h; Ok (mk_block a' b' c' d' e' f' g' h')
  | _ => bad
  end.
Definition dconn (n : node) : res conn :=
  match n with
  | NL [a; b; c; d; e; f; g; h; i; j] =>
      do a' <- dstr a; do b' <- dstr b; do c' <- dval c; do d' <- dval d; do e' <- dval e; do f' <- dval f; do g' <- dvals g;
      do h' <- dval h; do i' <- dval i; do j' <- dval j; Ok (mk_conn a' b' c' d' e' f' g' h' i' j')
  | _ => bad
  end.
Definition dgen (n : node) : res gen :=
  match n with
  | NL [a; b; c; d; e; f; g; h; i; j; k; l; m; o; p] =>
      do a' <- dstr a; do b' <- dstr b; do c' <- dval c; do d' <- dval d; do e' <- dval e; do f' <- dval f;
      do g' <- dstr g; do h' <- dstr h; do i' <- dval i; do j' <- dval j; do k' <- dval k; do l' <- dval l;
      do m' <- dvals m; do o' <- dvals o; do p' <- dvals p;
      Ok (mk_gen a' b' c' d' e' f' g' h' i' j' k' l' m' o' p')
  | _ => bad
  end.
Definition dparams (n : node) : res params :=
  match n with
  | NL [a; b; c; d] => do a' <- ddict a; do b' <- dlist dz b; do c' <- dvals c; do d' <- dvals d; Ok (mk_params a' b' c' d')
  | _ => bad
  end.
Definition dinc (n : node) : res inc :=
  match n with
  | NL [a; b; c] => do a' <- dval a; do b' <- dvals b; do c' <- dopt (dpair dval dval) c; Ok (mk_inc a' b' c')
  | _ => bad
  end.
Definition dshort (n : node) : res shortrec :=
  match n with
  | NL [a; b; c; d] => do a' <- dopt dval a; do b' <- dopt (dlist dstr) b; do c' <- dopt (dlist (dpair dstr dstr)) c;
                       do d' <- dopt (dlist (dpair dstr dstr)) d; Ok (mk_short a' b' c' d')
  | _ => bad
  end.
Definition dmm (n : node) : res mmsec :=
  match n with
  | NL [NV (XStr k); a] =>
      if str_eqb k (s2l "rz2d") then
        do l <- dlist (fun e => match e with NL [x; y; z] => do x' <- dstr x; do y' <- ddict y; do z' <- dvals z; Ok (x', y', z') | _ => bad end) a;
        Ok (MMrz2d l)
      else bad
  | NL [NV (XStr k); a; b] =>
      if str_eqb k (s2l "xyz") then do a' <- dval a; do b' <- dlist (dpair ddict dvals) b; Ok (MMxyz a' b') else bad
  | NL [NV (XStr k); a; b; c] =>
      if str_eqb k (s2l "minc") then do a' <- ddict a; do b' <- dvals b; do c' <- dvals c; Ok (MMminc a' b' c') else bad
  | _ => bad
  end.
Definition dt2d (n : node) : res t2d :=
  match n with
  | NL [a0; a1; a2; a3; a4; a5; a6; a7; a8; a9; a10; a11; a12; a13; a14; a15; a16; a17; a18; a19; a20; a21; a22; a23; a24; a25; a26; a27; a28] =>
      do b0 <- dstr a0; do b1 <- dstr a1; do b2 <- dlist drock a2; do b3 <- dlist dblock a3; do b4 <- dlist dconn a4;
      do b5 <- dparams a5; do b6 <- dlist dz a6; do b7 <- dbool a7; do b8 <- dbool a8;
      do b9 <- dopt (dpair dval dvals) a9; do b10 <- dopt (dpair dval dvals) a10;
      do b11 <- ddict a11; do b12 <- ddict a12; do b13 <- ddict a13; do b14 <- dopt (dpair ddict dvals) a14;
      do b15 <- dopt (dpair dvals dvals) a15; do b16 <- dlist dvals a16; do b17 <- dlist dmm a17;
      do b18 <- dlist dgen a18; do b19 <- dopt dshort a19; do b20 <- dlist dstr a20; do b21 <- dlist (dpair dstr dstr) a21;
      do b22 <- dlist dstr a22; do b23 <- dlist (dpair dstr dinc) a23; do b24 <- dlist (dpair dstr dvals) a24;
      do b25 <- dlist dstr a25; do b26 <- dstr a26; do b27 <- dlist dstr a27; do b28 <- dbool a28;
      Ok (mk_t2d b0 b1 b2 b3 b4 b5 b6 b7 b8 b9 b10 b11 b12 b13 b14 b15 b16 b17 b18 b19 b20 b21 b22 b23 b24 b25 b26 b27 b28)
  | _ => bad
  end.

(** ** encoders *)
Definition estr (s : str) : node := NV (XStr s).
Definition ez (z : Z) : node := NV (XInt z).
Definition ebool (b : bool) : node := NV (XInt (if b then 1 else 0)).
Definition elist {A} (f : A -> node) (l : list A) : node := NL (map f l).
Definition eopt {A} (f : A -> node) (o : option A) : node := match o with None => NL [] | Some a => NL [f a] end.
Definition epair {A B} (f : A -> node) (g : B -> node) (p : A * B) : node := NL [f (fst p); g (snd p)].
Definition evals := elist NV.
Definition edict (d : dict) : node := NL (estr (s2l "#dict") :: map (fun kv => NL [estr (s2l (fst kv)); NV (snd kv)]) d).
Definition erock (r : rock) : node :=
  NL [estr (r_name r); NV (r_nad r); NV (r_density r); NV (r_porosity r); evals (r_perm r); NV (r_cond r); NV (r_spec r);
      edict (r_extra r); eopt (epair NV evals) (r_rp r); eopt (epair NV evals) (r_cap r)].
Definition eblock (b : block) : node :=
  NL [estr (b_name b); NV (b_nseq b); NV (b_nadd b); estr (b_rock b); NV (b_volume b); NV (b_ahtx b); NV (b_pmx b); eopt evals (b_centre b)].
Definition econn (c : conn) : node :=
  NL [estr (c_b1 c); estr (c_b2 c); NV (c_nseq c); NV (c_nad1 c); NV (c_nad2 c); NV (c_dir c); evals (c_dist c);
      NV (c_area c); NV (c_dircos c); NV (c_sigma c)].
Definition egen (g : gen) : node :=
  NL [estr (g_block g); estr (g_name g); NV (g_nseq g); NV (g_nadd g); NV (g_nads g); NV (g_ltab g); estr (g_type g); estr (g_itab g);
      NV (g_gx g); NV (g_ex g); NV (g_hg g); NV (g_fg g); evals (g_time g); evals (g_rate g); evals (g_enth g)].
Definition eparams (p : params) : node := NL [edict (p_dict p); elist ez (p_option p); evals (p_timestep p); evals (p_dincons p)].
Definition einc (i : inc) : node := NL [NV (i_por i); evals (i_vars i); eopt (epair NV NV) (i_seq i)].
Definition eshort (s : shortrec) : node :=
  NL [eopt NV (sh_freq s); eopt (elist estr) (sh_block s); eopt (elist (epair estr estr)) (sh_conn s); eopt (elist (epair estr estr)) (sh_gen s)].
Definition emm (m : mmsec) : node :=
  match m with
  | MMrz2d l => NL [estr (s2l "rz2d"); elist (fun e => NL [estr (fst (fst e)); edict (snd (fst e)); evals (snd e)]) l]
  | MMxyz dg l => NL [estr (s2l "xyz"); NV dg; elist (epair edict evals) l]
  | MMminc d s v => NL [estr (s2l "minc"); edict d; evals s; evals v]
  end.
Definition et2d (d : t2d) : node :=
  NL [estr (title d); estr (simulator d); elist erock (rocks d); elist eblock (blocks d); elist econn (conns d);
      eparams (param d); elist ez (momop d); ebool (start d); ebool (noversion d);
      eopt (epair NV evals) (relperm d); eopt (epair NV evals) (capil d);
      edict (lineq d); edict (solver d); edict (multi d); eopt (epair edict evals) (otimes d);
      eopt (epair evals evals) (selection d); elist evals (diffusion d); elist emm (meshmaker d);
      elist egen (gens d); eopt eshort (short d); elist estr (hist_block d); elist (epair estr estr) (hist_conn d);
      elist estr (hist_gen d); elist (epair estr einc) (incon d); elist (epair estr evals) (indom d);
      elist estr (sections d); estr (end_keyword d); elist estr (xprec d); ebool (xecho d)].

(** hex text of a whole file -> its lines, tail recursively *)
Fixpoint unhex_lines (cur : str) (acc : file) (s : str) : file :=
  match s with
  | a :: b :: r =>
      let c := ascii_of_nat (16 * hexval a + hexval b) in
      if ceqb c nl then unhex_lines [] (rev_append cur [nl] :: acc) r else unhex_lines (c :: cur) acc r
  | _ => rev_append acc (match cur with [] => [] | _ => [rev_append cur []] end)
  end.
Definition hex_lines (ls : file) : str := fold_right (fun l acc => hex l +++ acc) [] ls.
