(** C01 -- what one field reads back as (the meaning of [cf]): an integer that fits its
    [%wd] field reads back as itself, a name that fills its [%ws] field reads back as itself,
    a blank numeric field reads back as None.  (A real reads back as the double nearest to
    the decimal its own text denotes: [cf] is that by definition; that the text is the
    correctly rounded p-digit decimal of the value is Python's %-formatting, modelled in
    Base/Fmt.v and validated against CPython by C02 and by the correspondence here.) *)
From Coq Require Import Ascii String List Bool Arith ZArith NArith Lia.
From Coq Require Import DecimalString DecimalZ DecimalN DecimalPos.
From PTBase Require Import Exn PyStr PyNum PyVal Fmt FixedFormat.
From P Require Import Comb.
Import ListNotations.
Open Scope char_scope.

(** ** decimal digit strings *)
Fixpoint uval (acc : N) (u : Decimal.uint) : N :=
  match u with
  | Decimal.Nil => acc
  | Decimal.D0 l => uval (acc * 10 + 0) l | Decimal.D1 l => uval (acc * 10 + 1) l
  | Decimal.D2 l => uval (acc * 10 + 2) l | Decimal.D3 l => uval (acc * 10 + 3) l
  | Decimal.D4 l => uval (acc * 10 + 4) l | Decimal.D5 l => uval (acc * 10 + 5) l
  | Decimal.D6 l => uval (acc * 10 + 6) l | Decimal.D7 l => uval (acc * 10 + 7) l
  | Decimal.D8 l => uval (acc * 10 + 8) l | Decimal.D9 l => uval (acc * 10 + 9) l
  end.
Fixpoint usize (u : Decimal.uint) : nat :=
  match u with
  | Decimal.Nil => O
  | Decimal.D0 l | Decimal.D1 l | Decimal.D2 l | Decimal.D3 l | Decimal.D4 l
  | Decimal.D5 l | Decimal.D6 l | Decimal.D7 l | Decimal.D8 l | Decimal.D9 l => S (usize l)
  end.
Definition ustr (u : Decimal.uint) : str := s2l (NilEmpty.string_of_uint u).
(** what may follow a digit string without being taken for part of it *)
Definition stops (rest : str) : Prop :=
  match rest with [] => True | c :: _ => is_digit c = false /\ ceqb c "_" = false end.

Lemma digits_tail_step c r acc cnt : is_digit c = true ->
  digits_tail acc cnt (c :: r) = digits_tail (acc * 10 + ndval c) (S cnt) r.
Proof. intro H. cbn [digits_tail]. rewrite H. reflexivity. Qed.
Lemma digits_tail_ustr u : forall acc cnt rest, stops rest ->
  digits_tail acc cnt (ustr u ++ rest) = (uval acc u, (cnt + usize u)%nat, rest).
Proof.
  unfold ustr. induction u; intros acc cnt rest St;
    try (cbn [NilEmpty.string_of_uint s2l list_ascii_of_string app uval usize];
         rewrite digits_tail_step by reflexivity; rewrite IHu by exact St;
         replace (S cnt + usize u)%nat with (cnt + S (usize u))%nat by lia; reflexivity).
  cbn [NilEmpty.string_of_uint s2l list_ascii_of_string app uval usize]. rewrite Nat.add_0_r.
  destruct rest as [|c r]; [reflexivity|]. destruct St as [A B]. cbn [digits_tail]. rewrite A, B. reflexivity.
Qed.
Lemma digitpart_ustr u acc rest : u <> Decimal.Nil -> stops rest ->
  digitpart acc (ustr u ++ rest) = Some (uval acc u, usize u, rest).
Proof.
  intros NN St. unfold ustr.
  destruct u; [congruence| | | | | | | | | |];
    cbn [NilEmpty.string_of_uint s2l list_ascii_of_string app digitpart uval usize];
    (replace (is_digit _) with true by reflexivity); cbv iota;
    rewrite (digits_tail_ustr u _ 1 rest St); reflexivity.
Qed.
Lemma of_uint_acc_uval u : forall acc, N.pos (Pos.of_uint_acc u acc) = uval (N.pos acc) u.
Proof.
  induction u; intro acc; cbn [Pos.of_uint_acc uval]; [reflexivity| | | | | | | | | |];
    rewrite IHu; f_equal; lia.
Qed.
Lemma of_uint_uval u : Pos.of_uint u = uval 0 u.
Proof.
  induction u; cbn [Pos.of_uint uval]; [reflexivity|exact IHu| | | | | | | | |];
    rewrite of_uint_acc_uval; reflexivity.
Qed.
Lemma ustr_digits u : forallb is_digit (ustr u) = true.
Proof. unfold ustr. induction u; cbn [NilEmpty.string_of_uint s2l list_ascii_of_string forallb]; try reflexivity; exact IHu. Qed.

Lemma n_to_str_ustr n : n_to_str n = ustr (N.to_uint n) /\ N.to_uint n <> Decimal.Nil.
Proof.
  unfold n_to_str, ustr, NilZero.string_of_uint.
  destruct n as [|p]; [split; [reflexivity|discriminate]|].
  cbn [N.to_uint]. pose proof (Unsigned.to_uint_nonnil p) as NN.
  destruct (Pos.to_uint p); [congruence| | | | | | | | | |]; split; try reflexivity; discriminate.
Qed.
Lemma n_to_str_digits n : forallb is_digit (n_to_str n) = true.
Proof. destruct (n_to_str_ustr n) as [E _]. rewrite E. apply ustr_digits. Qed.
(** [digitpart] reads a printed natural back *)
Lemma digitpart_n_to_str n rest : stops rest ->
  digitpart 0 (n_to_str n ++ rest) = Some (n, usize (N.to_uint n), rest).
Proof.
  intro St. destruct (n_to_str_ustr n) as [E NN]. rewrite E.
  rewrite digitpart_ustr by assumption. f_equal. f_equal. f_equal.
  rewrite <- of_uint_uval. exact (DecimalN.Unsigned.of_to n).
Qed.
Lemma z_to_str_split z :
  z_to_str z = if (z <? 0)%Z then "-" :: n_to_str (Z.to_N (- z)) else n_to_str (Z.to_N z).
Proof.
  unfold z_to_str, n_to_str. destruct z as [|p|p]; cbn [Z.to_int Z.ltb Z.compare Z.opp Z.to_N N.to_uint NilZero.string_of_int]; reflexivity.
Qed.

(** ** stripping *)
Lemma lstrip_by_keep p s : match s with c :: _ => p c = false | [] => True end -> lstrip_by p s = s.
Proof. destruct s as [|c r]; [reflexivity|]. cbn. intro H. rewrite H. reflexivity. Qed.
Lemma forallb_head {A} (q : A -> bool) s : forallb q s = true -> match s with c :: _ => q c = true | [] => True end.
Proof. destruct s; cbn; [trivial|]. intro H. apply andb_prop in H. tauto. Qed.
Lemma strip_by_clean p s : forallb (fun c => negb (p c)) s = true -> strip_by p s = s.
Proof.
  intro H. unfold strip_by, rstrip_by.
  rewrite (lstrip_by_keep p s).
  2:{ apply forallb_head in H. destruct s; [trivial|]. destruct (p a); [discriminate|reflexivity]. }
  rewrite (lstrip_by_keep p (rev s)); [apply rev_involutive|].
  rewrite <- forallb_rev in H. apply forallb_head in H. destruct (rev s); [trivial|]. destruct (p a); [discriminate|reflexivity].
Qed.
Lemma lstrip_by_spaces p k s : p " " = true -> lstrip_by p (spaces k ++ s) = lstrip_by p s.
Proof. intro H. induction k as [|k IH]; [reflexivity|]. cbn [spaces repeat app lstrip_by]. rewrite H. exact IH. Qed.
Lemma strip_by_rjust p k s : p " " = true -> s <> [] -> forallb (fun c => negb (p c)) s = true -> strip_by p (spaces k ++ s) = s.
Proof.
  intros Hp NE H. unfold strip_by. rewrite lstrip_by_spaces by exact Hp.
  fold (strip_by p s). apply strip_by_clean. exact H.
Qed.
Lemma digit_facts c : is_digit c = true ->
  is_cspace c = false /\ ceqb c "-" = false /\ ceqb c "+" = false /\ is_space c = false.
Proof. intro H. apply is_digit_cases in H. cbn in H. repeat (destruct H as [H|H]; [subst; repeat split; reflexivity|]). contradiction. Qed.
Lemma digits_clean s : forallb is_digit s = true -> forallb (fun c => negb (is_cspace c)) s = true.
Proof.
  induction s as [|c r IH]; [reflexivity|]. cbn [forallb]. intro H. apply andb_prop in H as [A B].
  destruct (digit_facts c A) as [E _]. rewrite E, (IH B). reflexivity.
Qed.

(** ** [int()] of a printed integer, right-justified in blanks *)
Lemma py_int_printed k z : py_int_opt (spaces k ++ z_to_str z) = Some z.
Proof.
  unfold py_int_opt, cstrip.
  assert (C : strip_by is_cspace (spaces k ++ z_to_str z) = z_to_str z).
  { apply strip_by_rjust; [reflexivity| |].
    - rewrite z_to_str_split. destruct (z <? 0)%Z; [discriminate|].
      destruct (n_to_str_ustr (Z.to_N z)) as [E NN]. rewrite E. unfold ustr.
      destruct (N.to_uint (Z.to_N z)); [congruence| | | | | | | | | |]; discriminate.
    - rewrite z_to_str_split. destruct (z <? 0)%Z; [cbn [forallb]; change (negb (is_cspace "-")) with true; cbn [andb]|];
        apply digits_clean, n_to_str_digits. }
  rewrite C. rewrite z_to_str_split. destruct (z <? 0)%Z eqn:S.
  - cbn [sign]. change (ceqb "-" "-") with true. cbv iota. cbn [fst snd]. unfold int_body.
    rewrite <- (app_nil_r (n_to_str _)). rewrite digitpart_n_to_str by exact I.
    apply Z.ltb_lt in S. f_equal. rewrite Z2N.id by lia. lia.
  - pose proof (n_to_str_digits (Z.to_N z)) as D. destruct (n_to_str_ustr (Z.to_N z)) as [E NN].
    assert (SG : sign (n_to_str (Z.to_N z)) = (false, n_to_str (Z.to_N z))).
    { destruct (n_to_str (Z.to_N z)) as [|c r] eqn:F; [reflexivity|]. cbn [forallb] in D. apply andb_prop in D as [D _].
      destruct (digit_facts c D) as [_ [A [B _]]]. cbn [sign]. rewrite A, B. reflexivity. }
    rewrite SG. cbn [fst snd]. unfold int_body.
    rewrite <- (app_nil_r (n_to_str _)). rewrite digitpart_n_to_str by exact I.
    apply Z.ltb_ge in S. f_equal. rewrite Z2N.id by lia. reflexivity.
Qed.

(** ** fields *)
Definition fits_int (f : fspec) (z : Z) : bool := (length (z_to_str z) <=? width f)%nat.
Theorem cf_int f z : ft f = Td -> (0 <= fw f)%Z -> fits_int f z = true -> cf f (XInt z) = XInt z.
Proof.
  intros T W F. unfold cf, fmt_field. rewrite T. unfold fmt_raw. rewrite T. cbn [bind].
  unfold fits_int in F. unfold fmt_int, pad. destruct (fw f <? 0)%Z eqn:N; [apply Z.ltb_lt in N; lia|].
  assert (L : length (rjust (Z.to_nat (fw f)) (z_to_str z)) = width f).
  { rewrite rjust_length. apply Nat.leb_le in F. unfold width in *. replace (Z.abs (fw f)) with (fw f) in * by lia. lia. }
  rewrite L, Nat.leb_refl. unfold rd_field, default_rf. rewrite T. unfold rjust. rewrite py_int_printed. reflexivity.
Qed.

Definition no_nl (s : str) : bool := forallb (fun c => negb (ceqb c nl)) s.
Lemma rstrip_c_clean s : no_nl s = true -> rstrip_c nl s = s.
Proof.
  intro H. unfold rstrip_c. unfold no_nl in H. rewrite <- forallb_rev in H.
  destruct (rev s) as [|c r] eqn:E; [rewrite <- (rev_involutive s), E; reflexivity|].
  cbn [forallb] in H. apply andb_prop in H as [A _]. cbn [lstrip_c]. fold nl. destruct (ceqb c nl); [discriminate|].
  rewrite <- E. apply rev_involutive.
Qed.
(** a name that fills its field *)
Definition fits_str (f : fspec) (s : str) : bool := (length s =? width f)%nat && no_nl s.
Theorem cf_str f s : ft f = Ts -> fits_str f s = true -> cf f (XStr s) = XStr s.
Proof.
  intros T F. apply andb_prop in F as [L NL]. apply Nat.eqb_eq in L.
  unfold cf, fmt_field. rewrite T. unfold fmt_raw. rewrite T. cbn [bind].
  assert (P : fmt_str (fw f) s = s).
  { unfold fmt_str, pad, width in *. destruct (fw f <? 0)%Z eqn:N.
    - unfold ljust. apply Z.ltb_lt in N. replace (Z.to_nat (- fw f)) with (length s) by lia. rewrite Nat.sub_diag. apply app_nil_r.
    - unfold rjust. apply Z.ltb_ge in N. replace (Z.to_nat (fw f)) with (length s) by lia. rewrite Nat.sub_diag. reflexivity. }
  rewrite P, L, Nat.leb_refl. unfold rd_field, default_rf. rewrite T. cbn [rv2v]. rewrite rstrip_c_clean by exact NL. reflexivity.
Qed.
(** a blank name field reads back as blanks *)
Lemma cf_none_str f : ft f = Ts -> cf f XNone = XStr (spaces (width f)).
Proof.
  intro T. unfold cf. cbn [fmt_field]. unfold rd_field, default_rf. rewrite T. cbn [rv2v]. f_equal.
  apply rstrip_c_clean. unfold no_nl, spaces. induction (width f); [reflexivity|]. cbn. exact IHn.
Qed.
(** the text of every field has exactly the field's width (C02) *)
Lemma cf_text_width f v s : fmt_field f v = Ok s -> length s = width f.
Proof. apply fmt_field_width. Qed.
