(** C01 -- ELEME and CONNE: read_blocks (write_blocks bs) and read_connections
    (write_connections cs) give the blocks / connections back, each field read back from
    its own text, names through unfix_blockname / fix_blockname. *)
From Coq Require Import Ascii String List Bool Arith ZArith NArith Lia.
From PTBase Require Import Exn PyStr PyNum PyVal Fmt FixedFormat.
From Gen Require Import GenSections.
From P Require Import Comb Obj Fields Sections Rec.
Import ListNotations.
Open Scope string_scope.

(** a block name survives the (A3,I2) rewriting of the writer and the reader *)
Definition name_ok (n : str) : bool :=
  match fix_blockname (unfix_blockname n) with Ok m => str_eqb m n | Raise _ => false end.
Lemma name_ok_fix n : name_ok n = true -> fix_blockname (unfix_blockname n) = Ok n.
Proof. unfold name_ok. destruct (fix_blockname (unfix_blockname n)); [|discriminate]. intro H. apply str_eqb_eq in H. congruence. Qed.

Section WithTable.
Variable T : table.
Notation sp := (sp T).
Notation nm := (nm T).

(** ** ELEME *)
Definition blocks_table_ok : bool :=
  shape_ok T "blocks" [Ts; Td; Td; Ts; Te; Te; Te; Te; Te; Te] 79 &&
  names_eqb (nm "blocks") ["name"; "nseq"; "nadd"; "rocktype"; "volume"; "ahtx"; "pmx"; "x"; "y"; "z"].
Definition block_vals (b : block) : list value :=
  [XStr (unfix_blockname (b_name b)); b_nseq b; b_nadd b; XStr (b_rock b); b_volume b; b_ahtx b; b_pmx b]
  +++ match b_centre b with Some c => c | None => [XNone; XNone; XNone] end.
Definition centre_of (v : list value) : option (list value) :=
  match vnth v 7, vnth v 8, vnth v 9 with
  | XNone, _, _ | _, XNone, _ | _, _, XNone => None
  | x, y, z => Some [x; y; z] end.
Definition canon_block (b : block) : block :=
  let v := cvals (sp "blocks") (block_vals b) in
  mk_block (b_name b) (zero_none (vnth v 1)) (zero_none (vnth v 2)) (b_rock b) (vnth v 4) (vnth v 5) (vnth v 6) (centre_of v).
Definition has_rock (rs : list rock) (n : str) : bool := existsb (fun r => str_eqb (r_name r) n) rs.
Definition wf_block (rs : list rock) (b : block) : bool :=
  match nth_error (sp "blocks") 0, nth_error (sp "blocks") 3 with
  | Some f0, Some f3 =>
      fits_str f0 (unfix_blockname (b_name b)) && negb (blank (unfix_blockname (b_name b))) && name_ok (b_name b) &&
      fits_str f3 (b_rock b) && has_rock rs (b_rock b) &&
      match b_centre b with Some c => (length c =? 3)%nat | None => true end
  | _, _ => false
  end.
Definition block_step (acc : list block) (b : block) : list block := add_named same_block acc (canon_block b).

Lemma write_block_vals b : names_eqb (nm "blocks") ["name"; "nseq"; "nadd"; "rocktype"; "volume"; "ahtx"; "pmx"; "x"; "y"; "z"] = true ->
  write_block T b = (do l <- wline T "blocks" (block_vals b); Ok [l]).
Proof.
  intro N. apply names_eqb_eq in N. unfold write_block, block_vals. destruct (b_centre b); [reflexivity|].
  rewrite N. reflexivity.
Qed.

Theorem block_roundtrip rs b ls : blocks_table_ok = true -> write_block T b = Ok ls -> wf_block rs b = true ->
  enc_ok (list block) padstring blank (read_block T rs) block block_step (fun _ => True) b ls.
Proof.
  intros TOK W WF. unfold blocks_table_ok in TOK. apply andb_prop in TOK as [SH NM].
  destruct (shape_nth _ _ _ _ 0 Ts SH eq_refl) as [f0 [N0 [T0 _]]].
  destruct (shape_nth _ _ _ _ 3 Ts SH eq_refl) as [f3 [N3 [T3 _]]].
  unfold wf_block in WF. rewrite N0, N3 in WF.
  apply andb_prop in WF as [WF W6]. apply andb_prop in WF as [WF W5]. apply andb_prop in WF as [WF W4].
  apply andb_prop in WF as [WF W3]. apply andb_prop in WF as [W1 W2]. apply negb_true_iff in W2.
  rewrite (write_block_vals b NM) in W.
  destruct (wline T "blocks" (block_vals b)) as [l1|] eqn:L1; cbn [bind] in W; [|discriminate]. inv_ok W.
  assert (LV : length (block_vals b) = 10%nat).
  { unfold block_vals. rewrite app_length. destruct (b_centre b) as [c|]; [apply Nat.eqb_eq in W6; rewrite W6|]; reflexivity. }
  assert (LS : length (sp "blocks") = 10%nat) by (rewrite (shape_length _ _ _ _ SH); reflexivity).
  assert (PAD : padstring l1 = l1).
  { apply (padstring_wline T "blocks" _ _ L1); [lia|apply (shape_width _ _ _ _ SH)]. }
  assert (NB : blank (padstring l1) = false).
  { destruct (sp "blocks") as [|g0 gs] eqn:S; [discriminate|]. cbn in N0. inversion N0; subst g0.
    eapply (wline_nonblank T "blocks" f0 gs (unfix_blockname (b_name b))); eauto. }
  split; [exact NB|]. intros acc rest _. split; [|exact I].
  unfold read_block. rewrite PAD, (wp T _ _ _ L1).
  rewrite (cvals_nth (sp "blocks") (block_vals b) 0 f0 _ N0 eq_refl), (cf_str _ _ T0 W1).
  rewrite (cvals_nth (sp "blocks") (block_vals b) 3 f3 _ N3 eq_refl), (cf_str _ _ T3 W4).
  cbn [sval]. rewrite (name_ok_fix _ W3). cbn [bind].
  unfold resolve_rock. unfold has_rock in W5. rewrite W5. cbn [bind app]. reflexivity.
Qed.

Definition canon_blocks (bs : list block) : list block := rev (fold_left block_step bs []).
Theorem blocks_roundtrip d body : blocks_table_ok = true -> write_blocks T d = Ok (kw "ELEME" :: body) ->
  forall d0 rest, forallb (wf_block (rocks d0)) (blocks d) = true ->
  read_blocks T d0 (body ++ rest)%list = Ok (set_blocks d0 (canon_blocks (blocks d)), rest).
Proof.
  intros TOK W d0 rest WF. unfold write_blocks in W.
  destruct (write_list (write_block T) (blocks d)) as [recs|] eqn:WL; cbn [bind] in W; [|discriminate].
  inversion W; subst body; clear W.
  assert (F : Forall2 (enc_ok (list block) padstring blank (read_block T (rocks d0)) block block_step (fun _ => True)) (blocks d) recs).
  { apply (write_list_Forall2 _ _ _ _ WL). intros x ls Ix Wx. apply block_roundtrip; auto.
    rewrite forallb_forall in WF. apply WF. exact Ix. }
  unfold read_blocks. rewrite <- app_assoc. cbn [app].
  rewrite (list_section padstring blank (read_block T (rocks d0)) block_step (blocks d) recs [nl] rest [] F eq_refl).
  reflexivity.
Qed.
Corollary canon_blocks_distinct bs : all_distinct same_block (map canon_block bs) = true -> canon_blocks bs = map canon_block bs.
Proof.
  intro D. unfold canon_blocks.
  assert (E : forall acc, fold_left block_step bs acc = fold_left (add_named same_block) (map canon_block bs) acc).
  { clear D. induction bs as [|r rs IH]; intro acc; [reflexivity|]. cbn [fold_left map]. apply IH. }
  rewrite E. apply fold_add_named_fresh. exact D.
Qed.

(** ** CONNE *)
Definition conns_table_ok : bool :=
  shape_ok T "connections" [Ts; Ts; Td; Td; Td; Td; Te; Te; Te; Tf; Te] 79.
Definition conn_vals (c : conn) : list value :=
  [XStr (unfix_blockname (c_b1 c)); XStr (unfix_blockname (c_b2 c)); c_nseq c; c_nad1 c; c_nad2 c; c_dir c]
  +++ c_dist c +++ [c_area c; c_dircos c; c_sigma c].
Definition canon_conn (c : conn) : conn :=
  let v := cvals (sp "connections") (conn_vals c) in
  mk_conn (c_b1 c) (c_b2 c) (zero_none (vnth v 2)) (zero_none (vnth v 3)) (zero_none (vnth v 4)) (vnth v 5)
          [vnth v 6; vnth v 7] (vnth v 8) (vnth v 9) (vnth v 10).
Definition wf_conn (bs : list block) (c : conn) : bool :=
  match nth_error (sp "connections") 0, nth_error (sp "connections") 1 with
  | Some f0, Some f1 =>
      fits_str f0 (unfix_blockname (c_b1 c)) && negb (blank (unfix_blockname (c_b1 c))) &&
      negb (prefix (s2l "+++") (unfix_blockname (c_b1 c))) && (3 <=? length (unfix_blockname (c_b1 c)))%nat && name_ok (c_b1 c) &&
      fits_str f1 (unfix_blockname (c_b2 c)) && name_ok (c_b2 c) &&
      has_block bs (c_b1 c) && has_block bs (c_b2 c) && (length (c_dist c) =? 2)%nat
  | _, _ => false
  end.
Definition conn_step (acc : list conn) (c : conn) : list conn := add_named same_conn acc (canon_conn c).

Theorem conn_roundtrip bs c ls : conns_table_ok = true -> write_conn T c = Ok ls -> wf_conn bs c = true ->
  enc_ok (list conn) padstring conn_stop (read_conn T bs) conn conn_step (fun _ => True) c ls.
Proof.
  intros SH W WF. unfold conns_table_ok in SH.
  destruct (shape_nth _ _ _ _ 0 Ts SH eq_refl) as [f0 [N0 [T0 _]]].
  destruct (shape_nth _ _ _ _ 1 Ts SH eq_refl) as [f1 [N1 [T1 _]]].
  unfold wf_conn in WF. rewrite N0, N1 in WF.
  apply andb_prop in WF as [WF W10]. apply andb_prop in WF as [WF W9]. apply andb_prop in WF as [WF W8].
  apply andb_prop in WF as [WF W7]. apply andb_prop in WF as [WF W6]. apply andb_prop in WF as [WF W5].
  apply andb_prop in WF as [WF W4]. apply andb_prop in WF as [WF W3]. apply andb_prop in WF as [W1 W2].
  apply negb_true_iff in W2. apply negb_true_iff in W3. apply Nat.leb_le in W4. apply Nat.eqb_eq in W10.
  unfold write_conn in W. fold (conn_vals c) in W.
  destruct (wline T "connections" (conn_vals c)) as [l1|] eqn:L1; cbn [bind] in W; [|discriminate]. inv_ok W.
  assert (LV : length (conn_vals c) = 11%nat) by (unfold conn_vals; rewrite !app_length, W10; reflexivity).
  assert (LS : length (sp "connections") = 11%nat) by (rewrite (shape_length _ _ _ _ SH); reflexivity).
  assert (PAD : padstring l1 = l1).
  { apply (padstring_wline T "connections" _ _ L1); [lia|apply (shape_width _ _ _ _ SH)]. }
  assert (NB : conn_stop (padstring l1) = false).
  { destruct (sp "connections") as [|g0 gs] eqn:S; [discriminate|]. cbn in N0. inversion N0; subst g0.
    destruct (wline_name_head T "connections" f0 gs (unfix_blockname (c_b1 c)) _ l1 S T0 W1 L1) as [rest E].
    unfold conn_stop. rewrite PAD, E, blank_app, W2. cbn [andb orb]. rewrite prefix_app by exact W4. exact W3. }
  split; [exact NB|]. intros acc rest _. split; [|exact I].
  unfold read_conn. rewrite PAD. rewrite (wp T _ _ _ L1).
  rewrite (cvals_nth (sp "connections") (conn_vals c) 0 f0 _ N0 eq_refl), (cf_str _ _ T0 W1).
  rewrite (cvals_nth (sp "connections") (conn_vals c) 1 f1 _ N1 eq_refl), (cf_str _ _ T1 W6).
  cbn [sval]. rewrite (name_ok_fix _ W5), (name_ok_fix _ W7). cbn [bind]. rewrite W8, W9. cbn [andb negb app]. reflexivity.
Qed.

Definition canon_conns (cs : list conn) : list conn := rev (fold_left conn_step cs []).
Theorem conns_roundtrip d body : conns_table_ok = true -> write_conns T d = Ok (kw "CONNE" :: body) ->
  forall d0 rest, forallb (wf_conn (blocks d0)) (conns d) = true ->
  read_conns T d0 (body ++ rest)%list = Ok (set_conns d0 (canon_conns (conns d)), rest).
Proof.
  intros TOK W d0 rest WF. unfold write_conns in W.
  destruct (write_list (write_conn T) (conns d)) as [recs|] eqn:WL; cbn [bind] in W; [|discriminate].
  inversion W; subst body; clear W.
  assert (F : Forall2 (enc_ok (list conn) padstring conn_stop (read_conn T (blocks d0)) conn conn_step (fun _ => True)) (conns d) recs).
  { apply (write_list_Forall2 _ _ _ _ WL). intros x ls Ix Wx. apply conn_roundtrip; auto.
    rewrite forallb_forall in WF. apply WF. exact Ix. }
  unfold read_conns. rewrite <- app_assoc. cbn [app].
  rewrite (list_section padstring conn_stop (read_conn T (blocks d0)) conn_step (conns d) recs [nl] rest [] F eq_refl).
  reflexivity.
Qed.
Corollary canon_conns_distinct cs : all_distinct same_conn (map canon_conn cs) = true -> canon_conns cs = map canon_conn cs.
Proof.
  intro D. unfold canon_conns.
  assert (E : forall acc, fold_left conn_step cs acc = fold_left (add_named same_conn) (map canon_conn cs) acc).
  { clear D. induction cs as [|r rs IH]; intro acc; [reflexivity|]. cbn [fold_left map]. apply IH. }
  rewrite E. apply fold_add_named_fresh. exact D.
Qed.

End WithTable.
