(** C01 -- the hypotheses of the second-file theorems as one boolean, and objects that meet it. *)
From Coq Require Import Ascii String List Bool Arith ZArith NArith Lia.
From PTBase Require Import Exn PyStr PyNum PyVal Fmt FixedFormat.
From Gen Require Import GenTables GenSections.
From P Require Import Comb Obj Fields Idem Sections SectionsB Rec Prog T2DataIO Whole IdemSec IdemSecB IdemMeshm IdemWhole RealStable Example.
Import ListNotations.
Open Scope string_scope.

(** the value conditions of a line program: every (field, value) pair of every record is [field_ok]
    (RealStable.v); [strict]: only the derived cases, no fallback on computing the two texts *)
Definition item_ok (strict : bool) (it : item) : bool :=
  match it with Lit _ => true | Rec k vals | RecK k vals => all_field_ok strict (Sections.sp T0 k) vals end.
Lemma item_ok_spec strict it : item_ok strict it = true -> istable T0 it.
Proof. destruct it as [l|k vals|k vals]; intro H; [exact I| |]; apply (all_field_ok_stable strict); exact H. Qed.
Lemma all_field_ok_weaken specs : forall vals, all_field_ok true specs vals = true -> all_field_ok false specs vals = true.
Proof.
  induction specs as [|f fs IH]; intros [|v vs] H; try reflexivity. cbn [all_field_ok] in *. apply andb_prop in H as [A B].
  rewrite (strict_field_ok f v A), (IH vs B). reflexivity.
Qed.
Lemma item_ok_weaken it : item_ok true it = true -> item_ok false it = true.
Proof. destruct it as [l|k vals|k vals]; intro H; [reflexivity| |]; apply all_field_ok_weaken; exact H. Qed.

(** every hypothesis of [write_idem] / of [write_fixpoint] *)
Definition idem_hyps1_gen (strict : bool) (d : t2d) (ks : list string) : bool :=
  hyps_ok d ks && idem_ok d ks && strs_eqb (update_sections (reread d ks)) (sections (reread d ks)) && forallb (item_ok strict) (prog_file d ks).
Definition idem_hyps1 := idem_hyps1_gen false.
Definition idem_hyps_gen (strict : bool) (d : t2d) (ks : list string) : bool :=
  idem_hyps1_gen strict d ks &&
  (let D := reread d ks in
   title_ok D && chain_ok D ks (start_state D) && idem_ok D ks && strs_eqb (update_sections (reread D ks)) (sections (reread D ks))).
Definition idem_hyps_strict := idem_hyps_gen true.
Definition idem_hyps (d : t2d) (ks : list string) : bool :=
  idem_hyps1 d ks &&
  (let D := reread d ks in
   title_ok D && chain_ok D ks (start_state D) && idem_ok D ks && strs_eqb (update_sections (reread D ks)) (sections (reread D ks))).
Theorem write_idem_checked d ks : idem_hyps1 d ks = true ->
  exists ls ls', write_lines d = Ok ls /\ write_lines (reread d ks) = Ok ls' /\ Forall2 lpad ls ls'.
Proof.
  unfold idem_hyps1, idem_hyps1_gen. intro H. apply andb_prop in H as [H ST]. apply andb_prop in H as [H US]. apply andb_prop in H as [H0 ID].
  destruct (hyps_ok_spec d ks H0) as [ls [W [U [SK [XP [EK [TI CH]]]]]]]. apply strs_eqb_eq in US.
  assert (ST' : Forall (istable T0) (prog_file d ks)).
  { rewrite forallb_forall in ST. apply Forall_forall. intros it I. apply (item_ok_spec false). apply ST. exact I. }
  destruct (write_idem d ks ls W U SK XP CH ID US ST') as [ls' [W' [F _]]]. exists ls, ls'. auto.
Qed.
Theorem write_fixpoint_checked d ks : idem_hyps d ks = true ->
  exists ls ls', write_lines d = Ok ls /\ write_lines (reread d ks) = Ok ls' /\ Forall2 lpad ls ls' /\
    read_lines ls' = Ok (reread (reread d ks) ks) /\ write_lines (reread (reread d ks) ks) = Ok ls'.
Proof.
  unfold idem_hyps, idem_hyps1, idem_hyps1_gen. cbv zeta. intro H. apply andb_prop in H as [H HD].
  apply andb_prop in H as [H ST]. apply andb_prop in H as [H US]. apply andb_prop in H as [H0 ID].
  apply andb_prop in HD as [HD US2]. apply andb_prop in HD as [HD ID2]. apply andb_prop in HD as [TI2 CH2].
  destruct (hyps_ok_spec d ks H0) as [ls [W [U [SK [XP [EK [TI CH]]]]]]]. apply strs_eqb_eq in US. apply strs_eqb_eq in US2.
  assert (ST' : Forall (istable T0) (prog_file d ks)).
  { rewrite forallb_forall in ST. apply Forall_forall. intros it I. apply (item_ok_spec false). apply ST. exact I. }
  destruct (write_fixpoint d ks ls W U SK XP CH ID US ST' EK TI2 CH2 ID2 US2) as [ls' [W' [F [R W2]]]].
  exists ls, ls'. auto.
Qed.

(** the same from the derived value conditions alone *)
Lemma idem_hyps_strict_weaken d ks : idem_hyps_strict d ks = true -> idem_hyps d ks = true.
Proof.
  unfold idem_hyps_strict, idem_hyps_gen, idem_hyps, idem_hyps1, idem_hyps1_gen. intro H. apply andb_prop in H as [H HD]. rewrite HD, andb_true_r.
  apply andb_prop in H as [H ST]. rewrite H. cbn [andb]. rewrite forallb_forall in *. intros it I. apply item_ok_weaken. apply ST. exact I.
Qed.
Theorem write_fixpoint_derived d ks : idem_hyps_strict d ks = true ->
  exists ls ls', write_lines d = Ok ls /\ write_lines (reread d ks) = Ok ls' /\ Forall2 lpad ls ls' /\
    read_lines ls' = Ok (reread (reread d ks) ks) /\ write_lines (reread (reread d ks) ks) = Ok ls'.
Proof. intro H. apply write_fixpoint_checked. apply idem_hyps_strict_weaken. exact H. Qed.

(** every section kind *)
Lemma idem_covered_all k : In k covered -> In k idem_covered.
Proof.
  intros H. unfold covered, covered21 in H. cbn [In app] in H.
  repeat (destruct H as [H|H]; [subst k; cbn; tauto|]). contradiction.
Qed.

(** the two objects of Example.v (all 23 section kinds between them) meet them *)
Example example_tough2_idem_strict : idem_hyps_strict example_tough2 example_tough2_order = true.
Proof. vm_compute. reflexivity. Qed.
Example example_autough2_idem_strict : idem_hyps_strict example_autough2 example_autough2_order = true.
Proof. vm_compute. reflexivity. Qed.
