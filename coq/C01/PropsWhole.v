(** C01 -- property theorems only (whole files: the round trip in the four configurations). *)
From Coq Require Import Ascii String List Bool Arith ZArith NArith.
From PTBase Require Import Exn PyStr PyNum PyVal Fmt FixedFormat.
From Gen Require Import GenTables GenSections.
From P Require Import Comb Obj Fields Idem Sections SectionsB Rec SecRocks SecMesh SecGener SecMisc SecParam SecHist SecSel SecShort SecMeshm T2DataIO Whole Xp Example Bin BinEx.
Import ListNotations.
Open Scope string_scope.


(** ** every section kind through the keyword dispatch: the writer's first line is the keyword line;
    given that line (as read, or padded when it was the PARAM look-ahead) the reader consumes exactly
    the writer's lines (PARAM: plus the next keyword line, handed back as look-ahead) *)
Theorem section_read_write : forall k d d0 lines, In k covered -> wsec d k = Ok lines -> secwf k d d0 = true ->
  exists l0 body, lines = l0 :: body /\ kwline k l0 /\
    if plain k then forall line rest, line = l0 \/ line = padstring l0 ->
                    dispatch d0 k line (body ++ rest)%list = Ok (supd k d d0, None, rest)
    else forall line nextl rest, next_ok0 nextl = true ->
         dispatch d0 k line (body ++ nextl :: rest)%list = Ok (supd k d d0, Some (padstring nextl), rest).
Proof. exact section_step. Qed.
Print Assumptions section_read_write.
Theorem all_section_kinds_covered : forall k, In k t2data_sections <-> In k covered.
Proof. exact covered_all. Qed.
Print Assumptions all_section_kinds_covered.

(** ** THE round trip of the main file (mesh in the file, no extra precision): any subset and order
    [ks] of the 23 section kinds *)
Theorem t2data_read_write : forall d ks ls,
  write_lines d = Ok ls ->
  update_sections d = sections d -> sections d = map s2l ks -> xprec d = [] -> is_end (end_keyword d) = true ->
  title_ok d = true -> chain_ok d ks (start_state d) = true ->
  read_lines ls = Ok (set_end_keyword (final d ks (start_state d)) (end_keyword d)).
Proof. exact read_write_main. Qed.
Print Assumptions t2data_read_write.
(** the hypotheses are met by two concrete objects, one per flavour, in a non-standard order *)
Theorem t2data_read_write_hypotheses_met :
  hyps_ok example_autough2 example_autough2_order = true /\ hyps_ok example_tough2 example_tough2_order = true.
Proof. exact (conj example_autough2_ok example_tough2_ok). Qed.
Print Assumptions t2data_read_write_hypotheses_met.

(** ** writing again what was read: a record *)
Theorem exact_fields_are_stable :
  (forall f z, ft f = Td -> (0 <= fw f)%Z -> fits_int f z = true -> stable f (XInt z)) /\
  (forall f s, ft f = Ts -> fits_str f s = true -> stable f (XStr s)) /\
  (forall f, stable f XNone) /\ (forall f, stable f (rd_field f [])).
Proof. exact (conj stable_int (conj stable_str (conj stable_none stable_missing))). Qed.
Print Assumptions exact_fields_are_stable.
Theorem record_write_idem_partial : forall specs vals s, write_values specs vals = Ok s -> all_stable specs vals ->
  exists t, write_values specs (cvals specs vals) = Ok (s ++ t)%list /\ forallb (fun c => ceqb c " "%char) t = true.
Proof. exact line_rewrite. Qed.
Print Assumptions record_write_idem_partial.
Theorem record_write_fixpoint_partial : forall specs vals l, write_fields specs vals = Ok l -> all_stable specs vals ->
  write_fields specs (cvals specs (cvals specs vals)) = write_fields specs (cvals specs vals).
Proof. exact record_rewrite_fixpoint. Qed.
Print Assumptions record_write_fixpoint_partial.

(** ** the same with the mesh in a separate ASCII file: main file, then ELEME and CONNE from the MESH file *)
Theorem t2data_read_write_meshfile : forall d ks d' fs,
  write_files (mk_wcfg 1 None None) d = Ok (d', fs) ->
  update_sections d = sections d -> main_secs d = map s2l ks -> xprec d = [] -> is_end (end_keyword d) = true ->
  title_ok d = true -> chain_ok d ks (start_state d) = true -> forallb (fun k => negb (k =? "ELEME")) ks = true ->
  let d2 := set_end_keyword (final d ks (start_state d)) (end_keyword d) in
  forallb (wf_block T0 (rocks d2)) (blocks d) = true -> forallb (wf_conn T0 (canon_blocks T0 (blocks d))) (conns d) = true ->
  read_files fs = Ok (mesh_state d d2).
Proof. exact read_write_meshfile. Qed.
Print Assumptions t2data_read_write_meshfile.
Theorem t2data_read_write_meshfile_hypotheses_met :
  hyps_mesh_ok (drop_short example_autough2) (no_mesh example_autough2_order) = true /\
  hyps_mesh_ok (drop_short example_tough2) (no_mesh example_tough2_order) = true.
Proof. exact (conj example_autough2_mesh_ok example_tough2_mesh_ok). Qed.
Print Assumptions t2data_read_write_meshfile_hypotheses_met.

(** ** the extra-precision companion (.pdat) holding the sections [xs], echoed in the main file (b = true) or
    not: SIMUL reads the companion first (with the extra-precision table), the main file's other sections
    follow in any legal order, echoed ones are skipped, the (repaired) reader re-derives the echo flag *)
Theorem extra_precision_section_read_write : forall k d d0 lines, In k xp_kinds -> xpresent k d = true -> wsec1 d k = Ok lines ->
  secwf1 k d d0 = true ->
  exists body, lines = kw k :: body /\
    forall line rest, read_method T1 d0 (rname1 k) line (body ++ rest)%list = Ok (supd1 k d d0, None, rest).
Proof. exact xp_section_step. Qed.
Print Assumptions extra_precision_section_read_write.
Theorem companion_file_read : forall d xs d1 pd, write_sections T1 xp_write_fn_names d (map s2l xs) = Ok pd -> xchain_ok d xs d1 = true ->
  sections d1 = [] -> xecho d1 = true -> read_xp d1 pd = Ok (xp_state d xs d1).
Proof. exact read_xp_pdat. Qed.
Print Assumptions companion_file_read.
Theorem t2data_read_write_extra_precision : forall d xs b ks d' fs,
  write_files (mk_wcfg 0 (Some (map s2l xs)) (Some b)) d = Ok (d', fs) ->
  update_sections d = sections d -> xprec d = [] -> xecho d = true -> autough2 d = true -> xs <> [] ->
  msecs d (map s2l xs) b = map s2l ("SIMUL" :: ks) -> is_end (end_keyword d) = true -> title_ok d = true ->
  secwf "SIMUL" d (start_state d) = true ->
  xchain_ok d xs (simul_state d) = true ->
  chain_okX d ks (push "SIMUL" (xp_state d xs (simul_state d))) = true ->
  read_files fs = Ok (reinfer (set_end_keyword (finalX d ks (push "SIMUL" (xp_state d xs (simul_state d)))) (end_keyword d))).
Proof. exact read_write_xp. Qed.
Print Assumptions t2data_read_write_extra_precision.
Theorem t2data_read_write_extra_precision_hypotheses_met :
  hyps_xp_ok example_autough2 all_xp false (no_xp example_autough2_order) = true /\
  hyps_xp_ok example_autough2 all_xp true (no_simul example_autough2_order) = true.
Proof. exact (conj example_xp_ok example_xp_echo_ok). Qed.
Print Assumptions t2data_read_write_extra_precision_hypotheses_met.

(** ** the grid in the binary pair MESHA / MESHB: the records, then the whole configuration through any
    packing of a record into bytes that unpacks ([unpack_pack]: what struct.pack / struct.unpack and the
    record markers do -- a hypothesis, not modelled) *)
Theorem binary_mesh_records_read_write : forall d RA RB d2,
  write_bin d = Ok (RA, RB) -> wf_bin d d2 = true -> read_bin RA RB d2 = Ok (bin_state d d2).
Proof. exact bin_roundtrip. Qed.
Print Assumptions binary_mesh_records_read_write.
Theorem t2data_read_write_binary_mesh : forall (rbytes : Type) (pack : brec -> rbytes) (unpack : bfmt -> rbytes -> res brec),
  (forall r, brec_ok r = true -> unpack (fmt_of r) (pack r) = Ok r) ->
  forall d ks d' fs RA RB,
  write_files (mk_wcfg 2 None None) d = Ok (d', fs) -> write_bin d = Ok (RA, RB) ->
  update_sections d = sections d -> main_secs d = map s2l ks -> xprec d = [] -> is_end (end_keyword d) = true ->
  title_ok d = true -> chain_ok d ks (start_state d) = true -> forallb (fun k => negb (k =? "ELEME")) ks = true ->
  let d2 := set_end_keyword (final d ks (start_state d)) (end_keyword d) in
  wf_bin d d2 = true -> forallb brec_ok RA = true -> forallb brec_ok RB = true ->
  read_files_bin_bytes rbytes unpack fs (map pack RA) (map pack RB) = Ok (bin_state d d2).
Proof. exact read_write_binary_bytes. Qed.
Print Assumptions t2data_read_write_binary_mesh.
Theorem t2data_read_write_binary_mesh_hypotheses_met :
  hyps_bin_ok (with_centres (drop_short example_autough2)) (no_mesh example_autough2_order) = true /\
  hyps_bin_ok (with_centres (drop_short example_tough2)) (no_mesh example_tough2_order) = true.
Proof. exact (conj example_autough2_bin_ok example_tough2_bin_ok). Qed.
Print Assumptions t2data_read_write_binary_mesh_hypotheses_met.
