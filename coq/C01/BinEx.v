(** C01 -- the hypotheses of the MESHA / MESHB theorem as one boolean, and objects that meet it. *)
From Coq Require Import Ascii String List Bool Arith ZArith NArith Lia.
From PTBase Require Import Exn PyStr PyNum PyVal Fmt FixedFormat.
From Gen Require Import GenTables GenSections.
From P Require Import Comb Obj Fields Sections SectionsB Rec T2DataIO Whole Bin Example.
Import ListNotations.
Open Scope string_scope.

Definition hyps_bin_ok (d : t2d) (ks : list string) : bool :=
  match write_files (mk_wcfg 2 None None) d, write_bin d with
  | Ok _, Ok (RA, RB) =>
      vlist_eqb (map XStr (update_sections d)) (map XStr (sections d)) &&
      vlist_eqb (map XStr (main_secs d)) (map XStr (map s2l ks)) &&
      match xprec d with [] => true | _ => false end &&
      is_end (end_keyword d) && title_ok d && chain_ok d ks (start_state d) && forallb (fun k => negb (k =? "ELEME")) ks &&
      wf_bin d (set_end_keyword (final d ks (start_state d)) (end_keyword d)) && forallb brec_ok RA && forallb brec_ok RB
  | _, _ => false
  end.
(** one boolean in, the round trip out: for any packing of the records that unpacks *)
Theorem read_write_binary_checked d ks : hyps_bin_ok d ks = true ->
  forall (rbytes : Type) (pack : brec -> rbytes) (unpack : bfmt -> rbytes -> res brec),
  (forall r, brec_ok r = true -> unpack (fmt_of r) (pack r) = Ok r) ->
  exists d' fs RA RB, write_files (mk_wcfg 2 None None) d = Ok (d', fs) /\ write_bin d = Ok (RA, RB) /\
    read_files_bin_bytes rbytes unpack fs (map pack RA) (map pack RB) =
      Ok (bin_state d (set_end_keyword (final d ks (start_state d)) (end_keyword d))).
Proof.
  unfold hyps_bin_ok. destruct (write_files (mk_wcfg 2 None None) d) as [[d' fs]|] eqn:W; [|discriminate].
  destruct (write_bin d) as [[RA RB]|] eqn:WB; [|discriminate]. intro H.
  apply andb_prop in H as [H OB]. apply andb_prop in H as [H OA]. apply andb_prop in H as [H WF]. apply andb_prop in H as [H NE].
  apply andb_prop in H as [H CH]. apply andb_prop in H as [H TI]. apply andb_prop in H as [H EK]. apply andb_prop in H as [H XP].
  apply andb_prop in H as [H1 H2]. apply vlist_eqb_eq in H1. apply vlist_eqb_eq in H2. apply map_XStr_inj in H1. apply map_XStr_inj in H2.
  assert (XP' : xprec d = []) by (destruct (xprec d); [reflexivity|discriminate]).
  intros rbytes pack unpack UP. exists d', fs, RA, RB. split; [reflexivity|]. split; [reflexivity|].
  apply (read_write_binary_bytes rbytes pack unpack UP d ks d' fs RA RB); assumption.
Qed.
(** the binary writer needs a centre for every block *)
Definition with_centres (d : t2d) : t2d :=
  set_blocks d (map (fun b => mk_block (b_name b) (b_nseq b) (b_nadd b) (b_rock b) (b_volume b) (b_ahtx b) (b_pmx b)
                                       (match b_centre b with Some c => Some c | None => Some [XReal false 0 0; XInt 3; XReal true 5 (-1)] end)) (blocks d)).
Example example_tough2_bin_ok : hyps_bin_ok (with_centres (drop_short example_tough2)) (no_mesh example_tough2_order) = true.
Proof. vm_compute. reflexivity. Qed.
Example example_autough2_bin_ok : hyps_bin_ok (with_centres (drop_short example_autough2)) (no_mesh example_autough2_order) = true.
Proof. vm_compute. reflexivity. Qed.
