(** C01 -- a real written by ['%w.qe'] (q <= 14 decimals, printed exponent in [-300, 300]) is read
    back by float() as a double that '%w.qe' prints with the same digits and exponent: the text of a
    real field survives read + write.  The string side is x-C02's (RbReadBack.v: float() of the text
    is the printed decimal), the arithmetic side b-C13's (RbSciTrip.v: the double nearest a decimal
    of at most 15 digits prints those digits again); here they are tied to [Comb.strtod] / [Comb.cf]
    and to the precision-lowering loop of fixed_format_file.  [field_ok] is the resulting decidable
    condition on a (field, value) pair, [field_ok_stable] the theorem. *)
From Coq Require Import Ascii String List Bool Arith ZArith NArith Lia QArith Qabs Lqa Qpower.
From PTBase Require Import Exn PyStr PyNum PyVal Fmt FixedFormat.
From P Require Import Comb Fields Idem RbDigits RbSciTrip RbReadBack.
Import ListNotations.
Open Scope Z_scope.

(** ** [Comb.strtod] is [round53], normalised, with overflow to infinity *)
Lemma ge53 num den : 0 < num -> 0 < den ->
  let k0 := Z.log2 num - Z.log2 den in let e0 := k0 - 53 in
  ((if 0 <=? e0 then den * 2 ^ e0 else den) * 2 ^ 53 <=? (if 0 <=? e0 then num else num * 2 ^ (- e0)))
  = (if 0 <=? k0 then den * 2 ^ k0 <=? num else den <=? num * 2 ^ (- k0)).
Proof.
  intros Hn Hd k0 e0. assert (P53 : 0 < 2 ^ 53) by (apply Z.pow_pos_nonneg; lia).
  destruct (0 <=? e0) eqn:E0; [apply Z.leb_le in E0|apply Z.leb_gt in E0].
  - assert (K : (0 <=? k0) = true) by (apply Z.leb_le; unfold e0 in E0; lia). rewrite K.
    replace k0 with (e0 + 53) by (unfold e0; lia). rewrite Z.pow_add_r by lia. rewrite Z.mul_assoc. reflexivity.
  - destruct (0 <=? k0) eqn:K; [apply Z.leb_le in K|apply Z.leb_gt in K].
    + assert (E : 2 ^ 53 = 2 ^ k0 * 2 ^ (- e0)) by (rewrite <- Z.pow_add_r by (unfold e0; lia); f_equal; unfold e0; lia).
      assert (P : 0 < 2 ^ (- e0)) by (apply Z.pow_pos_nonneg; lia).
      rewrite E, Z.mul_assoc. apply Bool.eq_true_iff_eq. rewrite !Z.leb_le. split; intro H; nia.
    + assert (E : 2 ^ (- e0) = 2 ^ (- k0) * 2 ^ 53) by (rewrite <- Z.pow_add_r by lia; f_equal; unfold e0; lia).
      rewrite E, Z.mul_assoc. apply Bool.eq_true_iff_eq. rewrite !Z.leb_le. split; intro H; nia.
Qed.
Lemma strtod_round53 ng N e10 : 0 < N ->
  let nd := fst (dec_nd N e10) in let dd := snd (dec_nd N e10) in
  let m := fst (round53 nd dd) in let k := snd (round53 nd dd) in
  0 < nd -> 0 < dd ->
  strtod ng (Z.to_N N) e10 =
  (if 1024 <? k + Z.log2 m + 1 then XReal ng 0 2 else let '(m', e') := Comb.norm_dy m k in XReal ng m' e').
Proof.
  intros HN nd dd m k Pn Pd. unfold strtod.
  replace (Z.to_N N =? 0)%N with false by (symmetry; apply N.eqb_neq; lia). rewrite Z2N.id by lia.
  assert (EN : (if 0 <=? e10 then N * 10 ^ e10 else N) = nd) by (unfold nd, dec_nd; destruct (0 <=? e10); reflexivity).
  assert (ED : (if 0 <=? e10 then 1 else 10 ^ (- e10)) = dd) by (unfold dd, dec_nd; destruct (0 <=? e10); reflexivity).
  rewrite EN, ED. cbv zeta. rewrite (ge53 nd dd Pn Pd).
  assert (E1 : (if if 0 <=? Z.log2 nd - Z.log2 dd then dd * 2 ^ (Z.log2 nd - Z.log2 dd) <=? nd else dd <=? nd * 2 ^ (- (Z.log2 nd - Z.log2 dd))
               then Z.log2 nd - Z.log2 dd - 53 + 1 else Z.log2 nd - Z.log2 dd - 53) = ilog2 nd dd - 52).
  { unfold ilog2. cbv zeta. destruct (if 0 <=? Z.log2 nd - Z.log2 dd then _ else _); lia. }
  rewrite E1. unfold m, k, round53. cbv zeta. cbn [fst snd].
  set (e2 := Z.max (ilog2 nd dd - 52) (-1074)).
  assert (EM : rhe (if 0 <=? e2 then nd else nd * 2 ^ (- e2)) (if 0 <=? e2 then dd * 2 ^ e2 else dd) =
               (if 0 <=? e2 then rhe nd (dd * 2 ^ e2) else rhe (nd * 2 ^ (- e2)) dd)) by (destruct (0 <=? e2); reflexivity).
  rewrite EM. reflexivity.
Qed.

(** ** normal form keeps the value; no overflow below 10^301 (after b-C13's RealIdem.v) *)
Lemma cstrip2_spec : forall p e, e <= snd (Comb.strip2 p e) /\ 0 < fst (Comb.strip2 p e) /\
  Zpos p = fst (Comb.strip2 p e) * 2 ^ (snd (Comb.strip2 p e) - e).
Proof.
  induction p as [p IH|p IH|]; intro e; cbn [Comb.strip2 fst snd]; try (rewrite Z.sub_diag; repeat split; lia).
  destruct (IH (e + 1)) as [A [P B]]. split; [lia|]. split; [exact P|].
  rewrite Pos2Z.inj_xO, B. replace (snd (Comb.strip2 p (e + 1)) - e) with (1 + (snd (Comb.strip2 p (e + 1)) - (e + 1))) by lia.
  rewrite Z.pow_add_r by lia. change (2 ^ 1) with 2. ring.
Qed.
Open Scope Q_scope.
Lemma Vnd_num_den m e : Vnd (num_den m e) == inject_Z m * B2 ^ e.
Proof.
  pose proof (num_den_Q m e) as H. pose proof (Bq_neg 2 two_gt1 e) as NK.
  assert (X : Vnd (num_den m e) * B2 ^ (- e) * B2 ^ e == Vnd (num_den m e)) by (rewrite <- Qmult_assoc, NK; ring).
  rewrite <- X, H. reflexivity.
Qed.
Lemma norm_dy_value m e : (0 < m)%Z ->
  exists m' e', Comb.norm_dy m e = (m', e') /\ (0 < m')%Z /\ Vnd (num_den m' e') == Vnd (num_den m e).
Proof.
  intro H. destruct m as [|p|p]; try lia. unfold Comb.norm_dy. destruct (cstrip2_spec p e) as [A [P B]].
  destruct (Comb.strip2 p e) as [q e'] eqn:S. cbn [fst snd] in A, P, B. exists q, e'. split; [reflexivity|]. split; [exact P|].
  rewrite !Vnd_num_den. rewrite B. rewrite inject_Z_mult. rewrite (Bq_inj 2) by lia.
  rewrite <- Qmult_assoc. rewrite (Bq_add 2 two_gt1). replace (e' - e + e)%Z with e' by lia. reflexivity.
Qed.
Lemma big_range : B10 ^ 301 * (1 + eps53) < B2 ^ 1024.
Proof. vm_compute. reflexivity. Qed.
Lemma log2_value m e : (0 < m)%Z -> B2 ^ (Z.log2 m + e) <= Vnd (num_den m e).
Proof.
  intro H. rewrite Vnd_num_den. rewrite <- (Bq_add 2 two_gt1). pose proof (Bq_pos 2 two_gt1 e) as P.
  apply Qmult_le_compat_r; [|lra]. rewrite <- (Bq_inj 2) by (apply Z.log2_nonneg). rewrite <- Zle_Qle.
  apply Z.log2_spec. exact H.
Qed.

(** ** THE trip for [Comb.strtod] *)
Theorem strtod_trip p N k ng : (0 <= p <= 14)%Z -> (10 ^ p <= N < 10 ^ (p + 1))%Z -> (-300 <= k <= 300)%Z ->
  exists m' e', strtod ng (Z.to_N N) (k - p) = XReal ng m' e' /\ (0 < m')%Z /\
                sci p (fst (num_den m' e')) (snd (num_den m' e')) = (N, k).
Proof.
  intros Hp HN Hk.
  assert (N0 : (0 < N)%Z) by (assert (0 < 10 ^ p)%Z by (apply Z.pow_pos_nonneg; lia); lia).
  destruct (sci_trip p N k Hp HN ltac:(lia)) as [Mpos [Up Trip]].
  destruct (dec_nd_spec N (k - p) N0) as [Pn [Pd _]].
  rewrite (strtod_round53 ng N (k - p) N0 Pn Pd).
  set (nd := fst (dec_nd N (k - p))) in *. set (dd := snd (dec_nd N (k - p))) in *.
  set (m := fst (round53 nd dd)) in *. set (kk := snd (round53 nd dd)) in *.
  assert (NoOv : (1024 <? kk + Z.log2 m + 1)%Z = false).
  { apply Z.ltb_ge. cut (Z.log2 m + kk < 1024)%Z; [lia|]. apply (Qpower_lt_compat_l_inv B2); [|exact (Bq_gt1 2 two_gt1)].
    eapply Qle_lt_trans; [apply (log2_value m kk Mpos)|]. eapply Qle_lt_trans; [exact Up|].
    eapply Qle_lt_trans; [|exact big_range].
    assert (E0 : 0 < eps53) by reflexivity. apply Qmult_le_compat_r; [|lra].
    assert (A : inject_Z N <= B10 ^ (p + 1)).
    { rewrite <- (Bq_inj 10) by lia. rewrite <- Zle_Qle. lia. }
    pose proof (Bq_pos 10 ten_gt1 (k - p)) as Pc.
    assert (B : B10 ^ (p + 1) * B10 ^ (k - p) == B10 ^ (k + 1)) by (rewrite (Bq_add 10 ten_gt1); replace (p + 1 + (k - p))%Z with (k + 1)%Z by lia; reflexivity).
    assert (C : B10 ^ (k + 1) <= B10 ^ 301) by (apply Qpower_le_compat_l; [lia|pose proof (Bq_gt1 10 ten_gt1); lra]).
    rewrite <- B in C. set (a := B10 ^ (p + 1)) in *. set (c := B10 ^ (k - p)) in *. set (n := inject_Z N) in *. nra. }
  rewrite NoOv. destruct (norm_dy_value m kk Mpos) as [m' [e' [E [M' V]]]]. rewrite E.
  exists m', e'. split; [reflexivity|]. split; [exact M'|].
  apply Trip; [apply num_den_pos_strict; exact M'|apply (RbSciTrip.num_den_pos m' e'); lia|]. exact V.
Qed.
Close Scope Q_scope.

(** ** the precision the writer uses (fixed_format_file lowers it until the text fits) *)
Fixpoint fit_prec (f : fspec) (v : value) (n : nat) : option Z :=
  match n with
  | O => None
  | S k => match fmt_raw f (Z.of_nat k) v with
           | Ok s => if (length s <=? width f)%nat then Some (Z.of_nat k) else fit_prec f v k
           | Raise _ => None end
  end.
Definition used_prec (f : fspec) (v : value) : option Z :=
  match fmt_raw f (prec f) v with
  | Ok s => if (length s <=? width f)%nat then Some (prec f) else fit_prec f v (Z.to_nat (prec f))
  | Raise _ => None
  end.
Lemma fit_prec_loop f v : forall n q, fit_prec f v n = Some q -> exists s, fit_loop f v n = Ok s /\ fmt_raw f q v = Ok s.
Proof.
  induction n as [|n IH]; cbn [fit_loop fit_prec]; intros q H; [discriminate|].
  destruct (fmt_raw f (Z.of_nat n) v) as [t|] eqn:E; [|discriminate].
  destruct (length t <=? width f)%nat; [|apply IH; exact H]. injection H as <-. eauto.
Qed.
Lemma used_fmt f ng m e q : ft f = Te -> used_prec f (XReal ng m e) = Some q ->
  fmt_field f (XReal ng m e) = Ok (fmt_e (fw f) q ng m e).
Proof.
  intros T U. unfold fmt_field. rewrite T. unfold used_prec in U.
  assert (R : forall q, fmt_raw f q (XReal ng m e) = Ok (fmt_e (fw f) q ng m e)) by (intro q'; unfold fmt_raw; rewrite T; reflexivity).
  rewrite R in *. cbn [bind]. destruct (length (fmt_e (fw f) (prec f) ng m e) <=? width f)%nat.
  - injection U as <-. reflexivity.
  - cbn [is_real_ty]. destruct (fit_prec_loop _ _ _ _ U) as [s [F E]]. rewrite F. rewrite R in E. symmetry. exact E.
Qed.
Lemma fmt_e_same q ng m e m' e' : m <> 0 -> m' <> 0 ->
  sci q (fst (num_den m' e')) (snd (num_den m' e')) = sci q (fst (num_den m e)) (snd (num_den m e)) ->
  forall w, fmt_e w q ng m' e' = fmt_e w q ng m e.
Proof.
  intros Hm Hm' S w. unfold fmt_e, fmt_e_body.
  replace (m =? 0) with false by (symmetry; apply Z.eqb_neq; exact Hm).
  replace (m' =? 0) with false by (symmetry; apply Z.eqb_neq; exact Hm').
  destruct (num_den m e) as [n d]. destruct (num_den m' e') as [n' d']. cbn [fst snd] in S. rewrite S. reflexivity.
Qed.
Lemma used_prec_of_text f ng m e m' e' : ft f = Te -> (forall q, fmt_e (fw f) q ng m' e' = fmt_e (fw f) q ng m e) ->
  used_prec f (XReal ng m' e') = used_prec f (XReal ng m e).
Proof.
  intros T H. unfold used_prec.
  assert (R : forall q g mm ee, fmt_raw f q (XReal g mm ee) = Ok (fmt_e (fw f) q g mm ee)) by (intros; unfold fmt_raw; rewrite T; reflexivity).
  rewrite !R, H. destruct (length _ <=? width f)%nat; [reflexivity|].
  generalize (Z.to_nat (prec f)). induction n as [|n IH]; [reflexivity|]. cbn [fit_prec]. rewrite !R, H, IH. reflexivity.
Qed.

(** ** what is read back from the text of a real *)
Lemma cf_real f ng m e q : ft f = Te -> 0 < m -> used_prec f (XReal ng m e) = Some q -> 0 <= q ->
  cf f (XReal ng m e) = strtod ng (Z.to_N (fst (sci q (fst (num_den m e)) (snd (num_den m e)))))
                               (snd (sci q (fst (num_den m e)) (snd (num_den m e))) - q).
Proof.
  intros T Hm U Hq. unfold cf. rewrite (used_fmt f ng m e q T U). unfold rd_field, default_rf. rewrite T.
  destruct (RbSciTrip.num_den_pos m e ltac:(lia)) as [_ Pd]. pose proof (num_den_pos_strict m e Hm) as Pn.
  destruct (sci_spec q _ _ Hq Pn Pd) as [B _]. cbv zeta in B.
  assert (EP : e_parts q m e = sci q (fst (num_den m e)) (snd (num_den m e))).
  { unfold e_parts. replace (m =? 0) with false by (symmetry; apply Z.eqb_neq; lia). reflexivity. }
  rewrite py_float_fmt_e by (try exact Hq; rewrite EP; intros _; exact B). rewrite EP. reflexivity.
Qed.
Lemma cf_zero f ng e q : ft f = Te -> used_prec f (XReal ng 0 e) = Some q -> 0 <= q -> cf f (XReal ng 0 e) = XReal ng 0 0.
Proof.
  intros T U Hq. unfold cf. rewrite (used_fmt f ng 0 e q T U). unfold rd_field, default_rf. rewrite T.
  rewrite py_float_fmt_e by (try exact Hq; congruence). reflexivity.
Qed.

(** THE field theorem: a real whose text has q <= 14 decimals and a decimal exponent within [-300, 300],
    and which is read back as a value printed with q decimals again (always so when q is the precision of
    the table: [full_precision_kept]), is written again with the same text *)
Definition exp10 (q m e : Z) : Z := snd (sci q (fst (num_den m e)) (snd (num_den m e))).
Lemma real_reread f ng m e q : ft f = Te -> 0 < m -> used_prec f (XReal ng m e) = Some q -> 0 <= q <= 14 ->
  -300 <= exp10 q m e <= 300 ->
  exists m' e', cf f (XReal ng m e) = XReal ng m' e' /\ 0 < m' /\ fmt_e (fw f) q ng m' e' = fmt_e (fw f) q ng m e.
Proof.
  intros T Pm U Hq Hk. unfold exp10 in Hk. rewrite (cf_real f ng m e q T Pm U (proj1 Hq)).
  destruct (RbSciTrip.num_den_pos m e ltac:(lia)) as [_ Pd]. pose proof (num_den_pos_strict m e Pm) as Pn.
  destruct (sci_spec q _ _ (proj1 Hq) Pn Pd) as [B _]. cbv zeta in B.
  destruct (sci q (fst (num_den m e)) (snd (num_den m e))) as [N k] eqn:S. cbn [fst snd] in *.
  destruct (strtod_trip q N k ng Hq B Hk) as [m' [e' [E [M' S']]]].
  exists m', e'. split; [exact E|]. split; [exact M'|]. apply fmt_e_same; [lia|lia|]. rewrite S', S. reflexivity.
Qed.
Theorem real_e_stable f ng m e q : ft f = Te -> 0 <= m -> used_prec f (XReal ng m e) = Some q -> 0 <= q <= 14 ->
  (m <> 0 -> -300 <= exp10 q m e <= 300) -> used_prec f (cf f (XReal ng m e)) = Some q ->
  stable f (XReal ng m e).
Proof.
  intros T Hm U Hq Hk U2. unfold stable.
  destruct (Z.eq_dec m 0) as [->|NZ].
  - rewrite (cf_zero f ng e q T U (proj1 Hq)) in *.
    rewrite (used_fmt f ng 0 0 q T U2), (used_fmt f ng 0 e q T U). reflexivity.
  - destruct (real_reread f ng m e q T ltac:(lia) U Hq (Hk NZ)) as [m' [e' [C [M' TQ]]]]. rewrite C in *.
    rewrite (used_fmt f ng m' e' q T U2), (used_fmt f ng m e q T U), TQ. reflexivity.
Qed.
(** at the precision of the table nothing else is needed *)
Theorem full_precision_kept f ng m e : ft f = Te -> 0 <= m -> used_prec f (XReal ng m e) = Some (prec f) -> 0 <= prec f <= 14 ->
  (m <> 0 -> -300 <= exp10 (prec f) m e <= 300) -> used_prec f (cf f (XReal ng m e)) = Some (prec f).
Proof.
  intros T Hm U Hq Hk.
  assert (R : forall g mm ee, fmt_raw f (prec f) (XReal g mm ee) = Ok (fmt_e (fw f) (prec f) g mm ee)) by (intros; unfold fmt_raw; rewrite T; reflexivity).
  assert (FITS : (length (fmt_e (fw f) (prec f) ng m e) <=? width f)%nat = true).
  { unfold used_prec in U. rewrite R in U. destruct (length _ <=? width f)%nat eqn:L; [reflexivity|]. exfalso.
    assert (X : forall n, fit_prec f (XReal ng m e) n = Some (prec f) -> (prec f < Z.of_nat n)).
    { induction n as [|n IH]; cbn [fit_prec]; [discriminate|].
      destruct (fmt_raw f (Z.of_nat n) (XReal ng m e)) as [t|]; [|discriminate].
      destruct (length t <=? width f)%nat; [intro H; injection H as H; lia|intro H; specialize (IH H); lia]. }
    specialize (X _ U). lia. }
  destruct (Z.eq_dec m 0) as [->|NZ].
  - rewrite (cf_zero f ng e (prec f) T U (proj1 Hq)). unfold used_prec. rewrite R.
    change (fmt_e (fw f) (prec f) ng 0 0) with (fmt_e (fw f) (prec f) ng 0 e). rewrite FITS. reflexivity.
  - destruct (real_reread f ng m e (prec f) T ltac:(lia) U Hq (Hk NZ)) as [m' [e' [C [M' TQ]]]]. rewrite C.
    unfold used_prec. rewrite R, TQ, FITS. reflexivity.
Qed.

(** ** 'f' fields: ['%w.qf'] prints the integer N = round (x * 10^q); the double nearest N * 10^-q prints N again
    (N < 10^15: the relative error 2^-53 of the double moves x * 10^q by less than a half) *)
Open Scope Q_scope.
Lemma small_range : B10 ^ 15 * (1 + eps53) < B2 ^ 1024.
Proof. vm_compute. reflexivity. Qed.
Theorem strtod_f_trip p N ng : (0 <= p <= 22)%Z -> (0 < N < 10 ^ 15)%Z ->
  exists m' e', strtod ng (Z.to_N N) (- p) = XReal ng m' e' /\ (0 < m')%Z /\ f_parts p m' e' = N.
Proof.
  intros Hp [N0 NU].
  destruct (dec_nd_spec N (- p) N0) as [Pn [Pd Qd]].
  rewrite (strtod_round53 ng N (- p) N0 Pn Pd).
  set (nd := fst (dec_nd N (- p))) in *. set (dd := snd (dec_nd N (- p))) in *.
  pose proof (Bq_pos 10 ten_gt1 (- p)) as Pc. pose proof (Bq_pos 10 ten_gt1 p) as Pa.
  assert (AC : B10 ^ (- p) * B10 ^ p == 1) by (rewrite (Bq_add 10 ten_gt1); replace (- p + p)%Z with 0%Z by lia; reflexivity).
  assert (N1 : 1 <= inject_Z N) by (change 1 with (inject_Z 1); rewrite <- Zle_Qle; lia).
  assert (NQ : inject_Z N < B10 ^ 15) by (rewrite <- (Bq_inj 10) by lia; rewrite <- Zlt_Qlt; exact NU).
  assert (C1 : B10 ^ (- p) <= 1) by (change 1 with (B10 ^ 0); apply Qpower_le_compat_l; [lia|pose proof (Bq_gt1 10 ten_gt1); lra]).
  assert (RANGE : B2 ^ (-1022) <= qv nd dd).
  { rewrite Qd. pose proof pow_range as PR.
    assert (M : B10 ^ (-307) <= B10 ^ (- p)) by (apply Qpower_le_compat_l; [lia|pose proof (Bq_gt1 10 ten_gt1); lra]).
    set (c := B10 ^ (- p)) in *. set (n := inject_Z N) in *. set (lo := B2 ^ (-1022)) in *. set (t := B10 ^ (-307)) in *.
    assert (0 <= (n - 1) * c) by (apply Qmult_le_0_compat; lra). lra. }
  destruct (round53_rel nd dd Pn Pd RANGE) as [M0 [R1 R2]].
  set (m := fst (round53 nd dd)) in *. set (kk := snd (round53 nd dd)) in *. rewrite Qd in R1, R2.
  set (V := Vnd (num_den m kk)) in *.
  assert (E0 : 0 < eps53) by reflexivity.
  assert (Vpos : 0 < V).
  { set (c := B10 ^ (- p)) in *. set (n := inject_Z N) in *. unfold eps53 in *. assert (0 < n * c) by nra. nra. }
  assert (Mpos : (0 < m)%Z).
  { destruct (Z.eq_dec m 0) as [Z0|NZ]; [|lia]. exfalso. unfold V in Vpos. rewrite Z0 in Vpos. unfold Vnd, num_den, qv in Vpos.
    destruct (0 <=? kk)%Z; cbn [fst snd] in Vpos; rewrite ?Z.mul_0_l in Vpos; unfold Qdiv in Vpos; rewrite Qmult_0_l in Vpos; lra. }
  assert (NoOv : (1024 <? kk + Z.log2 m + 1)%Z = false).
  { apply Z.ltb_ge. cut (Z.log2 m + kk < 1024)%Z; [lia|]. apply (Qpower_lt_compat_l_inv B2); [|exact (Bq_gt1 2 two_gt1)].
    eapply Qle_lt_trans; [apply (log2_value m kk Mpos)|]. fold V. eapply Qle_lt_trans; [exact R2|].
    eapply Qle_lt_trans; [|exact small_range].
    set (c := B10 ^ (- p)) in *. set (n := inject_Z N) in *. set (t := B10 ^ 15) in *. unfold eps53 in *. nra. }
  rewrite NoOv. destruct (norm_dy_value m kk Mpos) as [m' [e' [E [M' VV]]]]. rewrite E. fold V in VV.
  exists m', e'. split; [reflexivity|]. split; [exact M'|].
  unfold f_parts, pow10. pose proof (num_den_pos_strict m' e' M') as Pn'. destruct (RbSciTrip.num_den_pos m' e' ltac:(lia)) as [_ Pd'].
  apply rhe_Q_unique; [apply Z.mul_nonneg_nonneg; [lia|apply Z.pow_nonneg; lia]|exact Pd'|].
  rewrite (qv_scale_num 10) by lia. change (qv (fst (num_den m' e')) (snd (num_den m' e'))) with (Vnd (num_den m' e')). rewrite VV.
  assert (X1 : inject_Z N * (1 - eps53) <= V * B10 ^ p).
  { assert (X : inject_Z N * B10 ^ (- p) * (1 - eps53) * B10 ^ p == inject_Z N * (1 - eps53)).
    { transitivity (inject_Z N * (1 - eps53) * (B10 ^ (- p) * B10 ^ p)); [ring|rewrite AC; ring]. }
    rewrite <- X. apply Qmult_le_compat_r; [exact R1|lra]. }
  assert (X2 : V * B10 ^ p <= inject_Z N * (1 + eps53)).
  { assert (X : inject_Z N * B10 ^ (- p) * (1 + eps53) * B10 ^ p == inject_Z N * (1 + eps53)).
    { transitivity (inject_Z N * (1 + eps53) * (B10 ^ (- p) * B10 ^ p)); [ring|rewrite AC; ring]. }
    rewrite <- X. apply Qmult_le_compat_r; [exact R2|lra]. }
  assert (T15 : B10 ^ 15 == 1000000000000000) by reflexivity. rewrite T15 in NQ.
  set (n := inject_Z N) in *. set (W := V * B10 ^ p) in *. unfold eps53 in *. split; nra.
Qed.
Close Scope Q_scope.
Lemma used_fmt_f f ng m e q : ft f = Tf -> used_prec f (XReal ng m e) = Some q ->
  fmt_field f (XReal ng m e) = Ok (fmt_f (fw f) q ng m e).
Proof.
  intros T U. unfold fmt_field. rewrite T. unfold used_prec in U.
  assert (R : forall q, fmt_raw f q (XReal ng m e) = Ok (fmt_f (fw f) q ng m e)) by (intro q'; unfold fmt_raw; rewrite T; reflexivity).
  rewrite R in *. cbn [bind]. destruct (length (fmt_f (fw f) (prec f) ng m e) <=? width f)%nat.
  - injection U as <-. reflexivity.
  - cbn [is_real_ty]. destruct (fit_prec_loop _ _ _ _ U) as [s [F E]]. rewrite F. rewrite R in E. symmetry. exact E.
Qed.
Lemma fmt_f_same q ng m e m' e' w : f_parts q m' e' = f_parts q m e -> fmt_f w q ng m' e' = fmt_f w q ng m e.
Proof. intro H. unfold fmt_f. rewrite !fmt_f_body_eq, H. reflexivity. Qed.
Lemma real_f_reread f ng m e q : ft f = Tf -> 0 <= m -> used_prec f (XReal ng m e) = Some q -> 0 <= q <= 22 ->
  f_parts q m e < 10 ^ 15 ->
  exists m' e', cf f (XReal ng m e) = XReal ng m' e' /\ fmt_f (fw f) q ng m' e' = fmt_f (fw f) q ng m e.
Proof.
  intros T Hm U Hq HN. unfold cf. rewrite (used_fmt_f f ng m e q T U). unfold rd_field, default_rf. rewrite T.
  destruct (RbSciTrip.num_den_pos m e Hm) as [Pn Pd].
  assert (N0 : 0 <= f_parts q m e) by (unfold f_parts, pow10; apply rhe_nonneg; [apply Z.mul_nonneg_nonneg; [exact Pn|apply Z.pow_nonneg; lia]|exact Pd]).
  rewrite py_float_fmt_f by (try exact N0; lia). cbn [rv2v].
  destruct (Z.eq_dec (f_parts q m e) 0) as [Z0|NZ].
  - rewrite Z0. exists 0, 0. split; [reflexivity|]. apply fmt_f_same. rewrite Z0. unfold f_parts, num_den. cbn [Z.leb fst snd]. rewrite !Z.mul_0_l. reflexivity.
  - destruct (strtod_f_trip q (f_parts q m e) ng Hq ltac:(lia)) as [m' [e' [E [_ P]]]]. exists m', e'. split; [exact E|]. apply fmt_f_same. exact P.
Qed.
Definition used_same (f : fspec) (v : value) (q : Z) : bool :=
  match used_prec f (cf f v) with Some x => x =? q | None => false end.
Theorem real_f_stable f ng m e q : ft f = Tf -> 0 <= m -> used_prec f (XReal ng m e) = Some q -> 0 <= q <= 22 ->
  f_parts q m e < 10 ^ 15 -> used_same f (XReal ng m e) q = true -> stable f (XReal ng m e).
Proof.
  intros T Hm U Hq HN U2. unfold stable. unfold used_same in U2.
  destruct (real_f_reread f ng m e q T Hm U Hq HN) as [m' [e' [C TQ]]]. rewrite C in *.
  destruct (used_prec f (XReal ng m' e')) as [x|] eqn:UX; [|discriminate]. apply Z.eqb_eq in U2. subst x.
  rewrite (used_fmt_f f ng m' e' q T UX), (used_fmt_f f ng m e q T U), TQ. reflexivity.
Qed.
Theorem full_precision_kept_f f ng m e : ft f = Tf -> 0 <= m -> used_prec f (XReal ng m e) = Some (prec f) -> 0 <= prec f <= 22 ->
  f_parts (prec f) m e < 10 ^ 15 -> used_same f (XReal ng m e) (prec f) = true.
Proof.
  intros T Hm U Hq HN.
  assert (R : forall g mm ee, fmt_raw f (prec f) (XReal g mm ee) = Ok (fmt_f (fw f) (prec f) g mm ee)) by (intros; unfold fmt_raw; rewrite T; reflexivity).
  assert (FITS : (length (fmt_f (fw f) (prec f) ng m e) <=? width f)%nat = true).
  { unfold used_prec in U. rewrite R in U. destruct (length _ <=? width f)%nat eqn:L; [reflexivity|]. exfalso.
    assert (X : forall n, fit_prec f (XReal ng m e) n = Some (prec f) -> (prec f < Z.of_nat n)).
    { induction n as [|n IH]; cbn [fit_prec]; [discriminate|].
      destruct (fmt_raw f (Z.of_nat n) (XReal ng m e)) as [t|]; [|discriminate].
      destruct (length t <=? width f)%nat; [intro H; injection H as H; lia|intro H; specialize (IH H); lia]. }
    specialize (X _ U). lia. }
  destruct (real_f_reread f ng m e (prec f) T Hm U Hq HN) as [m' [e' [C TQ]]]. unfold used_same. rewrite C.
  unfold used_prec. rewrite R, TQ, FITS. apply Z.eqb_refl.
Qed.

(** ** names: a name written into its column (padded) is read back padded, and written again as it is *)
Lemma pad_id w s : (Z.to_nat (Z.abs w) <= length s)%nat -> pad w s = s.
Proof.
  intro H. unfold pad. destruct (w <? 0) eqn:E.
  - unfold ljust. apply Z.ltb_lt in E. replace (Z.to_nat (- w) - length s)%nat with 0%nat by lia. apply app_nil_r.
  - unfold rjust. apply Z.ltb_ge in E. replace (Z.to_nat w - length s)%nat with 0%nat by lia. reflexivity.
Qed.
Theorem name_stable f s t : ft f = Ts -> fmt_field f (XStr s) = Ok t -> no_nl t = true -> stable f (XStr s).
Proof.
  intros T F NL. unfold stable. rewrite (cf_of_text f (XStr s) t F), F. unfold rd_field, default_rf. rewrite T. cbn [rv2v].
  pose proof (rstrip_c_clean _ NL) as RC. unfold nl in RC. rewrite RC. clear RC.
  unfold fmt_field in *. rewrite T in *. unfold fmt_raw in *. rewrite T in *. cbn [bind] in *. unfold fmt_str in *.
  destruct (length (pad (fw f) s) <=? width f)%nat eqn:L; [|cbn [is_real_ty] in F; discriminate]. injection F as <-.
  rewrite pad_id by apply pad_length. rewrite L. reflexivity.
Qed.

(** ** the decidable condition on one (field, value) pair.  Derived cases: blanks; integers that fit;
    names without a newline; reals of 'e' / 'f' fields under the conditions of [real_e_stable] / [real_f_stable].
    Anything else (an integer in a real field, a name in a numeric field, ...) falls back on computing both texts. *)
Definition stableb (f : fspec) (v : value) : bool :=
  match fmt_field f (cf f v), fmt_field f v with Ok a, Ok b => str_eqb a b | _, _ => false end.
Lemma stableb_spec f v : stableb f v = true -> stable f v.
Proof.
  unfold stableb, stable. destruct (fmt_field f (cf f v)) as [a|]; [|discriminate]. destruct (fmt_field f v) as [b|]; [|discriminate].
  intro H. apply str_eqb_eq in H. subst. reflexivity.
Qed.
Definition opt_z_eqb (a : option Z) (q : Z) : bool := match a with Some x => x =? q | None => false end.
Definition real_ok (f : fspec) (ng : bool) (m e : Z) : bool :=
  match used_prec f (XReal ng m e) with
  | Some q => (0 <=? m) && (0 <=? q) && (q <=? 14) &&
              (if m =? 0 then true else (-300 <=? exp10 q m e) && (exp10 q m e <=? 300)) &&
              ((q =? prec f) || opt_z_eqb (used_prec f (cf f (XReal ng m e))) q)
  | None => false
  end.
Theorem real_ok_stable f ng m e : ft f = Te -> real_ok f ng m e = true -> stable f (XReal ng m e).
Proof.
  intros T H. unfold real_ok in H. destruct (used_prec f (XReal ng m e)) as [q|] eqn:U; [|discriminate].
  apply andb_prop in H as [H H5]. apply andb_prop in H as [H H4]. apply andb_prop in H as [H H3]. apply andb_prop in H as [H1 H2].
  apply Z.leb_le in H1, H2, H3.
  assert (Hk : m <> 0 -> -300 <= exp10 q m e <= 300).
  { intro NZ. replace (m =? 0) with false in H4 by (symmetry; apply Z.eqb_neq; exact NZ). apply andb_prop in H4 as [A B]. apply Z.leb_le in A, B. lia. }
  apply (real_e_stable f ng m e q T H1 U ltac:(lia) Hk).
  apply orb_prop in H5 as [E|E].
  - apply Z.eqb_eq in E. subst q. apply full_precision_kept; try assumption; lia.
  - unfold opt_z_eqb in E. destruct (used_prec f (cf f (XReal ng m e))) as [x|]; [|discriminate]. apply Z.eqb_eq in E. subst. reflexivity.
Qed.
Definition real_f_ok (f : fspec) (ng : bool) (m e : Z) : bool :=
  match used_prec f (XReal ng m e) with
  | Some q => (0 <=? m) && (0 <=? q) && (q <=? 22) && (f_parts q m e <? 10 ^ 15) &&
              ((q =? prec f) || used_same f (XReal ng m e) q)
  | None => false
  end.
Theorem real_f_ok_stable f ng m e : ft f = Tf -> real_f_ok f ng m e = true -> stable f (XReal ng m e).
Proof.
  intros T H. unfold real_f_ok in H. destruct (used_prec f (XReal ng m e)) as [q|] eqn:U; [|discriminate].
  apply andb_prop in H as [H H5]. apply andb_prop in H as [H H4]. apply andb_prop in H as [H H3]. apply andb_prop in H as [H1 H2].
  apply Z.leb_le in H1, H2, H3. apply Z.ltb_lt in H4.
  apply (real_f_stable f ng m e q T H1 U ltac:(lia) H4).
  apply orb_prop in H5 as [E|E]; [|exact E]. apply Z.eqb_eq in E. subst q. apply full_precision_kept_f; try assumption; lia.
Qed.
(** derived only (no fallback on computing the texts) *)
Definition field_ok_strict (f : fspec) (v : value) : bool :=
  match v, ft f with
  | XNone, _ => true
  | XInt z, Td => (0 <=? fw f) && fits_int f z
  | XStr s, Ts => match fmt_field f v with Ok t => no_nl t | Raise _ => false end
  | XReal ng m e, Te => real_ok f ng m e
  | XReal ng m e, Tf => real_f_ok f ng m e
  | _, _ => false
  end.
Definition field_ok (f : fspec) (v : value) : bool := field_ok_strict f v || stableb f v.
Theorem field_ok_stable f v : field_ok f v = true -> stable f v.
Proof.
  unfold field_ok. intro H. apply orb_prop in H as [H|H]; [|apply stableb_spec; exact H].
  unfold field_ok_strict in H. destruct v as [s|z|ng m e|]; [| | |apply stable_none].
  - destruct (ft f) eqn:T; try discriminate. destruct (fmt_field f (XStr s)) as [t|] eqn:F; [|discriminate]. apply (name_stable f s t T F H).
  - destruct (ft f) eqn:T; try discriminate. apply andb_prop in H as [A B]. apply Z.leb_le in A. apply stable_int; assumption.
  - destruct (ft f) eqn:T; try discriminate; [apply real_ok_stable|apply real_f_ok_stable]; assumption.
Qed.
Fixpoint all_field_ok (strict : bool) (specs : list fspec) (vals : list value) : bool :=
  match specs, vals with
  | f :: fs, v :: vs => (if strict then field_ok_strict f v else field_ok f v) && all_field_ok strict fs vs
  | _, _ => true
  end.
Lemma strict_field_ok f v : field_ok_strict f v = true -> field_ok f v = true.
Proof. unfold field_ok. intro H. rewrite H. reflexivity. Qed.
Theorem all_field_ok_stable strict specs : forall vals, all_field_ok strict specs vals = true -> all_stable specs vals.
Proof.
  induction specs as [|f fs IH]; intros [|v vs] H; try exact I. cbn [all_field_ok] in H. apply andb_prop in H as [A B].
  split; [|apply IH; exact B]. apply field_ok_stable. destruct strict; [apply strict_field_ok|]; exact A.
Qed.
