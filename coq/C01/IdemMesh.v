(** C01 -- writing the re-read object with the grid outside the main file: the ASCII MESH file
    ([write_idem_meshfile]) and the binary pair ([write_idem_binary]).  The main file is the
    line program of IdemWhole.v without ELEME / CONNE; the MESH file is the program of those two;
    the records of the binary pair are reproduced exactly. *)
From Coq Require Import Ascii String List Bool Arith ZArith NArith Lia.
From PTBase Require Import Exn PyStr PyNum PyVal Fmt FixedFormat.
From Gen Require Import GenTables GenSections.
From P Require Import Comb Obj Fields Idem Sections SectionsB Rec Prog SecRocks SecMesh SecGener SecMisc SecParam SecHist SecSel SecShort SecMeshm T2DataIO Whole IdemSec IdemSecB IdemMeshm IdemWhole Bin.
Import ListNotations.
Open Scope string_scope.

Lemma s2l_inj a b : s2l a = s2l b -> a = b.
Proof. intro H. apply (f_equal string_of_list_ascii) in H. unfold s2l in H. rewrite !string_of_list_ascii_of_string in H. exact H. Qed.

(** write() with a MESH file, as an equation *)
Lemma write_files_mesh_eq X : update_sections X = sections X -> xprec X = [] ->
  write_files (mk_wcfg 1 None None) X =
  (do mesh <- (do a <- write_blocks T0 X; do b <- write_conns T0 X; Ok (Some (a +++ b)));
   do all <- write_sections T0 write_fn_names X (main_secs X);
   Ok (set_sections X (sections X), mk_files ((strip (title X) +++ [nl]) :: all ++ [end_keyword X +++ [nl]])%list mesh None)).
Proof.
  intros US XP. unfold write_files. rewrite US. cbn [w_mesh].
  replace (write_blocks T0 (set_sections X (sections X))) with (write_blocks T0 X) by (destruct X; reflexivity).
  replace (write_conns T0 (set_sections X (sections X))) with (write_conns T0 X) by (destruct X; reflexivity).
  destruct (do a <- write_blocks T0 X; do b <- write_conns T0 X; Ok (Some (a +++ b))) as [mesh|]; cbn [bind]; [|reflexivity].
  assert (E : (if autough2 (set_sections X (sections X)) then write_xp (mk_wcfg 1 None None) (set_sections X (sections X))
               else Ok (set_sections X (sections X), None)) = Ok (set_sections X (sections X), None)).
  { destruct (autough2 _); [|reflexivity]. unfold write_xp. cbn [w_xp w_echo].
    replace (xprec (set_sections X (sections X))) with (xprec X) by (destruct X; reflexivity). rewrite XP. reflexivity. }
  rewrite E. cbn [bind].
  replace (xprec (set_sections X (sections X))) with (xprec X) by (destruct X; reflexivity). rewrite XP.
  replace (sections (set_sections X (sections X))) with (sections X) by (destruct X; reflexivity).
  assert (FE : filter (fun k => negb (in_str k mesh_kws) && (negb (in_str k []) || xecho (set_sections X (sections X)))) (sections X) = main_secs X).
  { unfold main_secs. apply filter_ext. intro k. cbn [in_str existsb negb orb]. apply andb_true_r. }
  rewrite FE. rewrite write_sections_sections.
  destruct (write_sections T0 write_fn_names X (main_secs X)) as [all|]; cbn [bind]; [|reflexivity].
  destruct X; reflexivity.
Qed.

(** the state the reader leaves: a section other than ELEME / CONNE is what the main file left *)
Lemma same_for_mesh_state k d d2 Y : In k idem_covered -> k <> "ELEME" -> k <> "CONNE" -> same_for k d2 Y -> same_for k (mesh_state d d2) Y.
Proof.
  intros IN N1 N2. unfold idem_covered, rec_kinds, rec_kinds2, ident_kinds in IN. cbn [In app] in IN.
  repeat (destruct IN as [IN|IN]; [subst k|]); [..|contradiction]; try congruence;
    unfold same_for; cbn [String.eqb Ascii.eqb Bool.eqb]; intro H; rewrite <- H; destruct d2; reflexivity.
Qed.
Lemma mesh_state_facts d d2 :
  xprec (mesh_state d d2) = xprec d2 /\ sections (mesh_state d d2) = (sections d2 ++ [s2l "ELEME"; s2l "CONNE"])%list /\
  title (mesh_state d d2) = title d2 /\ end_keyword (mesh_state d d2) = end_keyword d2 /\ autough2 (mesh_state d d2) = autough2 d2 /\
  blocks (mesh_state d d2) = canon_blocks T0 (blocks d) /\ conns (mesh_state d d2) = canon_conns T0 (conns d).
Proof. unfold mesh_state, push. destruct d2. cbn. rewrite <- app_assoc. repeat split; reflexivity. Qed.

(** the decidable conditions of the second pair of files *)
Definition no_mesh_kind (k : string) : bool := negb (k =? "ELEME") && negb (k =? "CONNE").
Definition idem_mesh_ok (d : t2d) (ks : list string) : bool :=
  let d2 := reread d ks in let X := mesh_state d d2 in
  idem_chain d ks (start_state d) && all_distinct String.eqb ks && forallb no_mesh_kind ks &&
  Bool.eqb (autough2 X) (autough2 d) && strs_eqb (map b_name (blocks X)) (map b_name (blocks d)) &&
  idem_sec d d2 "ELEME" && idem_sec d (push "ELEME" (set_blocks d2 (canon_blocks T0 (blocks d)))) "CONNE".
Definition mesh_prog (d : t2d) : list item := (prog_sec d "ELEME" ++ prog_sec d "CONNE")%list.

Lemma main_secs_mesh_state d d2 ks : sections d2 = map s2l ks -> forallb no_mesh_kind ks = true -> main_secs (mesh_state d d2) = map s2l ks.
Proof.
  intros SD NM. unfold main_secs. destruct (mesh_state_facts d d2) as [_ [S _]]. rewrite S, SD, filter_app.
  assert (A : filter (fun k => negb (in_str k mesh_kws)) [s2l "ELEME"; s2l "CONNE"] = []) by reflexivity. rewrite A, app_nil_r.
  clear S SD. induction ks as [|k ks IH]; [reflexivity|]. cbn [forallb] in NM. apply andb_prop in NM as [K NM].
  cbn [map filter]. rewrite (IH NM). unfold no_mesh_kind in K. apply andb_prop in K as [K1 K2]. apply negb_true_iff in K1, K2.
  assert (E : in_str (s2l k) mesh_kws = false).
  { unfold mesh_kws. cbn [in_str existsb]. rewrite orb_false_r. apply orb_false_iff. split.
    - destruct (str_eqb (s2l k) (s2l "ELEME")) eqn:E; [|reflexivity]. apply str_eqb_eq in E. apply s2l_inj in E. subst k. discriminate K1.
    - destruct (str_eqb (s2l k) (s2l "CONNE")) eqn:E; [|reflexivity]. apply str_eqb_eq in E. apply s2l_inj in E. subst k. discriminate K2. }
  rewrite E. reflexivity.
Qed.

Lemma render_prog_file X ks : render0 (prog_file X ks) =
  (do all <- render0 (flat_map (prog_sec X) ks); Ok ((strip (title X) +++ [nl]) :: all ++ [end_keyword X +++ [nl]])%list).
Proof.
  unfold prog_file. rewrite render_cons. cbn [render1 bind]. rewrite render_app.
  destruct (render0 (flat_map (prog_sec X) ks)) as [all|]; cbn [bind]; [|reflexivity]. unfold Prog.render. cbn [mapM render1 bind]. reflexivity.
Qed.
(** the second write with a MESH file as programs: the re-read object writes the read-back programs of the original
    (no hypothesis on the stability of the values, none on the first write) *)
Theorem mesh_second_write d ks :
  chain_ok d ks (start_state d) = true ->
  let d2 := reread d ks in let X := mesh_state d d2 in
  forallb (wf_block T0 (rocks d2)) (blocks d) = true -> forallb (wf_conn T0 (canon_blocks T0 (blocks d))) (conns d) = true ->
  idem_mesh_ok d ks = true -> update_sections X = sections X ->
  prog_file X ks = map citem0 (prog_file d ks) /\ mesh_prog X = map citem0 (mesh_prog d) /\
  write_files (mk_wcfg 1 None None) X =
    (do ml <- render0 (mesh_prog X); do ls <- render0 (prog_file X ks); Ok (set_sections X (sections X), mk_files ls (Some ml) None)).
Proof.
  intros CH d2 X WB WC ID USX.
  pose proof tables_ok_true as TK. unfold tables_ok in TK. repeat (apply andb_prop in TK as [TK ?]).
  unfold idem_mesh_ok in ID. cbv zeta in ID. fold d2 in ID. fold X in ID.
  apply andb_prop in ID as [ID IC]. apply andb_prop in ID as [ID IE]. apply andb_prop in ID as [ID BN]. apply andb_prop in ID as [ID AX].
  apply andb_prop in ID as [ID NM]. apply andb_prop in ID as [ICH ND]. apply all_distinct_nodup in ND. apply Bool.eqb_prop in AX. apply strs_eqb_eq in BN.
  destruct (idem_chain_all d ks _ ICH) as [COV WFW].
  destruct (reread_facts d ks) as [XD [SD ED]]. fold d2 in XD, SD, ED.
  destruct (mesh_state_facts d d2) as [MX [MS [MT [ME [MA [MB MC]]]]]]. fold X in MX, MS, MT, ME, MA, MB, MC.
  assert (SAME : forall k, In k ks -> exists pre post, ks = (pre ++ k :: post)%list /\ same_for k X (push k (supd k d (final d pre (start_state d))))).
  { intros k IK. destruct (in_split k ks IK) as [pre0 [post0 E0]].
    assert (IC0 := ICH). rewrite E0 in IC0. apply idem_chain_split in IC0 as [IX _].
    destruct (same_for_final k IX ks d (start_state d) (end_keyword d) ND IK) as [pre [post [E SF]]]. exists pre, post. split; [exact E|].
    rewrite forallb_forall in NM. specialize (NM k IK). unfold no_mesh_kind in NM. apply andb_prop in NM as [K1 K2]. apply negb_true_iff in K1, K2.
    apply same_for_mesh_state; [exact IX|intro; subst; discriminate|intro; subst; discriminate|exact SF]. }
  destruct (prog_secs_canon d ks X CH ICH AX BN SAME) as [Q WX].
  assert (PF : prog_file X ks = map citem0 (prog_file d ks)).
  { unfold prog_file. cbn [map citem]. rewrite map_app. cbn [map citem]. rewrite MT, ME, ED.
    destruct (title_final d ks (start_state d)) as [TT _].
    assert (T1 : title d2 = strip (title d)) by (unfold d2, reread; transitivity (title (final d ks (start_state d))); [destruct (final d ks (start_state d)); reflexivity|rewrite TT; reflexivity]).
    rewrite T1. unfold strip at 1. rewrite strip_by_idem. fold (strip (title d)). rewrite Q. reflexivity. }
  assert (IN1 : In "ELEME" idem_covered) by (cbn; tauto). assert (IN2 : In "CONNE" idem_covered) by (cbn; tauto).
  assert (SF1 : same_for "ELEME" X (push "ELEME" (supd "ELEME" d d2))).
  { unfold same_for. cbn [String.eqb Ascii.eqb Bool.eqb]. rewrite MB. unfold push, supd. cbn [String.eqb Ascii.eqb Bool.eqb]. destruct d2; reflexivity. }
  assert (PE : prog_sec X "ELEME" = map citem0 (prog_sec d "ELEME")).
  { refine (proj1 (prog_sec_canon d "ELEME" d2 X IN1 WB IE eq_refl SF1 AX _)). intro; discriminate. }
  set (a := push "ELEME" (set_blocks d2 (canon_blocks T0 (blocks d)))) in *.
  assert (WC' : secwf "CONNE" d a = true).
  { unfold secwf. cbn [String.eqb Ascii.eqb Bool.eqb]. replace (blocks a) with (canon_blocks T0 (blocks d)) by (unfold a; destruct d2; reflexivity). exact WC. }
  assert (SF2 : same_for "CONNE" X (push "CONNE" (supd "CONNE" d a))).
  { unfold same_for. cbn [String.eqb Ascii.eqb Bool.eqb]. rewrite MC. unfold push, supd. cbn [String.eqb Ascii.eqb Bool.eqb]. destruct a; reflexivity. }
  assert (PC : prog_sec X "CONNE" = map citem0 (prog_sec d "CONNE")).
  { refine (proj1 (prog_sec_canon d "CONNE" a X IN2 WC' IC eq_refl SF2 AX _)). intro; discriminate. }
  split; [exact PF|]. split; [unfold mesh_prog; rewrite map_app, PE, PC; reflexivity|].
  assert (MSX : main_secs X = map s2l ks) by (apply main_secs_mesh_state; assumption).
  rewrite (write_files_mesh_eq X USX) by (rewrite MX; exact XD). rewrite MSX, (write_sections_prog X ks COV WX), render_prog_file.
  assert (E1 : wsec X "ELEME" = render0 (prog_sec X "ELEME")) by (apply wsec_prog; [cbn; tauto|reflexivity]).
  assert (E2 : wsec X "CONNE" = render0 (prog_sec X "CONNE")) by (apply wsec_prog; [cbn; tauto|reflexivity]).
  rewrite <- wsec_ELEME, <- wsec_CONNE, E1, E2. unfold mesh_prog. rewrite render_app.
  destruct (render0 (prog_sec X "ELEME")) as [ra|]; cbn [bind]; [|reflexivity].
  destruct (render0 (prog_sec X "CONNE")) as [rb|]; cbn [bind]; [|reflexivity].
  destruct (render0 (flat_map (prog_sec X) ks)) as [all|]; reflexivity.
Qed.
(** the first write as programs *)
Lemma mesh_first_write d ks d' fs : write_files (mk_wcfg 1 None None) d = Ok (d', fs) ->
  update_sections d = sections d -> main_secs d = map s2l ks -> xprec d = [] -> idem_chain d ks (start_state d) = true ->
  exists ls ml, render0 (prog_file d ks) = Ok ls /\ render0 (mesh_prog d) = Ok ml /\ fs = mk_files ls (Some ml) None.
Proof.
  intros W US SK XP ICH. destruct (idem_chain_all d ks _ ICH) as [COV WFW].
  destruct (write_files_mesh_shape d d' fs W US XP) as [all [ml [WS [WM EF]]]]. rewrite SK in WS.
  rewrite (write_sections_prog d ks COV WFW) in WS.
  exists ((strip (title d) +++ [nl]) :: all ++ [end_keyword d +++ [nl]])%list, ml. split; [rewrite render_prog_file, WS; reflexivity|]. split; [|exact EF].
  assert (E1 : wsec d "ELEME" = render0 (prog_sec d "ELEME")) by (apply wsec_prog; [cbn; tauto|reflexivity]).
  assert (E2 : wsec d "CONNE" = render0 (prog_sec d "CONNE")) by (apply wsec_prog; [cbn; tauto|reflexivity]).
  unfold mesh_prog. rewrite render_app, <- E1, <- E2, wsec_ELEME, wsec_CONNE.
  destruct (write_blocks T0 d) as [a|]; cbn [bind] in *; [|discriminate].
  destruct (write_conns T0 d) as [b|]; cbn [bind] in *; [|discriminate]. exact WM.
Qed.
Lemma idem_mesh_chain d ks : idem_mesh_ok d ks = true -> idem_chain d ks (start_state d) = true.
Proof. unfold idem_mesh_ok. cbv zeta. intro H. do 6 (apply andb_prop in H as [H _]). exact H. Qed.

(** the second write with a MESH file: both files are the first ones up to blanks before the newlines *)
Theorem write_idem_meshfile d ks d' fs :
  write_files (mk_wcfg 1 None None) d = Ok (d', fs) ->
  update_sections d = sections d -> main_secs d = map s2l ks -> xprec d = [] ->
  chain_ok d ks (start_state d) = true ->
  let d2 := reread d ks in let X := mesh_state d d2 in
  forallb (wf_block T0 (rocks d2)) (blocks d) = true -> forallb (wf_conn T0 (canon_blocks T0 (blocks d))) (conns d) = true ->
  idem_mesh_ok d ks = true -> update_sections X = sections X ->
  Forall (istable T0) (prog_file d ks) -> Forall (istable T0) (mesh_prog d) ->
  exists d'' fs' m m', write_files (mk_wcfg 1 None None) X = Ok (d'', fs') /\ Forall2 lpad (f_main fs) (f_main fs') /\
    f_mesh fs = Some m /\ f_mesh fs' = Some m' /\ Forall2 lpad m m' /\ f_pdat fs' = None.
Proof.
  intros W US SK XP CH d2 X WB WC ID USX ST1 ST2.
  destruct (mesh_first_write d ks d' fs W US SK XP (idem_mesh_chain d ks ID)) as [ls [ml [R1 [R2 EF]]]]. subst fs.
  destruct (render_rewrite T0 _ _ R1 ST1) as [ls' [R1' F1]]. destruct (render_rewrite T0 _ _ R2 ST2) as [ml' [R2' F2]].
  destruct (mesh_second_write d ks CH WB WC ID USX) as [PF [PM WX]]. fold d2 in PF, PM, WX. fold X in PF, PM, WX.
  rewrite PF, PM, R1', R2' in WX. cbn [bind] in WX.
  eexists _, _, ml, ml'. split; [exact WX|]. cbn [f_main f_mesh f_pdat]. repeat split; assumption.
Qed.
(** ... and from then on byte for byte: the object read from the second pair of files writes the second pair again *)
Theorem write_fixpoint_meshfile d ks d' fs :
  write_files (mk_wcfg 1 None None) d = Ok (d', fs) ->
  update_sections d = sections d -> main_secs d = map s2l ks -> xprec d = [] ->
  chain_ok d ks (start_state d) = true ->
  let d2 := reread d ks in let X := mesh_state d d2 in
  forallb (wf_block T0 (rocks d2)) (blocks d) = true -> forallb (wf_conn T0 (canon_blocks T0 (blocks d))) (conns d) = true ->
  idem_mesh_ok d ks = true -> update_sections X = sections X ->
  Forall (istable T0) (prog_file d ks) -> Forall (istable T0) (mesh_prog d) ->
  let X2 := reread X ks in let Y := mesh_state X X2 in
  chain_ok X ks (start_state X) = true ->
  forallb (wf_block T0 (rocks X2)) (blocks X) = true -> forallb (wf_conn T0 (canon_blocks T0 (blocks X))) (conns X) = true ->
  idem_mesh_ok X ks = true -> update_sections Y = sections Y ->
  exists d'' fs' d3 fs'', write_files (mk_wcfg 1 None None) X = Ok (d'', fs') /\ write_files (mk_wcfg 1 None None) Y = Ok (d3, fs'') /\
    f_main fs'' = f_main fs' /\ f_mesh fs'' = f_mesh fs' /\ f_pdat fs'' = f_pdat fs'.
Proof.
  intros W US SK XP CH d2 X WB WC ID USX ST1 ST2 X2 Y CHX WBX WCX IDX USY.
  destruct (mesh_first_write d ks d' fs W US SK XP (idem_mesh_chain d ks ID)) as [ls [ml [R1 [R2 EF]]]].
  destruct (render_rewrite T0 _ _ R1 ST1) as [ls' [R1' F1]]. destruct (render_rewrite T0 _ _ R2 ST2) as [ml' [R2' F2]].
  destruct (mesh_second_write d ks CH WB WC ID USX) as [PF [PM WX]]. fold d2 in PF, PM, WX. fold X in PF, PM, WX.
  destruct (mesh_second_write X ks CHX WBX WCX IDX USY) as [PF2 [PM2 WY]]. fold X2 in PF2, PM2, WY. fold Y in PF2, PM2, WY.
  rewrite PF, PM, R1', R2' in WX. cbn [bind] in WX.
  rewrite PF2, PM2, PF, PM, (render_fixpoint T0 _ _ R1 ST1), (render_fixpoint T0 _ _ R2 ST2), R1', R2' in WY. cbn [bind] in WY.
  eexists _, _, _, _. split; [exact WX|]. split; [exact WY|]. cbn [f_main f_mesh f_pdat]. repeat split; reflexivity.
Qed.
