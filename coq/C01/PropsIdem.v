(** C01 -- property theorems only (second part: writing again what was read). *)
From Coq Require Import Ascii String List Bool Arith ZArith NArith.
From PTBase Require Import Exn PyStr PyNum PyVal Fmt FixedFormat.
From Gen Require Import GenTables GenSections.
From P Require Import Comb Obj Fields Idem Sections SectionsB Rec SecRocks SecMesh SecGener SecMisc SecParam SecHist SecSel SecShort SecMeshm T2DataIO Whole Xp Example Prog IdemSec IdemSecB IdemMeshm IdemWhole RbReadBack RealStable IdemEx Bin BinEx IdemMesh IdemMeshEx IdemBin IdemBinEx XpWitness.
Import ListNotations.
Open Scope string_scope.


(** ** writing again what was read: the whole file (mesh in the file, no extra precision).
    [reread d ks] is the object t2data.read builds from the file of [d] (by t2data_read_write).  Its file is
    the first file with blanks before some newlines ([lpad]), and is reproduced byte for byte from then on.
    All 23 section kinds ([idem_covered]).  Decidable hypotheses, all of them computed in [idem_hyps]:
    each written value survives the trip ([istable]: its text, read and written again, is the same text --
    proved for integers, names and blanks, computed for reals); [idem_ok]: no field holds the number 0 where
    the reader takes 0 for absent, names fill their columns, lists read back whole, ...; for MESHMAKER the
    agreement of the two line programs is itself computed ([idem_meshm]) *)
Theorem second_file_sections_covered : forall k, In k covered -> In k idem_covered.
Proof. exact idem_covered_all. Qed.
Print Assumptions second_file_sections_covered.
Theorem line_program_write_idem : forall p ls, render T0 p = Ok ls -> Forall (istable T0) p ->
  (exists ls', render T0 (map (citem T0) p) = Ok ls' /\ Forall2 lpad ls ls') /\
  render T0 (map (citem T0) (map (citem T0) p)) = render T0 (map (citem T0) p).
Proof. exact (fun p ls W S => conj (render_rewrite T0 p ls W S) (render_fixpoint T0 p ls W S)). Qed.
Print Assumptions line_program_write_idem.
Theorem t2data_write_idem : forall d ks ls,
  write_lines d = Ok ls -> update_sections d = sections d -> sections d = map s2l ks -> xprec d = [] ->
  chain_ok d ks (start_state d) = true -> idem_ok d ks = true ->
  update_sections (reread d ks) = sections (reread d ks) ->
  Forall (istable T0) (prog_file d ks) ->
  exists ls', write_lines (reread d ks) = Ok ls' /\ Forall2 lpad ls ls' /\ render T0 (map (citem T0) (prog_file d ks)) = Ok ls'.
Proof. exact write_idem. Qed.
Print Assumptions t2data_write_idem.
Theorem t2data_write_fixpoint : forall d ks ls,
  write_lines d = Ok ls -> update_sections d = sections d -> sections d = map s2l ks -> xprec d = [] ->
  chain_ok d ks (start_state d) = true -> idem_ok d ks = true ->
  update_sections (reread d ks) = sections (reread d ks) ->
  Forall (istable T0) (prog_file d ks) ->
  let D := reread d ks in
  is_end (end_keyword d) = true -> title_ok D = true -> chain_ok D ks (start_state D) = true -> idem_ok D ks = true ->
  update_sections (reread D ks) = sections (reread D ks) ->
  exists ls', write_lines D = Ok ls' /\ Forall2 lpad ls ls' /\ read_lines ls' = Ok (reread D ks) /\ write_lines (reread D ks) = Ok ls'.
Proof. exact write_fixpoint. Qed.
Print Assumptions t2data_write_fixpoint.
(** ** the text of a real survives read + write (x-C02's float() of a printed real, b-C13's digits-survive argument,
    tied here to Comb.strtod / Comb.cf and to the precision-lowering loop): '%w.qe' with q <= 14 decimals and a printed
    exponent in [-300, 300]; '%w.qf' printing fewer than 15 digits; both when the re-read value is printed with q
    decimals again, which is proved when q is the precision of the table; names; [field_ok] collects the cases *)
Theorem real_field_text_survives : forall f ng m e q, ft f = Te -> (0 <= m)%Z -> used_prec f (XReal ng m e) = Some q -> (0 <= q <= 14)%Z ->
  (m <> 0%Z -> (-300 <= exp10 q m e <= 300)%Z) -> used_prec f (cf f (XReal ng m e)) = Some q -> stable f (XReal ng m e).
Proof. exact real_e_stable. Qed.
Print Assumptions real_field_text_survives.
Theorem real_field_table_precision_kept : forall f ng m e, ft f = Te -> (0 <= m)%Z -> used_prec f (XReal ng m e) = Some (prec f) ->
  (0 <= prec f <= 14)%Z -> (m <> 0%Z -> (-300 <= exp10 (prec f) m e <= 300)%Z) -> used_prec f (cf f (XReal ng m e)) = Some (prec f).
Proof. exact full_precision_kept. Qed.
Print Assumptions real_field_table_precision_kept.
Theorem fixed_point_field_text_survives : forall f ng m e q, ft f = Tf -> (0 <= m)%Z -> used_prec f (XReal ng m e) = Some q -> (0 <= q <= 22)%Z ->
  (f_parts q m e < 10 ^ 15)%Z -> used_same f (XReal ng m e) q = true -> stable f (XReal ng m e).
Proof. exact real_f_stable. Qed.
Print Assumptions fixed_point_field_text_survives.
Theorem name_field_text_survives : forall f s t, ft f = Ts -> fmt_field f (XStr s) = Ok t -> no_nl t = true -> stable f (XStr s).
Proof. exact name_stable. Qed.
Print Assumptions name_field_text_survives.
Theorem value_conditions_give_stability : forall strict specs vals, all_field_ok strict specs vals = true -> all_stable specs vals.
Proof. exact all_field_ok_stable. Qed.
Print Assumptions value_conditions_give_stability.

(** all of these hypotheses as one boolean, and two objects that meet it.  [idem_hyps] takes [field_ok] for every written
    value ([field_ok_strict], or the two texts computed for the value kinds it does not cover: an integer in a real
    field, ...); [idem_hyps_strict] takes [field_ok_strict] only: no text is computed, the conditions are on the values *)
Theorem t2data_write_idem_checked : forall d ks, idem_hyps d ks = true ->
  exists ls ls', write_lines d = Ok ls /\ write_lines (reread d ks) = Ok ls' /\ Forall2 lpad ls ls' /\
    read_lines ls' = Ok (reread (reread d ks) ks) /\ write_lines (reread (reread d ks) ks) = Ok ls'.
Proof. exact write_fixpoint_checked. Qed.
Print Assumptions t2data_write_idem_checked.
Theorem t2data_write_idem_derived : forall d ks, idem_hyps_strict d ks = true ->
  exists ls ls', write_lines d = Ok ls /\ write_lines (reread d ks) = Ok ls' /\ Forall2 lpad ls ls' /\
    read_lines ls' = Ok (reread (reread d ks) ks) /\ write_lines (reread (reread d ks) ks) = Ok ls'.
Proof. exact write_fixpoint_derived. Qed.
Print Assumptions t2data_write_idem_derived.
Theorem t2data_write_idem_hypotheses_met :
  idem_hyps_strict example_tough2 example_tough2_order = true /\ idem_hyps_strict example_autough2 example_autough2_order = true.
Proof. exact (conj example_tough2_idem_strict example_autough2_idem_strict). Qed.
Print Assumptions t2data_write_idem_hypotheses_met.

(** ** writing again what was read, grid in a separate ASCII MESH file: both files of the second write are the first
    ones up to blanks before the newlines ([mesh_state d (reread d ks)] is what t2data_read_write_meshfile reads) *)
Theorem t2data_write_idem_meshfile : forall d ks d' fs,
  write_files (mk_wcfg 1 None None) d = Ok (d', fs) ->
  update_sections d = sections d -> main_secs d = map s2l ks -> xprec d = [] ->
  chain_ok d ks (start_state d) = true ->
  let d2 := reread d ks in let X := mesh_state d d2 in
  forallb (wf_block T0 (rocks d2)) (blocks d) = true -> forallb (wf_conn T0 (canon_blocks T0 (blocks d))) (conns d) = true ->
  idem_mesh_ok d ks = true -> update_sections X = sections X ->
  Forall (istable T0) (prog_file d ks) -> Forall (istable T0) (mesh_prog d) ->
  exists d'' fs' m m', write_files (mk_wcfg 1 None None) X = Ok (d'', fs') /\ Forall2 lpad (f_main fs) (f_main fs') /\
    f_mesh fs = Some m /\ f_mesh fs' = Some m' /\ Forall2 lpad m m' /\ f_pdat fs' = None.
Proof. exact write_idem_meshfile. Qed.
Print Assumptions t2data_write_idem_meshfile.
Theorem t2data_write_idem_meshfile_checked : forall strict d ks, idem_mesh_hyps strict d ks = true ->
  exists d' fs d'' fs' m m', write_files (mk_wcfg 1 None None) d = Ok (d', fs) /\
    write_files (mk_wcfg 1 None None) (mesh_state d (reread d ks)) = Ok (d'', fs') /\ Forall2 lpad (f_main fs) (f_main fs') /\
    f_mesh fs = Some m /\ f_mesh fs' = Some m' /\ Forall2 lpad m m' /\ f_pdat fs' = None.
Proof. exact write_idem_meshfile_checked. Qed.
Print Assumptions t2data_write_idem_meshfile_checked.
(** from then on byte for byte: the object read from the second pair of files writes the second pair again *)
Theorem t2data_write_fixpoint_meshfile : forall d ks d' fs,
  write_files (mk_wcfg 1 None None) d = Ok (d', fs) ->
  update_sections d = sections d -> main_secs d = map s2l ks -> xprec d = [] ->
  chain_ok d ks (start_state d) = true ->
  let d2 := reread d ks in let X := mesh_state d d2 in
  forallb (wf_block T0 (rocks d2)) (blocks d) = true -> forallb (wf_conn T0 (canon_blocks T0 (blocks d))) (conns d) = true ->
  idem_mesh_ok d ks = true -> update_sections X = sections X ->
  Forall (istable T0) (prog_file d ks) -> Forall (istable T0) (mesh_prog d) ->
  let X2 := reread X ks in let Y := mesh_state X X2 in
  chain_ok X ks (start_state X) = true ->
  forallb (wf_block T0 (rocks X2)) (blocks X) = true -> forallb (wf_conn T0 (canon_blocks T0 (blocks X))) (conns X) = true ->
  idem_mesh_ok X ks = true -> update_sections Y = sections Y ->
  exists d'' fs' d3 fs'', write_files (mk_wcfg 1 None None) X = Ok (d'', fs') /\ write_files (mk_wcfg 1 None None) Y = Ok (d3, fs'') /\
    f_main fs'' = f_main fs' /\ f_mesh fs'' = f_mesh fs' /\ f_pdat fs'' = f_pdat fs'.
Proof. exact write_fixpoint_meshfile. Qed.
Print Assumptions t2data_write_fixpoint_meshfile.
Theorem t2data_write_fixpoint_meshfile_checked : forall strict d ks, idem_mesh_hyps2 strict d ks = true ->
  let X := mesh_state d (reread d ks) in let Y := mesh_state X (reread X ks) in
  exists d'' fs' d3 fs'', write_files (mk_wcfg 1 None None) X = Ok (d'', fs') /\ write_files (mk_wcfg 1 None None) Y = Ok (d3, fs'') /\
    f_main fs'' = f_main fs' /\ f_mesh fs'' = f_mesh fs' /\ f_pdat fs'' = f_pdat fs'.
Proof. exact write_fixpoint_meshfile_checked. Qed.
Print Assumptions t2data_write_fixpoint_meshfile_checked.
Theorem t2data_write_idem_meshfile_hypotheses_met :
  idem_mesh_hyps2 true (drop_short example_tough2) (no_mesh example_tough2_order) = true /\
  idem_mesh_hyps2 true (drop_short example_autough2) (no_mesh example_autough2_order) = true.
Proof. exact (conj example_tough2_mesh_idem example_autough2_mesh_idem). Qed.
Print Assumptions t2data_write_idem_meshfile_hypotheses_met.

(** ** ... and grid in the binary pair: the main file up to blanks before the newlines, the records of MESHA / MESHB exactly
    ([bin_state d (reread d ks)] is what t2data_read_write_binary_mesh reads) *)
Theorem binary_mesh_records_written_again : forall d d2 RA RB, write_bin d = Ok (RA, RB) ->
  map r_name (rocks d2) = map r_name (rocks d) -> write_bin (bin_state d d2) = Ok (RA, RB).
Proof. exact write_bin_again. Qed.
Print Assumptions binary_mesh_records_written_again.
Theorem t2data_write_idem_binary_mesh : forall d ks d' fs RA RB,
  write_files (mk_wcfg 2 None None) d = Ok (d', fs) -> write_bin d = Ok (RA, RB) ->
  update_sections d = sections d -> main_secs d = map s2l ks -> xprec d = [] ->
  chain_ok d ks (start_state d) = true -> idem_bin_ok d ks = true ->
  Forall (istable T0) (prog_file d ks) ->
  let X := bin_state d (reread d ks) in
  exists d'' fs', write_files (mk_wcfg 2 None None) X = Ok (d'', fs') /\ Forall2 lpad (f_main fs) (f_main fs') /\
    f_mesh fs' = None /\ f_pdat fs' = None /\ write_bin X = Ok (RA, RB).
Proof. exact write_idem_binary. Qed.
Print Assumptions t2data_write_idem_binary_mesh.
Theorem t2data_write_idem_binary_mesh_checked : forall strict d ks, idem_bin_hyps strict d ks = true ->
  exists d' fs RA RB d'' fs', write_files (mk_wcfg 2 None None) d = Ok (d', fs) /\ write_bin d = Ok (RA, RB) /\
    write_files (mk_wcfg 2 None None) (bin_state d (reread d ks)) = Ok (d'', fs') /\ Forall2 lpad (f_main fs) (f_main fs') /\
    f_mesh fs' = None /\ f_pdat fs' = None /\ write_bin (bin_state d (reread d ks)) = Ok (RA, RB).
Proof. exact write_idem_binary_checked. Qed.
Print Assumptions t2data_write_idem_binary_mesh_checked.
Theorem t2data_write_fixpoint_binary_mesh : forall d ks d' fs RA RB,
  write_files (mk_wcfg 2 None None) d = Ok (d', fs) -> write_bin d = Ok (RA, RB) ->
  update_sections d = sections d -> main_secs d = map s2l ks -> xprec d = [] ->
  chain_ok d ks (start_state d) = true -> idem_bin_ok d ks = true ->
  Forall (istable T0) (prog_file d ks) ->
  let X := bin_state d (reread d ks) in let Y := bin_state X (reread X ks) in
  chain_ok X ks (start_state X) = true -> idem_bin_ok X ks = true ->
  exists d'' fs' d3 fs'', write_files (mk_wcfg 2 None None) X = Ok (d'', fs') /\ write_files (mk_wcfg 2 None None) Y = Ok (d3, fs'') /\
    fs'' = fs' /\ write_bin X = Ok (RA, RB) /\ write_bin Y = Ok (RA, RB).
Proof. exact write_fixpoint_binary. Qed.
Print Assumptions t2data_write_fixpoint_binary_mesh.
Theorem t2data_write_fixpoint_binary_mesh_checked : forall strict d ks, idem_bin_hyps2 strict d ks = true ->
  let X := bin_state d (reread d ks) in let Y := bin_state X (reread X ks) in
  exists RA RB d'' fs' d3 fs'', write_bin d = Ok (RA, RB) /\
    write_files (mk_wcfg 2 None None) X = Ok (d'', fs') /\ write_files (mk_wcfg 2 None None) Y = Ok (d3, fs'') /\
    fs'' = fs' /\ write_bin X = Ok (RA, RB) /\ write_bin Y = Ok (RA, RB).
Proof. exact write_fixpoint_binary_checked. Qed.
Print Assumptions t2data_write_fixpoint_binary_mesh_checked.
Theorem t2data_write_idem_binary_mesh_hypotheses_met :
  idem_bin_hyps2 true (with_centres (drop_short example_tough2)) (no_mesh example_tough2_order) = true /\
  idem_bin_hyps2 true (with_centres (drop_short example_autough2)) (no_mesh example_autough2_order) = true.
Proof. exact (conj example_tough2_bin_idem example_autough2_bin_idem). Qed.
Print Assumptions t2data_write_idem_binary_mesh_hypotheses_met.

(** ** the extra-precision companion: no second-write theorem is proved; what can NOT hold is refuted by a witness
    computed in the model (finding write:echoed-copy-double-rounding): with ROCKS and ELEME in the companion and echoed,
    the block volume 1.234549999999 is '1.2345e+00' in the first main file and '1.2346e+00' in the second (the re-read
    object holds the companion's 1.23455), while the companion is reproduced; without the echo, and with values of at
    most 4 digits, both files are reproduced (controls, on this one object) *)
Theorem echoed_copy_second_write_refuted :
  main_same (two_writes (xp_eleme true) witness_obj) = Some false /\ pdat_same (two_writes (xp_eleme true) witness_obj) = Some true.
Proof. exact echoed_copy_refuted. Qed.
Print Assumptions echoed_copy_second_write_refuted.
Theorem extra_precision_second_write_controls :
  (main_same (two_writes (xp_eleme false) witness_obj) = Some true /\ pdat_same (two_writes (xp_eleme false) witness_obj) = Some true) /\
  (main_same (two_writes (xp_eleme true) example_autough2) = Some true /\ pdat_same (two_writes (xp_eleme true) example_autough2) = Some true).
Proof. exact (conj not_echoed_reproduced echoed_short_values_reproduced). Qed.
Print Assumptions extra_precision_second_write_controls.
