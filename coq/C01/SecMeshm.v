(** C01 -- MESHMAKER: RZ2D (RADII / EQUID / LOGAR ... LAYER), XYZ (NX / NY / NZ lines with
    their optional increment lists) and MINC (PART line, partition line, volume fractions),
    lists eight per line. *)
From Coq Require Import Ascii String List Bool Arith ZArith NArith Lia.
From PTBase Require Import Exn PyStr PyNum PyVal Fmt FixedFormat.
From Gen Require Import GenSections.
From P Require Import Comb Obj Fields Sections SectionsB Rec SecRocks SecMesh SecGener SecMisc SecHist.
Import ListNotations.
Open Scope string_scope.

Lemma mapM_cons {A B} (f : A -> res B) x xs l : mapM f (x :: xs) = Ok l ->
  exists a b, f x = Ok a /\ mapM f xs = Ok b /\ l = a :: b.
Proof.
  cbn [mapM]. destruct (f x) as [a|]; cbn [bind]; [|discriminate]. destruct (mapM f xs) as [b|]; cbn [bind]; [|discriminate].
  intro H. inv_ok H. eauto.
Qed.
(** a written record parsed without its newline (MINC's PART line is stripped before it is parsed) *)
Lemma parse_exact specs : forall vals l pre, write_fields specs vals = Ok l -> (length specs <= length vals)%nat ->
  map (fun p => rd_field (fst p) (snd p))
      (combine specs (map (fun ab => slice (fst ab) (snd ab) (pre ++ concat l)%list) (line_spec (length pre) (map width specs))))
  = cvals specs vals.
Proof.
  induction specs as [|f fs IH]; intros vals l pre W L; [destruct vals; reflexivity|].
  destruct vals as [|v vs]; [cbn in L; lia|]. cbn [write_fields] in W.
  destruct (fmt_field f v) as [s0|] eqn:E; cbn [bind] in W; [|discriminate].
  destruct (write_fields fs vs) as [r|] eqn:R; cbn [bind] in W; [|discriminate]. inv_ok W.
  cbn [map line_spec combine fst snd cvals concat]. f_equal.
  - unfold cf. rewrite E. f_equal. pose proof (fmt_field_width _ _ _ E) as WD.
    rewrite <- WD. rewrite <- (Nat.add_0_r (length pre)) at 1. rewrite slice_app_skip.
    unfold slice. cbn [skipn]. rewrite Nat.sub_0_r, firstn_app, firstn_all, Nat.sub_diag. cbn [firstn]. apply app_nil_r.
  - pose proof (fmt_field_width _ _ _ E) as WD. specialize (IH vs r (pre ++ s0)%list R). rewrite app_length, WD in IH.
    rewrite <- IH by (cbn in L; lia). rewrite <- app_assoc. reflexivity.
Qed.
Lemma pline_exact T k vals s : write_values (Sections.sp T k) vals = Ok s -> (length (Sections.sp T k) <= length vals)%nat ->
  pline T k s = cvals (Sections.sp T k) vals.
Proof.
  unfold write_values. intros W L. destruct (write_fields (Sections.sp T k) vals) as [l|] eqn:E; cbn [bind] in W; [|discriminate]. inv_ok W.
  unfold pline, parse, parse_string, field_slices. fold (Sections.sp T k). rewrite map_map.
  pose proof (parse_exact _ _ _ [] E L) as P. cbn [app length] in P. rewrite <- P. apply map_ext. intros [f x]. reflexivity.
Qed.
(** [line.strip()] of a written line whose text starts and ends with a visible character *)
Lemma strip_line s c r c' r' : s = c :: r -> rev s = c' :: r' -> is_space c = false -> is_space c' = false ->
  strip (s ++ [nl])%list = s.
Proof.
  intros E1 E2 S1 S2. unfold strip, strip_by, rstrip_by.
  assert (A : lstrip_by is_space (s ++ [nl])%list = (s ++ [nl])%list) by (rewrite E1; cbn [app lstrip_by]; rewrite S1; reflexivity).
  rewrite A, rev_app_distr. change (rev [nl]) with [nl]. cbn [app lstrip_by]. change (is_space nl) with true. cbv iota.
  rewrite E2. cbn [lstrip_by]. rewrite S2. rewrite <- E2. apply rev_involutive.
Qed.
(** [l[0:n]] *)
Definition take (n : Z) (l : list value) : list value := pyslice (Some 0%Z) (Some n) l.

Section WithTable.
Variable T : table.
Notation sp := (sp T).
Notation nm := (nm T).

(** ** RZ2D *)
Definition rz_table_ok : bool :=
  shape_ok T "radii1" [Td] 0 && shape_ok T "layer1" [Td] 0 && uniform T "radii2" (chunk_of "write_meshmaker_rz2d") &&
  (0 <? chunk_of "write_meshmaker_rz2d")%nat && (chunk_of "read_meshmaker_rz2d" =? chunk_of "write_meshmaker_rz2d")%nat.
Definition crz := chunk_of "write_meshmaker_rz2d".
Definition rz_lines (n : nat) : nat := nlines_z (Z.of_nat crz) (Z.of_nat n).
Definition is_layer (x : str * dict * list value) : bool := str_eqb (fst (fst x)) (s2l "layer").
Definition is_mid (x : str * dict * list value) : bool :=
  let s := fst (fst x) in str_eqb s (s2l "radii") || str_eqb s (s2l "equid") || str_eqb s (s2l "logar").
Definition count_fits (k : string) (n : nat) : bool :=
  match sp k with f :: _ => fits_int f (Z.of_nat n) | [] => false end.
Definition wf_rz_sub (x : str * dict * list value) : bool :=
  let '(s, _, l) := x in
  if str_eqb s (s2l "radii") then count_fits "radii1" (length l)
  else if str_eqb s (s2l "layer") then count_fits "layer1" (length l) else true.
Definition canon_mid (x : str * dict * list value) : list (str * dict * list value) :=
  let '(s, dct, l) := x in
  if str_eqb s (s2l "radii") then [(s2l "radii", [], ctab T "radii2" l)]
  else if str_eqb s (s2l "equid") then
    match dict_update [] (nm "equid") (cvals (sp "equid") (dict_vals dct (nm "equid"))) with [] => [] | d' => [(s2l "equid", d', [])] end
  else match dict_update [] (nm "logar") (cvals (sp "logar") (dict_vals dct (nm "logar"))) with [] => [] | d' => [(s2l "logar", d', [])] end.
Definition canon_layer (x : str * dict * list value) : str * dict * list value :=
  let n := length (snd x) in
  (s2l "layer", [], take (Z.of_nat n) (chunk_cells (sp "layer2") crz (rz_lines n) (snd x))).
Fixpoint wf_rz (subs : list (str * dict * list value)) : bool :=
  match subs with
  | [] => false
  | [x] => is_layer x && wf_rz_sub x
  | x :: r => is_mid x && wf_rz_sub x && wf_rz r
  end.
Fixpoint canon_rz (subs : list (str * dict * list value)) : list (str * dict * list value) :=
  match subs with
  | [] => []
  | [x] => [canon_layer x]
  | x :: r => (canon_mid x ++ canon_rz r)%list
  end.

Lemma count_back k n l1 : shape_ok T k [Td] 0 = true -> count_fits k n = true -> wline T k [XInt (Z.of_nat n)] = Ok l1 ->
  vnth (pline T k l1) 0 = XInt (Z.of_nat n).
Proof.
  intros SH CF W. destruct (shape_nth _ _ _ _ 0 Td SH eq_refl) as [f [N0 [Ty P]]]. specialize (P eq_refl).
  unfold count_fits in CF. fold (sp k) in N0. destruct (sp k) as [|g gs] eqn:S; [discriminate|]. cbn in N0. inversion N0; subst g.
  rewrite (wp T _ _ _ W). fold (sp k). rewrite S. cbn [cvals vnth nth]. apply cf_int; assumption.
Qed.

Lemma rz_mid_step x ls : rz_table_ok = true -> write_rz2d_sub T x = Ok ls -> is_mid x = true -> wf_rz_sub x = true ->
  forall f acc rest, read_rz2d T (S f) acc (ls ++ rest)%list = read_rz2d T f (rev (canon_mid x) ++ acc)%list rest.
Proof.
  intros TOK W M WF f acc rest. unfold rz_table_ok in TOK.
  apply andb_prop in TOK as [TOK CE]. apply andb_prop in TOK as [TOK CP]. apply andb_prop in TOK as [TOK U].
  apply andb_prop in TOK as [S1 S2]. apply Nat.eqb_eq in CE. apply Nat.ltb_lt in CP.
  destruct x as [[s dct] l]. unfold is_mid in M. cbn [fst] in M. unfold write_rz2d_sub in W. unfold wf_rz_sub in WF. unfold canon_mid.
  destruct (str_eqb s (s2l "radii")) eqn:E1.
  - apply str_eqb_eq in E1. subst s.
    destruct (wline T "radii1" [XInt (Z.of_nat (length l))]) as [l1|] eqn:L1; cbn [bind] in W; [|discriminate].
    fold crz in W. fold (rz_lines (length l)) in W.
    destruct (write_chunks (sp "radii2") crz (rz_lines (length l)) l) as [ch|] eqn:CH; cbn [bind] in W; [|discriminate]. inv_ok W.
    cbn [app read_rz2d readline]. change (strip (slice 0 5 (upper (s2l "radii") +++ [nl]))) with (s2l "RADII").
    change (str_eqb (s2l "RADII") (s2l "RADII")) with true. cbv iota.
    rewrite (count_back "radii1" _ l1 S1 WF L1). cbn [ceil_div bind]. rewrite CE. fold crz. fold (rz_lines (length l)).
    rewrite (tab_roundtrip T "radii2" crz (rz_lines (length l)) l ch rest U CP (nlines_cover crz _ l CP eq_refl) CH).
    reflexivity.
  - destruct (str_eqb s (s2l "equid")) eqn:E2.
    + apply str_eqb_eq in E2. subst s.
      destruct (wline T "equid" (dict_vals dct (nm "equid"))) as [l1|] eqn:L1; cbn [bind] in W; [|discriminate]. inv_ok W.
      cbn [app read_rz2d readline]. change (strip (slice 0 5 (upper (s2l "equid") +++ [nl]))) with (s2l "EQUID").
      change (str_eqb (s2l "EQUID") (s2l "RADII")) with false. change (str_eqb (s2l "EQUID") (s2l "EQUID")) with true. cbv iota.
      rewrite (wp T _ _ _ L1).
      destruct (dict_update [] (nm "equid") (cvals (sp "equid") (dict_vals dct (nm "equid")))); reflexivity.
    + destruct (str_eqb s (s2l "logar")) eqn:E3; [|discriminate M].
      apply str_eqb_eq in E3. subst s. change (str_eqb (s2l "logar") (s2l "layer")) with false in W. cbv iota in W.
      destruct (wline T "logar" (dict_vals dct (nm "logar"))) as [l1|] eqn:L1; cbn [bind] in W; [|discriminate]. inv_ok W.
      cbn [app read_rz2d readline]. change (strip (slice 0 5 (upper (s2l "logar") +++ [nl]))) with (s2l "LOGAR").
      change (str_eqb (s2l "LOGAR") (s2l "RADII")) with false. change (str_eqb (s2l "LOGAR") (s2l "EQUID")) with false.
      change (str_eqb (s2l "LOGAR") (s2l "LOGAR")) with true. cbv iota.
      rewrite (wp T _ _ _ L1).
      destruct (dict_update [] (nm "logar") (cvals (sp "logar") (dict_vals dct (nm "logar")))); reflexivity.
Qed.
Lemma rz_layer_step x ls : rz_table_ok = true -> write_rz2d_sub T x = Ok ls -> is_layer x = true -> wf_rz_sub x = true ->
  forall f acc rest, read_rz2d T (S f) acc (ls ++ rest)%list = Ok (rev (canon_layer x :: acc), rest).
Proof.
  intros TOK W M WF f acc rest. unfold rz_table_ok in TOK.
  apply andb_prop in TOK as [TOK CE]. apply andb_prop in TOK as [TOK CP]. apply andb_prop in TOK as [TOK U].
  apply andb_prop in TOK as [S1 S2]. apply Nat.eqb_eq in CE.
  destruct x as [[s dct] l]. unfold is_layer in M. cbn [fst] in M. apply str_eqb_eq in M. subst s.
  unfold write_rz2d_sub in W. unfold wf_rz_sub in WF.
  change (str_eqb (s2l "layer") (s2l "radii")) with false in *. change (str_eqb (s2l "layer") (s2l "equid")) with false in *.
  change (str_eqb (s2l "layer") (s2l "logar")) with false in *. change (str_eqb (s2l "layer") (s2l "layer")) with true in *. cbv iota in *.
  destruct (wline T "layer1" [XInt (Z.of_nat (length l))]) as [l1|] eqn:L1; cbn [bind] in W; [|discriminate].
  fold crz in W. fold (rz_lines (length l)) in W.
  destruct (write_chunks (sp "layer2") crz (rz_lines (length l)) l) as [ch|] eqn:CH; cbn [bind] in W; [|discriminate]. inv_ok W.
  cbn [app read_rz2d readline]. change (strip (slice 0 5 (upper (s2l "layer") +++ [nl]))) with (s2l "LAYER").
  change (str_eqb (s2l "LAYER") (s2l "RADII")) with false. change (str_eqb (s2l "LAYER") (s2l "EQUID")) with false.
  change (str_eqb (s2l "LAYER") (s2l "LOGAR")) with false. change (str_eqb (s2l "LAYER") (s2l "LAYER")) with true. cbv iota.
  rewrite (count_back "layer1" _ l1 S2 WF L1). cbn [ceil_div bind]. rewrite CE. fold crz. fold (rz_lines (length l)).
  destruct (chunks_roundtrip_cells _ _ _ _ _ rest CH) as [_ A]. rewrite A. cbn [take_z bind]. reflexivity.
Qed.
Theorem rz2d_roundtrip subs : rz_table_ok = true -> wf_rz subs = true ->
  forall lss, mapM (write_rz2d_sub T) subs = Ok lss ->
  forall fuel acc rest, (length subs <= fuel)%nat ->
  read_rz2d T fuel acc (concat lss ++ rest)%list = Ok ((rev acc ++ canon_rz subs)%list, rest).
Proof.
  intros TOK. induction subs as [|x r IH]; intros WF lss W fuel acc rest F; [discriminate|].
  destruct (mapM_cons _ _ _ _ W) as [a [b [Wa [Wb E]]]]. subst lss. cbn [concat]. rewrite <- app_assoc.
  destruct fuel as [|fuel]; [cbn in F; lia|].
  destruct r as [|y r'].
  - cbn [wf_rz] in WF. apply andb_prop in WF as [L WS]. cbn [mapM] in Wb. inv_ok Wb. cbn [concat app].
    rewrite (rz_layer_step x a TOK Wa L WS). cbn [rev canon_rz]. reflexivity.
  - change (wf_rz (x :: y :: r')) with (is_mid x && wf_rz_sub x && wf_rz (y :: r')) in WF.
    apply andb_prop in WF as [WF WR]. apply andb_prop in WF as [M WS].
    rewrite (rz_mid_step x a TOK Wa M WS). rewrite (IH WR b Wb fuel _ rest) by (cbn [length] in F |- *; lia).
    change (canon_rz (x :: y :: r')) with (canon_mid x ++ canon_rz (y :: r'))%list.
    rewrite rev_app_distr, rev_involutive, <- app_assoc. reflexivity.
Qed.

(** ** XYZ *)
Definition xyz_table_ok : bool :=
  shape_ok T "xyz2" [Ts; Tx; Td; Te] 0 && names_eqb (nm "xyz2") ["ntype"; ""; "no"; "del"] &&
  (chunk_of "read_meshmaker_xyz" =? chunk_of "write_meshmaker_xyz")%nat.
Definition cxyz := chunk_of "write_meshmaker_xyz".
Definition xyz_vals (dct : dict) : list value := [dgetv dct "ntype"; dgetv dct ""; dgetv dct "no"; dgetv dct "del"].
Definition canon_xyz_sub (x : dict * list value) : dict * list value :=
  let v := cvals (sp "xyz2") (xyz_vals (fst x)) in
  ([("ntype", vnth v 0); ("no", vnth v 2); ("del", vnth v 3)],
   if v_eq0 (vnth v 3) then
     match dgetv (fst x) "no" with
     | XInt z => take z (chunk_cells (sp "xyz3") cxyz (nlines_z (Z.of_nat cxyz) z) (firstn (Z.to_nat z) (snd x)))
     | _ => [] end
   else []).
Definition wf_xyz_sub (x : dict * list value) : bool :=
  match nth_error (sp "xyz2") 0, nth_error (sp "xyz2") 2, nth_error (sp "xyz2") 3, dget (fst x) "ntype", dget (fst x) "del" with
  | Some f0, Some f2, Some f3, Some (XStr nt), Some dl =>
      fits_str f0 nt && negb (blank nt) &&
      Bool.eqb (v_eq0 (cf f3 dl)) (v_eq0 dl) &&
      (if v_eq0 dl then match dget (fst x) "no" with Some (XInt z) => fits_int f2 z | _ => false end else true)
  | _, _, _, _, _ => false
  end.
Lemma xyz_sub_step x ls : xyz_table_ok = true -> write_xyz_sub T x = Ok ls -> wf_xyz_sub x = true ->
  forall f acc rest, read_xyz T (S f) acc (ls ++ rest)%list = read_xyz T f (canon_xyz_sub x :: acc) rest.
Proof.
  intros TOK W WF f acc rest. unfold xyz_table_ok in TOK. apply andb_prop in TOK as [TOK CE]. apply andb_prop in TOK as [SH NM].
  apply Nat.eqb_eq in CE. apply names_eqb_eq in NM.
  destruct (shape_nth _ _ _ _ 0 Ts SH eq_refl) as [f0 [N0 [T0 _]]].
  destruct (shape_nth _ _ _ _ 2 Td SH eq_refl) as [f2 [N2 [T2 P2]]]. specialize (P2 eq_refl).
  destruct (shape_nth _ _ _ _ 3 Te SH eq_refl) as [f3 [N3 [T3 _]]].
  destruct x as [dct deli]. unfold wf_xyz_sub in WF. cbn [fst] in WF. fold (sp "xyz2") in N0, N2, N3. rewrite N0, N2, N3 in WF.
  destruct (dget dct "ntype") as [[nt| | |]|] eqn:DN; try discriminate. destruct (dget dct "del") as [dl|] eqn:DD; [|discriminate].
  apply andb_prop in WF as [WF WZ]. apply andb_prop in WF as [WF EZ]. apply andb_prop in WF as [W1 W2].
  apply negb_true_iff in W2. apply Bool.eqb_prop in EZ.
  unfold write_xyz_sub in W. rewrite NM in W. change (dict_vals dct ["ntype"; ""; "no"; "del"]) with (xyz_vals dct) in W.
  destruct (wline T "xyz2" (xyz_vals dct)) as [l1|] eqn:L1; cbn [bind] in W; [|discriminate]. rewrite DD in W.
  assert (VN : xyz_vals dct = XStr nt :: [dgetv dct ""; dgetv dct "no"; dgetv dct "del"]) by (unfold xyz_vals, dgetv at 1; rewrite DN; reflexivity).
  assert (NB : blank l1 = false).
  { destruct (sp "xyz2") as [|g0 gs] eqn:S; [discriminate|]. cbn in N0. inversion N0; subst g0. rewrite VN in L1.
    destruct (wline_name_head T "xyz2" f0 gs nt _ l1 S T0 W1 L1) as [r E]. rewrite E, blank_app, W2. reflexivity. }
  assert (V3 : vnth (cvals (sp "xyz2") (xyz_vals dct)) 3 = cf f3 dl).
  { rewrite (cvals_nth (sp "xyz2") (xyz_vals dct) 3 f3 (dgetv dct "del") N3 eq_refl). unfold dgetv. rewrite DD. reflexivity. }
  assert (HEAD : forall more, read_xyz T (S f) acc (l1 :: more) =
    (let v := cvals (sp "xyz2") (xyz_vals dct) in
     let dct' : dict := [("ntype", vnth v 0); ("no", vnth v 2); ("del", vnth v 3)] in
     if v_eq0 (vnth v 3) then
       do n <- ceil_div (vnth v 2) (chunk_of "read_meshmaker_xyz");
       let (vs, r2) := read_chunks_all (sp "xyz3") n more in
       do deli' <- take_z (vnth v 2) vs; read_xyz T f ((dct', deli') :: acc) r2
     else read_xyz T f ((dct', []) :: acc) more)).
  { intro more. cbn [read_xyz readline]. rewrite NB. rewrite (wp T _ _ _ L1). reflexivity. }
  unfold canon_xyz_sub. cbn [fst snd]. destruct (v_eq0 dl) eqn:Z.
  - destruct (dget dct "no") as [[|z| |]|] eqn:DO; try discriminate.
    cbn [ceil_div bind] in W. fold cxyz in W.
    destruct (write_chunks (sp "xyz3") cxyz (nlines_z (Z.of_nat cxyz) z) (firstn (Z.to_nat z) deli)) as [ch|] eqn:CH; cbn [bind] in W; [|discriminate].
    inv_ok W. cbn [app]. rewrite HEAD. cbn zeta. rewrite V3, EZ.
    assert (V2 : vnth (cvals (sp "xyz2") (xyz_vals dct)) 2 = XInt z).
    { rewrite (cvals_nth (sp "xyz2") (xyz_vals dct) 2 f2 (dgetv dct "no") N2 eq_refl). unfold dgetv. rewrite DO. apply cf_int; assumption. }
    rewrite V2. cbn [ceil_div bind]. rewrite CE. fold cxyz.
    destruct (chunks_roundtrip_cells _ _ _ _ _ rest CH) as [_ A]. rewrite A. cbn [take_z bind].
    replace (dgetv dct "no") with (XInt z) by (unfold dgetv; rewrite DO; reflexivity). reflexivity.
  - inv_ok W. cbn [app]. rewrite HEAD. cbn zeta. rewrite V3, EZ. reflexivity.
Qed.
Theorem xyz_subs_roundtrip subs : xyz_table_ok = true -> forallb wf_xyz_sub subs = true ->
  forall lss, mapM (write_xyz_sub T) subs = Ok lss ->
  forall fuel acc rest, (length subs < fuel)%nat ->
  read_xyz T fuel acc (concat lss ++ [nl] :: rest)%list = Ok ((rev acc ++ map canon_xyz_sub subs)%list, rest).
Proof.
  intros TOK. induction subs as [|x r IH]; intros WF lss W fuel acc rest F.
  - cbn in W. inv_ok W. destruct fuel; [lia|]. cbn [concat app read_xyz readline map]. rewrite app_nil_r. reflexivity.
  - destruct (mapM_cons _ _ _ _ W) as [a [b [Wa [Wb E]]]]. subst lss. cbn [concat]. rewrite <- app_assoc.
    cbn [forallb] in WF. apply andb_prop in WF as [W1 W2].
    destruct fuel as [|fuel]; [cbn in F; lia|].
    rewrite (xyz_sub_step x a TOK Wa W1). rewrite (IH W2 b Wb fuel _ rest) by (cbn [length] in F; lia).
    cbn [rev map]. rewrite <- app_assoc. reflexivity.
Qed.

(** ** MINC *)
Definition minc_table_ok : bool :=
  shape_ok T "minc" [Ts; Ts; Tx; Ts] 0 && forallb (fun f => (width f =? 5)%nat) (sp "minc") &&
  shape_ok T "part1" [Td; Td; Ts; Te; Te; Te; Te; Te; Te; Te] 0 &&
  (chunk_of "read_meshmaker_minc" =? chunk_of "write_meshmaker_minc")%nat.
Definition cminc := chunk_of "write_meshmaker_minc".
Definition minc_vals1 (dct : dict) : list value := [XStr (s2l "PART "); dgetv dct "type"; XStr []; dgetv dct "dual"].
Definition minc_vals2 (dct : dict) (spacing : list value) (n : nat) : list value :=
  [dgetv dct "num_continua"; XInt (Z.of_nat n); dgetv dct "where"] +++ spacing.
Definition minc_lines (n : nat) : nat := nlines_z (Z.of_nat cminc) (Z.of_nat n).
Definition canon_minc (dct : dict) (spacing vol : list value) : mmsec :=
  let v := cvals (sp "minc") (minc_vals1 dct) in
  let n := length vol in
  let v1 := cvals (sp "part1") (minc_vals2 dct spacing n) in
  MMminc [("type", vnth v 1); ("dual", vnth v 3); ("num_continua", vnth v1 0); ("where", vnth v1 2)] (skipn 3 v1)
         (take (Z.of_nat n) (chunk_cells (sp "part2") cminc (minc_lines n) vol)).
Definition ends_visible (s : str) : bool := match rev s with c :: _ => negb (is_space c) | [] => false end.
Definition wf_minc (dct : dict) (vol : list value) : bool :=
  match dget dct "type", dget dct "dual", nth_error (sp "part1") 1 with
  | Some (XStr ty), Some (XStr du), Some f1 =>
      (length ty =? 5)%nat && no_nl ty && (length du =? 5)%nat && no_nl du && ends_visible du && fits_int f1 (Z.of_nat (length vol))
  | _, _, _ => false
  end.
Lemma rev_app_head (a b : str) c r : rev b = c :: r -> exists r', rev (a ++ b)%list = c :: r'.
Proof. intro H. rewrite rev_app_distr, H. cbn [app]. eauto. Qed.
Lemma minc_step dct spacing vol ls : minc_table_ok = true -> write_mm T (MMminc dct spacing vol) = Ok ls -> wf_minc dct vol = true ->
  exists body, ls = kw "MINC" :: body /\
    forall rest, read_minc T (body ++ rest)%list = Ok (Some (canon_minc dct spacing vol), rest).
Proof.
  intros TOK W WF. unfold minc_table_ok in TOK. apply andb_prop in TOK as [TOK CE]. apply andb_prop in TOK as [TOK SH2].
  apply andb_prop in TOK as [SH1 W5]. apply Nat.eqb_eq in CE.
  destruct (shape_nth _ _ _ _ 1 Td SH2 eq_refl) as [g1 [M1 [Tg1 Pg1]]]. specialize (Pg1 eq_refl). fold (sp "part1") in M1.
  unfold wf_minc in WF. destruct (dget dct "type") as [[ty| | |]|] eqn:DT; try discriminate.
  destruct (dget dct "dual") as [[du| | |]|] eqn:DU; try discriminate. rewrite M1 in WF.
  apply andb_prop in WF as [WF FI]. apply andb_prop in WF as [WF EV]. apply andb_prop in WF as [WF NLd].
  apply andb_prop in WF as [WF Ld]. apply andb_prop in WF as [Lt NLt]. apply Nat.eqb_eq in Lt. apply Nat.eqb_eq in Ld.
  pose proof (shape_length _ _ _ _ SH1) as SL.
  destruct (shape_nth _ _ _ _ 0 Ts SH1 eq_refl) as [f0 [N0 [T0 _]]]. destruct (shape_nth _ _ _ _ 1 Ts SH1 eq_refl) as [f1 [N1 [T1 _]]].
  destruct (shape_nth _ _ _ _ 2 Tx SH1 eq_refl) as [f2 [N2 [T2 _]]]. destruct (shape_nth _ _ _ _ 3 Ts SH1 eq_refl) as [f3 [N3 [T3 _]]].
  fold (sp "minc") in SL, N0, N1, N2, N3.
  destruct (sp "minc") as [|h0 [|h1 [|h2 [|h3 [|h4 hs]]]]] eqn:S; try discriminate.
  cbn in N0, N1, N2, N3. inversion N0; inversion N1; inversion N2; inversion N3; subst h0 h1 h2 h3. clear N0 N1 N2 N3.
  cbn [forallb] in W5. apply andb_prop in W5 as [A0 W5]. apply andb_prop in W5 as [A1 W5]. apply andb_prop in W5 as [A2 W5]. apply andb_prop in W5 as [A3 _].
  apply Nat.eqb_eq in A0. apply Nat.eqb_eq in A1. apply Nat.eqb_eq in A2. apply Nat.eqb_eq in A3.
  assert (V1 : minc_vals1 dct = [XStr (s2l "PART "); XStr ty; XStr []; XStr du]) by (unfold minc_vals1, dgetv; rewrite DT, DU; reflexivity).
  cbn [write_mm] in W. fold (minc_vals1 dct) in W. fold (minc_vals2 dct spacing (length vol)) in W. fold cminc in W. fold (minc_lines (length vol)) in W.
  destruct (wline T "minc" (minc_vals1 dct)) as [l1|] eqn:L1; cbn [bind] in W; [|discriminate].
  destruct (wline T "part1" (minc_vals2 dct spacing (length vol))) as [l2|] eqn:L2; cbn [bind] in W; [|discriminate].
  destruct (write_chunks (sp "part2") cminc (minc_lines (length vol)) vol) as [ch|] eqn:CH; cbn [bind] in W; [|discriminate]. inv_ok W.
  exists (l1 :: l2 :: ch). split; [reflexivity|]. intro rest.
  (* the PART line *)
  unfold wline in L1. fold (sp "minc") in L1.
  destruct (write_values (sp "minc") (minc_vals1 dct)) as [s|] eqn:WV; cbn [bind] in L1; [|discriminate]. inv_ok L1.
  assert (TX : s = (s2l "PART " ++ ty ++ spaces 5 ++ du)%list).
  { unfold write_values in WV. rewrite S, V1 in WV. cbn [write_fields] in WV.
    rewrite (fmt_field_str f0 (s2l "PART ") T0) in WV by (unfold fits_str; rewrite A0; reflexivity).
    rewrite (fmt_field_str f1 ty T1) in WV by (unfold fits_str; rewrite A1, Lt, NLt; reflexivity).
    assert (FX : fmt_field f2 (XStr []) = Ok (spaces 5)) by (unfold fmt_field; rewrite T2, A2; reflexivity).
    rewrite FX in WV. rewrite (fmt_field_str f3 du T3) in WV by (unfold fits_str; rewrite A3, Ld, NLd; reflexivity).
    cbn [bind concat] in WV. inv_ok WV. rewrite app_nil_r. reflexivity. }
  assert (ST : strip (s ++ [nl])%list = s).
  { unfold ends_visible in EV. destruct (rev du) as [|c' r'] eqn:RD; [discriminate|]. apply negb_true_iff in EV.
    assert (RS : exists r'', rev s = c' :: r'').
    { rewrite TX. rewrite !app_assoc. apply rev_app_head with (r := r'). exact RD. }
    destruct RS as [r'' RS]. apply (strip_line s "P"%char (tl s) c' r''); [rewrite TX; reflexivity|exact RS|reflexivity|exact EV]. }
  unfold read_minc. cbn [app readline]. rewrite ST.
  assert (KW : strip (slice 0 5 s) = s2l "PART") by (rewrite TX; rewrite slice_head5 by reflexivity; reflexivity).
  rewrite KW. change (str_eqb (s2l "PART") (s2l "PART")) with true. cbv iota.
  rewrite (pline_exact T "minc" (minc_vals1 dct) s WV) by (fold (sp "minc"); rewrite S, V1; cbn; lia).
  rewrite (wp T _ _ _ L2).
  assert (VN : vnth (cvals (sp "part1") (minc_vals2 dct spacing (length vol))) 1 = XInt (Z.of_nat (length vol))).
  { rewrite (cvals_nth (sp "part1") (minc_vals2 dct spacing (length vol)) 1 g1 _ M1 eq_refl). apply cf_int; assumption. }
  rewrite VN. cbn [ceil_div bind]. rewrite CE. fold cminc. fold (minc_lines (length vol)).
  destruct (chunks_roundtrip_cells _ _ _ _ _ rest CH) as [_ A]. rewrite A. cbn [take_z bind]. reflexivity.
Qed.

(** ** the MESHMAKER section *)
Definition canon_mm (m : mmsec) : mmsec :=
  match m with
  | MMrz2d subs => MMrz2d (canon_rz subs)
  | MMxyz deg subs => MMxyz (vnth (cvals (sp "xyz1") [deg]) 0) (map canon_xyz_sub subs)
  | MMminc dct spacing vol => canon_minc dct spacing vol
  end.
Definition wf_mm (m : mmsec) : bool :=
  match m with
  | MMrz2d subs => wf_rz subs
  | MMxyz _ subs => forallb wf_xyz_sub subs
  | MMminc dct _ vol => wf_minc dct vol
  end.
Definition meshm_table_ok : bool := rz_table_ok && xyz_table_ok && minc_table_ok.
Lemma rz_sub_nonempty x ls : write_rz2d_sub T x = Ok ls -> (1 <= length ls)%nat.
Proof.
  destruct x as [[s dct] l]. unfold write_rz2d_sub.
  repeat match goal with |- context [if ?b then _ else _] => destruct b end; intro W;
    repeat match type of W with bind ?x _ = _ => destruct x; cbn [bind] in W; [|discriminate] end; inv_ok W; cbn; lia.
Qed.
Lemma xyz_sub_nonempty x ls : write_xyz_sub T x = Ok ls -> (1 <= length ls)%nat.
Proof.
  destruct x as [dct l]. unfold write_xyz_sub. intro W.
  destruct (wline T "xyz2" _); cbn [bind] in W; [|discriminate]. destruct (dget dct "del"); [|discriminate].
  destruct (v_eq0 v); [|inv_ok W; cbn; lia]. destruct (dget dct "no"); [|discriminate].
  repeat match type of W with bind ?x _ = _ => destruct x; cbn [bind] in W; [|discriminate] end. inv_ok W. cbn. lia.
Qed.
Lemma mapM_lines {A} (wr : A -> res file) : (forall x ls, wr x = Ok ls -> (1 <= length ls)%nat) ->
  forall xs lss, mapM wr xs = Ok lss -> (length xs <= length (concat lss))%nat.
Proof.
  intros H. induction xs as [|x xs IH]; intros lss W; [cbn; lia|].
  destruct (mapM_cons _ _ _ _ W) as [a [b [Wa [Wb E]]]]. subst lss. cbn [concat length]. rewrite app_length.
  specialize (H _ _ Wa). specialize (IH _ Wb). lia.
Qed.
Lemma mm_step m ls : meshm_table_ok = true -> write_mm T m = Ok ls -> wf_mm m = true ->
  (1 <= length ls)%nat /\
  forall f acc rest, read_mm_loop T (S f) acc (ls ++ rest)%list = read_mm_loop T f (canon_mm m :: acc) rest.
Proof.
  intros TOK W WF. unfold meshm_table_ok in TOK. apply andb_prop in TOK as [TOK K3]. apply andb_prop in TOK as [K1 K2].
  destruct m as [subs|deg subs|dct spacing vol].
  - cbn [write_mm] in W. destruct (mapM (write_rz2d_sub T) subs) as [lss|] eqn:M; cbn [bind] in W; [|discriminate]. inv_ok W.
    split; [cbn; lia|]. intros f acc rest. cbn [app read_mm_loop readline].
    change (blank (kw "RZ2D")) with false. change (strip (slice 0 5 (kw "RZ2D"))) with (s2l "RZ2D").
    change (str_eqb (s2l "RZ2D") (s2l "RZ2D")) with true. cbv iota.
    match goal with |- bind ?X _ = _ => assert (EX : X = Ok ((rev [] ++ canon_rz subs)%list, rest)) end.
    { apply (rz2d_roundtrip subs K1 WF lss M). pose proof (mapM_lines _ rz_sub_nonempty _ _ M). rewrite app_length. lia. }
    rewrite EX. reflexivity.
  - cbn [write_mm] in W. destruct (wline T "xyz1" [deg]) as [l1|] eqn:L1; cbn [bind] in W; [|discriminate].
    destruct (mapM (write_xyz_sub T) subs) as [lss|] eqn:M; cbn [bind] in W; [|discriminate]. inv_ok W.
    split; [cbn; lia|]. intros f acc rest. cbn [app read_mm_loop readline].
    change (blank (kw "XYZ")) with false. change (strip (slice 0 5 (kw "XYZ"))) with (s2l "XYZ").
    change (str_eqb (s2l "XYZ") (s2l "RZ2D")) with false. change (str_eqb (s2l "XYZ") (s2l "XYZ")) with true. cbv iota.
    rewrite (wp T _ _ _ L1). rewrite <- app_assoc. cbn [app].
    match goal with |- bind ?X _ = _ => assert (EX : X = Ok ((rev [] ++ map canon_xyz_sub subs)%list, rest)) end.
    { apply (xyz_subs_roundtrip subs K2 WF lss M). pose proof (mapM_lines _ xyz_sub_nonempty _ _ M). rewrite app_length. cbn [length]. lia. }
    rewrite EX. reflexivity.
  - destruct (minc_step dct spacing vol ls K3 W WF) as [body [E R]]. subst ls.
    split; [cbn; lia|]. intros f acc rest. cbn [app read_mm_loop readline].
    change (blank (kw "MINC")) with false. change (strip (slice 0 5 (kw "MINC"))) with (s2l "MINC").
    change (str_eqb (s2l "MINC") (s2l "RZ2D")) with false. change (str_eqb (s2l "MINC") (s2l "XYZ")) with false.
    change (str_eqb (s2l "MINC") (s2l "MINC")) with true. cbv iota. rewrite R. reflexivity.
Qed.
Lemma mm_loop_roundtrip ms : meshm_table_ok = true -> forallb wf_mm ms = true ->
  forall lss, mapM (write_mm T) ms = Ok lss ->
  forall fuel acc rest, (length ms < fuel)%nat ->
  read_mm_loop T fuel acc (concat lss ++ [nl] :: rest)%list = Ok ((rev acc ++ map canon_mm ms)%list, rest).
Proof.
  intros TOK. induction ms as [|m r IH]; intros WF lss W fuel acc rest F.
  - cbn in W. inv_ok W. destruct fuel; [lia|]. cbn [concat app read_mm_loop readline map]. rewrite app_nil_r. reflexivity.
  - destruct (mapM_cons _ _ _ _ W) as [a [b [Wa [Wb E]]]]. subst lss. cbn [concat]. rewrite <- app_assoc.
    cbn [forallb] in WF. apply andb_prop in WF as [W1 W2].
    destruct fuel as [|fuel]; [cbn in F; lia|].
    destruct (mm_step m a TOK Wa W1) as [_ ST]. rewrite ST. rewrite (IH W2 b Wb fuel _ rest) by (cbn [length] in F; lia).
    cbn [rev map]. rewrite <- app_assoc. reflexivity.
Qed.
Theorem meshmaker_roundtrip d body : meshm_table_ok = true -> write_meshmaker T d = Ok (kw "MESHMAKER" :: body) ->
  forallb wf_mm (meshmaker d) = true ->
  forall d0 rest, meshmaker d0 = [] ->
  read_meshmaker T d0 (body ++ rest)%list = Ok (set_meshmaker d0 (map canon_mm (meshmaker d)), rest).
Proof.
  intros TOK W WF d0 rest E0. unfold write_meshmaker in W. destruct (meshmaker d) as [|m0 ms] eqn:E; [discriminate|]. rewrite <- E in *.
  destruct (mapM (write_mm T) (meshmaker d)) as [lss|] eqn:M; cbn [bind] in W; [|discriminate]. inv_ok W.
  unfold read_meshmaker. rewrite <- app_assoc. cbn [app].
  match goal with |- bind ?X _ = _ => assert (EX : X = Ok ((rev [] ++ map canon_mm (meshmaker d))%list, rest)) end.
  2:{ rewrite EX. cbn [bind fst snd rev app]. rewrite E0. reflexivity. }
  apply (mm_loop_roundtrip (meshmaker d) TOK WF lss M).
  - assert (L : (length (meshmaker d) <= length (concat lss))%nat).
    { apply (mapM_lines (write_mm T)); [|exact M]. intros x ls Wx.
      clear - Wx. destruct x; cbn [write_mm] in Wx;
        repeat match type of Wx with bind ?x _ = _ => destruct x; cbn [bind] in Wx; [|discriminate] end; inv_ok Wx; cbn; lia. }
    rewrite app_length. cbn [length]. lia.
Qed.

End WithTable.
