(** C16: the theorems, stated about the functions generated from the current source. *)
From Coq Require Import Ascii String List Bool Arith ZArith NArith Lia.
From PTBase Require Import Exn PyStr PyNum PyVal.
From PTModel Require Import Fortran FortranNF FortranRender.
From Gen Require Import GenFortran.
From P Require Import Spec Blanks IntRender Styles.
Import ListNotations.
Open Scope char_scope.

Lemma ff_total s bv : exists v, gen_fortran_float (VStr s) bv = Ok v.
Proof. rewrite gen_fortran_float_spec. eauto. Qed.
Lemma fi_total s bv : exists v, gen_fortran_int (VStr s) bv = Ok v.
Proof. rewrite gen_fortran_int_spec. eauto. Qed.

Lemma ff_compat s v bv : py_float s = Ok v -> gen_fortran_float (VStr s) bv = Ok (VFloat v).
Proof.
  rewrite gen_fortran_float_spec. unfold py_float. destruct (py_float_opt s) eqn:E; [|discriminate].
  intro H; inversion H; subst. rewrite (ff_py_compatible _ _ _ E). reflexivity.
Qed.
Lemma fi_compat s v bv : py_int s = Ok v -> gen_fortran_int (VStr s) bv = Ok (VInt v).
Proof.
  rewrite gen_fortran_int_spec. unfold py_int. destruct (py_int_opt s) eqn:E; [|discriminate].
  intro H; inversion H; subst. rewrite (fi_py_compatible _ _ _ E). reflexivity.
Qed.
Lemma ff_blank_ s bv : strip s = [] -> gen_fortran_float (VStr s) bv = Ok bv.
Proof. intro H. rewrite gen_fortran_float_spec, (ff_blank _ _ H). reflexivity. Qed.
Lemma fi_blank_ s bv : strip s = [] -> gen_fortran_int (VStr s) bv = Ok bv.
Proof. intro H. rewrite gen_fortran_int_spec, (fi_blank _ _ H). reflexivity. Qed.
Lemma ff_bad s c bv : In c s -> numeric_char c = false -> gen_fortran_float (VStr s) bv = Ok (VFloat NaN).
Proof. intros I F. rewrite gen_fortran_float_spec, (ff_bad_char _ _ _ I F). reflexivity. Qed.
Lemma fi_bad s c bv : In c s -> int_char c = false -> gen_fortran_int (VStr s) bv = Ok VNone.
Proof. intros I F. rewrite gen_fortran_int_spec, (fi_bad_char _ _ _ I F). reflexivity. Qed.

(** normal form: for every non-blank text the result depends only on norm (strip s) *)
Lemma ff_nf s bv : strip s <> [] -> gen_fortran_float (VStr s) bv = Ok (VFloat (cascade (norm (strip s)))).
Proof. intro H. rewrite gen_fortran_float_spec, (ff_normal_form _ _ H). reflexivity. Qed.
Lemma ff_norm_only s s' bv : strip s <> [] -> strip s' <> [] -> norm (strip s) = norm (strip s') ->
  gen_fortran_float (VStr s) bv = gen_fortran_float (VStr s') bv.
Proof. intros H H' E. rewrite !ff_nf by assumption. rewrite E. reflexivity. Qed.
Lemma ff_renderings s bv sg ip fp x : wf_mant ip fp -> wf_expo x -> strip s <> [] ->
  norm (strip s) = canon sg ip fp x -> gen_fortran_float (VStr s) bv = Ok (VFloat (canon_value sg ip fp x)).
Proof. intros W Wx NE E. rewrite gen_fortran_float_spec, (ff_reads_fortran_reals s bv sg ip fp x W Wx NE E). reflexivity. Qed.

(** overflow asterisks: corollaries of the bad-character theorems *)
Lemma ff_stars s bv : In "*" s -> gen_fortran_float (VStr s) bv = Ok (VFloat NaN).
Proof. intro I. rewrite gen_fortran_float_spec, (ff_asterisks _ _ I). reflexivity. Qed.
Lemma fi_stars s bv : In "*" s -> gen_fortran_int (VStr s) bv = Ok VNone.
Proof. intro I. rewrite gen_fortran_int_spec, (fi_asterisks _ _ I). reflexivity. Qed.

(** the integer reader: normal form and renderings *)
Lemma fi_nf s bv : strip s <> [] -> gen_fortran_int (VStr s) bv = Ok (int_of (inorm s)).
Proof. intro H. rewrite gen_fortran_int_spec, (fi_normal_form _ _ H). reflexivity. Qed.
Lemma fi_norm_only s s' bv : strip s <> [] -> strip s' <> [] -> inorm s = inorm s' ->
  gen_fortran_int (VStr s) bv = gen_fortran_int (VStr s') bv.
Proof. intros H H' E. rewrite !fi_nf by assumption. rewrite E. reflexivity. Qed.
Lemma fi_digits s bv sg ds : ds <> [] -> all_digits ds = true -> unblank s = (sgstr sg ++ ds)%list ->
  gen_fortran_int (VStr s) bv = Ok (VInt (signed (isneg sg) (dvalue 0 ds))).
Proof. intros NE A E. rewrite gen_fortran_int_spec, (fi_reads_digits s bv sg ds NE A E). reflexivity. Qed.
Lemma fi_render z plus m gaps bv : gen_fortran_int (VStr (render_int z plus m gaps)) bv = Ok (VInt z).
Proof. rewrite gen_fortran_int_spec, fi_rendering. reflexivity. Qed.

(** the real reader on the printed text of a real, in every style *)
Definition gen_reads_back (bv : pyval) (st : style) (x : freal) : Prop :=
  gen_fortran_float (VStr (render st x)) bv = Ok (VFloat (real_value x)).
Lemma ff_style st x bv : wf_real x -> style_ok st x -> gen_reads_back bv st x.
Proof. intros W OK. unfold gen_reads_back. rewrite gen_fortran_float_spec, (ff_every_style st x W bv OK). reflexivity. Qed.
Lemma ff_catalogue bv x g : wf_real x ->
  gen_reads_back bv (st_E g) x /\ gen_reads_back bv (st_D g) x /\ gen_reads_back bv (st_lower_e g) x /\
  gen_reads_back bv (st_lower_d g) x /\ gen_reads_back bv (st_point g) x /\ gen_reads_back bv (st_explicit_plus g) x /\
  gen_reads_back bv (st_dropped g) x /\ gen_reads_back bv (st_blank_plus g) x /\ gen_reads_back bv (st_ES g) x /\
  (forall k, style_ok (st_F k g) x -> gen_reads_back bv (st_F k g) x).
Proof. intro W. repeat split; try (apply ff_style; try exact W; exact I). intros k OK. apply ff_style; assumption. Qed.
(** the digit strings the renderings use are decimal notation *)
Lemma decimal_digits n : all_digits (n_to_str n) = true /\ n_to_str n <> [] /\ dvalue 0 (n_to_str n) = n.
Proof. split; [apply n_to_str_digits|]. split; [apply n_to_str_nonempty|apply n_to_str_value]. Qed.
(** [dvalue] is positional notation (Horner): appending a digit multiplies by ten and adds it *)
Lemma dvalue_snoc ds c : dvalue 0 (ds ++ [c])%list = (dvalue 0 ds * 10 + ndval c)%N.
Proof. rewrite dvalue_app. reflexivity. Qed.

(** non-vacuity: concrete strings meeting the hypotheses *)
Example ex_int_digits : s2l "12" <> [] /\ all_digits (s2l "12") = true /\ unblank (s2l " - 1 2 ") = (sgstr (Some true) ++ s2l "12")%list.
Proof. repeat split; try discriminate; reflexivity. Qed.
Example ex_int_nf : strip (s2l " 1 2") <> [] /\ strip (s2l "12  ") <> [] /\ inorm (s2l " 1 2") = inorm (s2l "12  ").
Proof. repeat split; try (vm_compute; discriminate); reflexivity. Qed.
Example ex_int_accept : py_int_opt (s2l " -12 ") = Some (-12)%Z /\ inorm (s2l " -12 ") = s2l "-12".
Proof. split; reflexivity. Qed.
Example ex_style : wf_real x1 /\ style_ok (st_dropped [3%nat]) x1 /\ style_ok (st_F 2 []) {| rneg := false; rdigs := s2l "1234"; rexp := 2 |}.
Proof. repeat split; try discriminate; reflexivity. Qed.
Example ex_render : strip (s2l "  -0.1234D+05 ") <> [] /\
  norm (strip (s2l "  -0.1234D+05 ")) = canon (Some true) (s2l "0") (s2l "1234") (XLetter (Some false) (s2l "05")) /\
  wf_mant (s2l "0") (s2l "1234") /\ wf_expo (XLetter (Some false) (s2l "05")).
Proof. repeat split; try (vm_compute; congruence); try (left; discriminate); vm_compute; reflexivity. Qed.

Example ex_bad : In "*" (s2l " ******") /\ numeric_char "*" = false /\ int_char "*" = false.
Proof. cbn. tauto. Qed.
Example ex_blank : strip (s2l "     ") = [].
Proof. reflexivity. Qed.
Example ex_compat : py_float (s2l " 1.5e3 ") = Ok (Fin false 15 2).
Proof. reflexivity. Qed.
