(** C16: the theorems, stated about the functions generated from the current source. *)
From Coq Require Import Ascii String List Bool Arith ZArith NArith Lia.
From PTBase Require Import Exn PyStr PyNum PyVal.
From PTModel Require Import Fortran FortranNF FortranRender.
From Gen Require Import GenFortran.
From P Require Import Spec.
Import ListNotations.
Open Scope char_scope.

Lemma ff_total s bv : exists v, gen_fortran_float (VStr s) bv = Ok v.
Proof. rewrite gen_fortran_float_spec. eauto. Qed.
Lemma fi_total s bv : exists v, gen_fortran_int (VStr s) bv = Ok v.
Proof. rewrite gen_fortran_int_spec. eauto. Qed.

Lemma ff_compat s v bv : py_float s = Ok v -> gen_fortran_float (VStr s) bv = Ok (VFloat v).
Proof.
  rewrite gen_fortran_float_spec. unfold py_float. destruct (py_float_opt s) eqn:E; [|discriminate].
  intro H; inversion H; subst. rewrite (ff_py_compatible _ _ _ E). reflexivity.
Qed.
Lemma fi_compat s v bv : py_int s = Ok v -> gen_fortran_int (VStr s) bv = Ok (VInt v).
Proof.
  rewrite gen_fortran_int_spec. unfold py_int. destruct (py_int_opt s) eqn:E; [|discriminate].
  intro H; inversion H; subst. rewrite (fi_py_compatible _ _ _ E). reflexivity.
Qed.
Lemma ff_blank_ s bv : strip s = [] -> gen_fortran_float (VStr s) bv = Ok bv.
Proof. intro H. rewrite gen_fortran_float_spec, (ff_blank _ _ H). reflexivity. Qed.
Lemma fi_blank_ s bv : strip s = [] -> gen_fortran_int (VStr s) bv = Ok bv.
Proof. intro H. rewrite gen_fortran_int_spec, (fi_blank _ _ H). reflexivity. Qed.
Lemma ff_bad s c bv : In c s -> numeric_char c = false -> gen_fortran_float (VStr s) bv = Ok (VFloat NaN).
Proof. intros I F. rewrite gen_fortran_float_spec, (ff_bad_char _ _ _ I F). reflexivity. Qed.
Lemma fi_bad s c bv : In c s -> int_char c = false -> gen_fortran_int (VStr s) bv = Ok VNone.
Proof. intros I F. rewrite gen_fortran_int_spec, (fi_bad_char _ _ _ I F). reflexivity. Qed.

(** normal form: for every non-blank text the result depends only on norm (strip s) *)
Lemma ff_nf s bv : strip s <> [] -> gen_fortran_float (VStr s) bv = Ok (VFloat (cascade (norm (strip s)))).
Proof. intro H. rewrite gen_fortran_float_spec, (ff_normal_form _ _ H). reflexivity. Qed.
Lemma ff_norm_only s s' bv : strip s <> [] -> strip s' <> [] -> norm (strip s) = norm (strip s') ->
  gen_fortran_float (VStr s) bv = gen_fortran_float (VStr s') bv.
Proof. intros H H' E. rewrite !ff_nf by assumption. rewrite E. reflexivity. Qed.
Lemma ff_renderings s bv sg ip fp x : wf_mant ip fp -> wf_expo x -> strip s <> [] ->
  norm (strip s) = canon sg ip fp x -> gen_fortran_float (VStr s) bv = Ok (VFloat (canon_value sg ip fp x)).
Proof. intros W Wx NE E. rewrite gen_fortran_float_spec, (ff_reads_fortran_reals s bv sg ip fp x W Wx NE E). reflexivity. Qed.

(** non-vacuity: concrete strings meeting the hypotheses *)
Example ex_render : strip (s2l "  -0.1234D+05 ") <> [] /\
  norm (strip (s2l "  -0.1234D+05 ")) = canon (Some true) (s2l "0") (s2l "1234") (XLetter (Some false) (s2l "05")) /\
  wf_mant (s2l "0") (s2l "1234") /\ wf_expo (XLetter (Some false) (s2l "05")).
Proof. repeat split; try (vm_compute; congruence); try (left; discriminate); vm_compute; reflexivity. Qed.

Example ex_bad : In "*" (s2l " ******") /\ numeric_char "*" = false /\ int_char "*" = false.
Proof. cbn. tauto. Qed.
Example ex_blank : strip (s2l "     ") = [].
Proof. reflexivity. Qed.
Example ex_compat : py_float (s2l " 1.5e3 ") = Ok (Fin false 15 2).
Proof. reflexivity. Qed.
