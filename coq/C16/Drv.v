(** extraction of the executable model for the C16 correspondence *)
From Coq Require Import Ascii String List Bool ZArith NArith.
From PTBase Require Import Exn PyStr PyNum PyVal Wire.
From PTModel Require Import Fortran.
From Gen Require Import GenFortran.
From P Require Import Blanks IntRender Styles.
Import ListNotations.

Definition blank_marker : pyval := VStr (s2l "BLANK").
(** the rendering functions of Styles.v / IntRender.v, so that the harness reads the very texts the
    rendering theorems speak about through the real functions, and compares them with its own
    independent Fortran-style formatter *)
Definition is1 (f : str) : bool := str_eqb f (s2l "1").
Definition gaps_of (f : str) : list nat := map nat_of_str (split_c ","%char f).
Definition letter_of (f : str) : eletter :=
  if str_eqb f (s2l "E") then LE else if str_eqb f (s2l "e") then Le else if str_eqb f (s2l "D") then LD else Ld.
Definition plus_of (f : str) : plusstyle :=
  if str_eqb f (s2l "+") then PPlus else if str_eqb f (s2l "b") then PBlank else PNothing.
Definition exp_of (k l p w : str) : expstyle :=
  if str_eqb k (s2l "L") then ELetter (letter_of l) (plus_of p) (nat_of_str w)
  else if str_eqb k (s2l "D") then EDropped (nat_of_str w) else ENoExp.

Definition run_case (line : str) : str :=
  match fields line with
  | [k; ng; ds; e; pl; l0; sc; ek; el; ep; ew; gp] =>
      if str_eqb k (s2l "rr") then
        let x := {| rneg := is1 ng; rdigs := ds; rexp := z_of_str e |} in
        let st := {| st_plus := is1 pl; st_lead0 := is1 l0; st_scale := nat_of_str sc; st_exp := exp_of ek el ep ew; st_gaps := gaps_of gp |} in
        app (hex (render st x)) (tab :: show_fval (real_value x))
      else s2l "BADCASE"
  | [k; z; pl; m; gp] =>
      if str_eqb k (s2l "ri") then hex (render_int (z_of_str z) (is1 pl) (nat_of_str m) (gaps_of gp))
      else s2l "BADCASE"
  | [k; h] =>
      let s := unhex h in
      if str_eqb k (s2l "ff") then show_res (gen_fortran_float (VStr s) blank_marker)
      else if str_eqb k (s2l "fi") then show_res (gen_fortran_int (VStr s) blank_marker)
      else if str_eqb k (s2l "pf") then show_opt show_fval (py_float_opt s)
      else if str_eqb k (s2l "pi") then show_opt (fun z => app (s2l "I ") (show_z z)) (py_int_opt s)
      else if str_eqb k (s2l "mf") then show_pyval (fortran_float s blank_marker)
      else s2l "BADCASE"
  | _ => s2l "BADCASE"
  end.

Require Extraction.
Require Import ExtrOcamlBasic ExtrOcamlString.
Extraction "Drv.ml" run_case.
