(** extraction of the executable model for the C16 correspondence *)
From Coq Require Import Ascii String List Bool ZArith NArith.
From PTBase Require Import Exn PyStr PyNum PyVal Wire.
From PTModel Require Import Fortran.
From Gen Require Import GenFortran.
Import ListNotations.

Definition blank_marker : pyval := VStr (s2l "BLANK").
Definition run_case (line : str) : str :=
  match fields line with
  | [k; h] =>
      let s := unhex h in
      if str_eqb k (s2l "ff") then show_res (gen_fortran_float (VStr s) blank_marker)
      else if str_eqb k (s2l "fi") then show_res (gen_fortran_int (VStr s) blank_marker)
      else if str_eqb k (s2l "pf") then show_opt show_fval (py_float_opt s)
      else if str_eqb k (s2l "pi") then show_opt (fun z => app (s2l "I ") (show_z z)) (py_int_opt s)
      else if str_eqb k (s2l "mf") then show_pyval (fortran_float s blank_marker)
      else s2l "BADCASE"
  | _ => s2l "BADCASE"
  end.

Require Extraction.
Require Import ExtrOcamlBasic ExtrOcamlString.
Extraction "Drv.ml" run_case.
