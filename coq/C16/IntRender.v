(** C16 -- the integer reader: NORMAL FORM (for every non-blank text the result depends only
    on the stripped text with all blanks removed) and RENDERING (blanks, an optional sign,
    any number of digits, blanks anywhere in between and around: read as exactly that
    integer).  Everything is about the reference model [fortran_int] of Model/Fortran.v, which
    Spec.v proves equal to the function generated from the current source. *)
From Coq Require Import Ascii String List Bool Arith ZArith NArith Lia.
From PTBase Require Import Exn PyStr PyNum PyVal.
From PTModel Require Import Fortran FortranNF FortranRender.
From P Require Import Blanks.
Import ListNotations.
Open Scope char_scope.

(** ** what [int()] accepts has, once C-stripped, neither whitespace nor anything but sign, digits, underscore *)
Definition icore (c : ascii) : bool := dus c || ceqb c "-" || ceqb c "+".
Lemma icore_facts c : icore c = true -> is_space c = false /\ is_cspace c = false /\ ceqb c " " = false.
Proof. unfold icore, dus. brute c. Qed.
Lemma icore_dus p : forallb dus p = true -> forallb icore p = true.
Proof. apply forallb_impl. intros x H. unfold icore. rewrite H. reflexivity. Qed.
Lemma icore_signs p : forallb (fun c => ceqb c "-" || ceqb c "+") p = true -> forallb icore p = true.
Proof. apply forallb_impl. intros x H. unfold icore. rewrite <- orb_assoc, H. apply orb_true_r. Qed.
Lemma int_accepted_core s v : py_int_opt s = Some v -> forallb icore (cstrip s) = true.
Proof.
  unfold py_int_opt, int_body. intro H.
  destruct (digitpart 0 (snd (sign (cstrip s)))) as [[[x n] r]|] eqn:D; [|discriminate].
  destruct r; [|discriminate]. destruct (digitpart_split _ _ _ _ _ D) as [q [Eq Fq]]. rewrite app_nil_r in Eq.
  destruct (sign_split (cstrip s)) as [p [Ep Fp]].
  rewrite Ep, forallb_app, (icore_signs _ Fp), Eq, (icore_dus _ Fq). reflexivity.
Qed.

(** the integer normal form of a field: stripped, all blanks removed *)
Definition inorm (s : str) : str := unblank (strip s).
Definition int_of (n : str) : pyval := match py_int_opt n with Some z => VInt z | None => VNone end.

(** whatever [int()] accepts, it accepts in normal form with the same value *)
Theorem int_accepts_norm s v : py_int_opt s = Some v -> py_int_opt (inorm s) = Some v.
Proof.
  intro H. pose proof (int_accepted_core s v H) as C. set (core := cstrip s) in *.
  destruct (strip_by_split is_cspace s) as [a [b [E [Fa Fb]]]]. fold (cstrip s) in E. fold core in E.
  assert (Cs : forallb (fun c => negb (is_space c)) core = true).
  { eapply forallb_impl; [|exact C]. intros x Hx. destruct (icore_facts x Hx) as [-> _]. reflexivity. }
  assert (St : strip s = core).
  { rewrite E. apply strip_by_wrap; [exact (forallb_impl _ _ _ cspace_space Fa)|exact (forallb_impl _ _ _ cspace_space Fb)|exact Cs]. }
  unfold inorm. rewrite St. unfold unblank. rewrite (replace1_absent " " [] core).
  2:{ eapply forallb_impl; [|exact C]. intros x Hx. destruct (icore_facts x Hx) as (_ & _ & ->). reflexivity. }
  unfold py_int_opt. unfold cstrip at 1 2. rewrite (strip_by_nochar is_cspace core).
  2:{ eapply forallb_impl; [|exact C]. intros x Hx. destruct (icore_facts x Hx) as (_ & -> & _). reflexivity. }
  exact H.
Qed.

(** NORMAL FORM: for every non-blank text the reader returns [int()] of the normal form, or None *)
Theorem fi_normal_form s bv : strip s <> [] -> fortran_int s bv = int_of (inorm s).
Proof.
  intro NE. unfold fortran_int, int_of. destruct (py_int_opt s) as [v|] eqn:E.
  - rewrite (int_accepts_norm s v E). reflexivity.
  - unfold inorm, unblank. destruct (strip s) as [|t0 t] eqn:Et; [congruence|]. reflexivity.
Qed.
Corollary fi_depends_on_norm_only s s' bv : strip s <> [] -> strip s' <> [] -> inorm s = inorm s' ->
  fortran_int s bv = fortran_int s' bv.
Proof. intros H H' E. rewrite !fi_normal_form by assumption. rewrite E. reflexivity. Qed.

(** ** [int()] on sign? digits *)
Lemma sign_nocspace sg : forallb (fun c => negb (is_cspace c)) (sgstr sg) = true.
Proof. destruct sg as [[|]|]; reflexivity. Qed.
Theorem py_int_digits sg ds : ds <> [] -> all_digits ds = true ->
  py_int_opt (sgstr sg ++ ds) = Some (signed (isneg sg) (dvalue 0 ds)).
Proof.
  intros NE A. unfold py_int_opt, cstrip. rewrite strip_by_nochar by (rewrite forallb_app, sign_nocspace, (all_digits_nocspace _ A); reflexivity).
  destruct ds as [|d r] eqn:Eds; [congruence|]. rewrite <- Eds in *.
  assert (Hd : mhead d = true). { rewrite Eds in A. cbn in A. apply andb_prop in A as [D _]. unfold mhead. rewrite D. reflexivity. }
  rewrite (sign_sgstr sg ds d r Eds Hd). cbn [fst snd]. unfold int_body.
  rewrite <- (app_nil_r ds) at 1. rewrite digitpart_digits by (try assumption; reflexivity).
  unfold signed. destruct (isneg sg); reflexivity.
Qed.

(** characters of sign? digits are not whitespace *)
Lemma sign_digit_nonspace sg ds x : all_digits ds = true -> In x (sgstr sg ++ ds) -> is_space x = false.
Proof.
  intros A I. apply in_app_iff in I as [I|I].
  - destruct sg as [[|]|]; cbn in I; try tauto; destruct I as [<-|[]]; reflexivity.
  - unfold all_digits in A. rewrite forallb_forall in A. specialize (A x I). revert A. clear. brute x.
Qed.
Lemma unblank_bons s t : unblank s = t -> (forall x, In x t -> is_space x = false) -> forallb bons s = true.
Proof.
  intros E N. rewrite forallb_forall. intros x Hx. unfold bons, isblank. destruct (ceqb x " ") eqn:B; [reflexivity|].
  cbn [orb]. rewrite (N x); [reflexivity|]. rewrite <- E. apply In_replace1_other; assumption.
Qed.

(** RENDERING (general form): any text that, blanks removed, is an optional sign followed by
    one or more digits -- blanks before, after, between sign and digits, between digits, in any
    number -- is read as exactly that integer *)
Theorem fi_reads_digits s bv sg ds : ds <> [] -> all_digits ds = true -> unblank s = sgstr sg ++ ds ->
  fortran_int s bv = VInt (signed (isneg sg) (dvalue 0 ds)).
Proof.
  intros NE A E.
  assert (B : forallb bons s = true) by (eapply unblank_bons; [exact E|]; intros x Hx; eapply sign_digit_nonspace; eauto).
  assert (NS : strip s <> []).
  { intro Z. pose proof (unblank_strip s B) as U. rewrite Z, E in U. cbn in U. destruct sg as [[|]|], ds; cbn in U; congruence. }
  rewrite (fi_normal_form s bv NS). unfold int_of, inorm. rewrite (unblank_strip s B), E, (py_int_digits sg ds NE A). reflexivity.
Qed.

(** ** RENDERING (Fortran Iw / Iw.m output of the integer [z], as a function of [z]):
    optional plus sign ([plus], Fortran SP mode), at least [m] digits (zero filled, Iw.m),
    [gaps] = blanks in front of each character and after the last one *)
Definition int_sign (z : Z) (plus : bool) : option bool :=
  if (z <? 0)%Z then Some true else if plus then Some false else None.
Definition int_digits (z : Z) (m : nat) : str := zjust m (n_to_str (Z.abs_N z)).
Definition render_int (z : Z) (plus : bool) (m : nat) (gaps : list nat) : str :=
  with_blanks gaps (sgstr (int_sign z plus) ++ int_digits z m).

Lemma signed_abs z plus : signed (isneg (int_sign z plus)) (Z.abs_N z) = z.
Proof. unfold int_sign, signed. destruct (z <? 0)%Z eqn:L; [|destruct plus]; cbn [isneg]; lia. Qed.
Lemma unblank_sign_digits sg ds : all_digits ds = true -> unblank (sgstr sg ++ ds) = sgstr sg ++ ds.
Proof.
  intro A. apply replace1_absent. rewrite forallb_forall. intros x Hx.
  destruct (ceqb x " ") eqn:B; [|reflexivity]. apply Ascii.eqb_eq in B. subst x.
  pose proof (sign_digit_nonspace sg ds " " A Hx) as F. discriminate F.
Qed.

Theorem fi_rendering z plus m gaps bv : fortran_int (render_int z plus m gaps) bv = VInt z.
Proof.
  assert (A : all_digits (int_digits z m) = true) by (apply zjust_digits, n_to_str_digits).
  assert (NE : int_digits z m <> []) by (apply zjust_nonempty, n_to_str_nonempty).
  rewrite (fi_reads_digits _ bv (int_sign z plus) (int_digits z m) NE A).
  - unfold int_digits. rewrite zjust_value, n_to_str_value, signed_abs. reflexivity.
  - unfold render_int. rewrite unblank_with_blanks. apply unblank_sign_digits. exact A.
Qed.

(** what the rendering function prints *)
Example render_int_I5 : render_int (-42) false 0 [3%nat] = s2l "   -42".
Proof. vm_compute. reflexivity. Qed.
Example render_int_I6_3 : render_int 7 true 3 [1%nat; 0%nat; 0%nat; 0%nat; 2%nat] = s2l " +007  ".
Proof. vm_compute. reflexivity. Qed.
Example render_int_embedded : render_int 1234 false 0 [2%nat; 0%nat; 1%nat; 0%nat; 3%nat] = s2l "  12 34   ".
Proof. vm_compute. reflexivity. Qed.
Example render_int_value : fortran_int (s2l " - 12 34 ") VNone = VInt (-1234).
Proof. vm_compute. reflexivity. Qed.
