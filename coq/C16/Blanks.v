(** C16 -- blanks in a field and decimal digit strings: the two ingredients every rendering
    theorem needs.
    [with_blanks gaps t] is the text [t] with [gaps(i)] blanks put in front of its i-th
    character and [gaps(|t|)] blanks after the last one (missing entries are 0): leading
    padding, trailing padding and embedded blanks at every position, in any number.
    Every text whose blank-free form is [t] is of this shape ([with_blanks_complete]). *)
From Coq Require Import Ascii String List Bool Arith ZArith NArith Lia.
From Coq Require Import DecimalString DecimalN DecimalPos.
From PTBase Require Import Exn PyStr PyNum PyVal.
From PTModel Require Import Fortran FortranNF FortranRender.
Import ListNotations.
Open Scope char_scope.

Definition gap (gaps : list nat) : nat := hd 0%nat gaps.
Fixpoint with_blanks (gaps : list nat) (t : str) : str :=
  match t with
  | [] => spaces (gap gaps)
  | c :: r => spaces (gap gaps) ++ c :: with_blanks (tl gaps) r
  end.
Definition unblank (s : str) : str := replace1 " " [] s.

Lemma unblank_app a b : unblank (a ++ b) = unblank a ++ unblank b.
Proof. apply replace1_app. Qed.
Lemma unblank_spaces n : unblank (spaces n) = [].
Proof. induction n as [|n IH]; [reflexivity|]. exact IH. Qed.
Lemma unblank_cons c r : unblank (c :: r) = unblank [c] ++ unblank r.
Proof. exact (unblank_app [c] r). Qed.
Lemma unblank_with_blanks t : forall gaps, unblank (with_blanks gaps t) = unblank t.
Proof.
  induction t as [|c r IH]; intro gaps; cbn [with_blanks]; [apply unblank_spaces|].
  rewrite unblank_app, unblank_spaces. cbn [app]. rewrite unblank_cons, IH, <- unblank_cons. reflexivity.
Qed.

(** completeness: whatever text has blank-free form [t] is [t] with blanks put in *)
Definition bump (gaps : list nat) : list nat := S (gap gaps) :: tl gaps.
Lemma with_blanks_bump gaps t : with_blanks (bump gaps) t = " " :: with_blanks gaps t.
Proof. destruct t; reflexivity. Qed.
Theorem with_blanks_complete s : exists gaps, s = with_blanks gaps (unblank s).
Proof.
  induction s as [|c r [gaps E]]; [exists []; reflexivity|].
  rewrite unblank_cons. unfold unblank at 1, replace1. cbn [flat_map].
  destruct (ceqb c " ") eqn:B.
  - apply Ascii.eqb_eq in B. subst c. cbn [app]. exists (bump gaps). rewrite with_blanks_bump. f_equal. exact E.
  - cbn [app]. exists (0%nat :: gaps). cbn [with_blanks gap hd tl spaces repeat app]. f_equal. exact E.
Qed.

(** ** texts whose only whitespace is the blank: [strip] removes blanks only *)
Definition isblank (c : ascii) : bool := ceqb c " ".
Definition bons (c : ascii) : bool := isblank c || negb (is_space c).

Lemma strip_split_blank s : forallb bons s = true ->
  exists a b, s = a ++ strip s ++ b /\ forallb isblank a = true /\ forallb isblank b = true.
Proof.
  intro H. destruct (strip_split s) as [a [b [E [Fa Fb]]]]. exists a, b. split; [exact E|].
  rewrite forallb_forall in H.
  assert (K : forall l, (forall x, In x l -> In x s) -> forallb is_space l = true -> forallb isblank l = true).
  { intros l Sub F. rewrite forallb_forall in *. intros x Hx. specialize (H x (Sub x Hx)). specialize (F x Hx).
    unfold bons in H. rewrite F in H. cbn in H. rewrite orb_false_r in H. exact H. }
  split; apply K; try assumption; intros x Hx; rewrite E, !in_app_iff; tauto.
Qed.
Lemma unblank_blanks a : forallb isblank a = true -> unblank a = [].
Proof.
  induction a as [|c r IH]; [reflexivity|]. cbn [forallb]. intro H. apply andb_prop in H as [H1 H2].
  rewrite unblank_cons, (IH H2), app_nil_r. unfold unblank, replace1. cbn [flat_map]. unfold isblank in H1. rewrite H1. reflexivity.
Qed.
Lemma unblank_strip s : forallb bons s = true -> unblank (strip s) = unblank s.
Proof.
  intro H. destruct (strip_split_blank s H) as (a & b & E & Fa & Fb). rewrite E at 2.
  rewrite !unblank_app, (unblank_blanks a Fa), (unblank_blanks b Fb), app_nil_r. reflexivity.
Qed.

Lemma bons_spaces n : forallb bons (spaces n) = true.
Proof. induction n as [|n IH]; [reflexivity|]. exact IH. Qed.
Lemma bons_with_blanks t : forallb bons t = true -> forall gaps, forallb bons (with_blanks gaps t) = true.
Proof.
  induction t as [|c r IH]; intros H gaps; cbn [with_blanks]; [apply bons_spaces|].
  cbn [forallb] in H. apply andb_prop in H as [H1 H2].
  rewrite forallb_app, bons_spaces. cbn [forallb andb]. rewrite H1, (IH H2). reflexivity.
Qed.

(** ** the float normal form [norm] acts character by character *)
Lemma norm_app a b : norm (a ++ b) = norm a ++ norm b.
Proof. unfold norm, lower. rewrite map_app, !replace1_app. reflexivity. Qed.
Lemma norm_cons c r : norm (c :: r) = norm [c] ++ norm r.
Proof. exact (norm_app [c] r). Qed.
Lemma norm_blanks a : forallb isblank a = true -> norm a = [].
Proof.
  induction a as [|c r IH]; [reflexivity|]. cbn [forallb]. intro H. apply andb_prop in H as [H1 H2].
  rewrite norm_cons, (IH H2), app_nil_r. unfold isblank in H1. apply Ascii.eqb_eq in H1. subst c. reflexivity.
Qed.
Lemma norm_spaces n : norm (spaces n) = [].
Proof. apply norm_blanks. induction n as [|n IH]; [reflexivity|]. exact IH. Qed.
Lemma norm_strip s : forallb bons s = true -> norm (strip s) = norm s.
Proof.
  intro H. destruct (strip_split_blank s H) as (a & b & E & Fa & Fb). rewrite E at 2.
  rewrite !norm_app, (norm_blanks a Fa), (norm_blanks b Fb), app_nil_r. reflexivity.
Qed.
Lemma norm_with_blanks t : forall gaps, norm (with_blanks gaps t) = norm t.
Proof.
  induction t as [|c r IH]; intro gaps; cbn [with_blanks]; [apply norm_spaces|].
  rewrite norm_app, norm_spaces. cbn [app]. rewrite norm_cons, IH, <- norm_cons. reflexivity.
Qed.
Lemma norm_digit c : is_digit c = true -> norm [c] = [c].
Proof. brute c. Qed.
Lemma norm_digits ds : all_digits ds = true -> norm ds = ds.
Proof.
  induction ds as [|c r IH]; [reflexivity|]. cbn [all_digits forallb]. intro H. apply andb_prop in H as [H1 H2].
  rewrite norm_cons, (norm_digit c H1), (IH H2). reflexivity.
Qed.
Lemma digit_bons c : is_digit c = true -> bons c = true.
Proof. brute c. Qed.
Lemma digits_bons ds : all_digits ds = true -> forallb bons ds = true.
Proof. apply forallb_impl. exact digit_bons. Qed.

(** ** decimal digit strings: [n_to_str n] (Python's [str(n)]) is all digits and denotes [n] *)
Fixpoint uval (acc : N) (d : Decimal.uint) : N :=
  match d with
  | Decimal.Nil => acc
  | Decimal.D0 l => uval (acc * 10 + 0) l | Decimal.D1 l => uval (acc * 10 + 1) l
  | Decimal.D2 l => uval (acc * 10 + 2) l | Decimal.D3 l => uval (acc * 10 + 3) l
  | Decimal.D4 l => uval (acc * 10 + 4) l | Decimal.D5 l => uval (acc * 10 + 5) l
  | Decimal.D6 l => uval (acc * 10 + 6) l | Decimal.D7 l => uval (acc * 10 + 7) l
  | Decimal.D8 l => uval (acc * 10 + 8) l | Decimal.D9 l => uval (acc * 10 + 9) l
  end.
Lemma dvalue_uint d : forall acc, dvalue acc (s2l (NilEmpty.string_of_uint d)) = uval acc d.
Proof. induction d; intro acc; cbn [NilEmpty.string_of_uint s2l list_ascii_of_string dvalue uval]; try reflexivity; apply IHd. Qed.
Lemma all_digits_uint d : all_digits (s2l (NilEmpty.string_of_uint d)) = true.
Proof. induction d; cbn [NilEmpty.string_of_uint s2l list_ascii_of_string all_digits forallb]; try reflexivity; exact IHd. Qed.
Lemma uval_pos d : forall acc, uval (Npos acc) d = Npos (Pos.of_uint_acc d acc).
Proof.
  induction d; intro acc; cbn [uval Pos.of_uint_acc]; try reflexivity;
    match goal with |- uval ?a _ = _ => match goal with |- _ = N.pos (Pos.of_uint_acc _ ?p) => replace a with (N.pos p) by lia end end; apply IHd.
Qed.
Lemma uval_of_uint d : uval 0 d = Pos.of_uint d.
Proof. induction d; cbn [uval Pos.of_uint]; try reflexivity; try exact IHd;
    match goal with |- _ = N.pos (Pos.of_uint_acc _ ?p) => exact (uval_pos d p) end. Qed.
Lemma string_of_uint_value d : dvalue 0 (s2l (NilZero.string_of_uint d)) = N.of_uint d.
Proof.
  unfold N.of_uint. rewrite <- uval_of_uint. destruct d; try reflexivity; unfold NilZero.string_of_uint; apply dvalue_uint.
Qed.
Lemma string_of_uint_digits d : all_digits (s2l (NilZero.string_of_uint d)) = true.
Proof. destruct d; try reflexivity; unfold NilZero.string_of_uint; apply all_digits_uint. Qed.
Lemma string_of_uint_nonempty d : s2l (NilZero.string_of_uint d) <> [].
Proof. destruct d; discriminate. Qed.

Theorem n_to_str_value n : dvalue 0 (n_to_str n) = n.
Proof. unfold n_to_str. rewrite string_of_uint_value. apply DecimalN.Unsigned.of_to. Qed.
Theorem n_to_str_digits n : all_digits (n_to_str n) = true.
Proof. apply string_of_uint_digits. Qed.
Theorem n_to_str_nonempty n : n_to_str n <> [].
Proof. apply string_of_uint_nonempty. Qed.

(** zero padding on the left (Fortran Iw.m, Ew.dEe) changes neither *)
Lemma dvalue_zeros k t : dvalue 0 (repeat "0" k ++ t) = dvalue 0 t.
Proof. induction k as [|k IH]; [reflexivity|]. exact IH. Qed.
Lemma zjust_value w t : dvalue 0 (zjust w t) = dvalue 0 t.
Proof. apply dvalue_zeros. Qed.
Lemma zjust_digits w t : all_digits t = true -> all_digits (zjust w t) = true.
Proof.
  intro H. unfold zjust, all_digits. rewrite forallb_app. fold (all_digits t). rewrite H, andb_true_r.
  induction (w - length t)%nat as [|k IH]; [reflexivity|]. exact IH.
Qed.
Lemma zjust_nonempty w t : t <> [] -> zjust w t <> [].
Proof. unfold zjust. destruct t; [congruence|]. intros _ H. apply app_eq_nil in H as [_ H]. discriminate. Qed.
