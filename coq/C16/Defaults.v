(** C16: the OTHER dictionary a caller may hand to a parser of a Fortran-written file, the strict
    Python one: [value_error_none], [default_read_float/int = value_error_none(float/int)] and
    [default_read_function = read_function_dict()] (parameter defaults), regenerated from the
    module-level AST on every run (GenFortran.v: [gen_value_error_none], [gen_default_read_float/int],
    [gen_default_read_function]).  The "anything Python's own conversion accepts gives the same
    result" clause, read at the level of the two dictionaries: they agree exactly on the texts
    float()/int() accepts and on blank fields; everywhere else the default reader answers None
    where the Fortran reader reads Fortran's meaning. *)
From Coq Require Import Ascii String List Bool Arith ZArith NArith Lia.
From PTBase Require Import Exn PyStr PyNum PyVal.
From PTModel Require Import Fortran FortranNF FortranRender.
From Gen Require Import GenFortran.
From P Require Import Spec Blanks IntRender Styles Main Readers.
Import ListNotations.
Open Scope char_scope.

Definition py_float_or_none (s : str) : pyval := match py_float_opt s with Some v => VFloat v | None => VNone end.
Definition py_int_or_none (s : str) : pyval := match py_int_opt s with Some z => VInt z | None => VNone end.

(** bridging lemmas: the generated default readers are float()/int() with ValueError turned into None *)
Lemma dflt_float s : gen_default_read_float (VStr s) = Ok (py_float_or_none s).
Proof.
  unfold gen_default_read_float, gen_value_error_none, py_float_or_none. rewrite b_float_str.
  destruct (py_float_opt s); reflexivity.
Qed.
Lemma dflt_int s : gen_default_read_int (VStr s) = Ok (py_int_or_none s).
Proof.
  unfold gen_default_read_int, gen_value_error_none, py_int_or_none. rewrite b_int_str.
  destruct (py_int_opt s); reflexivity.
Qed.

Lemma default_keys :
  map fst gen_default_read_function = ["d"; "e"; "f"; "g"] /\ gen_default_read_other_keys = ["s"; "x"] /\
  reader_of "f" gen_default_read_function = Some gen_default_read_float /\
  reader_of "e" gen_default_read_function = Some gen_default_read_float /\
  reader_of "g" gen_default_read_function = Some gen_default_read_float /\
  reader_of "d" gen_default_read_function = Some gen_default_read_int.
Proof. repeat split; reflexivity. Qed.

Lemma default_cases k f : reader_of k gen_default_read_function = Some f ->
  (k = "d" /\ f = gen_default_read_int) \/ (In k ["f"; "e"; "g"] /\ f = gen_default_read_float).
Proof.
  unfold gen_default_read_function. cbn [reader_of].
  repeat match goal with |- context [Ascii.eqb k ?c] => destruct (Ascii.eqb_spec k c) end;
    intro H; inversion H; subst; cbn [In]; tauto.
Qed.
Lemma feg_not_d k : In k ["f"; "e"; "g"] -> Ascii.eqb k "d" = false.
Proof. cbn [In]. intros [<-|[<-|[<-|[]]]]; reflexivity. Qed.

(** the default dictionary is Python's own conversion, None where it raises ValueError; never raises on text *)
Lemma default_is_python k f s : reader_of k gen_default_read_function = Some f ->
  f (VStr s) = Ok (if Ascii.eqb k "d" then py_int_or_none s else py_float_or_none s).
Proof.
  intro R. destruct (default_cases k f R) as [[-> ->]|[K ->]].
  - rewrite dflt_int. reflexivity.
  - rewrite dflt_float, (feg_not_d k K). reflexivity.
Qed.

(** the two dictionaries on a real field *)
Lemma real_agree_iff k fd ff s : In k ["f"; "e"; "g"] ->
  reader_of k gen_default_read_function = Some fd -> reader_of k gen_fortran_read_function = Some ff ->
  (fd (VStr s) = ff (VStr s) <-> (py_float_opt s <> None \/ strip s = [])).
Proof.
  intros K RD RF.
  destruct (default_cases k fd RD) as [[-> _]|[_ ->]]; [cbn in K; intuition discriminate|].
  destruct (reader_cases k ff RF) as [[-> _]|[_ ->]]; [cbn in K; intuition discriminate|].
  rewrite dflt_float, read_float_is. unfold py_float_or_none.
  destruct (py_float_opt s) as [v|] eqn:E.
  - assert (C : py_float s = Ok v) by (unfold py_float; rewrite E; reflexivity).
    rewrite (ff_compat s v VNone C). split; [intros _; left; discriminate|reflexivity].
  - destruct (strip s) as [|c r] eqn:S.
    + rewrite (ff_blank_ s VNone S). split; [intros _; right; reflexivity|reflexivity].
    + assert (NE : strip s <> []) by (rewrite S; discriminate).
      rewrite (ff_nf s VNone NE). split; [discriminate|]. intros [H|H]; [congruence|discriminate H].
Qed.
(** ... and on an integer field *)
Lemma int_agree_iff fd ff s :
  reader_of "d" gen_default_read_function = Some fd -> reader_of "d" gen_fortran_read_function = Some ff ->
  (fd (VStr s) = ff (VStr s) <-> (py_int_opt s <> None \/ strip s = [] \/ py_int_opt (inorm s) = None)).
Proof.
  intros RD RF. inversion RD; subst fd. inversion RF; subst ff. clear RD RF.
  rewrite dflt_int, read_int_is. unfold py_int_or_none.
  destruct (py_int_opt s) as [v|] eqn:E.
  - assert (C : py_int s = Ok v) by (unfold py_int; rewrite E; reflexivity).
    rewrite (fi_compat s v VNone C). split; [intros _; left; discriminate|reflexivity].
  - destruct (strip s) as [|c r] eqn:S.
    + rewrite (fi_blank_ s VNone S). split; [intros _; right; left; reflexivity|reflexivity].
    + assert (NE : strip s <> []) by (rewrite S; discriminate).
      rewrite (fi_nf s VNone NE). unfold int_of. destruct (py_int_opt (inorm s)) as [z|] eqn:N.
      * split; [discriminate|]. intros [H|[H|H]]; [congruence|discriminate H|discriminate].
      * split; [intros _; right; right; reflexivity|reflexivity].
Qed.
(** whatever Python accepts: both dictionaries give Python's value *)
Lemma both_python_real k s v : In k ["f"; "e"; "g"] -> py_float s = Ok v ->
  exists fd ff, reader_of k gen_default_read_function = Some fd /\ reader_of k gen_fortran_read_function = Some ff /\
    fd (VStr s) = Ok (VFloat v) /\ ff (VStr s) = Ok (VFloat v).
Proof.
  intros K P. exists gen_default_read_float, gen_fortran_read_float.
  split; [cbn [In] in K; destruct K as [<-|[<-|[<-|[]]]]; reflexivity|].
  split; [cbn [In] in K; destruct K as [<-|[<-|[<-|[]]]]; reflexivity|].
  rewrite dflt_float, read_float_is, (ff_compat s v VNone P). split; [|reflexivity].
  unfold py_float_or_none. unfold py_float in P. destruct (py_float_opt s); [inversion P; reflexivity|discriminate].
Qed.
Lemma both_python_int s z : py_int s = Ok z ->
  exists fd ff, reader_of "d" gen_default_read_function = Some fd /\ reader_of "d" gen_fortran_read_function = Some ff /\
    fd (VStr s) = Ok (VInt z) /\ ff (VStr s) = Ok (VInt z).
Proof.
  intros P. exists gen_default_read_int, gen_fortran_read_int. split; [reflexivity|]. split; [reflexivity|].
  rewrite dflt_int, read_int_is, (fi_compat s z VNone P). split; [|reflexivity].
  unfold py_int_or_none. unfold py_int in P. destruct (py_int_opt s); [inversion P; reflexivity|discriminate].
Qed.
(** where they differ: a blank or a D/d inside the field (what float() itself strips being set aside)
    makes the default reader answer None -- these are the texts only the Fortran reader reads *)
Lemma default_none_on_blank_or_d k fd s c : In k ["f"; "e"; "g"] -> reader_of k gen_default_read_function = Some fd ->
  In c (cstrip s) -> core_char c = false -> fd (VStr s) = Ok VNone.
Proof.
  intros K RD I C.
  destruct (default_cases k fd RD) as [[-> _]|[_ ->]]; [cbn in K; intuition discriminate|].
  rewrite dflt_float. unfold py_float_or_none. destruct (py_float_opt s) as [v|] eqn:E; [|reflexivity].
  pose proof (accepted_core s v E) as A. rewrite forallb_forall in A. rewrite (A c I) in C. discriminate.
Qed.

(** non-vacuity, and the three ways of printing the property names on which the dictionaries differ *)
Example ex_core : core_char " " = false /\ core_char "d" = false /\ core_char "D" = false /\ In "D" (cstrip (s2l " 0.1234D+05 ")).
Proof. repeat split; try reflexivity. vm_compute. tauto. Qed.
Example ex_differ :
  gen_default_read_float (VStr (s2l "0.1234D+05")) = Ok VNone /\ gen_fortran_read_float (VStr (s2l "0.1234D+05")) = Ok (VFloat (Fin false 1234 1)) /\
  gen_default_read_float (VStr (s2l "0.15-120")) = Ok VNone /\ gen_fortran_read_float (VStr (s2l "0.15-120")) = Ok (VFloat (Fin false 15 (-122))) /\
  gen_default_read_float (VStr (s2l "- 1.5")) = Ok VNone /\ gen_fortran_read_float (VStr (s2l "- 1.5")) = Ok (VFloat (Fin true 15 (-1))) /\
  gen_default_read_int (VStr (s2l "1 2")) = Ok VNone /\ gen_fortran_read_int (VStr (s2l "1 2")) = Ok (VInt 12).
Proof. repeat split; vm_compute; reflexivity. Qed.
Example ex_agree : py_float (s2l " 1.5e3 ") = Ok (Fin false 15 2) /\ py_int (s2l " -12 ") = Ok (-12)%Z.
Proof. split; reflexivity. Qed.
