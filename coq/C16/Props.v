(** C16 -- property theorems only.  Each is closed by [exact] of a lemma proved in
    Main.v / Model/Fortran.v and followed by Print Assumptions. *)
From Coq Require Import Ascii String List Bool ZArith NArith.
From PTBase Require Import Exn PyStr PyNum PyVal.
From PTModel Require Import Fortran FortranNF FortranRender.
From Gen Require Import GenFortran.
From P Require Import Spec Main.
Import ListNotations.
Open Scope char_scope.

(** the generated functions equal the reference model on every string *)
Theorem gen_fortran_float_is_model : forall s bv, gen_fortran_float (VStr s) bv = Ok (fortran_float s bv).
Proof. exact gen_fortran_float_spec. Qed.
Print Assumptions gen_fortran_float_is_model.
Theorem gen_fortran_int_is_model : forall s bv, gen_fortran_int (VStr s) bv = Ok (fortran_int s bv).
Proof. exact gen_fortran_int_spec. Qed.
Print Assumptions gen_fortran_int_is_model.

(** no text whatsoever makes the readers raise *)
Theorem fortran_float_total : forall s bv, exists v, gen_fortran_float (VStr s) bv = Ok v.
Proof. exact ff_total. Qed.
Print Assumptions fortran_float_total.
Theorem fortran_int_total : forall s bv, exists v, gen_fortran_int (VStr s) bv = Ok v.
Proof. exact fi_total. Qed.
Print Assumptions fortran_int_total.

(** anything Python's own conversion accepts gives the same result *)
Theorem fortran_float_py_compatible : forall s v bv, py_float s = Ok v -> gen_fortran_float (VStr s) bv = Ok (VFloat v).
Proof. exact ff_compat. Qed.
Print Assumptions fortran_float_py_compatible.
Theorem fortran_int_py_compatible : forall s v bv, py_int s = Ok v -> gen_fortran_int (VStr s) bv = Ok (VInt v).
Proof. exact fi_compat. Qed.
Print Assumptions fortran_int_py_compatible.

(** a blank field yields the caller's blank value *)
Theorem fortran_float_blank : forall s bv, strip s = [] -> gen_fortran_float (VStr s) bv = Ok bv.
Proof. exact ff_blank_. Qed.
Print Assumptions fortran_float_blank.
Theorem fortran_int_blank : forall s bv, strip s = [] -> gen_fortran_int (VStr s) bv = Ok bv.
Proof. exact fi_blank_. Qed.
Print Assumptions fortran_int_blank.

(** text containing any character that cannot occur in a number yields NaN / None *)
Theorem bad_char_gives_nan : forall s c bv, In c s -> numeric_char c = false -> gen_fortran_float (VStr s) bv = Ok (VFloat NaN).
Proof. exact ff_bad. Qed.
Print Assumptions bad_char_gives_nan.
Theorem bad_char_gives_none : forall s c bv, In c s -> int_char c = false -> gen_fortran_int (VStr s) bv = Ok VNone.
Proof. exact fi_bad. Qed.
Print Assumptions bad_char_gives_none.
(** ... and so does CPython's float()/int(): what they accept consists of numeric characters only *)
Theorem float_accepts_only_numeric : forall s v, py_float_opt s = Some v -> forallb numeric_char s = true.
Proof. exact float_accepts_numeric. Qed.
Print Assumptions float_accepts_only_numeric.

(** float() is case-insensitive and accepts neither a blank nor a d inside the stripped text:
    whatever it accepts, it accepts in normalised form with the same value *)
Theorem float_accepts_normalised : forall s v, py_float_opt s = Some v -> py_float_opt (norm (strip s)) = Some v.
Proof. exact float_accepts_norm. Qed.
Print Assumptions float_accepts_normalised.
(** NORMAL FORM: for every non-blank text the reader's result is the cascade on
    norm (strip s) = lower case, d -> e, all blanks removed *)
Theorem fortran_float_normal_form : forall s bv, strip s <> [] ->
  gen_fortran_float (VStr s) bv = Ok (VFloat (cascade (norm (strip s)))).
Proof. exact ff_nf. Qed.
Print Assumptions fortran_float_normal_form.
(** hence blanks inside the field are ignored, D/d means E, case does not matter *)
Theorem fortran_float_ignores_blanks_case_and_D : forall s s' bv, strip s <> [] -> strip s' <> [] ->
  norm (strip s) = norm (strip s') -> gen_fortran_float (VStr s) bv = gen_fortran_float (VStr s') bv.
Proof. exact ff_norm_only. Qed.
Print Assumptions fortran_float_ignores_blanks_case_and_D.
(** RENDERINGS: every text whose normal form is  sign? digits? . digits?  followed by nothing,
    by e sign? digits, or by a bare signed exponent (letter dropped) is read as that real:
    any number of mantissa digits, any exponent, any padding / embedded blanks / case / D *)
Theorem fortran_float_renderings : forall s bv sg ip fp x, wf_mant ip fp -> wf_expo x -> strip s <> [] ->
  norm (strip s) = canon sg ip fp x -> gen_fortran_float (VStr s) bv = Ok (VFloat (canon_value sg ip fp x)).
Proof. exact ff_renderings. Qed.
Print Assumptions fortran_float_renderings.
