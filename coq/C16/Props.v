(** C16 -- property theorems only.  Each is closed by [exact] of a lemma proved in
    Main.v / Model/Fortran.v and followed by Print Assumptions. *)
From Coq Require Import Ascii String List Bool ZArith NArith.
From PTBase Require Import Exn PyStr PyNum PyVal.
From PTModel Require Import Fortran FortranNF FortranRender.
From Gen Require Import GenFortran.
From P Require Import Spec Blanks IntRender Styles Main Readers Defaults DStyle.
Import ListNotations.
Open Scope char_scope.

(** the generated functions equal the reference model on every string *)
Theorem gen_fortran_float_is_model : forall s bv, gen_fortran_float (VStr s) bv = Ok (fortran_float s bv).
Proof. exact gen_fortran_float_spec. Qed.
Print Assumptions gen_fortran_float_is_model.
Theorem gen_fortran_int_is_model : forall s bv, gen_fortran_int (VStr s) bv = Ok (fortran_int s bv).
Proof. exact gen_fortran_int_spec. Qed.
Print Assumptions gen_fortran_int_is_model.

(** no text whatsoever makes the readers raise *)
Theorem fortran_float_total : forall s bv, exists v, gen_fortran_float (VStr s) bv = Ok v.
Proof. exact ff_total. Qed.
Print Assumptions fortran_float_total.
Theorem fortran_int_total : forall s bv, exists v, gen_fortran_int (VStr s) bv = Ok v.
Proof. exact fi_total. Qed.
Print Assumptions fortran_int_total.

(** anything Python's own conversion accepts gives the same result *)
Theorem fortran_float_py_compatible : forall s v bv, py_float s = Ok v -> gen_fortran_float (VStr s) bv = Ok (VFloat v).
Proof. exact ff_compat. Qed.
Print Assumptions fortran_float_py_compatible.
Theorem fortran_int_py_compatible : forall s v bv, py_int s = Ok v -> gen_fortran_int (VStr s) bv = Ok (VInt v).
Proof. exact fi_compat. Qed.
Print Assumptions fortran_int_py_compatible.

(** a blank field yields the caller's blank value *)
Theorem fortran_float_blank : forall s bv, strip s = [] -> gen_fortran_float (VStr s) bv = Ok bv.
Proof. exact ff_blank_. Qed.
Print Assumptions fortran_float_blank.
Theorem fortran_int_blank : forall s bv, strip s = [] -> gen_fortran_int (VStr s) bv = Ok bv.
Proof. exact fi_blank_. Qed.
Print Assumptions fortran_int_blank.

(** text containing any character that cannot occur in a number yields NaN / None *)
Theorem bad_char_gives_nan : forall s c bv, In c s -> numeric_char c = false -> gen_fortran_float (VStr s) bv = Ok (VFloat NaN).
Proof. exact ff_bad. Qed.
Print Assumptions bad_char_gives_nan.
Theorem bad_char_gives_none : forall s c bv, In c s -> int_char c = false -> gen_fortran_int (VStr s) bv = Ok VNone.
Proof. exact fi_bad. Qed.
Print Assumptions bad_char_gives_none.
(** ... and so does CPython's float()/int(): what they accept consists of numeric characters only *)
Theorem float_accepts_only_numeric : forall s v, py_float_opt s = Some v -> forallb numeric_char s = true.
Proof. exact float_accepts_numeric. Qed.
Print Assumptions float_accepts_only_numeric.

(** float() is case-insensitive and accepts neither a blank nor a d inside the stripped text:
    whatever it accepts, it accepts in normalised form with the same value *)
Theorem float_accepts_normalised : forall s v, py_float_opt s = Some v -> py_float_opt (norm (strip s)) = Some v.
Proof. exact float_accepts_norm. Qed.
Print Assumptions float_accepts_normalised.
(** NORMAL FORM: for every non-blank text the reader's result is the cascade on
    norm (strip s) = lower case, d -> e, all blanks removed *)
Theorem fortran_float_normal_form : forall s bv, strip s <> [] ->
  gen_fortran_float (VStr s) bv = Ok (VFloat (cascade (norm (strip s)))).
Proof. exact ff_nf. Qed.
Print Assumptions fortran_float_normal_form.
(** hence blanks inside the field are ignored, D/d means E, case does not matter *)
Theorem fortran_float_ignores_blanks_case_and_D : forall s s' bv, strip s <> [] -> strip s' <> [] ->
  norm (strip s) = norm (strip s') -> gen_fortran_float (VStr s) bv = gen_fortran_float (VStr s') bv.
Proof. exact ff_norm_only. Qed.
Print Assumptions fortran_float_ignores_blanks_case_and_D.
(** RENDERINGS: every text whose normal form is  sign? digits? . digits?  followed by nothing,
    by e sign? digits, or by a bare signed exponent (letter dropped) is read as that real:
    any number of mantissa digits, any exponent, any padding / embedded blanks / case / D *)
Theorem fortran_float_renderings : forall s bv sg ip fp x, wf_mant ip fp -> wf_expo x -> strip s <> [] ->
  norm (strip s) = canon sg ip fp x -> gen_fortran_float (VStr s) bv = Ok (VFloat (canon_value sg ip fp x)).
Proof. exact ff_renderings. Qed.
Print Assumptions fortran_float_renderings.

(** overflow asterisks (what Fortran prints when the value does not fit the field): corollaries
    of the bad-character theorems, [*] being no numeric character *)
Theorem overflow_asterisks_give_nan : forall s bv, In "*" s -> gen_fortran_float (VStr s) bv = Ok (VFloat NaN).
Proof. exact ff_stars. Qed.
Print Assumptions overflow_asterisks_give_nan.
Theorem overflow_asterisks_give_none : forall s bv, In "*" s -> gen_fortran_int (VStr s) bv = Ok VNone.
Proof. exact fi_stars. Qed.
Print Assumptions overflow_asterisks_give_none.

(** ** the integer reader *)
(** whatever int() accepts, it accepts stripped and with all blanks removed, with the same value *)
Theorem int_accepts_normalised : forall s v, py_int_opt s = Some v -> py_int_opt (inorm s) = Some v.
Proof. exact int_accepts_norm. Qed.
Print Assumptions int_accepts_normalised.
(** INTEGER NORMAL FORM: for every non-blank text the result is int() of the stripped text with
    all blanks removed ([inorm s = unblank (strip s)]), None when int() rejects that *)
Theorem fortran_int_normal_form : forall s bv, strip s <> [] -> gen_fortran_int (VStr s) bv = Ok (int_of (inorm s)).
Proof. exact fi_nf. Qed.
Print Assumptions fortran_int_normal_form.
Theorem fortran_int_ignores_blanks : forall s s' bv, strip s <> [] -> strip s' <> [] -> inorm s = inorm s' ->
  gen_fortran_int (VStr s) bv = gen_fortran_int (VStr s') bv.
Proof. exact fi_norm_only. Qed.
Print Assumptions fortran_int_ignores_blanks.
(** INTEGER RENDERINGS, general form: every text that is, blanks removed, an optional sign and
    one or more digits (any number of digits; blanks in front, behind, after the sign, between
    digits) is read as exactly that integer *)
Theorem fortran_int_reads_sign_digits_blanks : forall s bv sg ds, ds <> [] -> all_digits ds = true ->
  unblank s = (sgstr sg ++ ds)%list -> gen_fortran_int (VStr s) bv = Ok (VInt (signed (isneg sg) (dvalue 0 ds))).
Proof. exact fi_digits. Qed.
Print Assumptions fortran_int_reads_sign_digits_blanks.
(** ... as a rendering function of the integer: Fortran Iw / Iw.m output of z (optional plus
    sign, at least m digits, zero filled) with [gaps] blanks before each character and at the
    end is read back as z -- no side condition *)
Theorem fortran_int_rendering : forall z plus m gaps bv, gen_fortran_int (VStr (render_int z plus m gaps)) bv = Ok (VInt z).
Proof. exact fi_render. Qed.
Print Assumptions fortran_int_rendering.
(** [with_blanks] reaches every placement of blanks: any text is its blank-free form with blanks put in *)
Theorem blank_placements_complete : forall s, exists gaps, s = with_blanks gaps (unblank s).
Proof. exact with_blanks_complete. Qed.
Print Assumptions blank_placements_complete.
(** the digit strings used by the renderings are decimal notation of the number *)
Theorem decimal_digit_strings : forall n, all_digits (n_to_str n) = true /\ n_to_str n <> [] /\ dvalue 0 (n_to_str n) = n.
Proof. exact decimal_digits. Qed.
Print Assumptions decimal_digit_strings.
Theorem digit_strings_positional : forall ds c, dvalue 0 (ds ++ [c])%list = (dvalue 0 ds * 10 + ndval c)%N.
Proof. exact dvalue_snoc. Qed.
Print Assumptions digit_strings_positional.

(** ** EVERY OUTPUT STYLE of a real (Styles.v): x = (sign, digits d1..dn, exponent e) denotes
    (-1)^sign * 0.d1..dn * 10^e = [real_value x]; [render st x] prints it with the choices [st]:
    explicit plus, 0.ddd / .ddd, k digits before the point (kP, ES), exponent letter E e D d with
    the sign of a non-negative exponent as + / blank / nothing and at least w exponent digits,
    letter dropped (sign kept), no exponent (F formats), blanks before every character and at the
    end.  Whatever the style, any number of digits, any exponent: read back as exactly x. *)
Theorem fortran_float_every_style : forall st x bv, wf_real x -> style_ok st x ->
  gen_fortran_float (VStr (render st x)) bv = Ok (VFloat (real_value x)).
Proof. exact ff_style. Qed.
Print Assumptions fortran_float_every_style.
(** the styles the property text names, one by one *)
Theorem fortran_float_style_catalogue : forall bv x g, wf_real x ->
  gen_reads_back bv (st_E g) x /\ gen_reads_back bv (st_D g) x /\ gen_reads_back bv (st_lower_e g) x /\
  gen_reads_back bv (st_lower_d g) x /\ gen_reads_back bv (st_point g) x /\ gen_reads_back bv (st_explicit_plus g) x /\
  gen_reads_back bv (st_dropped g) x /\ gen_reads_back bv (st_blank_plus g) x /\ gen_reads_back bv (st_ES g) x /\
  (forall k, style_ok (st_F k g) x -> gen_reads_back bv (st_F k g) x).
Proof. exact ff_catalogue. Qed.
Print Assumptions fortran_float_style_catalogue.

(** ** THE READERS AS THEIR USERS GET THEM (Readers.v).  t2incon and every fixed_format_file parser
    do not call fortran_float/fortran_int: they look a format letter up in the dictionary
    [fortran_read_function = read_function_dict(fortran_read_float, fortran_read_int)], where
    [fortran_read_float/int = partial(fortran_float/int, blank_value = None)].  That glue is
    regenerated from the module-level AST on every run ([gen_fortran_read_float/int], the table
    [gen_fortran_read_function] of the letters bound to the Fortran readers, [reader_of] = d[k]). *)
(** the dictionary has exactly the numeric letters d (integer) and e, f, g (real), bound to the
    partial applications; s and x are left to the non-numeric readers *)
Theorem fortran_read_function_keys :
  map fst gen_fortran_read_function = ["d"; "e"; "f"; "g"] /\ gen_fortran_read_other_keys = ["s"; "x"] /\
  reader_of "f" gen_fortran_read_function = Some gen_fortran_read_float /\
  reader_of "e" gen_fortran_read_function = Some gen_fortran_read_float /\
  reader_of "g" gen_fortran_read_function = Some gen_fortran_read_float /\
  reader_of "d" gen_fortran_read_function = Some gen_fortran_read_int.
Proof. exact read_function_keys. Qed.
Print Assumptions fortran_read_function_keys.
(** a real field (letter f, e or g): every output style of every real is read back as exactly that real *)
Theorem fortran_read_function_reads_every_style : forall k st x, In k ["f"; "e"; "g"] -> wf_real x -> style_ok st x ->
  exists f, reader_of k gen_fortran_read_function = Some f /\ f (VStr (render st x)) = Ok (VFloat (real_value x)).
Proof. exact rf_real. Qed.
Print Assumptions fortran_read_function_reads_every_style.
(** ... and every non-blank text through its normal form only (blanks, case, D/d ignored) *)
Theorem fortran_read_function_real_normal_form : forall k s, In k ["f"; "e"; "g"] -> strip s <> [] ->
  exists f, reader_of k gen_fortran_read_function = Some f /\ f (VStr s) = Ok (VFloat (cascade (norm (strip s)))).
Proof. exact rf_real_nf. Qed.
Print Assumptions fortran_read_function_real_normal_form.
(** an integer field (letter d): the Iw / Iw.m / SP output of z with blanks anywhere is read back as z *)
Theorem fortran_read_function_reads_integers : forall z plus m gaps,
  exists f, reader_of "d" gen_fortran_read_function = Some f /\ f (VStr (render_int z plus m gaps)) = Ok (VInt z).
Proof. exact rf_int. Qed.
Print Assumptions fortran_read_function_reads_integers.
(** whatever reader a letter selects: a blank field gives None (the blank value the partial
    applications bind), no text makes it raise, overflow asterisks give None (d) / NaN (e, f, g) *)
Theorem fortran_read_function_blank_is_none : forall k f s, reader_of k gen_fortran_read_function = Some f ->
  strip s = [] -> f (VStr s) = Ok VNone.
Proof. exact rf_blank. Qed.
Print Assumptions fortran_read_function_blank_is_none.
Theorem fortran_read_function_never_raises : forall k f s, reader_of k gen_fortran_read_function = Some f ->
  exists v, f (VStr s) = Ok v.
Proof. exact rf_total. Qed.
Print Assumptions fortran_read_function_never_raises.
Theorem fortran_read_function_asterisks : forall k f s, reader_of k gen_fortran_read_function = Some f -> In "*" s ->
  f (VStr s) = Ok (if Ascii.eqb k "d" then VNone else VFloat NaN).
Proof. exact rf_stars. Qed.
Print Assumptions fortran_read_function_asterisks.

(** ** THE STRICT (PYTHON) DICTIONARY NEXT TO THE FORTRAN ONE (Defaults.v).  [value_error_none],
    [default_read_float/int = value_error_none(float/int)] and [default_read_function =
    read_function_dict()] are regenerated from the module-level AST as well.  "Anything Python's own
    conversion accepts gives the same result", at the level of the two dictionaries. *)
Theorem default_read_function_keys :
  map fst gen_default_read_function = ["d"; "e"; "f"; "g"] /\ gen_default_read_other_keys = ["s"; "x"] /\
  reader_of "f" gen_default_read_function = Some gen_default_read_float /\
  reader_of "e" gen_default_read_function = Some gen_default_read_float /\
  reader_of "g" gen_default_read_function = Some gen_default_read_float /\
  reader_of "d" gen_default_read_function = Some gen_default_read_int.
Proof. exact default_keys. Qed.
Print Assumptions default_read_function_keys.
(** the default dictionary is float()/int() with ValueError turned into None (so it never raises on a text) *)
Theorem default_read_function_is_python : forall k f s, reader_of k gen_default_read_function = Some f ->
  f (VStr s) = Ok (if Ascii.eqb k "d" then py_int_or_none s else py_float_or_none s).
Proof. exact default_is_python. Qed.
Print Assumptions default_read_function_is_python.
(** whatever float() / int() accepts: both dictionaries return Python's value *)
Theorem dictionaries_agree_on_python_reals : forall k s v, In k ["f"; "e"; "g"] -> py_float s = Ok v ->
  exists fd ff, reader_of k gen_default_read_function = Some fd /\ reader_of k gen_fortran_read_function = Some ff /\
    fd (VStr s) = Ok (VFloat v) /\ ff (VStr s) = Ok (VFloat v).
Proof. exact both_python_real. Qed.
Print Assumptions dictionaries_agree_on_python_reals.
Theorem dictionaries_agree_on_python_integers : forall s z, py_int s = Ok z ->
  exists fd ff, reader_of "d" gen_default_read_function = Some fd /\ reader_of "d" gen_fortran_read_function = Some ff /\
    fd (VStr s) = Ok (VInt z) /\ ff (VStr s) = Ok (VInt z).
Proof. exact both_python_int. Qed.
Print Assumptions dictionaries_agree_on_python_integers.
(** EXACTLY where the two dictionaries agree: on a real field, the texts float() accepts and the
    blank fields (both None), nowhere else; on an integer field, additionally the non-blank texts
    int() rejects even with all blanks removed (both None) *)
Theorem dictionaries_agree_exactly_real : forall k fd ff s, In k ["f"; "e"; "g"] ->
  reader_of k gen_default_read_function = Some fd -> reader_of k gen_fortran_read_function = Some ff ->
  (fd (VStr s) = ff (VStr s) <-> (py_float_opt s <> None \/ strip s = [])).
Proof. exact real_agree_iff. Qed.
Print Assumptions dictionaries_agree_exactly_real.
Theorem dictionaries_agree_exactly_integer : forall fd ff s,
  reader_of "d" gen_default_read_function = Some fd -> reader_of "d" gen_fortran_read_function = Some ff ->
  (fd (VStr s) = ff (VStr s) <-> (py_int_opt s <> None \/ strip s = [] \/ py_int_opt (inorm s) = None)).
Proof. exact int_agree_iff. Qed.
Print Assumptions dictionaries_agree_exactly_integer.
(** where they differ: a blank or a D/d inside the field (inside what float() itself strips,
    [cstrip]) makes the default reader answer None; [core_char c = false] iff c is white space, d or D *)
Theorem default_reader_rejects_inner_blank_and_D : forall k fd s c, In k ["f"; "e"; "g"] ->
  reader_of k gen_default_read_function = Some fd -> In c (cstrip s) -> core_char c = false -> fd (VStr s) = Ok VNone.
Proof. exact default_none_on_blank_or_d. Qed.
Print Assumptions default_reader_rejects_inner_blank_and_D.

(** ** D EXPONENT LETTER, GENERAL (DStyle.v): every real printed in any style whose exponent letter
    is D or d ([is_D_style]; any sign style, width, scale, blanks anywhere) is rejected by float(),
    so the strict default reader answers None, while the Fortran reader reads exactly the real *)
Theorem float_rejects_every_D_style : forall st x, is_D_style st -> py_float_opt (render st x) = None.
Proof. exact float_rejects_d_style. Qed.
Print Assumptions float_rejects_every_D_style.
Theorem dictionaries_differ_on_every_D_style : forall k st x, In k ["f"; "e"; "g"] -> wf_real x -> is_D_style st ->
  exists fd ff, reader_of k gen_default_read_function = Some fd /\ reader_of k gen_fortran_read_function = Some ff /\
    fd (VStr (render st x)) = Ok VNone /\ ff (VStr (render st x)) = Ok (VFloat (real_value x)).
Proof. exact d_style_differs. Qed.
Print Assumptions dictionaries_differ_on_every_D_style.

(** the caller's blank value influences the result on blank fields ONLY: on every non-blank text the
    readers called with any two blank values agree, and so do fortran_read_float/int (blank value None) *)
Theorem blank_value_matters_only_on_blank_fields : forall s bv bv', strip s <> [] ->
  gen_fortran_float (VStr s) bv = gen_fortran_float (VStr s) bv' /\
  gen_fortran_int (VStr s) bv = gen_fortran_int (VStr s) bv' /\
  gen_fortran_read_float (VStr s) = gen_fortran_float (VStr s) bv /\
  gen_fortran_read_int (VStr s) = gen_fortran_int (VStr s) bv.
Proof. exact bv_only_blank. Qed.
Print Assumptions blank_value_matters_only_on_blank_fields.
