(** C16 -- property theorems only.  Each is closed by [exact] of a lemma proved in
    Main.v / Model/Fortran.v and followed by Print Assumptions. *)
From Coq Require Import Ascii String List Bool ZArith NArith.
From PTBase Require Import Exn PyStr PyNum PyVal.
From PTModel Require Import Fortran FortranNF FortranRender.
From Gen Require Import GenFortran.
From P Require Import Spec Blanks IntRender Styles Main.
Import ListNotations.
Open Scope char_scope.

(** the generated functions equal the reference model on every string *)
Theorem gen_fortran_float_is_model : forall s bv, gen_fortran_float (VStr s) bv = Ok (fortran_float s bv).
Proof. exact gen_fortran_float_spec. Qed.
Print Assumptions gen_fortran_float_is_model.
Theorem gen_fortran_int_is_model : forall s bv, gen_fortran_int (VStr s) bv = Ok (fortran_int s bv).
Proof. exact gen_fortran_int_spec. Qed.
Print Assumptions gen_fortran_int_is_model.

(** no text whatsoever makes the readers raise *)
Theorem fortran_float_total : forall s bv, exists v, gen_fortran_float (VStr s) bv = Ok v.
Proof. exact ff_total. Qed.
Print Assumptions fortran_float_total.
Theorem fortran_int_total : forall s bv, exists v, gen_fortran_int (VStr s) bv = Ok v.
Proof. exact fi_total. Qed.
Print Assumptions fortran_int_total.

(** anything Python's own conversion accepts gives the same result *)
Theorem fortran_float_py_compatible : forall s v bv, py_float s = Ok v -> gen_fortran_float (VStr s) bv = Ok (VFloat v).
Proof. exact ff_compat. Qed.
Print Assumptions fortran_float_py_compatible.
Theorem fortran_int_py_compatible : forall s v bv, py_int s = Ok v -> gen_fortran_int (VStr s) bv = Ok (VInt v).
Proof. exact fi_compat. Qed.
Print Assumptions fortran_int_py_compatible.

(** a blank field yields the caller's blank value *)
Theorem fortran_float_blank : forall s bv, strip s = [] -> gen_fortran_float (VStr s) bv = Ok bv.
Proof. exact ff_blank_. Qed.
Print Assumptions fortran_float_blank.
Theorem fortran_int_blank : forall s bv, strip s = [] -> gen_fortran_int (VStr s) bv = Ok bv.
Proof. exact fi_blank_. Qed.
Print Assumptions fortran_int_blank.

(** text containing any character that cannot occur in a number yields NaN / None *)
Theorem bad_char_gives_nan : forall s c bv, In c s -> numeric_char c = false -> gen_fortran_float (VStr s) bv = Ok (VFloat NaN).
Proof. exact ff_bad. Qed.
Print Assumptions bad_char_gives_nan.
Theorem bad_char_gives_none : forall s c bv, In c s -> int_char c = false -> gen_fortran_int (VStr s) bv = Ok VNone.
Proof. exact fi_bad. Qed.
Print Assumptions bad_char_gives_none.
(** ... and so does CPython's float()/int(): what they accept consists of numeric characters only *)
Theorem float_accepts_only_numeric : forall s v, py_float_opt s = Some v -> forallb numeric_char s = true.
Proof. exact float_accepts_numeric. Qed.
Print Assumptions float_accepts_only_numeric.

(** float() is case-insensitive and accepts neither a blank nor a d inside the stripped text:
    whatever it accepts, it accepts in normalised form with the same value *)
Theorem float_accepts_normalised : forall s v, py_float_opt s = Some v -> py_float_opt (norm (strip s)) = Some v.
Proof. exact float_accepts_norm. Qed.
Print Assumptions float_accepts_normalised.
(** NORMAL FORM: for every non-blank text the reader's result is the cascade on
    norm (strip s) = lower case, d -> e, all blanks removed *)
Theorem fortran_float_normal_form : forall s bv, strip s <> [] ->
  gen_fortran_float (VStr s) bv = Ok (VFloat (cascade (norm (strip s)))).
Proof. exact ff_nf. Qed.
Print Assumptions fortran_float_normal_form.
(** hence blanks inside the field are ignored, D/d means E, case does not matter *)
Theorem fortran_float_ignores_blanks_case_and_D : forall s s' bv, strip s <> [] -> strip s' <> [] ->
  norm (strip s) = norm (strip s') -> gen_fortran_float (VStr s) bv = gen_fortran_float (VStr s') bv.
Proof. exact ff_norm_only. Qed.
Print Assumptions fortran_float_ignores_blanks_case_and_D.
(** RENDERINGS: every text whose normal form is  sign? digits? . digits?  followed by nothing,
    by e sign? digits, or by a bare signed exponent (letter dropped) is read as that real:
    any number of mantissa digits, any exponent, any padding / embedded blanks / case / D *)
Theorem fortran_float_renderings : forall s bv sg ip fp x, wf_mant ip fp -> wf_expo x -> strip s <> [] ->
  norm (strip s) = canon sg ip fp x -> gen_fortran_float (VStr s) bv = Ok (VFloat (canon_value sg ip fp x)).
Proof. exact ff_renderings. Qed.
Print Assumptions fortran_float_renderings.

(** overflow asterisks (what Fortran prints when the value does not fit the field): corollaries
    of the bad-character theorems, [*] being no numeric character *)
Theorem overflow_asterisks_give_nan : forall s bv, In "*" s -> gen_fortran_float (VStr s) bv = Ok (VFloat NaN).
Proof. exact ff_stars. Qed.
Print Assumptions overflow_asterisks_give_nan.
Theorem overflow_asterisks_give_none : forall s bv, In "*" s -> gen_fortran_int (VStr s) bv = Ok VNone.
Proof. exact fi_stars. Qed.
Print Assumptions overflow_asterisks_give_none.

(** ** the integer reader *)
(** whatever int() accepts, it accepts stripped and with all blanks removed, with the same value *)
Theorem int_accepts_normalised : forall s v, py_int_opt s = Some v -> py_int_opt (inorm s) = Some v.
Proof. exact int_accepts_norm. Qed.
Print Assumptions int_accepts_normalised.
(** INTEGER NORMAL FORM: for every non-blank text the result is int() of the stripped text with
    all blanks removed ([inorm s = unblank (strip s)]), None when int() rejects that *)
Theorem fortran_int_normal_form : forall s bv, strip s <> [] -> gen_fortran_int (VStr s) bv = Ok (int_of (inorm s)).
Proof. exact fi_nf. Qed.
Print Assumptions fortran_int_normal_form.
Theorem fortran_int_ignores_blanks : forall s s' bv, strip s <> [] -> strip s' <> [] -> inorm s = inorm s' ->
  gen_fortran_int (VStr s) bv = gen_fortran_int (VStr s') bv.
Proof. exact fi_norm_only. Qed.
Print Assumptions fortran_int_ignores_blanks.
(** INTEGER RENDERINGS, general form: every text that is, blanks removed, an optional sign and
    one or more digits (any number of digits; blanks in front, behind, after the sign, between
    digits) is read as exactly that integer *)
Theorem fortran_int_reads_sign_digits_blanks : forall s bv sg ds, ds <> [] -> all_digits ds = true ->
  unblank s = (sgstr sg ++ ds)%list -> gen_fortran_int (VStr s) bv = Ok (VInt (signed (isneg sg) (dvalue 0 ds))).
Proof. exact fi_digits. Qed.
Print Assumptions fortran_int_reads_sign_digits_blanks.
(** ... as a rendering function of the integer: Fortran Iw / Iw.m output of z (optional plus
    sign, at least m digits, zero filled) with [gaps] blanks before each character and at the
    end is read back as z -- no side condition *)
Theorem fortran_int_rendering : forall z plus m gaps bv, gen_fortran_int (VStr (render_int z plus m gaps)) bv = Ok (VInt z).
Proof. exact fi_render. Qed.
Print Assumptions fortran_int_rendering.
(** [with_blanks] reaches every placement of blanks: any text is its blank-free form with blanks put in *)
Theorem blank_placements_complete : forall s, exists gaps, s = with_blanks gaps (unblank s).
Proof. exact with_blanks_complete. Qed.
Print Assumptions blank_placements_complete.
(** the digit strings used by the renderings are decimal notation of the number *)
Theorem decimal_digit_strings : forall n, all_digits (n_to_str n) = true /\ n_to_str n <> [] /\ dvalue 0 (n_to_str n) = n.
Proof. exact decimal_digits. Qed.
Print Assumptions decimal_digit_strings.
Theorem digit_strings_positional : forall ds c, dvalue 0 (ds ++ [c])%list = (dvalue 0 ds * 10 + ndval c)%N.
Proof. exact dvalue_snoc. Qed.
Print Assumptions digit_strings_positional.

(** ** EVERY OUTPUT STYLE of a real (Styles.v): x = (sign, digits d1..dn, exponent e) denotes
    (-1)^sign * 0.d1..dn * 10^e = [real_value x]; [render st x] prints it with the choices [st]:
    explicit plus, 0.ddd / .ddd, k digits before the point (kP, ES), exponent letter E e D d with
    the sign of a non-negative exponent as + / blank / nothing and at least w exponent digits,
    letter dropped (sign kept), no exponent (F formats), blanks before every character and at the
    end.  Whatever the style, any number of digits, any exponent: read back as exactly x. *)
Theorem fortran_float_every_style : forall st x bv, wf_real x -> style_ok st x ->
  gen_fortran_float (VStr (render st x)) bv = Ok (VFloat (real_value x)).
Proof. exact ff_style. Qed.
Print Assumptions fortran_float_every_style.
(** the styles the property text names, one by one *)
Theorem fortran_float_style_catalogue : forall bv x g, wf_real x ->
  gen_reads_back bv (st_E g) x /\ gen_reads_back bv (st_D g) x /\ gen_reads_back bv (st_lower_e g) x /\
  gen_reads_back bv (st_lower_d g) x /\ gen_reads_back bv (st_point g) x /\ gen_reads_back bv (st_explicit_plus g) x /\
  gen_reads_back bv (st_dropped g) x /\ gen_reads_back bv (st_blank_plus g) x /\ gen_reads_back bv (st_ES g) x /\
  (forall k, style_ok (st_F k g) x -> gen_reads_back bv (st_F k g) x).
Proof. exact ff_catalogue. Qed.
Print Assumptions fortran_float_style_catalogue.
