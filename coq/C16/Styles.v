(** C16 -- every way a Fortran program prints a real, as a rendering FUNCTION of the real.

    A real is [x = (sign, digits d1..dn, exponent e)] denoting  (-1)^sign * 0.d1..dn * 10^e
    (any n >= 1, any e in Z; leading/trailing zeros among the digits are allowed, so the F
    formats are included).  A [style] fixes every choice the property text enumerates:
      - explicit plus sign on a non-negative number                     [st_plus]
      - leading point with or without a zero (0.ddd / .ddd)             [st_lead0]
      - how many digits stand before the point (scale factor kP:
        0 = 0.ddd, 1 = d.ddd (ES/1P), n = ddd.)                         [st_scale]
      - exponent: letter E, e, D or d, the sign of a non-negative
        exponent printed as +, as a blank, or not at all, at least w
        exponent digits (E+05, E+005, D 07)                             [ELetter]
      - exponent letter dropped, sign always printed (0.1234-100)       [EDropped]
      - no exponent at all (Fw.d output; the point is where e says)     [ENoExp]
      - blanks: any number in front of every character and at the end   [st_gaps]
    [render st x] is the printed text; [ff_every_style] proves that the reader returns exactly
    [real_value x] on it, for every style, every real.  Overflow asterisks are not a rendering
    of a value: they read as NaN / None ([Fortran.ff_asterisks], [fi_asterisks]). *)
From Coq Require Import Ascii String List Bool Arith ZArith NArith Lia.
From PTBase Require Import Exn PyStr PyNum PyVal.
From PTModel Require Import Fortran FortranNF FortranRender.
From P Require Import Blanks.
Import ListNotations.
Open Scope char_scope.

Record freal := { rneg : bool; rdigs : str; rexp : Z }.
Definition wf_real (x : freal) : Prop := rdigs x <> [] /\ all_digits (rdigs x) = true.
(** the exact decimal the real denotes: (-1)^rneg * (d1..dn as an integer) * 10^(e - n) *)
Definition real_value (x : freal) : fval :=
  Fin (rneg x) (dvalue 0 (rdigs x)) (rexp x - Z.of_nat (length (rdigs x))).

Inductive eletter := LE | Le | LD | Ld.
Definition letter_char (l : eletter) : ascii := match l with LE => "E" | Le => "e" | LD => "D" | Ld => "d" end.
Inductive plusstyle := PPlus | PBlank | PNothing.
Inductive expstyle := ELetter (l : eletter) (p : plusstyle) (w : nat) | EDropped (w : nat) | ENoExp.
Record style := { st_plus : bool; st_lead0 : bool; st_scale : nat; st_exp : expstyle; st_gaps : list nat }.

Definition scale (st : style) (x : freal) : nat := Nat.min (st_scale st) (length (rdigs x)).
(** the exponent that gets printed: the digits before the point are taken out of it *)
Definition printed_exp (st : style) (x : freal) : Z := (rexp x - Z.of_nat (scale st x))%Z.
(** a text without exponent part can only show a real whose point falls where the style puts it *)
Definition style_ok (st : style) (x : freal) : Prop :=
  match st_exp st with ENoExp => printed_exp st x = 0%Z | _ => True end.

Definition exp_digits (w : nat) (pe : Z) : str := zjust w (n_to_str (Z.abs_N pe)).
Definition exp_sign (p : plusstyle) (pe : Z) : str :=
  if (pe <? 0)%Z then ["-"] else match p with PPlus => ["+"] | PBlank => [" "] | PNothing => [] end.
Definition exp_raw (e : expstyle) (pe : Z) : str :=
  match e with
  | ELetter l p w => letter_char l :: exp_sign p pe ++ exp_digits w pe
  | EDropped w => (if (pe <? 0)%Z then "-" else "+") :: exp_digits w pe
  | ENoExp => []
  end.
Definition real_sign (st : style) (x : freal) : option bool :=
  if rneg x then Some true else if st_plus st then Some false else None.
Definition int_part (st : style) (x : freal) : str :=
  (if st_lead0 st then ["0"] else []) ++ firstn (scale st x) (rdigs x).
Definition frac_part (st : style) (x : freal) : str := skipn (scale st x) (rdigs x).
Definition body (st : style) (x : freal) : str :=
  sgstr (real_sign st x) ++ mant (int_part st x) (frac_part st x) ++ exp_raw (st_exp st) (printed_exp st x).
Definition render (st : style) (x : freal) : str := with_blanks (st_gaps st) (body st x).

(** ** the normal form of a rendering is a canonical text of Model/FortranRender.v *)
Definition exp_canon (e : expstyle) (pe : Z) : expo :=
  match e with
  | ELetter _ p w => XLetter (if (pe <? 0)%Z then Some true else match p with PPlus => Some false | _ => None end) (exp_digits w pe)
  | EDropped w => XBare (pe <? 0)%Z (exp_digits w pe)
  | ENoExp => XNone
  end.

Lemma exp_digits_ok w pe : wf_exp (exp_digits w pe).
Proof. split; [apply zjust_nonempty, n_to_str_nonempty|apply zjust_digits, n_to_str_digits]. Qed.
Lemma exp_digits_value w pe : dvalue 0 (exp_digits w pe) = Z.abs_N pe.
Proof. unfold exp_digits. rewrite zjust_value. apply n_to_str_value. Qed.
Lemma signed_abs_N pe : signed (pe <? 0)%Z (Z.abs_N pe) = pe.
Proof. unfold signed. destruct (pe <? 0)%Z eqn:L; lia. Qed.
Lemma exp_canon_wf e pe : wf_expo (exp_canon e pe).
Proof. destruct e; cbn [exp_canon wf_expo]; try apply exp_digits_ok; exact I. Qed.
Lemma exp_canon_value e pe : (match e with ENoExp => pe = 0%Z | _ => True end) -> exp_value (exp_canon e pe) = pe.
Proof.
  destruct e as [l p w|w|]; cbn [exp_canon exp_value]; intro H.
  - rewrite exp_digits_value. rewrite <- (signed_abs_N pe) at 3. f_equal.
    destruct (pe <? 0)%Z; [reflexivity|]. destruct p; reflexivity.
  - rewrite exp_digits_value. apply signed_abs_N.
  - symmetry. exact H.
Qed.

Lemma norm_sgstr sg : norm (sgstr sg) = sgstr sg.
Proof. destruct sg as [[|]|]; reflexivity. Qed.
Lemma norm_mant ip fp : all_digits ip = true -> all_digits fp = true -> norm (mant ip fp) = mant ip fp.
Proof.
  intros Ai Af. unfold mant. rewrite norm_app, (norm_digits ip Ai). rewrite norm_cons, (norm_digits fp Af). reflexivity.
Qed.
Lemma norm_exp_raw e pe : norm (exp_raw e pe) = exp_text (exp_canon e pe).
Proof.
  pose proof (exp_digits_ok) as W.
  destruct e as [l p w|w|]; cbn [exp_raw exp_canon exp_text]; [| |reflexivity].
  - destruct (W w pe) as [_ A]. rewrite norm_cons, norm_app, (norm_digits _ A).
    replace (norm [letter_char l]) with ["e"] by (destruct l; reflexivity). cbn [app]. f_equal. f_equal.
    unfold exp_sign. destruct (pe <? 0)%Z; [reflexivity|]. destruct p; reflexivity.
  - destruct (W w pe) as [_ A]. rewrite norm_cons, (norm_digits _ A). destruct (pe <? 0)%Z; reflexivity.
Qed.

Lemma sgstr_bons sg : forallb bons (sgstr sg) = true.
Proof. destruct sg as [[|]|]; reflexivity. Qed.
Lemma exp_raw_bons e pe : forallb bons (exp_raw e pe) = true.
Proof.
  destruct e as [l p w|w|]; cbn [exp_raw]; [| |reflexivity]; destruct (exp_digits_ok w pe) as [_ A].
  - cbn [forallb]. rewrite forallb_app, (digits_bons _ A), andb_true_r.
    replace (bons (letter_char l)) with true by (destruct l; reflexivity). cbn [andb].
    unfold exp_sign. destruct (pe <? 0)%Z; [reflexivity|]. destruct p; reflexivity.
  - cbn [forallb]. rewrite (digits_bons _ A), andb_true_r. destruct (pe <? 0)%Z; reflexivity.
Qed.

Section Style.
  Variable st : style.
  Variable x : freal.
  Hypothesis W : wf_real x.

  Lemma firstn_digits k : all_digits (firstn k (rdigs x)) = true.
  Proof.
    destruct W as [_ A]. unfold all_digits in *. rewrite forallb_forall in *. intros c Hc. apply A.
    rewrite <- (firstn_skipn k (rdigs x)). apply in_app_iff. left. exact Hc.
  Qed.
  Lemma skipn_digits k : all_digits (skipn k (rdigs x)) = true.
  Proof.
    destruct W as [_ A]. unfold all_digits in *. rewrite forallb_forall in *. intros c Hc. apply A.
    rewrite <- (firstn_skipn k (rdigs x)). apply in_app_iff. right. exact Hc.
  Qed.
  Lemma int_part_digits : all_digits (int_part st x) = true.
  Proof.
    unfold int_part, all_digits. rewrite forallb_app. fold (all_digits (firstn (scale st x) (rdigs x))).
    rewrite firstn_digits, andb_true_r. destruct (st_lead0 st); reflexivity.
  Qed.
  Lemma parts_wf : wf_mant (int_part st x) (frac_part st x).
  Proof.
    split; [exact int_part_digits|]. split; [apply skipn_digits|].
    destruct W as [NE _]. unfold int_part, frac_part.
    destruct (firstn (scale st x) (rdigs x)) as [|c r] eqn:F.
    - right. intro S. apply NE. rewrite <- (firstn_skipn (scale st x) (rdigs x)), F, S. reflexivity.
    - left. destruct (st_lead0 st); discriminate.
  Qed.
  Lemma parts_value : dvalue 0 (int_part st x ++ frac_part st x) = dvalue 0 (rdigs x).
  Proof.
    unfold int_part, frac_part. rewrite <- app_assoc, firstn_skipn. destruct (st_lead0 st); reflexivity.
  Qed.
  Lemma frac_length : Z.of_nat (length (frac_part st x)) = (Z.of_nat (length (rdigs x)) - Z.of_nat (scale st x))%Z.
  Proof. unfold frac_part. rewrite skipn_length. unfold scale. lia. Qed.

  Lemma body_bons : forallb bons (body st x) = true.
  Proof.
    destruct parts_wf as (Ai & Af & _). unfold body, mant.
    rewrite !forallb_app, sgstr_bons, (digits_bons _ Ai), exp_raw_bons. cbn [forallb]. rewrite (digits_bons _ Af). reflexivity.
  Qed.
  (** normal form of the printed text = canonical text *)
  Lemma norm_render : norm (strip (render st x)) =
    canon (real_sign st x) (int_part st x) (frac_part st x) (exp_canon (st_exp st) (printed_exp st x)).
  Proof.
    destruct parts_wf as (Ai & Af & _). unfold render.
    rewrite norm_strip by (apply bons_with_blanks, body_bons). rewrite norm_with_blanks.
    unfold body, canon. rewrite !norm_app, norm_sgstr, (norm_mant _ _ Ai Af), norm_exp_raw. reflexivity.
  Qed.
  Lemma render_nonblank : strip (render st x) <> [].
  Proof.
    intro Z. pose proof norm_render as N. rewrite Z in N. unfold canon, mant in N.
    symmetry in N. apply app_eq_nil in N as [_ N]. rewrite <- app_assoc in N. apply app_eq_nil in N as [_ N]. discriminate N.
  Qed.

  (** THE theorem: the printed text of [x], in whatever style, is read as exactly [x] *)
  Theorem ff_every_style bv : style_ok st x -> fortran_float (render st x) bv = VFloat (real_value x).
  Proof.
    intro OK.
    rewrite (ff_reads_fortran_reals _ bv _ _ _ _ parts_wf (exp_canon_wf _ _) render_nonblank norm_render).
    unfold canon_value, real_value. f_equal.
    assert (S : isneg (real_sign st x) = rneg x) by (unfold real_sign; destruct (rneg x); [|destruct (st_plus st)]; reflexivity).
    rewrite S, parts_value. f_equal. rewrite exp_canon_value, frac_length.
    - unfold printed_exp. lia.
    - unfold style_ok in OK. destruct (st_exp st); [exact I|exact I|exact OK].
  Qed.
End Style.

(** ** the styles the property text names, one by one (each still for every real, every
    number of digits, every exponent, every blank padding / embedded blanks [g]) *)
Definition st_E g := {| st_plus := false; st_lead0 := true; st_scale := 0; st_exp := ELetter LE PPlus 2; st_gaps := g |}.
Definition st_D g := {| st_plus := false; st_lead0 := true; st_scale := 0; st_exp := ELetter LD PPlus 2; st_gaps := g |}.
Definition st_lower_e g := {| st_plus := false; st_lead0 := true; st_scale := 0; st_exp := ELetter Le PPlus 2; st_gaps := g |}.
Definition st_lower_d g := {| st_plus := false; st_lead0 := true; st_scale := 0; st_exp := ELetter Ld PPlus 2; st_gaps := g |}.
Definition st_point g := {| st_plus := false; st_lead0 := false; st_scale := 0; st_exp := ELetter LE PPlus 2; st_gaps := g |}.
Definition st_explicit_plus g := {| st_plus := true; st_lead0 := true; st_scale := 0; st_exp := ELetter LE PPlus 2; st_gaps := g |}.
Definition st_dropped g := {| st_plus := false; st_lead0 := true; st_scale := 0; st_exp := EDropped 3; st_gaps := g |}.
Definition st_blank_plus g := {| st_plus := false; st_lead0 := true; st_scale := 0; st_exp := ELetter LE PBlank 2; st_gaps := g |}.
Definition st_ES g := {| st_plus := false; st_lead0 := false; st_scale := 1; st_exp := ELetter LE PPlus 2; st_gaps := g |}.
Definition st_F k g := {| st_plus := false; st_lead0 := false; st_scale := k; st_exp := ENoExp; st_gaps := g |}.

Definition reads_back (rd : str -> pyval) (st : style) (x : freal) : Prop := rd (render st x) = VFloat (real_value x).

Theorem ff_style_catalogue bv x g : wf_real x ->
  let rd s := fortran_float s bv in
  reads_back rd (st_E g) x /\ reads_back rd (st_D g) x /\ reads_back rd (st_lower_e g) x /\ reads_back rd (st_lower_d g) x /\
  reads_back rd (st_point g) x /\ reads_back rd (st_explicit_plus g) x /\ reads_back rd (st_dropped g) x /\
  reads_back rd (st_blank_plus g) x /\ reads_back rd (st_ES g) x.
Proof. intros W rd. unfold reads_back, rd. repeat split; apply ff_every_style; try exact W; exact I. Qed.

(** what the rendering function prints: x = -0.1234 * 10^5, y = 0.15 * 10^-99 *)
Definition x1 : freal := {| rneg := true; rdigs := s2l "1234"; rexp := 5 |}.
Definition y1 : freal := {| rneg := false; rdigs := s2l "15"; rexp := -99 |}.
Example x1_wf : wf_real x1. Proof. split; [discriminate|reflexivity]. Qed.
Example y1_wf : wf_real y1. Proof. split; [discriminate|reflexivity]. Qed.
Example show_E : render (st_E [2%nat]) x1 = s2l "  -0.1234E+05". Proof. vm_compute. reflexivity. Qed.
Example show_D : render (st_D []) x1 = s2l "-0.1234D+05". Proof. vm_compute. reflexivity. Qed.
Example show_lower : render (st_lower_d []) y1 = s2l "0.15d-99". Proof. vm_compute. reflexivity. Qed.
Example show_point : render (st_point []) x1 = s2l "-.1234E+05". Proof. vm_compute. reflexivity. Qed.
Example show_plus : render (st_explicit_plus []) y1 = s2l "+0.15E-99". Proof. vm_compute. reflexivity. Qed.
Example show_dropped : render (st_dropped []) {| rneg := false; rdigs := s2l "15"; rexp := -120 |} = s2l "0.15-120". Proof. vm_compute. reflexivity. Qed.
Example show_dropped_plus : render (st_dropped []) {| rneg := true; rdigs := s2l "15"; rexp := 120 |} = s2l "-0.15+120". Proof. vm_compute. reflexivity. Qed.
Example show_blank_plus : render (st_blank_plus []) x1 = s2l "-0.1234E 05". Proof. vm_compute. reflexivity. Qed.
Example show_ES : render (st_ES []) x1 = s2l "-1.234E+04". Proof. vm_compute. reflexivity. Qed.
Example show_F : render (st_F 2 [1%nat]) {| rneg := false; rdigs := s2l "1234"; rexp := 2 |} = s2l " 12.34". Proof. vm_compute. reflexivity. Qed.
Example show_F_ok : style_ok (st_F 2 [1%nat]) {| rneg := false; rdigs := s2l "1234"; rexp := 2 |}. Proof. reflexivity. Qed.
Example show_embedded : render (st_E [1%nat; 1%nat; 0%nat; 0%nat; 0%nat; 0%nat; 0%nat; 1%nat; 0%nat; 1%nat; 0%nat; 2%nat]) x1 = s2l " - 0.1234 E+ 05  ".
Proof. vm_compute. reflexivity. Qed.
Example show_E3 : render {| st_plus := false; st_lead0 := true; st_scale := 0; st_exp := ELetter LE PPlus 3; st_gaps := [] |} x1 = s2l "-0.1234E+005".
Proof. vm_compute. reflexivity. Qed.
Example show_value : fortran_float (s2l " - 0.1234 E+ 05  ") VNone = VFloat (real_value x1).
Proof. vm_compute. reflexivity. Qed.
