(** Bridge: the functions generated from the current fixed_format_file.py equal the
    reference model the theorems are proved about, for every string. *)
From Coq Require Import Ascii String List Bool Arith ZArith NArith Lia.
From PTBase Require Import Exn PyStr PyNum PyVal.
From PTModel Require Import Fortran.
From Gen Require Import GenFortran.
Import ListNotations.
Open Scope char_scope.

Lemma b_float_str s : b_float (VStr s) = match py_float_opt s with Some v => Ok (VFloat v) | None => Raise ValueError end.
Proof. cbn. unfold py_float. destruct (py_float_opt s); reflexivity. Qed.
Lemma b_int_str s : b_int (VStr s) = match py_int_opt s with Some v => Ok (VInt v) | None => Raise ValueError end.
Proof. cbn. unfold py_int. destruct (py_int_opt s); reflexivity. Qed.

Theorem gen_fortran_float_spec s bv : gen_fortran_float (VStr s) bv = Ok (fortran_float s bv).
Proof.
  unfold gen_fortran_float, fortran_float. rewrite b_float_str.
  destruct (py_float_opt s) as [v|] eqn:E1; [reflexivity|].
  cbn [try_ handle catch exn_eqb m_strip as_str bind].
  pose proof (norm_strip_nonempty s) as NE.
  destruct (strip s) as [|t0 t] eqn:Et; [reflexivity|].
  cbn [truthy negb bind m_lower m_replace as_str]. change (vstr "e") with (VStr (s2l "e")). change (vstr "") with (VStr []).
  cbn [bind m_replace as_str try_bind]. fold (norm (t0 :: t)).
  specialize (NE ltac:(discriminate)). remember (norm (t0 :: t)) as n. clear Heqn.
  rewrite b_float_str. unfold cascade.
  destruct (py_float_opt n) as [v|] eqn:E2; [reflexivity|].
  cbn [try_ handle catch_all]. destruct n as [|c0 r]; [congruence|].
  rewrite !getitem_str_0, !slice_str_1.
  unfold stage3, stage4.
  change (vstr "e-") with (VStr (s2l "e-")). change (vstr "e") with (VStr (s2l "e")). change (vstr "") with (VStr []).
  cbn [bind m_replace as_str m_join as_list mapM join app]. rewrite !b_float_str.
  destruct (py_float_opt (c0 :: replace1 "-" (s2l "e-") r)) as [v|]; [reflexivity|].
  cbn [try_ handle catch exn_eqb].
  destruct (py_float_opt (c0 :: replace1 "+" (s2l "e") r)) as [v|]; reflexivity.
Qed.

Theorem gen_fortran_int_spec s bv : gen_fortran_int (VStr s) bv = Ok (fortran_int s bv).
Proof.
  unfold gen_fortran_int, fortran_int. rewrite b_int_str.
  destruct (py_int_opt s) as [v|] eqn:E1; [reflexivity|].
  cbn [try_ handle catch exn_eqb m_strip as_str bind].
  destruct (strip s) as [|t0 t] eqn:Et; [reflexivity|].
  cbn [truthy negb bind]. change (vstr "") with (VStr []). cbn [bind m_replace as_str try_bind]. rewrite b_int_str.
  destruct (py_int_opt (replace1 " " [] (t0 :: t))); reflexivity.
Qed.
