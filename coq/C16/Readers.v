(** C16: the glue between the two readers and their users (t2incon, fixed_format_file parsers):
    [fortran_read_float/int = partial(fortran_float/int, blank_value = None)] and the dictionary
    [fortran_read_function = read_function_dict(fortran_read_float, fortran_read_int)], regenerated
    from the module-level AST of fixed_format_file.py on every run (GenFortran.v, second part:
    [gen_fortran_read_float], [gen_fortran_read_int], [gen_fortran_read_function] = the keys bound
    to the Fortran readers, [gen_fortran_read_other_keys] = keys left to the non-numeric readers).
    The theorems of Main.v are carried through the dictionary: whatever reader a numeric format
    letter selects, it reads Fortran's values, answers None on a blank field and never raises. *)
From Coq Require Import Ascii String List Bool Arith ZArith NArith Lia.
From PTBase Require Import Exn PyStr PyNum PyVal.
From PTModel Require Import Fortran FortranNF FortranRender.
From Gen Require Import GenFortran.
From P Require Import Spec Blanks IntRender Styles Main.
Import ListNotations.
Open Scope char_scope.

Definition reader := pyval -> res pyval.
(** dictionary lookup [d[k]] (first match; the generated table has distinct keys, see [read_function_keys]) *)
Fixpoint reader_of (k : ascii) (t : list (ascii * reader)) : option reader :=
  match t with
  | [] => None
  | (k', f) :: r => if Ascii.eqb k k' then Some f else reader_of k r
  end.

(** the partial applications bind the caller's blank value to None *)
Lemma read_float_is s : gen_fortran_read_float (VStr s) = gen_fortran_float (VStr s) VNone.
Proof. reflexivity. Qed.
Lemma read_int_is s : gen_fortran_read_int (VStr s) = gen_fortran_int (VStr s) VNone.
Proof. reflexivity. Qed.

(** which letters the dictionary has, and what they select *)
Lemma read_function_keys :
  map fst gen_fortran_read_function = ["d"; "e"; "f"; "g"] /\ gen_fortran_read_other_keys = ["s"; "x"] /\
  reader_of "f" gen_fortran_read_function = Some gen_fortran_read_float /\
  reader_of "e" gen_fortran_read_function = Some gen_fortran_read_float /\
  reader_of "g" gen_fortran_read_function = Some gen_fortran_read_float /\
  reader_of "d" gen_fortran_read_function = Some gen_fortran_read_int.
Proof. repeat split; reflexivity. Qed.

Lemma reader_cases k f : reader_of k gen_fortran_read_function = Some f ->
  (k = "d" /\ f = gen_fortran_read_int) \/ (In k ["f"; "e"; "g"] /\ f = gen_fortran_read_float).
Proof.
  unfold gen_fortran_read_function. cbn [reader_of].
  repeat match goal with |- context [Ascii.eqb k ?c] => destruct (Ascii.eqb_spec k c) end;
    intro H; inversion H; subst; cbn [In]; tauto.
Qed.

Lemma rf_real k st x : In k ["f"; "e"; "g"] -> wf_real x -> style_ok st x ->
  exists f, reader_of k gen_fortran_read_function = Some f /\ f (VStr (render st x)) = Ok (VFloat (real_value x)).
Proof.
  intros K W OK. exists gen_fortran_read_float. split.
  - cbn [In] in K. destruct K as [<-|[<-|[<-|[]]]]; reflexivity.
  - rewrite read_float_is. exact (ff_style st x VNone W OK).
Qed.
Lemma rf_int z plus m gaps :
  exists f, reader_of "d" gen_fortran_read_function = Some f /\ f (VStr (render_int z plus m gaps)) = Ok (VInt z).
Proof. exists gen_fortran_read_int. split; [reflexivity|]. rewrite read_int_is. apply fi_render. Qed.
Lemma rf_blank k f s : reader_of k gen_fortran_read_function = Some f -> strip s = [] -> f (VStr s) = Ok VNone.
Proof.
  intros R B. destruct (reader_cases k f R) as [[_ ->]|[_ ->]].
  - rewrite read_int_is. apply fi_blank_, B.
  - rewrite read_float_is. apply ff_blank_, B.
Qed.
Lemma rf_total k f s : reader_of k gen_fortran_read_function = Some f -> exists v, f (VStr s) = Ok v.
Proof.
  intros R. destruct (reader_cases k f R) as [[_ ->]|[_ ->]].
  - rewrite read_int_is. apply fi_total.
  - rewrite read_float_is. apply ff_total.
Qed.
Lemma rf_stars k f s : reader_of k gen_fortran_read_function = Some f -> In "*" s ->
  f (VStr s) = Ok (if Ascii.eqb k "d" then VNone else VFloat NaN).
Proof.
  intros R S. destruct (reader_cases k f R) as [[-> ->]|[K ->]].
  - rewrite read_int_is. cbn [Ascii.eqb]. rewrite (fi_stars s VNone S). reflexivity.
  - rewrite read_float_is, (ff_stars s VNone S).
    cbn [In] in K. destruct K as [<-|[<-|[<-|[]]]]; reflexivity.
Qed.
(** a reader selected by a numeric letter depends on the text only through the normal forms *)
Lemma rf_real_nf k s : In k ["f"; "e"; "g"] -> strip s <> [] ->
  exists f, reader_of k gen_fortran_read_function = Some f /\ f (VStr s) = Ok (VFloat (cascade (norm (strip s)))).
Proof.
  intros K NE. exists gen_fortran_read_float. split.
  - cbn [In] in K. destruct K as [<-|[<-|[<-|[]]]]; reflexivity.
  - rewrite read_float_is. apply ff_nf, NE.
Qed.

(** non-vacuity *)
Example ex_rf_key : In "g" ["f"; "e"; "g"] /\ exists f, reader_of "g" gen_fortran_read_function = Some f.
Proof. split; [cbn; tauto|]. eexists; reflexivity. Qed.
Example ex_rf_blank : exists f, reader_of "d" gen_fortran_read_function = Some f /\ strip (s2l "    ") = [] /\ In "*" (s2l " ****").
Proof. eexists; repeat split; try reflexivity. cbn. tauto. Qed.

(** the caller's blank value matters on blank fields only: on every non-blank text the readers
    with any two blank values, and the partial applications (blank value None), all agree *)
Lemma bv_only_blank s bv bv' : strip s <> [] ->
  gen_fortran_float (VStr s) bv = gen_fortran_float (VStr s) bv' /\
  gen_fortran_int (VStr s) bv = gen_fortran_int (VStr s) bv' /\
  gen_fortran_read_float (VStr s) = gen_fortran_float (VStr s) bv /\
  gen_fortran_read_int (VStr s) = gen_fortran_int (VStr s) bv.
Proof.
  intro NE. rewrite read_float_is, read_int_is, !(ff_nf s _ NE), !(fi_nf s _ NE). repeat split; reflexivity.
Qed.
Example ex_bv_only_blank : strip (s2l " 1 2 ") <> [].
Proof. vm_compute. discriminate. Qed.
