(** C16: a real printed with a D or d exponent letter (Fortran D edit descriptor, double precision
    output), in any style and with any blanks: the strict default reader answers None on it, the
    Fortran reader reads exactly the real.  General (every real, every D style), where Defaults.v
    only had the single text 0.1234D+05 as an Example. *)
From Coq Require Import Ascii String List Bool Arith ZArith NArith Lia.
From PTBase Require Import Exn PyStr PyNum PyVal.
From PTModel Require Import Fortran FortranNF FortranRender.
From Gen Require Import GenFortran.
From P Require Import Spec Blanks IntRender Styles Main Readers Defaults.
Import ListNotations.
Open Scope char_scope.

Definition is_D_style (st : style) : Prop :=
  match st_exp st with ELetter LD _ _ | ELetter Ld _ _ => True | _ => False end.

Lemma in_with_blanks c t : In c t -> forall gaps, In c (with_blanks gaps t).
Proof.
  induction t as [|a r IH]; intros I gaps; [destruct I|]. cbn [with_blanks]. apply in_or_app. right.
  destruct I as [->|I]; [left; reflexivity|right; apply IH, I].
Qed.
Lemma in_cstrip c s : In c s -> is_cspace c = false -> In c (cstrip s).
Proof.
  intros I NS. destruct (strip_by_split is_cspace s) as [a [b [E [Fa Fb]]]]. fold (cstrip s) in E.
  rewrite E in I. apply in_app_or in I as [I|I].
  - rewrite forallb_forall in Fa. rewrite (Fa c I) in NS. discriminate.
  - apply in_app_or in I as [I|I]; [exact I|]. rewrite forallb_forall in Fb. rewrite (Fb c I) in NS. discriminate.
Qed.
Lemma d_in_body st x : is_D_style st -> exists c, In c (body st x) /\ core_char c = false /\ is_cspace c = false.
Proof.
  unfold is_D_style, body. destruct (st_exp st) as [l p w|w|]; try (intros []). destruct l; intro H; try contradiction.
  - exists "D". split; [|split; reflexivity]. apply in_or_app. right. apply in_or_app. right. left. reflexivity.
  - exists "d". split; [|split; reflexivity]. apply in_or_app. right. apply in_or_app. right. left. reflexivity.
Qed.
Lemma d_style_ok st x : is_D_style st -> style_ok st x.
Proof. unfold is_D_style, style_ok. destruct (st_exp st); [intros _; exact I|intros []|intros []]. Qed.

Lemma d_style_differs k st x : In k ["f"; "e"; "g"] -> wf_real x -> is_D_style st ->
  exists fd ff, reader_of k gen_default_read_function = Some fd /\ reader_of k gen_fortran_read_function = Some ff /\
    fd (VStr (render st x)) = Ok VNone /\ ff (VStr (render st x)) = Ok (VFloat (real_value x)).
Proof.
  intros K W D. exists gen_default_read_float, gen_fortran_read_float.
  assert (RD : reader_of k gen_default_read_function = Some gen_default_read_float)
    by (cbn [In] in K; destruct K as [<-|[<-|[<-|[]]]]; reflexivity).
  assert (RF : reader_of k gen_fortran_read_function = Some gen_fortran_read_float)
    by (cbn [In] in K; destruct K as [<-|[<-|[<-|[]]]]; reflexivity).
  split; [exact RD|]. split; [exact RF|]. split.
  - destruct (d_in_body st x D) as [c [I [C NS]]].
    apply (default_none_on_blank_or_d k _ (render st x) c K RD); [|exact C].
    apply in_cstrip; [|exact NS]. unfold render. apply in_with_blanks, I.
  - rewrite read_float_is. exact (ff_style st x VNone W (d_style_ok st x D)).
Qed.
(** hence float() itself rejects every such text *)
Lemma float_rejects_d_style st x : is_D_style st -> py_float_opt (render st x) = None.
Proof.
  intro D. destruct (d_in_body st x D) as [c [I [C NS]]].
  destruct (py_float_opt (render st x)) as [v|] eqn:E; [|reflexivity].
  pose proof (accepted_core _ v E) as A. rewrite forallb_forall in A.
  assert (J : In c (cstrip (render st x))) by (apply in_cstrip; [unfold render; apply in_with_blanks, I|exact NS]).
  rewrite (A c J) in C. discriminate.
Qed.

Example ex_d_style : is_D_style (st_D [2%nat]) /\ is_D_style (st_lower_d []) /\ wf_real x1 /\ In "g" ["f"; "e"; "g"].
Proof. repeat split; try exact I; try discriminate; try reflexivity. cbn. tauto. Qed.
