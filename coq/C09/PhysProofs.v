(** C09 -- reorder and rename_blocks leave the physics of every block and connection unchanged. *)
From Coq Require Import Ascii String List Bool PArith NArith FMapPositive Permutation Lia.
From PTBase Require Import Exn PyStr.
From P Require Import Assoc GridPhys PhysLemmas.
Import ListNotations.
Open Scope list_scope.

(** * reorder *)
Lemma cn_remove_ok g i k g' : cn_remove g i k = Ok g' ->
  g' = set_bcn g (fset (bcn g) i (set_del (cn g i) k)).
Proof. unfold cn_remove. destruct (set_mem k (cn g i)); [|discriminate]. intro H; inversion H; reflexivity. Qed.

(** what [flip_connection] does to the attributes *)
Lemma flip_block_attrs g j : bn (flip_connection g j) = bn g /\ bv (flip_connection g j) = bv g /\
  rn (flip_connection g j) = rn g /\ br (flip_connection g j) = br g /\ bc (flip_connection g j) = bc g /\
  ar (flip_connection g j) = ar g /\ di (flip_connection g j) = di g /\
  blist (flip_connection g j) = blist g /\ clist (flip_connection g j) = clist g.
Proof. repeat split; reflexivity. Qed.
Lemma flip_c0 g j x : c0 (flip_connection g j) x = if Pos.eqb x j then c1 g j else c0 g x.
Proof. change (c0 (flip_connection g j) x) with (fget 1%positive (fset (cb0 g) j (c1 g j)) x). apply fget_fset. Qed.
Lemma flip_c1 g j x : c1 (flip_connection g j) x = if Pos.eqb x j then c0 g j else c1 g x.
Proof. change (c1 (flip_connection g j) x) with (fget 1%positive (fset (cb1 g) j (c0 g j)) x). apply fget_fset. Qed.
Lemma flip_d0 g j x : d0 (flip_connection g j) x = if Pos.eqb x j then d1 g j else d0 g x.
Proof. change (d0 (flip_connection g j) x) with (fget [] (fset (cd0 g) j (d1 g j)) x). apply fget_fset. Qed.
Lemma flip_d1 g j x : d1 (flip_connection g j) x = if Pos.eqb x j then d0 g j else d1 g x.
Proof. change (d1 (flip_connection g j) x) with (fget [] (fset (cd1 g) j (d0 g j)) x). apply fget_fset. Qed.
Lemma flip_co g j x : co (flip_connection g j) x = if Pos.eqb x j then neg_tok (co g j) else co g x.
Proof. change (co (flip_connection g j) x) with (fget [] (fset (ccos g) j (neg_tok (co g j))) x). apply fget_fset. Qed.
Lemma flip_n1 g j x : n1 (flip_connection g j) x = if Pos.eqb x j then n2 g j else n1 g x.
Proof. change (n1 (flip_connection g j) x) with (fget [] (fset (cnad1 g) j (n2 g j)) x). apply fget_fset. Qed.
Lemma flip_n2 g j x : n2 (flip_connection g j) x = if Pos.eqb x j then n1 g j else n2 g x.
Proof. change (n2 (flip_connection g j) x) with (fget [] (fset (cnad2 g) j (n1 g j)) x). apply fget_fset. Qed.

(** a reversal rewrites only the connection object [j] (and connection_name sets / the dictionary) *)
Lemma reverse_connection_sig g j orig names g' : reverse_connection g j orig names = Ok g' ->
  (forall i, bsig g' i = bsig g i) /\ csig g' j = swap_sig (csig g j) /\ (forall x, x <> j -> csig g' x = csig g x) /\
  blist g' = blist g /\ clist g' = clist g.
Proof.
  unfold reverse_connection. cbv zeta. set (F := flip_connection g j). intro H.
  match type of H with context [cn_remove ?G ?i ?kk] => destruct (cn_remove G i kk) as [g2|] eqn:R2 end; cbn [bind] in H; [|discriminate].
  apply cn_remove_ok in R2. subst g2.
  match type of H with context [cn_remove ?G ?i ?kk] => destruct (cn_remove G i kk) as [g4|] eqn:R4 end; cbn [bind] in H; [|discriminate].
  apply cn_remove_ok in R4. subst g4. inversion H; subst g'; clear H.
  destruct (flip_block_attrs g j) as [Ebn [Ebv [Ern [Ebr [Ebc [Ear [Edi [Ebl Ecl]]]]]]]]. fold F in Ebn, Ebv, Ern, Ebr, Ebc, Ear, Edi, Ebl, Ecl.
  split; [|split; [|split; [|split]]].
  - intro i. unfold bsig. gs. rewrite Ebn, Ebv, Ern, Ebr, Ebc. reflexivity.
  - unfold csig, swap_sig. cbn [s_n0 s_n1 s_d0 s_d1 s_area s_dir s_cos s_nad0 s_nad1]. gs. unfold F.
    rewrite flip_c0, flip_c1, flip_d0, flip_d1, flip_co, flip_n1, flip_n2, Pos.eqb_refl. fold F. rewrite Ebn, Ear, Edi. reflexivity.
  - intros x N. unfold csig. gs. unfold F.
    rewrite flip_c0, flip_c1, flip_d0, flip_d1, flip_co, flip_n1, flip_n2. fold F. rewrite Ebn, Ear, Edi.
    destruct (Pos.eqb_spec x j); [contradiction|]. reflexivity.
  - gs. exact Ebl.
  - gs. exact Ecl.
Qed.

Lemma reorder_conns_sig ks : forall g g' l, reorder_conns g ks = Ok (g', l) ->
  (forall i, bsig g' i = bsig g i) /\ blist g' = blist g /\ clist g' = clist g /\
  (forall x, ~ In x l -> csig g' x = csig g x) /\
  (NoDup l -> forall x, In x l -> csig g' x = csig g x \/ csig g' x = swap_sig (csig g x)).
Proof.
  induction ks as [|k r IH]; cbn [reorder_conns]; intros g g' l H.
  - inversion H; subst. repeat split; auto; try (intros _ x []).
  - destruct (cget g k) as [j|].
    + destruct (reorder_conns g r) as [[g1 l1]|] eqn:E; cbn [bind fst snd] in H; [|discriminate].
      inversion H; subst g' l; clear H. destruct (IH g g1 l1 E) as [Hb [Hbl [Hcl [Hout Hin]]]].
      split; [exact Hb|]. split; [exact Hbl|]. split; [exact Hcl|]. split.
      * intros x Nx. apply Hout. intro X. apply Nx. right. exact X.
      * intros ND x Hx. inversion ND as [|? ? Nj ND1]; subst. destruct Hx as [<-|Hx]; [left; apply Hout; exact Nj|].
        apply Hin; assumption.
    + destruct (cget g (snd k, fst k)) as [j|]; [|discriminate].
      destruct (reverse_connection g j (snd k, fst k) k) as [g0|] eqn:R; cbn [bind] in H; [|discriminate].
      destruct (reorder_conns g0 r) as [[g1 l1]|] eqn:E; cbn [bind fst snd] in H; [|discriminate].
      inversion H; subst g' l; clear H.
      destruct (reverse_connection_sig _ _ _ _ _ R) as [Rb [Rj [Rx [Rbl Rcl]]]].
      destruct (IH g0 g1 l1 E) as [Hb [Hbl [Hcl [Hout Hin]]]].
      split; [intro i; rewrite Hb; apply Rb|]. split; [congruence|]. split; [congruence|]. split.
      * intros x Nx. assert (N1 : ~ In x l1) by (intro X; apply Nx; right; exact X).
        assert (Nj : x <> j) by (intros ->; apply Nx; left; reflexivity).
        rewrite (Hout x N1). apply Rx. exact Nj.
      * intros ND x Hx. inversion ND as [|? ? Nj ND1]; subst. destruct Hx as [<-|Hx].
        -- right. rewrite (Hout j Nj). exact Rj.
        -- assert (Nx : x <> j) by (intros ->; contradiction).
           rewrite <- (Rx x Nx). apply Hin; assumption.
Qed.

(** reorder with any permutation of the blocks and of the connections, any subset of the connections
    listed with their two blocks swapped: every block keeps its volume, rock type and centre; every
    connection keeps its area, permeability direction and nad values, each block keeps its own distance,
    and the gravity cosine is negated exactly when the two blocks are swapped. *)
Theorem reorder_physics g bns cns g' : reorder g bns cns = Ok g' -> NoDup (clist g') ->
  (forall i, bsig g' i = bsig g i) /\
  (forall j, csig g' j = csig g j \/ csig g' j = swap_sig (csig g j)).
Proof.
  unfold reorder. intros H ND.
  assert (S : forall g1, match bns with [] => Ok g | _ :: _ => do l <- lookup_blocks g bns; Ok (set_blist g l) end = Ok g1 ->
              (forall i, bsig g1 i = bsig g i) /\ (forall j, csig g1 j = csig g j)).
  { intros g1 E. destruct bns as [|b bs]; [inversion E; subst; auto|].
    destruct (lookup_blocks g (b :: bs)) as [l|]; cbn [bind] in E; [|discriminate]. inversion E; subst g1.
    split; intro x; [unfold bsig|unfold csig]; gs; reflexivity. }
  match type of H with bind ?B _ = _ => destruct B as [g1|] eqn:E1 end; cbn [bind] in H; [|discriminate].
  destruct (S g1 eq_refl) as [Sb Sc].
  destruct cns as [|c cs]; [inversion H; subst g'; split; [exact Sb|intro j; left; apply Sc]|].
  destruct (reorder_conns g1 (c :: cs)) as [[g2 l]|] eqn:E2; cbn [bind fst snd] in H; [|discriminate].
  inversion H; subst g'; clear H. revert ND. gs. intro ND.
  destruct (reorder_conns_sig _ _ _ _ E2) as [Hb [_ [_ [Hout Hin]]]].
  split.
  - intro i. unfold bsig. gs. fold (bsig g2 i). rewrite Hb. apply Sb.
  - intro j. assert (Ej : csig (set_clist g2 l) j = csig g2 j) by (unfold csig; gs; reflexivity). rewrite Ej, <- Sc.
    destruct (in_dec Pos.eq_dec j l) as [Hj|Nj]; [apply Hin; assumption|left; apply Hout; exact Nj].
Qed.

(** the same as a statement about the list of block signatures of a true reordering *)
Corollary reorder_block_physics g bns cns g' : reorder g bns cns = Ok g' -> NoDup (clist g') ->
  Permutation (blist g) (blist g') -> Permutation (map (bsig g) (blist g)) (map (bsig g') (blist g')).
Proof.
  intros H ND P. destruct (reorder_physics _ _ _ _ H ND) as [Hb _].
  rewrite (map_ext (bsig g') (bsig g) Hb). apply Permutation_map. exact P.
Qed.

(** * rename_blocks *)
Lemma set_bdict_id g : set_bdict g (bdict g) = g.
Proof. destruct g; reflexivity. Qed.
Lemma del_names_shape ids : forall g0 g1, del_names g0 ids = Ok g1 -> exists d, g1 = set_bdict g0 d.
Proof.
  induction ids as [|a r IH]; cbn [del_names]; intros g0 g1 H.
  - inversion H; subst. exists (bdict g1). symmetry. apply set_bdict_id.
  - destruct (bget g0 (bn g0 a)); [|discriminate]. apply IH in H. destruct H as [d E]. exists d. rewrite E. reflexivity.
Qed.
Lemma rename_one_shape m g a : exists X Y, rename_one m g a = set_bcn (set_bname g X) Y /\
  (forall i, fget [] X i = if Pos.eqb i a then mapname m (bn g a) else bn g i).
Proof.
  unfold rename_one, mapname. destruct (aget str_eqb m (bn g a)) as [nn|].
  - eexists (fset (bname g) a nn), _. split; [reflexivity|]. intro i; apply fget_fset.
  - eexists (bname g), _. split; [destruct g; reflexivity|]. intro i.
    destruct (Pos.eqb_spec i a) as [E|N]; [subst i|]; reflexivity.
Qed.
Lemma rename_loop m l : forall g1, NoDup l -> exists X Y,
  fold_left (rename_one m) l g1 = set_bcn (set_bname g1 X) Y /\
  (forall i, fget [] X i = if mem i l then mapname m (bn g1 i) else bn g1 i).
Proof.
  induction l as [|a r IH]; cbn [fold_left]; intros g1 ND.
  - exists (bname g1), (bcn g1). split; [destruct g1; reflexivity|]. intro i; reflexivity.
  - inversion ND as [|? ? Ha NDr]; subst.
    destruct (rename_one_shape m g1 a) as [X0 [Y0 [E0 HX0]]]. rewrite E0.
    destruct (IH (set_bcn (set_bname g1 X0) Y0) NDr) as [X [Y [E HX]]].
    exists X, Y. split; [rewrite E; reflexivity|].
    assert (Hm : forall i, mem i (a :: r) = Pos.eqb i a || mem i r) by reflexivity.
    apply mem_false in Ha. intro i. rewrite Hm, HX. gs. rewrite !HX0.
    destruct (Pos.eqb_spec i a) as [Eia|N]; cbn [orb]; [subst i|reflexivity]. rewrite Ha. reflexivity.
Qed.
Lemma file_loop l : forall g2, exists d, fold_left file_block l g2 = set_bdict g2 d.
Proof.
  induction l as [|a r IH]; cbn [fold_left]; intro g2; [exists (bdict g2); symmetry; apply set_bdict_id|].
  destruct (IH (file_block g2 a)) as [d E]. exists d. rewrite E. reflexivity.
Qed.

Lemma rename_blocks_shape g m g' : NoDup (blist g) -> rename_blocks g m = Ok g' ->
  exists X Y D CD, g' = set_cdict (set_bdict (set_bcn (set_bname g X) Y) D) CD /\
    forall i, fget [] X i = if mem i (blist g) then mapname m (bn g i) else bn g i.
Proof.
  intros ND H. unfold rename_blocks in H. cbv zeta in H.
  destruct (del_names g (filter (fun i => in_blockmap m (bn g i)) (blist g))) as [g1|] eqn:E1; cbn [bind] in H; [|discriminate].
  destruct (del_names_shape _ _ _ E1) as [d1 ->].
  inversion H; subst g'; clear H. revert E1. gs. intros _.
  destruct (rename_loop m (blist g) (set_bdict g d1) ND) as [X [Y [E HX]]]. rewrite E.
  match goal with |- context [fold_left file_block ?l ?G] => destruct (file_loop l G) as [D ED]; rewrite ED end.
  exists X, Y, D. eexists. split; [unfold rebuild_cdict; reflexivity|]. intro i. rewrite HX. gs. reflexivity.
Qed.

(** the signature of a connection with its block names sent through the map *)
Definition relabel (m : list (str * str)) (s : csig_t) : csig_t :=
  {| s_n0 := mapname m (s_n0 s); s_n1 := mapname m (s_n1 s); s_d0 := s_d0 s; s_d1 := s_d1 s; s_area := s_area s;
     s_dir := s_dir s; s_cos := s_cos s; s_nad0 := s_nad0 s; s_nad1 := s_nad1 s |}.

(** rename_blocks relabels the network and changes nothing else: lists, volumes, rock types, centres,
    distances, areas, directions, cosines stay with their objects; every block of the grid gets its mapped name *)
Theorem rename_physics g m g' : NoDup (blist g) -> rename_blocks g m = Ok g' ->
  blist g' = blist g /\ clist g' = clist g /\
  (forall i, In i (blist g) -> bsig g' i = (mapname m (bn g i), bv g i, rn g (br g i), bc g i)) /\
  (forall j, In (c0 g j) (blist g) -> In (c1 g j) (blist g) -> csig g' j = relabel m (csig g j)).
Proof.
  intros ND H. destruct (rename_blocks_shape g m g' ND H) as [X [Y [D [CD [-> HX]]]]].
  assert (B : forall i, In i (blist g) -> fget [] X i = mapname m (bn g i)).
  { intros i Hi. rewrite HX. apply mem_In in Hi. rewrite Hi. reflexivity. }
  split; [gs; reflexivity|]. split; [gs; reflexivity|]. split.
  - intros i Hi. unfold bsig. gs. rewrite (B i Hi). reflexivity.
  - intros j H0 H1. unfold csig, relabel. cbn [s_n0 s_n1 s_d0 s_d1 s_area s_dir s_cos s_nad0 s_nad1]. gs.
    rewrite (B _ H0), (B _ H1). reflexivity.
Qed.

(** * concrete instance: two blocks, one vertical connection, listed reversed *)
Definition tok (s : string) : str := s2l s.
Definition pay1 : cpay := {| p_d0 := tok "4.0"; p_d1 := tok "2.5"; p_area := tok "100.0"; p_dir := tok "3";
                             p_cos := tok "-1.0"; p_nad1 := tok "None"; p_nad2 := tok "None" |}.
Definition ops1 : list op :=
  [AddRock (tok "dfalt"); AddBlock (tok "  a 1") (tok "dfalt") (tok "500.0") (tok "5.0_5.0_-2.5");
   AddBlock (tok "  a 2") (tok "dfalt") (tok "800.0") (tok "5.0_5.0_-9.0"); AddConn (tok "  a 2") (tok "  a 1") pay1].
Example reversal_moves_payload :
  exists g g', run empty ops1 = Ok g /\ reorder g [] [(tok "  a 1", tok "  a 2")] = Ok g' /\
    csig g 4%positive = {| s_n0 := tok "  a 2"; s_n1 := tok "  a 1"; s_d0 := tok "4.0"; s_d1 := tok "2.5"; s_area := tok "100.0";
                           s_dir := tok "3"; s_cos := tok "-1.0"; s_nad0 := tok "None"; s_nad1 := tok "None" |} /\
    csig g' 4%positive = {| s_n0 := tok "  a 1"; s_n1 := tok "  a 2"; s_d0 := tok "2.5"; s_d1 := tok "4.0"; s_area := tok "100.0";
                            s_dir := tok "3"; s_cos := tok "1.0"; s_nad0 := tok "None"; s_nad1 := tok "None" |}.
Proof. eexists. eexists. split; [vm_compute; reflexivity|]. split; [vm_compute; reflexivity|]. split; vm_compute; reflexivity. Qed.
