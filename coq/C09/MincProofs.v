(** C09 -- what minc does, step by step: duplicate_rock, one matrix level, the levels of one block,
    one block, the loop over the selected blocks.  Everything is stated for arbitrary naming
    functions, geometry values [dd]/[aa], cut-off [atm] and fractions. *)
From Coq Require Import Ascii String List Bool PArith NArith ZArith QArith FMapPositive Lia.
From PTBase Require Import Exn PyStr.
From P Require Import Assoc GridPhys MincModel MincLemmas.
Import ListNotations.
Open Scope list_scope.
Local Open Scope positive_scope.

(** signatures survive heap changes that keep the old objects *)
Lemma qbsig_frame (T : id -> Prop) h h' x : frame T h h' -> x < hnext h -> k_rock (bk h x) < hnext h -> qbsig h' x = qbsig h x.
Proof.
  intros F L R. unfold qbsig, kname, kvol. destruct (fr_bk _ _ _ F x L) as [E1 [E2 [E3 E4]]].
  rewrite E1, E2, E3, E4, (fr_rk _ _ _ F _ R). reflexivity.
Qed.
Lemma qcsig_frame (T : id -> Prop) h h' j : frame T h h' -> j < hnext h -> o_b0 (cx h j) < hnext h -> o_b1 (cx h j) < hnext h ->
  qcsig h' j = qcsig h j.
Proof.
  intros F L L0 L1. unfold qcsig, kname. rewrite (fr_cx _ _ _ F j L).
  destruct (fr_bk _ _ _ F _ L0) as [E0 _]. destruct (fr_bk _ _ _ F _ L1) as [E1 _]. rewrite E0, E1. reflexivity.
Qed.

Lemma qadd_block_new h t i : tbget t (kname h i) = None ->
  qadd_block h t i = Ok (with_b t (t_bl t ++ [i]) (aset str_eqb (t_bd t) (kname h i) i)).
Proof. intro E. unfold qadd_block. rewrite E. reflexivity. Qed.
Lemma qadd_rocktype_new h t j : trget t (x_name (rk h j)) = None ->
  qadd_rocktype h t j = Ok (with_r t (t_rl t ++ [j]) (aset str_eqb (t_rd t) (x_name (rk h j)) j)).
Proof. intro E. unfold qadd_rocktype. rewrite E. reflexivity. Qed.

Section MincSteps.
  Variable mbname : str -> nat -> str.
  Variable mrname : str -> nat -> str.
  Variable dd : nat -> Q.
  Variable aa : nat -> Q.
  Variable atm : Q.

  (** ** duplicate_rock *)
  Lemma duplicate_rock_spec h t n r h1 t1 : wf h t -> duplicate_rock h t n r = Ok (h1, t1) ->
    wf h1 t1 /\ frame (fun _ => False) h h1 /\ (forall x, bk h1 x = bk h x) /\
    t_bl t1 = t_bl t /\ t_bd t1 = t_bd t /\ t_cl t1 = t_cl t /\ t_cd t1 = t_cd t /\
    (exists j, trget t1 n = Some j).
  Proof.
    intros W. unfold duplicate_rock. destruct (trget t n) as [j0|] eqn:E.
    - intro H. inversion H; subst h1 t1. repeat match goal with |- _ /\ _ => split end; try reflexivity; auto.
      + apply frame_refl.
      + exists j0. exact E.
    - cbv zeta. set (rec := {| x_name := n; x_nad := s2l "0"; x_props := x_props (rk h r); x_rest := default_rest |}).
      assert (Rn : x_name (rk (alloc_rock h rec) (hnext h)) = n) by (rewrite rk_alloc_rock, Pos.eqb_refl; reflexivity).
      rewrite qadd_rocktype_new by (rewrite Rn; exact E). cbn [bind]. rewrite Rn.
      intro H. inversion H; subst h1 t1; clear H.
      repeat match goal with |- _ /\ _ => split end; try reflexivity.
      + apply wf_add_rock; [eapply wf_frame; [exact W|apply (frame_alloc_rock (fun _ => False))]|exact Rn|cbn [hnext alloc_rock]; lia].
      + apply frame_alloc_rock.
      + exists (hnext h). unfold trget. cbn [with_r t_rd]. rewrite (aget_aset str_eqb str_spec).
        destruct (str_spec n n); [reflexivity|congruence].
  Qed.

  (** ** one matrix level *)
  Lemma level_spec n blk V orock h t last m vf h' t' i :
    wf h t -> In blk (t_bl t) -> In last (t_bl t) -> orock < hnext h ->
    minc_level mbname mrname dd aa n blk V orock h t last m vf = Ok (h', t', i) ->
    wf h' t' /\ frame (eq last) h h' /\ hnext h <= i /\ i < hnext h' /\
    t_bl t' = t_bl t ++ [i] /\
    (exists j, t_cl t' = t_cl t ++ [j] /\ hnext h <= j /\ j < hnext h' /\
               qcsig h' j = (kname h last, mbname n m, dd (m - 1)%nat, dd m, (V * aa (m - 1)%nat)%Q, s2l "1", s2l "None")) /\
    tbget t (mbname n m) = None /\
    (forall y, tbget t' y = None -> tbget t y = None) /\
    qbsig h' i = (mbname n m, (V * vf)%Q, mrname (x_name (rk h orock)) m, k_cen (bk h blk)).
  Proof.
    intros W Hblk Hlast Hor. unfold minc_level. cbv zeta.
    destruct (duplicate_rock h t (mrname (x_name (rk h orock)) m) orock) as [[h1 t1]|] eqn:D; cbn [bind fst snd]; [|discriminate].
    destruct (duplicate_rock_spec _ _ _ _ _ _ W D) as [W1 [F1 [B1 [Ebl [Ebd [Ecl [Ecd [rj0 Rj0]]]]]]]].
    destruct (tbget t1 (mbname n m)) eqn:Nb; [discriminate|].
    rewrite Rj0. destruct (wf_r _ _ W1 _ _ Rj0) as [Rn Rl].
    set (brec := {| k_name := mbname n m; k_vol := (V * vf)%Q; k_rock := rj0; k_cen := k_cen (bk h1 blk); k_cn := [] |}).
    set (i1 := hnext h1). set (h2 := alloc_blk h1 brec).
    assert (Bi : bk h2 i1 = brec) by (unfold h2, i1; rewrite bk_alloc_blk, Pos.eqb_refl; reflexivity).
    assert (Ki : kname h2 i1 = mbname n m) by (unfold kname; rewrite Bi; reflexivity).
    rewrite qadd_block_new by (rewrite Ki; exact Nb). cbn [bind]. rewrite Ki.
    set (t2 := with_b t1 (t_bl t1 ++ [i1]) (aset str_eqb (t_bd t1) (mbname n m) i1)).
    assert (N2 : hnext h2 = Pos.succ i1) by reflexivity.
    assert (Fb1 : forall x, In x (t_bl t1) -> x < i1) by (intros x Hx; apply (wf_fb _ _ W1); exact Hx).
    assert (W2 : wf h2 t2).
    { unfold t2. rewrite <- Ki. apply wf_add_block.
      - eapply wf_frame; [exact W1|apply (frame_alloc_blk (fun _ => False))].
      - rewrite Ki. exact Nb.
      - intro X. apply Fb1 in X. lia.
      - lia.
      - rewrite Bi. cbn [k_rock brec]. fold i1 in Rl. lia. }
    set (crec := {| o_b0 := last; o_b1 := i1; o_d0 := dd (m - 1)%nat; o_d1 := dd m; o_area := (V * aa (m - 1)%nat)%Q;
                    o_dir := s2l "1"; o_cos := s2l "None" |}).
    set (j1 := hnext h2). set (h3 := alloc_con h2 crec).
    assert (Cj : cx h3 j1 = crec) by (unfold h3, j1; rewrite cx_alloc_con, Pos.eqb_refl; reflexivity).
    assert (L1 : last < i1) by (apply Fb1; rewrite Ebl; exact Hlast).
    assert (Kl : kname h3 last = kname h last).
    { unfold kname, h3. rewrite bk_alloc_con. unfold h2. rewrite bk_alloc_blk, eqb_lt_false by exact L1. rewrite B1. reflexivity. }
    assert (Ki3 : kname h3 i1 = mbname n m) by exact Ki.
    assert (Kj : okey h3 j1 = (kname h last, mbname n m)).
    { unfold okey. rewrite Cj. cbn [o_b0 o_b1 crec]. rewrite Kl, Ki3. reflexivity. }
    assert (Nc : tcget t2 (okey h3 j1) = None).
    { rewrite Kj. change (tcget t2) with (tcget t1). apply (wf_tcget_none h1 t1 _ W1). exact Nb. }
    rewrite (qadd_connection_new h3 t2 j1 Nc). cbn [bind fst snd].
    intro H. inversion H; subst h' t' i; clear H.
    rewrite Cj. cbn [o_b0 o_b1 crec]. rewrite Kj.
    set (k := (kname h last, mbname n m)).
    set (t3 := with_c t2 (t_cl t2 ++ [j1]) (aset key2_eqb (t_cd t2) k j1)).
    assert (F3 : frame (fun _ => False) h2 h3) by apply frame_alloc_con.
    assert (W3 : wf h3 t3).
    { unfold t3, k. rewrite <- Kj. apply wf_add_con.
      - eapply wf_frame; [exact W2|exact F3].
      - exact Nc.
      - intro X. change (t_cl t2) with (t_cl t1) in X. pose proof (wf_fc _ _ W1 _ X). unfold j1 in H. rewrite N2 in H. fold i1 in H. lia.
      - unfold h3. cbn [hnext alloc_con]. fold j1. lia.
      - rewrite Cj. cbn [o_b0 crec]. cbn [t2 with_b t_bl]. apply in_or_app. left. rewrite Ebl. exact Hlast.
      - rewrite Cj. cbn [o_b1 crec]. cbn [t2 with_b t_bl]. apply in_or_app. right. left. reflexivity. }
    set (T4 := fun x => x = last \/ x = i1).
    assert (F4 : frame T4 h3 (cn_add (cn_add h3 last k) i1 k)).
    { eapply (frame_trans _ T4); [apply frame_cn_add; left; reflexivity|apply frame_cn_add; right; reflexivity|intros ? ? X; exact X]. }
    assert (N3 : hnext h3 = Pos.succ j1) by reflexivity.
    assert (N4 : hnext (cn_add (cn_add h3 last k) i1 k) = Pos.succ j1) by reflexivity.
    assert (Fall : frame (eq last) h (cn_add (cn_add h3 last k) i1 k)).
    { eapply (frame_trans _ T4); [|exact F4|].
      - eapply (frame_trans _ (fun _ => False)); [|exact F3|tauto].
        eapply (frame_trans _ (fun _ => False)); [|apply frame_alloc_blk|tauto].
        eapply frame_weaken; [exact F1|cbv beta; tauto].
      - intros x Hx [E|E]; [congruence|]. pose proof (fr_next _ _ _ F1). fold i1 in H. lia. }
    assert (Le1 : hnext h <= i1) by (apply (fr_next _ _ _ F1)).
    repeat match goal with |- _ /\ _ => split end.
    - eapply wf_frame; [exact W3|exact F4].
    - exact Fall.
    - exact Le1.
    - rewrite N4. unfold j1. rewrite N2. lia.
    - cbn [t3 with_c t2 with_b t_bl]. rewrite Ebl. reflexivity.
    - exists j1. split; [cbn [t3 with_c t2 with_b t_cl]; rewrite Ecl; reflexivity|]. split; [unfold j1; rewrite N2; lia|]. split; [rewrite N4; lia|].
      rewrite (qcsig_frame T4 h3 _ j1 F4); [|rewrite N3; lia|rewrite Cj, N3; cbn [o_b0 crec]; unfold j1; rewrite N2; lia|rewrite Cj, N3; cbn [o_b1 crec]; unfold j1; rewrite N2; lia].
      unfold qcsig. rewrite Cj. cbn [o_b0 o_b1 o_d0 o_d1 o_area o_dir o_cos crec]. rewrite Kl, Ki3. reflexivity.
    - unfold tbget. rewrite <- Ebd. exact Nb.
    - intros y Hy. unfold tbget in *. cbn [t3 with_c t2 with_b t_bd] in Hy. rewrite (aget_aset str_eqb str_spec) in Hy.
      destruct (str_eqb y (mbname n m)); [discriminate|]. rewrite <- Ebd. exact Hy.
    - rewrite (qbsig_frame T4 h3 _ i1 F4); [|rewrite N3; unfold j1; rewrite N2; lia|].
      + unfold qbsig, kname, kvol, h3. rewrite bk_alloc_con, Bi. cbn [k_name k_vol k_rock k_cen brec]. rewrite rk_alloc_con. unfold h2. rewrite rk_alloc_blk, Rn, B1. reflexivity.
      + rewrite N3. unfold h3. rewrite bk_alloc_con, Bi. cbn [k_rock brec]. unfold j1. rewrite N2. fold i1 in Rl. lia.
  Qed.

  (** ** the matrix levels of one block *)
  Section OneBlock.
    Variables (n : str) (blk : id) (V : Q) (orock : id) (rn cen : str).
    (** the matrix blocks of levels m, m+1, ... for the fractions [r]: (name, volume, rock type name, centre) *)
    Fixpoint msigs (m : nat) (r : list Q) : list (str * Q * str * str) :=
      match r with [] => [] | vf :: r' => (mbname n m, (V * vf)%Q, mrname rn m, cen) :: msigs (S m) r' end.
    (** the nested connections: (block 1, block 2, distance 1, distance 2, area, direction, dircos) *)
    Fixpoint chain_from (prev : str) (m : nat) (r : list Q) : list (str * str * Q * Q * Q * str * str) :=
      match r with
      | [] => []
      | _ :: r' => (prev, mbname n m, dd (m - 1)%nat, dd m, (V * aa (m - 1)%nat)%Q, s2l "1", s2l "None") :: chain_from (mbname n m) (S m) r'
      end.

    Lemma levels_spec r : forall h t last m h' t',
      wf h t -> In blk (t_bl t) -> In last (t_bl t) -> orock < hnext h -> x_name (rk h orock) = rn -> k_cen (bk h blk) = cen ->
      minc_levels mbname mrname dd aa n blk V orock h t last m r = Ok (h', t') ->
      wf h' t' /\ frame (eq last) h h' /\
      exists news newc, t_bl t' = t_bl t ++ news /\ t_cl t' = t_cl t ++ newc /\
        (forall x, In x news -> hnext h <= x) /\
        map (qbsig h') news = msigs (S m) r /\ map (qcsig h') newc = chain_from (kname h last) (S m) r /\
        (forall x, In x news -> tbget t (kname h' x) = None).
    Proof.
      induction r as [|vf r IH]; intros h t last m h' t' W Hb Hl Hor Ern Ecen E; cbn [minc_levels] in E.
      - inversion E; subst h' t'. split; [exact W|]. split; [apply frame_refl|]. exists [], []. rewrite !app_nil_r.
        repeat match goal with |- _ /\ _ => split end; try reflexivity; intros x [].
      - destruct (minc_level mbname mrname dd aa n blk V orock h t last (S m) vf) as [[[h1 t1] i1]|] eqn:L; cbn [bind fst snd] in E; [|discriminate].
        destruct (level_spec _ _ _ _ _ _ _ _ _ _ _ _ W Hb Hl Hor L) as [W1 [F1 [Li [Ui [Ebl [[j1 [Ecl [Lj [Uj Sj]]]] [Nb [Mono Si]]]]]]]].
        assert (Hb1 : In blk (t_bl t1)) by (rewrite Ebl; apply in_or_app; left; exact Hb).
        assert (Hi1 : In i1 (t_bl t1)) by (rewrite Ebl; apply in_or_app; right; left; reflexivity).
        assert (Hj1 : In j1 (t_cl t1)) by (rewrite Ecl; apply in_or_app; right; left; reflexivity).
        assert (Hor1 : orock < hnext h1) by (pose proof (fr_next _ _ _ F1); lia).
        assert (Ern1 : x_name (rk h1 orock) = rn) by (rewrite (fr_rk _ _ _ F1 _ Hor); exact Ern).
        assert (Lb : blk < hnext h) by (apply (wf_fb _ _ W); exact Hb).
        assert (Ecen1 : k_cen (bk h1 blk) = cen).
        { destruct (fr_bk _ _ _ F1 _ Lb) as [_ [_ [_ E4]]]. rewrite E4. exact Ecen. }
        destruct (IH h1 t1 i1 (S m) h' t' W1 Hb1 Hi1 Hor1 Ern1 Ecen1 E) as [W' [F' [news [newc [Ebl' [Ecl' [Lo [Sb [Sc Nn]]]]]]]]].
        assert (Ki1 : kname h1 i1 = mbname n (S m)) by (unfold qbsig in Si; inversion Si; reflexivity).
        split; [exact W'|]. split.
        + eapply frame_trans; [exact F1|exact F'|]. intros x Hx E1. subst x. lia.
        + exists (i1 :: news), (j1 :: newc).
          repeat match goal with |- _ /\ _ => split end.
          * rewrite Ebl', Ebl, <- app_assoc. reflexivity.
          * rewrite Ecl', Ecl, <- app_assoc. reflexivity.
          * intros x [<-|Hx]; [exact Li|]. apply Lo in Hx. pose proof (fr_next _ _ _ F1). lia.
          * cbn [map msigs]. f_equal; [|exact Sb].
            rewrite (qbsig_frame _ _ _ _ F' Ui); [|apply (wf_fb _ _ W1); exact Hi1]. rewrite Si, Ern, Ecen. reflexivity.
          * cbn [map chain_from]. f_equal; [|rewrite <- Ki1; exact Sc].
            destruct (wf_ends _ _ W1 _ Hj1) as [I0 I1].
            rewrite (qcsig_frame _ _ _ _ F' Uj); [exact Sj|apply (wf_fb _ _ W1); exact I0|apply (wf_fb _ _ W1); exact I1].
          * intros x [<-|Hx].
            -- unfold kname. destruct (fr_bk _ _ _ F' _ Ui) as [E1 _]. rewrite E1. fold (kname h1 i1). rewrite Ki1. exact Nb.
            -- apply Mono. apply Nn. exact Hx.
    Qed.
  End OneBlock.

  (** ** one block of the selection *)
  (** what a step on block [blk] keeps: rock and connection records and block names of the old objects,
      and every old block record other than [blk] *)
  Record bframe (blk : id) (h h' : heap) : Prop := {
    bf_next : hnext h <= hnext h';
    bf_rk : forall x, x < hnext h -> rk h' x = rk h x;
    bf_cx : forall x, x < hnext h -> cx h' x = cx h x;
    bf_nm : forall x, x < hnext h -> kname h' x = kname h x;
    bf_un : forall x, x < hnext h -> x <> blk -> bk h' x = bk h x }.
  Lemma bframe_refl blk h : bframe blk h h.
  Proof. constructor; intros; try reflexivity; try lia. Qed.

  Definition rockname (h : heap) (i : id) : str := x_name (rk h (k_rock (bk h i))).
  Definition in_range (v : Q) : bool := qltb 0 v && qltb v atm.

  Lemma block_spec vfs h t n blk h' t' : wf h t -> tbget t n = Some blk ->
    minc_block mbname mrname dd aa atm vfs h t n = Ok (h', t') ->
    wf h' t' /\ bframe blk h h' /\
    exists news newc, t_bl t' = t_bl t ++ news /\ t_cl t' = t_cl t ++ newc /\
      (forall x, In x news -> tbget t (kname h' x) = None) /\
      if in_range (kvol h blk)
      then qbsig h' blk = (n, (kvol h blk * nth 0 vfs 0)%Q, mrname (rockname h blk) 0%nat, k_cen (bk h blk)) /\
           map (qbsig h') news = msigs n (kvol h blk) (rockname h blk) (k_cen (bk h blk)) 1 (tl vfs) /\
           map (qcsig h') newc = chain_from n (kvol h blk) n 1 (tl vfs)
      else bk h' blk = bk h blk /\ news = [] /\ newc = [].
  Proof.
    intros W Tb. unfold minc_block. rewrite Tb. cbv zeta. fold (in_range (kvol h blk)).
    destruct (wf_tbget _ _ _ _ W Tb) as [Hb Kn]. destruct (wf_fb _ _ W _ Hb) as [Lb Lr].
    destruct (in_range (kvol h blk)) eqn:IR.
    2:{ intro H. inversion H; subst h' t'. split; [exact W|]. split; [apply bframe_refl|]. exists [], []. rewrite !app_nil_r.
        repeat match goal with |- _ /\ _ => split end; try reflexivity. intros x []. }
    set (V := kvol h blk).
    set (h1 := set_blk h blk (with_vol (bk h blk) (V * nth 0 vfs 0)%Q)).
    assert (B1 : forall x, bk h1 x = if Pos.eqb x blk then with_vol (bk h blk) (V * nth 0 vfs 0)%Q else bk h x) by (intro x; apply bk_set_blk).
    assert (B1b : bk h1 blk = with_vol (bk h blk) (V * nth 0 vfs 0)%Q) by (rewrite B1, Pos.eqb_refl; reflexivity).
    assert (W1 : wf h1 t).
    { apply (wf_transport h h1 t W); [cbn; lia| | | |].
      - intros x _. rewrite B1. destruct (Pos.eqb_spec x blk) as [->|]; reflexivity.
      - intros x Hx. rewrite B1. destruct (Pos.eqb_spec x blk) as [->|]; [exact Lr|apply (wf_fb _ _ W); exact Hx].
      - intros x _. split; reflexivity.
      - intros x _. reflexivity. }
    set (orock := k_rock (bk h1 blk)).
    assert (Eor : orock = k_rock (bk h blk)) by (unfold orock; rewrite B1b; reflexivity).
    destruct (minc_levels mbname mrname dd aa n blk V orock h1 t blk 0 (tl vfs)) as [[h2 t2]|] eqn:L; cbn [bind fst snd]; [|discriminate].
    assert (Hor : orock < hnext h1) by (rewrite Eor; exact Lr).
    destruct (levels_spec n blk V orock (rockname h blk) (k_cen (bk h blk)) (tl vfs) h1 t blk 0 h2 t2 W1 Hb Hb Hor)
      as [W2 [F2 [news [newc [Ebl [Ecl [Lo [Sb [Sc Nn]]]]]]]]]; [rewrite Eor; reflexivity|rewrite B1b; reflexivity|exact L|].
    destruct (duplicate_rock h2 t2 (mrname (x_name (rk h2 orock)) 0) orock) as [[h3 t3]|] eqn:D; cbn [bind fst snd]; [|discriminate].
    destruct (duplicate_rock_spec _ _ _ _ _ _ W2 D) as [W3 [F3 [B3 [Ebl3 [Ebd3 [Ecl3 [Ecd3 [rj Rj]]]]]]]].
    rewrite Rj. intro H. inversion H; subst h' t'; clear H.
    destruct (wf_r _ _ W3 _ _ Rj) as [Rn Rl].
    set (h4 := set_blk h3 blk (with_rock (bk h3 blk) rj)).
    assert (B4 : forall x, bk h4 x = if Pos.eqb x blk then with_rock (bk h3 blk) rj else bk h3 x) by (intro x; apply bk_set_blk).
    assert (N1 : hnext h1 = hnext h) by reflexivity.
    assert (Le2 : hnext h <= hnext h2) by (rewrite <- N1; apply (fr_next _ _ _ F2)).
    assert (Le3 : hnext h2 <= hnext h3) by (apply (fr_next _ _ _ F3)).
    assert (W4 : wf h4 t3).
    { apply (wf_transport h3 h4 t3 W3); [cbn; lia| | | |].
      - intros x _. rewrite B4. destruct (Pos.eqb_spec x blk) as [->|]; reflexivity.
      - intros x Hx. rewrite B4. destruct (Pos.eqb_spec x blk) as [->|]; [exact Rl|apply (wf_fb _ _ W3); exact Hx].
      - intros x _. split; reflexivity.
      - intros x _. reflexivity. }
    assert (Rk : forall x, x < hnext h -> rk h4 x = rk h x).
    { intros x Hx. change (rk h4 x) with (rk h3 x). rewrite (fr_rk _ _ _ F3) by lia. rewrite (fr_rk _ _ _ F2) by (rewrite N1; exact Hx). reflexivity. }
    assert (Nm : forall x, x < hnext h2 -> kname h4 x = kname h2 x).
    { intros x Hx. unfold kname. rewrite B4. destruct (Pos.eqb_spec x blk) as [->|]; cbn [with_rock k_name]; rewrite B3; reflexivity. }
    assert (Nm0 : forall x, x < hnext h -> kname h2 x = kname h x).
    { intros x Hx. unfold kname. destruct (fr_bk _ _ _ F2 x) as [E1 _]; [rewrite N1; exact Hx|]. rewrite E1, B1.
      destruct (Pos.eqb_spec x blk) as [->|]; reflexivity. }
    split; [exact W4|]. split.
    { constructor.
      - cbn [hnext h4 set_blk]. lia.
      - exact Rk.
      - intros x Hx. change (cx h4 x) with (cx h3 x). rewrite (fr_cx _ _ _ F3) by lia. rewrite (fr_cx _ _ _ F2) by (rewrite N1; exact Hx). reflexivity.
      - intros x Hx. rewrite Nm by lia. apply Nm0. exact Hx.
      - intros x Hx Nx. rewrite B4. destruct (Pos.eqb_spec x blk); [contradiction|]. rewrite B3.
        rewrite (fr_un _ _ _ F2 x); [|rewrite N1; exact Hx|congruence]. rewrite B1. destruct (Pos.eqb_spec x blk); [contradiction|reflexivity]. }
    exists news, newc. rewrite Ebl3, Ecl3.
    assert (Fn : forall x, In x news -> x < hnext h2 /\ k_rock (bk h2 x) < hnext h2 /\ x <> blk).
    { intros x Hx. assert (I2 : In x (t_bl t2)) by (rewrite Ebl; apply in_or_app; right; exact Hx).
      destruct (wf_fb _ _ W2 _ I2). pose proof (Lo x Hx). rewrite N1 in H1. repeat split; try assumption. lia. }
    assert (Sig4 : forall x, x <> blk -> x < hnext h2 -> k_rock (bk h2 x) < hnext h2 -> qbsig h4 x = qbsig h2 x).
    { intros x Nx Hx Hr. unfold qbsig, kname, kvol. rewrite B4. destruct (Pos.eqb_spec x blk); [contradiction|]. rewrite B3.
      change (rk h4 (k_rock (bk h2 x))) with (rk h3 (k_rock (bk h2 x))). rewrite (fr_rk _ _ _ F3) by exact Hr. reflexivity. }
    repeat match goal with |- _ /\ _ => split end.
    - exact Ebl.
    - exact Ecl.
    - intros x Hx. destruct (Fn x Hx) as [L2 _]. rewrite Nm by exact L2. apply Nn. exact Hx.
    - unfold qbsig, kname, kvol. rewrite B4, Pos.eqb_refl. cbn [with_rock k_name k_vol k_rock k_cen]. rewrite B3.
      destruct (fr_bk _ _ _ F2 blk) as [E1 [E2 [E3 E4]]]; [rewrite N1; exact Lb|]. rewrite E1, E2, E4, B1b. cbn [with_vol k_name k_vol k_cen].
      change (rk h4 rj) with (rk h3 rj). rewrite Rn. fold (kname h blk). rewrite Kn.
      rewrite (fr_rk _ _ _ F2 orock Hor). change (rk h1 orock) with (rk h orock). rewrite Eor. reflexivity.
    - rewrite <- Sb. apply map_ext_in. intros x Hx. destruct (Fn x Hx) as [L2 [R2 Nx]]. apply Sig4; assumption.
    - assert (Kn1 : kname h1 blk = n) by (unfold kname; rewrite B1b; exact Kn). rewrite Kn1 in Sc. rewrite <- Sc. apply map_ext_in. intros j Hj.
      assert (I2 : In j (t_cl t2)) by (rewrite Ecl; apply in_or_app; right; exact Hj).
      destruct (wf_ends _ _ W2 _ I2) as [I0 I1]. unfold qcsig. change (cx h4 j) with (cx h3 j).
      rewrite (fr_cx _ _ _ F3) by (apply (wf_fc _ _ W2); exact I2).
      rewrite !Nm; [reflexivity|apply (wf_fb _ _ W2); exact I1|apply (wf_fb _ _ W2); exact I0].
  Qed.

  (** ** the loop over the selected blocks *)
  Section Loop.
    Variable vfs : list Q.       (* the normalised fractions *)
    (** the block named [n] is processed: it exists and 0 < volume < atmos_volume *)
    Definition proc (h : heap) (t : tabs) (n : str) : bool :=
      match tbget t n with Some i => in_range (kvol h i) | None => false end.
    Definition matrix_sigs (h : heap) (t : tabs) (n : str) : list (str * Q * str * str) :=
      match tbget t n with Some i => msigs n (kvol h i) (rockname h i) (k_cen (bk h i)) 1 (tl vfs) | None => [] end.
    Definition chain_sigs (h : heap) (t : tabs) (n : str) : list (str * str * Q * Q * Q * str * str) :=
      match tbget t n with Some i => chain_from n (kvol h i) n 1 (tl vfs) | None => [] end.
    Definition touched (h : heap) (t : tabs) (sel : list str) (i : id) : bool :=
      existsb (str_eqb (kname h i)) sel && proc h t (kname h i).
    (** an original block afterwards: the fracture continuum when processed, itself otherwise *)
    Definition frac_sig (h : heap) (t : tabs) (sel : list str) (i : id) : str * Q * str * str :=
      if touched h t sel i then (kname h i, (kvol h i * nth 0 vfs 0)%Q, mrname (rockname h i) 0%nat, k_cen (bk h i)) else qbsig h i.

    Lemma flat_map_ext_in {A B} (f g : A -> list B) l : (forall a, In a l -> f a = g a) -> flat_map f l = flat_map g l.
    Proof.
      induction l as [|a r IH]; cbn; intro H; [reflexivity|]. rewrite (H a) by (left; reflexivity). f_equal. apply IH. intros; apply H; right; assumption.
    Qed.
    Lemma existsb_str_false n l : ~ In n l -> existsb (str_eqb n) l = false.
    Proof.
      intro N. destruct (existsb (str_eqb n) l) eqn:E; [|reflexivity]. exfalso. apply N.
      apply existsb_exists in E. destruct E as [y [Hy Ey]]. destruct (str_spec n y); [subst; exact Hy|discriminate].
    Qed.

    Lemma blocks_spec sel : forall h t h' t', wf h t -> NoDup sel -> (forall n, In n sel -> tbget t n <> None) ->
      minc_blocks mbname mrname dd aa atm vfs h t sel = Ok (h', t') ->
      wf h' t' /\
      map (qbsig h') (t_bl t') = map (frac_sig h t sel) (t_bl t) ++ flat_map (matrix_sigs h t) (filter (proc h t) sel) /\
      map (qcsig h') (t_cl t') = map (qcsig h) (t_cl t) ++ flat_map (chain_sigs h t) (filter (proc h t) sel) /\
      (forall i, In i (t_bl t) -> touched h t sel i = false -> bk h' i = bk h i) /\
      (forall j, In j (t_cl t) -> cx h' j = cx h j) /\
      (forall x, x < hnext h -> rk h' x = rk h x).
    Proof.
      induction sel as [|n rest IH]; intros h t h' t' W ND Hsel E; cbn [minc_blocks] in E.
      - inversion E; subst h' t'. split; [exact W|]. cbn [filter flat_map]. rewrite !app_nil_r.
        split; [apply map_ext; intro i; unfold frac_sig, touched; reflexivity|]. repeat split; reflexivity.
      - destruct (minc_block mbname mrname dd aa atm vfs h t n) as [[h1 t1]|] eqn:B; cbn [bind fst snd] in E; [|discriminate].
        destruct (tbget t n) as [blk|] eqn:Tb; [|exfalso; apply (Hsel n); [left; reflexivity|exact Tb]].
        destruct (block_spec vfs h t n blk h1 t1 W Tb B) as [W1 [BF [news [newc [Ebl [Ecl [Nn Case]]]]]]].
        destruct (wf_tbget _ _ _ _ W Tb) as [Hb Kn]. destruct (wf_fb _ _ W _ Hb) as [Lb Lr].
        apply NoDup_cons_iff in ND. destruct ND as [Nin ND'].
        (* old objects in the intermediate state *)
        assert (Old : forall x, In x (t_bl t) -> x <> blk ->
                  bk h1 x = bk h x /\ kname h1 x = kname h x /\ kvol h1 x = kvol h x /\ rockname h1 x = rockname h x /\ qbsig h1 x = qbsig h x).
        { intros x Hx Nx. destruct (wf_fb _ _ W _ Hx) as [Lx Rx]. pose proof (bf_un _ _ _ BF x Lx Nx) as Ex.
          assert (Er : rockname h1 x = rockname h x) by (unfold rockname; rewrite Ex, (bf_rk _ _ _ BF _ Rx); reflexivity).
          repeat split; [exact Ex|unfold kname; rewrite Ex; reflexivity|unfold kvol; rewrite Ex; reflexivity|exact Er|].
          unfold qbsig, kname, kvol. fold (rockname h1 x). fold (rockname h x). rewrite Er, Ex. reflexivity. }
        assert (Keep : forall n' x, tbget t n' = Some x -> tbget t1 n' = Some x).
        { intros n' x H. destruct (wf_tbget _ _ _ _ W H) as [Hx Kx]. destruct (wf_fb _ _ W _ Hx) as [Lx _].
          rewrite <- Kx, <- (bf_nm _ _ _ BF x Lx). apply (wf_tbget_name _ _ _ W1). rewrite Ebl. apply in_or_app. left. exact Hx. }
        assert (Other : forall n' x, tbget t n' = Some x -> n' <> n -> In x (t_bl t) /\ x <> blk).
        { intros n' x H N'. destruct (wf_tbget _ _ _ _ W H) as [Hx Kx]. split; [exact Hx|]. intros ->. congruence. }
        assert (Proc1 : forall n', n' <> n -> tbget t n' <> None -> proc h1 t1 n' = proc h t n').
        { intros n' N' H. unfold proc. destruct (tbget t n') as [x|] eqn:Tx; [|congruence]. rewrite (Keep _ _ Tx).
          destruct (Other _ _ Tx N') as [Hx Nx]. destruct (Old x Hx Nx) as [_ [_ [Ev _]]]. rewrite Ev. reflexivity. }
        assert (Hsel1 : forall n', In n' rest -> tbget t1 n' <> None).
        { intros n' H. specialize (Hsel n' (or_intror H)). destruct (tbget t n') as [x|] eqn:Tx; [|congruence]. rewrite (Keep _ _ Tx). discriminate. }
        assert (Nrest : forall n', In n' rest -> n' <> n) by (intros n' H ->; contradiction).
        destruct (IH h1 t1 h' t' W1 ND' Hsel1 E) as [W' [Sb [Sc [Un [Uc Ur]]]]].
        assert (Efilt : filter (proc h1 t1) rest = filter (proc h t) rest).
        { apply filter_ext_in. intros n' H. apply Proc1; [apply Nrest; exact H|apply Hsel; right; exact H]. }
        assert (Emat : flat_map (matrix_sigs h1 t1) (filter (proc h t) rest) = flat_map (matrix_sigs h t) (filter (proc h t) rest)).
        { apply flat_map_ext_in. intros n' H. apply filter_In in H. destruct H as [H _]. unfold matrix_sigs.
          pose proof (Hsel n' (or_intror H)) as Hn. destruct (tbget t n') as [x|] eqn:Tx; [|congruence]. rewrite (Keep _ _ Tx).
          destruct (Other _ _ Tx (Nrest _ H)) as [Hx Nx]. destruct (Old x Hx Nx) as [Ex [_ [Ev [Er _]]]]. rewrite Ex, Ev, Er. reflexivity. }
        assert (Echn : flat_map (chain_sigs h1 t1) (filter (proc h t) rest) = flat_map (chain_sigs h t) (filter (proc h t) rest)).
        { apply flat_map_ext_in. intros n' H. apply filter_In in H. destruct H as [H _]. unfold chain_sigs.
          pose proof (Hsel n' (or_intror H)) as Hn. destruct (tbget t n') as [x|] eqn:Tx; [|congruence]. rewrite (Keep _ _ Tx).
          destruct (Other _ _ Tx (Nrest _ H)) as [Hx Nx]. destruct (Old x Hx Nx) as [_ [_ [Ev _]]]. rewrite Ev. reflexivity. }
        assert (Kb1 : kname h1 blk = n) by (rewrite (bf_nm _ _ _ BF blk Lb); exact Kn).
        assert (Tch : forall x, In x (t_bl t) -> x <> blk -> touched h1 t1 rest x = touched h t (n :: rest) x).
        { intros x Hx Nx. destruct (Old x Hx Nx) as [_ [Ek _]]. unfold touched. rewrite Ek.
          assert (Nn' : kname h x <> n) by (intro X; apply Nx; apply (wf_name_inj _ _ _ _ W Hx Hb); congruence).
          cbn [existsb]. destruct (str_spec (kname h x) n) as [X|_]; [contradiction|]. cbn [orb].
          rewrite Proc1; [reflexivity|exact Nn'|rewrite (wf_tbget_name _ _ _ W Hx); discriminate]. }
        assert (Tblk : touched h1 t1 rest blk = false).
        { unfold touched. rewrite Kb1, (existsb_str_false _ _ Nin). reflexivity. }
        assert (Tblk0 : touched h t (n :: rest) blk = in_range (kvol h blk)).
        { unfold touched, proc. rewrite Kn, Tb. cbn [existsb]. destruct (str_spec n n); [reflexivity|congruence]. }
        assert (Tnew : forall x, In x news -> touched h1 t1 rest x = false).
        { intros x Hx. unfold touched. rewrite existsb_str_false; [reflexivity|]. intro X. apply (Hsel _ (or_intror X)). apply Nn. exact Hx. }
        assert (Eold : map (frac_sig h1 t1 rest) (t_bl t) = map (frac_sig h t (n :: rest)) (t_bl t)).
        { apply map_ext_in. intros x Hx. unfold frac_sig. destruct (Pos.eq_dec x blk) as [->|Nx].
          - rewrite Tblk, Tblk0. destruct (in_range (kvol h blk)) eqn:IR.
            + destruct Case as [S0 _]. rewrite S0, Kn. reflexivity.
            + destruct Case as [E0 _]. unfold qbsig, kname, kvol. rewrite E0. rewrite (bf_rk _ _ _ BF); [reflexivity|exact Lr].
          - rewrite (Tch x Hx Nx). destruct (Old x Hx Nx) as [Ex [Ek [Ev [Er Es]]]]. rewrite Ek, Ev, Er, Ex, Es. reflexivity. }
        assert (Enew : map (frac_sig h1 t1 rest) news = map (qbsig h1) news).
        { apply map_ext_in. intros x Hx. unfold frac_sig. rewrite (Tnew x Hx). reflexivity. }
        assert (Ecs : map (qcsig h1) (t_cl t) = map (qcsig h) (t_cl t)).
        { apply map_ext_in. intros j Hj. destruct (wf_ends _ _ W _ Hj) as [I0 I1]. unfold qcsig.
          rewrite (bf_cx _ _ _ BF j (wf_fc _ _ W _ Hj)).
          rewrite !(bf_nm _ _ _ BF); [reflexivity|apply (wf_fb _ _ W); exact I1|apply (wf_fb _ _ W); exact I0]. }
        split; [exact W'|]. repeat match goal with |- _ /\ _ => split end.
        + rewrite Sb, Efilt, Emat, Ebl, map_app, Eold, Enew, <- app_assoc. f_equal.
          cbn [filter]. unfold proc at 2. rewrite Tb. destruct (in_range (kvol h blk)) eqn:IR.
          * cbn [flat_map]. f_equal. unfold matrix_sigs. rewrite Tb. destruct Case as [_ [S1 _]]. exact S1.
          * destruct Case as [_ [-> _]]. reflexivity.
        + rewrite Sc, Efilt, Echn, Ecl, map_app, Ecs, <- app_assoc. f_equal.
          cbn [filter]. unfold proc at 2. rewrite Tb. destruct (in_range (kvol h blk)) eqn:IR.
          * cbn [flat_map]. f_equal. unfold chain_sigs. rewrite Tb. destruct Case as [_ [_ S2]]. exact S2.
          * destruct Case as [_ [_ ->]]. reflexivity.
        + intros i Hi Ti. assert (Hi1 : In i (t_bl t1)) by (rewrite Ebl; apply in_or_app; left; exact Hi).
          destruct (Pos.eq_dec i blk) as [->|Ni].
          * rewrite (Un blk Hi1 Tblk). rewrite Tblk0 in Ti. rewrite Ti in Case. destruct Case as [E0 _]. exact E0.
          * rewrite (Un i Hi1); [|rewrite (Tch i Hi Ni); exact Ti]. destruct (Old i Hi Ni) as [Ex _]. exact Ex.
        + intros j Hj. rewrite Uc by (rewrite Ecl; apply in_or_app; left; exact Hj). apply (bf_cx _ _ _ BF). apply (wf_fc _ _ W). exact Hj.
        + intros x Hx. rewrite Ur by (pose proof (bf_next _ _ _ BF); lia). apply (bf_rk _ _ _ BF). exact Hx.
    Qed.
  End Loop.
End MincSteps.
