(** C09 -- executable model of t2grid with the physical payload of blocks and connections.

    Same object/heap model as coq/C08/GridEdit.v (ids, field maps, insertion-ordered
    dictionaries, Python statement order), restricted to the operations C09 is about
    (building a grid, rename_blocks, reorder) and extended with the payload attributes:
    t2block.volume / .centre, t2connection.distance[0] / [1] / .area / .direction / .dircos /
    .nad1 / .nad2.  Payload values are opaque tokens (the [repr] of the Python value): the
    edits only move them around, except that reorder negates the gravity cosine of a
    connection it reverses ([neg_tok]: [-x] toggles the sign character of [repr(x)]; [None]
    is left alone). *)
From Coq Require Import Ascii String List Bool PArith NArith FMapPositive Lia.
From PTBase Require Import Exn PyStr.
From P Require Import Assoc.
Import ListNotations.
Open Scope list_scope.

Definition key2 := (str * str)%type.
Definition key2_eqb (a b : key2) : bool := str_eqb (fst a) (fst b) && str_eqb (snd a) (snd b).
Lemma key2_spec a b : reflect (a = b) (key2_eqb a b).
Proof.
  destruct a as [a1 a2], b as [b1 b2]. unfold key2_eqb; cbn.
  destruct (str_eqb_spec a1 b1), (str_eqb_spec a2 b2); constructor; congruence.
Qed.
Lemma str_spec a b : reflect (a = b) (str_eqb a b).
Proof. apply str_eqb_spec. Qed.

Definition set_mem (k : key2) (s : list key2) : bool := existsb (key2_eqb k) s.
Definition set_add (s : list key2) (k : key2) : list key2 := if set_mem k s then s else s ++ [k].
Definition set_del (s : list key2) (k : key2) : list key2 := filter (fun k' => negb (key2_eqb k k')) s.

(** [-x] on the token of [x] *)
Definition none_tok : str := s2l "None".
Definition neg_tok (t : str) : str :=
  if str_eqb t none_tok then t
  else match t with
       | c :: r => if ceqb c "-"%char then r else "-"%char :: t
       | [] => t
       end.

Record grid := {
  rname : fmap str;
  bname : fmap str;
  brock : fmap id;
  bcn : fmap (list key2);
  bvol : fmap str;
  bcen : fmap str;
  cb0 : fmap id;
  cb1 : fmap id;
  cd0 : fmap str;
  cd1 : fmap str;
  carea : fmap str;
  cdir : fmap str;
  ccos : fmap str;
  cnad1 : fmap str;
  cnad2 : fmap str;
  rlist : list id;
  rdict : list (str * id);
  blist : list id;
  bdict : list (str * id);
  clist : list id;
  cdict : list (key2 * id);
  next : id }.

Definition set_rname (g : grid) v : grid :=
  {| rname := v; bname := bname g; brock := brock g; bcn := bcn g; bvol := bvol g; bcen := bcen g; cb0 := cb0 g; cb1 := cb1 g; cd0 := cd0 g; cd1 := cd1 g; carea := carea g; cdir := cdir g; ccos := ccos g; cnad1 := cnad1 g; cnad2 := cnad2 g; rlist := rlist g; rdict := rdict g; blist := blist g; bdict := bdict g; clist := clist g; cdict := cdict g; next := next g |}.
Definition set_bname (g : grid) v : grid :=
  {| rname := rname g; bname := v; brock := brock g; bcn := bcn g; bvol := bvol g; bcen := bcen g; cb0 := cb0 g; cb1 := cb1 g; cd0 := cd0 g; cd1 := cd1 g; carea := carea g; cdir := cdir g; ccos := ccos g; cnad1 := cnad1 g; cnad2 := cnad2 g; rlist := rlist g; rdict := rdict g; blist := blist g; bdict := bdict g; clist := clist g; cdict := cdict g; next := next g |}.
Definition set_brock (g : grid) v : grid :=
  {| rname := rname g; bname := bname g; brock := v; bcn := bcn g; bvol := bvol g; bcen := bcen g; cb0 := cb0 g; cb1 := cb1 g; cd0 := cd0 g; cd1 := cd1 g; carea := carea g; cdir := cdir g; ccos := ccos g; cnad1 := cnad1 g; cnad2 := cnad2 g; rlist := rlist g; rdict := rdict g; blist := blist g; bdict := bdict g; clist := clist g; cdict := cdict g; next := next g |}.
Definition set_bcn (g : grid) v : grid :=
  {| rname := rname g; bname := bname g; brock := brock g; bcn := v; bvol := bvol g; bcen := bcen g; cb0 := cb0 g; cb1 := cb1 g; cd0 := cd0 g; cd1 := cd1 g; carea := carea g; cdir := cdir g; ccos := ccos g; cnad1 := cnad1 g; cnad2 := cnad2 g; rlist := rlist g; rdict := rdict g; blist := blist g; bdict := bdict g; clist := clist g; cdict := cdict g; next := next g |}.
Definition set_bvol (g : grid) v : grid :=
  {| rname := rname g; bname := bname g; brock := brock g; bcn := bcn g; bvol := v; bcen := bcen g; cb0 := cb0 g; cb1 := cb1 g; cd0 := cd0 g; cd1 := cd1 g; carea := carea g; cdir := cdir g; ccos := ccos g; cnad1 := cnad1 g; cnad2 := cnad2 g; rlist := rlist g; rdict := rdict g; blist := blist g; bdict := bdict g; clist := clist g; cdict := cdict g; next := next g |}.
Definition set_bcen (g : grid) v : grid :=
  {| rname := rname g; bname := bname g; brock := brock g; bcn := bcn g; bvol := bvol g; bcen := v; cb0 := cb0 g; cb1 := cb1 g; cd0 := cd0 g; cd1 := cd1 g; carea := carea g; cdir := cdir g; ccos := ccos g; cnad1 := cnad1 g; cnad2 := cnad2 g; rlist := rlist g; rdict := rdict g; blist := blist g; bdict := bdict g; clist := clist g; cdict := cdict g; next := next g |}.
Definition set_cb0 (g : grid) v : grid :=
  {| rname := rname g; bname := bname g; brock := brock g; bcn := bcn g; bvol := bvol g; bcen := bcen g; cb0 := v; cb1 := cb1 g; cd0 := cd0 g; cd1 := cd1 g; carea := carea g; cdir := cdir g; ccos := ccos g; cnad1 := cnad1 g; cnad2 := cnad2 g; rlist := rlist g; rdict := rdict g; blist := blist g; bdict := bdict g; clist := clist g; cdict := cdict g; next := next g |}.
Definition set_cb1 (g : grid) v : grid :=
  {| rname := rname g; bname := bname g; brock := brock g; bcn := bcn g; bvol := bvol g; bcen := bcen g; cb0 := cb0 g; cb1 := v; cd0 := cd0 g; cd1 := cd1 g; carea := carea g; cdir := cdir g; ccos := ccos g; cnad1 := cnad1 g; cnad2 := cnad2 g; rlist := rlist g; rdict := rdict g; blist := blist g; bdict := bdict g; clist := clist g; cdict := cdict g; next := next g |}.
Definition set_cd0 (g : grid) v : grid :=
  {| rname := rname g; bname := bname g; brock := brock g; bcn := bcn g; bvol := bvol g; bcen := bcen g; cb0 := cb0 g; cb1 := cb1 g; cd0 := v; cd1 := cd1 g; carea := carea g; cdir := cdir g; ccos := ccos g; cnad1 := cnad1 g; cnad2 := cnad2 g; rlist := rlist g; rdict := rdict g; blist := blist g; bdict := bdict g; clist := clist g; cdict := cdict g; next := next g |}.
Definition set_cd1 (g : grid) v : grid :=
  {| rname := rname g; bname := bname g; brock := brock g; bcn := bcn g; bvol := bvol g; bcen := bcen g; cb0 := cb0 g; cb1 := cb1 g; cd0 := cd0 g; cd1 := v; carea := carea g; cdir := cdir g; ccos := ccos g; cnad1 := cnad1 g; cnad2 := cnad2 g; rlist := rlist g; rdict := rdict g; blist := blist g; bdict := bdict g; clist := clist g; cdict := cdict g; next := next g |}.
Definition set_carea (g : grid) v : grid :=
  {| rname := rname g; bname := bname g; brock := brock g; bcn := bcn g; bvol := bvol g; bcen := bcen g; cb0 := cb0 g; cb1 := cb1 g; cd0 := cd0 g; cd1 := cd1 g; carea := v; cdir := cdir g; ccos := ccos g; cnad1 := cnad1 g; cnad2 := cnad2 g; rlist := rlist g; rdict := rdict g; blist := blist g; bdict := bdict g; clist := clist g; cdict := cdict g; next := next g |}.
Definition set_cdir (g : grid) v : grid :=
  {| rname := rname g; bname := bname g; brock := brock g; bcn := bcn g; bvol := bvol g; bcen := bcen g; cb0 := cb0 g; cb1 := cb1 g; cd0 := cd0 g; cd1 := cd1 g; carea := carea g; cdir := v; ccos := ccos g; cnad1 := cnad1 g; cnad2 := cnad2 g; rlist := rlist g; rdict := rdict g; blist := blist g; bdict := bdict g; clist := clist g; cdict := cdict g; next := next g |}.
Definition set_ccos (g : grid) v : grid :=
  {| rname := rname g; bname := bname g; brock := brock g; bcn := bcn g; bvol := bvol g; bcen := bcen g; cb0 := cb0 g; cb1 := cb1 g; cd0 := cd0 g; cd1 := cd1 g; carea := carea g; cdir := cdir g; ccos := v; cnad1 := cnad1 g; cnad2 := cnad2 g; rlist := rlist g; rdict := rdict g; blist := blist g; bdict := bdict g; clist := clist g; cdict := cdict g; next := next g |}.
Definition set_cnad1 (g : grid) v : grid :=
  {| rname := rname g; bname := bname g; brock := brock g; bcn := bcn g; bvol := bvol g; bcen := bcen g; cb0 := cb0 g; cb1 := cb1 g; cd0 := cd0 g; cd1 := cd1 g; carea := carea g; cdir := cdir g; ccos := ccos g; cnad1 := v; cnad2 := cnad2 g; rlist := rlist g; rdict := rdict g; blist := blist g; bdict := bdict g; clist := clist g; cdict := cdict g; next := next g |}.
Definition set_cnad2 (g : grid) v : grid :=
  {| rname := rname g; bname := bname g; brock := brock g; bcn := bcn g; bvol := bvol g; bcen := bcen g; cb0 := cb0 g; cb1 := cb1 g; cd0 := cd0 g; cd1 := cd1 g; carea := carea g; cdir := cdir g; ccos := ccos g; cnad1 := cnad1 g; cnad2 := v; rlist := rlist g; rdict := rdict g; blist := blist g; bdict := bdict g; clist := clist g; cdict := cdict g; next := next g |}.
Definition set_rlist (g : grid) v : grid :=
  {| rname := rname g; bname := bname g; brock := brock g; bcn := bcn g; bvol := bvol g; bcen := bcen g; cb0 := cb0 g; cb1 := cb1 g; cd0 := cd0 g; cd1 := cd1 g; carea := carea g; cdir := cdir g; ccos := ccos g; cnad1 := cnad1 g; cnad2 := cnad2 g; rlist := v; rdict := rdict g; blist := blist g; bdict := bdict g; clist := clist g; cdict := cdict g; next := next g |}.
Definition set_rdict (g : grid) v : grid :=
  {| rname := rname g; bname := bname g; brock := brock g; bcn := bcn g; bvol := bvol g; bcen := bcen g; cb0 := cb0 g; cb1 := cb1 g; cd0 := cd0 g; cd1 := cd1 g; carea := carea g; cdir := cdir g; ccos := ccos g; cnad1 := cnad1 g; cnad2 := cnad2 g; rlist := rlist g; rdict := v; blist := blist g; bdict := bdict g; clist := clist g; cdict := cdict g; next := next g |}.
Definition set_blist (g : grid) v : grid :=
  {| rname := rname g; bname := bname g; brock := brock g; bcn := bcn g; bvol := bvol g; bcen := bcen g; cb0 := cb0 g; cb1 := cb1 g; cd0 := cd0 g; cd1 := cd1 g; carea := carea g; cdir := cdir g; ccos := ccos g; cnad1 := cnad1 g; cnad2 := cnad2 g; rlist := rlist g; rdict := rdict g; blist := v; bdict := bdict g; clist := clist g; cdict := cdict g; next := next g |}.
Definition set_bdict (g : grid) v : grid :=
  {| rname := rname g; bname := bname g; brock := brock g; bcn := bcn g; bvol := bvol g; bcen := bcen g; cb0 := cb0 g; cb1 := cb1 g; cd0 := cd0 g; cd1 := cd1 g; carea := carea g; cdir := cdir g; ccos := ccos g; cnad1 := cnad1 g; cnad2 := cnad2 g; rlist := rlist g; rdict := rdict g; blist := blist g; bdict := v; clist := clist g; cdict := cdict g; next := next g |}.
Definition set_clist (g : grid) v : grid :=
  {| rname := rname g; bname := bname g; brock := brock g; bcn := bcn g; bvol := bvol g; bcen := bcen g; cb0 := cb0 g; cb1 := cb1 g; cd0 := cd0 g; cd1 := cd1 g; carea := carea g; cdir := cdir g; ccos := ccos g; cnad1 := cnad1 g; cnad2 := cnad2 g; rlist := rlist g; rdict := rdict g; blist := blist g; bdict := bdict g; clist := v; cdict := cdict g; next := next g |}.
Definition set_cdict (g : grid) v : grid :=
  {| rname := rname g; bname := bname g; brock := brock g; bcn := bcn g; bvol := bvol g; bcen := bcen g; cb0 := cb0 g; cb1 := cb1 g; cd0 := cd0 g; cd1 := cd1 g; carea := carea g; cdir := cdir g; ccos := ccos g; cnad1 := cnad1 g; cnad2 := cnad2 g; rlist := rlist g; rdict := rdict g; blist := blist g; bdict := bdict g; clist := clist g; cdict := v; next := next g |}.
Definition set_next (g : grid) v : grid :=
  {| rname := rname g; bname := bname g; brock := brock g; bcn := bcn g; bvol := bvol g; bcen := bcen g; cb0 := cb0 g; cb1 := cb1 g; cd0 := cd0 g; cd1 := cd1 g; carea := carea g; cdir := cdir g; ccos := ccos g; cnad1 := cnad1 g; cnad2 := cnad2 g; rlist := rlist g; rdict := rdict g; blist := blist g; bdict := bdict g; clist := clist g; cdict := cdict g; next := v |}.

Definition empty : grid :=
  {| rname := fempty; bname := fempty; brock := fempty; bcn := fempty; bvol := fempty; bcen := fempty;
     cb0 := fempty; cb1 := fempty; cd0 := fempty; cd1 := fempty; carea := fempty; cdir := fempty; ccos := fempty;
     cnad1 := fempty; cnad2 := fempty;
     rlist := []; rdict := []; blist := []; bdict := []; clist := []; cdict := []; next := 1%positive |}.

(** attribute reads *)
Definition rn (g : grid) (j : id) : str := fget [] (rname g) j.
Definition bn (g : grid) (i : id) : str := fget [] (bname g) i.
Definition br (g : grid) (i : id) : id := fget 1%positive (brock g) i.
Definition cn (g : grid) (i : id) : list key2 := fget [] (bcn g) i.
Definition bv (g : grid) (i : id) : str := fget [] (bvol g) i.
Definition bc (g : grid) (i : id) : str := fget [] (bcen g) i.
Definition c0 (g : grid) (j : id) : id := fget 1%positive (cb0 g) j.
Definition c1 (g : grid) (j : id) : id := fget 1%positive (cb1 g) j.
Definition d0 (g : grid) (j : id) : str := fget [] (cd0 g) j.
Definition d1 (g : grid) (j : id) : str := fget [] (cd1 g) j.
Definition ar (g : grid) (j : id) : str := fget [] (carea g) j.
Definition di (g : grid) (j : id) : str := fget [] (cdir g) j.
Definition co (g : grid) (j : id) : str := fget [] (ccos g) j.
Definition n1 (g : grid) (j : id) : str := fget [] (cnad1 g) j.
Definition n2 (g : grid) (j : id) : str := fget [] (cnad2 g) j.
Definition ckey (g : grid) (j : id) : key2 := (bn g (c0 g j), bn g (c1 g j)).

Definition rget (g : grid) (n : str) : option id := aget str_eqb (rdict g) n.
Definition bget (g : grid) (n : str) : option id := aget str_eqb (bdict g) n.
Definition cget (g : grid) (k : key2) : option id := aget key2_eqb (cdict g) k.

(** ** building a grid: add_rocktype, add_block, add_connection (as in C08, with payload) *)
Definition add_rocktype (g : grid) (n : str) : res grid :=
  let j := next g in
  let g := set_next (set_rname g (fset (rname g) j n)) (Pos.succ j) in
  match rget g n with
  | Some old =>
      if mem old (rlist g)
      then Ok (set_rdict (set_rlist g (lreplace (rlist g) old j)) (aset str_eqb (rdict g) n j))
      else Raise ValueError
  | None => Ok (set_rdict (set_rlist g (rlist g ++ [j])) (aset str_eqb (rdict g) n j))
  end.

(** [grid.add_block(t2block(n, vol, grid.rocktype[rk], centre = cen))] *)
Definition add_block (g : grid) (n rk vol cen : str) : res grid :=
  match rget g rk with
  | None => Raise KeyError
  | Some r =>
      let i := next g in
      let g := set_next (set_bcen (set_bvol (set_bcn (set_brock (set_bname g (fset (bname g) i n)) (fset (brock g) i r))
                                                    (fset (bcn g) i [])) (fset (bvol g) i vol)) (fset (bcen g) i cen))
                        (Pos.succ i) in
      match bget g n with
      | Some old =>
          if mem old (blist g)
          then Ok (set_bdict (set_blist g (lreplace (blist g) old i)) (aset str_eqb (bdict g) n i))
          else Raise ValueError
      | None => Ok (set_bdict (set_blist g (blist g ++ [i])) (aset str_eqb (bdict g) n i))
      end
  end.

Definition cn_add (g : grid) (i : id) (k : key2) : grid := set_bcn g (fset (bcn g) i (set_add (cn g i) k)).
Definition cn_remove (g : grid) (i : id) (k : key2) : res grid :=
  if set_mem k (cn g i) then Ok (set_bcn g (fset (bcn g) i (set_del (cn g i) k))) else Raise KeyError.

Record cpay := { p_d0 : str; p_d1 : str; p_area : str; p_dir : str; p_cos : str; p_nad1 : str; p_nad2 : str }.
(** [grid.add_connection(t2connection([grid.block[a], grid.block[b]], dir, [d0, d1], area, cos, nad1=, nad2=))] *)
Definition add_connection (g : grid) (na nb : str) (p : cpay) : res grid :=
  match bget g na, bget g nb with
  | Some i0, Some i1 =>
      let j := next g in
      let g := set_cb1 (set_cb0 g (fset (cb0 g) j i0)) (fset (cb1 g) j i1) in
      let g := set_carea (set_cd1 (set_cd0 g (fset (cd0 g) j (p_d0 p))) (fset (cd1 g) j (p_d1 p))) (fset (carea g) j (p_area p)) in
      let g := set_ccos (set_cdir g (fset (cdir g) j (p_dir p))) (fset (ccos g) j (p_cos p)) in
      let g := set_next (set_cnad2 (set_cnad1 g (fset (cnad1 g) j (p_nad1 p))) (fset (cnad2 g) j (p_nad2 p))) (Pos.succ j) in
      let k := ckey g j in
      do g1 <- match cget g k with
               | Some old => if mem old (clist g) then Ok (set_clist g (lreplace (clist g) old j)) else Raise ValueError
               | None => Ok (set_clist g (clist g ++ [j]))
               end;
      let g2 := set_cdict g1 (aset key2_eqb (cdict g1) k j) in
      Ok (cn_add (cn_add g2 i0 k) i1 k)
  | _, _ => Raise KeyError
  end.

(** ** rename_blocks(blockmap, fix_blocknames = False) -- as in C08 *)
Definition mapname (m : list (str * str)) (n : str) : str :=
  match aget str_eqb m n with Some v => v | None => n end.
Definition map_key (m : list (str * str)) (k : key2) : key2 := (mapname m (fst k), mapname m (snd k)).
Definition set_of_list (l : list key2) : list key2 := fold_left set_add l [].
Fixpoint del_names (g : grid) (ids : list id) : res grid :=
  match ids with
  | [] => Ok g
  | i :: r =>
      match bget g (bn g i) with
      | None => Raise KeyError
      | Some _ => del_names (set_bdict g (adel str_eqb (bdict g) (bn g i))) r
      end
  end.
Definition rename_one (m : list (str * str)) (g : grid) (i : id) : grid :=
  let g1 := match aget str_eqb m (bn g i) with
            | Some nn => set_bname g (fset (bname g) i nn)
            | None => g
            end in
  set_bcn g1 (fset (bcn g1) i (set_of_list (map (map_key m) (cn g1 i)))).
Definition file_block (g : grid) (i : id) : grid := set_bdict g (aset str_eqb (bdict g) (bn g i) i).
Definition rebuild_cdict (g : grid) : grid :=
  set_cdict g (fold_left (fun acc j => aset key2_eqb acc (ckey g j) j) (clist g) []).
Definition in_blockmap (m : list (str * str)) (n : str) : bool :=
  match aget str_eqb m n with Some _ => true | None => false end.
Definition rename_blocks (g : grid) (m : list (str * str)) : res grid :=
  let renamed := filter (fun i => in_blockmap m (bn g i)) (blist g) in
  do g1 <- del_names g renamed;
  let g2 := fold_left (rename_one m) (blist g1) g1 in
  let g3 := fold_left file_block renamed g2 in
  Ok (rebuild_cdict g3).

(** ** reorder(block_names, connection_names) *)
Fixpoint lookup_blocks (g : grid) (ns : list str) : res (list id) :=
  match ns with
  | [] => Ok []
  | n :: r => match bget g n with
              | None => Raise KeyError
              | Some i => do l <- lookup_blocks g r; Ok (i :: l)
              end
  end.
(** the payload part of a reversal: [con.block = con.block[::-1]; con.distance = con.distance[::-1];
    if con.dircos is not None: con.dircos = -con.dircos; con.nad1, con.nad2 = con.nad2, con.nad1] *)
Definition flip_connection (g : grid) (j : id) : grid :=
  let g1 := set_cb1 (set_cb0 g (fset (cb0 g) j (c1 g j))) (fset (cb1 g) j (c0 g j)) in
  let g2 := set_cd1 (set_cd0 g1 (fset (cd0 g1) j (d1 g j))) (fset (cd1 g1) j (d0 g j)) in
  let g3 := set_ccos g2 (fset (ccos g2) j (neg_tok (co g j))) in
  set_cnad2 (set_cnad1 g3 (fset (cnad1 g3) j (n2 g j))) (fset (cnad2 g3) j (n1 g j)).
Definition reverse_connection (g : grid) (j : id) (orig names : key2) : res grid :=
  let g1 := flip_connection g j in
  do g2 <- cn_remove g1 (c0 g1 j) orig;
  let g3 := cn_add g2 (c0 g1 j) names in
  do g4 <- cn_remove g3 (c1 g1 j) orig;
  let g5 := cn_add g4 (c1 g1 j) names in
  Ok (set_cdict g5 (aset key2_eqb (adel key2_eqb (cdict g5) orig) names j)).
Fixpoint reorder_conns (g : grid) (ks : list key2) : res (grid * list id) :=
  match ks with
  | [] => Ok (g, [])
  | k :: r =>
      match cget g k with
      | Some j => do gl <- reorder_conns g r; Ok (fst gl, j :: snd gl)
      | None =>
          let orig := (snd k, fst k) in
          match cget g orig with
          | None => Raise PlainException
          | Some j => do g1 <- reverse_connection g j orig k;
                      do gl <- reorder_conns g1 r; Ok (fst gl, j :: snd gl)
          end
      end
  end.
Definition reorder (g : grid) (bns : list str) (cns : list key2) : res grid :=
  do g1 <- match bns with
           | [] => Ok g
           | _ => do l <- lookup_blocks g bns; Ok (set_blist g l)
           end;
  match cns with
  | [] => Ok g1
  | _ => do gl <- reorder_conns g1 cns; Ok (set_clist (fst gl) (snd gl))
  end.

Inductive op :=
  | AddRock (n : str) | AddBlock (n rk vol cen : str) | AddConn (a b : str) (p : cpay)
  | Rename (m : list (str * str)) | Reorder (bns : list str) (cns : list key2).
Definition step (g : grid) (o : op) : res grid :=
  match o with
  | AddRock n => add_rocktype g n
  | AddBlock n rk vol cen => add_block g n rk vol cen
  | AddConn a b p => add_connection g a b p
  | Rename m => rename_blocks g m
  | Reorder bns cns => reorder g bns cns
  end.
Fixpoint run (g : grid) (ops : list op) : res grid :=
  match ops with [] => Ok g | o :: r => do g1 <- step g o; run g1 r end.

(** ** the physics the grid describes, per object *)
(** a block: (name, volume, rock type name, centre) *)
Definition bsig (g : grid) (i : id) : str * str * str * str := (bn g i, bv g i, rn g (br g i), bc g i).
(** a connection: its two blocks with each block's own distance, then area, permeability direction,
    gravity cosine (oriented from the first block to the second), nad of each block *)
Record csig_t := { s_n0 : str; s_n1 : str; s_d0 : str; s_d1 : str; s_area : str; s_dir : str; s_cos : str;
                   s_nad0 : str; s_nad1 : str }.
Definition csig (g : grid) (j : id) : csig_t :=
  {| s_n0 := bn g (c0 g j); s_n1 := bn g (c1 g j); s_d0 := d0 g j; s_d1 := d1 g j; s_area := ar g j; s_dir := di g j;
     s_cos := co g j; s_nad0 := n1 g j; s_nad1 := n2 g j |}.
(** the same physical connection listed with its two blocks swapped *)
Definition swap_sig (s : csig_t) : csig_t :=
  {| s_n0 := s_n1 s; s_n1 := s_n0 s; s_d0 := s_d1 s; s_d1 := s_d0 s; s_area := s_area s; s_dir := s_dir s;
     s_cos := neg_tok (s_cos s); s_nad0 := s_nad1 s; s_nad1 := s_nad0 s |}.
