(** C09 -- how many blocks and connections minc() adds: exactly (number of fractions - 1) matrix blocks and as many
    nested connections per processed block, nothing else; and the refusal on an empty selection. *)
From Coq Require Import Ascii String List Bool PArith NArith ZArith QArith FMapPositive Lia.
From PTBase Require Import Exn PyStr.
From P Require Import Assoc GridPhys MincModel MincLemmas MincProofs MincThms MincBuild.
Import ListNotations.
Open Scope list_scope.

Lemma length_flat_map_const {A B} (F : A -> list B) c l : (forall x, In x l -> length (F x) = c) ->
  length (flat_map F l) = (length l * c)%nat.
Proof.
  induction l as [|a r IH]; cbn [flat_map length]; intro H; [reflexivity|].
  rewrite app_length, (H a (or_introl eq_refl)), IH by (intros; apply H; right; assumption). lia.
Qed.

Theorem minc_counts mbname mrname dd aa atm h t fr blocks h' t' : wf h t ->
  NoDup (selection h t blocks) -> (forall n, In n (selection h t blocks) -> tbget t n <> None) ->
  minc mbname mrname dd aa atm h t fr blocks = Ok (h', t') ->
  let np := length (processed_names atm h t (selection h t blocks)) in
  length (t_bl t') = (length (t_bl t) + np * (length fr - 1))%nat /\
  length (t_cl t') = (length (t_cl t) + np * (length fr - 1))%nat.
Proof.
  intros W ND Hsel E. cbv zeta.
  destruct (minc_lists mbname mrname dd aa atm h t fr blocks h' t' W ND Hsel E) as [_ [Sb Sc]]. cbv zeta in Sb, Sc.
  assert (Ln : length (normalise fr) = length fr) by (unfold normalise; apply map_length).
  assert (P : forall n, In n (processed_names atm h t (selection h t blocks)) -> exists i, tbget t n = Some i).
  { intros n Hn. unfold processed_names in Hn. apply filter_In in Hn. destruct Hn as [_ Pn]. unfold proc in Pn.
    destruct (tbget t n) as [i|]; [exists i; reflexivity|discriminate]. }
  split.
  - apply (f_equal (@length _)) in Sb. rewrite map_length, app_length, map_length in Sb. rewrite Sb. f_equal.
    apply length_flat_map_const. intros n Hn. destruct (P n Hn) as [i Tn]. unfold matrix_level_sigs. rewrite Tn.
    rewrite map_length, seq_length, Ln. reflexivity.
  - apply (f_equal (@length _)) in Sc. rewrite map_length, app_length, map_length in Sc. rewrite Sc. f_equal.
    apply length_flat_map_const. intros n Hn. destruct (P n Hn) as [i Tn]. unfold chain_level_sigs. rewrite Tn.
    rewrite map_length, seq_length, Ln. reflexivity.
Qed.

(** minc() on an empty selection (an empty grid with blocks=None) raises IndexError ([blocks[0]]) once the fraction
    count is accepted *)
Theorem minc_empty_selection mbname mrname dd aa atm h t fr blocks : (2 <= length fr)%nat ->
  selection h t blocks = [] -> minc mbname mrname dd aa atm h t fr blocks = Raise IndexError.
Proof.
  intros L S. unfold minc. destruct (Nat.ltb_spec (length fr) 2); [lia|]. rewrite S. reflexivity.
Qed.

Example minc_counts_instance :
  length (processed_names ex_atm ex_h ex_t (selection ex_h ex_t [])) = 2%nat /\
  length (t_bl ex_t) = 3%nat /\ length (t_bl ex_t') = 5%nat /\ length (t_cl ex_t) = 2%nat /\ length (t_cl ex_t') = 4%nat /\
  selection heap0 tabs0 [] = [].
Proof. repeat split; vm_compute; reflexivity. Qed.
