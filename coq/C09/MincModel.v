(** C09 -- executable model of t2grid.minc, t2grid.__add__ and t2grid.embed (t2grids.py), with
    block volumes, connection distances and areas as exact rationals.

    Objects (rocktype, t2block, t2connection) are ids into a heap of records; a t2grid is its six
    containers (three lists, three insertion-ordered dictionaries) over that heap, so that two grids
    can share objects exactly as [self + subgrid] does in Python.  Every method follows the statement
    order of t2grids.py; exceptions are results.

    What is abstract: the MINC geometry (proximity function, its inversion by scipy bisect, the
    nested connection distances d[0..L-1] and interface areas per unit volume a[0..L-2]) enters as
    the Section variables [dd], [aa]: the code computes them once, before the loop over blocks, from
    (volume_fractions, spacing, num_fracture_planes, proximity) only, and then uses nothing else of
    the geometry.  The naming functions matrix_blockname / minc_rockname are Section variables too
    (the defaults are instantiated in Drv.v). *)
From Coq Require Import Ascii String List Bool PArith NArith ZArith QArith FMapPositive Lia.
From PTBase Require Import Exn PyStr.
From P Require Import Assoc GridPhys.
Import ListNotations.
Open Scope list_scope.

(** * the heap of objects *)
Record rockrec := { x_name : str; x_nad : str; x_props : str; x_rest : str }.
Record blkrec := { k_name : str; k_vol : Q; k_rock : id; k_cen : str; k_cn : list key2 }.
Record conrec := { o_b0 : id; o_b1 : id; o_d0 : Q; o_d1 : Q; o_area : Q; o_dir : str; o_cos : str }.
Definition rock0 : rockrec := {| x_name := []; x_nad := []; x_props := []; x_rest := [] |}.
Definition blk0 : blkrec := {| k_name := []; k_vol := 0; k_rock := 1%positive; k_cen := []; k_cn := [] |}.
Definition con0 : conrec := {| o_b0 := 1%positive; o_b1 := 1%positive; o_d0 := 0; o_d1 := 0; o_area := 0; o_dir := []; o_cos := [] |}.

Record heap := { hrock : fmap rockrec; hblk : fmap blkrec; hcon : fmap conrec; hnext : id }.
Definition heap0 : heap := {| hrock := fempty; hblk := fempty; hcon := fempty; hnext := 1%positive |}.

Definition rk (h : heap) (j : id) : rockrec := fget rock0 (hrock h) j.
Definition bk (h : heap) (i : id) : blkrec := fget blk0 (hblk h) i.
Definition cx (h : heap) (j : id) : conrec := fget con0 (hcon h) j.
Definition kname (h : heap) (i : id) : str := k_name (bk h i).
Definition kvol (h : heap) (i : id) : Q := k_vol (bk h i).
Definition okey (h : heap) (j : id) : key2 := (kname h (o_b0 (cx h j)), kname h (o_b1 (cx h j))).

(** object creation: the new object gets the next id *)
Definition alloc_rock (h : heap) (r : rockrec) : heap :=
  {| hrock := fset (hrock h) (hnext h) r; hblk := hblk h; hcon := hcon h; hnext := Pos.succ (hnext h) |}.
Definition alloc_blk (h : heap) (b : blkrec) : heap :=
  {| hrock := hrock h; hblk := fset (hblk h) (hnext h) b; hcon := hcon h; hnext := Pos.succ (hnext h) |}.
Definition alloc_con (h : heap) (c : conrec) : heap :=
  {| hrock := hrock h; hblk := hblk h; hcon := fset (hcon h) (hnext h) c; hnext := Pos.succ (hnext h) |}.
(** attribute assignment *)
Definition set_blk (h : heap) (i : id) (b : blkrec) : heap :=
  {| hrock := hrock h; hblk := fset (hblk h) i b; hcon := hcon h; hnext := hnext h |}.
Definition set_con (h : heap) (j : id) (c : conrec) : heap :=
  {| hrock := hrock h; hblk := hblk h; hcon := fset (hcon h) j c; hnext := hnext h |}.
Definition with_vol (b : blkrec) (v : Q) : blkrec :=
  {| k_name := k_name b; k_vol := v; k_rock := k_rock b; k_cen := k_cen b; k_cn := k_cn b |}.
Definition with_rock (b : blkrec) (r : id) : blkrec :=
  {| k_name := k_name b; k_vol := k_vol b; k_rock := r; k_cen := k_cen b; k_cn := k_cn b |}.
Definition with_cn (b : blkrec) (s : list key2) : blkrec :=
  {| k_name := k_name b; k_vol := k_vol b; k_rock := k_rock b; k_cen := k_cen b; k_cn := s |}.
Definition with_ends (c : conrec) (i0 i1 : id) : conrec :=
  {| o_b0 := i0; o_b1 := i1; o_d0 := o_d0 c; o_d1 := o_d1 c; o_area := o_area c; o_dir := o_dir c; o_cos := o_cos c |}.

(** * a grid: rocktypelist / rocktype, blocklist / block, connectionlist / connection *)
Record tabs := { t_rl : list id; t_rd : list (str * id); t_bl : list id; t_bd : list (str * id);
                 t_cl : list id; t_cd : list (key2 * id) }.
Definition tabs0 : tabs := {| t_rl := []; t_rd := []; t_bl := []; t_bd := []; t_cl := []; t_cd := [] |}.
Definition with_r (t : tabs) rl rd : tabs :=
  {| t_rl := rl; t_rd := rd; t_bl := t_bl t; t_bd := t_bd t; t_cl := t_cl t; t_cd := t_cd t |}.
Definition with_b (t : tabs) bl bd : tabs :=
  {| t_rl := t_rl t; t_rd := t_rd t; t_bl := bl; t_bd := bd; t_cl := t_cl t; t_cd := t_cd t |}.
Definition with_c (t : tabs) cl cd : tabs :=
  {| t_rl := t_rl t; t_rd := t_rd t; t_bl := t_bl t; t_bd := t_bd t; t_cl := cl; t_cd := cd |}.

Definition trget (t : tabs) (n : str) : option id := aget str_eqb (t_rd t) n.
Definition tbget (t : tabs) (n : str) : option id := aget str_eqb (t_bd t) n.
Definition tcget (t : tabs) (k : key2) : option id := aget key2_eqb (t_cd t) k.

(** [add_rocktype(obj)], [add_block(obj)], [add_connection(obj)]: an existing entry of the same name is
    replaced at its list position ([list.index] raises ValueError when the filed object is not listed) *)
Definition qadd_rocktype (h : heap) (t : tabs) (j : id) : res tabs :=
  let n := x_name (rk h j) in
  match trget t n with
  | Some old => if mem old (t_rl t) then Ok (with_r t (lreplace (t_rl t) old j) (aset str_eqb (t_rd t) n j))
                else Raise ValueError
  | None => Ok (with_r t (t_rl t ++ [j]) (aset str_eqb (t_rd t) n j))
  end.
Definition qadd_block (h : heap) (t : tabs) (i : id) : res tabs :=
  let n := kname h i in
  match tbget t n with
  | Some old => if mem old (t_bl t) then Ok (with_b t (lreplace (t_bl t) old i) (aset str_eqb (t_bd t) n i))
                else Raise ValueError
  | None => Ok (with_b t (t_bl t ++ [i]) (aset str_eqb (t_bd t) n i))
  end.
Definition cn_add (h : heap) (i : id) (k : key2) : heap := set_blk h i (with_cn (bk h i) (set_add (k_cn (bk h i)) k)).
Definition qadd_connection (h : heap) (t : tabs) (j : id) : res (heap * tabs) :=
  let k := okey h j in
  do cl <- match tcget t k with
           | Some old => if mem old (t_cl t) then Ok (lreplace (t_cl t) old j) else Raise ValueError
           | None => Ok (t_cl t ++ [j])
           end;
  let t1 := with_c t cl (aset key2_eqb (t_cd t) k j) in
  let h1 := cn_add h (o_b0 (cx h j)) k in
  let h2 := cn_add h1 (o_b1 (cx h j)) k in
  Ok (h2, t1).

(** * exact arithmetic helpers *)
Definition sumQ (l : list Q) : Q := fold_right Qplus 0 l.
Definition qltb (x y : Q) : bool := negb (Qle_bool y x).
Definition total_volume (h : heap) (t : tabs) : Q := sumQ (map (kvol h) (t_bl t)).

(** * minc(volume_fractions, spacing, num_fracture_planes, blocks, matrix_blockname, minc_rockname,
                proximity, atmos_volume)  -- incon = None *)
Definition default_rest : str := s2l "dflt".
Section MincModel.
  Variable mbname : str -> nat -> str.     (* matrix_blockname(blkname, level), level > 0 *)
  Variable mrname : str -> nat -> str.     (* minc_rockname(rockname, level), level >= 0 *)
  Variable dd : nat -> Q.                  (* d[m]: nested connection distances *)
  Variable aa : nat -> Q.                  (* a[m]: interface area per unit original volume *)
  Variable atm : Q.                        (* atmos_volume *)

  (** [duplicate_rock(newrockname, r)]: rocktype(newrockname, 0, r.density, r.porosity, r.permeability,
      r.conductivity, r.specific_heat) is added unless the name is already registered; the other
      attributes of the new rock type are the constructor defaults *)
  Definition duplicate_rock (h : heap) (t : tabs) (newname : str) (r : id) : res (heap * tabs) :=
    match trget t newname with
    | Some _ => Ok (h, t)
    | None =>
        let j := hnext h in
        let h1 := alloc_rock h {| x_name := newname; x_nad := s2l "0"; x_props := x_props (rk h r); x_rest := default_rest |} in
        do t1 <- qadd_rocktype h1 t j; Ok (h1, t1)
    end.

  (** one pass of [for vf in volume_fractions[1:]] with [m] already incremented *)
  Definition minc_level (blkname : str) (blk : id) (V : Q) (orock : id) (h : heap) (t : tabs) (last : id) (m : nat) (vf : Q)
    : res (heap * tabs * id) :=
    let mrockname := mrname (x_name (rk h orock)) m in
    do s1 <- duplicate_rock h t mrockname orock;
    let h1 := fst s1 in let t1 := snd s1 in
    let mblockname := mbname blkname m in
    match tbget t1 mblockname with
    | Some _ => Raise PlainException                         (* "Duplicate MINC matrix block name" *)
    | None =>
        match trget t1 mrockname with
        | None => Raise KeyError
        | Some rj =>
            let i := hnext h1 in
            let h2 := alloc_blk h1 {| k_name := mblockname; k_vol := V * vf; k_rock := rj; k_cen := k_cen (bk h1 blk); k_cn := [] |} in
            do t2 <- qadd_block h2 t1 i;
            let j := hnext h2 in
            let h3 := alloc_con h2 {| o_b0 := last; o_b1 := i; o_d0 := dd (m - 1); o_d1 := dd m; o_area := V * aa (m - 1);
                                      o_dir := s2l "1"; o_cos := s2l "None" |} in
            do s4 <- qadd_connection h3 t2 j;
            Ok (fst s4, snd s4, i)
        end
    end.
  Fixpoint minc_levels (blkname : str) (blk : id) (V : Q) (orock : id) (h : heap) (t : tabs) (last : id) (m : nat) (vfs : list Q)
    : res (heap * tabs) :=
    match vfs with
    | [] => Ok (h, t)
    | vf :: r => do s <- minc_level blkname blk V orock h t last (S m) vf;
                 minc_levels blkname blk V orock (fst (fst s)) (snd (fst s)) (snd s) (S m) r
    end.

  (** the body of [for blk_index, blkname in enumerate(blocks)]; [vfs] are the normalised fractions *)
  Definition minc_block (vfs : list Q) (h : heap) (t : tabs) (blkname : str) : res (heap * tabs) :=
    match tbget t blkname with
    | None => Raise KeyError
    | Some blk =>
        let V := kvol h blk in
        if qltb 0 V && qltb V atm then
          let h1 := set_blk h blk (with_vol (bk h blk) (V * nth 0 vfs 0)) in
          let orock := k_rock (bk h1 blk) in
          do s <- minc_levels blkname blk V orock h1 t blk 0 (tl vfs);
          let frn := mrname (x_name (rk (fst s) orock)) 0 in
          do s2 <- duplicate_rock (fst s) (snd s) frn orock;
          match trget (snd s2) frn with
          | None => Raise KeyError
          | Some rj => Ok (set_blk (fst s2) blk (with_rock (bk (fst s2) blk) rj), snd s2)
          end
        else Ok (h, t)
    end.
  Fixpoint minc_blocks (vfs : list Q) (h : heap) (t : tabs) (blocks : list str) : res (heap * tabs) :=
    match blocks with
    | [] => Ok (h, t)
    | n :: r => do s <- minc_block vfs h t n; minc_blocks vfs (fst s) (snd s) r
    end.

  (** [volume_fractions /= np.sum(volume_fractions)] *)
  Definition normalise (fr : list Q) : list Q := map (fun f => f / sumQ fr) fr.
  (** [blocks] is the list of names after [blocks = [blk.name for blk in self.blocklist]] (None / []) and
      the conversion of block objects to names *)
  Definition selection (h : heap) (t : tabs) (blocks : list str) : list str :=
    match blocks with [] => map (kname h) (t_bl t) | _ => blocks end.
  Definition minc (h : heap) (t : tabs) (fr : list Q) (blocks : list str) : res (heap * tabs) :=
    if (length fr <? 2)%nat then Raise PlainException
    else match selection h t blocks with
         | [] => Raise IndexError                            (* blocks[0] on an empty grid *)
         | sel => minc_blocks (normalise fr) h t sel
         end.
End MincModel.

(** * __add__ and embed *)
Fixpoint add_rocktypes (h : heap) (t : tabs) (l : list id) : res tabs :=
  match l with [] => Ok t | j :: r => do t1 <- qadd_rocktype h t j; add_rocktypes h t1 r end.
Fixpoint add_blocks (h : heap) (t : tabs) (l : list id) : res tabs :=
  match l with [] => Ok t | i :: r => do t1 <- qadd_block h t i; add_blocks h t1 r end.
Fixpoint add_connections (h : heap) (t : tabs) (l : list id) : res (heap * tabs) :=
  match l with [] => Ok (h, t) | j :: r => do s <- qadd_connection h t j; add_connections (fst s) (snd s) r end.
(** one pass of [for grid in [self, other]] *)
Definition add_grid (h : heap) (result g : tabs) : res (heap * tabs) :=
  do t1 <- add_rocktypes h result (t_rl g);
  do t2 <- add_blocks h t1 (t_bl g);
  add_connections h t2 (t_cl g).
Definition grid_add (h : heap) (a b : tabs) : res (heap * tabs) :=
  do s <- add_grid h tabs0 a; add_grid (fst s) (snd s) b.

Definition names_of (h : heap) (l : list id) : list str := map (kname h) l.
Definition common_name (h : heap) (a b : tabs) : bool :=
  existsb (fun n => existsb (str_eqb n) (names_of h (t_bl b))) (names_of h (t_bl a)).

(** [self.embed(subgrid, connection)]: [None] when the host block is too small or a block name is in
    both grids; otherwise the sum of the grids plus the connection, the sub-grid volume taken out of
    the block of the result that carries the host block's name *)
Definition embed (h : heap) (self sub : tabs) (cj : id) : res (heap * option tabs) :=
  let subvol := sumQ (map (kvol h) (t_bl sub)) in
  let host := o_b0 (cx h cj) in
  if qltb subvol (kvol h host) then
    if common_name h self sub then Ok (h, None)
    else
      do s <- grid_add h self sub;
      let h1 := fst s in let r := snd s in
      match tbget r (kname h1 (o_b0 (cx h1 cj))), tbget r (kname h1 (o_b1 (cx h1 cj))) with
      | Some i0, Some i1 =>
          let h2 := set_con h1 cj (with_ends (cx h1 cj) i0 i1) in
          do s3 <- qadd_connection h2 r cj;
          let h3 := fst s3 in let r3 := snd s3 in
          match tbget r3 (kname h3 host) with
          | None => Raise KeyError
          | Some ih => Ok (set_blk h3 ih (with_vol (bk h3 ih) (kvol h3 ih - subvol)), Some r3)
          end
      | _, _ => Raise KeyError
      end
  else Ok (h, None).

(** * the physics read off the model *)
(** a block: (name, volume, rock type name, centre) *)
Definition qbsig (h : heap) (i : id) : str * Q * str * str :=
  (kname h i, kvol h i, x_name (rk h (k_rock (bk h i))), k_cen (bk h i)).
(** a connection: the names of its two blocks in order, each block's distance, area, direction, cosine *)
Definition qcsig (h : heap) (j : id) : str * str * Q * Q * Q * str * str :=
  (kname h (o_b0 (cx h j)), kname h (o_b1 (cx h j)), o_d0 (cx h j), o_d1 (cx h j), o_area (cx h j), o_dir (cx h j), o_cos (cx h j)).
