(** C09 -- extraction of the payload-carrying grid model for the correspondence run.

    One case per line, fields separated by TAB:
      field 0      [F<k>] (full dump) or [H<k>] (Adler-32 of the dump); the first [k] steps are not printed;
      field i>0    one step: [ar,N] [ab,N,R,VOL,CEN] [ac,A,B,D0,D1,AREA,DIR,COS,NAD1,NAD2]
                   [rn,K1,V1,...] [ro,N,...;A1,B1,...]   (every token hex-encoded).
    Result: the physics dumps after each printed step joined by [|]; [E:<exception>] ends the case. *)
From Coq Require Import Ascii String List Bool PArith NArith FMapPositive.
From PTBase Require Import Exn PyStr PyNum PyVal Wire.
From P Require Import Assoc GridPhys.
Import ListNotations.
Open Scope list_scope.

Fixpoint joinw (sep : str) (l : list str) : str :=
  match l with [] => [] | [a] => a | a :: r => a ++ sep ++ joinw sep r end.

(** blocks and connections in list order, each with its payload, plus the dictionary keys in order *)
Definition observe (g : grid) : str :=
  let sl := s2l "/" in let comma := s2l "," in
  s2l "B:" ++ joinw comma (map (fun i => bn g i ++ sl ++ bv g i ++ sl ++ rn g (br g i) ++ sl ++ bc g i) (blist g)) ++
  s2l ";C:" ++ joinw comma (map (fun j => bn g (c0 g j) ++ s2l "~" ++ bn g (c1 g j) ++ sl ++ d0 g j ++ sl ++ d1 g j ++ sl ++ ar g j ++ sl ++
                                         di g j ++ sl ++ co g j ++ sl ++ n1 g j ++ sl ++ n2 g j) (clist g)) ++
  s2l ";BD:" ++ joinw comma (map (fun kv => fst kv ++ s2l "=" ++ bn g (snd kv)) (bdict g)) ++
  s2l ";CD:" ++ joinw comma (map (fun kv => fst (fst kv) ++ s2l "~" ++ snd (fst kv) ++ s2l "=" ++ bn g (c0 g (snd kv)) ++ s2l "~" ++ bn g (c1 g (snd kv))) (cdict g)).

Definition adler (s : str) : N * N :=
  fold_left (fun (ab : N * N) c =>
               let a := (fst ab + N_of_ascii c)%N in
               let a := if (65521 <=? a)%N then (a - 65521)%N else a in
               let b := (snd ab + a)%N in
               let b := if (65521 <=? b)%N then (b - 65521)%N else b in (a, b)) s (1%N, 0%N).
Definition show_adler (s : str) : str := let ab := adler s in show_n (fst ab) ++ s2l "." ++ show_n (snd ab).

Fixpoint pairs (l : list str) : list (str * str) :=
  match l with a :: b :: r => (a, b) :: pairs r | _ => [] end.
Definition comma_c : ascii := ",".
Definition semi_c : ascii := ";".
Definition names_of (l : list str) : list str :=
  match l with [[]] => [] | _ => map unhex l end.
Definition parse_op (f : str) : option op :=
  match split_c semi_c f with
  | [p0; p1] =>
      match split_c comma_c p0 with
      | k :: bns => if str_eqb k (s2l "ro")
                    then Some (Reorder (names_of bns) (pairs (names_of (split_c comma_c p1))))
                    else None
      | [] => None
      end
  | [p0] =>
      match split_c comma_c p0 with
      | k :: args =>
          let a := names_of args in
          if str_eqb k (s2l "ar") then match a with [n] => Some (AddRock n) | _ => None end
          else if str_eqb k (s2l "ab") then match a with [n; r; v; c] => Some (AddBlock n r v c) | _ => None end
          else if str_eqb k (s2l "ac") then
            match a with
            | [x; y; e0; e1; ea; ed; ec; m1; m2] =>
                Some (AddConn x y {| p_d0 := e0; p_d1 := e1; p_area := ea; p_dir := ed; p_cos := ec; p_nad1 := m1; p_nad2 := m2 |})
            | _ => None
            end
          else if str_eqb k (s2l "rn") then Some (Rename (pairs a))
          else None
      | [] => None
      end
  | _ => None
  end.
Fixpoint parse_ops (fs : list str) : option (list op) :=
  match fs with
  | [] => Some []
  | f :: r => match parse_op f, parse_ops r with Some o, Some l => Some (o :: l) | _, _ => None end
  end.

Fixpoint exec (hash : bool) (g : grid) (ops : list op) (skip : nat) : list str :=
  match ops with
  | [] => []
  | o :: r =>
      match step g o with
      | Raise e => [s2l "E:" ++ show_exn e]
      | Ok g1 =>
          match skip with
          | S k => exec hash g1 r k
          | O => (if hash then show_adler (observe g1) else observe g1) :: exec hash g1 r O
          end
      end
  end.

Definition run_case (line : str) : str :=
  match fields line with
  | (m :: kdigits) :: fs =>
      match parse_ops fs with
      | Some ops =>
          if ceqb m "F" then joinw (s2l "|") (exec false empty ops (nat_of_str kdigits))
          else if ceqb m "H" then joinw (s2l "|") (exec true empty ops (nat_of_str kdigits))
          else s2l "BADCASE"
      | None => s2l "BADCASE"
      end
  | _ => s2l "BADCASE"
  end.

Require Extraction.
Require Import ExtrOcamlBasic ExtrOcamlString.
Extraction "Drv.ml" run_case.
