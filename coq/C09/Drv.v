(** C09 -- extraction of the payload-carrying grid model for the correspondence run.

    One case per line, fields separated by TAB:
      field 0      [F<k>] (full dump) or [H<k>] (Adler-32 of the dump); the first [k] steps are not printed;
      field i>0    one step: [ar,N] [ab,N,R,VOL,CEN] [ac,A,B,D0,D1,AREA,DIR,COS,NAD1,NAD2]
                   [rn,K1,V1,...] [ro,N,...;A1,B1,...]   (every token hex-encoded).
    Result: the physics dumps after each printed step joined by [|]; [E:<exception>] ends the case.

    MINC and embed (model MincModel.v, numbers as exact rationals [NUM:DEN]):
      field 0      [M] or [E]
      grid fields  [qr,NAME,NAD,PROPS,REST] [qb,NAME,VOL,ROCK,CEN] [qc,A,B,D0,D1,AREA,DIR,COS]  (strings hex-encoded)
      [M]: last field [mi;ATM;FR,...;NAME,...;D,...;A,...]  -> dump of the grid after minc, or [E:<exception>]
      [E]: grid fields of self, the field [sub], grid fields of the sub-grid (same heap), the field [loose], grid fields
           of block objects outside both grids, last field [em,HOST,INNER,D0,D1,AREA,DIR,COS,HS,IS] (HS = s|l: the host
           object is self's block or the loose one; IS = u|l likewise for the connecting block)
           -> [None] or the dump of the result, then [|] and the dump of self *)
From Coq Require Import Ascii String List Bool PArith NArith ZArith QArith FMapPositive.
From PTBase Require Import Exn PyStr PyNum PyVal Wire.
From P Require Import Assoc GridPhys MincModel MincBuild.
Import ListNotations.
Open Scope list_scope.

Fixpoint joinw (sep : str) (l : list str) : str :=
  match l with [] => [] | [a] => a | a :: r => a ++ sep ++ joinw sep r end.

(** blocks and connections in list order, each with its payload, plus the dictionary keys in order *)
Definition observe (g : grid) : str :=
  let sl := s2l "/" in let comma := s2l "," in
  s2l "B:" ++ joinw comma (map (fun i => bn g i ++ sl ++ bv g i ++ sl ++ rn g (br g i) ++ sl ++ bc g i) (blist g)) ++
  s2l ";C:" ++ joinw comma (map (fun j => bn g (c0 g j) ++ s2l "~" ++ bn g (c1 g j) ++ sl ++ d0 g j ++ sl ++ d1 g j ++ sl ++ ar g j ++ sl ++
                                         di g j ++ sl ++ co g j ++ sl ++ n1 g j ++ sl ++ n2 g j) (clist g)) ++
  s2l ";BD:" ++ joinw comma (map (fun kv => fst kv ++ s2l "=" ++ bn g (snd kv)) (bdict g)) ++
  s2l ";CD:" ++ joinw comma (map (fun kv => fst (fst kv) ++ s2l "~" ++ snd (fst kv) ++ s2l "=" ++ bn g (c0 g (snd kv)) ++ s2l "~" ++ bn g (c1 g (snd kv))) (cdict g)).

Definition adler (s : str) : N * N :=
  fold_left (fun (ab : N * N) c =>
               let a := (fst ab + N_of_ascii c)%N in
               let a := if (65521 <=? a)%N then (a - 65521)%N else a in
               let b := (snd ab + a)%N in
               let b := if (65521 <=? b)%N then (b - 65521)%N else b in (a, b)) s (1%N, 0%N).
Definition show_adler (s : str) : str := let ab := adler s in show_n (fst ab) ++ s2l "." ++ show_n (snd ab).

Fixpoint pairs (l : list str) : list (str * str) :=
  match l with a :: b :: r => (a, b) :: pairs r | _ => [] end.
Definition comma_c : ascii := ",".
Definition semi_c : ascii := ";".
Definition hexlist (l : list str) : list str :=
  match l with [[]] => [] | _ => map unhex l end.
Definition parse_op (f : str) : option op :=
  match split_c semi_c f with
  | [p0; p1] =>
      match split_c comma_c p0 with
      | k :: bns => if str_eqb k (s2l "ro")
                    then Some (Reorder (hexlist bns) (pairs (hexlist (split_c comma_c p1))))
                    else None
      | [] => None
      end
  | [p0] =>
      match split_c comma_c p0 with
      | k :: args =>
          let a := hexlist args in
          if str_eqb k (s2l "ar") then match a with [n] => Some (AddRock n) | _ => None end
          else if str_eqb k (s2l "ab") then match a with [n; r; v; c] => Some (AddBlock n r v c) | _ => None end
          else if str_eqb k (s2l "ac") then
            match a with
            | [x; y; e0; e1; ea; ed; ec; m1; m2] =>
                Some (AddConn x y {| p_d0 := e0; p_d1 := e1; p_area := ea; p_dir := ed; p_cos := ec; p_nad1 := m1; p_nad2 := m2 |})
            | _ => None
            end
          else if str_eqb k (s2l "rn") then Some (Rename (pairs a))
          else None
      | [] => None
      end
  | _ => None
  end.
Fixpoint parse_ops (fs : list str) : option (list op) :=
  match fs with
  | [] => Some []
  | f :: r => match parse_op f, parse_ops r with Some o, Some l => Some (o :: l) | _, _ => None end
  end.

Fixpoint exec (hash : bool) (g : grid) (ops : list op) (skip : nat) : list str :=
  match ops with
  | [] => []
  | o :: r =>
      match step g o with
      | Raise e => [s2l "E:" ++ show_exn e]
      | Ok g1 =>
          match skip with
          | S k => exec hash g1 r k
          | O => (if hash then show_adler (observe g1) else observe g1) :: exec hash g1 r O
          end
      end
  end.

(** ** MINC / embed cases *)
Definition colon_c : ascii := ":".
Definition q_of_str (s : str) : Q :=
  match split_c colon_c s with
  | [a; b] => Qmake (z_of_str a) (Z.to_pos (z_of_str b))
  | [a] => inject_Z (z_of_str a)
  | _ => 0%Q
  end.
Definition show_q (q : Q) : str := let r := Qred q in s2l "#" ++ show_z (Qnum r) ++ s2l ":" ++ show_z (Zpos (Qden r)).
Definition plain_list (l : list str) : list str := match l with [[]] => [] | _ => l end.

Definition parse_gop (f : str) : option gop :=
  match split_c comma_c f with
  | k :: args =>
      if str_eqb k (s2l "qr") then
        match args with [n; nad; pr; rest] => Some (GRock {| x_name := unhex n; x_nad := unhex nad; x_props := unhex pr; x_rest := unhex rest |}) | _ => None end
      else if str_eqb k (s2l "qb") then
        match args with [n; v; r; c] => Some (GBlock (unhex n) (q_of_str v) (unhex r) (unhex c)) | _ => None end
      else if str_eqb k (s2l "qc") then
        match args with
        | [a; b; e0; e1; ea; ed; ec] => Some (GConn (unhex a) (unhex b) (q_of_str e0) (q_of_str e1) (q_of_str ea) (unhex ed) (unhex ec))
        | _ => None
        end
      else None
  | [] => None
  end.
Fixpoint parse_gops (fs : list str) : option (list gop) :=
  match fs with
  | [] => Some []
  | f :: r => match parse_gop f, parse_gops r with Some o, Some l => Some (o :: l) | _, _ => None end
  end.

Definition qobserve (h : heap) (t : tabs) : str :=
  let sl := s2l "/" in let comma := s2l "," in let tl_ := s2l "~" in
  s2l "R:" ++ joinw comma (map (fun j => x_name (rk h j) ++ sl ++ x_nad (rk h j) ++ sl ++ x_props (rk h j) ++ sl ++ x_rest (rk h j)) (t_rl t)) ++
  s2l ";B:" ++ joinw comma (map (fun i => kname h i ++ sl ++ show_q (kvol h i) ++ sl ++ x_name (rk h (k_rock (bk h i))) ++ sl ++ k_cen (bk h i) ++ sl ++
                                         joinw (s2l "+") (map (fun k => fst k ++ tl_ ++ snd k) (k_cn (bk h i)))) (t_bl t)) ++
  s2l ";C:" ++ joinw comma (map (fun j => kname h (o_b0 (cx h j)) ++ tl_ ++ kname h (o_b1 (cx h j)) ++ sl ++ show_q (o_d0 (cx h j)) ++ sl ++
                                         show_q (o_d1 (cx h j)) ++ sl ++ show_q (o_area (cx h j)) ++ sl ++ o_dir (cx h j) ++ sl ++ o_cos (cx h j)) (t_cl t)) ++
  s2l ";RD:" ++ joinw comma (map (fun kv => fst kv ++ s2l "=" ++ x_name (rk h (snd kv))) (t_rd t)) ++
  s2l ";BD:" ++ joinw comma (map (fun kv => fst kv ++ s2l "=" ++ kname h (snd kv)) (t_bd t)) ++
  s2l ";CD:" ++ joinw comma (map (fun kv => fst (fst kv) ++ tl_ ++ snd (fst kv) ++ s2l "=" ++ kname h (o_b0 (cx h (snd kv))) ++ tl_ ++
                                          kname h (o_b1 (cx h (snd kv)))) (t_cd t)).

Fixpoint split_last (l : list str) : option (list str * str) :=
  match l with
  | [] => None
  | [a] => Some ([], a)
  | a :: r => match split_last r with Some (i, z) => Some (a :: i, z) | None => None end
  end.
Fixpoint split_at (mark : str) (l : list str) : list str * list str :=
  match l with
  | [] => ([], [])
  | a :: r => if str_eqb a mark then ([], r) else let p := split_at mark r in (a :: fst p, snd p)
  end.

Definition run_minc (fs : list str) : str :=
  match split_last fs with
  | Some (gfs, mf) =>
      match parse_gops gfs, split_c semi_c mf with
      | Some ops, [_; atm; frs; names; ds; as_] =>
          match grun heap0 tabs0 ops with
          | Raise e => s2l "E0:" ++ show_exn e
          | Ok s =>
              let dl := map q_of_str (plain_list (split_c comma_c ds)) in
              let al := map q_of_str (plain_list (split_c comma_c as_)) in
              match minc default_mbname default_mrname (fun m => nth m dl 0%Q) (fun m => nth m al 0%Q) (q_of_str atm) (fst s) (snd s)
                         (map q_of_str (plain_list (split_c comma_c frs))) (map unhex (plain_list (split_c comma_c names))) with
              | Raise e => s2l "E:" ++ show_exn e
              | Ok s' => qobserve (fst s') (snd s')
              end
          end
      | _, _ => s2l "BADCASE"
      end
  | None => s2l "BADCASE"
  end.

(** the connection handed to embed joins a host block object and a connecting block object: the grids' own
    blocks ([s] / [u]) or equal-named objects that belong to neither grid ([l]: built in the [loose] part, e.g.
    the blocks of an earlier in-memory instance of a grid that has since been written and read back) *)
Definition run_embed (fs : list str) : str :=
  match split_last fs with
  | Some (gfs, ef) =>
      let p := split_at (s2l "sub") gfs in
      let q := split_at (s2l "loose") (snd p) in
      match parse_gops (fst p), parse_gops (fst q), parse_gops (snd q), split_c comma_c ef with
      | Some ops1, Some ops2, Some ops3, [_; host; inner; e0; e1; ea; ed; ec; hs; is_] =>
          match grun heap0 tabs0 ops1 with
          | Raise e => s2l "E0:" ++ show_exn e
          | Ok s1 =>
              match grun (fst s1) tabs0 ops2 with
              | Raise e => s2l "E0:" ++ show_exn e
              | Ok s2 =>
                  match grun (fst s2) tabs0 ops3 with
                  | Raise e => s2l "E0:" ++ show_exn e
                  | Ok s3 =>
                      let self := snd s1 in let sub := snd s2 in let loose := snd s3 in let h2 := fst s3 in
                      match tbget (if str_eqb hs (s2l "l") then loose else self) (unhex host),
                            tbget (if str_eqb is_ (s2l "l") then loose else sub) (unhex inner) with
                      | Some i0, Some i1 =>
                          let cj := hnext h2 in
                          let h3 := alloc_con h2 {| o_b0 := i0; o_b1 := i1; o_d0 := q_of_str e0; o_d1 := q_of_str e1; o_area := q_of_str ea;
                                                    o_dir := unhex ed; o_cos := unhex ec |} in
                          match embed h3 self sub cj with
                          | Raise e => s2l "E:" ++ show_exn e
                          | Ok (h4, None) => s2l "None|" ++ qobserve h4 self
                          | Ok (h4, Some r) => qobserve h4 r ++ s2l "|" ++ qobserve h4 self
                          end
                      | _, _ => s2l "BADCASE"
                      end
                  end
              end
          end
      | _, _, _, _ => s2l "BADCASE"
      end
  | None => s2l "BADCASE"
  end.

Definition run_case (line : str) : str :=
  match fields line with
  | (m :: kdigits) :: fs =>
      if ceqb m "M" then run_minc fs
      else if ceqb m "E" then run_embed fs
      else
      match parse_ops fs with
      | Some ops =>
          if ceqb m "F" then joinw (s2l "|") (exec false empty ops (nat_of_str kdigits))
          else if ceqb m "H" then joinw (s2l "|") (exec true empty ops (nat_of_str kdigits))
          else s2l "BADCASE"
      | None => s2l "BADCASE"
      end
  | _ => s2l "BADCASE"
  end.

Require Extraction.
Require Import ExtrOcamlBasic ExtrOcamlString.
Extraction "Drv.ml" run_case.
