(** C09 -- the MINC theorems in their final form: the block list and the connection list after
    minc() characterised completely (fracture continuum, matrix continua, chain), the per-block volume
    split with exact rational arithmetic, and what is left untouched. *)
From Coq Require Import Ascii String List Bool PArith NArith ZArith QArith FMapPositive Lia.
From PTBase Require Import Exn PyStr.
From P Require Import Assoc GridPhys MincModel MincLemmas MincProofs.
Import ListNotations.
Open Scope list_scope.

(** * exact arithmetic *)
Lemma qltb_lt x y : qltb x y = true <-> (x < y)%Q.
Proof.
  unfold qltb. rewrite negb_true_iff. split.
  - intro H. apply Qnot_le_lt. intro L. apply Qle_bool_iff in L. congruence.
  - intro H. destruct (Qle_bool y x) eqn:E; [|reflexivity]. apply Qle_bool_iff in E. exfalso. exact (Qlt_not_le _ _ H E).
Qed.
Lemma in_range_iff atm v : in_range atm v = true <-> (0 < v)%Q /\ (v < atm)%Q.
Proof. unfold in_range. rewrite andb_true_iff, !qltb_lt. reflexivity. Qed.

Lemma sumQ_scale V S l : (sumQ (map (fun f => V * (f / S)) l) == V * (sumQ l / S))%Q.
Proof.
  induction l as [|a r IH]; cbn [map sumQ fold_right].
  - unfold Qdiv. ring.
  - change (fold_right Qplus 0 (map (fun f => V * (f / S)) r))%Q with (sumQ (map (fun f => V * (f / S)) r))%Q.
    change (fold_right Qplus 0 r)%Q with (sumQ r). rewrite IH. unfold Qdiv. ring.
Qed.
Lemma map_nth_seq {A B} (g : A -> B) (d : A) l : map (fun k => g (nth k l d)) (seq 0 (length l)) = map g l.
Proof.
  induction l as [|a r IH]; [reflexivity|]. cbn [length seq map nth]. f_equal.
  rewrite <- seq_shift, map_map. exact IH.
Qed.
(** the requested fractions of a volume add up to the volume *)
Lemma split_sums_to_whole V fr : ~ (sumQ fr == 0)%Q ->
  (sumQ (map (fun k => V * (nth k fr 0 / sumQ fr)) (seq 0 (length fr))) == V)%Q.
Proof.
  intro NZ. rewrite (map_nth_seq (fun f => V * (f / sumQ fr))%Q 0%Q fr), sumQ_scale.
  unfold Qdiv. rewrite Qmult_inv_r by exact NZ. ring.
Qed.
Lemma nth_normalise fr k : (k < length fr)%nat -> nth k (normalise fr) 0%Q = (nth k fr 0 / sumQ fr)%Q.
Proof.
  intro H. unfold normalise. rewrite (nth_indep _ 0%Q ((fun f => f / sumQ fr) 0)%Q) by (rewrite map_length; exact H).
  apply (map_nth (fun f => (f / sumQ fr)%Q)).
Qed.
Lemma nth_tl {A} k (l : list A) d : nth k (tl l) d = nth (S k) l d.
Proof. destruct l; [destruct k; reflexivity|reflexivity]. Qed.
Lemma NoDup_map_on {A B} (f : A -> B) l : NoDup l -> (forall x y, In x l -> In y l -> f x = f y -> x = y) -> NoDup (map f l).
Proof.
  induction l as [|a r IH]; cbn [map]; intros ND Inj; [constructor|]. inversion ND as [|? ? Na NDr]; subst. constructor.
  - intro H. apply in_map_iff in H. destruct H as [y [E Hy]]. apply Na. rewrite (Inj a y); [exact Hy|left; reflexivity|right; exact Hy|symmetry; exact E].
  - apply IH; [exact NDr|]. intros x y Hx Hy. apply Inj; right; assumption.
Qed.

Section MincTheorems.
  Variable mbname : str -> nat -> str.
  Variable mrname : str -> nat -> str.
  Variable dd : nat -> Q.
  Variable aa : nat -> Q.
  Variable atm : Q.

  (** the name of continuum [k] of block [n]: the block itself is the fracture continuum *)
  Definition cname (n : str) (k : nat) : str := match k with O => n | S _ => mbname n k end.

  (** ** the recursive descriptions of MincProofs.v, indexed by level *)
  Lemma msigs_seq n V rn cen r : forall m,
    msigs mbname mrname n V rn cen m r = map (fun k => (mbname n k, (V * nth (k - m) r 0)%Q, mrname rn k, cen)) (seq m (length r)).
  Proof.
    induction r as [|vf r IH]; intro m; [reflexivity|]. cbn [msigs length seq map]. rewrite Nat.sub_diag. cbn [nth]. f_equal.
    rewrite IH. apply map_ext_in. intros k Hk. apply in_seq in Hk. replace (k - m)%nat with (S (k - S m)) by lia. reflexivity.
  Qed.
  Lemma chain_seq n V r : forall m0,
    chain_from mbname dd aa n V (cname n m0) (S m0) r =
    map (fun k => (cname n (k - 1), cname n k, dd (k - 1)%nat, dd k, (V * aa (k - 1)%nat)%Q, s2l "1", s2l "None")) (seq (S m0) (length r)).
  Proof.
    induction r as [|vf r IH]; intro m0; [reflexivity|]. cbn [chain_from length seq map].
    replace (S m0 - 1)%nat with m0 by lia. f_equal. change (mbname n (S m0)) with (cname n (S m0)). apply IH.
  Qed.

  Definition matrix_level_sigs (vfs : list Q) (h : heap) (t : tabs) (n : str) : list (str * Q * str * str) :=
    match tbget t n with
    | Some i => map (fun k => (mbname n k, (kvol h i * nth k vfs 0)%Q, mrname (rockname h i) k, k_cen (bk h i))) (seq 1 (length vfs - 1))
    | None => []
    end.
  Definition chain_level_sigs (vfs : list Q) (h : heap) (t : tabs) (n : str) : list (str * str * Q * Q * Q * str * str) :=
    match tbget t n with
    | Some i => map (fun k => (cname n (k - 1), cname n k, dd (k - 1)%nat, dd k, (kvol h i * aa (k - 1)%nat)%Q, s2l "1", s2l "None"))
                    (seq 1 (length vfs - 1))
    | None => []
    end.
  Lemma length_tl {A} (l : list A) : length (tl l) = (length l - 1)%nat.
  Proof. destruct l; cbn; lia. Qed.
  Lemma matrix_sigs_levels vfs h t n : matrix_sigs mbname mrname vfs h t n = matrix_level_sigs vfs h t n.
  Proof.
    unfold matrix_sigs, matrix_level_sigs. destruct (tbget t n) as [i|]; [|reflexivity]. rewrite msigs_seq, length_tl.
    apply map_ext_in. intros k Hk. apply in_seq in Hk. rewrite nth_tl. replace (S (k - 1)) with k by lia. reflexivity.
  Qed.
  Lemma chain_sigs_levels vfs h t n : chain_sigs mbname dd aa vfs h t n = chain_level_sigs vfs h t n.
  Proof.
    unfold chain_sigs, chain_level_sigs. destruct (tbget t n) as [i|]; [|reflexivity].
    change n with (cname n 0) at 2. rewrite chain_seq, length_tl. reflexivity.
  Qed.

  (** ** minc() *)
  Definition processed_names (h : heap) (t : tabs) (sel : list str) : list str := filter (proc atm h t) sel.

  Lemma minc_unfold h t fr blocks h' t' : minc mbname mrname dd aa atm h t fr blocks = Ok (h', t') ->
    (2 <= length fr)%nat /\ minc_blocks mbname mrname dd aa atm (normalise fr) h t (selection h t blocks) = Ok (h', t').
  Proof.
    unfold minc. destruct (Nat.ltb_spec (length fr) 2) as [|L2]; [discriminate|]. intro HH. split; [exact L2|].
    destruct (selection h t blocks); [discriminate|exact HH].
  Qed.

  (** the whole block list afterwards: every original block in place (the processed ones carrying the
      fracture fraction and the level-0 rock name), then, per processed block in selection order, its matrix
      continua with their fractions of the ORIGINAL volume; the whole connection list afterwards: the old
      connections unchanged, then per processed block the chain fracture - matrix 1 - ... - innermost *)
  Theorem minc_lists h t fr blocks h' t' : wf h t ->
    NoDup (selection h t blocks) -> (forall n, In n (selection h t blocks) -> tbget t n <> None) ->
    minc mbname mrname dd aa atm h t fr blocks = Ok (h', t') ->
    let sel := selection h t blocks in let vfs := normalise fr in
    wf h' t' /\
    map (qbsig h') (t_bl t') = map (frac_sig mrname atm vfs h t sel) (t_bl t) ++
                               flat_map (matrix_level_sigs vfs h t) (processed_names h t sel) /\
    map (qcsig h') (t_cl t') = map (qcsig h) (t_cl t) ++ flat_map (chain_level_sigs vfs h t) (processed_names h t sel).
  Proof.
    intros W ND Hsel E. destruct (minc_unfold _ _ _ _ _ _ E) as [L2 B]. cbv zeta.
    destruct (blocks_spec mbname mrname dd aa atm (normalise fr) _ h t h' t' W ND Hsel B) as [W' [Sb [Sc _]]].
    split; [exact W'|]. split.
    - rewrite Sb. f_equal. apply flat_map_ext_in. intros; apply matrix_sigs_levels.
    - rewrite Sc. f_equal. apply flat_map_ext_in. intros; apply chain_sigs_levels.
  Qed.

  (** blocks that are not selected, or whose volume is outside 0 < V < atmos_volume, are the same records
      afterwards (connection_name set included); so is every connection and every rock type that existed *)
  Theorem minc_untouched_blocks h t fr blocks h' t' : wf h t ->
    NoDup (selection h t blocks) -> (forall n, In n (selection h t blocks) -> tbget t n <> None) ->
    minc mbname mrname dd aa atm h t fr blocks = Ok (h', t') ->
    (forall i, In i (t_bl t) -> ~ In (kname h i) (selection h t blocks) \/ ~ ((0 < kvol h i)%Q /\ (kvol h i < atm)%Q) -> bk h' i = bk h i) /\
    (forall j, In j (t_cl t) -> cx h' j = cx h j) /\
    (forall x, (x < hnext h)%positive -> rk h' x = rk h x).
  Proof.
    intros W ND Hsel E. destruct (minc_unfold _ _ _ _ _ _ E) as [L2 B].
    destruct (blocks_spec mbname mrname dd aa atm (normalise fr) _ h t h' t' W ND Hsel B) as [_ [_ [_ [Un [Uc Ur]]]]].
    split; [|split; assumption]. intros i Hi C. apply Un; [exact Hi|]. unfold touched. destruct C as [C|C].
    - rewrite (existsb_str_false _ _ C). reflexivity.
    - unfold proc. rewrite (wf_tbget_name _ _ _ W Hi). destruct (in_range atm (kvol h i)) eqn:IR; [|apply andb_false_r].
      exfalso. apply C. apply in_range_iff. exact IR.
  Qed.

  (** the volume of the block called [n] (0 when there is none) *)
  Definition vol_named (h : heap) (t : tabs) (n : str) : Q := match tbget t n with Some i => kvol h i | None => 0%Q end.
  Lemma vol_named_sig h t nm v r c : wf h t -> In (nm, v, r, c) (map (qbsig h) (t_bl t)) -> vol_named h t nm = v.
  Proof.
    intros W H. apply in_map_iff in H. destruct H as [x [E Hx]]. unfold qbsig in E. inversion E; subst.
    unfold vol_named. rewrite (wf_tbget_name _ _ _ W Hx). reflexivity.
  Qed.

  (** every processed block keeps its total volume, split among its continua in the requested fractions *)
  Theorem minc_split h t fr blocks h' t' : wf h t ->
    NoDup (selection h t blocks) -> (forall n, In n (selection h t blocks) -> tbget t n <> None) ->
    minc mbname mrname dd aa atm h t fr blocks = Ok (h', t') ->
    forall n i, In n (selection h t blocks) -> tbget t n = Some i -> (0 < kvol h i)%Q -> (kvol h i < atm)%Q ->
      (forall k, (k < length fr)%nat -> vol_named h' t' (cname n k) = (kvol h i * (nth k fr 0 / sumQ fr))%Q) /\
      (~ (sumQ fr == 0)%Q -> (sumQ (map (fun k => vol_named h' t' (cname n k)) (seq 0 (length fr))) == kvol h i)%Q).
  Proof.
    intros W ND Hsel E n i Hn Tn V0 V1. destruct (minc_lists h t fr blocks h' t' W ND Hsel E) as [W' [Sb _]].
    destruct (minc_unfold _ _ _ _ _ _ E) as [L2 _]. destruct (wf_tbget _ _ _ _ W Tn) as [Hi Kn].
    assert (IR : in_range atm (kvol h i) = true) by (apply in_range_iff; split; assumption).
    assert (P : proc atm h t n = true) by (unfold proc; rewrite Tn; exact IR).
    assert (Each : forall k, (k < length fr)%nat -> vol_named h' t' (cname n k) = (kvol h i * (nth k fr 0 / sumQ fr))%Q).
    { intros k Hk. rewrite <- (nth_normalise fr k Hk). destruct k as [|k].
      - cbn [cname]. eapply (vol_named_sig h' t' n _ _ _ W'). rewrite Sb. apply in_or_app. left.
        apply in_map_iff. exists i. split; [|exact Hi]. unfold frac_sig, touched. rewrite Kn, P.
        replace (existsb (str_eqb n) (selection h t blocks)) with true; [reflexivity|].
        symmetry. apply existsb_exists. exists n. split; [exact Hn|]. destruct (str_spec n n); congruence.
      - cbn [cname]. eapply (vol_named_sig h' t' (mbname n (S k)) _ _ _ W'). rewrite Sb. apply in_or_app. right.
        apply in_flat_map. exists n. split; [apply filter_In; split; assumption|].
        unfold matrix_level_sigs. rewrite Tn. apply in_map_iff. exists (S k). split; [reflexivity|].
        apply in_seq. unfold normalise. rewrite map_length. lia. }
    split; [exact Each|]. intro NZ.
    rewrite (map_ext_in _ (fun k => (kvol h i * (nth k fr 0 / sumQ fr))%Q)); [apply split_sums_to_whole; exact NZ|].
    intros k Hk. apply in_seq in Hk. apply Each. lia.
  Qed.

  (** with [blocks = None] (or []) the selection is the grid's own block list: the side conditions hold *)
  Lemma selection_all_ok h t : wf h t ->
    NoDup (selection h t []) /\ (forall n, In n (selection h t []) -> tbget t n <> None).
  Proof.
    intro W. cbn [selection]. split.
    - apply NoDup_map_on; [apply (wf_b _ _ W)|]. intros x y Hx Hy. apply (wf_name_inj _ _ _ _ W Hx Hy).
    - intros n H. apply in_map_iff in H. destruct H as [x [<- Hx]]. rewrite (wf_tbget_name _ _ _ W Hx). discriminate.
  Qed.
End MincTheorems.
