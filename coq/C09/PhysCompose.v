(** C09 -- compositions: after ANY finite sequence of reorder / rename_blocks calls every block keeps
    its volume, rock type and centre under the composed relabelling, and every connection keeps its
    signature up to that relabelling and to being listed with its two blocks swapped
    (induction over the call sequence). *)
From Coq Require Import Ascii String List Bool PArith NArith FMapPositive Permutation Lia.
From PTBase Require Import Exn PyStr.
From P Require Import Assoc GridPhys PhysLemmas PhysProofs.
Import ListNotations.
Open Scope list_scope.

(** * connection ends under the two edits *)
Lemma rename_ends g m g' : NoDup (blist g) -> rename_blocks g m = Ok g' -> c0 g' = c0 g /\ c1 g' = c1 g.
Proof.
  intros ND H. destruct (rename_blocks_shape g m g' ND H) as [X [Y [D [CD [-> _]]]]]. split; reflexivity.
Qed.

(** the ends of connection [x] are those of [g], possibly swapped *)
Definition ends_rel (g g' : grid) : Prop :=
  forall x, (c0 g' x = c0 g x /\ c1 g' x = c1 g x) \/ (c0 g' x = c1 g x /\ c1 g' x = c0 g x).
Lemma ends_rel_refl g : ends_rel g g. Proof. intro x. left. split; reflexivity. Qed.
Lemma ends_rel_trans g g1 g2 : ends_rel g g1 -> ends_rel g1 g2 -> ends_rel g g2.
Proof.
  intros A B x. destruct (A x) as [[A0 A1]|[A0 A1]], (B x) as [[B0 B1]|[B0 B1]]; rewrite B0, B1, A0, A1; [left|right|right|left]; split; reflexivity.
Qed.
Lemma reverse_connection_ends g j orig names g' : reverse_connection g j orig names = Ok g' -> ends_rel g g'.
Proof.
  unfold reverse_connection. cbv zeta. set (F := flip_connection g j). intro H.
  match type of H with context [cn_remove ?G ?i ?kk] => destruct (cn_remove G i kk) as [g2|] eqn:R2 end; cbn [bind] in H; [|discriminate].
  apply cn_remove_ok in R2. subst g2.
  match type of H with context [cn_remove ?G ?i ?kk] => destruct (cn_remove G i kk) as [g4|] eqn:R4 end; cbn [bind] in H; [|discriminate].
  apply cn_remove_ok in R4. subst g4. inversion H; subst g'; clear H.
  intro x. gs. unfold F. rewrite flip_c0, flip_c1. destruct (Pos.eqb_spec x j) as [->|N]; [right|left]; split; reflexivity.
Qed.
Lemma reorder_conns_ends ks : forall g g' l, reorder_conns g ks = Ok (g', l) -> ends_rel g g'.
Proof.
  induction ks as [|k r IH]; cbn [reorder_conns]; intros g g' l H.
  - inversion H; subst. apply ends_rel_refl.
  - destruct (cget g k) as [j|].
    + destruct (reorder_conns g r) as [[g1 l1]|] eqn:E; cbn [bind fst snd] in H; [|discriminate].
      inversion H; subst g' l. eapply IH; exact E.
    + destruct (cget g (snd k, fst k)) as [j|]; [|discriminate].
      destruct (reverse_connection g j (snd k, fst k) k) as [g0|] eqn:R; cbn [bind] in H; [|discriminate].
      destruct (reorder_conns g0 r) as [[g1 l1]|] eqn:E; cbn [bind fst snd] in H; [|discriminate].
      inversion H; subst g' l. eapply ends_rel_trans; [eapply reverse_connection_ends; exact R|eapply IH; exact E].
Qed.
Lemma reorder_ends g bns cns g' : reorder g bns cns = Ok g' -> ends_rel g g'.
Proof.
  unfold reorder. intro H.
  match type of H with bind ?B _ = _ => destruct B as [g1|] eqn:E1 end; cbn [bind] in H; [|discriminate].
  assert (R1 : ends_rel g g1).
  { destruct bns as [|b bs]; [inversion E1; subst; apply ends_rel_refl|].
    destruct (lookup_blocks g (b :: bs)) as [l|]; cbn [bind] in E1; [|discriminate]. inversion E1; subst g1. intro x. left. split; reflexivity. }
  destruct cns as [|c cs]; [inversion H; subst g'; exact R1|].
  destruct (reorder_conns g1 (c :: cs)) as [[g2 l]|] eqn:E2; cbn [bind fst snd] in H; [|discriminate].
  inversion H; subst g'; clear H. eapply ends_rel_trans; [exact R1|].
  eapply ends_rel_trans; [eapply reorder_conns_ends; exact E2|]. intro x. left. split; reflexivity.
Qed.

(** * relabelling by a function, repeated swaps *)
Definition relabel_f (f : str -> str) (s : csig_t) : csig_t :=
  {| s_n0 := f (s_n0 s); s_n1 := f (s_n1 s); s_d0 := s_d0 s; s_d1 := s_d1 s; s_area := s_area s;
     s_dir := s_dir s; s_cos := s_cos s; s_nad0 := s_nad0 s; s_nad1 := s_nad1 s |}.
Lemma relabel_is_f m s : relabel m s = relabel_f (mapname m) s. Proof. reflexivity. Qed.
Lemma swap_relabel_f f s : swap_sig (relabel_f f s) = relabel_f f (swap_sig s). Proof. reflexivity. Qed.
Fixpoint swaps (k : nat) (s : csig_t) : csig_t := match k with O => s | S k' => swap_sig (swaps k' s) end.
Lemma swaps_relabel_f f k s : swaps k (relabel_f f s) = relabel_f f (swaps k s).
Proof. induction k as [|k IH]; cbn [swaps]; [reflexivity|]. rewrite IH. apply swap_relabel_f. Qed.
Lemma swaps_add a b s : swaps (a + b) s = swaps a (swaps b s).
Proof. induction a as [|a IH]; cbn [Nat.add swaps]; [reflexivity|]. rewrite IH. reflexivity. Qed.
(** a gravity cosine token whose double negation is itself (the repr of a number, or None) *)
Definition cos_ok (c : str) : Prop := neg_tok (neg_tok c) = c.
Lemma swap_swap s : cos_ok (s_cos s) -> swap_sig (swap_sig s) = s.
Proof. intro H. destruct s. unfold swap_sig. cbn in *. unfold cos_ok in H. cbn in H. rewrite H. reflexivity. Qed.
Lemma cos_ok_neg c : cos_ok c -> cos_ok (neg_tok c).
Proof. unfold cos_ok. intro H. rewrite H. reflexivity. Qed.
Lemma swaps_two_way k s : cos_ok (s_cos s) -> swaps k s = s \/ swaps k s = swap_sig s.
Proof.
  intro H. induction k as [|k IH]; cbn [swaps]; [left; reflexivity|].
  destruct IH as [->| ->]; [right; reflexivity|left; apply swap_swap; exact H].
Qed.

(** * sequences of edits *)
(** a rename map that is one-to-one on the names of the grid's blocks *)
Definition inj_on (g : grid) (m : list (str * str)) : Prop :=
  forall i i', In i (blist g) -> In i' (blist g) -> mapname m (bn g i) = mapname m (bn g i') -> bn g i = bn g i'.
(** the admissible calls: rename_blocks with a one-to-one map; reorder naming every block and every
    connection exactly once (the connections in either orientation) *)
Definition pre (g : grid) (o : op) : Prop :=
  match o with
  | Rename m => inj_on g m
  | Reorder bns cns => forall g', reorder g bns cns = Ok g' -> Permutation (blist g) (blist g') /\ Permutation (clist g) (clist g')
  | _ => False
  end.
Fixpoint pre_all (g : grid) (ops : list op) : Prop :=
  match ops with
  | [] => True
  | o :: r => pre g o /\ forall g1, step g o = Ok g1 -> pre_all g1 r
  end.
(** the composed relabelling *)
Fixpoint relab (ops : list op) (n : str) : str :=
  match ops with
  | [] => n
  | Rename m :: r => relab r (mapname m n)
  | _ :: r => relab r n
  end.

Lemma bsig_parts g' i a b c d : bsig g' i = (a, b, c, d) -> bn g' i = a /\ bv g' i = b /\ rn g' (br g' i) = c /\ bc g' i = d.
Proof. unfold bsig. intro H. inversion H. repeat split. Qed.

Theorem edits_physics ops : forall g g', NoDup (blist g) -> NoDup (clist g) -> pre_all g ops -> run g ops = Ok g' ->
  Permutation (blist g) (blist g') /\ Permutation (clist g) (clist g') /\
  (forall i, In i (blist g) -> bsig g' i = (relab ops (bn g i), bv g i, rn g (br g i), bc g i)) /\
  (forall i i', In i (blist g) -> In i' (blist g) -> relab ops (bn g i) = relab ops (bn g i') -> bn g i = bn g i') /\
  (forall j, In (c0 g j) (blist g) -> In (c1 g j) (blist g) -> exists k, csig g' j = swaps k (relabel_f (relab ops) (csig g j))).
Proof.
  induction ops as [|o r IH]; intros g g' NB NC P H; cbn [run] in H.
  - inversion H; subst g'. split; [apply Permutation_refl|]. split; [apply Permutation_refl|]. split; [intros i _; reflexivity|].
    split; [intros i i' _ _ E; exact E|]. intros j _ _. exists 0%nat. destruct (csig g j); reflexivity.
  - destruct P as [P0 P1]. destruct (step g o) as [g1|] eqn:S; cbn [bind] in H; [|discriminate]. specialize (P1 g1 eq_refl).
    destruct o as [n0|n0 rk0 v0 c0'|a0 b0 p0|m|bns cns]; cbn [pre] in P0; try contradiction; cbn [step] in S.
    + (* rename_blocks *)
      destruct (rename_physics g m g1 NB S) as [Eb [Ec [Hb Hc]]]. destruct (rename_ends g m g1 NB S) as [E0 E1].
      destruct (IH g1 g') as [Pb [Pc [Ib [Ij Ic]]]]; [rewrite Eb; exact NB|rewrite Ec; exact NC|exact P1|exact H|].
      rewrite Eb in Pb, Ib, Ij, Ic. rewrite Ec in Pc. split; [exact Pb|]. split; [exact Pc|]. split; [|split].
      * intros i Hi. rewrite (Ib i Hi). destruct (bsig_parts _ _ _ _ _ _ (Hb i Hi)) as [A [B [C D]]]. rewrite A, B, C, D. reflexivity.
      * intros i i' Hi Hi' E. cbn [relab] in E. apply P0; [exact Hi|exact Hi'|].
        destruct (bsig_parts _ _ _ _ _ _ (Hb i Hi)) as [A _]. destruct (bsig_parts _ _ _ _ _ _ (Hb i' Hi')) as [A' _].
        rewrite <- A, <- A'. apply Ij; [exact Hi|exact Hi'|]. rewrite A, A'. exact E.
      * intros j H0 H1. destruct (Ic j) as [k Ek]; [rewrite E0; exact H0|rewrite E1; exact H1|].
        exists k. rewrite Ek, (Hc j H0 H1), relabel_is_f. reflexivity.
    + (* reorder *)
      destruct (P0 g1 S) as [Pb1 Pc1].
      assert (NC1 : NoDup (clist g1)) by (eapply Permutation_NoDup; [exact Pc1|exact NC]).
      assert (NB1 : NoDup (blist g1)) by (eapply Permutation_NoDup; [exact Pb1|exact NB]).
      destruct (reorder_physics g bns cns g1 S NC1) as [Hb Hc]. pose proof (reorder_ends g bns cns g1 S) as He.
      destruct (IH g1 g' NB1 NC1 P1 H) as [Pb [Pc [Ib [Ij Ic]]]].
      assert (In1 : forall i, In i (blist g) -> In i (blist g1)) by (intros i Hi; eapply Permutation_in; [exact Pb1|exact Hi]).
      split; [eapply Permutation_trans; eassumption|]. split; [eapply Permutation_trans; eassumption|]. split; [|split].
      * intros i Hi. rewrite (Ib i (In1 i Hi)). destruct (bsig_parts g1 i (bn g i) (bv g i) (rn g (br g i)) (bc g i) (Hb i)) as [A [B [C D]]]. rewrite A, B, C, D. reflexivity.
      * intros i i' Hi Hi' E. cbn [relab] in E.
        destruct (bsig_parts g1 i (bn g i) (bv g i) (rn g (br g i)) (bc g i) (Hb i)) as [A _]. destruct (bsig_parts g1 i' (bn g i') (bv g i') (rn g (br g i')) (bc g i') (Hb i')) as [A' _].
        rewrite <- A, <- A'. apply Ij; [apply In1; exact Hi|apply In1; exact Hi'|]. rewrite A, A'. exact E.
      * intros j H0 H1.
        assert (In0 : In (c0 g1 j) (blist g1) /\ In (c1 g1 j) (blist g1)).
        { destruct (He j) as [[A0 A1]|[A0 A1]]; rewrite A0, A1; split; apply In1; assumption. }
        destruct (Ic j (proj1 In0) (proj2 In0)) as [k Ek]. cbn [relab].
        destruct (Hc j) as [E|E]; rewrite E in Ek.
        -- exists k. exact Ek.
        -- exists (k + 1)%nat. rewrite Ek, swaps_add. cbn [swaps]. rewrite swap_relabel_f. reflexivity.
Qed.

(** with well-formed cosine tokens a connection is, after any sequence of edits, its relabelled self or
    its relabelled self listed the other way round *)
Corollary edits_physics_two_way ops g g' : NoDup (blist g) -> NoDup (clist g) -> pre_all g ops -> run g ops = Ok g' ->
  forall j, In (c0 g j) (blist g) -> In (c1 g j) (blist g) -> cos_ok (co g j) ->
    csig g' j = relabel_f (relab ops) (csig g j) \/ csig g' j = swap_sig (relabel_f (relab ops) (csig g j)).
Proof.
  intros NB NC P H j H0 H1 Ck. destruct (edits_physics ops g g' NB NC P H) as [_ [_ [_ [_ Ic]]]].
  destruct (Ic j H0 H1) as [k Ek]. rewrite Ek. apply swaps_two_way. exact Ck.
Qed.

(** * a concrete sequence: the connection listed the other way round, then the two block names swapped *)
Definition ex_edits : list op :=
  [Reorder [tok "  a 2"; tok "  a 1"] [(tok "  a 1", tok "  a 2")];
   Rename [(tok "  a 1", tok "  a 2"); (tok "  a 2", tok "  a 1")]].
Definition ex_g : grid := match run empty ops1 with Ok g => g | Raise _ => empty end.
Definition ex_g1 : grid := match reorder ex_g [tok "  a 2"; tok "  a 1"] [(tok "  a 1", tok "  a 2")] with Ok g => g | Raise _ => empty end.
Lemma ex_g1_run : reorder ex_g [tok "  a 2"; tok "  a 1"] [(tok "  a 1", tok "  a 2")] = Ok ex_g1.
Proof. vm_compute. reflexivity. Qed.
Lemma ok_inj {A} (a b : A) : Ok a = Ok b -> a = b.
Proof. intro H. inversion H. reflexivity. Qed.
Opaque ex_g ex_g1.
Example edits_instance :
  NoDup (blist ex_g) /\ NoDup (clist ex_g) /\ pre_all ex_g ex_edits /\ (exists g', run ex_g ex_edits = Ok g') /\
  In (c0 ex_g 4%positive) (blist ex_g) /\ In (c1 ex_g 4%positive) (blist ex_g) /\ cos_ok (co ex_g 4%positive) /\
  relab ex_edits (tok "  a 1") = tok "  a 2" /\ relab ex_edits (tok "  a 2") = tok "  a 1".
Proof.
  assert (B : blist ex_g = [2; 3]%positive) by (vm_compute; reflexivity).
  assert (C : clist ex_g = [4]%positive) by (vm_compute; reflexivity).
  assert (B1 : blist ex_g1 = [3; 2]%positive) by (vm_compute; reflexivity).
  assert (C1 : clist ex_g1 = [4]%positive) by (vm_compute; reflexivity).
  split; [rewrite B; repeat constructor; cbn; intuition discriminate|].
  split; [rewrite C; repeat constructor; cbn; intuition|].
  split.
  { cbn [pre_all ex_edits pre]. split.
    - intros g' H. rewrite ex_g1_run in H. apply ok_inj in H. subst. rewrite B, C, B1, C1. split; [apply perm_swap|apply Permutation_refl].
    - intros g1 H. cbn [step] in H. rewrite ex_g1_run in H. apply ok_inj in H. subst. split; [|intros; exact I].
      unfold inj_on. rewrite B1. intros i i' [<-|[<-|[]]] [<-|[<-|[]]]; vm_compute; intro E; try reflexivity; discriminate. }
  split; [eexists; vm_compute; reflexivity|].
  rewrite B. repeat split; vm_compute; auto.
Qed.
