(** C09 -- embed: the grid returned by [self.embed(subgrid, connection)] lists the blocks of both grids
    and has the total volume of [self]: the sub-grid's volume is taken out of the host block. *)
From Coq Require Import Ascii String List Bool PArith NArith ZArith QArith FMapPositive Lia.
From PTBase Require Import Exn PyStr.
From P Require Import Assoc GridPhys MincModel MincLemmas MincProofs MincThms.
Import ListNotations.
Open Scope list_scope.

(** * sums *)
Lemma sumQ_app l l' : (sumQ (l ++ l') == sumQ l + sumQ l')%Q.
Proof.
  induction l as [|a r IH]; cbn [app].
  - change (sumQ []) with 0%Q. ring.
  - change (sumQ (a :: r ++ l')) with (a + sumQ (r ++ l'))%Q. change (sumQ (a :: r)) with (a + sumQ r)%Q. rewrite IH. ring.
Qed.
(** one term of a sum lowered by [c] *)
Lemma sumQ_update (f : id -> Q) a c l : NoDup l -> In a l ->
  (sumQ (map (fun x => if Pos.eqb x a then f x - c else f x) l) == sumQ (map f l) - c)%Q.
Proof.
  set (g := fun x => if Pos.eqb x a then (f x - c)%Q else f x).
  induction l as [|b r IH]; intros ND H; [destruct H|]. inversion ND as [|? ? Nb NDr]; subst.
  cbn [map]. change (sumQ (g b :: map g r)) with (g b + sumQ (map g r))%Q. change (sumQ (f b :: map f r)) with (f b + sumQ (map f r))%Q.
  unfold g at 1. destruct (Pos.eqb_spec b a) as [->|N].
  - assert (E : map g r = map f r).
    { apply map_ext_in. intros x Hx. unfold g. destruct (Pos.eqb_spec x a) as [->|]; [contradiction|reflexivity]. }
    rewrite E. ring.
  - destruct H as [H|H]; [congruence|]. rewrite (IH NDr H). ring.
Qed.

(** * lists without repetition *)
Lemma NoDup_app_intro {A} (l l' : list A) : NoDup l -> NoDup l' -> (forall x, In x l -> ~ In x l') -> NoDup (l ++ l').
Proof.
  induction l as [|a r IH]; cbn [app]; intros N1 N2 D; [exact N2|]. inversion N1 as [|? ? Na Nr]; subst. constructor.
  - rewrite in_app_iff. intros [H|H]; [contradiction|]. exact (D a (or_introl eq_refl) H).
  - apply IH; [exact Nr|exact N2|]. intros x Hx. apply D. right. exact Hx.
Qed.
Lemma NoDup_app_l {A} (l l' : list A) : NoDup (l ++ l') -> NoDup l.
Proof.
  induction l as [|a r IH]; cbn [app]; intro H; [constructor|]. inversion H as [|? ? Na Nr]; subst. constructor.
  - intro X. apply Na. apply in_or_app. left. exact X.
  - apply IH. exact Nr.
Qed.
Lemma NoDup_app_head {A} (l : list A) a r : NoDup (l ++ a :: r) -> ~ In a l.
Proof. intros H X. apply NoDup_remove_2 in H. apply H. apply in_or_app. left. exact X. Qed.
Lemma NoDup_of_map {A B} (f : A -> B) l : NoDup (map f l) -> NoDup l.
Proof.
  induction l as [|a r IH]; cbn [map]; intro H; [constructor|]. inversion H as [|? ? Na Nr]; subst. constructor.
  - intro X. apply Na. apply in_map. exact X.
  - apply IH. exact Nr.
Qed.

(** * heaps with the same block physics *)
Definition hphys (h h' : heap) : Prop := forall x, same_phys (bk h' x) (bk h x).
Lemma hphys_refl h : hphys h h. Proof. intro x. apply same_phys_refl. Qed.
Lemma hphys_trans h h1 h2 : hphys h h1 -> hphys h1 h2 -> hphys h h2.
Proof. intros A B x. eapply same_phys_trans; [apply B|apply A]. Qed.
Lemma hphys_kname h h' x : hphys h h' -> kname h' x = kname h x.
Proof. intro H. unfold kname. apply (H x). Qed.
Lemma hphys_kvol h h' x : hphys h h' -> kvol h' x = kvol h x.
Proof. intro H. unfold kvol. apply (H x). Qed.
Lemma hphys_names h h' l : hphys h h' -> names_of h' l = names_of h l.
Proof. intro H. apply map_ext. intro x. apply hphys_kname. exact H. Qed.

(** the block dictionary files listed blocks under their names *)
Definition bd_ok (h : heap) (t : tabs) : Prop := forall n i, tbget t n = Some i -> In i (t_bl t) /\ kname h i = n.
Lemma bd_ok_hphys h h' t : hphys h h' -> bd_ok h t -> bd_ok h' t.
Proof. intros H B n i E. destruct (B n i E) as [I K]. split; [exact I|]. rewrite (hphys_kname _ _ _ H). exact K. Qed.

(** * __add__ *)
Lemma add_rocktypes_keep h l : forall t t', add_rocktypes h t l = Ok t' ->
  t_bl t' = t_bl t /\ t_bd t' = t_bd t /\ t_cl t' = t_cl t /\ t_cd t' = t_cd t.
Proof.
  induction l as [|j r IH]; intros t t' H; cbn [add_rocktypes] in H; [inversion H; subst; repeat split|].
  destruct (qadd_rocktype h t j) as [t1|] eqn:E; cbn [bind] in H; [|discriminate].
  destruct (IH _ _ H) as [A [B [C D]]]. rewrite A, B, C, D. clear - E. unfold qadd_rocktype in E.
  destruct (trget t (x_name (rk h j))); [destruct (mem i (t_rl t)); [|discriminate]|]; inversion E; subst; repeat split.
Qed.
Lemma add_blocks_app h l : forall t t', bd_ok h t -> NoDup (names_of h (t_bl t ++ l)) -> add_blocks h t l = Ok t' ->
  t_bl t' = t_bl t ++ l /\ bd_ok h t' /\ t_cl t' = t_cl t /\ t_cd t' = t_cd t.
Proof.
  induction l as [|a r IH]; intros t t' B ND H; cbn [add_blocks] in H.
  - inversion H; subst. rewrite app_nil_r. split; [reflexivity|]. split; [exact B|]. split; reflexivity.
  - assert (Na : tbget t (kname h a) = None).
    { destruct (tbget t (kname h a)) as [i|] eqn:E; [|reflexivity]. exfalso. destruct (B _ _ E) as [I K].
      unfold names_of in ND. rewrite map_app in ND. cbn [map] in ND. apply NoDup_app_head in ND. apply ND. rewrite <- K. apply in_map. exact I. }
    rewrite (qadd_block_new _ _ _ Na) in H. cbn [bind] in H.
    set (t1 := with_b t (t_bl t ++ [a]) (aset str_eqb (t_bd t) (kname h a) a)) in H.
    assert (B1 : bd_ok h t1).
    { intros n i E. unfold tbget in E. cbn [t1 with_b t_bd] in E. rewrite (aget_aset str_eqb str_spec) in E. cbn [t1 with_b t_bl].
      destruct (str_spec n (kname h a)) as [->|N].
      - inversion E; subst i. split; [apply in_or_app; right; left; reflexivity|reflexivity].
      - destruct (B _ _ E) as [I K]. split; [apply in_or_app; left; exact I|exact K]. }
    destruct (IH t1 t' B1) as [A [B' [C D]]]; [cbn [t1 with_b t_bl]; rewrite <- app_assoc; exact ND|exact H|].
    split; [rewrite A; cbn [t1 with_b t_bl]; rewrite <- app_assoc; reflexivity|]. split; [exact B'|]. split; [rewrite C|rewrite D]; reflexivity.
Qed.
Lemma add_connections_keep l : forall h t h' t', add_connections h t l = Ok (h', t') ->
  hphys h h' /\ t_bl t' = t_bl t /\ t_bd t' = t_bd t.
Proof.
  induction l as [|j r IH]; intros h t h' t' H; cbn [add_connections] in H.
  - inversion H; subst. split; [apply hphys_refl|split; reflexivity].
  - destruct (qadd_connection h t j) as [[h1 t1]|] eqn:E; cbn [bind fst snd] in H; [|discriminate].
    destruct (qadd_connection_frame _ _ _ _ _ E) as [_ [_ [P [_ [_ [A [B _]]]]]]].
    destruct (IH _ _ _ _ H) as [P' [A' B']]. split; [eapply hphys_trans; [exact P|exact P']|]. split; congruence.
Qed.
Lemma add_grid_spec h res g h' t' : bd_ok h res -> NoDup (names_of h (t_bl res ++ t_bl g)) -> add_grid h res g = Ok (h', t') ->
  hphys h h' /\ t_bl t' = t_bl res ++ t_bl g /\ bd_ok h' t'.
Proof.
  intros B ND H. unfold add_grid in H.
  destruct (add_rocktypes h res (t_rl g)) as [t1|] eqn:E1; cbn [bind] in H; [|discriminate].
  destruct (add_rocktypes_keep _ _ _ _ E1) as [A1 [B1 _]].
  destruct (add_blocks h t1 (t_bl g)) as [t2|] eqn:E2; cbn [bind] in H; [|discriminate].
  assert (Bt1 : bd_ok h t1) by (intros n i E; unfold tbget in E; rewrite B1 in E; rewrite A1; apply B; exact E).
  destruct (add_blocks_app h (t_bl g) t1 t2 Bt1) as [A2 [B2 _]]; [rewrite A1; exact ND|exact E2|].
  destruct (add_connections_keep _ _ _ _ _ H) as [P [A3 B3]].
  split; [exact P|]. split; [rewrite A3, A2, A1; reflexivity|].
  apply (bd_ok_hphys h h'); [exact P|]. intros n i E. unfold tbget in E. rewrite B3 in E. rewrite A3. apply B2. exact E.
Qed.
Lemma grid_add_spec h a b h' r : NoDup (names_of h (t_bl a ++ t_bl b)) -> grid_add h a b = Ok (h', r) ->
  hphys h h' /\ t_bl r = t_bl a ++ t_bl b /\ bd_ok h' r.
Proof.
  intros ND H. unfold grid_add in H.
  destruct (add_grid h tabs0 a) as [[h1 t1]|] eqn:E1; cbn [bind fst snd] in H; [|discriminate].
  destruct (add_grid_spec h tabs0 a h1 t1) as [P1 [A1 B1]]; [intros n i E; discriminate| |exact E1|].
  { cbn [tabs0 t_bl app]. unfold names_of in *. rewrite map_app in ND. apply NoDup_app_l in ND. exact ND. }
  cbn [tabs0 t_bl app] in A1.
  destruct (add_grid_spec h1 t1 b h' r) as [P2 [A2 B2]]; [exact B1| |exact H|].
  { rewrite A1, (hphys_names _ _ _ P1). exact ND. }
  split; [eapply hphys_trans; eassumption|]. split; [rewrite A2, A1; reflexivity|exact B2].
Qed.

Lemma common_name_false h a b : common_name h a b = false ->
  forall n, In n (names_of h (t_bl a)) -> ~ In n (names_of h (t_bl b)).
Proof.
  unfold common_name. intros H n Ha Hb.
  assert (X : existsb (fun n0 => existsb (str_eqb n0) (names_of h (t_bl b))) (names_of h (t_bl a)) = true); [|congruence].
  apply existsb_exists. exists n. split; [exact Ha|]. apply existsb_exists. exists n. split; [exact Hb|].
  destruct (str_spec n n); congruence.
Qed.

(** * embed *)
Theorem embed_spec h self sub cj h' r :
  NoDup (names_of h (t_bl self)) -> NoDup (names_of h (t_bl sub)) ->
  embed h self sub cj = Ok (h', Some r) ->
  t_bl r = t_bl self ++ t_bl sub /\
  (total_volume h' r == total_volume h self)%Q /\
  (total_volume h sub < kvol h (o_b0 (cx h cj)))%Q /\
  exists ih, tbget r (kname h (o_b0 (cx h cj))) = Some ih /\ In ih (t_bl r) /\
             kvol h' ih = (kvol h ih - total_volume h sub)%Q /\ (forall x, x <> ih -> kvol h' x = kvol h x).
Proof.
  intros N1 N2. unfold embed. cbv zeta. fold (total_volume h sub).
  destruct (qltb (total_volume h sub) (kvol h (o_b0 (cx h cj)))) eqn:Lt; [|discriminate].
  destruct (common_name h self sub) eqn:CN; [discriminate|].
  destruct (grid_add h self sub) as [[h1 r1]|] eqn:G; cbn [bind fst snd]; [|discriminate].
  assert (ND : NoDup (names_of h (t_bl self ++ t_bl sub))).
  { unfold names_of. rewrite map_app. apply NoDup_app_intro; [exact N1|exact N2|apply common_name_false; exact CN]. }
  destruct (grid_add_spec _ _ _ _ _ ND G) as [P1 [A1 B1]].
  destruct (tbget r1 (kname h1 (o_b0 (cx h1 cj)))) as [i0|]; [|discriminate].
  destruct (tbget r1 (kname h1 (o_b1 (cx h1 cj)))) as [i1|]; [|discriminate].
  set (h2 := set_con h1 cj (with_ends (cx h1 cj) i0 i1)).
  destruct (qadd_connection h2 r1 cj) as [[h3 r3]|] eqn:Q; cbn [bind fst snd]; [|discriminate].
  destruct (qadd_connection_frame _ _ _ _ _ Q) as [_ [_ [P3 [_ [_ [A3 [D3 _]]]]]]].
  assert (P13 : hphys h h3).
  { eapply hphys_trans; [exact P1|]. intro x. eapply same_phys_trans; [apply P3|]. apply same_phys_refl. }
  destruct (tbget r3 (kname h3 (o_b0 (cx h cj)))) as [ih|] eqn:Th; [|discriminate].
  intro H. inversion H; subst h' r; clear H.
  assert (Hih : In ih (t_bl r3)).
  { unfold tbget in Th. rewrite D3 in Th. rewrite A3. apply (B1 _ _ Th). }
  assert (Kv : forall x, kvol (set_blk h3 ih (with_vol (bk h3 ih) (kvol h3 ih - total_volume h sub))) x =
                         if Pos.eqb x ih then (kvol h x - total_volume h sub)%Q else kvol h x).
  { intro x. unfold kvol at 1. rewrite bk_set_blk. destruct (Pos.eqb_spec x ih) as [->|N].
    - cbn [with_vol k_vol]. rewrite (hphys_kvol _ _ _ P13). reflexivity.
    - fold (kvol h3 x). apply hphys_kvol. exact P13. }
  split; [rewrite A3; exact A1|]. split; [|split].
  - unfold total_volume. rewrite (map_ext _ _ Kv). rewrite sumQ_update.
    + rewrite A3, A1, map_app, sumQ_app. fold (total_volume h self). fold (total_volume h sub). ring.
    + rewrite A3, A1. apply (NoDup_of_map (kname h)). exact ND.
    + exact Hih.
  - apply qltb_lt. exact Lt.
  - exists ih. rewrite (hphys_kname _ _ _ P13) in Th. split; [exact Th|]. split; [exact Hih|]. split.
    + rewrite Kv, Pos.eqb_refl. reflexivity.
    + intros x N. rewrite Kv. destruct (Pos.eqb_spec x ih); [contradiction|reflexivity].
Qed.
