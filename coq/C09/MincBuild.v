(** C09 -- building a grid object by object (what fromgeo's add_* calls amount to), the fact that a grid
    built from distinct names is well-formed, and concrete instances of the MINC / embed theorems
    (their hypotheses are satisfiable; the numbers come out as the property says). *)
From Coq Require Import Ascii String List Bool PArith NArith ZArith QArith FMapPositive Lia.
From PTBase Require Import Exn PyStr PyNum PyVal Wire.
From P Require Import Assoc GridPhys MincModel MincLemmas MincProofs MincThms EmbedProofs.
Import ListNotations.
Open Scope list_scope.

(** [grid.add_rocktype(rocktype(...))], [grid.add_block(t2block(n, v, grid.rocktype[rk], centre = cen))],
    [grid.add_connection(t2connection([grid.block[a], grid.block[b]], dir, [d0, d1], area, cos))] *)
Inductive gop :=
  | GRock (r : rockrec)
  | GBlock (n : str) (v : Q) (rk cen : str)
  | GConn (a b : str) (d0 d1 area : Q) (dir cos : str).
Definition gstep (h : heap) (t : tabs) (o : gop) : res (heap * tabs) :=
  match o with
  | GRock r => let j := hnext h in let h1 := alloc_rock h r in do t1 <- qadd_rocktype h1 t j; Ok (h1, t1)
  | GBlock n v rk cen =>
      match trget t rk with
      | None => Raise KeyError
      | Some rj => let i := hnext h in
                   let h1 := alloc_blk h {| k_name := n; k_vol := v; k_rock := rj; k_cen := cen; k_cn := [] |} in
                   do t1 <- qadd_block h1 t i; Ok (h1, t1)
      end
  | GConn a b d0 d1 area dir cos =>
      match tbget t a, tbget t b with
      | Some i0, Some i1 =>
          let j := hnext h in
          let h1 := alloc_con h {| o_b0 := i0; o_b1 := i1; o_d0 := d0; o_d1 := d1; o_area := area; o_dir := dir; o_cos := cos |} in
          qadd_connection h1 t j
      | _, _ => Raise KeyError
      end
  end.
Fixpoint grun (h : heap) (t : tabs) (ops : list gop) : res (heap * tabs) :=
  match ops with [] => Ok (h, t) | o :: r => do s <- gstep h t o; grun (fst s) (snd s) r end.

(** the name the step files its object under is not taken yet *)
Definition gfresh (t : tabs) (o : gop) : bool :=
  match o with
  | GRock r => match trget t (x_name r) with None => true | Some _ => false end
  | GBlock n _ _ _ => match tbget t n with None => true | Some _ => false end
  | GConn a b _ _ _ _ _ => match tcget t (a, b) with None => true | Some _ => false end
  end.
Fixpoint grun_fresh (h : heap) (t : tabs) (ops : list gop) : bool :=
  match ops with
  | [] => true
  | o :: r => gfresh t o && match gstep h t o with Ok s => grun_fresh (fst s) (snd s) r | Raise _ => false end
  end.

Local Open Scope positive_scope.
Lemma gstep_wf h t o h' t' : wf h t -> gfresh t o = true -> gstep h t o = Ok (h', t') -> wf h' t'.
Proof.
  intros W F H. destruct o as [r|n v rk cen|a b d0 d1 area dir cos]; cbn [gstep gfresh] in *.
  - destruct (trget t (x_name r)) eqn:E; [discriminate|].
    assert (Rn : x_name (rk (alloc_rock h r) (hnext h)) = x_name r) by (rewrite rk_alloc_rock, Pos.eqb_refl; reflexivity).
    rewrite qadd_rocktype_new in H by (rewrite Rn; exact E). cbn [bind] in H. inversion H; subst h' t'. rewrite Rn.
    apply wf_add_rock; [eapply wf_frame; [exact W|apply (frame_alloc_rock (fun _ => False))]|exact Rn|cbn [hnext alloc_rock]; lia].
  - destruct (tbget t n) eqn:E; [discriminate|]. destruct (trget t rk) as [rj|] eqn:R; [|discriminate].
    set (brec := {| k_name := n; k_vol := v; k_rock := rj; k_cen := cen; k_cn := [] |}) in H.
    assert (Bi : bk (alloc_blk h brec) (hnext h) = brec) by (rewrite bk_alloc_blk, Pos.eqb_refl; reflexivity).
    assert (Ki : kname (alloc_blk h brec) (hnext h) = n) by (unfold kname; rewrite Bi; reflexivity).
    rewrite qadd_block_new in H by (rewrite Ki; exact E). cbn [bind] in H. inversion H; subst h' t'.
    apply wf_add_block.
    + eapply wf_frame; [exact W|apply (frame_alloc_blk (fun _ => False))].
    + rewrite Ki. exact E.
    + intro X. apply (wf_fb _ _ W) in X. lia.
    + cbn [hnext alloc_blk]. lia.
    + rewrite Bi. cbn [k_rock brec hnext alloc_blk]. destruct (wf_r _ _ W _ _ R). lia.
  - destruct (tcget t (a, b)) eqn:E; [discriminate|].
    destruct (tbget t a) as [i0|] eqn:T0; [|discriminate]. destruct (tbget t b) as [i1|] eqn:T1; [|discriminate].
    set (crec := {| o_b0 := i0; o_b1 := i1; o_d0 := d0; o_d1 := d1; o_area := area; o_dir := dir; o_cos := cos |}) in H.
    set (h1 := alloc_con h crec) in H.
    assert (Cj : cx h1 (hnext h) = crec) by (unfold h1; rewrite cx_alloc_con, Pos.eqb_refl; reflexivity).
    destruct (wf_tbget _ _ _ _ W T0) as [I0 K0]. destruct (wf_tbget _ _ _ _ W T1) as [I1 K1].
    assert (Kj : okey h1 (hnext h) = (a, b)).
    { unfold okey. rewrite Cj. cbn [o_b0 o_b1 crec]. change (kname h1) with (kname h). rewrite K0, K1. reflexivity. }
    rewrite qadd_connection_new in H by (rewrite Kj; exact E). inversion H; subst h' t'; clear H.
    assert (W1 : wf h1 t) by (eapply wf_frame; [exact W|apply (frame_alloc_con (fun _ => False))]).
    eapply (wf_frame (fun x => x = o_b0 (cx h1 (hnext h)) \/ x = o_b1 (cx h1 (hnext h)))).
    + apply wf_add_con; [exact W1|rewrite Kj; exact E| |unfold h1; cbn [hnext alloc_con]; lia|rewrite Cj; exact I0|rewrite Cj; exact I1].
      intro X. apply (wf_fc _ _ W) in X. lia.
    + eapply (frame_trans _ (fun x => x = o_b0 (cx h1 (hnext h)) \/ x = o_b1 (cx h1 (hnext h))));
        [apply frame_cn_add; cbv beta; left; reflexivity|apply frame_cn_add; cbv beta; right; reflexivity|tauto].
Qed.
Lemma grun_wf ops : forall h t h' t', wf h t -> grun_fresh h t ops = true -> grun h t ops = Ok (h', t') -> wf h' t'.
Proof.
  induction ops as [|o r IH]; intros h t h' t' W F H; cbn [grun grun_fresh] in *.
  - inversion H; subst; exact W.
  - apply andb_true_iff in F. destruct F as [F0 F1]. destruct (gstep h t o) as [[h1 t1]|] eqn:S; cbn [bind fst snd] in *; [|discriminate].
    eapply IH; [eapply gstep_wf; eassumption|exact F1|exact H].
Qed.
Local Close Scope positive_scope.

Lemma wf_tabs0 h : wf h tabs0.
Proof. constructor; cbn; try (apply DL_empty); try tauto; intros; discriminate. Qed.

(** * the default naming functions of minc() *)
(** [default_matrix_blockname]: [str(level) + blkname[len(str(level)):]] *)
Definition default_mbname (blkname : str) (level : nat) : str :=
  let ls := show_nat level in ls ++ skipn (length ls) blkname.
(** [default_minc_rockname]: the name itself at level 0, ['X' + rockname[1:]] above *)
Definition default_mrname (rockname : str) (level : nat) : str :=
  match level with O => rockname | S _ => "X"%char :: skipn 1 rockname end.

(** * a concrete grid: a 1e25 atmosphere block, two underground blocks, two vertical connections *)
Definition tk (s : string) : str := s2l s.
Definition ex_rock : rockrec := {| x_name := tk "dfalt"; x_nad := tk "0"; x_props := tk "2600.0/0.1/1e-15/1.5/900.0"; x_rest := tk "dflt" |}.
Definition ex_ops : list gop :=
  [GRock ex_rock;
   GBlock (tk "ATM 0") (10000000000000000000000000 # 1) (tk "dfalt") (tk "None");
   GBlock (tk "  a 1") 500 (tk "dfalt") (tk "5.0_5.0_-2.5");
   GBlock (tk "  a 2") 800 (tk "dfalt") (tk "5.0_5.0_-9.0");
   GConn (tk "  a 1") (tk "ATM 0") (5 # 2) (1 # 1000000000000) 100 (tk "3") (tk "-1.0");
   GConn (tk "  a 2") (tk "  a 1") 4 (5 # 2) 100 (tk "3") (tk "-1.0")].
Definition ex_h : heap := match grun heap0 tabs0 ex_ops with Ok s => fst s | Raise _ => heap0 end.
Definition ex_t : tabs := match grun heap0 tabs0 ex_ops with Ok s => snd s | Raise _ => tabs0 end.
Lemma ex_run : grun heap0 tabs0 ex_ops = Ok (ex_h, ex_t).
Proof. vm_compute. reflexivity. Qed.
Lemma ex_wf : wf ex_h ex_t.
Proof. eapply grun_wf; [exact wf_empty| |exact ex_run]. vm_compute. reflexivity. Qed.

(** minc with the un-normalised fractions [1, 3], one fracture-plane set, on all blocks *)
Definition ex_dd (m : nat) : Q := nth m [0; 25 # 6] 0.
Definition ex_aa (m : nat) : Q := nth m [1 # 25] 0.
Definition ex_atm : Q := 10000000000000000000000000 # 1.
Definition ex_minc := minc default_mbname default_mrname ex_dd ex_aa ex_atm ex_h ex_t [1; 3] [].
Definition ex_h' : heap := match ex_minc with Ok s => fst s | Raise _ => heap0 end.
Definition ex_t' : tabs := match ex_minc with Ok s => snd s | Raise _ => tabs0 end.
Lemma ex_minc_run : minc default_mbname default_mrname ex_dd ex_aa ex_atm ex_h ex_t [1; 3] [] = Ok (ex_h', ex_t').
Proof. vm_compute. reflexivity. Qed.

(** every hypothesis of the MINC theorems holds for this call; the two underground blocks are split 1/4 : 3/4,
    the atmosphere block is left alone, each processed block gets exactly one nested connection *)
Example minc_instance :
  wf ex_h ex_t /\ NoDup (selection ex_h ex_t []) /\ (forall n, In n (selection ex_h ex_t []) -> tbget ex_t n <> None) /\
  minc default_mbname default_mrname ex_dd ex_aa ex_atm ex_h ex_t [1; 3] [] = Ok (ex_h', ex_t') /\
  map (fun n => Qred (vol_named ex_h' ex_t' (tk n))) ["ATM 0"; "  a 1"; "1 a 1"; "  a 2"; "1 a 2"]%string =
    [10000000000000000000000000 # 1; 125; 375; 200; 600] /\
  map (fun j => (kname ex_h' (o_b0 (cx ex_h' j)), kname ex_h' (o_b1 (cx ex_h' j)))) (t_cl ex_t') =
    [(tk "  a 1", tk "ATM 0"); (tk "  a 2", tk "  a 1"); (tk "  a 1", tk "1 a 1"); (tk "  a 2", tk "1 a 2")] /\
  map (fun i => x_name (rk ex_h' (k_rock (bk ex_h' i)))) (t_bl ex_t') = [tk "dfalt"; tk "dfalt"; tk "dfalt"; tk "Xfalt"; tk "Xfalt"].
Proof.
  destruct (selection_all_ok ex_h ex_t ex_wf) as [ND Hs].
  split; [exact ex_wf|]. split; [exact ND|]. split; [exact Hs|]. split; [exact ex_minc_run|].
  split; [vm_compute; reflexivity|]. split; vm_compute; reflexivity.
Qed.

(** * a concrete embed: a one-block sub-grid of volume 100 inside block "  a 1" (volume 500) *)
Definition ex_sub_ops : list gop :=
  [GRock {| x_name := tk "inner"; x_nad := tk "0"; x_props := tk "2600.0/0.1/1e-15/1.5/900.0"; x_rest := tk "dflt" |};
   GBlock (tk "sub 1") 100 (tk "inner") (tk "None")].
Definition ex_h2 : heap := match grun ex_h tabs0 ex_sub_ops with Ok s => fst s | Raise _ => heap0 end.
Definition ex_sub : tabs := match grun ex_h tabs0 ex_sub_ops with Ok s => snd s | Raise _ => tabs0 end.
(** the connection object handed to embed: [t2connection([grid.block['  a 1'], sub.block['sub 1']], 1, [2, 1], 10, 0.0)] *)
Definition ex_cj : id := hnext ex_h2.
Definition ex_h3 : heap :=
  match tbget ex_t (tk "  a 1"), tbget ex_sub (tk "sub 1") with
  | Some i0, Some i1 => alloc_con ex_h2 {| o_b0 := i0; o_b1 := i1; o_d0 := 2; o_d1 := 1; o_area := 10; o_dir := tk "1"; o_cos := tk "0.0" |}
  | _, _ => ex_h2
  end.
Definition ex_embed := embed ex_h3 ex_t ex_sub ex_cj.
Definition ex_h4 : heap := match ex_embed with Ok s => fst s | Raise _ => heap0 end.
Definition ex_r : tabs := match ex_embed with Ok (_, Some r) => r | _ => tabs0 end.
Example embed_instance :
  NoDup (names_of ex_h3 (t_bl ex_t)) /\ NoDup (names_of ex_h3 (t_bl ex_sub)) /\
  embed ex_h3 ex_t ex_sub ex_cj = Ok (ex_h4, Some ex_r) /\
  Qred (total_volume ex_h3 ex_t) = Qred (total_volume ex_h4 ex_r) /\
  Qred (vol_named ex_h4 ex_r (tk "  a 1")) = 400 /\ Qred (vol_named ex_h4 ex_r (tk "sub 1")) = 100 /\
  names_of ex_h4 (t_bl ex_r) = [tk "ATM 0"; tk "  a 1"; tk "  a 2"; tk "sub 1"].
Proof.
  split; [vm_compute; repeat (constructor; [cbn; intuition discriminate|]); constructor|].
  split; [vm_compute; repeat (constructor; [cbn; intuition discriminate|]); constructor|].
  split; [vm_compute; reflexivity|]. repeat split; vm_compute; reflexivity.
Qed.
