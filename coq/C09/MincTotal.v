(** C09 -- minc() conserves the total volume of the grid: the sum over the whole block list afterwards (fracture and
    matrix continua of every processed block, every unprocessed block) equals the sum before, for every selection. *)
From Coq Require Import Ascii String List Bool PArith NArith ZArith QArith FMapPositive Lia Permutation.
From PTBase Require Import Exn PyStr.
From P Require Import Assoc GridPhys MincModel MincLemmas MincProofs MincThms EmbedProofs MincBuild.
Import ListNotations.
Open Scope list_scope.

Definition qvol (s : str * Q * str * str) : Q := snd (fst (fst s)).
Lemma sumQ_cons a l : sumQ (a :: l) = (a + sumQ l)%Q.
Proof. reflexivity. Qed.
Lemma sumQ_ext {A} (f g : A -> Q) l : (forall x, In x l -> (f x == g x)%Q) -> (sumQ (map f l) == sumQ (map g l))%Q.
Proof.
  induction l as [|a r IH]; intro H; cbn [map]; [reflexivity|]. rewrite !sumQ_cons.
  apply Qplus_comp; [apply H; left; reflexivity|apply IH; intros; apply H; right; assumption].
Qed.
Lemma sumQ_plus {A} (f g : A -> Q) l : (sumQ (map f l) + sumQ (map g l) == sumQ (map (fun x => f x + g x) l))%Q.
Proof.
  induction l as [|a r IH]; cbn [map]; rewrite ?sumQ_cons; [change (sumQ []) with 0%Q; ring|]. rewrite <- IH. ring.
Qed.
Lemma sumQ_perm l l' : Permutation l l' -> (sumQ l == sumQ l')%Q.
Proof.
  induction 1; rewrite ?sumQ_cons; [reflexivity|rewrite IHPermutation; reflexivity|ring|eapply Qeq_trans; eassumption].
Qed.
Lemma sumQ_filter {A} (p : A -> bool) (G : A -> Q) l :
  (sumQ (map G (filter p l)) == sumQ (map (fun x => if p x then G x else 0) l))%Q.
Proof.
  induction l as [|a r IH]; cbn [filter map]; [reflexivity|]. destruct (p a); cbn [map]; rewrite ?sumQ_cons, IH; ring.
Qed.
Lemma sumQ_flat_map {A} (F : A -> list Q) l : (sumQ (flat_map F l) == sumQ (map (fun x => sumQ (F x)) l))%Q.
Proof.
  induction l as [|a r IH]; cbn [flat_map map]; [reflexivity|]. rewrite sumQ_app, sumQ_cons, IH. reflexivity.
Qed.
Lemma map_flat_map {A B C} (g : B -> C) (F : A -> list B) l : map g (flat_map F l) = flat_map (fun x => map g (F x)) l.
Proof. induction l as [|a r IH]; cbn [flat_map map]; [reflexivity|]. rewrite map_app, IH. reflexivity. Qed.
Lemma sumQ_scale_l {A} V (g : A -> Q) l : (sumQ (map (fun k => V * g k) l) == V * sumQ (map g l))%Q.
Proof.
  induction l as [|a r IH]; cbn [map]; rewrite ?sumQ_cons; [change (sumQ []) with 0%Q; ring|]. rewrite IH. ring.
Qed.
Lemma sumQ_div s l : (sumQ (map (fun f => f / s) l) == sumQ l / s)%Q.
Proof.
  induction l as [|a r IH]; cbn [map]; rewrite ?sumQ_cons; [change (sumQ []) with 0%Q; unfold Qdiv; ring|].
  rewrite IH. unfold Qdiv. ring.
Qed.
(** the normalised fractions add up to one *)
Lemma sumQ_normalise fr : ~ (sumQ fr == 0)%Q -> (sumQ (normalise fr) == 1)%Q.
Proof. intro NZ. unfold normalise. rewrite sumQ_div. unfold Qdiv. apply Qmult_inv_r. exact NZ. Qed.
Lemma head_tail_sum (vfs : list Q) : (1 <= length vfs)%nat ->
  sumQ vfs = (nth 0 vfs 0 + sumQ (map (fun k => nth k vfs 0) (seq 1 (length vfs - 1))))%Q.
Proof.
  destruct vfs as [|a r]; cbn [length]; [lia|]. intros _. replace (S (length r) - 1)%nat with (length r) by lia.
  rewrite sumQ_cons. cbn [nth]. f_equal. rewrite <- seq_shift, map_map. cbn [nth].
  pose proof (map_nth_seq (fun x : Q => x) 0%Q r) as E. cbv beta in E. rewrite E, map_id. reflexivity.
Qed.

Theorem minc_total_volume mbname mrname dd aa atm h t fr blocks h' t' : wf h t ->
  NoDup (selection h t blocks) -> (forall n, In n (selection h t blocks) -> tbget t n <> None) ->
  minc mbname mrname dd aa atm h t fr blocks = Ok (h', t') -> ~ (sumQ fr == 0)%Q ->
  (total_volume h' t' == total_volume h t)%Q.
Proof.
  intros W ND Hsel E NZ.
  destruct (minc_lists mbname mrname dd aa atm h t fr blocks h' t' W ND Hsel E) as [_ [Sb _]].
  destruct (minc_unfold _ _ _ _ _ _ _ _ _ _ _ E) as [L2 _]. cbv zeta in Sb.
  set (sel := selection h t blocks) in *. set (vfs := normalise fr) in *.
  assert (Lv : length vfs = length fr) by (unfold vfs, normalise; apply map_length).
  set (S := sumQ (map (fun k => nth k vfs 0%Q) (seq 1 (length vfs - 1)))).
  assert (One : (nth 0 vfs 0 + S == 1)%Q).
  { unfold S. rewrite <- (head_tail_sum vfs) by lia. apply sumQ_normalise; exact NZ. }
  assert (T' : total_volume h' t' = sumQ (map qvol (map (qbsig h') (t_bl t')))).
  { unfold total_volume. rewrite map_map. reflexivity. }
  rewrite T', Sb, map_app, sumQ_app, map_map, map_flat_map.
  pose (Wt := fun n => match tbget t n with Some i => (kvol h i * S)%Q | None => 0%Q end).
  pose (G := fun n => if proc atm h t n then Wt n else 0%Q).
  assert (PERM : Permutation sel (filter (fun y => existsb (str_eqb y) sel) (map (kname h) (t_bl t)))).
  { apply NoDup_Permutation; [exact ND|apply NoDup_filter; apply (proj1 (selection_all_ok h t W))|].
    intro x. rewrite filter_In. split.
    - intro Hx. split.
      + specialize (Hsel x Hx). destruct (tbget t x) as [i|] eqn:Tx; [|congruence].
        destruct (wf_tbget _ _ _ _ W Tx) as [Hi Kn]. apply in_map_iff. exists i. split; assumption.
      + apply existsb_exists. exists x. split; [exact Hx|]. destruct (str_spec x x); congruence.
    - intros [_ Hex]. apply existsb_exists in Hex. destruct Hex as [m [Hm Em]].
      destruct (str_spec x m) as [->|]; [exact Hm|discriminate]. }
  assert (A1 : (sumQ (flat_map (fun n => map qvol (matrix_level_sigs mbname mrname vfs h t n)) (processed_names atm h t sel)) ==
                sumQ (map (fun i => if existsb (str_eqb (kname h i)) sel then G (kname h i) else 0) (t_bl t)))%Q).
  { eapply Qeq_trans; [apply sumQ_flat_map|].
    eapply Qeq_trans; [apply (sumQ_ext _ Wt); intros n _|].
    { unfold matrix_level_sigs, Wt. destruct (tbget t n) as [i|]; [|reflexivity]. rewrite map_map.
      apply (sumQ_scale_l (kvol h i) (fun k => nth k vfs 0%Q)). }
    unfold processed_names. eapply Qeq_trans; [apply sumQ_filter|]. fold G.
    eapply Qeq_trans; [apply sumQ_perm; apply Permutation_map; exact PERM|].
    eapply Qeq_trans; [apply sumQ_filter|]. rewrite map_map. reflexivity. }
  rewrite A1, sumQ_plus. unfold total_volume. apply sumQ_ext. intros i Hi. cbv beta.
  unfold frac_sig, touched, G, Wt. rewrite (wf_tbget_name _ _ _ W Hi).
  destruct (existsb (str_eqb (kname h i)) sel); destruct (proc atm h t (kname h i)); cbn [andb qvol qbsig fst snd]; try ring.
  transitivity (kvol h i * (nth 0 vfs 0 + S))%Q; [ring|]. rewrite One. ring.
Qed.

(** the instance of MincBuild.v (fractions [1, 3] on all blocks, atmosphere block skipped): the fractions do not add up
    to zero and the grid's total volume is the same number before and after *)
Example minc_total_instance :
  ~ (sumQ [1; 3] == 0)%Q /\ Qred (total_volume ex_h' ex_t') = Qred (total_volume ex_h ex_t) /\
  length (t_bl ex_t') = 5%nat /\ length (t_bl ex_t) = 3%nat.
Proof.
  split; [intro H; vm_compute in H; discriminate|]. repeat split; vm_compute; reflexivity.
Qed.
