(** C09 -- when embed() and minc() refuse: the exact conditions under which [embed] returns None (and that the
    heap, hence both grids, is then untouched), and the refusal of minc() with fewer than two volume fractions. *)
From Coq Require Import Ascii String List Bool PArith NArith ZArith QArith FMapPositive Lia.
From PTBase Require Import Exn PyStr.
From P Require Import Assoc GridPhys MincModel MincLemmas MincProofs MincThms EmbedProofs MincBuild.
Import ListNotations.
Open Scope list_scope.

Lemma common_name_iff h a b : common_name h a b = true <->
  exists n, In n (names_of h (t_bl a)) /\ In n (names_of h (t_bl b)).
Proof.
  unfold common_name. rewrite existsb_exists. split.
  - intros [n [Ha Hb]]. apply existsb_exists in Hb. destruct Hb as [m [Hm E]].
    exists n. split; [exact Ha|]. destruct (str_spec n m) as [->|]; [exact Hm|discriminate].
  - intros [n [Ha Hb]]. exists n. split; [exact Ha|]. apply existsb_exists. exists n. split; [exact Hb|].
    destruct (str_spec n n); congruence.
Qed.

(** embed returns None exactly when the host block's volume does not exceed the sub-grid's total volume or a
    block name occurs in both grids; and then no object has been changed *)
Theorem embed_none_iff h self sub cj h' :
  embed h self sub cj = Ok (h', None) <->
  h' = h /\ (~ (total_volume h sub < kvol h (o_b0 (cx h cj)))%Q \/
             exists n, In n (names_of h (t_bl self)) /\ In n (names_of h (t_bl sub))).
Proof.
  unfold embed. cbv zeta. fold (total_volume h sub).
  destruct (qltb (total_volume h sub) (kvol h (o_b0 (cx h cj)))) eqn:Lt.
  - destruct (common_name h self sub) eqn:CN.
    + split.
      * intro H. inversion H; subst h'. split; [reflexivity|]. right. apply common_name_iff. exact CN.
      * intros [-> _]. reflexivity.
    + split.
      * destruct (grid_add h self sub) as [[h1 r1]|]; cbn [bind fst snd]; [|discriminate].
        destruct (tbget r1 (kname h1 (o_b0 (cx h1 cj)))) as [i0|]; [|discriminate].
        destruct (tbget r1 (kname h1 (o_b1 (cx h1 cj)))) as [i1|]; [|discriminate].
        destruct (qadd_connection _ r1 cj) as [[h3 r3]|]; cbn [bind fst snd]; [|discriminate].
        destruct (tbget r3 _); discriminate.
      * intros [_ [N|C]].
        -- exfalso. apply N. apply qltb_lt. exact Lt.
        -- apply common_name_iff in C. congruence.
  - split.
    + intro H. inversion H; subst h'. split; [reflexivity|]. left. intro L. apply qltb_lt in L. congruence.
    + intros [-> _]. reflexivity.
Qed.

(** whatever embed returns without raising, self's and the sub-grid's tables are values it cannot change; when it
    returns a grid, the conditions of a refusal are both false *)
Corollary embed_some_conditions h self sub cj h' r : embed h self sub cj = Ok (h', Some r) ->
  (total_volume h sub < kvol h (o_b0 (cx h cj)))%Q /\
  forall n, In n (names_of h (t_bl self)) -> ~ In n (names_of h (t_bl sub)).
Proof.
  unfold embed. cbv zeta. fold (total_volume h sub).
  destruct (qltb (total_volume h sub) (kvol h (o_b0 (cx h cj)))) eqn:Lt; [|discriminate].
  destruct (common_name h self sub) eqn:CN; [discriminate|]. intros _.
  split; [apply qltb_lt; exact Lt|apply common_name_false; exact CN].
Qed.

(** minc() with fewer than two volume fractions raises ("must have at least two volume fractions"), for every
    grid and selection; with at least two it never raises that way on an empty selection but IndexError *)
Theorem minc_too_few_fractions mbname mrname dd aa atm h t fr blocks : (length fr < 2)%nat ->
  minc mbname mrname dd aa atm h t fr blocks = Raise PlainException.
Proof.
  intro L. unfold minc. destruct (Nat.ltb_spec (length fr) 2); [reflexivity|lia].
Qed.

(** instances: embedding the example grid into itself is refused (every block name is common) and leaves the heap alone;
    the embed of MincBuild.v is accepted, so both refusal conditions are false there; a single fraction is refused *)
Example refusal_instance :
  embed ex_h3 ex_t ex_t ex_cj = Ok (ex_h3, None) /\
  (exists n, In n (names_of ex_h3 (t_bl ex_t)) /\ In n (names_of ex_h3 (t_bl ex_t))) /\
  embed ex_h3 ex_t ex_sub ex_cj = Ok (ex_h4, Some ex_r) /\
  minc default_mbname default_mrname ex_dd ex_aa ex_atm ex_h ex_t [1] [] = Raise PlainException.
Proof.
  split; [vm_compute; reflexivity|]. split.
  - exists (tk "  a 1"). split; vm_compute; tauto.
  - split; vm_compute; reflexivity.
Qed.
