(** C09 -- property theorems only.  Model: GridPhys.v (t2grid with the physical payload). *)
From Coq Require Import Ascii String List Bool PArith NArith FMapPositive Permutation.
From PTBase Require Import Exn PyStr.
From P Require Import Assoc GridPhys PhysLemmas PhysProofs.
Import ListNotations.
Open Scope list_scope.

(** reorder: any permutation of blocks and connections, any subset of connections listed reversed.
    Every block keeps (name, volume, rock type, centre); every connection keeps its signature or,
    when listed with its blocks swapped, has exactly the swapped signature: distances and nad values
    follow their blocks, the gravity cosine is negated, area and direction are unchanged. *)
Theorem reorder_preserves_physics : forall g bns cns g', reorder g bns cns = Ok g' -> NoDup (clist g') ->
  (forall i, bsig g' i = bsig g i) /\
  (forall j, csig g' j = csig g j \/ csig g' j = swap_sig (csig g j)).
Proof. exact reorder_physics. Qed.
Print Assumptions reorder_preserves_physics.
Theorem reorder_preserves_block_list_physics : forall g bns cns g', reorder g bns cns = Ok g' -> NoDup (clist g') ->
  Permutation (blist g) (blist g') -> Permutation (map (bsig g) (blist g)) (map (bsig g') (blist g')).
Proof. exact reorder_block_physics. Qed.
Print Assumptions reorder_preserves_block_list_physics.

(** rename_blocks: the lists are unchanged, every block of the grid carries its mapped name and its old
    volume / rock type / centre, every connection its old payload with both names mapped *)
Theorem rename_relabels_physics : forall g m g', NoDup (blist g) -> rename_blocks g m = Ok g' ->
  blist g' = blist g /\ clist g' = clist g /\
  (forall i, In i (blist g) -> bsig g' i = (mapname m (bn g i), bv g i, rn g (br g i), bc g i)) /\
  (forall j, In (c0 g j) (blist g) -> In (c1 g j) (blist g) -> csig g' j = relabel m (csig g j)).
Proof. exact rename_physics. Qed.
Print Assumptions rename_relabels_physics.

(** a concrete reversal: the vertical connection (lower, upper) with distances (4.0, 2.5) and cosine -1.0
    listed as (upper, lower) gets distances (2.5, 4.0) and cosine 1.0 *)
Theorem example_reversal : exists g g', run empty ops1 = Ok g /\ reorder g [] [(tok "  a 1", tok "  a 2")] = Ok g' /\
    csig g 4%positive = {| s_n0 := tok "  a 2"; s_n1 := tok "  a 1"; s_d0 := tok "4.0"; s_d1 := tok "2.5"; s_area := tok "100.0";
                           s_dir := tok "3"; s_cos := tok "-1.0"; s_nad0 := tok "None"; s_nad1 := tok "None" |} /\
    csig g' 4%positive = {| s_n0 := tok "  a 1"; s_n1 := tok "  a 2"; s_d0 := tok "2.5"; s_d1 := tok "4.0"; s_area := tok "100.0";
                            s_dir := tok "3"; s_cos := tok "1.0"; s_nad0 := tok "None"; s_nad1 := tok "None" |}.
Proof. exact reversal_moves_payload. Qed.
Print Assumptions example_reversal.
