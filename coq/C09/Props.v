(** C09 -- property theorems only.  Models: GridPhys.v (t2grid with the physical payload as tokens: reorder,
    rename_blocks) and MincModel.v (heap of objects with rational volumes / distances / areas: minc, __add__, embed). *)
From Coq Require Import Ascii String List Bool PArith NArith ZArith QArith FMapPositive Permutation.
From PTBase Require Import Exn PyStr.
From P Require Import Assoc GridPhys PhysLemmas PhysProofs PhysCompose MincModel MincLemmas MincProofs MincThms EmbedProofs MincBuild MincTotal RefuseProofs MincCounts.
Import ListNotations.
Open Scope list_scope.

(** reorder: any permutation of blocks and connections, any subset of connections listed reversed.
    Every block keeps (name, volume, rock type, centre); every connection keeps its signature or,
    when listed with its blocks swapped, has exactly the swapped signature: distances and nad values
    follow their blocks, the gravity cosine is negated, area and direction are unchanged. *)
Theorem reorder_preserves_physics : forall g bns cns g', reorder g bns cns = Ok g' -> NoDup (clist g') ->
  (forall i, bsig g' i = bsig g i) /\
  (forall j, csig g' j = csig g j \/ csig g' j = swap_sig (csig g j)).
Proof. exact reorder_physics. Qed.
Print Assumptions reorder_preserves_physics.
Theorem reorder_preserves_block_list_physics : forall g bns cns g', reorder g bns cns = Ok g' -> NoDup (clist g') ->
  Permutation (blist g) (blist g') -> Permutation (map (bsig g) (blist g)) (map (bsig g') (blist g')).
Proof. exact reorder_block_physics. Qed.
Print Assumptions reorder_preserves_block_list_physics.

(** rename_blocks: the lists are unchanged, every block of the grid carries its mapped name and its old
    volume / rock type / centre, every connection its old payload with both names mapped *)
Theorem rename_relabels_physics : forall g m g', NoDup (blist g) -> rename_blocks g m = Ok g' ->
  blist g' = blist g /\ clist g' = clist g /\
  (forall i, In i (blist g) -> bsig g' i = (mapname m (bn g i), bv g i, rn g (br g i), bc g i)) /\
  (forall j, In (c0 g j) (blist g) -> In (c1 g j) (blist g) -> csig g' j = relabel m (csig g j)).
Proof. exact rename_physics. Qed.
Print Assumptions rename_relabels_physics.

(** a concrete reversal: the vertical connection (lower, upper) with distances (4.0, 2.5) and cosine -1.0
    listed as (upper, lower) gets distances (2.5, 4.0) and cosine 1.0 *)
Theorem example_reversal : exists g g', run empty ops1 = Ok g /\ reorder g [] [(tok "  a 1", tok "  a 2")] = Ok g' /\
    csig g 4%positive = {| s_n0 := tok "  a 2"; s_n1 := tok "  a 1"; s_d0 := tok "4.0"; s_d1 := tok "2.5"; s_area := tok "100.0";
                           s_dir := tok "3"; s_cos := tok "-1.0"; s_nad0 := tok "None"; s_nad1 := tok "None" |} /\
    csig g' 4%positive = {| s_n0 := tok "  a 1"; s_n1 := tok "  a 2"; s_d0 := tok "2.5"; s_d1 := tok "4.0"; s_area := tok "100.0";
                            s_dir := tok "3"; s_cos := tok "1.0"; s_nad0 := tok "None"; s_nad1 := tok "None" |}.
Proof. exact reversal_moves_payload. Qed.
Print Assumptions example_reversal.

(** compositions: after ANY finite sequence of rename_blocks (one-to-one maps) and reorder calls (each naming every
    block and connection once, connections in either orientation) the block and connection lists are permutations
    of the original ones, every block has its composed new name and its old volume / rock type / centre, the composed
    relabelling is one-to-one on the grid's block names, and every connection has its relabelled signature with the
    two ends swapped some number of times *)
Theorem edits_preserve_physics : forall ops g g', NoDup (blist g) -> NoDup (clist g) -> pre_all g ops -> run g ops = Ok g' ->
  Permutation (blist g) (blist g') /\ Permutation (clist g) (clist g') /\
  (forall i, In i (blist g) -> bsig g' i = (relab ops (bn g i), bv g i, rn g (br g i), bc g i)) /\
  (forall i i', In i (blist g) -> In i' (blist g) -> relab ops (bn g i) = relab ops (bn g i') -> bn g i = bn g i') /\
  (forall j, In (c0 g j) (blist g) -> In (c1 g j) (blist g) -> exists k, csig g' j = swaps k (relabel_f (relab ops) (csig g j))).
Proof. exact edits_physics. Qed.
Print Assumptions edits_preserve_physics.
(** ... which for a cosine token that is its own double negation (a number or None) is: the relabelled signature,
    or the relabelled signature listed the other way round *)
Theorem edits_preserve_physics_two_way : forall ops g g', NoDup (blist g) -> NoDup (clist g) -> pre_all g ops -> run g ops = Ok g' ->
  forall j, In (c0 g j) (blist g) -> In (c1 g j) (blist g) -> cos_ok (co g j) ->
    csig g' j = relabel_f (relab ops) (csig g j) \/ csig g' j = swap_sig (relabel_f (relab ops) (csig g j)).
Proof. exact edits_physics_two_way. Qed.
Print Assumptions edits_preserve_physics_two_way.
Theorem example_edits :
  NoDup (blist ex_g) /\ NoDup (clist ex_g) /\ pre_all ex_g ex_edits /\ (exists g', run ex_g ex_edits = Ok g') /\
  In (c0 ex_g 4%positive) (blist ex_g) /\ In (c1 ex_g 4%positive) (blist ex_g) /\ cos_ok (co ex_g 4%positive) /\
  relab ex_edits (tok "  a 1") = tok "  a 2" /\ relab ex_edits (tok "  a 2") = tok "  a 1".
Proof. exact edits_instance. Qed.
Print Assumptions example_edits.

(** MINC, for every naming function pair, every geometry (d, a), every cut-off, every fraction list, every
    selection of distinct names of blocks of a well-formed grid.
    minc_volume_split: a processed block (selected, 0 < V < atmos_volume) has, afterwards, continuum k (the block
    itself for k = 0, the block named matrix_blockname(n, k) above) of volume V * fraction_k / sum(fractions), exactly,
    for every k; and these volumes add up to V. *)
Theorem minc_volume_split : forall mbname mrname dd aa atm h t fr blocks h' t', wf h t ->
  NoDup (selection h t blocks) -> (forall n, In n (selection h t blocks) -> tbget t n <> None) ->
  minc mbname mrname dd aa atm h t fr blocks = Ok (h', t') ->
  forall n i, In n (selection h t blocks) -> tbget t n = Some i -> (0 < kvol h i)%Q -> (kvol h i < atm)%Q ->
    (forall k, (k < length fr)%nat -> vol_named h' t' (cname mbname n k) = (kvol h i * (nth k fr 0 / sumQ fr))%Q) /\
    (~ (sumQ fr == 0)%Q -> (sumQ (map (fun k => vol_named h' t' (cname mbname n k)) (seq 0 (length fr))) == kvol h i)%Q).
Proof. exact minc_split. Qed.
Print Assumptions minc_volume_split.
(** minc_chain: the complete block list and connection list afterwards.  Blocks: the original ones in place (processed
    ones with the fracture fraction of their volume and the level-0 rock name), then per processed block, in selection
    order, its matrix blocks level 1 .. L-1 with (name, V * fraction, level rock name, the block's centre).
    Connections: the old ones with unchanged signatures, then per processed block exactly the chain
    (continuum k-1, continuum k, d[k-1], d[k], V * a[k-1], direction 1, no gravity cosine), k = 1 .. L-1. *)
Theorem minc_chain : forall mbname mrname dd aa atm h t fr blocks h' t', wf h t ->
  NoDup (selection h t blocks) -> (forall n, In n (selection h t blocks) -> tbget t n <> None) ->
  minc mbname mrname dd aa atm h t fr blocks = Ok (h', t') ->
  let sel := selection h t blocks in let vfs := normalise fr in
  wf h' t' /\
  map (qbsig h') (t_bl t') = map (frac_sig mrname atm vfs h t sel) (t_bl t) ++
                             flat_map (matrix_level_sigs mbname mrname vfs h t) (processed_names atm h t sel) /\
  map (qcsig h') (t_cl t') = map (qcsig h) (t_cl t) ++ flat_map (chain_level_sigs mbname dd aa vfs h t) (processed_names atm h t sel).
Proof. exact minc_lists. Qed.
Print Assumptions minc_chain.
(** minc_partial: blocks not selected or outside 0 < V < atmos_volume are the same records afterwards
    (connection_name included); so are all existing connections and rock types *)
Theorem minc_partial : forall mbname mrname dd aa atm h t fr blocks h' t', wf h t ->
  NoDup (selection h t blocks) -> (forall n, In n (selection h t blocks) -> tbget t n <> None) ->
  minc mbname mrname dd aa atm h t fr blocks = Ok (h', t') ->
  (forall i, In i (t_bl t) -> ~ In (kname h i) (selection h t blocks) \/ ~ ((0 < kvol h i)%Q /\ (kvol h i < atm)%Q) -> bk h' i = bk h i) /\
  (forall j, In j (t_cl t) -> cx h' j = cx h j) /\
  (forall x, (x < hnext h)%positive -> rk h' x = rk h x).
Proof. exact minc_untouched_blocks. Qed.
Print Assumptions minc_partial.
(** with blocks = None the selection (all block names of a well-formed grid) meets the side conditions *)
Theorem minc_default_selection_ok : forall h t, wf h t ->
  NoDup (selection h t []) /\ (forall n, In n (selection h t []) -> tbget t n <> None).
Proof. exact selection_all_ok. Qed.
Print Assumptions minc_default_selection_ok.
(** grids built object by object under distinct names are well-formed (the hypothesis [wf] is what t2grid maintains) *)
Theorem built_grids_wf : forall ops h t h' t', wf h t -> grun_fresh h t ops = true -> grun h t ops = Ok (h', t') -> wf h' t'.
Proof. exact grun_wf. Qed.
Print Assumptions built_grids_wf.
Theorem example_minc :
  wf ex_h ex_t /\ NoDup (selection ex_h ex_t []) /\ (forall n, In n (selection ex_h ex_t []) -> tbget ex_t n <> None) /\
  minc default_mbname default_mrname ex_dd ex_aa ex_atm ex_h ex_t [1; 3] [] = Ok (ex_h', ex_t') /\
  map (fun n => Qred (vol_named ex_h' ex_t' (tk n))) ["ATM 0"; "  a 1"; "1 a 1"; "  a 2"; "1 a 2"]%string =
    [10000000000000000000000000 # 1; 125; 375; 200; 600] /\
  map (fun j => (kname ex_h' (o_b0 (cx ex_h' j)), kname ex_h' (o_b1 (cx ex_h' j)))) (t_cl ex_t') =
    [(tk "  a 1", tk "ATM 0"); (tk "  a 2", tk "  a 1"); (tk "  a 1", tk "1 a 1"); (tk "  a 2", tk "1 a 2")] /\
  map (fun i => x_name (rk ex_h' (k_rock (bk ex_h' i)))) (t_bl ex_t') = [tk "dfalt"; tk "dfalt"; tk "dfalt"; tk "Xfalt"; tk "Xfalt"].
Proof. exact minc_instance. Qed.
Print Assumptions example_minc.

(** embed: when it returns a grid (host block larger than the sub-grid, no common block name) the result lists the
    blocks of both grids, its total volume is the total volume of self, and the block filed under the host's name has
    lost exactly the sub-grid's volume *)
Theorem embed_conserves_volume : forall h self sub cj h' r,
  NoDup (names_of h (t_bl self)) -> NoDup (names_of h (t_bl sub)) ->
  embed h self sub cj = Ok (h', Some r) ->
  t_bl r = t_bl self ++ t_bl sub /\
  (total_volume h' r == total_volume h self)%Q /\
  (total_volume h sub < kvol h (o_b0 (cx h cj)))%Q /\
  exists ih, tbget r (kname h (o_b0 (cx h cj))) = Some ih /\ In ih (t_bl r) /\
             kvol h' ih = (kvol h ih - total_volume h sub)%Q /\ (forall x, x <> ih -> kvol h' x = kvol h x).
Proof. exact embed_spec. Qed.
Print Assumptions embed_conserves_volume.
Theorem example_embed :
  NoDup (names_of ex_h3 (t_bl ex_t)) /\ NoDup (names_of ex_h3 (t_bl ex_sub)) /\
  embed ex_h3 ex_t ex_sub ex_cj = Ok (ex_h4, Some ex_r) /\
  Qred (total_volume ex_h3 ex_t) = Qred (total_volume ex_h4 ex_r) /\
  Qred (vol_named ex_h4 ex_r (tk "  a 1")) = 400 /\ Qred (vol_named ex_h4 ex_r (tk "sub 1")) = 100 /\
  names_of ex_h4 (t_bl ex_r) = [tk "ATM 0"; tk "  a 1"; tk "  a 2"; tk "sub 1"].
Proof. exact embed_instance. Qed.
Print Assumptions example_embed.

(** minc conserves the TOTAL volume of the grid: for every naming function pair, geometry, cut-off, fraction list whose
    sum is not zero and every selection of distinct block names of a well-formed grid, the sum of the volumes of the
    whole block list afterwards (fracture and matrix continua of the processed blocks, every other block) equals
    the sum before *)
Theorem minc_conserves_total_volume : forall mbname mrname dd aa atm h t fr blocks h' t', wf h t ->
  NoDup (selection h t blocks) -> (forall n, In n (selection h t blocks) -> tbget t n <> None) ->
  minc mbname mrname dd aa atm h t fr blocks = Ok (h', t') -> ~ (sumQ fr == 0)%Q ->
  (total_volume h' t' == total_volume h t)%Q.
Proof. exact minc_total_volume. Qed.
Print Assumptions minc_conserves_total_volume.
Theorem example_minc_total :
  ~ (sumQ [1; 3] == 0)%Q /\ Qred (total_volume ex_h' ex_t') = Qred (total_volume ex_h ex_t) /\
  length (t_bl ex_t') = 5%nat /\ length (t_bl ex_t) = 3%nat.
Proof. exact minc_total_instance. Qed.
Print Assumptions example_minc_total.

(** refusals.  embed returns None EXACTLY when the host block's volume does not exceed the sub-grid's total volume or
    some block name occurs in both grids, and then no object of the heap (so neither grid) has been changed;
    minc with fewer than two volume fractions raises, whatever the grid and the selection *)
Theorem embed_refuses_exactly : forall h self sub cj h',
  embed h self sub cj = Ok (h', None) <->
  h' = h /\ (~ (total_volume h sub < kvol h (o_b0 (cx h cj)))%Q \/
             exists n, In n (names_of h (t_bl self)) /\ In n (names_of h (t_bl sub))).
Proof. exact embed_none_iff. Qed.
Print Assumptions embed_refuses_exactly.
Theorem minc_refuses_single_fraction : forall mbname mrname dd aa atm h t fr blocks, (length fr < 2)%nat ->
  minc mbname mrname dd aa atm h t fr blocks = Raise PlainException.
Proof. exact minc_too_few_fractions. Qed.
Print Assumptions minc_refuses_single_fraction.
Theorem example_refusals :
  embed ex_h3 ex_t ex_t ex_cj = Ok (ex_h3, None) /\
  (exists n, In n (names_of ex_h3 (t_bl ex_t)) /\ In n (names_of ex_h3 (t_bl ex_t))) /\
  embed ex_h3 ex_t ex_sub ex_cj = Ok (ex_h4, Some ex_r) /\
  minc default_mbname default_mrname ex_dd ex_aa ex_atm ex_h ex_t [1] [] = Raise PlainException.
Proof. exact refusal_instance. Qed.
Print Assumptions example_refusals.

(** how much minc adds: exactly (number of fractions - 1) matrix blocks and as many nested connections per processed
    block (selected, 0 < V < atmos_volume), nothing else *)
Theorem minc_adds_exactly : forall mbname mrname dd aa atm h t fr blocks h' t', wf h t ->
  NoDup (selection h t blocks) -> (forall n, In n (selection h t blocks) -> tbget t n <> None) ->
  minc mbname mrname dd aa atm h t fr blocks = Ok (h', t') ->
  let np := length (processed_names atm h t (selection h t blocks)) in
  length (t_bl t') = (length (t_bl t) + np * (length fr - 1))%nat /\
  length (t_cl t') = (length (t_cl t) + np * (length fr - 1))%nat.
Proof. exact minc_counts. Qed.
Print Assumptions minc_adds_exactly.
(** an empty selection (empty grid, blocks=None) raises IndexError once the fraction count is accepted *)
Theorem minc_refuses_empty_selection : forall mbname mrname dd aa atm h t fr blocks, (2 <= length fr)%nat ->
  selection h t blocks = [] -> minc mbname mrname dd aa atm h t fr blocks = Raise IndexError.
Proof. exact minc_empty_selection. Qed.
Print Assumptions minc_refuses_empty_selection.
Theorem example_minc_counts :
  length (processed_names ex_atm ex_h ex_t (selection ex_h ex_t [])) = 2%nat /\
  length (t_bl ex_t) = 3%nat /\ length (t_bl ex_t') = 5%nat /\ length (t_cl ex_t) = 2%nat /\ length (t_cl ex_t') = 4%nat /\
  selection heap0 tabs0 [] = [].
Proof. exact minc_counts_instance. Qed.
Print Assumptions example_minc_counts.
