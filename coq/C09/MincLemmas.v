(** C09 -- lemmas about the heap/containers model of MincModel.v: reads after writes, the
    well-formedness [wf] of a grid over a heap (what t2grid's own bookkeeping guarantees: the block and
    connection dictionaries describe the lists, connections join blocks of the grid, registered rock
    types are filed under their names, ids are below the allocation counter), its transport along heap
    changes that keep names, and its preservation when a new object is added to the containers. *)
From Coq Require Import Ascii String List Bool PArith NArith ZArith QArith FMapPositive Lia.
From PTBase Require Import Exn PyStr.
From P Require Import Assoc GridPhys MincModel.
Import ListNotations.
Open Scope list_scope.
Local Open Scope positive_scope.

(** * reads after writes *)
Lemma bk_alloc_blk h b x : bk (alloc_blk h b) x = if Pos.eqb x (hnext h) then b else bk h x.
Proof. apply fget_fset. Qed.
Lemma bk_alloc_rock h r x : bk (alloc_rock h r) x = bk h x. Proof. reflexivity. Qed.
Lemma bk_alloc_con h c x : bk (alloc_con h c) x = bk h x. Proof. reflexivity. Qed.
Lemma bk_set_blk h i b x : bk (set_blk h i b) x = if Pos.eqb x i then b else bk h x.
Proof. apply fget_fset. Qed.
Lemma bk_set_con h j c x : bk (set_con h j c) x = bk h x. Proof. reflexivity. Qed.
Lemma rk_alloc_rock h r x : rk (alloc_rock h r) x = if Pos.eqb x (hnext h) then r else rk h x.
Proof. apply fget_fset. Qed.
Lemma rk_alloc_blk h b x : rk (alloc_blk h b) x = rk h x. Proof. reflexivity. Qed.
Lemma rk_alloc_con h c x : rk (alloc_con h c) x = rk h x. Proof. reflexivity. Qed.
Lemma rk_set_blk h i b x : rk (set_blk h i b) x = rk h x. Proof. reflexivity. Qed.
Lemma rk_set_con h j c x : rk (set_con h j c) x = rk h x. Proof. reflexivity. Qed.
Lemma cx_alloc_con h c x : cx (alloc_con h c) x = if Pos.eqb x (hnext h) then c else cx h x.
Proof. apply fget_fset. Qed.
Lemma cx_alloc_rock h r x : cx (alloc_rock h r) x = cx h x. Proof. reflexivity. Qed.
Lemma cx_alloc_blk h b x : cx (alloc_blk h b) x = cx h x. Proof. reflexivity. Qed.
Lemma cx_set_blk h i b x : cx (set_blk h i b) x = cx h x. Proof. reflexivity. Qed.
Lemma cx_set_con h j c x : cx (set_con h j c) x = if Pos.eqb x j then c else cx h x.
Proof. apply fget_fset. Qed.

Lemma eqb_lt_false x n : x < n -> Pos.eqb x n = false.
Proof. intro H. apply Pos.eqb_neq. lia. Qed.

(** two block records with the same physics (everything but the connection_name set) *)
Definition same_phys (b b' : blkrec) : Prop :=
  k_name b = k_name b' /\ k_vol b = k_vol b' /\ k_rock b = k_rock b' /\ k_cen b = k_cen b'.
Lemma same_phys_refl b : same_phys b b. Proof. repeat split. Qed.
Lemma same_phys_trans a b c : same_phys a b -> same_phys b c -> same_phys a c.
Proof. unfold same_phys. intuition congruence. Qed.
Lemma same_phys_with_cn b s : same_phys (with_cn b s) b. Proof. repeat split. Qed.

(** [frame T h h']: [h'] has the objects of [h] (ids below [hnext h]) with the same rock and
    connection records and the same block physics; blocks outside [T] are identical records *)
Record frame (T : id -> Prop) (h h' : heap) : Prop := {
  fr_next : hnext h <= hnext h';
  fr_rk : forall x, x < hnext h -> rk h' x = rk h x;
  fr_cx : forall x, x < hnext h -> cx h' x = cx h x;
  fr_bk : forall x, x < hnext h -> same_phys (bk h' x) (bk h x);
  fr_un : forall x, x < hnext h -> ~ T x -> bk h' x = bk h x }.
Lemma frame_refl T h : frame T h h.
Proof. constructor; intros; try reflexivity; try apply same_phys_refl; try lia. Qed.
Lemma frame_trans T T' h h1 h2 : frame T h h1 -> frame T' h1 h2 -> (forall x, x < hnext h -> T' x -> T x) -> frame T h h2.
Proof.
  intros A B S. destruct A as [An Ar Ac Ab Au], B as [Bn Br Bc Bb Bu]. constructor.
  - lia.
  - intros x Hx. rewrite Br by lia. apply Ar; exact Hx.
  - intros x Hx. rewrite Bc by lia. apply Ac; exact Hx.
  - intros x Hx. eapply same_phys_trans; [apply Bb; lia|apply Ab; exact Hx].
  - intros x Hx N. rewrite Bu; [apply Au; assumption|lia|]. intro X. apply N. apply S; assumption.
Qed.
Lemma frame_weaken (T T' : id -> Prop) h h' : frame T h h' -> (forall x, T x -> T' x) -> frame T' h h'.
Proof. intros [A B C D E] S. constructor; auto. Qed.
Lemma frame_alloc_rock T h r : frame T h (alloc_rock h r).
Proof.
  constructor; cbn [hnext alloc_rock]; intros.
  - lia.
  - rewrite rk_alloc_rock, eqb_lt_false by assumption. reflexivity.
  - reflexivity.
  - apply same_phys_refl.
  - reflexivity.
Qed.
Lemma frame_alloc_blk T h b : frame T h (alloc_blk h b).
Proof.
  constructor; cbn [hnext alloc_blk]; intros.
  - lia.
  - reflexivity.
  - reflexivity.
  - rewrite bk_alloc_blk, eqb_lt_false by assumption. apply same_phys_refl.
  - rewrite bk_alloc_blk, eqb_lt_false by assumption. reflexivity.
Qed.
Lemma frame_alloc_con T h c : frame T h (alloc_con h c).
Proof.
  constructor; cbn [hnext alloc_con]; intros.
  - lia.
  - reflexivity.
  - rewrite cx_alloc_con, eqb_lt_false by assumption. reflexivity.
  - apply same_phys_refl.
  - reflexivity.
Qed.
Lemma frame_cn_add (T : id -> Prop) h i k : T i -> frame T h (cn_add h i k).
Proof.
  intro Ti. unfold cn_add. constructor; cbn [hnext set_blk]; intros.
  - lia.
  - reflexivity.
  - reflexivity.
  - rewrite bk_set_blk. destruct (Pos.eqb_spec x i) as [->|N]; [apply same_phys_with_cn|apply same_phys_refl].
  - rewrite bk_set_blk. destruct (Pos.eqb_spec x i) as [->|N]; [contradiction|reflexivity].
Qed.

(** * well-formed grid over a heap *)
Record wf (h : heap) (t : tabs) : Prop := {
  wf_b : DL (kname h) (t_bl t) (t_bd t);
  wf_c : DL (okey h) (t_cl t) (t_cd t);
  wf_ends : forall j, In j (t_cl t) -> In (o_b0 (cx h j)) (t_bl t) /\ In (o_b1 (cx h j)) (t_bl t);
  wf_r : forall n j, trget t n = Some j -> x_name (rk h j) = n /\ j < hnext h;
  wf_fb : forall i, In i (t_bl t) -> i < hnext h /\ k_rock (bk h i) < hnext h;
  wf_fc : forall j, In j (t_cl t) -> j < hnext h }.

Lemma wf_empty : wf heap0 tabs0.
Proof. constructor; cbn; try (apply DL_empty); try tauto; intros; discriminate. Qed.

(** the dictionary and the list agree *)
Lemma wf_tbget h t n i : wf h t -> tbget t n = Some i -> In i (t_bl t) /\ kname h i = n.
Proof. intros W H. exact (DL_aget str_eqb str_spec _ _ _ _ _ (wf_b _ _ W) H). Qed.
Lemma wf_tbget_name h t i : wf h t -> In i (t_bl t) -> tbget t (kname h i) = Some i.
Proof. intros W H. exact (DL_aget_name str_eqb str_spec _ _ _ _ (wf_b _ _ W) H). Qed.
Lemma wf_name_inj h t i i' : wf h t -> In i (t_bl t) -> In i' (t_bl t) -> kname h i = kname h i' -> i = i'.
Proof. intros W. exact (DL_inj str_eqb str_spec _ _ _ _ _ (wf_b _ _ W)). Qed.

(** heap changes that keep names, connection ends and rock names keep the grid well-formed *)
Lemma wf_transport h h' t : wf h t -> hnext h <= hnext h' ->
  (forall x, x < hnext h -> k_name (bk h' x) = k_name (bk h x)) ->
  (forall x, In x (t_bl t) -> k_rock (bk h' x) < hnext h') ->
  (forall x, x < hnext h -> o_b0 (cx h' x) = o_b0 (cx h x) /\ o_b1 (cx h' x) = o_b1 (cx h x)) ->
  (forall x, x < hnext h -> x_name (rk h' x) = x_name (rk h x)) -> wf h' t.
Proof.
  intros W Hn Hk Hr Hc Hx.
  assert (Kn : forall i, In i (t_bl t) -> kname h' i = kname h i).
  { intros i Hi. unfold kname. apply Hk. apply (wf_fb _ _ W). exact Hi. }
  assert (Ck : forall j, In j (t_cl t) -> okey h' j = okey h j).
  { intros j Hj. unfold okey. destruct (Hc j (wf_fc _ _ W _ Hj)) as [E0 E1]. rewrite E0, E1.
    destruct (wf_ends _ _ W _ Hj) as [I0 I1]. rewrite (Kn _ I0), (Kn _ I1). reflexivity. }
  constructor.
  - eapply DL_ext; [|apply (wf_b _ _ W)]. exact Kn.
  - eapply DL_ext; [|apply (wf_c _ _ W)]. exact Ck.
  - intros j Hj. destruct (Hc j (wf_fc _ _ W _ Hj)) as [E0 E1]. rewrite E0, E1. apply (wf_ends _ _ W). exact Hj.
  - intros n j H. destruct (wf_r _ _ W _ _ H) as [E L]. split; [rewrite Hx by exact L; exact E|lia].
  - intros i Hi. split; [|apply Hr; exact Hi]. destruct (wf_fb _ _ W _ Hi). lia.
  - intros j Hj. pose proof (wf_fc _ _ W _ Hj). lia.
Qed.
Lemma wf_frame (T : id -> Prop) h h' t : wf h t -> frame T h h' -> wf h' t.
Proof.
  intros W F. apply (wf_transport h h' t W (fr_next _ _ _ F)).
  - intros x Hx. apply (fr_bk _ _ _ F). exact Hx.
  - intros x Hx. destruct (wf_fb _ _ W _ Hx) as [L R]. destruct (fr_bk _ _ _ F x L) as [_ [_ [E _]]]. rewrite E.
    pose proof (fr_next _ _ _ F). lia.
  - intros x Hx. rewrite (fr_cx _ _ _ F x Hx). split; reflexivity.
  - intros x Hx. rewrite (fr_rk _ _ _ F x Hx). reflexivity.
Qed.

(** * adding an object to the containers *)
Lemma wf_add_rock h t n j : wf h t -> x_name (rk h j) = n -> j < hnext h ->
  wf h (with_r t (t_rl t ++ [j]) (aset str_eqb (t_rd t) n j)).
Proof.
  intros W E L. destruct W as [Wb Wc We Wr Wfb Wfc]. constructor; cbn [with_r t_bl t_bd t_cl t_cd t_rl t_rd]; auto.
  intros n' j' H. unfold trget in H. cbn [with_r t_rd] in H. rewrite (aget_aset str_eqb str_spec) in H.
  destruct (str_spec n' n) as [->|N]; [inversion H; subst j'; split; [exact E|exact L]|apply Wr; exact H].
Qed.
Lemma wf_add_block h t i : wf h t -> tbget t (kname h i) = None -> ~ In i (t_bl t) ->
  i < hnext h -> k_rock (bk h i) < hnext h ->
  wf h (with_b t (t_bl t ++ [i]) (aset str_eqb (t_bd t) (kname h i) i)).
Proof.
  intros W E NI L R. destruct W as [Wb Wc We Wr Wfb Wfc]. constructor; cbn [with_b t_bl t_bd t_cl t_cd t_rl t_rd]; auto.
  - apply (DL_add_new str_eqb str_spec); auto.
  - intros j Hj. destruct (We j Hj). split; apply in_or_app; left; assumption.
  - intros x Hx. apply in_app_or in Hx. destruct Hx as [Hx|[<-|[]]]; [apply Wfb; exact Hx|split; assumption].
Qed.
Lemma wf_add_con h t j : wf h t -> tcget t (okey h j) = None -> ~ In j (t_cl t) -> j < hnext h ->
  In (o_b0 (cx h j)) (t_bl t) -> In (o_b1 (cx h j)) (t_bl t) ->
  wf h (with_c t (t_cl t ++ [j]) (aset key2_eqb (t_cd t) (okey h j) j)).
Proof.
  intros W E NI L I0 I1. destruct W as [Wb Wc We Wr Wfb Wfc]. constructor; cbn [with_c t_bl t_bd t_cl t_cd t_rl t_rd]; auto.
  - apply (DL_add_new key2_eqb key2_spec); auto.
  - intros x Hx. apply in_app_or in Hx. destruct Hx as [Hx|[<-|[]]]; [apply We; exact Hx|split; assumption].
  - intros x Hx. apply in_app_or in Hx. destruct Hx as [Hx|[<-|[]]]; [apply Wfc; exact Hx|exact L].
Qed.

(** a connection key whose second name is not a block of the grid is not in the dictionary *)
Lemma wf_tcget_none h t k : wf h t -> tbget t (snd k) = None -> tcget t k = None.
Proof.
  intros W E. unfold tcget. apply (aget_notin_keys key2_eqb key2_spec). intro H.
  apply (DL_key_in key2_eqb key2_spec _ _ _ _ (wf_c _ _ W)) in H. destruct H as [j [Hj Ek]].
  destruct (wf_ends _ _ W _ Hj) as [_ I1]. apply (wf_tbget_name _ _ _ W) in I1.
  subst k. unfold okey in E. cbn [snd] in E. congruence.
Qed.

(** * what qadd_connection does when the key is new *)
Lemma qadd_connection_new h t j : tcget t (okey h j) = None ->
  qadd_connection h t j = Ok (cn_add (cn_add h (o_b0 (cx h j)) (okey h j)) (o_b1 (cx h j)) (okey h j),
                              with_c t (t_cl t ++ [j]) (aset key2_eqb (t_cd t) (okey h j) j)).
Proof. intro E. unfold qadd_connection. rewrite E. reflexivity. Qed.

(** [qadd_connection] only touches the connection_name sets of the two end blocks *)
Lemma qadd_connection_frame h t j h' t' : qadd_connection h t j = Ok (h', t') ->
  frame (fun x => x = o_b0 (cx h j) \/ x = o_b1 (cx h j)) h h' /\ hnext h' = hnext h /\
  (forall x, same_phys (bk h' x) (bk h x)) /\ (forall x, rk h' x = rk h x) /\ (forall x, cx h' x = cx h x) /\
  t_bl t' = t_bl t /\ t_bd t' = t_bd t /\ t_rl t' = t_rl t /\ t_rd t' = t_rd t.
Proof.
  unfold qadd_connection. cbv zeta.
  destruct (match tcget t (okey h j) with Some old => if mem old (t_cl t) then Ok (lreplace (t_cl t) old j) else Raise ValueError
                                         | None => Ok (t_cl t ++ [j]) end) as [cl|]; cbn [bind]; [|discriminate].
  intro H. inversion H; subst h' t'; clear H. repeat match goal with |- _ /\ _ => split end; try reflexivity.
  - eapply (frame_trans _ (fun x => x = o_b0 (cx h j) \/ x = o_b1 (cx h j)));
      [apply frame_cn_add; cbv beta; left; reflexivity|apply frame_cn_add; cbv beta; right; reflexivity|tauto].
  - intro x. unfold cn_add. rewrite !bk_set_blk.
    destruct (Pos.eqb_spec x (o_b1 (cx h j))) as [->|N1].
    + destruct (Pos.eqb_spec (o_b1 (cx h j)) (o_b0 (cx h j))) as [E|N0];
        (eapply same_phys_trans; [apply same_phys_with_cn|]); [rewrite E; apply same_phys_with_cn|apply same_phys_refl].
    + destruct (Pos.eqb_spec x (o_b0 (cx h j))) as [->|N0]; [apply same_phys_with_cn|apply same_phys_refl].
Qed.
