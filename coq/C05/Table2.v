(** C05 -- addressing by row name WITHOUT the distinct-names hypothesis, and what an unknown key yields.

    [listingtable.__init__] builds [_row = dict([(r,i) for i,r in enumerate(rows)])]: on a repeated
    row name the LAST index wins.  [Table.name_vs_index] covers distinct names only; here the row
    returned for ANY name present in the table is characterised exactly (the last row printed under
    that name), and keys that are neither a column, a row nor an admissible reversed row yield None (as the real __getitem__ does). *)
From Coq Require Import Ascii String List Bool Arith Lia.
From PTBase Require Import PyStr.
From P Require Import Table.
Import ListNotations.

Lemma last_index_in_some {A} (eqb : A -> A -> bool) (spec : forall a b, eqb a b = true <-> a = b) x l :
  forall o, In x l -> exists j, last_index eqb x l o = Some j.
Proof.
  induction l as [|y r IH]; intros o H; [destruct H|]. cbn [last_index].
  destruct (last_index eqb x r (S o)) as [j|] eqn:E; [exists j; reflexivity|].
  destruct H as [H|H].
  - subst y. replace (eqb x x) with true by (symmetry; apply spec; reflexivity). exists o. reflexivity.
  - destruct (IH (S o) H) as [j Hj]. rewrite Hj in E. discriminate.
Qed.

Lemma last_index_is_last {A} (eqb : A -> A -> bool) (spec : forall a b, eqb a b = true <-> a = b) x l :
  forall o j, last_index eqb x l o = Some j -> forall m, j - o < m -> nth_error l m <> Some x.
Proof.
  induction l as [|y r IH]; intros o j H m L; [discriminate|]. cbn [last_index] in H.
  destruct m as [|m]; [lia|]. cbn [nth_error].
  destruct (last_index eqb x r (S o)) as [j'|] eqn:E.
  - inversion H; subst j'. pose proof (last_index_some_in eqb spec x r _ _ E) as [Lo _].
    apply (IH _ _ E). lia.
  - intro Hm. apply nth_error_In in Hm.
    destruct (last_index_in_some eqb spec x r (S o) Hm) as [j' Hj']. rewrite Hj' in E. discriminate.
Qed.

Section Table2.
  Variable V : Type.
  Variable neg : V -> V.
  Variable dflt : V.

  Lemma is_row_in (T : table V) k : is_row V T k = true <-> In k (rows V T).
  Proof.
    unfold is_row. rewrite existsb_exists. split.
    - intros [y [Hy E]]. apply pykey_eqb_eq in E. subst y. exact Hy.
    - intro H. exists k. split; [exact H|]. apply pykey_eqb_eq. reflexivity.
  Qed.

  (** [table[name]] for ANY row name present in the table (names may repeat): the row returned is the
      LAST row carrying that name -- row i with name k such that no later row is named k *)
  Theorem name_gives_last_row_of_that_name (T : table V) k :
    is_col V T k = false -> In k (rows V T) ->
    exists i, nth_error (rows V T) i = Some k /\
              (forall m, i < m -> nth_error (rows V T) m <> Some k) /\
              getitem V neg dflt T k = RRow V (row_by_index V dflt T i).
  Proof.
    intros Hc Hin. destruct (last_index_in_some pykey_eqb pykey_eqb_eq k (rows V T) 0 Hin) as [i Hi].
    exists i. pose proof (last_index_some_in pykey_eqb pykey_eqb_eq k (rows V T) 0 i Hi) as [_ Hn].
    rewrite Nat.sub_0_r in Hn. split; [exact Hn|]. split.
    - intros m L. apply (last_index_is_last pykey_eqb pykey_eqb_eq k (rows V T) 0 i Hi). lia.
    - unfold getitem. rewrite Hc. replace (is_row V T k) with true by (symmetry; apply is_row_in; exact Hin).
      unfold row_index. rewrite Hi. reflexivity.
  Qed.

  (** ... so the row returned under a name always carries that name and the cells of a row printed under it *)
  Corollary name_gives_a_row_of_that_name (T : table V) k :
    is_col V T k = false -> In k (rows V T) ->
    exists i r, getitem V neg dflt T k = RRow V r /\ i < length (rows V T) /\ rd_key V r = k /\
                forall c j, col_index V T c = Some j -> rd_get V r c = Some (cell V dflt T i j).
  Proof.
    intros Hc Hin. destruct (name_gives_last_row_of_that_name T k Hc Hin) as [i [Hn [_ Hg]]].
    exists i, (row_by_index V dflt T i). split; [exact Hg|]. split.
    - apply nth_error_Some. rewrite Hn. discriminate.
    - split.
      + cbn [row_by_index rd_key]. apply nth_error_nth. exact Hn.
      + intros c j Hj. cbn [row_by_index rd_get]. rewrite Hj. reflexivity.
  Qed.

  (** a key that is neither a column name, nor a row name, nor (connection tables, key of length > 1) the
      reverse of a row name yields None (no column, no row) *)
  Theorem unknown_key_gives_none (T : table V) k :
    is_col V T k = false -> ~ In k (rows V T) ->
    (allow_rev V T = false \/ key_len k <= 1 \/ ~ In (key_rev k) (rows V T)) ->
    getitem V neg dflt T k = RNone V.
  Proof.
    intros Hc Hr Hx. unfold getitem. rewrite Hc.
    assert (E : is_row V T k = false).
    { destruct (is_row V T k) eqn:E; [|reflexivity]. apply is_row_in in E. contradiction. }
    rewrite E. destruct ((1 <? key_len k)%nat && allow_rev V T) eqn:Eg; [|reflexivity].
    apply andb_prop in Eg as [E1 E2]. apply Nat.ltb_lt in E1.
    destruct Hx as [Hx|[Hx|Hx]]; [congruence|lia|].
    assert (E3 : is_row V T (key_rev k) = false).
    { destruct (is_row V T (key_rev k)) eqn:E3; [|reflexivity]. apply is_row_in in E3. contradiction. }
    rewrite E3. reflexivity.
  Qed.

  (** repeated names are satisfiable hypotheses: two rows named A, [table['A']] is the second *)
  Example name_gives_last_row_example (v0 v1 : V) :
    let T := {| cols := [s2l "P"]; rows := [KS (s2l "A"); KS (s2l "A")]; data := [[v0]; [v1]]; allow_rev := false |} in
    is_col V T (KS (s2l "A")) = false /\ In (KS (s2l "A")) (rows V T) /\
    getitem V neg dflt T (KS (s2l "A")) = RRow V (row_by_index V dflt T 1).
  Proof. cbn zeta. split; [reflexivity|]. split; [left; reflexivity|]. reflexivity. Qed.
End Table2.
