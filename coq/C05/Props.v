(** C05 -- property theorems only.  Each is closed by [exact] of a lemma proved in
    Layout.v / Cells.v / Tokens.v / Table.v / Witness.v and followed by Print Assumptions.
    All statements are about the executable model coq/C05/Model.v, which is replayed
    against every captured call of the real reader on every run. *)
From Coq Require Import Ascii String List Bool Arith ZArith NArith.
From PTBase Require Import Exn PyStr PyNum PyVal.
From PTModel Require Import Fortran.
From P Require Import Model Layout Cells Tokens Table Start Witness.
Import ListNotations.
Open Scope char_scope.

(** A row printed with fixed field ends e1 < ... < en (numbers [hd.tl] right-justified in
    their fields, no blank or second point inside a number), in which each number is
    followed by a blank or carries a letter-E exponent of two characters: the inferred
    layout is exactly [start, e1, ..., en].  No bound on the number or width of fields. *)
Theorem inferred_layout_is_true_layout : forall pre fs start,
  no "." pre -> fs <> [] -> Forall fits fs -> Forall fclean fs -> seps_ok fs ->
  parse_table_line (render_row pre fs) start false = Some (start :: map Z.of_nat (field_ends (length pre) fs)).
Proof. exact layout_theorem. Qed.
Print Assumptions inferred_layout_is_true_layout.

(** the same for a table whose first column is the integer I (ECO2M) *)
Theorem inferred_layout_is_true_layout_I : forall pre fs start sp,
  no "." pre -> fs <> [] -> Forall fits fs -> Forall fclean fs -> seps_ok fs ->
  find " " (render_row pre fs) (norm_idx (length (render_row pre fs)) (start + 1)) (length (render_row pre fs)) = Some sp ->
  parse_table_line (render_row pre fs) start true = Some (start :: Z.of_nat sp :: map Z.of_nat (field_ends (length pre) fs)).
Proof. exact layout_theorem_I. Qed.
Print Assumptions inferred_layout_is_true_layout_I.

(** the side condition cannot be dropped: a properly rendered row on which [parse_table_line] raises *)
Theorem inferred_layout_needs_side_condition_refuted :
  exists pre fs start, no "." pre /\ fs <> [] /\ Forall fits fs /\ Forall fclean fs /\
    parse_table_line (render_row pre fs) start false = None.
Proof. exact layout_needs_side_condition. Qed.
Print Assumptions inferred_layout_needs_side_condition_refuted.

(** finding parse_table_line:noletter-exponent-abuts-on-layout-line, on the exact line text *)
Theorem parse_table_line_noletter_abutting_refuted :
  start_of_values row15 false = Ok (Some 12%Z) /\ parse_table_line row15 12 false = None.
Proof. exact row15_raises. Qed.
Print Assumptions parse_table_line_noletter_abutting_refuted.

(** finding start_of_values:fixed-point-first-number-then-signed-number, on the exact line text *)
Theorem start_of_values_fixed_then_negative_refuted :
  hd [] (fortran_tokens rowneg) = s2l "101300.00" /\ slice 15 24 rowneg = s2l "101300.00" /\
  start_of_values rowneg false = Ok (Some 20%Z) /\
  exists l, parse_table_line rowneg 20 false = Some l /\
            py_eqb (hd zero (read_table_line_TOUGH2 rowneg 10 l)) (fortran_float (s2l "101300.00") zero) = false.
Proof. exact rowneg_start_inside_first_number. Qed.
Print Assumptions start_of_values_fixed_then_negative_refuted.

(** where the values start, on the first row of a table: (1) the first number's own tail carries
    the exponent marker (e/E, + or -): the start is the blank or minus sign two before the point,
    or the character before the point when the index abuts the number *)
Theorem start_of_values_exponential_first_number : forall pre c d fr x y rest,
  no "." pre -> c <> "." -> d <> "." -> no "." fr -> x <> "." -> y <> "." -> marker x ->
  start_of_values_nat (pre ++ c :: d :: "." :: fr ++ x :: y :: rest)
  = if ceqb c "-" || ceqb c " " then Some (length pre) else if is_digit c then Some (length pre + 1) else None.
Proof. exact start_exponential. Qed.
Print Assumptions start_of_values_exponential_first_number.

(** (2) a fixed-point first number, blank-separated from the index, with nothing exponent-like
    between the first two points (this is the guard the finding above violates): the start is
    the character after the index *)
Theorem start_of_values_fixed_point_first_number : forall A b k num seg z tl2,
  A <> [] -> b <> " " -> 1 <= k -> num <> [] -> no " " num ->
  no "." (A ++ b :: spaces k ++ num) -> no "." seg -> z <> "." -> Forall (fun ch => ~ marker ch) seg ->
  (tl2 = [] \/ exists t, tl2 = "." :: t) ->
  start_of_values_nat (A ++ b :: spaces k ++ num ++ "." :: seg ++ z :: tl2) = Some (length A + 1).
Proof. exact start_fixed_point. Qed.
Print Assumptions start_of_values_fixed_point_first_number.

(** Under a layout with field ends e1..en every row rendered with the same widths decodes, cell by
    cell, to what [fortran_float] assigns to the cell's text (any text: negative, zero, 3-digit
    or no-letter exponent -- C16 says what that is); cells missing at the end of a short line and
    columns beyond the layout read as zero. *)
Theorem cells_decode : forall pre cs ws s0 ncols,
  map fst cs = firstn (length cs) ws -> Forall cfits cs ->
  length pre <= s0 -> s0 <= length pre + first_lead cs ->
  read_table_line_TOUGH2 (pre ++ cbody cs) ncols (Z.of_nat s0 :: map Z.of_nat (ends_w (length pre) ws))
  = map (fun c => fortran_float (snd c) zero) cs
    ++ repeat zero (length ws - length cs) ++ repeat zero (ncols - length ws).
Proof. exact cells_decode_thm. Qed.
Print Assumptions cells_decode.

(** the specification on rendered rows: where every number has a blank in front of it the tokens
    are exactly the printed numbers (E/D letter with 2 or 3 digits, bare sign with 3 digits, or
    no exponent) *)
Theorem fortran_tokens_of_rendered_row : forall pre fs, no "." pre -> Forall tfield_ok fs ->
  fortran_tokens (pre ++ tbody fs) = map (fun f => ntext (snd f)) fs.
Proof. exact tokens_of_row. Qed.
Print Assumptions fortran_tokens_of_rendered_row.

(** ... and then the reader's cells are the values of [fortran_tokens row], padded with zeros *)
Theorem cells_decode_to_tokens : forall pre fs ws s0 ncols,
  no "." pre -> Forall tfield_ok fs -> map fst fs = firstn (length fs) ws ->
  length pre <= s0 -> s0 <= length pre + match fs with [] => 0 | f :: _ => fst f - length (ntext (snd f)) end ->
  read_table_line_TOUGH2 (pre ++ tbody fs) ncols (Z.of_nat s0 :: map Z.of_nat (ends_w (length pre) ws))
  = map (fun t => fortran_float t zero) (fortran_tokens (pre ++ tbody fs))
    ++ repeat zero (length ws - length fs) ++ repeat zero (ncols - length ws).
Proof. exact cells_are_token_values. Qed.
Print Assumptions cells_decode_to_tokens.

(** addressing: row name = row index through the row-name index (distinct names) *)
Theorem addressing_agrees_name_index : forall (V : Type) (neg : V -> V) (dflt : V) (T : table V) i,
  NoDup (rows V T) -> i < length (rows V T) -> is_col V T (nth i (rows V T) (KS [])) = false ->
  getitem V neg dflt T (nth i (rows V T) (KS [])) = RRow V (row_by_index V dflt T i).
Proof. exact name_vs_index. Qed.
Print Assumptions addressing_agrees_name_index.

(** addressing: column name = row index, cell by cell *)
Theorem addressing_agrees_column_index : forall (V : Type) (neg : V -> V) (dflt : V) (T : table V) c j i,
  col_index V T c = Some j -> i < length (data V T) ->
  getitem V neg dflt T (KS c) = RCol V (column V dflt T j) /\
  rd_get V (row_by_index V dflt T i) c = Some (nth i (column V dflt T j) dflt).
Proof. exact column_vs_index. Qed.
Print Assumptions addressing_agrees_column_index.

(** addressing: row-index addressing is exact whatever the row names -- with repeated names too table[i] is the i-th row
    (its name, its cells); together with the theorem above, index and column addressing never need distinct names *)
Theorem addressing_index_exact_whatever_the_names : forall (V : Type) (dflt : V) (T : table V) i c j,
  col_index V T c = Some j ->
  rd_key V (row_by_index V dflt T i) = nth i (rows V T) (KS []) /\ rd_get V (row_by_index V dflt T i) c = Some (cell V dflt T i j).
Proof. exact index_exact. Qed.
Print Assumptions addressing_index_exact_whatever_the_names.

(** addressing: a reversed connection key gives the negated row under the key as asked *)
Theorem reversed_connection_key_negates : forall (V : Type) (neg : V -> V) (dflt : V) (T : table V) k i,
  allow_rev V T = true -> 1 < key_len k -> is_col V T k = false -> is_row V T k = false ->
  NoDup (rows V T) -> i < length (rows V T) -> nth i (rows V T) (KS []) = key_rev k ->
  exists r, getitem V neg dflt T k = RRow V r /\ rd_key V r = k /\
            forall c, rd_get V r c = option_map neg (rd_get V (row_by_index V dflt T i) c).
Proof. exact reversed_key_negates. Qed.
Print Assumptions reversed_connection_key_negates.

(** with a repeated row name the name index keeps the last row: name and index disagree *)
Theorem addressing_needs_distinct_row_names_refuted : forall (V : Type) (neg : V -> V) (dflt v0 v1 : V), v0 <> v1 ->
  exists T i, i < length (rows V T) /\ is_col V T (nth i (rows V T) (KS [])) = false /\
              getitem V neg dflt T (nth i (rows V T) (KS [])) <> RRow V (row_by_index V dflt T i).
Proof. exact name_vs_index_needs_distinct_names. Qed.
Print Assumptions addressing_needs_distinct_row_names_refuted.
