(** C05 -- AUTOUGH2: what [setup_table_AUTOUGH2], [read_table_AUTOUGH2], [skip_table_AUTOUGH2] (Reader.v)
    do on a printed table, and the loop of [setup_tables_AUTOUGH2] / [read_tables_AUTOUGH2] over the tables of
    one result set, for any subset of skipped tables.

    A printed AUTOUGH2 table: three header lines (title, OUTPUT AFTER ..., one more), the keyword line (EEEEE /
    CCCCC / GGGGG in columns 1-5), a caption line, a blank line, the column header, a blank line, the rows, the
    closing keyword line and one more line.  Any number of rows. *)
From Coq Require Import Ascii String List Bool Arith ZArith NArith Lia.
From PTBase Require Import Exn PyStr PyNum PyVal.
From PTModel Require Import Fortran.
From P Require Import Model Table Reader TableT2 SetT2 CodecT2.
Import ListNotations.
Open Scope char_scope.

Lemma Forall2_cons_inv_l {A B} (R : A -> B -> Prop) x l m : Forall2 R (x :: l) m -> exists y m', R x y /\ Forall2 R l m' /\ m = y :: m'.
Proof. intro H. inversion H; subst. eauto. Qed.

Definition is_kw (kw l : str) : bool := str_eqb (slice 1 6 l) kw.
Definition kw_of (name : str) : str := kw5 (first_upper name).

Record atable := {
  a_name : str;
  a_t1 : str; a_t2 : str; a_t3 : str;       (* read_header_AUTOUGH2: title, OUTPUT AFTER line, one more line *)
  a_k1 : str; a_cap : str; a_b1 : str;      (* keyword line, caption, blank line *)
  a_hdr : str; a_b2 : str;                  (* column header, blank line *)
  a_row0 : str; a_more : list str;          (* rows *)
  a_kend : str; a_after : str               (* closing keyword line, one more line *)
}.
Definition a_rows (t : atable) : list str := a_row0 t :: a_more t.
Definition a_body (t : atable) : list str := a_k1 t :: a_cap t :: a_b1 t :: a_hdr t :: a_b2 t :: a_rows t ++ [a_kend t; a_after t].
Definition a_lines (t : atable) : list str := a_t1 t :: a_t2 t :: a_t3 t :: a_body t.
Definition header_of (t : atable) : str * pyval * pyval := let '(ti, tm, st, _) := read_header_AUT (a_lines t) in (ti, tm, st).
Lemma read_header_a_lines t r : read_header_AUT (a_lines t ++ r) = (fst (fst (header_of t)), snd (fst (header_of t)), snd (header_of t), a_body t ++ r).
Proof. reflexivity. Qed.

(** ** the row loops *)
Lemma rows_AUT_spec kw keypos more : forall row0 keys kend r,
  Forall2 (fun l k => is_kw kw l = false /\ key_from_line l keypos = Ok k) (row0 :: more) keys -> is_kw kw kend = true ->
  rows_AUT kw keypos row0 (more ++ kend :: r) = Ok (keys, r).
Proof.
  induction more as [|l more IH]; intros row0 keys kend r H Hk.
  - apply Forall2_cons_inv_l in H as [k [keys' [[H1 H2] [H3 E]]]]. subst keys. inversion H3; subst.
    cbn [app rows_AUT]. unfold is_kw in H1. rewrite H1, H2. cbn [bind]. unfold is_kw in Hk. destruct r as [|x r']; cbn [rows_AUT]; rewrite Hk; reflexivity.
  - apply Forall2_cons_inv_l in H as [k [keys' [[H1 H2] [H3 E]]]]. subst keys.
    cbn [app rows_AUT]. unfold is_kw in H1. rewrite H1, H2. cbn [bind]. rewrite (IH l keys' kend r H3 Hk). reflexivity.
Qed.
Lemma skip_rows_AUT_spec kw ls : forall line kend r, Forall (fun l => is_kw kw l = false) (line :: ls) -> is_kw kw kend = true ->
  skip_rows_AUT kw line (ls ++ kend :: r) = Ok r.
Proof.
  induction ls as [|l ls IH]; intros line kend r H Hk; inversion H as [|? ? H1 H2]; subst; unfold is_kw in *.
  - cbn [app skip_rows_AUT]. rewrite H1. destruct r as [|x r']; cbn [skip_rows_AUT]; rewrite Hk; reflexivity.
  - cbn [app skip_rows_AUT]. rewrite H1. apply IH; assumption.
Qed.
Definition decode_AUT (T : ltable) (l : str) : list pyval := match lt_values T with st :: _ => read_table_line_AUTOUGH2 l st | [] => [] end.
Lemma read_rows_AUT_spec kw more : forall row0 T done todo kend r,
  Forall (fun l => is_kw kw l = false /\ length (decode_AUT T l) = length (lt_cols T)) (row0 :: more) -> is_kw kw kend = true ->
  lt_values T <> [] -> lt_data T = done ++ todo -> length todo = S (length more) ->
  read_rows_AUT kw T (length done) row0 (more ++ kend :: r) = Ok (with_data T (done ++ map (decode_AUT T) (row0 :: more)), r).
Proof.
  induction more as [|l more IH]; intros row0 T done todo kend r H Hk Hv Hd Ht; inversion H as [|? ? [H1 H2] H3]; subst; unfold is_kw in *.
  - destruct todo as [|t0 [|? ?]]; try discriminate. cbn [app read_rows_AUT]. rewrite H1.
    unfold decode_AUT in *. destruct (lt_values T) as [|st vs]; [congruence|].
    unfold assign_row. rewrite H2, Nat.eqb_refl. cbn [negb]. rewrite Hd.
    replace (length (done ++ [t0]) <=? length done)%nat with false by (symmetry; apply Nat.leb_gt; rewrite app_length; cbn [length]; lia).
    rewrite set_nth_app. cbn [bind]. destruct r as [|x r']; cbn [read_rows_AUT]; unfold is_kw in Hk; rewrite Hk; reflexivity.
  - destruct todo as [|t0 todo]; [discriminate|]. cbn [app read_rows_AUT]. rewrite H1.
    pose proof Hv as Hv'. unfold decode_AUT in H2. destruct (lt_values T) as [|st vs] eqn:Ev; [congruence|].
    unfold assign_row. rewrite H2, Nat.eqb_refl. cbn [negb]. rewrite Hd.
    replace (length (done ++ t0 :: todo) <=? length done)%nat with false by (symmetry; apply Nat.leb_gt; rewrite app_length; cbn [length]; lia).
    rewrite set_nth_app. cbn [bind].
    set (T1 := with_data T (done ++ read_table_line_AUTOUGH2 row0 st :: todo)).
    replace (S (length done)) with (length (done ++ [read_table_line_AUTOUGH2 row0 st])) by (rewrite app_length; cbn [length]; lia).
    rewrite (IH l T1 (done ++ [read_table_line_AUTOUGH2 row0 st]) todo kend r).
    + unfold T1. rewrite with_data_idem. cbn [map]. unfold decode_AUT. cbn [with_data lt_values]. rewrite Ev. rewrite <- app_assoc. reflexivity.
    + unfold T1, decode_AUT. cbn [with_data lt_values lt_cols]. unfold decode_AUT in H3. rewrite Ev in *. exact H3.
    + exact Hk.
    + unfold T1. cbn [with_data lt_values]. rewrite Ev. discriminate.
    + unfold T1. cbn [with_data lt_data]. rewrite <- app_assoc. reflexivity.
    + cbn [length] in Ht. lia.
Qed.

(** ** the three table functions *)
Record ashape (t : atable) (nkeys : nat) (cols : list str) (st : Z) (keypos : list Z) (keys : list (list str)) : Prop := {
  as_hdr : parse_header_AUT (a_hdr t) = Ok (nkeys, cols);
  as_start : exists i0, col0_is_I cols = Ok i0 /\ start_of_values (a_row0 t) i0 = Ok (Some st);
  as_nvalues : length cols = length (split_ws (fstrip (pyslice (Some st) None (a_row0 t))));
  as_keypos : key_positions (pyslice None (Some st) (a_row0 t)) nkeys = Ok (Some keypos) /\ keypos <> [];
  as_rows : Forall2 (fun l k => is_kw (kw_of (a_name t)) l = false /\ key_from_line l keypos = Ok k) (a_rows t) keys;
  as_kend : is_kw (kw_of (a_name t)) (a_kend t) = true
}.
Definition table_of_AUT (cols : list str) (nkeys : nat) (st : Z) (keypos : list Z) (keys : list (list str)) : ltable :=
  new_table cols keys nkeys keypos [st] [] 0 [].
Theorem setup_table_AUT_spec t nkeys cols st keypos keys r : ashape t nkeys cols st keypos keys ->
  setup_table_AUT (a_name t) (a_body t ++ r) = Ok (table_of_AUT cols nkeys st keypos keys, r).
Proof.
  intros [Hh [i0 [Hi Hs]] Hn [Hk Hne] Hr He]. unfold setup_table_AUT, a_body, a_rows in *. cbn [app skiplines skipn readline].
  rewrite Hh. cbn [bind]. rewrite Hi. cbn [bind]. rewrite Hs. cbn [bind]. rewrite <- Hn, Nat.eqb_refl. cbn [negb]. rewrite Hk. cbn [bind].
  destruct keypos as [|k0 kr]; [congruence|]. rewrite <- app_assoc. cbn [app].
  fold (kw_of (a_name t)). rewrite (rows_AUT_spec _ _ _ _ _ _ _ Hr He). reflexivity.
Qed.

(** the blank-line structure [read_table_AUTOUGH2] and [skip_table_AUTOUGH2] rely on *)
Record alines_ok (t : atable) : Prop := {
  al_k1 : is_blank (a_k1 t) = false; al_cap : is_blank (a_cap t) = false; al_b1 : is_blank (a_b1 t) = true;
  al_hdr : is_blank (a_hdr t) = false; al_b2 : is_blank (a_b2 t) = true; al_row0 : is_blank (a_row0 t) = false;
  al_nokw : Forall (fun l => is_kw (kw_of (a_name t)) l = false) (a_b1 t :: a_hdr t :: a_b2 t :: a_rows t);
  al_kend : is_kw (kw_of (a_name t)) (a_kend t) = true
}.
Theorem skip_table_AUT_spec t r : alines_ok t -> skip_table_AUT (a_name t) (a_body t ++ r) = Ok r.
Proof.
  intros [H1 H2 H3 H4 H5 H6 Hn He]. unfold skip_table_AUT, a_body. cbn [app skip_to_blank]. rewrite H1, H2, H3. cbn [readline].
  fold (kw_of (a_name t)).
  replace (a_hdr t :: a_b2 t :: (a_rows t ++ [a_kend t; a_after t]) ++ r) with ((a_hdr t :: a_b2 t :: a_rows t) ++ a_kend t :: a_after t :: r)
    by (cbn [app]; rewrite <- app_assoc; reflexivity).
  rewrite (skip_rows_AUT_spec _ _ _ _ _ Hn He). reflexivity.
Qed.
Theorem read_table_AUT_spec t T d r : alines_ok t -> lt_values T <> [] ->
  Forall (fun l => length (decode_AUT T l) = length (lt_cols T)) (a_rows t) -> length d = length (a_rows t) ->
  read_table_AUT (a_name t) (with_data T d) (a_body t ++ r) = Ok (with_data T (map (decode_AUT T) (a_rows t)), r).
Proof.
  intros [H1 H2 H3 H4 H5 H6 Hn He] Hv Hl Hd. unfold read_table_AUT, a_body. cbn [app skip_to_blank]. rewrite H1, H2, H3.
  cbn [skiplines skipn skip_to_blank]. rewrite H4, H5. cbn [skip_to_nonblank]. rewrite H5. unfold a_rows at 1. cbn [app skip_to_nonblank]. rewrite H6.
  cbn [bind readline]. fold (kw_of (a_name t)). rewrite <- app_assoc. cbn [app].
  pose proof (read_rows_AUT_spec (kw_of (a_name t)) (a_more t) (a_row0 t) (with_data T d) [] d (a_kend t) (a_after t :: r)) as R.
  cbn [length app] in R. rewrite R.
  - cbn [bind fst snd skiplines skipn]. rewrite with_data_idem. reflexivity.
  - inversion Hn as [|? ? _ Hn1]; subst. inversion Hn1 as [|? ? _ Hn2]; subst. inversion Hn2 as [|? ? _ Hn3]; subst.
    unfold a_rows in *. clear - Hn3 Hl. revert Hn3 Hl. generalize (a_row0 t :: a_more t). intros ls Hn3 Hl.
    induction ls as [|x ls IH]; constructor; inversion Hn3; inversion Hl; subst; [split; assumption|apply IH; assumption].
  - exact He.
  - exact Hv.
  - reflexivity.
  - unfold a_rows in Hd. cbn [length] in Hd. exact Hd.
Qed.

(** ** the cells of an AUTOUGH2 row: the numbers printed after the start column, separated by white space *)
Definition is_word (w : str) : Prop := w <> [] /\ forallb (fun c => negb (is_space c)) w = true.
Definition is_gap (g : str) : Prop := g <> [] /\ forallb is_space g = true.
Lemma split_ws_aux_word w : forall cur rest, forallb (fun c => negb (is_space c)) w = true -> split_ws_aux cur (w ++ rest) = split_ws_aux (rev w ++ cur) rest.
Proof.
  induction w as [|c w IH]; intros cur rest H; [reflexivity|]. cbn [forallb] in H. apply andb_prop in H as [H1 H2].
  cbn [app split_ws_aux]. destruct (is_space c); [discriminate|]. rewrite IH by exact H2. cbn [rev]. rewrite <- app_assoc. reflexivity.
Qed.
Lemma split_ws_aux_gap g : forall cur rest, forallb is_space g = true -> g <> [] ->
  split_ws_aux cur (g ++ rest) = match cur with [] => split_ws_aux [] rest | _ => rev cur :: split_ws_aux [] rest end.
Proof.
  induction g as [|c g IH]; intros cur rest H Hne; [congruence|]. cbn [forallb] in H. apply andb_prop in H as [H1 H2].
  cbn [app split_ws_aux]. rewrite H1. destruct g as [|c2 g'].
  - destruct cur; reflexivity.
  - destruct cur; rewrite (IH [] rest H2 ltac:(discriminate)); reflexivity.
Qed.
Lemma split_ws_aux_end g : forall cur, forallb is_space g = true -> split_ws_aux cur g = match cur with [] => [] | _ => [rev cur] end.
Proof.
  induction g as [|c g IH]; intros cur H; [destruct cur; reflexivity|]. cbn [forallb] in H. apply andb_prop in H as [H1 H2].
  cbn [split_ws_aux]. rewrite H1. destruct cur; rewrite (IH [] H2); reflexivity.
Qed.
(** words separated by gaps, with any white space before the first and after the last *)
Fixpoint words_text (ws : list (str * str)) (tail : str) : str :=
  match ws with [] => tail | (g, w) :: r => g ++ w ++ words_text r tail end.
Fixpoint words_ok (first : bool) (ws : list (str * str)) : Prop :=
  match ws with
  | [] => True
  | (g, w) :: r => (if first then forallb is_space g = true else is_gap g) /\ is_word w /\ words_ok false r
  end.
Lemma split_ws_words ws : forall first tail, words_ok first ws -> forallb is_space tail = true ->
  split_ws_aux [] (words_text ws tail) = map snd ws.
Proof.
  induction ws as [|[g w] ws IH]; intros first tail H Ht; cbn [words_text map snd].
  - rewrite (split_ws_aux_end tail [] Ht). reflexivity.
  - destruct H as [Hg [[Hw1 Hw2] Hr]].
    assert (E : split_ws_aux [] (g ++ w ++ words_text ws tail) = split_ws_aux [] (w ++ words_text ws tail)).
    { destruct g as [|c g']; [reflexivity|]. rewrite split_ws_aux_gap; [reflexivity| |discriminate]. destruct first; [exact Hg|exact (proj2 Hg)]. }
    rewrite E, (split_ws_aux_word w [] _ Hw2). rewrite app_nil_r.
    destruct ws as [|[g2 w2] ws'].
    + cbn [words_text map]. rewrite (split_ws_aux_end tail _ Ht). destruct (rev w) eqn:Er; [|rewrite <- Er, rev_involutive; reflexivity].
      exfalso. apply Hw1. rewrite <- (rev_involutive w), Er. reflexivity.
    + specialize (IH false tail Hr Ht). cbn [words_text] in *. destruct Hr as [[Hg2a Hg2b] _].
      rewrite (split_ws_aux_gap g2 (rev w) _ Hg2b Hg2a).
      destruct (rev w) eqn:Er; [exfalso; apply Hw1; rewrite <- (rev_involutive w), Er; reflexivity|]. rewrite <- Er, rev_involutive.
      f_equal. destruct g2 as [|c g2']; [congruence|]. rewrite split_ws_aux_gap in IH; [exact IH|exact Hg2b|discriminate].
Qed.
Lemma split_ws_strip s : split_ws (strip s) = split_ws s.
Proof.
  destruct (strip_split s) as [a [b [E [Ha Hb]]]]. unfold split_ws. rewrite E at 2.
  assert (K : forall t cur, split_ws_aux cur (t ++ b) = split_ws_aux cur t).
  { induction t as [|c t IH]; intro cur; cbn [app split_ws_aux].
    - rewrite (split_ws_aux_end b cur Hb). destruct cur; reflexivity.
    - destruct (is_space c); [destruct cur; rewrite IH; reflexivity|apply IH]. }
  destruct a as [|c a']; [cbn [app]; symmetry; apply K|]. rewrite split_ws_aux_gap; [symmetry; apply K|exact Ha|discriminate].
Qed.
Theorem autough2_cells_thm pre ws tail : words_ok true ws -> forallb is_space tail = true ->
  read_table_line_AUTOUGH2 (pre ++ words_text ws tail) (Z.of_nat (length pre)) = map (fun w => fortran_float (snd w) zero) ws.
Proof.
  intros H Ht. unfold read_table_line_AUTOUGH2.
  assert (E : pyslice (Some (Z.of_nat (length pre))) None (pre ++ words_text ws tail) = words_text ws tail).
  { unfold pyslice, norm_idx. replace (Z.of_nat (length pre) <? 0)%Z with false by (symmetry; apply Z.ltb_ge; lia).
    rewrite Nat2Z.id, app_length. rewrite Nat.min_l by lia. rewrite skipn_app, skipn_all, Nat.sub_diag. cbn [skipn app].
    apply firstn_all2. lia. }
  rewrite E, split_ws_strip. unfold split_ws. rewrite (split_ws_words ws true tail H Ht). rewrite map_map. reflexivity.
Qed.
