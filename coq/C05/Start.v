(** C05 -- [start_of_values] on the first row of a table.

    Guarded theorems: (1) when the first number's own tail carries the exponent marker, the
    start is the character two before the point if that is a blank or a minus sign, and the
    character before the point if the index abuts the number; (2) when nothing between the
    first two points looks like an exponent marker, the start is the character after the
    index.  The finding start_of_values:fixed-point-first-number-then-signed-number is the
    case in between: a fixed-point first number followed by a signed one (Witness.v). *)
From Coq Require Import Ascii String List Bool Arith ZArith NArith Lia.
From PTBase Require Import Exn PyStr PyNum PyVal.
From PTModel Require Import Fortran.
From P Require Import Model Layout.
Import ListNotations.
Open Scope char_scope.

Lemma find_from_ge c s : forall i stop q, find_from c s i stop = Some q -> i <= q.
Proof.
  induction s as [|x s IH]; intros i stop q H; [discriminate|]. cbn [find_from] in H.
  destruct (stop <=? i)%nat; [discriminate|]. destruct (ceqb x c); [inversion H; lia|]. apply IH in H. lia.
Qed.
Lemma find_from_none c s : no c s -> forall i stop, find_from c s i stop = None.
Proof.
  induction s as [|x s IH]; intros H i stop; [reflexivity|]. apply no_cons in H as [H1 H2]. cbn [find_from].
  destruct (stop <=? i)%nat; [reflexivity|]. rewrite (ceqb_neq _ _ H1). apply IH. exact H2.
Qed.
Lemma find_from_clean_ge c a b : no c a -> forall i stop q, find_from c (a ++ b) i stop = Some q -> i + length a <= q.
Proof.
  induction a as [|x a IH]; intros H i stop q F.
  - apply find_from_ge in F. cbn [length]. lia.
  - apply no_cons in H as [H1 H2]. cbn [app find_from] in F. destruct (stop <=? i)%nat; [discriminate|].
    rewrite (ceqb_neq _ _ H1) in F. apply (IH H2) in F. cbn [length]. lia.
Qed.
Lemma find_from_hit c a b : no c a -> forall i stop, i + length a < stop -> find_from c (a ++ c :: b) i stop = Some (i + length a).
Proof.
  induction a as [|x a IH]; intros H i stop L.
  - cbn [app find_from length]. replace (stop <=? i)%nat with false by (symmetry; apply Nat.leb_gt; cbn [length] in L; lia).
    rewrite ceqb_refl. f_equal. lia.
  - apply no_cons in H as [H1 H2]. cbn [app find_from length]. cbn [length] in L.
    replace (stop <=? i)%nat with false by (symmetry; apply Nat.leb_gt; lia).
    rewrite (ceqb_neq _ _ H1), (IH H2) by lia. f_equal. lia.
Qed.
Lemma find_first c a b : no c a -> find c (a ++ c :: b) 0 (length (a ++ c :: b)) = Some (length a).
Proof.
  intro H. unfold find. cbn [skipn]. rewrite (find_from_hit c a b H 0); [reflexivity|].
  rewrite app_length. cbn [length]. lia.
Qed.
(** the second point, searched from just after the first one, lies beyond any point-free text *)
Lemma nextpt_beyond (p m r : str) :
  no "." m ->
  length p + length m <= match find "." (p ++ m ++ r) (length p) (length (p ++ m ++ r)) with Some q => q | None => length (p ++ m ++ r) end.
Proof.
  intro H. unfold find. rewrite skipn_app, skipn_all, Nat.sub_diag. cbn [skipn app].
  destruct (find_from "." (m ++ r) (length p) (length (p ++ m ++ r))) as [q|] eqn:E.
  - apply (find_from_clean_ge "." m r H) in E. exact E.
  - rewrite !app_length. lia.
Qed.

Definition marker (x : ascii) : Prop := lower_c x = "e" \/ x = "+" \/ x = "-".
Lemma has_marker l x : In x l -> marker x -> has_c "e" (lower l) || has_c "+" (lower l) || has_c "-" (lower l) = true.
Proof.
  intros I M. unfold has_c, lower.
  assert (J : In (lower_c x) (map lower_c l)) by (apply in_map; exact I).
  destruct M as [M|[M|M]].
  - replace (existsb (ceqb "e") (map lower_c l)) with true; [reflexivity|]. symmetry. apply existsb_exists.
    exists (lower_c x). split; [exact J|]. rewrite M. reflexivity.
  - replace (existsb (ceqb "+") (map lower_c l)) with true; [rewrite orb_true_r; reflexivity|]. symmetry. apply existsb_exists.
    exists (lower_c x). split; [exact J|]. subst x. reflexivity.
  - replace (existsb (ceqb "-") (map lower_c l)) with true; [apply orb_true_r|]. symmetry. apply existsb_exists.
    exists (lower_c x). split; [exact J|]. subst x. reflexivity.
Qed.
Lemma no_marker l : Forall (fun ch => ~ marker ch) l -> has_c "e" (lower l) || has_c "+" (lower l) || has_c "-" (lower l) = false.
Proof.
  intro H. unfold has_c, lower.
  assert (G : forall m, (m = "e" \/ m = "+" \/ m = "-") -> existsb (ceqb m) (map lower_c l) = false).
  { intros m Hm. induction H as [|ch l Hc _ IH]; [reflexivity|]. cbn [map existsb]. rewrite IH, orb_false_r.
    unfold ceqb. apply Ascii.eqb_neq. intro E. apply Hc. unfold marker.
    destruct Hm as [-> | [-> | ->]]; [left; symmetry; exact E| |].
    - right; left. clear -E. destruct ch as [[] [] [] [] [] [] [] []]; vm_compute in E; try discriminate E; reflexivity.
    - right; right. clear -E. destruct ch as [[] [] [] [] [] [] [] []]; vm_compute in E; try discriminate E; reflexivity. }
  rewrite !G by auto. reflexivity.
Qed.

(** ** (1) the first number carries an exponent *)
Theorem start_exponential pre c d fr x y rest :
  no "." pre -> c <> "." -> d <> "." -> no "." fr -> x <> "." -> y <> "." -> marker x ->
  start_of_values_nat (pre ++ c :: d :: "." :: fr ++ x :: y :: rest)
  = if ceqb c "-" || ceqb c " " then Some (length pre) else if is_digit c then Some (length pre + 1) else None.
Proof.
  intros Hp Hc Hd Hf Hx Hy M. unfold start_of_values_nat.
  set (line := pre ++ c :: d :: "." :: fr ++ x :: y :: rest).
  set (A := pre ++ [c; d]).
  assert (EL : line = A ++ "." :: (fr ++ x :: y :: rest)) by (unfold line, A; rewrite <- app_assoc; reflexivity).
  assert (NA : no "." A) by (unfold A; apply no_app; split; [exact Hp|]; apply no_cons; split; [exact Hc|]; apply no_cons; split; [exact Hd|apply no_nil]).
  assert (LA : length A = length pre + 2) by (unfold A; rewrite app_length; cbn [length]; lia).
  rewrite EL at 1 2. rewrite (find_first "." A _ NA). rewrite LA.
  replace (2 <=? length pre + 2)%nat with true by (symmetry; apply Nat.leb_le; lia).
  set (P := A ++ ["."]). set (Mid := fr ++ [x; y]).
  assert (EL2 : line = P ++ Mid ++ rest).
  { unfold P, Mid. rewrite EL. repeat rewrite <- app_assoc. cbn [app]. reflexivity. }
  assert (LP : length P = length pre + 2 + 1) by (unfold P; rewrite app_length, LA; cbn [length]; lia).
  assert (NM : no "." Mid).
  { unfold Mid. apply no_app; split; [exact Hf|]. apply no_cons; split; [exact Hx|]. apply no_cons; split; [exact Hy|apply no_nil]. }
  pose proof (nextpt_beyond P Mid rest NM) as NB. rewrite <- EL2, LP in NB.
  set (nextpt := match find "." line (length pre + 2 + 1) (length line) with Some q => q | None => length line end) in *.
  assert (LM : length Mid = length fr + 2) by (unfold Mid; rewrite app_length; cbn [length]; lia).
  assert (SL : exists tl, slice (length pre + 2 + 1) (nextpt - 1) line = fr ++ x :: tl).
  { unfold slice. rewrite EL2, <- LP, skipn_app, skipn_all, Nat.sub_diag. cbn [skipn app].
    unfold Mid. rewrite <- app_assoc. cbn [app].
    rewrite firstn_app. replace (firstn (nextpt - 1 - length P) fr) with fr by (symmetry; apply firstn_all2; lia).
    destruct (nextpt - 1 - length P - length fr) as [|k] eqn:Ek; [lia|]. cbn [firstn]. eauto. }
  destruct SL as [tl SL]. rewrite SL.
  rewrite (has_marker (fr ++ x :: tl) x) by (try (apply in_or_app; right; left; reflexivity); exact M).
  replace (length pre + 2 - 2) with (length pre) by lia.
  replace (nth_c line (length pre)) with c.
  2:{ unfold nth_c, line. symmetry. apply nth_middle. }
  replace (length pre + 2 - 1) with (length pre + 1) by lia. reflexivity.
Qed.

(** ** (2) a fixed-point first number with nothing exponent-like up to the second point *)
Lemma nth_c_mid a z b : nth_c (a ++ z :: b) (length a) = z.
Proof. unfold nth_c. apply nth_middle. Qed.
Lemma back_while_run p A stop run : forall R fuel,
  Forall (fun ch => p ch = true) run -> p stop = false -> length run <= fuel ->
  back_while p (A ++ stop :: run ++ R) (length A + length run) fuel = length A.
Proof.
  induction run as [|z run IH] using rev_ind; intros R fuel Hr Hs Lf.
  - cbn [length app]. rewrite Nat.add_0_r. destruct fuel; cbn [back_while]; [reflexivity|]. rewrite nth_c_mid, Hs. reflexivity.
  - apply Forall_app in Hr as [Hr Hz]. inversion Hz as [|? ? Hz1 _]; subst.
    rewrite app_length in *. cbn [length] in *. destruct fuel as [|fuel]; [lia|]. cbn [back_while].
    replace (A ++ stop :: (run ++ [z]) ++ R) with ((A ++ stop :: run) ++ z :: R) by (repeat rewrite <- app_assoc; reflexivity).
    replace (length A + (length run + 1)) with (length (A ++ stop :: run)) by (rewrite app_length; cbn [length]; lia).
    rewrite nth_c_mid, Hz1.
    replace (0 <? length (A ++ stop :: run))%nat with true by (symmetry; apply Nat.ltb_lt; rewrite app_length; cbn [length]; lia).
    cbn [andb]. replace (length (A ++ stop :: run) - 1) with (length A + length run) by (rewrite app_length; cbn [length]; lia).
    replace ((A ++ stop :: run) ++ z :: R) with (A ++ stop :: run ++ (z :: R)) by (repeat rewrite <- app_assoc; reflexivity).
    apply IH; [exact Hr|exact Hs|lia].
Qed.

Theorem start_fixed_point A b k num seg z tl2 :
  A <> [] -> b <> " " -> 1 <= k -> num <> [] -> no " " num ->
  no "." (A ++ b :: spaces k ++ num) -> no "." seg -> z <> "." -> Forall (fun ch => ~ marker ch) seg ->
  (tl2 = [] \/ exists t, tl2 = "." :: t) ->
  start_of_values_nat (A ++ b :: spaces k ++ num ++ "." :: seg ++ z :: tl2) = Some (length A + 1).
Proof.
  intros HA Hb Hk Hnum Hns Hnd Hsd Hz Hseg Htl. unfold start_of_values_nat.
  set (line := A ++ b :: spaces k ++ num ++ "." :: seg ++ z :: tl2).
  set (F := A ++ b :: spaces k ++ num).
  assert (EL : line = F ++ "." :: (seg ++ z :: tl2)).
  { unfold line, F. repeat rewrite <- app_assoc. cbn [app]. repeat rewrite <- app_assoc. reflexivity. }
  assert (LF : length F = length A + 1 + k + length num).
  { unfold F. rewrite app_length. cbn [length]. rewrite app_length, spaces_length. lia. }
  assert (Lnum : 1 <= length num) by (destruct num; [congruence|cbn [length]; lia]).
  rewrite EL at 1 2. rewrite (find_first "." F _ Hnd).
  replace (2 <=? length F)%nat with true by (symmetry; apply Nat.leb_le; lia).
  (* the second point *)
  set (P := F ++ ["."]).
  assert (LP : length P = length F + 1) by (unfold P; rewrite app_length; cbn [length]; lia).
  assert (SEG : slice (length F + 1)
            (match find "." line (length F + 1) (length line) with Some q => q | None => length line end - 1) line = seg).
  { assert (EL2 : line = P ++ (seg ++ [z]) ++ tl2).
    { unfold P. rewrite EL. repeat rewrite <- app_assoc. cbn [app]. reflexivity. }
    assert (NP : match find "." line (length F + 1) (length line) with Some q => q | None => length line end
                 = length P + length seg + 1).
    { destruct Htl as [->|[t ->]].
      - replace (find "." line (length F + 1) (length line)) with (@None nat).
        + rewrite EL2, !app_length. cbn [length]. lia.
        + symmetry. unfold find. rewrite EL2 at 1. rewrite <- LP, skipn_app, skipn_all, Nat.sub_diag. cbn [skipn app]. rewrite app_nil_r.
          apply find_from_none. apply no_app; split; [exact Hsd|apply no_cons; split; [exact Hz|apply no_nil]].
      - unfold find. rewrite EL2 at 1. rewrite <- LP, skipn_app, skipn_all, Nat.sub_diag. cbn [skipn app].
        assert (N : no "." (seg ++ [z])) by (apply no_app; split; [exact Hsd|apply no_cons; split; [exact Hz|apply no_nil]]).
        rewrite (find_from_hit "." (seg ++ [z]) t N).
        + rewrite app_length. cbn [length]. lia.
        + rewrite EL2, !app_length. cbn [length]. lia. }
    rewrite NP. unfold slice. rewrite EL2, <- LP, skipn_app, skipn_all, Nat.sub_diag. cbn [skipn app].
    replace (length P + length seg + 1 - 1 - length P) with (length seg) by lia.
    rewrite <- !app_assoc. rewrite firstn_app, firstn_all, Nat.sub_diag. cbn [firstn]. apply app_nil_r. }
  rewrite SEG, (no_marker seg Hseg).
  (* the two backward scans *)
  replace (length F - 1) with (length (A ++ b :: spaces (k - 1)) + length num).
  2:{ rewrite app_length. cbn [length]. rewrite spaces_length. lia. }
  assert (E1 : line = (A ++ b :: spaces (k - 1)) ++ " " :: num ++ ("." :: seg ++ z :: tl2)).
  { unfold line. destruct k as [|k]; [lia|]. cbn [Nat.sub]. rewrite Nat.sub_0_r.
    replace (spaces (S k)) with (spaces k ++ [" "]) by (unfold spaces; symmetry; apply (repeat_cons k " ")).
    repeat rewrite <- app_assoc. cbn [app]. repeat rewrite <- app_assoc. reflexivity. }
  assert (B1 : back_while (fun c0 => negb (ceqb c0 " ")) line (length (A ++ b :: spaces (k - 1)) + length num) (length line)
               = length (A ++ b :: spaces (k - 1))).
  { rewrite E1 at 1. apply back_while_run.
    - eapply Forall_impl; [|exact Hns]. intros ch Hch. cbv beta. rewrite (ceqb_neq _ _ Hch). reflexivity.
    - reflexivity.
    - unfold line. rewrite !app_length. cbn [length]. rewrite !app_length. lia. }
  rewrite B1.
  replace (length (A ++ b :: spaces (k - 1))) with (length A + length (spaces k)).
  2:{ rewrite app_length. cbn [length]. rewrite !spaces_length. lia. }
  assert (B2 : back_while (fun c0 => ceqb c0 " ") line (length A + length (spaces k)) (length line) = length A).
  { assert (E2 : line = A ++ b :: spaces k ++ (num ++ "." :: seg ++ z :: tl2)) by reflexivity.
    rewrite E2 at 1. apply back_while_run.
    - unfold spaces. clear. induction k; cbn [repeat]; constructor; [reflexivity|assumption].
    - apply ceqb_neq. exact Hb.
    - unfold line. rewrite !app_length. cbn [length]. rewrite !app_length. lia. }
  rewrite B2.
  replace (0 <? length A)%nat with true; [reflexivity|]. symmetry. apply Nat.ltb_lt. destruct A; [congruence|cbn [length]; lia].
Qed.
