(** C05 -- the specification [fortran_tokens] on rendered rows.

    Where fields do not abut (every number has a blank in front of it), the tokens of a
    rendered row are exactly the cell texts, for every number a Fortran E/F/ES/1PE format
    prints: optional sign, digits, point, digits, and no exponent / letter + sign + 2 or 3
    digits / bare sign + 3 digits (a number with an exponent has at most one digit before
    its point).  Together with Cells.v: the reader's cells are the values of the tokens. *)
From Coq Require Import Ascii String List Bool Arith ZArith NArith Lia.
From PTBase Require Import Exn PyStr PyNum PyVal.
From PTModel Require Import Fortran.
From P Require Import Model Layout Cells.
Import ListNotations.
Open Scope char_scope.

(** ** character facts (exhaustive over the 256 characters) *)
Lemma sign_not_digit s : is_sign s = true -> is_digit s = false.
Proof. brute s. Qed.
Lemma sign_not_dot s : is_sign s = true -> s <> ".".
Proof. destruct s as [[] [] [] [] [] [] [] []]; vm_compute; intros H E; try discriminate H; discriminate E. Qed.
Lemma sign_not_expletter s : is_sign s = true -> is_expletter s = false.
Proof. brute s. Qed.
Lemma digit_not_dot c : is_digit c = true -> c <> ".".
Proof. destruct c as [[] [] [] [] [] [] [] []]; vm_compute; intros H E; try discriminate H; discriminate E. Qed.
Lemma expletter_not_digit l : is_expletter l = true -> is_digit l = false.
Proof. brute l. Qed.
Lemma expletter_not_dot l : is_expletter l = true -> l <> ".".
Proof. destruct l as [[] [] [] [] [] [] [] []]; vm_compute; intros H E; try discriminate H; discriminate E. Qed.

(** ** printed numbers *)
Definition all_digits (s : str) : Prop := Forall (fun c => is_digit c = true) s.
Inductive expform : str -> Prop :=
  | ex_none : expform []
  | ex_letter2 l s d1 d2 : is_expletter l = true -> is_sign s = true -> is_digit d1 = true -> is_digit d2 = true ->
      expform [l; s; d1; d2]
  | ex_letter3 l s d1 d2 d3 : is_expletter l = true -> is_sign s = true -> is_digit d1 = true -> is_digit d2 = true ->
      is_digit d3 = true -> expform [l; s; d1; d2; d3]
  | ex_bare s d1 d2 d3 : is_sign s = true -> is_digit d1 = true -> is_digit d2 = true -> is_digit d3 = true ->
      expform [s; d1; d2; d3].
Record numtext := { nsg : str; nip : str; nfr : str; nex : str }.
Definition ntext (n : numtext) : str := nsg n ++ nip n ++ "." :: nfr n ++ nex n.
Definition signform (sg : str) : Prop := sg = [] \/ exists s, is_sign s = true /\ sg = [s].
Definition numshape (n : numtext) : Prop :=
  signform (nsg n) /\ all_digits (nip n) /\ all_digits (nfr n) /\ expform (nex n) /\ (nex n <> [] -> length (nip n) <= 1).

Definition tfield := (nat * numtext)%type.
Definition tcell (f : tfield) : str := rjust (fst f) (ntext (snd f)).
Fixpoint tbody (fs : list tfield) : str := match fs with [] => [] | f :: r => tcell f ++ tbody r end.
(** the number has the stated shape and at least one blank in front of it *)
Definition tfield_ok (f : tfield) : Prop := numshape (snd f) /\ length (ntext (snd f)) < fst f.

(** what follows a number: the end of the line or a blank *)
Definition after_ok (t : str) : Prop := t = [] \/ exists t', t = " " :: t'.
Lemma tbody_after fs : Forall tfield_ok fs -> after_ok (tbody fs).
Proof.
  intro H. destruct fs as [|f r]; [left; reflexivity|right]. inversion H as [|? ? [_ L] _]; subst.
  cbn [tbody]. unfold tcell, rjust. destruct (fst f - length (ntext (snd f))) as [|k] eqn:E; [lia|].
  cbn [spaces repeat app]. eauto.
Qed.

Lemma no_dot_digits s : all_digits s -> no "." s.
Proof. intro H. unfold no. eapply Forall_impl; [|exact H]. intros c Hc. apply digit_not_dot. exact Hc. Qed.
Lemma no_dot_sign sg : signform sg -> no "." sg.
Proof. intros [->|[s [Hs ->]]]; [apply no_nil|]. apply no_cons. split; [apply sign_not_dot; exact Hs|apply no_nil]. Qed.
Lemma no_dot_exp ex : expform ex -> no "." ex.
Proof.
  intro H. inversion H; subst; repeat (apply no_cons; split); try apply no_nil;
    first [apply expletter_not_dot; assumption|apply sign_not_dot; assumption|apply digit_not_dot; assumption].
Qed.

Lemma toks_nodot a : forall rp s, no "." a -> toks rp (a ++ s) = toks (rev a ++ rp) s.
Proof.
  induction a as [|x a IH]; intros rp s H; [reflexivity|].
  apply no_cons in H as [H1 H2]. cbn [app toks rev]. rewrite (ceqb_neq _ _ H1), (IH _ _ H2), <- app_assoc. reflexivity.
Qed.

Lemma take_digits_app fr x : all_digits fr -> match x with [] => True | c :: _ => is_digit c = false end ->
  take_digits (fr ++ x) = fr.
Proof.
  intros H Hx. induction H as [|c fr Hc _ IH]; cbn [app take_digits].
  - destruct x as [|c x']; [reflexivity|]. cbn [take_digits]. rewrite Hx. reflexivity.
  - rewrite Hc, IH. reflexivity.
Qed.

Lemma exp_len_num ex t : expform ex -> after_ok t -> exp_len (ex ++ t) = length ex.
Proof.
  intros He Ht. inversion He as [|l s d1 d2 Hl Hs H1 H2|l s d1 d2 d3 Hl Hs H1 H2 H3|s d1 d2 d3 Hs H1 H2 H3]; subst; cbn [app length].
  - destruct Ht as [->|[t' ->]]; reflexivity.
  - unfold exp_len, dig_at. cbn [nth_error]. rewrite Hl, Hs, H1, H2. cbn [andb orb].
    destruct Ht as [->|[t' ->]]; reflexivity.
  - unfold exp_len, dig_at. cbn [nth_error]. rewrite Hl, Hs, H1, H2, H3. cbn [andb orb].
    destruct Ht as [->|[t' ->]]; reflexivity.
  - unfold exp_len, dig_at. cbn [nth_error]. rewrite (sign_not_expletter _ Hs), Hs, H1, H2, H3. cbn [andb orb].
    destruct Ht as [->|[t' ->]]; reflexivity.
Qed.
Lemma exp_head_not_digit ex t : expform ex -> after_ok t ->
  match ex ++ t with [] => True | c :: _ => is_digit c = false end.
Proof.
  intros He Ht. inversion He; subst; cbn [app].
  - destruct Ht as [->|[t' ->]]; [exact I|reflexivity].
  - apply expletter_not_digit; assumption.
  - apply expletter_not_digit; assumption.
  - apply sign_not_digit; assumption.
Qed.

Lemma right_part_num fr ex t : all_digits fr -> expform ex -> after_ok t ->
  right_part (fr ++ ex ++ t) = (fr ++ ex, match ex with [] => false | _ => true end).
Proof.
  intros Hf He Ht. unfold right_part.
  rewrite (take_digits_app fr (ex ++ t) Hf (exp_head_not_digit ex t He Ht)).
  rewrite skipn_app, skipn_all, Nat.sub_diag. cbn [skipn app].
  rewrite (exp_len_num ex t He Ht). rewrite firstn_app, firstn_all, Nat.sub_diag. cbn [firstn]. rewrite app_nil_r.
  f_equal. inversion He; reflexivity.
Qed.

Lemma rev_spaces k : rev (spaces k) = spaces k.
Proof.
  unfold spaces. induction k; [reflexivity|]. cbn [repeat rev]. rewrite IHk. symmetry. apply repeat_cons.
Qed.

Lemma take_digits_rev ip x : all_digits ip -> match x with [] => True | c :: _ => is_digit c = false end ->
  take_digits (rev ip ++ x) = rev ip.
Proof. intros H Hx. apply take_digits_app; [|exact Hx]. unfold all_digits. apply Forall_rev. exact H. Qed.

Lemma left_part_num he sg ip z : signform sg -> all_digits ip -> (he = true -> length ip <= 1) ->
  left_part he (rev ip ++ rev sg ++ " " :: z) = sg ++ ip.
Proof.
  intros Hs Hi Hl. unfold left_part.
  assert (HD : match rev sg ++ " " :: z with [] => True | c :: _ => is_digit c = false end).
  { destruct Hs as [->|[s [Hs ->]]]; cbn [rev app]; [reflexivity|apply sign_not_digit; exact Hs]. }
  assert (SG : match rev sg ++ " " :: z with c :: _ => if is_sign c then [c] else [] | [] => [] end = sg).
  { destruct Hs as [->|[s [Hs ->]]]; cbn [rev app]; [reflexivity|rewrite Hs; reflexivity]. }
  destruct he.
  - specialize (Hl eq_refl). destruct ip as [|d [|d' ip']]; [| |cbn [length] in Hl; lia].
    + cbn [rev app]. destruct (rev sg ++ " " :: z) as [|c r] eqn:E; [destruct (rev sg); discriminate|].
      rewrite HD. cbn [length skipn rev]. rewrite !app_nil_r. exact SG.
    + inversion Hi as [|? ? Hd _]; subst. cbn [rev app]. rewrite Hd. cbn [length skipn]. rewrite SG. reflexivity.
  - rewrite (take_digits_rev ip _ Hi HD). rewrite skipn_app, skipn_all, Nat.sub_diag. cbn [skipn app].
    rewrite SG, rev_involutive. reflexivity.
Qed.

Lemma toks_fields fs : forall rp, Forall tfield_ok fs -> toks rp (tbody fs) = map (fun f => ntext (snd f)) fs.
Proof.
  induction fs as [|f r IH]; intros rp H; [reflexivity|].
  inversion H as [|? ? [Hn L] Hr]; subst.
  destruct Hn as [Hs [Hi [Hf [He Hl]]]].
  pose proof (tbody_after r Hr) as Ht.
  cbn [tbody map]. unfold tcell, rjust.
  destruct (fst f - length (ntext (snd f))) as [|k] eqn:E; [lia|].
  unfold ntext. set (n := snd f) in *.
  replace ((spaces (S k) ++ nsg n ++ nip n ++ "." :: nfr n ++ nex n) ++ tbody r)
    with ((spaces (S k) ++ nsg n ++ nip n) ++ "." :: (nfr n ++ nex n ++ tbody r)).
  2:{ repeat rewrite <- app_assoc. cbn [app]. repeat rewrite <- app_assoc. reflexivity. }
  rewrite toks_nodot.
  2:{ apply no_app; split; [apply no_spaces; discriminate|]. apply no_app; split; [apply no_dot_sign; exact Hs|apply no_dot_digits; exact Hi]. }
  cbn [toks]. rewrite ceqb_refl. f_equal.
  - unfold token_at. rewrite (right_part_num _ _ _ Hf He Ht). cbn [fst snd].
    rewrite !rev_app_distr, rev_spaces. cbn [spaces repeat]. repeat rewrite <- app_assoc. cbn [app].
    rewrite left_part_num; [repeat rewrite <- app_assoc; reflexivity|exact Hs|exact Hi|].
    intro Hh. apply Hl. destruct (nex n); [discriminate|discriminate].
  - replace (nfr n ++ nex n ++ tbody r) with ((nfr n ++ nex n) ++ tbody r) by (rewrite <- app_assoc; reflexivity).
    rewrite toks_nodot; [apply IH; exact Hr|].
    apply no_app; split; [apply no_dot_digits; exact Hf|apply no_dot_exp; exact He].
Qed.

(** ** the tokens of a rendered row are the printed numbers *)
Theorem tokens_of_row pre fs : no "." pre -> Forall tfield_ok fs ->
  fortran_tokens (pre ++ tbody fs) = map (fun f => ntext (snd f)) fs.
Proof.
  intros Hp H. unfold fortran_tokens. rewrite (toks_nodot pre [] (tbody fs) Hp). apply toks_fields. exact H.
Qed.

(** ** ... and the reader's cells are the values of the tokens, padded with zeros *)
Definition as_cfield (f : tfield) : cfield := (fst f, ntext (snd f)).
Lemma tbody_cbody fs : tbody fs = cbody (map as_cfield fs).
Proof. induction fs as [|f r IH]; [reflexivity|]. cbn [tbody map cbody]. rewrite IH. reflexivity. Qed.

Theorem cells_are_token_values pre fs ws s0 ncols :
  no "." pre -> Forall tfield_ok fs -> map fst fs = firstn (length fs) ws ->
  length pre <= s0 -> s0 <= length pre + match fs with [] => 0 | f :: _ => fst f - length (ntext (snd f)) end ->
  read_table_line_TOUGH2 (pre ++ tbody fs) ncols (Z.of_nat s0 :: map Z.of_nat (ends_w (length pre) ws))
  = map (fun t => fortran_float t zero) (fortran_tokens (pre ++ tbody fs))
    ++ repeat zero (length ws - length fs) ++ repeat zero (ncols - length ws).
Proof.
  intros Hp H Hw L1 L2. rewrite (tokens_of_row pre fs Hp H). rewrite tbody_cbody.
  rewrite (cells_decode_thm pre (map as_cfield fs) ws s0 ncols).
  - rewrite !map_map, map_length. reflexivity.
  - rewrite map_map, map_length. cbn [as_cfield fst]. exact Hw.
  - apply Forall_map. eapply Forall_impl; [|exact H]. intros f [_ L]. unfold cfits, as_cfield. cbn [fst snd]. lia.
  - exact L1.
  - destruct fs; exact L2.
Qed.
