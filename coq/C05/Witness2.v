(** C05 -- non-vacuity of the whole-file theorem: a small TOUGH2 listing (two result sets; an element table with
    a page break -- blank line, repeated header, units, blank line -- and a generation table; a no-letter
    3-digit exponent, a negative number without leading zero, abutting fields) written out line by line.
    The real reader opens this text and reads both result sets (tools/props/C05.py writes it to a file and
    compares on every run); [file_check] accepts it, hence [file_ok] holds and every theorem of CodecT2.v
    applies to it. *)
From Coq Require Import Ascii String List Bool Arith ZArith NArith Lia.
From PTBase Require Import Exn PyStr PyNum PyVal.
From P Require Import Model Table Reader TableT2 SetT2 FileT2 CodecT2 CheckT2.
Import ListNotations.

Definition L (s : string) : str := s2l s ++ ["010"%char].
Definition demo_set0 : pset :=
  {| ps_lead := [L " TOUGH2 demo"; L " PROBLEM TITLE:  *demo* - three blocks"; L ""; L "          OUTPUT DATA AFTER (  27,  5)-2-TIME STEPS"; L ""; L " @@@@@@@@@@@@@@@@@@@@@@@@@@@@@@@@@@@@@@@@@@@@@@@@@@@@@@@@@@@@@@@@@@@@@@"; L " "; L "   TOTAL TIME   KCYC   ITER  ITERC    KON    DX1M"];
     ps_time := L "  0.15779E+09     27      5    143      2 0.206620E+06"; ps_h1 := [L ""]; ps_sep := L " @@@@@@@@@@@@@@@@@@@@@@@@@@@@@@@@@@@@@@@@@@@@@@@@@@@@@@@@@@@@@@@@@@@@@@"; ps_bl := [L " "]; ps_x := [];
     ps_first := {| p_name := s2l "element"; p_hdr := L " ELEM.  INDEX     P           T          SG"; p_fill := [L "                 (PA)      (DEG-C)"; L ""]; p_row0 := L "  AA 1     1 0.99013E+07 0.12409E+03 0.00000E+00"; p_more := [([], L "  BA 1     2 0.94153E+07 0.19209E+03 0.10000E+01"); ([L ""; L " ELEM.  INDEX     P           T          SG"; L "                 (PA)      (DEG-C)"; L ""], L "  CA 1     3 0.91261E+07 0.26911E+03-0.26935E-01")]; p_eb := [L ""]; p_sep := L " @@@@@@@@@@@@@@@@@@@@@@@@@@@@@@@@@@@@@@@@@@@@@@@@@@@@@@@@@@@@@@@@@@@@@@" |};
     ps_rest := [([L " "; L "          *demo* - three blocks"; L ""; L "                      KCYC =   27  -  ITER =    5  -  TIME = 0.15779E+09"; L ""],
       {| p_name := s2l "generation"; p_hdr := L " ELEMENT SOURCE INDEX      GENERATION RATE     ENTHALPY      X1"; p_fill := [L "                             (KG/S) OR (W)     (J/KG)"; L ""]; p_row0 := L "      AA 1   INJ 1 1           0.37500E+01    0.50000E+06  0.10000E+01"; p_more := [([], L "      CA 1   PRO 1 2          -0.37500E+01    0.14041E+07")]; p_eb := [L ""]; p_sep := L " @@@@@@@@@@@@@@@@@@@@@@@@@@@@@@@@@@@@@@@@@@@@@@@@@@@@@@@@@@@@@@@@@@@@@@" |})];
     ps_tail := [L " "; L " ********** VOLUME- AND MASS-BALANCES ********"; L ""] |}.
Definition demo_set1 : pset :=
  {| ps_lead := [L "          OUTPUT DATA AFTER (  48,  5)-2-TIME STEPS"; L ""; L " @@@@@@@@@@@@@@@@@@@@@@@@@@@@@@@@@@@@@@@@@@@@@@@@@@@@@@@@@@@@@@@@@@@@@@"; L " "; L "   TOTAL TIME   KCYC   ITER  ITERC    KON    DX1M"];
     ps_time := L "  0.78894E+09     48      5    143      2 0.206620E+06"; ps_h1 := [L ""]; ps_sep := L " @@@@@@@@@@@@@@@@@@@@@@@@@@@@@@@@@@@@@@@@@@@@@@@@@@@@@@@@@@@@@@@@@@@@@@"; ps_bl := [L " "]; ps_x := [];
     ps_first := {| p_name := s2l "element"; p_hdr := L " ELEM.  INDEX     P           T          SG"; p_fill := [L "                 (PA)      (DEG-C)"; L ""]; p_row0 := L "  AA 1     1 0.98000E+07 0.12500E+03 0.00000E+00"; p_more := [([], L "  BA 1     2 -.94153-107 0.19209+103 0.10000E+01"); ([L ""; L " ELEM.  INDEX     P           T          SG"; L "                 (PA)      (DEG-C)"; L ""], L "  CA 1     3 0.91261E+07 0.00000E+00-0.26935E-01")]; p_eb := [L ""]; p_sep := L " @@@@@@@@@@@@@@@@@@@@@@@@@@@@@@@@@@@@@@@@@@@@@@@@@@@@@@@@@@@@@@@@@@@@@@" |};
     ps_rest := [([L " "; L "          *demo* - three blocks"; L ""; L "                      KCYC =   48  -  ITER =    5  -  TIME = 0.78894E+09"; L ""],
       {| p_name := s2l "generation"; p_hdr := L " ELEMENT SOURCE INDEX      GENERATION RATE     ENTHALPY      X1"; p_fill := [L "                             (KG/S) OR (W)     (J/KG)"; L ""]; p_row0 := L "      AA 1   INJ 1 1           0.47500E+01    0.50000E+06  0.10000E+01"; p_more := [([], L "      CA 1   PRO 1 2          -.47500E+01    0.14041E+07")]; p_eb := [L ""]; p_sep := L " @@@@@@@@@@@@@@@@@@@@@@@@@@@@@@@@@@@@@@@@@@@@@@@@@@@@@@@@@@@@@@@@@@@@@@" |})];
     ps_tail := [L " "; L " ********** VOLUME- AND MASS-BALANCES ********"; L ""] |}.
Definition demo_sets : list pset := [demo_set0; demo_set1].
Definition demo_file : list str := file_from demo_sets.

Example demo_checked : exists title Ts, file_check T2 demo_sets = Some (title, Ts).
Proof. vm_compute. eexists. eexists. reflexivity. Qed.
Theorem demo_in_class : exists title Ts, file_ok T2 title demo_set0 [demo_set1] Ts.
Proof. destruct demo_checked as [title [Ts H]]. exists title, Ts. apply file_check_sound. exact H. Qed.
(** the reader model on the demo: open with 'generation' skipped, go to the last result set by index -1:
    row 1 of the element table holds the numbers printed there (-.94153-107, 0.19209+103, 0.10000E+01) *)
Example demo_read : exists st T, (do st0 <- open_listing T2 [s2l "generation"] demo_file; set_index st0 (-1)%Z) = Ok st
  /\ s_index st = 1%Z /\ tab_get (s2l "generation") (s_tables st) = None
  /\ tab_get (s2l "element") (s_tables st) = Some T
  /\ lt_rows T = [[s2l " AA 1"]; [s2l " BA 1"]; [s2l " CA 1"]]
  /\ nth 1 (lt_data T) [] = [VFloat (Fin true 94153 (-112)); VFloat (Fin false 19209 98); VFloat (Fin false 10000 (-4))].
Proof. vm_compute. eexists. eexists. repeat split. Qed.
