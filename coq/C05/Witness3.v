(** C05 -- non-vacuity of the AUTOUGH2 whole-file theorem: a small AUTOUGH2 listing (two result sets, an element and a
    generation table, a no-letter exponent, a negative number without leading zero) written out line by line.  The real
    reader opens this text and reads both result sets (compared on every run); [afile_check] accepts it. *)
From Coq Require Import Ascii String List Bool Arith ZArith NArith Lia.
From PTBase Require Import Exn PyStr PyNum PyVal.
From P Require Import Model Table Reader TableT2 SetT2 FileT2 CodecT2 CheckT2 Witness2 TableAUT FileAUT CheckAUT.
Import ListNotations.

Definition ademo_set0 : aset :=
  {| s_pre := [L " preamble line"; L ""]; s_kwl := L "1EEEEEEEEEEEEEEEEEEEEEEEEEEEEEEEEEEEEEEEEEEEEEEEEEEEEEEEEEEEE";
     s_first := {| a_name := s2l "element"; a_t1 := L " AUTOUGH2 demo"; a_t2 := L " OUTPUT AFTER   0 TIME STEPS    0.0000000000000000E+00 SECONDS"; a_t3 := L " THE TIME IS 0.0000E+00 YEARS"; a_k1 := L " EEEEEEEEEEEEEEEEEEEEEEEEEEEEEEEEEEEEEEEEEEEEEEEEEEEEEEEEEEEE"; a_cap := L "                    ELEMENT TABLE"; a_b1 := L ""; a_hdr := L " ELEMEN INDEX   Pressure    Temperature Gas saturati"; a_b2 := L "";
        a_row0 := L "  GS 10     1  0.10135E+06  0.15000E+02  0.10000E+01"; a_more := [L "  GS360     2  0.10135E+06  -.15000E+02  0.00000E+00"; L "  AB  1     3  0.20000E+06  0.25000E+02  0.50000E+00"]; a_kend := L "1EEEEEEEEEEEEEEEEEEEEEEEEEEEEEEEEEEEEEEEEEEEEEEEEEEEEEEEEEEEE"; a_after := L "" |};
     s_more := [(L " GGGGGGGGGGGGGGGGGGGGGGGGGGGGGGGGGGGGGGGGGGGGGGGGGGGGGGGGGGGG",
       {| a_name := s2l "generation"; a_t1 := L " AUTOUGH2 demo"; a_t2 := L " OUTPUT AFTER   0 TIME STEPS    0.0000000000000000E+00 SECONDS"; a_t3 := L " THE TIME IS 0.0000E+00 YEARS"; a_k1 := L " GGGGGGGGGGGGGGGGGGGGGGGGGGGGGGGGGGGGGGGGGGGGGGGGGGGGGGGGGGGG"; a_cap := L "                    GENERATION TABLE"; a_b1 := L ""; a_hdr := L "  ELEMENT     SOURCE    INDEX     Generation rate      Enthalpy"; a_b2 := L "";
        a_row0 := L "    GS 10     SP 25         1      -0.10000E+02       0.97901E+06"; a_more := [L "    AB  1     SP346         2       0.48544E+00       0.73387E+06"]; a_kend := L " GGGGGGGGGGGGGGGGGGGGGGGGGGGGGGGGGGGGGGGGGGGGGGGGGGGGGGGGGGGG"; a_after := L "" |})];
     s_post := [L " ...ITERATING...  AT [   1,  1] --- DELTEX = 0.242751E+07"; L ""] |}.
Definition ademo_set1 : aset :=
  {| s_pre := []; s_kwl := L "1EEEEEEEEEEEEEEEEEEEEEEEEEEEEEEEEEEEEEEEEEEEEEEEEEEEEEEEEEEEE";
     s_first := {| a_name := s2l "element"; a_t1 := L " AUTOUGH2 demo"; a_t2 := L " OUTPUT AFTER  12 TIME STEPS    0.2427510000000000E+07 SECONDS"; a_t3 := L " THE TIME IS 0.0000E+00 YEARS"; a_k1 := L " EEEEEEEEEEEEEEEEEEEEEEEEEEEEEEEEEEEEEEEEEEEEEEEEEEEEEEEEEEEE"; a_cap := L "                    ELEMENT TABLE"; a_b1 := L ""; a_hdr := L " ELEMEN INDEX   Pressure    Temperature Gas saturati"; a_b2 := L "";
        a_row0 := L "  GS 10     1  0.11135E+06  0.16000E+02  0.10000E+01"; a_more := [L "  GS360     2  0.10135+106  0.15000E+02  0.00000E+00"; L "  AB  1     3  0.20000E+06  -.25000-102  0.50000E+00"]; a_kend := L "1EEEEEEEEEEEEEEEEEEEEEEEEEEEEEEEEEEEEEEEEEEEEEEEEEEEEEEEEEEEE"; a_after := L "" |};
     s_more := [(L " GGGGGGGGGGGGGGGGGGGGGGGGGGGGGGGGGGGGGGGGGGGGGGGGGGGGGGGGGGGG",
       {| a_name := s2l "generation"; a_t1 := L " AUTOUGH2 demo"; a_t2 := L " OUTPUT AFTER  12 TIME STEPS    0.2427510000000000E+07 SECONDS"; a_t3 := L " THE TIME IS 0.0000E+00 YEARS"; a_k1 := L " GGGGGGGGGGGGGGGGGGGGGGGGGGGGGGGGGGGGGGGGGGGGGGGGGGGGGGGGGGGG"; a_cap := L "                    GENERATION TABLE"; a_b1 := L ""; a_hdr := L "  ELEMENT     SOURCE    INDEX     Generation rate      Enthalpy"; a_b2 := L "";
        a_row0 := L "    GS 10     SP 25         1      -0.20000E+02       0.97901E+06"; a_more := [L "    AB  1     SP346         2       0.58544E+00       0.73387E+06"]; a_kend := L " GGGGGGGGGGGGGGGGGGGGGGGGGGGGGGGGGGGGGGGGGGGGGGGGGGGGGGGGGGGG"; a_after := L "" |})];
     s_post := [L " ...ITERATING...  AT [   1,  1] --- DELTEX = 0.242751E+07"; L ""] |}.
Definition ademo_sets : list aset := [ademo_set0; ademo_set1].
Definition ademo_file : list str := afile ademo_sets.

Example ademo_checked : exists Ts, afile_check ademo_sets = Some Ts.
Proof. vm_compute. eexists. reflexivity. Qed.
Theorem ademo_in_class : exists Ts, afile_ok ademo_set0 [ademo_set1] Ts.
Proof. destruct ademo_checked as [Ts H]. exists Ts. apply afile_check_sound. exact H. Qed.
(** the reader model on the demo: open with 'generation' skipped, go to the last result set by index -1:
    row 1 of the element table holds the numbers printed there (0.10135+106, 0.15000E+02, 0.00000E+00) *)
Example ademo_read : exists st T, (do st0 <- open_listing AUT [s2l "generation"] ademo_file; set_index st0 (-1)%Z) = Ok st
  /\ s_index st = 1%Z /\ tab_get (s2l "generation") (s_tables st) = None
  /\ tab_get (s2l "element") (s_tables st) = Some T
  /\ lt_rows T = [[s2l "GS 10"]; [s2l "GS360"]; [s2l "AB  1"]]
  /\ nth 1 (lt_data T) [] = [VFloat (Fin false 10135 101); VFloat (Fin false 15000 (-3)); VFloat (Fin false 0 (-5))].
Proof. vm_compute. eexists. eexists. repeat split. Qed.
