(** C05 -- RESULT-SET level, TOUGH2 family: [read_header_TOUGH2], [next_table_TOUGH2] and the loops of
    [setup_tables_TOUGH2] / [read_tables_TOUGH2] (Reader.v) over the tables printed at one result time,
    for any subset of skipped tables.

    A printed table is its lines (TableT2.v) and ends with a separator line that starts with '@@@@@' in
    column 1; between two tables come lines that are not KCYC/ITER lines, one KCYC/ITER line, blank
    lines, and the header of the next table, whose first three words give its name. *)
From Coq Require Import Ascii String List Bool Arith ZArith NArith Lia.
From PTBase Require Import Exn PyStr PyNum PyVal.
From PTModel Require Import Fortran.
From P Require Import Model Table Reader TableT2.
Import ListNotations.
Open Scope char_scope.

(** ** a printed table *)
Record ptable := {
  p_name : str;
  p_hdr : str;                         (* header line *)
  p_fill : list str;                   (* units / blank lines before the first row *)
  p_row0 : str;
  p_more : list (list str * str);      (* (gap lines, row line) *)
  p_eb : list str;                     (* [] or one blank line before the separator *)
  p_sep : str                          (* the separator that ends the table *)
}.
Definition p_end (t : ptable) : list str := p_eb t ++ [p_sep t].
Definition p_front (t : ptable) : list str := p_hdr t :: p_fill t ++ p_row0 t :: more_lines (p_more t) ++ p_eb t.
Definition p_lines (t : ptable) : list str := p_front t ++ [p_sep t].
Lemma p_lines_eq t r : p_lines t ++ r = p_hdr t :: p_fill t ++ p_row0 t :: more_lines (p_more t) ++ p_end t ++ r.
Proof. unfold p_lines, p_front, p_end. cbn [app]. rewrite <- !app_assoc. cbn [app]. rewrite <- !app_assoc. reflexivity. Qed.
(** the rows, each with the gap lines that follow it *)
Fixpoint pair_up (row : str) (more : list (list str * str)) (eb : list str) : list (str * list str) :=
  match more with
  | [] => [(row, eb)]
  | (g, l) :: more' => (row, g) :: pair_up l more' eb
  end.
Lemma pair_up_lines more : forall row eb, row :: more_lines more ++ eb = rows_lines (pair_up row more eb).
Proof.
  induction more as [|[g l] more IH]; intros row eb.
  - unfold rows_lines. cbn. rewrite app_nil_r. reflexivity.
  - unfold more_lines in *. cbn [map concat fst snd pair_up]. unfold rows_lines. cbn [map concat fst snd].
    fold (rows_lines (pair_up l more eb)). rewrite <- IH. rewrite <- !app_assoc. reflexivity.
Qed.
Lemma pair_up_gaps more : forall row eb, map (fun x => length (snd x)) (pair_up row more eb) = gap_lengths more ++ [length eb].
Proof. induction more as [|[g l] more IH]; intros row eb; cbn [pair_up map snd gap_lengths fst app]; [reflexivity|]. unfold gap_lengths in IH. rewrite IH. reflexivity. Qed.
Lemma pair_up_rows more : forall row eb, map fst (pair_up row more eb) = row :: map snd more.
Proof. induction more as [|[g l] more IH]; intros row eb; cbn [pair_up map fst snd]; [reflexivity|]. rewrite IH. reflexivity. Qed.
Definition p_rows (t : ptable) : list str := p_row0 t :: map snd (p_more t).

(** what the reader needs of a table, whatever is inside it: *)
(** setting it up gives [T] and stops at the separator *)
Definition setup_ok (s : sim) (title : str) (t : ptable) (T : ltable) : Prop :=
  forall r, setup_table_T2 s title (p_name t) (p_lines t ++ r) = Ok (T, p_sep t :: r).
(** reading it into [T] gives [T'] and stops at the separator *)
Definition read_ok (t : ptable) (T T' : ltable) : Prop :=
  forall r, read_table_T2 T (p_lines t ++ r) = Ok (T', p_sep t :: r).
(** skipping it (when it was never set up) stops after the separator: no earlier line starts with '@@@@@' in column 1 *)
Definition skip_ok (t : ptable) : Prop := Forall (no_kw 1 kw_at) (p_front t) /\ starts_at 1 kw_at (p_sep t) = true.
Lemma skip_spec s ts t r : skip_ok t -> tab_get (p_name t) ts = None -> sim_eqb s TPLUS = false ->
  skip_table_T2 s ts (p_name t) (p_lines t ++ r) = r.
Proof.
  intros [H1 H2] Hn Hs. rewrite tab_get_none_skip; [|exact Hn|rewrite Hs; reflexivity].
  unfold p_lines. rewrite <- app_assoc. cbn [app]. rewrite (skipto1_app 1 kw_at _ _ r H1 H2). reflexivity.
Qed.

(** ** read_table_TOUGH2 on a table of the shape the structure [T] was set up with *)
Theorem read_table_lines T t : S (length (p_fill t)) = lt_hskip T -> gap_lengths (p_more t) ++ [length (p_eb t)] = lt_skips T ->
  forall r, read_table_T2 T (p_lines t ++ r) = do T' <- assign_lines T (p_rows t); Ok (T', p_sep t :: r).
Proof.
  intros H1 H2 r.
  assert (E : p_lines t ++ r = (p_hdr t :: p_fill t) ++ rows_lines (pair_up (p_row0 t) (p_more t) (p_eb t)) ++ p_sep t :: r).
  { unfold p_lines, p_front. rewrite <- pair_up_lines. cbn [app]. f_equal. rewrite <- !app_assoc. cbn [app]. rewrite <- !app_assoc. reflexivity. }
  rewrite E.
  rewrite read_table_spec.
  - rewrite pair_up_rows. reflexivity.
  - cbn [length]. exact H1.
  - rewrite pair_up_gaps. exact H2.
Qed.

(** ** read_header_TOUGH2 *)
(** after the blank lines either the header of the first table (at least four words) follows, or one short line
    (fewer than four words: 'NCG = CO2' in EOS7c-like listings), blank lines, and then the header *)
Definition extra_ok (xs : list str) (hdr : str) : Prop :=
  (xs = [] /\ (length (split_ws hdr) <? 4)%nat = false)
  \/ (exists e bl2, xs = e :: bl2 /\ is_blank e = false /\ (length (split_ws e) <? 4)%nat = true /\ Forall (fun l => is_blank l = true) bl2).
Lemma read_header_spec s tl tm stp tlrest h1 sep bl xs hdr r : sim_eqb s TPLUS = false ->
  split_ws tl = tm :: stp :: tlrest ->
  Forall (no_kw 1 kw_at) h1 -> starts_at 1 kw_at sep = true ->
  Forall (fun l => is_blank l = true) bl -> is_blank hdr = false -> extra_ok xs hdr ->
  read_header_T2 s (tl :: h1 ++ sep :: bl ++ xs ++ hdr :: r) = Ok (fortran_float tm zero, fortran_int stp (VInt 0), hdr :: r).
Proof.
  intros Hs Ht H1 Hsep Hbl Hh Hx. unfold read_header_T2. cbn [readline]. rewrite Ht, Hs.
  rewrite (skipto1_app 1 kw_at h1 sep _ H1 Hsep). cbn [snd].
  destruct Hx as [[E H4]|[e [bl2 [E [He [H4 Hb2]]]]]]; subst xs.
  - cbn [app]. rewrite (skip_to_nonblank_app bl hdr r Hbl Hh). cbn [bind readline]. rewrite H4. reflexivity.
  - cbn [app]. rewrite (skip_to_nonblank_app bl e _ Hbl He). cbn [bind readline]. rewrite H4.
    rewrite (skip_to_nonblank_app bl2 hdr r Hb2 Hh). reflexivity.
Qed.

(** ** next_table_TOUGH2 between two tables *)
Definition not_kcyc (l : str) : Prop := is_kcyc l = false.
(** an EOS7c 'MASS FLOW RATES (KG/S) FROM DIFFUSION' block between two tables: lines without a KCYC/ITER line, a KCYC/ITER
    line, blank lines, the title line, lines up to an '@@@@@' line; [next_table_TOUGH2] passes over it *)
Definition mblock (b : list str) : Prop :=
  exists nk kc bl m body sp, b = nk ++ kc :: bl ++ m :: body ++ [sp] /\ Forall not_kcyc nk /\ is_kcyc kc = true
    /\ Forall (fun l => is_blank l = true) bl /\ is_blank m = false /\ str_eqb (fstrip m) mass_flow_title = true
    /\ Forall (no_kw 1 kw_at) body /\ starts_at 1 kw_at sp = true.
Record inter_ok (fullpos : list cur) (index : Z) (inter : list str) (hdr : str) (name : str) (r : cur) : Prop := {
  io_split : exists blocks nk kc bl, inter = concat blocks ++ nk ++ kc :: bl /\ Forall mblock blocks /\ Forall not_kcyc nk /\ is_kcyc kc = true
                                     /\ Forall (fun l => is_blank l = true) bl;
  io_past : forall c, past_next_set fullpos index (c ++ hdr :: r) = Ok false;
  io_hdr : is_blank hdr = false;
  io_mass : str_eqb (fstrip hdr) mass_flow_title = false;
  io_type : table_type_T2 (firstn 3 (split_ws (fstrip hdr))) = Ok (Some name)
}.
Lemma next_table_blocks fullpos index hdr name r nk kc bl : Forall not_kcyc nk -> is_kcyc kc = true -> Forall (fun l => is_blank l = true) bl ->
  (forall c, past_next_set fullpos index (c ++ hdr :: r) = Ok false) -> is_blank hdr = false -> str_eqb (fstrip hdr) mass_flow_title = false ->
  table_type_T2 (firstn 3 (split_ws (fstrip hdr))) = Ok (Some name) ->
  forall blocks fuel z, length blocks <= fuel -> Forall not_kcyc z -> Forall mblock blocks ->
  next_table_T2 (S fuel) fullpos index (z ++ concat blocks ++ nk ++ kc :: bl ++ hdr :: r) = Ok (Some name, hdr :: r).
Proof.
  intros Hnk Hkc Hbl Hpast Hh Hm Ht. induction blocks as [|b blocks IH]; intros fuel z Hf Hz Hb.
  - cbn [concat app next_table_T2]. rewrite app_assoc.
    rewrite (scan_past_app is_kcyc (z ++ nk) kc _); [|apply Forall_app; split; assumption|exact Hkc].
    rewrite (Hpast bl). cbn [bind]. rewrite (skip_to_nonblank_app bl hdr r Hbl Hh). cbn [bind readline]. rewrite Hm, Ht. reflexivity.
  - destruct fuel as [|f]; [cbn in Hf; lia|]. inversion Hb as [|? ? [nk' [kc' [bl' [m [body [sp [E [H1 [H2 [H3 [H4 [H5 [H6 H7]]]]]]]]]]]]] Hb']; subst.
    cbn [concat next_table_T2]. repeat (rewrite <- app_assoc; cbn [app]). rewrite app_assoc.
    rewrite (scan_past_app is_kcyc (z ++ nk') kc' _); [|apply Forall_app; split; assumption|exact H2].
    match goal with |- context [past_next_set fullpos index ?R] => assert (HP : past_next_set fullpos index R = Ok false) end.
    { replace (bl' ++ m :: body ++ sp :: concat blocks ++ nk ++ kc :: bl ++ hdr :: r)
        with ((bl' ++ m :: body ++ sp :: concat blocks ++ nk ++ kc :: bl) ++ hdr :: r) by (repeat (rewrite <- app_assoc; cbn [app]); reflexivity).
      apply Hpast. }
    rewrite HP. cbn [bind]. rewrite (skip_to_nonblank_app bl' m _ H3 H4). cbn [bind readline]. rewrite H5.
    rewrite (skipto1_app 1 kw_at body sp _ H6 H7). cbn [snd].
    specialize (IH f [] ltac:(cbn [length] in Hf; lia) (Forall_nil _) Hb'). cbn [app] in IH. exact IH.
Qed.
Lemma concat_length_ge {A} (bs : list (list A)) : Forall (fun b => b <> []) bs -> length bs <= length (concat bs).
Proof. induction 1 as [|b bs H _ IH]; cbn [concat length]; [lia|]. rewrite app_length. destruct b; [congruence|cbn [length]; lia]. Qed.
Lemma next_table_inter fuel fullpos index z inter hdr name r :
  Forall not_kcyc z -> inter_ok fullpos index inter hdr name r -> length inter <= fuel ->
  next_table_T2 (S fuel) fullpos index (z ++ inter ++ hdr :: r) = Ok (Some name, hdr :: r).
Proof.
  intros Hz [[blocks [nk [kc [bl [E [Hb [Hnk [Hkc Hbl]]]]]]]] Hpast Hh Hm Ht] Hf. subst inter.
  repeat (rewrite <- app_assoc; cbn [app]).
  apply (next_table_blocks fullpos index hdr name r nk kc bl Hnk Hkc Hbl Hpast Hh Hm Ht blocks fuel z); [|exact Hz|exact Hb].
  rewrite app_length in Hf. assert (length blocks <= length (concat blocks)); [|lia].
  apply concat_length_ge. eapply Forall_impl; [|exact Hb]. intros b [nk' [kc' [bl' [m [body [sp [Eb _]]]]]]]. subst b. destruct nk'; discriminate.
Qed.

Lemma next_table_inter' fullpos index z inter hdr name r :
  Forall not_kcyc z -> inter_ok fullpos index inter hdr name r ->
  next_table_T2 (S (length (z ++ inter ++ hdr :: r))) fullpos index (z ++ inter ++ hdr :: r) = Ok (Some name, hdr :: r).
Proof. intros Hz Hio. apply next_table_inter; [exact Hz|exact Hio|]. rewrite !app_length. lia. Qed.

(** ** the tables of one result set *)
(** the lines from the header of the first table on: tables separated by their [inter] lines, then [after] *)
Fixpoint rest_lines (its : list (list str * ptable)) (after : cur) : cur :=
  match its with
  | [] => after
  | (inter, t) :: its' => inter ++ p_lines t ++ rest_lines its' after
  end.
Fixpoint inters_ok (fullpos : list cur) (index : Z) (its : list (list str * ptable)) (after : cur) : Prop :=
  match its with
  | [] => True
  | (inter, t) :: its' => inter_ok fullpos index inter (p_hdr t) (p_name t) (tl (p_lines t) ++ rest_lines its' after)
                          /\ inters_ok fullpos index its' after
  end.
Lemma p_lines_cons t : p_lines t = p_hdr t :: tl (p_lines t).
Proof. reflexivity. Qed.
(** after the last table no further table is found, whether the position is at its separator or after it *)
Definition ends_here (fullpos : list cur) (index : Z) (sep : str) (after : cur) : Prop :=
  forall z, z = [] \/ z = [sep] -> exists c', next_table_T2 (S (length (z ++ after))) fullpos index (z ++ after) = Ok (None, c').
Definition last_sep (t : ptable) (its : list (list str * ptable)) : str := p_sep (last (map snd its) t).


(** ** the loops of setup_tables_TOUGH2 and read_tables_TOUGH2 *)
Lemma tab_get_add_other n m T ts : str_eqb m n = false -> tab_get n (tab_add m T ts) = tab_get n ts.
Proof.
  intro H. unfold tab_add. induction ts as [|[k U] ts IH]; cbn [app tab_get]; [rewrite H; reflexivity|].
  destruct (str_eqb k n); [reflexivity|exact IH].
Qed.
Lemma tab_get_add_same n T ts : tab_get n ts = None -> tab_get n (tab_add n T ts) = Some T.
Proof.
  unfold tab_add. induction ts as [|[k U] ts IH]; cbn [app tab_get]; intro H; [rewrite str_eqb_refl; reflexivity|].
  destruct (str_eqb k n); [discriminate|apply IH; exact H].
Qed.
Lemma tab_get_set_other n m T ts : str_eqb m n = false -> tab_get n (tab_set m T ts) = tab_get n ts.
Proof.
  intro H. induction ts as [|[k U] ts IH]; cbn [tab_set tab_get]; [reflexivity|].
  destruct (str_eqb k m) eqn:E; cbn [tab_get].
  - apply str_eqb_eq in E. subst k. rewrite H. reflexivity.
  - destruct (str_eqb k n); [reflexivity|exact IH].
Qed.
Lemma tab_get_set_same n T U ts : tab_get n ts = Some U -> tab_get n (tab_set n T ts) = Some T.
Proof.
  induction ts as [|[k V] ts IH]; cbn [tab_set tab_get]; intro H; [discriminate|].
  destruct (str_eqb k n) eqn:E; cbn [tab_get]; rewrite E; [reflexivity|apply IH; exact H].
Qed.
Lemma tab_set_names n T ts : map fst (tab_set n T ts) = map fst ts.
Proof. induction ts as [|[k V] ts IH]; cbn [tab_set map fst]; [reflexivity|]. destruct (str_eqb k n); cbn [map fst]; [reflexivity|rewrite IH; reflexivity]. Qed.
Lemma in_names_false_neq n l m : in_names n l = false -> in_names m l = true -> str_eqb m n = false.
Proof.
  intros H1 H2. destruct (str_eqb m n) eqn:E; [|reflexivity]. apply str_eqb_eq in E. subst m. congruence.
Qed.

Lemma in_names_neq m n l : in_names m l = false -> in_names n l = true -> str_eqb m n = false.
Proof. intros H1 H2. destruct (str_eqb m n) eqn:E; [|reflexivity]. apply str_eqb_eq in E. subst m. congruence. Qed.
Lemma Forall2_cons_inv {A B} (R : A -> B -> Prop) x l y m : Forall2 R (x :: l) (y :: m) -> R x y /\ Forall2 R l m.
Proof. intro H. inversion H. split; assumption. Qed.
Lemma Forall2_len {A B} (R : A -> B -> Prop) l m : Forall2 R l m -> length l = length m.
Proof. induction 1; cbn [length]; congruence. Qed.
Lemma last_cons_default {A} (l : list A) : forall x d, last (x :: l) d = last l x.
Proof.
  induction l as [|y l IH]; intros x d; [reflexivity|].
  change (last (x :: y :: l) d) with (last (y :: l) d). rewrite (IH y d), (IH y x). reflexivity.
Qed.

Section Loops.
  Variable s : sim.
  Hypothesis Hs : sim_eqb s TPLUS = false.

  Lemma next_table_state st ts c : next_table (with_tables st ts) c = next_table st c.
  Proof. reflexivity. Qed.
  Lemma next_table_T2_eq st c : s_sim st = s -> next_table st c = next_table_T2 (S (length c)) (s_fullpos st) (s_index st) c.
  Proof. intro E. unfold next_table. rewrite E, Hs. reflexivity. Qed.
  Lemma tp_rename_id tn nelt : tp_rename s tn nelt = (tn, nelt).
  Proof. unfold tp_rename. destruct tn; [rewrite Hs|]; reflexivity. Qed.

  (** the tables that setting up adds: those that are not skipped *)
  Fixpoint added (skip : list str) (us : list ptable) (Ts : list ltable) : tabs :=
    match us, Ts with
    | u :: us', T :: Ts' => if in_names (p_name u) skip then added skip us' Ts' else (p_name u, T) :: added skip us' Ts'
    | _, _ => []
    end.
  Definition table_ok (skip : list str) (title : str) (u : ptable) (T : ltable) : Prop :=
    not_kcyc (p_sep u) /\ if in_names (p_name u) skip then skip_ok u else setup_ok s title u T.

  Lemma setup_tables_loop_spec its : forall fuel st t Ts after nelt,
    s_sim st = s -> length its < fuel ->
    Forall2 (table_ok (s_skip st) (s_title st)) (t :: map snd its) Ts ->
    (forall n, in_names n (s_skip st) = true -> tab_get n (s_tables st) = None) ->
    inters_ok (s_fullpos st) (s_index st) its after ->
    ends_here (s_fullpos st) (s_index st) (last_sep t its) after ->
    setup_tables_loop fuel st (p_name t) nelt (p_lines t ++ rest_lines its after)
    = Ok (with_tables st (s_tables st ++ added (s_skip st) (t :: map snd its) Ts)).
  Proof.
    induction its as [|[inter t'] its IH]; intros fuel st t Ts after nelt Hsim Hf HT Hno Hin Hend.
    - destruct fuel as [|f]; [cbn in Hf; lia|]. inversion HT as [|? T ? Ts' [Hk HT1] HT2]; subst. inversion HT2; subst.
      cbn [setup_tables_loop rest_lines map added]. unfold last_sep in Hend. cbn [map last] in Hend.
      destruct (in_names (p_name t) (s_skip st)) eqn:Esk.
      + rewrite Hsim, (skip_spec s _ t after HT1 (Hno _ Esk) Hs). cbn [bind].
        rewrite (next_table_T2_eq st after Hsim). destruct (Hend [] (or_introl eq_refl)) as [c' Hc]. cbn [app] in Hc. rewrite Hc. cbn [bind fst].
        cbn [with_tables s_sim]; rewrite ?Hsim, tp_rename_id. rewrite app_nil_r. destruct st; reflexivity.
      + rewrite Hsim. rewrite (HT1 after). cbn [bind fst snd].
        rewrite next_table_state, (next_table_T2_eq st _ Hsim). destruct (Hend [p_sep t] (or_intror eq_refl)) as [c' Hc]. cbn [app] in Hc. rewrite Hc.
        cbn [bind fst]. cbn [with_tables s_sim]; rewrite ?Hsim, tp_rename_id. reflexivity.
    - destruct fuel as [|f]; [cbn in Hf; lia|]. inversion HT as [|? T ? Ts' [Hk HT1] HT2]; subst.
      destruct Hin as [Hio Hin']. cbn [map snd] in HT2.
      cbn [setup_tables_loop rest_lines map snd added].
      assert (Hend' : ends_here (s_fullpos st) (s_index st) (last_sep t' its) after).
      { unfold last_sep in *. cbn [map snd] in Hend. rewrite last_cons_default in Hend. exact Hend. }
      destruct (in_names (p_name t) (s_skip st)) eqn:Esk.
      + rewrite Hsim, (skip_spec s _ t _ HT1 (Hno _ Esk) Hs). cbn [bind].
        rewrite (next_table_T2_eq st _ Hsim).
        rewrite (p_lines_cons t'). cbn [app].
        pose proof (next_table_inter' (s_fullpos st) (s_index st) [] inter (p_hdr t') (p_name t') _ (Forall_nil _) Hio) as NT. cbn [app] in NT. rewrite NT. clear NT. cbn [bind fst snd].
        cbn [with_tables s_sim]; rewrite ?Hsim, tp_rename_id.
        change (p_hdr t' :: tl (p_lines t') ++ rest_lines its after) with (p_lines t' ++ rest_lines its after).
        rewrite (IH f st t' Ts' after nelt Hsim ltac:(cbn [length] in Hf; lia) HT2 Hno Hin' Hend'). reflexivity.
      + rewrite Hsim. rewrite (HT1 _). cbn [bind fst snd].
        rewrite next_table_state, (next_table_T2_eq st _ Hsim).
        rewrite (p_lines_cons t'). cbn [app].
        change (p_sep t :: inter ++ p_hdr t' :: tl (p_lines t') ++ rest_lines its after)
          with ([p_sep t] ++ inter ++ p_hdr t' :: tl (p_lines t') ++ rest_lines its after).
        pose proof (next_table_inter' (s_fullpos st) (s_index st) [p_sep t] inter (p_hdr t') (p_name t') _ (Forall_cons _ Hk (Forall_nil _)) Hio) as NT. rewrite NT. clear NT. cbn [bind fst snd].
        cbn [with_tables s_sim]; rewrite ?Hsim, tp_rename_id.
        change (p_hdr t' :: tl (p_lines t') ++ rest_lines its after) with (p_lines t' ++ rest_lines its after).
        set (st1 := with_tables st (tab_add (p_name t) T (s_tables st))).
        rewrite (IH f st1 t' Ts' after nelt).
        * unfold st1, tab_add. cbn [with_tables s_tables s_skip]. rewrite <- app_assoc. reflexivity.
        * exact Hsim.
        * cbn [length] in Hf. lia.
        * exact HT2.
        * intros n Hn. unfold st1. cbn [with_tables s_tables]. rewrite tab_get_add_other; [apply Hno; exact Hn|].
          apply (in_names_neq _ _ (s_skip st)); [exact Esk|exact Hn].
        * exact Hin'.
        * exact Hend'.
  Qed.

  (** reading: a table is skipped, or read into the structure of that name *)
  Definition rtable_ok (skip : list str) (ts : tabs) (u : ptable) (TT : ltable * ltable) : Prop :=
    not_kcyc (p_sep u) /\ if in_names (p_name u) skip then skip_ok u /\ tab_get (p_name u) ts = None
                          else tab_get (p_name u) ts = Some (fst TT) /\ read_ok u (fst TT) (snd TT).
  Fixpoint updated (skip : list str) (us : list ptable) (TTs : list (ltable * ltable)) (ts : tabs) : tabs :=
    match us, TTs with
    | u :: us', TT :: r => updated skip us' r (if in_names (p_name u) skip then ts else tab_set (p_name u) (snd TT) ts)
    | _, _ => ts
    end.
  Lemma rtable_ok_other skip ts u TT m X : str_eqb m (p_name u) = false -> rtable_ok skip ts u TT -> rtable_ok skip (tab_set m X ts) u TT.
  Proof.
    intros Hm [H1 H2]. split; [exact H1|]. rewrite (tab_get_set_other _ _ X ts Hm). exact H2.
  Qed.

  Lemma read_tables_loop_spec its : forall fuel st t TTs after nelt,
    s_sim st = s -> length its < fuel ->
    NoDup (map p_name (t :: map snd its)) ->
    Forall2 (rtable_ok (s_skip st) (s_tables st)) (t :: map snd its) TTs ->
    inters_ok (s_fullpos st) (s_index st) its after ->
    ends_here (s_fullpos st) (s_index st) (last_sep t its) after ->
    read_tables_loop fuel st (p_name t) nelt (p_lines t ++ rest_lines its after)
    = Ok (with_tables st (updated (s_skip st) (t :: map snd its) TTs (s_tables st))).
  Proof.
    induction its as [|[inter t'] its IH]; intros fuel st t TTs after nelt Hsim Hf Hnd HT Hin Hend.
    - destruct fuel as [|f]; [cbn in Hf; lia|]. destruct TTs as [|TT TTs']; [inversion HT|]. apply Forall2_cons_inv in HT as [[Hk HT1] HT2]. cbn [map] in HT2. destruct TTs' as [|? ?]; [|inversion HT2].
      cbn [read_tables_loop rest_lines map updated]. unfold last_sep in Hend. cbn [map last] in Hend.
      destruct (in_names (p_name t) (s_skip st)) eqn:Esk.
      + destruct HT1 as [HT1 Hnone]. rewrite Hsim, (skip_spec s _ t after HT1 Hnone Hs). cbn [bind].
        rewrite (next_table_T2_eq st after Hsim). destruct (Hend [] (or_introl eq_refl)) as [c' Hc]. cbn [app] in Hc. rewrite Hc. cbn [bind fst].
        cbn [with_tables s_sim]; rewrite ?Hsim, tp_rename_id. destruct st; reflexivity.
      + destruct HT1 as [Hget Hread]. rewrite Hget. rewrite (Hread after). cbn [bind fst snd].
        rewrite next_table_state, (next_table_T2_eq st _ Hsim). destruct (Hend [p_sep t] (or_intror eq_refl)) as [c' Hc]. cbn [app] in Hc. rewrite Hc.
        cbn [bind fst]. cbn [with_tables s_sim]; rewrite ?Hsim, tp_rename_id. reflexivity.
    - destruct fuel as [|f]; [cbn in Hf; lia|]. destruct TTs as [|TT TTs']; [inversion HT|]. apply Forall2_cons_inv in HT as [[Hk HT1] HT2].
      destruct Hin as [Hio Hin']. cbn [map snd] in HT2.
      cbn [read_tables_loop rest_lines map snd updated].
      assert (Hend' : ends_here (s_fullpos st) (s_index st) (last_sep t' its) after).
      { unfold last_sep in *. cbn [map snd] in Hend. rewrite last_cons_default in Hend. exact Hend. }
      assert (Hnd' : NoDup (map p_name (t' :: map snd its))) by (cbn [map snd] in Hnd; apply NoDup_cons_iff in Hnd as [_ Hnd]; exact Hnd).
      assert (Hneq : forall u, In u (t' :: map snd its) -> str_eqb (p_name t) (p_name u) = false).
      { intros u Hu. cbn [map snd] in Hnd. apply NoDup_cons_iff in Hnd as [Hni _]. destruct (str_eqb (p_name t) (p_name u)) eqn:E; [|reflexivity].
        apply str_eqb_eq in E. exfalso. apply Hni. rewrite E. exact (in_map p_name (t' :: map snd its) u Hu). }
      destruct (in_names (p_name t) (s_skip st)) eqn:Esk.
      + destruct HT1 as [HT1 Hnone]. rewrite Hsim, (skip_spec s _ t _ HT1 Hnone Hs). cbn [bind].
        rewrite (next_table_T2_eq st _ Hsim).
        rewrite (p_lines_cons t'). cbn [app].
        pose proof (next_table_inter' (s_fullpos st) (s_index st) [] inter (p_hdr t') (p_name t') _ (Forall_nil _) Hio) as NT. cbn [app] in NT. rewrite NT. clear NT. cbn [bind fst snd].
        cbn [with_tables s_sim]; rewrite ?Hsim, tp_rename_id.
        change (p_hdr t' :: tl (p_lines t') ++ rest_lines its after) with (p_lines t' ++ rest_lines its after).
        rewrite (IH f st t' TTs' after nelt Hsim ltac:(cbn [length] in Hf; lia) Hnd' HT2 Hin' Hend'). reflexivity.
      + destruct HT1 as [Hget Hread]. rewrite Hget. rewrite (Hread _). cbn [bind fst snd].
        rewrite next_table_state, (next_table_T2_eq st _ Hsim).
        rewrite (p_lines_cons t'). cbn [app].
        change (p_sep t :: inter ++ p_hdr t' :: tl (p_lines t') ++ rest_lines its after)
          with ([p_sep t] ++ inter ++ p_hdr t' :: tl (p_lines t') ++ rest_lines its after).
        pose proof (next_table_inter' (s_fullpos st) (s_index st) [p_sep t] inter (p_hdr t') (p_name t') _ (Forall_cons _ Hk (Forall_nil _)) Hio) as NT. rewrite NT. clear NT. cbn [bind fst snd].
        cbn [with_tables s_sim]; rewrite ?Hsim, tp_rename_id.
        change (p_hdr t' :: tl (p_lines t') ++ rest_lines its after) with (p_lines t' ++ rest_lines its after).
        set (st1 := with_tables st (tab_set (p_name t) (snd TT) (s_tables st))).
        rewrite (IH f st1 t' TTs' after nelt).
        * reflexivity.
        * exact Hsim.
        * cbn [length] in Hf. lia.
        * exact Hnd'.
        * unfold st1. cbn [with_tables s_tables s_skip].
          clear - HT2 Hneq. revert HT2 Hneq. generalize (t' :: map snd its) as us. intros us HT2. induction HT2 as [|u TT' us TTs HU _ IHF]; intro Hneq; constructor.
          -- apply rtable_ok_other; [apply Hneq; left; reflexivity|exact HU].
          -- apply IHF. intros v Hv. apply Hneq. right. exact Hv.
        * exact Hin'.
        * exact Hend'.
  Qed.
End Loops.

(** ** a table at the first result time: the line-level facts from which [setup_table_TOUGH2] builds its structure *)
Record tparts := {
  tp_nkeys : nat; tp_cols : list str; tp_expected : nat; tp_i0 : bool; tp_start : Z;
  tp_keypos : list Z; tp_lastk : Z; tp_entries : list entry; tp_longest : str; tp_numpos : list Z
}.
Definition table_of (P : tparts) (t : ptable) : ltable :=
  new_table (tp_cols P) (map (fun x => snd (snd x)) (tp_entries P)) (tp_nkeys P) (tp_keypos P) (tp_numpos P)
            (map (fun x => fst (snd x)) (tp_entries P)) (S (length (p_fill t))) (gap_lengths (p_more t) ++ [length (p_eb t)]).
Record tshape (s : sim) (title : str) (t : ptable) (P : tparts) : Prop := {
  ts_hdr : parse_header_T2 s (p_hdr t) = Ok (tp_nkeys P, tp_cols P);
  ts_exp : expected_floats (p_name t) (tp_cols P) = Ok (tp_expected P);
  ts_i0 : col0_is_I (tp_cols P) = Ok (tp_i0 P);
  ts_fill : Forall (not_results (tp_expected P)) (p_fill t);
  ts_row0 : is_results_line (fstrip (p_row0 t)) (tp_expected P) = true;
  ts_start : start_of_values (p_row0 t) (tp_i0 P) = Ok (Some (tp_start P));
  ts_keypos : key_positions (pyslice None (Some (tp_start P)) (p_row0 t)) (tp_nkeys P) = Ok (Some (tp_keypos P));
  ts_keypos_ne : tp_keypos P <> [];
  ts_lastk : last_z (tp_keypos P) = Ok (tp_lastk P);
  ts_gaps : gaps_ok (tp_cols P) title (tp_expected P) None (p_more t) = true;
  ts_end : end_check (tp_cols P) title (p_end t) = true;
  (** one dictionary entry per printed row, with strictly increasing printed indices *)
  ts_entries : entries (tp_keypos P) (tp_lastk P + 5)%Z (Some (tp_start P)) (p_row0 t) 0 (-1)%Z (p_more t) = Ok (tp_entries P);
  ts_increasing : increasing (-1)%Z (tp_entries P);
  (** the line the layout is inferred from, and the layout *)
  ts_longest : tp_longest P = fold_left longer (map snd (p_more t)) (longer (p_row0 t) (p_row0 t));
  ts_numpos : parse_table_line (tp_longest P) (tp_start P) (tp_i0 P) = Some (tp_numpos P)
}.

Lemma spec_rows_of_entries keypos ip0 ip1 more : forall line count index d longest es,
  entries keypos ip0 ip1 line count index more = Ok es ->
  spec_rows keypos ip0 ip1 line count index d longest more = Ok (ins_all es d, fold_left longer (map snd more) (longer longest line)).
Proof.
  induction more as [|[g l] more IH]; intros line count index d longest es H; cbn [entries spec_rows] in *.
  - destruct (row_keys keypos line) as [kv|]; [|discriminate]. cbn [bind] in *. inversion H; subst. reflexivity.
  - destruct (row_keys keypos line) as [kv|]; [|discriminate]. cbn [bind] in *.
    destruct (entries keypos ip0 ip1 l (count + S (length g)) (next_index ip0 ip1 line index) more) as [rest|] eqn:E; [|discriminate].
    cbn [bind] in H. inversion H; subst. rewrite (IH _ _ _ _ _ rest E). reflexivity.
Qed.
Lemma end_skip_p_end t : end_skip (p_end t) = length (p_eb t) /\ end_rest (p_end t) = [p_sep t].
Proof.
  unfold end_skip, end_rest, p_end. rewrite app_length. cbn [length]. replace (length (p_eb t) + 1 - 1) with (length (p_eb t)) by lia.
  split; [reflexivity|]. rewrite skipn_app, skipn_all, Nat.sub_diag. reflexivity.
Qed.
Theorem tshape_setup s title t P : tshape s title t P -> setup_ok s title t (table_of P t).
Proof.
  intros H r. rewrite p_lines_eq.
  assert (Hspec : spec_rows (tp_keypos P) (tp_lastk P + 5)%Z (Some (tp_start P)) (p_row0 t) 0 (-1)%Z [] (p_row0 t) (p_more t)
                  = Ok (tp_entries P, tp_longest P)).
  { rewrite (spec_rows_of_entries _ _ _ _ _ _ _ [] (p_row0 t) _ (ts_entries _ _ _ _ H)). f_equal. f_equal.
    - exact (ins_all_increasing (tp_entries P) [] (-1)%Z (Forall_nil _) (ts_increasing _ _ _ _ H)).
    - symmetry. exact (ts_longest _ _ _ _ H). }
  rewrite (setup_table_spec s title (p_name t) (p_hdr t) (p_fill t) (p_row0 t) (p_more t) (p_end t) r
             (tp_nkeys P) (tp_cols P) (tp_expected P) (tp_i0 P) (tp_start P) (tp_keypos P) (tp_lastk P) (tp_entries P) (tp_longest P) (tp_numpos P)
             (ts_hdr _ _ _ _ H) (ts_exp _ _ _ _ H) (ts_i0 _ _ _ _ H) (ts_fill _ _ _ _ H) (ts_row0 _ _ _ _ H) (ts_start _ _ _ _ H)
             (ts_keypos _ _ _ _ H) (ts_keypos_ne _ _ _ _ H) (ts_lastk _ _ _ _ H) (ts_gaps _ _ _ _ H) (ts_end _ _ _ _ H) Hspec (ts_numpos _ _ _ _ H)).
  destruct (end_skip_p_end t) as [E1 E2]. rewrite E1, E2. reflexivity.
Qed.

(** table_rows_keys: the rows of the structure are the names printed at the key columns, one per printed row, in
    printed order; row_line counts the lines from the first row *)
Fixpoint row_offsets (count : nat) (more : list (list str * str)) : list nat :=
  match more with [] => [count] | (g, _) :: more' => count :: row_offsets (count + S (length g)) more' end.
Lemma entries_rows keypos ip0 ip1 more : forall line count index es,
  entries keypos ip0 ip1 line count index more = Ok es ->
  Forall2 (fun l k => key_from_line l keypos = Ok k) (line :: map snd more) (map (fun x => snd (snd x)) es)
  /\ map (fun x => fst (snd x)) es = row_offsets count more.
Proof.
  induction more as [|[g l] more IH]; intros line count index es H; cbn [entries] in H.
  - unfold row_keys in H. destruct (key_from_line line keypos) as [kv|] eqn:E; [|discriminate]. cbn [bind] in H. inversion H; subst.
    cbn [map fst snd row_offsets]. split; [constructor; [exact E|constructor]|reflexivity].
  - unfold row_keys in H. destruct (key_from_line line keypos) as [kv|] eqn:E; [|discriminate]. cbn [bind] in H.
    destruct (entries keypos ip0 ip1 l (count + S (length g)) (next_index ip0 ip1 line index) more) as [rest|] eqn:Er; [|discriminate].
    cbn [bind] in H. inversion H; subst. destruct (IH _ _ _ _ Er) as [I1 I2].
    cbn [map fst snd row_offsets]. split; [constructor; [exact E|exact I1]|rewrite I2; reflexivity].
Qed.
Theorem table_rows_keys_thm s title t P : tshape s title t P ->
  Forall2 (fun l k => key_from_line l (tp_keypos P) = Ok k) (p_rows t) (lt_rows (table_of P t))
  /\ lt_rowline (table_of P t) = row_offsets 0 (p_more t)
  /\ length (lt_rows (table_of P t)) = length (p_rows t).
Proof.
  intro H. destruct (entries_rows _ _ _ _ _ _ _ _ (ts_entries _ _ _ _ H)) as [E1 E2].
  split; [exact E1|]. split; [exact E2|]. symmetry. exact (Forall2_len _ _ _ E1).
Qed.

(** ** a table of the same shape at any result time *)
Record tlater (T : ltable) (u : ptable) : Prop := {
  tl_hskip : S (length (p_fill u)) = lt_hskip T;
  tl_skips : gap_lengths (p_more u) ++ [length (p_eb u)] = lt_skips T;
  tl_keys : Forall2 (fun l k => key_from_line l (lt_keypos T) = Ok k) (p_rows u) (lt_rows T)
}.
Lemma tshape_later s title t P : tshape s title t P -> tlater (table_of P t) t.
Proof. intro H. split; [reflexivity|reflexivity|]. exact (proj1 (table_rows_keys_thm s title t P H)). Qed.
Definition struct_ok (T : ltable) : Prop := NoDup (lt_rows T) /\ 1 <= length (lt_values T) <= S (length (lt_cols T)).
(** reading replaces the whole data of the table by the decoded rows, whatever it held before *)
Theorem tlater_read T u d : struct_ok T -> tlater T u -> length d = length (lt_rows T) ->
  read_ok u (with_data T d) (with_data T (map (decode_line T) (p_rows u))).
Proof.
  intros [Hnd Hv] [H1 H2 H3] Hd r.
  rewrite (read_table_lines (with_data T d) u H1 H2 r).
  rewrite (assign_lines_inorder (p_rows u) (with_data T d) [] d (lt_rows T)).
  - reflexivity.
  - exact H3.
  - exact Hnd.
  - exists []. split; reflexivity.
  - reflexivity.
  - rewrite Hd. symmetry. exact (Forall2_len _ _ _ H3).
  - exact Hv.
Qed.
