(** C05 -- the class of TOUGH2-family listings with rows in any order / printed more than once (TOUGH2-MP) and with tables
    that the first result set lacks (TOUGH2/11; after the repair b85eb41 they are passed over like skipped tables):
    whole-file theorems built on the loops of LoopG.v and the row theorems of TableG.v.  Tables end in an '@@@@@' separator. *)
From Coq Require Import Ascii String List Bool Arith ZArith NArith Lia.
From PTBase Require Import Exn PyStr PyNum PyVal.
From PTModel Require Import Fortran.
From P Require Import Model Table Reader Cells TableT2 SetT2 FileT2 CodecT2 CheckT2 LoopG FileG TableG CodecTP.
Import ListNotations.
Open Scope char_scope.

(** ** the structure of a table whose rows need not be in index order *)
Definition tshape_checkG (s : sim) (title : str) (t : ptable) : option tparts :=
  match parse_header_T2 s (p_hdr t) with
  | Ok (nkeys, cols) =>
    match expected_floats (p_name t) cols with
    | Ok e =>
      match col0_is_I cols with
      | Ok i0 =>
        match start_of_values (p_row0 t) i0 with
        | Ok (Some st) =>
          match key_positions (pyslice None (Some st) (p_row0 t)) nkeys with
          | Ok (Some kp) =>
            match last_z kp with
            | Ok lastk =>
              match entries kp (lastk + 5)%Z (Some st) (p_row0 t) 0 (-1)%Z (p_more t) with
              | Ok es =>
                let longest := fold_left longer (map snd (p_more t)) (longer (p_row0 t) (p_row0 t)) in
                match parse_table_line longest st i0 with
                | Some numpos =>
                    if forallb (fun l => negb (is_results_line (fstrip l) e)) (p_fill t)
                       && is_results_line (fstrip (p_row0 t)) e
                       && (match kp with [] => false | _ => true end)
                       && gaps_ok cols title e None (p_more t)
                       && end_check cols title (p_end t)
                    then Some {| tp_nkeys := nkeys; tp_cols := cols; tp_expected := e; tp_i0 := i0; tp_start := st; tp_keypos := kp;
                                 tp_lastk := lastk; tp_entries := es; tp_longest := longest; tp_numpos := numpos |}
                    else None
                | None => None
                end
              | Raise _ => None
              end
            | Raise _ => None
            end
          | _ => None
          end
        | _ => None
        end
      | Raise _ => None
      end
    | Raise _ => None
    end
  | Raise _ => None
  end.
Definition table_ofG (P : tparts) (t : ptable) : ltable :=
  let dict := ins_all (tp_entries P) [] in
  new_table (tp_cols P) (map (fun x => snd (snd x)) dict) (tp_nkeys P) (tp_keypos P) (tp_numpos P)
            (map (fun x => fst (snd x)) dict) (S (length (p_fill t))) (gap_lengths (p_more t) ++ [length (p_eb t)]).
Theorem tshapeG_setup s title t P : tshape_checkG s title t = Some P -> setup_ok s title t (table_ofG P t).
Proof.
  unfold tshape_checkG.
  destruct (parse_header_T2 s (p_hdr t)) as [[nkeys cols]|] eqn:E1; [|discriminate].
  destruct (expected_floats (p_name t) cols) as [e|] eqn:E2; [|discriminate].
  destruct (col0_is_I cols) as [i0|] eqn:E3; [|discriminate].
  destruct (start_of_values (p_row0 t) i0) as [[st|]|] eqn:E4; try discriminate.
  destruct (key_positions (pyslice None (Some st) (p_row0 t)) nkeys) as [[kp|]|] eqn:E5; try discriminate.
  destruct (last_z kp) as [lastk|] eqn:E6; [|discriminate].
  destruct (entries kp (lastk + 5)%Z (Some st) (p_row0 t) 0 (-1)%Z (p_more t)) as [es|] eqn:E7; [|discriminate].
  destruct (parse_table_line _ st i0) as [numpos|] eqn:E8; [|discriminate].
  destruct (forallb _ (p_fill t) && _ && _ && _ && _) eqn:C; [|discriminate].
  intro H. inversion H; subst. clear H.
  apply andb_prop in C as [C C4]. apply andb_prop in C as [C C3]. apply andb_prop in C as [C C2]. apply andb_prop in C as [C1 C0].
  intro r. rewrite p_lines_eq. unfold table_ofG. cbn [tp_nkeys tp_cols tp_keypos tp_entries tp_numpos].
  pose proof (spec_rows_of_entries _ _ _ _ _ _ _ [] (p_row0 t) _ E7) as Hspec.
  rewrite (setup_table_spec s title (p_name t) (p_hdr t) (p_fill t) (p_row0 t) (p_more t) (p_end t) r nkeys cols e i0 st kp lastk _ _ numpos
             E1 E2 E3 (forallb_Forall _ _ _ (fun y Hy => negb_true _ Hy) C1) C0 E4 E5 ltac:(destruct kp; [discriminate|discriminate]) E6 C3 C4 Hspec E8).
  destruct (end_skip_p_end t) as [F1 F2]. rewrite F1, F2. reflexivity.
Qed.

(** ** tables as the generic loops see them; the chain of tables of a result set *)
Definition gt2 (t : ptable) : gtab := {| g_name := p_name t; g_lines := p_lines t; g_br := [p_sep t]; g_bs := [] |}.
Definition gits2 (its : list (list str * ptable)) : list (list str * gtab) := map (fun it => (fst it, gt2 (snd it))) its.
Lemma grest_gits2 its after : grest (gits2 its) after = rest_lines its after.
Proof. induction its as [|[i t] its IH]; cbn [gits2 map grest rest_lines fst snd]; [reflexivity|]. unfold gits2 in IH. rewrite IH. reflexivity. Qed.
Lemma gits2_tabs its : map snd (gits2 its) = map gt2 (map snd its).
Proof. unfold gits2. rewrite !map_map. reflexivity. Qed.
Lemma gskip_T2 s t : sim_eqb s TPLUS = false -> skip_ok t -> gskip_ok s (gt2 t).
Proof. intros Hs H ts r Hn. cbn [gt2 g_name g_lines g_bs app] in *. apply skip_spec; assumption. Qed.
Lemma chain_T2 s (Hs : sim_eqb s TPLUS = false) fullpos index : forall its t after nelt,
  inters_ok fullpos index its after -> Forall (fun u => not_kcyc (p_sep u)) (t :: map snd its) ->
  ends_here fullpos index (last_sep t its) after ->
  chain_ok s fullpos index nelt (gt2 t) (gits2 its) after.
Proof.
  induction its as [|[inter t'] its IH]; intros t after nelt Hin Hk Hend; cbn [gits2 map chain_ok fst snd].
  - unfold last_sep in Hend. cbn [map last] in Hend. intros b Hb. unfold NT. rewrite Hs. cbn [gt2 g_br g_bs] in Hb.
    destruct Hb as [Hb|Hb]; subst b; [apply (Hend [p_sep t]); right; reflexivity|apply (Hend []); left; reflexivity].
  - destruct Hin as [Hio Hin']. inversion Hk as [|? ? Hk1 Hk2]; subst. cbn [map snd] in Hk2.
    exists (p_name t'), nelt. split; [|split].
    + intros b Hb. fold (gits2 its). rewrite grest_gits2. unfold NT. rewrite Hs. cbn [gt2 g_lines g_br g_bs] in *. rewrite (p_lines_cons t'). cbn [app].
      destruct Hb as [Hb|Hb]; subst b.
      * exact (next_table_inter' fullpos index [p_sep t] inter (p_hdr t') (p_name t') _ (Forall_cons _ Hk1 (Forall_nil _)) Hio).
      * exact (next_table_inter' fullpos index [] inter (p_hdr t') (p_name t') _ (Forall_nil _) Hio).
    + unfold tp_rename. rewrite Hs. reflexivity.
    + apply IH; [exact Hin'|exact Hk2|]. unfold last_sep in *. cbn [map snd] in Hend. rewrite last_cons_default in Hend. exact Hend.
Qed.

(** ** the tables of a result set that have a structure, the others (absent at the first time) are passed over *)
Definition inN (N : list str) (u : ptable) : bool := in_names (p_name u) N.
Fixpoint decG (Ts : list ltable) (us : list ptable) : list tdata :=
  match Ts, us with T :: Ts', u :: us' => newdata T (p_rows u) :: decG Ts' us' | _, _ => [] end.
Fixpoint acts_ofG (skip : list str) (Ts : list ltable) (ds : list tdata) (us : list ptable) : list ract :=
  match Ts, ds, us with
  | T :: Ts', d :: ds', u :: us' =>
      (if in_names (p_name u) skip then RSkip else RRead (with_data T d) (with_data T (newdata T (p_rows u)))) :: acts_ofG skip Ts' ds' us'
  | _, _, _ => []
  end.
Fixpoint acts_x (skip N : list str) (Ts : list ltable) (ds : list tdata) (us : list ptable) : list ract :=
  match us with
  | [] => []
  | u :: us' =>
      if inN N u then
        match Ts, ds with
        | T :: Ts', d :: ds' => (if in_names (p_name u) skip then RSkip else RRead (with_data T d) (with_data T (newdata T (p_rows u)))) :: acts_x skip N Ts' ds' us'
        | _, _ => RSkip :: acts_x skip N Ts ds us'
        end
      else RSkip :: acts_x skip N Ts ds us'
  end.
Lemma gupd_filter skip N us : forall Ts ds ts, length Ts = length (filter (inN N) us) -> length ds = length (filter (inN N) us) ->
  gupdated (map gt2 us) (acts_x skip N Ts ds us) ts = gupdated (map gt2 (filter (inN N) us)) (acts_ofG skip Ts ds (filter (inN N) us)) ts.
Proof.
  induction us as [|u us IH]; intros Ts ds ts H1 H2; [destruct Ts; reflexivity|].
  cbn [filter acts_x map] in *. destruct (inN N u) eqn:E.
  - destruct Ts as [|T Ts']; [discriminate|]. destruct ds as [|d ds']; [discriminate|].
    cbn [map acts_ofG gupdated]. apply IH; [cbn in H1; lia|cbn in H2; lia].
  - cbn [gupdated]. apply IH; assumption.
Qed.
Lemma gupdated_tabs_withG skip us : forall Ts ds,
  NoDup (map p_name us) -> length Ts = length us -> length ds = length us ->
  gupdated (map gt2 us) (acts_ofG skip Ts ds us) (tabs_with skip Ts (map p_name us) ds) = tabs_with skip Ts (map p_name us) (decG Ts us).
Proof.
  induction us as [|u us IH]; intros [|T Ts] [|d ds] Hnd H1 H2; try discriminate; [reflexivity|].
  assert (Hnd' : NoDup (map p_name us)) by (cbn [map] in Hnd; apply NoDup_cons_iff in Hnd as [_ Hnd]; exact Hnd).
  cbn [map tabs_with acts_ofG decG gupdated]. destruct (in_names (p_name u) skip) eqn:E.
  - apply IH; [exact Hnd'|cbn in H1; lia|cbn in H2; lia].
  - cbn [gt2 g_name tab_set]. rewrite str_eqb_refl. rewrite (gupdated_cons_other gt2 (fun u => eq_refl)).
    + rewrite IH; [reflexivity|exact Hnd'|cbn in H1; lia|cbn in H2; lia].
    + intros v Hv. pose proof (names_neq_of_NoDup u us Hnd v Hv) as Hne.
      destruct (str_eqb (p_name v) (p_name u)) eqn:E2; [|reflexivity]. apply str_eqb_eq in E2. rewrite E2, str_eqb_refl in Hne. discriminate.
Qed.
Lemma tabs_with_notin skip n : forall Ts ns ds, ~ In n ns -> tab_get n (tabs_with skip Ts ns ds) = None.
Proof.
  induction Ts as [|T Ts IH]; intros [|m ns] [|d ds] H; try reflexivity. cbn [tabs_with].
  assert (Hm : str_eqb m n = false) by (destruct (str_eqb m n) eqn:E; [apply str_eqb_eq in E; subst m; exfalso; apply H; left; reflexivity|reflexivity]).
  destruct (in_names m skip); [|cbn [tab_get]; rewrite Hm]; apply IH; intro Hi; apply H; right; exact Hi.
Qed.
Lemma in_names_In n l : in_names n l = true <-> In n l.
Proof.
  unfold in_names. rewrite existsb_exists. split.
  - intros [x [H1 H2]]. apply str_eqb_eq in H2. subst x. exact H1.
  - intro H. exists n. split; [exact H|apply str_eqb_refl].
Qed.
Lemma greads_x s (Hs : sim_eqb s TPLUS = false) skip N us : forall Ts ds n0,
  NoDup (map p_name us) -> map p_name (filter (inN N) us) = n0 -> incl n0 N ->
  length Ts = length n0 -> length ds = length n0 ->
  Forall skip_ok us ->
  Forall2 (fun Td u => read_ok u (with_data (fst Td) (snd Td)) (with_data (fst Td) (newdata (fst Td) (p_rows u)))) (combine Ts ds) (filter (inN N) us) ->
  Forall2 (gread_ok s skip (tabs_with skip Ts n0 ds)) (map gt2 us) (acts_x skip N Ts ds us).
Proof.
  induction us as [|u us IH]; intros Ts ds n0 Hnd Hf Hincl H1 H2 Hsk Hrd; [constructor|].
  inversion Hsk as [|? ? Hs1 Hsk']; subst.
  assert (Hnd' : NoDup (map p_name us)) by (cbn [map] in Hnd; apply NoDup_cons_iff in Hnd as [_ Hnd]; exact Hnd).
  cbn [filter acts_x map] in *. destruct (inN N u) eqn:E.
  - cbn [map] in H1, H2. destruct Ts as [|T Ts']; [discriminate|]. destruct ds as [|d ds']; [discriminate|].
    cbn [combine] in Hrd. apply Forall2_cons_inv in Hrd as [Hr Hrd]. cbn [fst snd] in Hr.
    assert (Hincl' : incl (map p_name (filter (inN N) us)) N) by (intros a Ha; apply Hincl; right; exact Ha).
    specialize (IH Ts' ds' _ Hnd' eq_refl Hincl' ltac:(cbn in H1; lia) ltac:(cbn in H2; lia) Hsk' Hrd).
    cbn [map tabs_with]. destruct (in_names (p_name u) skip) eqn:Esk.
    + constructor; [|exact IH]. cbn [gread_ok gt2 g_name]. split; [left; exact Esk|]. split; [apply tabs_with_names_not_skipped; exact Esk|apply gskip_T2; assumption].
    + constructor.
      * cbn [gread_ok gt2 g_name g_lines g_br]. split; [exact Esk|]. cbn [tab_get]. rewrite str_eqb_refl. split; [reflexivity|]. intro r. exact (Hr r).
      * pose proof (names_neq_of_NoDup u us Hnd) as Hneq.
        clear - IH Hneq. revert IH Hneq. generalize (acts_x skip N Ts' ds' us) as acts. generalize (tabs_with skip Ts' (map p_name (filter (inN N) us)) ds') as ts.
        intros ts acts IH. remember (map gt2 us) as gs eqn:Eg. revert us Eg. induction IH as [|g a gs' acts' HV _ IHF]; intros us Eg Hneq; constructor.
        -- destruct us as [|v vs]; [discriminate|]. cbn [map] in Eg. inversion Eg; subst. apply gread_ok_cons_other; [apply Hneq; left; reflexivity|exact HV].
        -- destruct us as [|v vs]; [discriminate|]. cbn [map] in Eg. inversion Eg; subst. apply (IHF vs eq_refl). intros w Hw. apply Hneq. right. exact Hw.
  - constructor; [|exact (IH Ts ds _ Hnd' eq_refl Hincl H1 H2 Hsk' Hrd)].
    cbn [gread_ok gt2 g_name]. split; [right; exact Hs|]. split; [|apply gskip_T2; assumption].
    apply tabs_with_notin. intro Hi. apply Hincl in Hi. apply in_names_In in Hi. unfold inN in E. congruence.
Qed.

(** ** the class, its checker, the theorems *)
Definition vals_ok (T : ltable) : Prop := 1 <= length (lt_values T) <= S (length (lt_cols T)).
Definition vals_okb (T : ltable) : bool := (1 <=? length (lt_values T))%nat && (length (lt_values T) <=? S (length (lt_cols T)))%nat.
Lemma vals_okb_spec T : vals_okb T = true -> vals_ok T.
Proof. unfold vals_okb, vals_ok. intro H. apply andb_prop in H as [H1 H2]. apply Nat.leb_le in H1, H2. lia. Qed.
Definition titleG (s : sim) (file : cur) : res str := if sim_eqb s T2MP then Ok (read_title_MP file) else read_title_T2 file.
Lemma last_line_in T j ls : In (Some j) (map (line_row T) ls) -> last_line T j ls <> None.
Proof.
  induction ls as [|l ls IH]; intro H; [destruct H|]. cbn [map last_line] in *.
  destruct (last_line T j ls) eqn:E; [discriminate|]. destruct H as [H|H]; [|exfalso; exact (IH H eq_refl)].
  rewrite H, Nat.eqb_refl. discriminate.
Qed.
Definition tlaterGb (T : ltable) (u : ptable) : bool :=
  let idx := map (line_row T) (p_rows u) in
  (S (length (p_fill u)) =? lt_hskip T)%nat
  && nats_eqb (gap_lengths (p_more u) ++ [length (p_eb u)]) (lt_skips T)
  && forallb (fun o => match o with Some i => (i <? length (lt_rows T))%nat | None => false end) idx
  && forallb (fun j => existsb (fun o => match o with Some i => (i =? j)%nat | None => false end) idx) (seq 0 (length (lt_rows T))).
Lemma tlaterGb_spec T u : tlaterGb T u = true -> tlaterG T u.
Proof.
  unfold tlaterGb. intro H. apply andb_prop in H as [H C3]. apply andb_prop in H as [H C2]. apply andb_prop in H as [C0 C1].
  constructor; [apply Nat.eqb_eq; exact C0|apply nats_eqb_eq; exact C1| |].
  - unfold lines_in. apply Forall_forall. intros l Hl. rewrite forallb_forall in C2. specialize (C2 (line_row T l) (in_map _ _ _ Hl)).
    destruct (line_row T l) as [i|]; [|discriminate]. exists i. split; [reflexivity|apply Nat.ltb_lt; exact C2].
  - intros j Hj. rewrite forallb_forall in C3. specialize (C3 j ltac:(apply in_seq; lia)). apply existsb_exists in C3 as [o [Ho Eo]].
    destruct o as [i|]; [|discriminate]. apply Nat.eqb_eq in Eo. subst i. apply last_line_in. exact Ho.
Qed.
Fixpoint shapesG (s : sim) (title : str) (us : list ptable) : option (list ltable) :=
  match us with
  | [] => Some []
  | t :: r => match tshape_checkG s title t, shapesG s title r with
              | Some P, Some Ts => Some (table_ofG P t :: Ts)
              | _, _ => None
              end
  end.
Lemma shapesG_spec s title us : forall Ts, shapesG s title us = Some Ts ->
  Forall2 (fun t T => exists P, tshape_checkG s title t = Some P /\ T = table_ofG P t) us Ts.
Proof.
  induction us as [|t us IH]; intros Ts H; cbn [shapesG] in H; [inversion H; constructor|].
  destruct (tshape_checkG s title t) as [P|] eqn:E; [|discriminate]. destruct (shapesG s title us) as [Ts'|]; [|discriminate].
  inversion H; subst. constructor; [exists P; split; [exact E|reflexivity]|apply IH; reflexivity].
Qed.
Definition g2_like_b (names : list str) (Ts : list ltable) (x : pset) : bool :=
  str_eqb (p_name (ps_first x)) n_element
  && nodupb str_eqb (map p_name (set_tables x))
  && strs_eqb (map p_name (filter (inN names) (set_tables x))) names
  && forallb (fun u => skip_okb u && negb (is_kcyc (p_sep u))) (set_tables x)
  && forallb (fun it => inter_shapeb (fst it) (p_hdr (snd it)) (p_name (snd it))) (ps_rest x)
  && forall2b tlaterGb Ts (filter (inN names) (set_tables x)).
Definition g2_check (s : sim) (sets : list pset) : option (str * list ltable) :=
  match sets with
  | [] => None
  | x0 :: more =>
      match titleG s (file_from sets) with
      | Ok title =>
          match shapesG s title (set_tables x0) with
          | Some Ts =>
              let names := map p_name (set_tables x0) in
              if forallb set_okb sets && forallb vals_okb Ts && nodupb str_eqb names && forallb (g2_like_b names Ts) sets
              then Some (title, Ts) else None
          | None => None
          end
      | Raise _ => None
      end
  end.

Section CodecG2.
  Variable s : sim.
  Hypothesis Hs : sim_eqb s TPLUS = false.
  Hypothesis Ha : sim_eqb s AUT = false.
  Variables (title : str) (x0 : pset) (more_sets : list pset) (Ts : list ltable).
  Local Notation sets := (x0 :: more_sets).
  Local Notation names := (map p_name (set_tables x0)).
  Record g2_ok : Prop := {
    go_sets : Forall set_ok sets;
    go_title : titleG s (file_from sets) = Ok title;
    go_shape : Forall2 (fun t T => exists P, tshape_checkG s title t = Some P /\ T = table_ofG P t) (set_tables x0) Ts;
    go_struct : Forall vals_ok Ts;
    go_names : NoDup names;
    go_like : Forall (fun x => p_name (ps_first x) = n_element /\ NoDup (map p_name (set_tables x))
                 /\ map p_name (filter (inN names) (set_tables x)) = names
                 /\ Forall (fun u => skip_ok u /\ not_kcyc (p_sep u)) (set_tables x) /\ inters_shape (ps_rest x)
                 /\ Forall2 tlaterG Ts (filter (inN names) (set_tables x))) sets
  }.
  Hypothesis OK : g2_ok.
  Definition stateG (skip : list str) (k : nat) (x : pset) : lstate :=
    {| s_sim := s; s_title := title; s_skip := skip; s_fullpos := positions sets; s_index := Z.of_nat k;
       s_time := set_time x; s_step := set_step x; s_tables := tabs_with skip Ts names (decG Ts (filter (inN names) (set_tables x))) |}.
  Lemma g2_like x : In x sets -> p_name (ps_first x) = n_element /\ NoDup (map p_name (set_tables x))
                 /\ map p_name (filter (inN names) (set_tables x)) = names
                 /\ Forall (fun u => skip_ok u /\ not_kcyc (p_sep u)) (set_tables x) /\ inters_shape (ps_rest x)
                 /\ Forall2 tlaterG Ts (filter (inN names) (set_tables x)).
  Proof. intro H. pose proof (go_like OK) as F. rewrite Forall_forall in F. apply F. exact H. Qed.
  Lemma g2_Ts_length : length Ts = length (set_tables x0).
  Proof. symmetry. exact (Forall2_len _ _ _ (go_shape OK)). Qed.
  Lemma decG_heights : forall Ts' us, Forall2 tlaterG Ts' us -> Forall2 (fun T d => length d = length (lt_rows T)) Ts' (decG Ts' us).
  Proof. induction 1 as [|T u Ts' us _ _ IH]; cbn [decG]; constructor; [|exact IH]. unfold newdata. rewrite upd_length. apply repeat_length. Qed.
  Lemma stateG_reader skip k x : In x sets -> reader_state s title x0 more_sets Ts skip (stateG skip k x).
  Proof.
    intro H. destruct (g2_like x H) as [_ [_ [_ [_ [_ HL]]]]]. unfold reader_state, stateG. cbn. repeat split.
    exists (decG Ts (filter (inN names) (set_tables x))). pose proof (decG_heights _ _ HL) as HH.
    split; [symmetry; exact (Forall2_len _ _ _ HH)|]. split; [exact HH|reflexivity].
  Qed.
  Lemma set_tables_gt2 x : gt2 (ps_first x) :: map snd (gits2 (ps_rest x)) = map gt2 (set_tables x).
  Proof. unfold set_tables. cbn [map]. rewrite gits2_tabs. reflexivity. Qed.

  Theorem g2_set_index_spec skip st k x i : reader_state s title x0 more_sets Ts skip st -> nth_error sets k = Some x ->
    addresses x0 more_sets i k -> set_index st i = Ok (stateG skip k x).
  Proof.
    intros [Hsim [Htitle [Hskip [Hpos [ds [Hdl [Hdh Htab]]]]]]] Hk Hi.
    assert (Hin : In x sets) by (eapply nth_error_In; exact Hk).
    assert (Hkl : k < length sets) by (apply nth_error_Some; congruence).
    pose proof (go_sets OK) as Hsets.
    assert (Hx : set_ok x) by (rewrite Forall_forall in Hsets; apply Hsets; exact Hin).
    destruct (g2_like x Hin) as [Hel [Hndx [Hnm [Hsk [Hish HL]]]]].
    unfold set_index. rewrite Hpos.
    assert (Hpy : pyindex i (positions sets) = Some (set_body x (ps_tail x ++ file_from (skipn (S k) sets)))).
    { destruct Hi as [Hi|Hi]; subst i.
      - rewrite pyindex_nat by (rewrite positions_length; exact Hkl). apply positions_nth. exact Hk.
      - unfold pyindex. rewrite positions_length.
        replace (Z.of_nat k - Z.of_nat (length sets) <? 0)%Z with true by (symmetry; apply Z.ltb_lt; lia).
        replace (Z.of_nat k - Z.of_nat (length sets) + Z.of_nat (length sets))%Z with (Z.of_nat k) by lia.
        replace ((Z.of_nat k <? 0) || (Z.of_nat (length sets) <=? Z.of_nat k))%Z with false
          by (symmetry; apply orb_false_intro; [apply Z.ltb_ge; lia|apply Z.leb_gt; lia]).
        rewrite Nat2Z.id. apply positions_nth. exact Hk. }
    rewrite Hpy.
    assert (Hidx : (if (i <? 0)%Z then (i + Z.of_nat (length (positions sets)))%Z else i) = Z.of_nat k).
    { rewrite positions_length. destruct Hi as [Hi|Hi]; subst i.
      - replace (Z.of_nat k <? 0)%Z with false by (symmetry; apply Z.ltb_ge; lia). reflexivity.
      - replace (Z.of_nat k - Z.of_nat (length sets) <? 0)%Z with true by (symmetry; apply Z.ltb_lt; lia). lia. }
    rewrite Hidx. unfold read_tables. cbn [with_index s_sim]. rewrite Hsim, Ha. unfold read_tables_T2. cbn [with_index s_sim]. rewrite Hsim.
    rewrite (read_header_set s Hs x _ Hx). cbn [bind].
    set (st1 := with_header (with_index st (Z.of_nat k)) (set_time x) (set_step x)).
    unfold tables_lines.
    assert (Hlen : length (filter (inN names) (set_tables x)) = length Ts) by (symmetry; exact (Forall2_len _ _ _ HL)).
    rewrite <- Hel. change (p_name (ps_first x)) with (g_name (gt2 (ps_first x))).
    change (p_lines (ps_first x)) with (g_lines (gt2 (ps_first x))). rewrite <- (grest_gits2 (ps_rest x)).
    rewrite (gread_loop s (positions sets) (Z.of_nat k) (gits2 (ps_rest x)) _ st1 (gt2 (ps_first x)) (acts_x skip names Ts ds (set_tables x)) _ 0).
    - unfold st1. cbn [with_header with_index s_skip s_tables with_tables s_sim s_title s_fullpos s_index s_time s_step].
      rewrite Htab, set_tables_gt2.
      rewrite gupd_filter; [|exact (eq_sym Hlen)|exact (eq_trans Hdl (eq_sym Hlen))].
      pose proof (gupdated_tabs_withG skip (filter (inN names) (set_tables x)) Ts ds) as E. rewrite Hnm in E.
      rewrite (E (go_names OK) (eq_sym Hlen) (eq_trans Hdl (eq_sym Hlen))). clear E.
      unfold stateG, with_tables, with_header, with_index. cbn [s_sim s_title s_skip s_fullpos s_index s_time s_step s_tables].
      rewrite Hsim, Htitle, Hpos, Hskip. reflexivity.
    - unfold st1, nav. cbn [with_header with_index s_sim s_fullpos s_index]. repeat split; assumption.
    - unfold gits2. rewrite map_length. pose proof (rest_lines_length_ge (ps_rest x) (ps_tail x ++ file_from (skipn (S k) sets))). rewrite app_length, grest_gits2. lia.
    - rewrite set_tables_gt2, map_map. change (map (fun u => g_name (gt2 u)) (set_tables x)) with (map p_name (set_tables x)). exact Hndx.
    - unfold st1. cbn [with_header with_index s_skip s_tables]. rewrite Htab, Hskip, set_tables_gt2.
      apply (greads_x s Hs skip names (set_tables x) Ts ds names Hndx Hnm (incl_refl _)).
      + rewrite <- Hnm, map_length. exact (eq_sym Hlen).
      + rewrite <- Hnm, map_length. exact (eq_trans Hdl (eq_sym Hlen)).
      + eapply Forall_impl; [|exact Hsk]. intros u [Hu _]. exact Hu.
      + pose proof (go_struct OK) as HS. clear - HL HS Hdh. revert ds Hdh HS. induction HL as [|T u Ts' us Hl _ IH]; intros ds Hdh HS.
        * inversion Hdh; subst. constructor.
        * inversion Hdh as [|? d ? ds' Hd Hdh']; subst. inversion HS as [|? ? HS1 HS2]; subst. cbn [combine]. constructor.
          -- cbn [fst snd]. apply read_last_copy; assumption.
          -- apply IH; assumption.
    - unfold st1. apply (chain_T2 s Hs).
      + apply (inters_from_shape sets k x); assumption.
      + unfold set_tables in Hsk. eapply Forall_impl; [|exact Hsk]. intros u [_ Hu]. exact Hu.
      + apply (ends_inside sets k x); [exact Hsets|exact Hk|].
        assert (Hl : In (last (map snd (ps_rest x)) (ps_first x)) (set_tables x)) by (unfold set_tables; apply last_In).
        rewrite Forall_forall in Hsk. exact (proj2 (Hsk _ Hl)).
  Qed.

  Lemma gsetups_T2 skip : forall us Ts', Forall (fun u => skip_ok u /\ not_kcyc (p_sep u)) us ->
    Forall2 (fun t T => exists P, tshape_checkG s title t = Some P /\ T = table_ofG P t) us Ts' -> Forall2 (gsetup_ok s skip title) (map gt2 us) Ts'.
  Proof.
    intros us Ts' Hsk HS. revert Hsk. induction HS as [|t T ts Ts' [P [HP HT]] _ IH]; intro Hsk; cbn [map]; constructor.
    - inversion Hsk as [|? ? [Hb1 _] _]; subst. unfold gsetup_ok. cbn [gt2 g_name g_lines g_br]. destruct (in_names (p_name t) skip).
      + apply gskip_T2; assumption.
      + intro r. rewrite (tshapeG_setup s title t P HP r). cbn [app]. reflexivity.
    - apply IH. inversion Hsk; assumption.
  Qed.
  Lemma initial_heightsG : forall us Ts', Forall2 (fun t T => exists P, tshape_checkG s title t = Some P /\ T = table_ofG P t) us Ts' ->
    Forall2 (fun T d => length d = length (lt_rows T)) Ts' (map lt_data Ts').
  Proof.
    intros us Ts' H. induction H as [|t T ts Ts' [P [HP HT]] _ IH]; cbn [map]; constructor; [|exact IH].
    subst T. unfold table_ofG, new_table. cbn [lt_data lt_rows]. apply repeat_length.
  Qed.
  Theorem g2_open_spec skip : open_listing s skip (file_from sets) = Ok (stateG skip 0 x0).
  Proof.
    pose proof (go_sets OK) as Hsets.
    assert (Hx0 : set_ok x0) by (inversion Hsets; assumption).
    unfold open_listing. rewrite Ha.
    pose proof (setup_pos_spec s Hs sets (S (length (file_from sets))) [] Hsets ltac:(pose proof (file_from_length sets); lia) (Forall_nil _)) as Hpos.
    cbn [app] in Hpos. rewrite Hpos. cbn [bind].
    assert (Epos : positions sets = set_body x0 (ps_tail x0 ++ file_from more_sets) :: positions more_sets) by reflexivity.
    rewrite Epos. rewrite <- Epos.
    pose proof (go_title OK) as Ht. unfold titleG in Ht. rewrite Ht. cbn [bind].
    rewrite (read_header_set s Hs x0 _ Hx0). cbn [bind].
    set (st := {| s_sim := s; s_title := title; s_skip := skip; s_fullpos := positions sets; s_index := 0%Z; s_time := set_time x0; s_step := set_step x0; s_tables := [] |}).
    destruct (g2_like x0 (or_introl eq_refl)) as [Hel [_ [_ [Hsk [Hish _]]]]].
    unfold tables_lines. rewrite <- Hel. change (p_name (ps_first x0)) with (g_name (gt2 (ps_first x0))).
    change (p_lines (ps_first x0)) with (g_lines (gt2 (ps_first x0))). rewrite <- (grest_gits2 (ps_rest x0)).
    rewrite (gsetup_loop s (positions sets) 0%Z (gits2 (ps_rest x0)) _ st (gt2 (ps_first x0)) Ts _ 0).
    - cbn [bind s_tables st app s_skip]. rewrite set_tables_gt2. rewrite (gadded_tabs_with skip gt2 (fun u => eq_refl)) by exact g2_Ts_length.
      apply (g2_set_index_spec skip _ 0 x0 0%Z).
      + unfold reader_state, st. cbn [with_tables s_sim s_title s_skip s_fullpos s_tables]. repeat split.
        exists (map lt_data Ts). split; [apply map_length|]. split; [exact (initial_heightsG _ _ (go_shape OK))|reflexivity].
      + reflexivity.
      + left. reflexivity.
    - unfold st, nav. cbn. repeat split.
    - unfold gits2. rewrite map_length. pose proof (rest_lines_length_ge (ps_rest x0) (ps_tail x0 ++ file_from more_sets)) as H1.
      cbn [file_from]. rewrite app_length. unfold set_body. cbn [length]. rewrite !app_length. cbn [length]. rewrite !app_length.
      unfold tables_lines. rewrite app_length. lia.
    - rewrite set_tables_gt2. unfold st. cbn [s_skip s_title]. exact (gsetups_T2 skip _ _ Hsk (go_shape OK)).
    - intros n _. reflexivity.
    - unfold st. cbn [s_fullpos s_index]. apply (chain_T2 s Hs).
      + apply (inters_from_shape sets 0 x0); [exact Hsets|reflexivity|exact Hish].
      + unfold set_tables in Hsk. eapply Forall_impl; [|exact Hsk]. intros u [_ Hu]. exact Hu.
      + apply (ends_inside sets 0 x0); [exact Hsets|reflexivity|].
        assert (Hl : In (last (map snd (ps_rest x0)) (ps_first x0)) (set_tables x0)) by (unfold set_tables; apply last_In).
        rewrite Forall_forall in Hsk. exact (proj2 (Hsk _ Hl)).
  Qed.
  Theorem g2_moves_spec skip l : forall st k x i, reader_state s title x0 more_sets Ts skip st -> nth_error sets k = Some x -> addresses x0 more_sets i k ->
    Forall (fun j => exists kj, kj < length sets /\ addresses x0 more_sets j kj) l ->
    moves st (l ++ [i]) = Ok (stateG skip k x).
  Proof.
    induction l as [|j l IH]; intros st k x i Hst Hk Hi Hl; cbn [app moves].
    - rewrite (g2_set_index_spec skip st k x i Hst Hk Hi). reflexivity.
    - inversion Hl as [|? ? [kj [Hkj Hj]] Hl']; subst.
      destruct (nth_error sets kj) as [y|] eqn:Ey; [|apply nth_error_None in Ey; lia].
      rewrite (g2_set_index_spec skip st kj y j Hst Ey Hj). cbn [bind].
      apply IH; [apply stateG_reader; eapply nth_error_In; exact Ey|exact Hk|exact Hi|exact Hl'].
  Qed.
  (** the state after opening the file and any sequence of moves is the decoded state of the set moved to last *)
  Theorem g2_listing_codec skip l k x i : nth_error sets k = Some x -> addresses x0 more_sets i k ->
    Forall (fun j => exists kj, kj < length sets /\ addresses x0 more_sets j kj) l ->
    (do st <- open_listing s skip (file_from sets); moves st (l ++ [i])) = Ok (stateG skip k x).
  Proof.
    intros Hk Hi Hl. rewrite (g2_open_spec skip). cbn [bind].
    apply (g2_moves_spec skip l _ k x i); [apply stateG_reader; left; reflexivity|exact Hk|exact Hi|exact Hl].
  Qed.
  Lemma decG_nth : forall j Ts' us T u, nth_error Ts' j = Some T -> nth_error us j = Some u ->
    nth_error (decG Ts' us) j = Some (newdata T (p_rows u)).
  Proof.
    induction j as [|j IH]; intros [|T0 Ts'] [|u0 us] T u H1 H2; try discriminate; cbn [nth_error decG] in *.
    - inversion H1; inversion H2; subst. reflexivity.
    - apply IH; assumption.
  Qed.
  (** the j-th table of the first set, as printed in set x (tables the first set lacks are passed over) *)
  Theorem g2_table_contents skip k x j u T : nth_error sets k = Some x -> nth_error (filter (inN names) (set_tables x)) j = Some u -> nth_error Ts j = Some T ->
    in_names (p_name u) skip = false ->
    tab_get (p_name u) (s_tables (stateG skip k x)) = Some (with_data T (newdata T (p_rows u))).
  Proof.
    intros Hk Hu HT Hn. assert (Hin : In x sets) by (eapply nth_error_In; exact Hk).
    destruct (g2_like x Hin) as [_ [_ [Hnm _]]]. unfold stateG. cbn [s_tables].
    apply (tabs_with_get skip j Ts names (decG Ts (filter (inN names) (set_tables x))) (p_name u) T _ (go_names OK)).
    - rewrite <- Hnm. apply map_nth_error. exact Hu.
    - exact HT.
    - apply decG_nth; assumption.
    - exact Hn.
  Qed.
  (** row r of that table holds the decoded LAST printed line whose index is the r-th distinct index *)
  Theorem g2_row_last_copy k x j u T r : nth_error sets k = Some x -> nth_error (filter (inN names) (set_tables x)) j = Some u -> nth_error Ts j = Some T ->
    r < length (lt_rows T) ->
    exists l, last_line T r (p_rows u) = Some l /\ In l (p_rows u) /\ nth r (newdata T (p_rows u)) [] = decode_line T l.
  Proof.
    intros Hk Hu HT Hr. assert (Hin : In x sets) by (eapply nth_error_In; exact Hk).
    destruct (g2_like x Hin) as [_ [_ [_ [_ [_ HL]]]]].
    assert (HG : tlaterG T u).
    { clear - HL Hu HT. revert j Hu HT. induction HL as [|T0 u0 Ts' us H0 _ IH]; intros [|j] Hu HT; cbn [nth_error] in *; try discriminate.
      - inversion Hu; inversion HT; subst. exact H0.
      - exact (IH j Hu HT). }
    destruct HG as [_ _ Hli Hcov]. pose proof (newdata_last_copy T (p_rows u) r Hli Hr) as E.
    destruct (last_line T r (p_rows u)) as [l|] eqn:El; [|exfalso; exact (Hcov r Hr El)].
    exists l. split; [reflexivity|]. split; [|exact E].
    clear - El. induction (p_rows u) as [|a ls IH]; [discriminate|]. cbn [last_line] in El.
    destruct (last_line T r ls) as [y|]; [inversion El; subst; right; apply IH; reflexivity|].
    destruct (line_row T a) as [i|]; [|discriminate]. destruct (i =? r)%nat; [|discriminate]. inversion El. left. reflexivity.
  Qed.
  Theorem g2_skip_independent skip1 skip2 k x n : in_names n skip1 = false -> in_names n skip2 = false ->
    tab_get n (s_tables (stateG skip1 k x)) = tab_get n (s_tables (stateG skip2 k x)).
  Proof.
    intros H1 H2. unfold stateG. cbn [s_tables]. rewrite (tabs_with_skip_indep skip1 n H1), (tabs_with_skip_indep skip2 n H2). reflexivity.
  Qed.
  Theorem g2_skip_tables_independent skip1 skip2 l1 l2 i1 i2 k x n : nth_error sets k = Some x -> addresses x0 more_sets i1 k -> addresses x0 more_sets i2 k ->
    Forall (fun j => exists kj, kj < length sets /\ addresses x0 more_sets j kj) l1 ->
    Forall (fun j => exists kj, kj < length sets /\ addresses x0 more_sets j kj) l2 ->
    in_names n skip1 = false -> in_names n skip2 = false ->
    exists st1 st2, (do st <- open_listing s skip1 (file_from sets); moves st (l1 ++ [i1])) = Ok st1
                 /\ (do st <- open_listing s skip2 (file_from sets); moves st (l2 ++ [i2])) = Ok st2
                 /\ tab_get n (s_tables st1) = tab_get n (s_tables st2).
  Proof.
    intros Hk H1 H2 Hl1 Hl2 Hn1 Hn2. exists (stateG skip1 k x), (stateG skip2 k x).
    split; [exact (g2_listing_codec skip1 l1 k x i1 Hk H1 Hl1)|]. split; [exact (g2_listing_codec skip2 l2 k x i2 Hk H2 Hl2)|].
    exact (g2_skip_independent skip1 skip2 k x n Hn1 Hn2).
  Qed.
End CodecG2.

Lemma g2_like_b_spec names Ts x : g2_like_b names Ts x = true ->
  p_name (ps_first x) = n_element /\ NoDup (map p_name (set_tables x)) /\ map p_name (filter (inN names) (set_tables x)) = names
  /\ Forall (fun u => skip_ok u /\ not_kcyc (p_sep u)) (set_tables x) /\ inters_shape (ps_rest x)
  /\ Forall2 tlaterG Ts (filter (inN names) (set_tables x)).
Proof.
  unfold g2_like_b. intro H. do 5 (apply andb_prop in H as [H ?]).
  split; [apply str_eqb_eq; exact H|]. split; [apply (nodupb_NoDup str_eqb str_eqb_eq); assumption|].
  split; [apply strs_eqb_eq; assumption|]. split.
  - apply forallb_Forall with (p := fun u => skip_okb u && negb (is_kcyc (p_sep u))); [|assumption].
    intros u Hu. apply andb_prop in Hu as [Hu1 Hu2]. split; [apply skip_okb_spec; exact Hu1|unfold not_kcyc; apply negb_true; exact Hu2].
  - split.
    + unfold inters_shape. apply forallb_Forall with (p := fun it => inter_shapeb (fst it) (p_hdr (snd it)) (p_name (snd it))); [|assumption].
      intros [i u] Hu. apply inter_shapeb_spec. exact Hu.
    + apply (forall2b_Forall2 tlaterGb _ _ tlaterGb_spec). assumption.
Qed.
Theorem g2_check_sound s x0 more title Ts : g2_check s (x0 :: more) = Some (title, Ts) -> g2_ok s title x0 more Ts.
Proof.
  unfold g2_check. destruct (titleG s (file_from (x0 :: more))) as [title'|e] eqn:Et; [|discriminate].
  destruct (shapesG s title' (set_tables x0)) as [Ts'|] eqn:Esh; [|discriminate].
  destruct (forallb set_okb (x0 :: more) && forallb vals_okb Ts' && nodupb str_eqb (map p_name (set_tables x0)) && forallb (g2_like_b (map p_name (set_tables x0)) Ts') (x0 :: more)) eqn:E; [|discriminate].
  intro H. inversion H; subst. do 3 (apply andb_prop in E as [E ?]).
  constructor.
  - apply forallb_Forall with (p := set_okb); [exact set_okb_spec|exact E].
  - exact Et.
  - apply shapesG_spec. exact Esh.
  - apply forallb_Forall with (p := vals_okb); [exact vals_okb_spec|assumption].
  - apply (nodupb_NoDup str_eqb str_eqb_eq); assumption.
  - apply forallb_Forall with (p := g2_like_b (map p_name (set_tables x0)) Ts); [intros x Hx; exact (g2_like_b_spec _ _ x Hx)|assumption].
Qed.

(** a cell of row r is the value of the text printed in its field on the LAST printed line carrying the r-th distinct index *)
Theorem g2_cells_are_printed_numbers s title x0 more Ts : sim_eqb s TPLUS = false -> sim_eqb s AUT = false -> g2_ok s title x0 more Ts ->
  forall skip k x j u T r l pre cs t ws s0,
  nth_error (x0 :: more) k = Some x -> nth_error (filter (inN (map p_name (set_tables x0))) (set_tables x)) j = Some u -> nth_error Ts j = Some T ->
  in_names (p_name u) skip = false ->
  r < length (lt_rows T) -> last_line T r (p_rows u) = Some l -> l = pre ++ cbody cs ++ t ->
  lt_values T = Z.of_nat s0 :: map Z.of_nat (ends_w (length pre) ws) ->
  map fst cs = firstn (length cs) ws -> Forall cfits cs -> length pre <= s0 -> s0 <= length pre + first_lead cs ->
  (length cs = length ws \/ blank_str t) ->
  exists T', tab_get (p_name u) (s_tables (stateG s title x0 more Ts skip k x)) = Some T'
          /\ lt_rows T' = lt_rows T
          /\ nth r (lt_data T') [] = map (fun c => fortran_float (snd c) zero) cs
                                      ++ repeat zero (length ws - length cs) ++ repeat zero (length (lt_cols T) - length ws).
Proof.
  intros Hs Ha OK skip k x j u T r l pre cs t ws s0 Hk Hu HT Hn Hr Hl El Hv Hw Hf L1 L2 Ht.
  exists (with_data T (newdata T (p_rows u))). split; [apply (g2_table_contents s title x0 more Ts OK skip k x j u T); assumption|]. split; [reflexivity|].
  cbn [with_data lt_data]. destruct (g2_row_last_copy s title x0 more Ts OK k x j u T r Hk Hu HT Hr) as [l' [Hl' [_ E]]].
  rewrite Hl in Hl'. inversion Hl'; subst l'. rewrite E.
  unfold decode_line. rewrite Hv, El. apply cells_decode_tail_thm; assumption.
Qed.

(** table_rows_keys, sorted-dictionary form: setting up on a printed table whose rows come in any order, indices repeated or not,
    yields one row per distinct printed index, in increasing index order, each with the key and line number of the LAST printed copy *)
Theorem table_rows_keys_sorted s title t P : tshape_checkG s title t = Some P ->
  setup_ok s title t (table_ofG P t)
  /\ lt_rows (table_ofG P t) = map (fun x => snd (snd x)) (ins_all (tp_entries P) [])
  /\ sortedZ (ins_all (tp_entries P) [])
  /\ forall z, rd_lookup z (ins_all (tp_entries P) []) = last_entry z (tp_entries P) None.
Proof.
  intro H. split; [exact (tshapeG_setup s title t P H)|]. split; [reflexivity|]. exact (sorted_dict (tp_entries P)).
Qed.
