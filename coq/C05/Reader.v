(** C05 -- FILE-level model of the listing reader of t2listing.py (hand model, H).

    The file is a list of lines (each with its terminator, as [readline()] returns them);
    the file position is the list of lines still to be read ([tell()] = that list,
    [seek(pos)] = put a saved list back; every position the reader ever saves is a line
    boundary because it only moves with [readline()]).  [pos >= _fullpos[i]] is a
    comparison of remaining lengths.

    Transcribed (pinned tree; names as in t2listing.py):
      cursor primitives  skiplines, skipto, skip_to_nonblank, skip_to_blank
      TOUGH2 family      setup_pos_TOUGH2, read_header_TOUGH2, read_title_TOUGH2(_MP),
                         table_type_TOUGH2, next_table_TOUGH2, parse_table_header_TOUGH2,
                         is_results_line, skip_to_results_line, table_expected_floats,
                         key_positions (+ mulgrids.valid_blockname), setup_table_TOUGH2,
                         setup_tables_TOUGH2, read_table_TOUGH2, skip_table_TOUGH2,
                         read_tables_TOUGH2
      TOUGH+             table_type_TOUGHplus, next_table_TOUGHplus, setup_tables_TOUGHplus,
                         read_tables_TOUGHplus
      AUTOUGH2           setup_short_types, setup_pos_AUTOUGH2, read_header_AUTOUGH2,
                         table_type_AUTOUGH2, next_table_AUTOUGH2, parse_table_header_AUTOUGH2,
                         setup_table_AUTOUGH2, setup_tables_AUTOUGH2, read_table_AUTOUGH2,
                         skip_table_AUTOUGH2, read_tables_AUTOUGH2
      t2listing          __init__ (after detect_simulator), set_index
      listingtable       __init__ (_row: last index wins), __setitem__

    NOT modelled: detect_simulator (the simulator is an input), setup_short_indices (restores
    the position it started from and touches no table), history.  A loop that would never
    return in Python (end of file inside [skip_to_nonblank], ...) is [Raise OutOfFuel].
    The fuel of the outer loops is the number of lines of the file: every iteration that
    continues has read at least one line, so it is never exhausted (not proved; the
    correspondence run would show OutOfFuel against a result). *)
From Coq Require Import Ascii String List Bool Arith ZArith NArith Lia.
From PTBase Require Import Exn PyStr PyNum PyVal.
From PTModel Require Import Fortran.
From P Require Import Model Table.
Import ListNotations.
Open Scope char_scope.

Definition cur := list str.

(** [str.strip()] with linear-time reversals (stdlib [rev] is quadratic once extracted); equal to
    PTBase's [strip] *)
Definition frev {A} (l : list A) : list A := rev_append l [].
Lemma frev_rev {A} (l : list A) : frev l = rev l.
Proof. unfold frev. symmetry. apply rev_alt. Qed.
Definition fstrip (s : str) : str := frev (lstrip_by is_space (frev (lstrip_by is_space s))).
Lemma fstrip_strip s : fstrip s = strip s.
Proof. unfold fstrip, strip, strip_by, rstrip_by. rewrite !frev_rev. reflexivity. Qed.

(** ** cursor primitives *)
(** [not line.strip()] *)
Definition is_blank (l : str) : bool := forallb is_space l.
Lemma is_blank_strip l : is_blank l = match strip l with [] => true | _ => false end.
Proof.
  unfold is_blank. destruct (strip l) as [|c r] eqn:E.
  - apply strip_by_nil_all. exact E.
  - destruct (forallb is_space l) eqn:F; [|reflexivity]. exfalso.
    unfold strip, strip_by, rstrip_by in E. rewrite (lstrip_by_all _ _ F) in E. discriminate.
Qed.
Definition readline (c : cur) : str * cur := match c with [] => ([], []) | l :: r => (l, r) end.
(** [for i in range(n): self._file.readline()] *)
Definition skiplines (n : nat) (c : cur) : cur := skipn n c.
(** [line[start:].startswith(kw)] *)
Definition starts_at (start : nat) (kw l : str) : bool := prefix kw (skipn start l).
(** [skipto(keywords, start)]: the keyword found (None = False at end of file) and the position
    after the line that carries it *)
Fixpoint skipto (kws : list str) (start : nat) (c : cur) : option str * cur :=
  match c with
  | [] => (None, [])
  | l :: r => match List.find (fun kw => starts_at start kw l) kws with
              | Some kw => (Some kw, r)
              | None => skipto kws start r
              end
  end.
(** at end of file [readline()] is '' for ever: the loop never ends *)
Fixpoint skip_to_nonblank (c : cur) : res cur :=
  match c with [] => Raise OutOfFuel | l :: r => if is_blank l then skip_to_nonblank r else Ok c end.
Fixpoint skip_to_blank (c : cur) : cur :=
  match c with [] => [] | l :: r => if is_blank l then c else skip_to_blank r end.
(** cursor after the first line that satisfies [p] (None: end of file reached) *)
Fixpoint scan_past (p : str -> bool) (c : cur) : option cur :=
  match c with [] => None | l :: r => if p l then Some r else scan_past p r end.

(** ** simulators *)
Inductive sim := AUT | T2 | T2MP | T3 | TREACT | TPLUS.
Definition sim_eqb (a b : sim) : bool :=
  match a, b with AUT, AUT | T2, T2 | T2MP, T2MP | T3, T3 | TREACT, TREACT | TPLUS, TPLUS => true | _, _ => false end.

(** ** tables *)
Record ltable := {
  lt_cols : list str;
  lt_rows : list (list str);         (* row keys: one name, or the names of a tuple *)
  lt_nkeys : nat;
  lt_keypos : list Z;                (* row_format['key'] *)
  lt_values : list Z;                (* row_format['values'] *)
  lt_rowline : list nat;             (* row_line (TOUGH2 family) *)
  lt_hskip : nat;                    (* header_skiplines *)
  lt_skips : list nat;               (* skiplines *)
  lt_data : list (list pyval)        (* _data *)
}.
Definition names_eqb (a b : list str) : bool := strs_eqb a b.
(** [self._row[key]] *)
Definition row_of (T : ltable) (k : list str) : option nat := last_index names_eqb k (lt_rows T) 0.
Fixpoint set_nth {A} (i : nat) (v : A) (l : list A) : list A :=
  match l, i with
  | [], _ => []
  | _ :: r, O => v :: r
  | x :: r, S j => x :: set_nth j v r
  end.
(** [self._data[i,:] = value]: the value must have one entry per column *)
Definition with_data (T : ltable) (d : list (list pyval)) : ltable :=
  {| lt_cols := lt_cols T; lt_rows := lt_rows T; lt_nkeys := lt_nkeys T; lt_keypos := lt_keypos T;
     lt_values := lt_values T; lt_rowline := lt_rowline T; lt_hskip := lt_hskip T; lt_skips := lt_skips T; lt_data := d |}.
Definition assign_row (T : ltable) (i : nat) (v : list pyval) : res ltable :=
  if negb (length v =? length (lt_cols T))%nat then Raise ValueError
  else if (length (lt_data T) <=? i)%nat then Raise IndexError
  else Ok (with_data T (set_nth i v (lt_data T))).
(** [table[key] = value] *)
Definition assign_key (T : ltable) (k : list str) (v : list pyval) : res ltable :=
  match row_of T k with Some i => assign_row T i v | None => Raise KeyError end.
Definition zero_row (n : nat) : list pyval := repeat zero n.
Definition new_table (cols : list str) (rows : list (list str)) (nkeys : nat) (keypos vals : list Z)
           (rowline : list nat) (hskip : nat) (skips : list nat) : ltable :=
  {| lt_cols := cols; lt_rows := rows; lt_nkeys := nkeys; lt_keypos := keypos; lt_values := vals; lt_rowline := rowline;
     lt_hskip := hskip; lt_skips := skips; lt_data := repeat (zero_row (length cols)) (length rows) |}.

Definition tabs := list (str * ltable).      (* _table, in the order of _tablenames *)
Fixpoint tab_get (n : str) (ts : tabs) : option ltable :=
  match ts with [] => None | (m, T) :: r => if str_eqb m n then Some T else tab_get n r end.
Fixpoint tab_set (n : str) (T : ltable) (ts : tabs) : tabs :=
  match ts with [] => [] | (m, U) :: r => if str_eqb m n then (m, T) :: r else (m, U) :: tab_set n T r end.
(** [self._table[name] = T; self._tablenames.append(name)] (a name set up twice keeps its first place in
    the dict and appears twice in _tablenames; the listings never do that and the model appends) *)
Definition tab_add (n : str) (T : ltable) (ts : tabs) : tabs := ts ++ [(n, T)].
Definition in_names (n : str) (l : list str) : bool := existsb (str_eqb n) l.

(** ** line predicates of the TOUGH2 family *)
Definition kw_at : str := s2l "@@@@@".
Definition kw_eq : str := s2l "=====".
Definition kw_us : str := s2l "_____".
(** [prefix p (lower s)] and [substr p (lower s)] without lower-casing the part of the line that is not looked at *)
Fixpoint prefix_lower (p s : str) : bool :=
  match p, s with
  | [], _ => true
  | x :: p', y :: s' => ceqb x (lower_c y) && prefix_lower p' s'
  | _ :: _, [] => false
  end.
Fixpoint substr_lower (p s : str) : bool :=
  prefix_lower p s || match s with [] => false | _ :: r => substr_lower p r end.
Lemma prefix_lower_eq p s : prefix_lower p s = prefix p (lower s).
Proof. revert s; induction p as [|x p IH]; intros [|y s]; cbn; try reflexivity. rewrite IH. reflexivity. Qed.
Lemma substr_lower_eq p s : substr_lower p s = substr p (lower s).
Proof.
  induction s as [|y s IH].
  - cbn. rewrite prefix_lower_eq. reflexivity.
  - cbn [substr_lower]. rewrite IH, prefix_lower_eq. reflexivity.
Qed.
(** [line.lstrip().lower().startswith('output data after')] *)
Definition is_oda (l : str) : bool := prefix_lower (s2l "output data after") (lstrip l).
Definition has_total_time (l : str) : bool := substr_lower (s2l "total time") l.
(** [line.strip().startswith('KCYC') and 'ITER' in line] *)
Definition is_kcyc (l : str) : bool := prefix (s2l "KCYC") (fstrip l) && substr (s2l "ITER") l.
(** [len(findall('\.[0-9]+', line))]: a match starts at a point that is followed by a digit *)
Fixpoint count_floats (s : str) : nat :=
  match s with
  | c :: ((d :: _) as r) => (if ceqb c "." && is_digit d then 1 else 0) + count_floats r
  | _ => 0
  end.
Definition is_results_line (l : str) (expected : nat) : bool := (expected <=? count_floats l)%nat.
(** [skip_to_results_line]: number of lines skipped + 1, position at the results line *)
Fixpoint skip_to_results (expected : nat) (n : nat) (c : cur) : res (nat * cur) :=
  match c with
  | [] => if (expected =? 0)%nat then Ok (n, []) else Raise OutOfFuel
  | l :: r => if is_results_line (fstrip l) expected then Ok (n, c) else skip_to_results expected (S n) r
  end.
Definition is_header_line (cols : list str) (l : str) : bool := forallb (fun c => substr c l) cols.
(** [len(line)>lsep and line[1:lsep+1] == line[1]*lsep] *)
Definition is_separator (l : str) : bool :=
  (60 <? length l)%nat && str_eqb (slice 1 61 l) (repeat (nth 1 l " ") 60).

(** ** headers *)
Definition nth_str (i : nat) (l : list str) : str := nth i l [].
Fixpoint index_of (x : str) (l : list str) (i : nat) : option nat :=
  match l with [] => None | y :: r => if str_eqb y x then Some i else index_of x r (S i) end.
(** the column names: a flow word is glued to the name before it ([cols[-1] += ' ' + s]) *)
Fixpoint glue_cols (flow : list str) (acc : list str) (ws : list str) : res (list str) :=
  match ws with
  | [] => Ok (rev acc)
  | w :: r => if in_names w flow then
                match acc with
                | [] => Raise IndexError
                | a :: acc' => glue_cols flow ((a ++ " " :: w) :: acc') r
                end
              else glue_cols flow (w :: acc) r
  end.
(** parse_table_header_TOUGH2 on the header line: (nkeys, cols); a header without INDEX / IND. leaves
    [nkeys] unbound (UnboundLocalError, an Exception) *)
Definition parse_header_T2 (s : sim) (headline : str) : res (nat * list str) :=
  let headstrs := split_ws (fstrip headline) in
  let flow := if sim_eqb s TPLUS then [s2l "Flow"; s2l "Veloc"] else [s2l "RATE"] in
  match (match index_of (s2l "INDEX") headstrs 0 with Some i => Some i | None => index_of (s2l "IND.") headstrs 0 end) with
  | None => Raise PlainException
  | Some nkeys => do cols <- glue_cols flow [] (skipn (nkeys + 1) headstrs); Ok (nkeys, cols)
  end.
Definition col0_is_I (cols : list str) : res bool :=
  match cols with [] => Raise IndexError | c :: _ => Ok (str_eqb c (s2l "I"%string)) end.
Definition expected_floats (tablename : str) (cols : list str) : res nat :=
  do i <- col0_is_I cols;
  let n := if str_eqb tablename (s2l "generation") then 1 else length cols in
  Ok (if i then n - 1 else n).            (* 0 - 1 = -1: no line has fewer floats; [0] behaves the same *)

(** ** key_positions (line, nkeys) and mulgrids.valid_blockname *)
Definition printable (c : ascii) : bool := let n := nat_of_ascii c in (32 <=? n)%nat && (n <=? 126)%nat.
Definition valid_blockname (name : str) : res bool :=
  if forallb printable (firstn 3 name) then
    match nth_error name 3 with
    | None => Raise IndexError
    | Some c3 => if is_digit c3 || ceqb c3 " " then
                   match nth_error name 4 with None => Raise IndexError | Some c4 => Ok (is_digit c4) end
                 else Ok false
    end
  else Ok false.
(** [while p(line[pos]): pos -= 1]  (negative positions index from the end, as in Python) *)
Fixpoint back_z (p : ascii -> bool) (line : str) (pos : Z) (fuel : nat) : res Z :=
  match fuel with
  | O => Raise OutOfFuel
  | S f => match pyindex pos line with
           | None => Raise IndexError
           | Some c => if p c then back_z p line (pos - 1) f else Ok pos
           end
  end.
(** [while not line[pos].isdigit() and pos >= keylength: pos -= 1] *)
Fixpoint back_to_digit (line : str) (pos : Z) (fuel : nat) : res Z :=
  match fuel with
  | O => Raise OutOfFuel
  | S f => match pyindex pos line with
           | None => Raise IndexError
           | Some c => if negb (is_digit c) && (5 <=? pos)%Z then back_to_digit line (pos - 1) f else Ok pos
           end
  end.
Fixpoint kp_loop (line : str) (nkeys : nat) (pos : Z) (acc : list Z) : res (option (list Z)) :=
  match nkeys with
  | O => Ok (Some acc)                      (* [keypos.reverse()]: [acc] is built reversed already *)
  | S k => do pos1 <- back_to_digit line pos (S (length line));
           let pos2 := (pos1 - 4)%Z in
           do ok <- valid_blockname (pyslice (Some pos2) (Some (pos2 + 5)%Z) line);
           if ok then kp_loop line k (pos2 - 1) (pos2 :: acc) else Ok None
  end.
Definition key_positions (line : str) (nkeys : nat) : res (option (list Z)) :=
  let fuel := S (S (2 * length line)) in
  do p1 <- back_z (fun c => ceqb c " ") line (Z.of_nat (length line) - 1) fuel;
  do p2 <- back_z (fun c => negb (ceqb c " ")) line p1 fuel;
  kp_loop line nkeys p2 [].

(** ** setup_table_TOUGH2 *)
(** [rowdict[index] = (count, keyval)], kept sorted by index ([sorted(rowdict.keys())]) *)
Fixpoint rd_insert {A} (k : Z) (v : A) (m : list (Z * A)) : list (Z * A) :=
  match m with
  | [] => [(k, v)]
  | (k', v') :: r => if (k <? k')%Z then (k, v) :: m else if (k =? k')%Z then (k, v) :: r else (k', v') :: rd_insert k v r
  end.
Definition row_keys (keypos : list Z) (line : str) : res (list str) := key_from_line line keypos.
Definition opt_slice (a : Z) (b : option Z) (line : str) : str := pyslice (Some a) b line.

Record sacc := {
  a_dict : list (Z * (nat * list str));
  a_longest : str;
  a_skips : list nat;               (* reversed *)
  a_ihs : option nat                (* internal_header_skiplines *)
}.
(** what follows a row: the next row line (with the new [count]), or the end of the table *)
Inductive after_row := NextRow (line : str) (count : nat) (c : cur) (ihs : option nat) | EndTable (count : nat) (c : cur).
Definition after_header (expected : nat) (ihs : option nat) (count : nat) (c : cur) : res after_row :=
  match ihs with
  | None => do nc <- skip_to_results expected 1 c;
            let (l, c') := readline (snd nc) in
            Ok (NextRow l (count + fst nc) c' (Some (fst nc)))
  | Some k => (* [for i in range(k): line, count = count_read(count)] *)
      match k with
      | O => Raise PlainException                     (* skip_to_results_line never returns 0 *)
      | S k' => let c1 := skipn k' c in
                let (l, c') := readline c1 in
                Ok (NextRow l (count + k) c' ihs)
      end
  end.
(** one pass of the [while more] body after the row has been recorded; [c] is the position after the
    row line, [count] its count *)
Definition step_after_row (cols : list str) (title : str) (expected : nat) (ihs : option nat) (count : nat) (c : cur)
  : res after_row :=
  let (l1, c1) := readline c in
  let count1 := S count in
  if is_header_line cols l1 then after_header expected ihs count1 c1
  else if is_separator l1 then Ok (EndTable count1 c)
  else if is_blank l1 then
    let (l2, c2) := readline c1 in
    let count2 := S count1 in
    if is_header_line cols l2 then after_header expected ihs count2 c2
    else if is_separator l2 || str_eqb (fstrip l2) title || is_blank l2 then Ok (EndTable count2 c1)
    else Ok (NextRow l2 count2 c2 ihs)
  else Ok (NextRow l1 count1 c1 ihs).

Fixpoint setup_loop (fuel : nat) (cols : list str) (title : str) (expected : nat) (keypos : list Z) (ip0 : Z) (ip1 : option Z)
         (line : str) (count : nat) (index : Z) (a : sacc) (c : cur) : res (sacc * cur) :=
  match fuel with
  | O => Raise OutOfFuel
  | S f =>
      do keyval <- row_keys keypos line;
      let index' := match py_int_opt (opt_slice ip0 ip1 line) with Some z => (z - 1)%Z | None => (index + 1)%Z end in
      let dict := rd_insert index' (count, keyval) (a_dict a) in
      let longest := if (length (a_longest a) <? length (fstrip line))%nat then line else a_longest a in
      do nx <- step_after_row cols title expected (a_ihs a) count c;
      match nx with
      | NextRow l cnt c' ihs =>
          setup_loop f cols title expected keypos ip0 ip1 l cnt index'
                     {| a_dict := dict; a_longest := longest; a_skips := (cnt - count - 1) :: a_skips a; a_ihs := ihs |} c'
      | EndTable cnt c' =>
          Ok ({| a_dict := dict; a_longest := longest; a_skips := (cnt - count - 1) :: a_skips a; a_ihs := a_ihs a |}, c')
      end
  end.

Definition last_z (l : list Z) : res Z := match rev l with [] => Raise IndexError | x :: _ => Ok x end.
(** the table and the position after it (None: 'Error parsing ... table keys') *)
Definition setup_table_T2 (s : sim) (title : str) (tablename : str) (c : cur) : res (ltable * cur) :=
  let (headline, c1) := readline c in
  do nc <- parse_header_T2 s headline;
  let (nkeys, cols) := nc in
  do expected <- expected_floats tablename cols;
  do hs <- skip_to_results expected 1 c1;
  let (hskip, c2) := hs in
  let (line, c3) := readline c2 in
  do i0 <- col0_is_I cols;
  do start <- start_of_values line i0;
  do kp <- key_positions (match start with Some z => pyslice None (Some z) line | None => line end) nkeys;
  match kp with
  | None | Some [] => Raise PlainException
  | Some keypos =>
      do lastk <- last_z keypos;
      do ac <- setup_loop (S (length c3)) cols title expected keypos (lastk + 5)%Z start line 0 (-1)%Z
                          {| a_dict := []; a_longest := line; a_skips := []; a_ihs := None |} c3;
      let (a, c4) := ac in
      match start with
      | None => Raise TypeError
      | Some st =>
          match parse_table_line (a_longest a) st i0 with
          | None => Raise PlainException
          | Some numpos =>
              Ok (new_table cols (map (fun e => snd (snd e)) (a_dict a)) nkeys keypos numpos
                            (map (fun e => fst (snd e)) (a_dict a)) hskip (rev (a_skips a)), c4)
          end
      end
  end.

(** ** read_table_TOUGH2 / skip_table_TOUGH2 *)
Fixpoint read_rows_T2 (T : ltable) (skips : list nat) (c : cur) : res (ltable * cur) :=
  match skips with
  | [] => Ok (T, c)
  | sk :: r =>
      let (line, c1) := readline c in
      do key <- key_from_line line (lt_keypos T);
      do T' <- assign_key T key (read_table_line_TOUGH2 line (length (lt_cols T)) (lt_values T));
      read_rows_T2 T' r (skiplines sk c1)
  end.
Definition read_table_T2 (T : ltable) (c : cur) : res (ltable * cur) :=
  read_rows_T2 T (lt_skips T) (skiplines (lt_hskip T) c).
Definition skip_table_T2 (s : sim) (ts : tabs) (tablename : str) (c : cur) : cur :=
  match tab_get tablename ts with
  | Some T => skiplines (lt_hskip T + length (lt_rows T) + list_sum (lt_skips T)) c
  | None => snd (skipto [if sim_eqb s TPLUS && str_eqb tablename (s2l "primary") then kw_us else kw_at] 1 c)
  end.

(** ** headers of a result set *)
Definition read_header_T2 (s : sim) (c : cur) : res (pyval * pyval * cur) :=
  let (l, c1) := readline c in
  match split_ws l with
  | t :: st :: _ =>
      let c2 := snd (skipto [if sim_eqb s TPLUS then kw_eq else kw_at] 1 c1) in
      do c3 <- skip_to_nonblank c2;
      let (l3, c4) := readline c3 in
      if (length (split_ws l3) <? 4)%nat then do c5 <- skip_to_nonblank c4; Ok (fortran_float t zero, fortran_int st (VInt 0), c5)
      else Ok (fortran_float t zero, fortran_int st (VInt 0), c3)
  | _ => Raise IndexError
  end.

(** ** table types and next_table *)
Definition w3 (hs : list str) : str * str * str := (nth_str 0 hs, nth_str 1 hs, nth_str 2 hs).
Definition table_type_T2 (hs : list str) : res (option str) :=
  let h0 := nth_str 0 hs in let h1 := nth_str 1 hs in
  if (2 <=? length hs)%nat && str_eqb h0 (s2l "ELEM.") && (str_eqb h1 (s2l "INDEX") || str_eqb h1 (s2l "IND.")) then
    match nth_error hs 2 with
    | None => Raise IndexError
    | Some h2 => Ok (if str_eqb h2 (s2l "P"%string) then Some (s2l "element") else if str_eqb h2 (s2l "X1") then Some (s2l "primary") else None)
    end
  else if (length hs =? 3)%nat && str_eqb h0 (s2l "ELEM1") && str_eqb h1 (s2l "ELEM2") && str_eqb (nth_str 2 hs) (s2l "INDEX") then
    Ok (Some (s2l "connection"))
  else if (length hs =? 3)%nat && (str_eqb h0 (s2l "ELEMENT") || str_eqb h0 (s2l "ELEM.")) && str_eqb h1 (s2l "SOURCE")
          && str_eqb (nth_str 2 hs) (s2l "INDEX") then Ok (Some (s2l "generation"))
  else Ok None.
Definition table_type_TP (hs : list str) : res (option str) :=
  let h0 := nth_str 0 hs in let h1 := nth_str 1 hs in
  if (2 <=? length hs)%nat && str_eqb h0 (s2l "ELEM") && str_eqb h1 (s2l "INDEX") then
    match nth_error hs 2 with
    | None => Raise IndexError
    | Some h2 => Ok (Some (if str_eqb h2 (s2l "X1") then s2l "primary" else s2l "element"))
    end
  else if (length hs =? 3)%nat && str_eqb h0 (s2l "ELEM1") && str_eqb h1 (s2l "ELEM2") && str_eqb (nth_str 2 hs) (s2l "INDEX") then
    Ok (Some (s2l "connection"))
  else if (length hs =? 3)%nat && str_eqb h0 (s2l "ELEMENT") && str_eqb h1 (s2l "SOURCE") && str_eqb (nth_str 2 hs) (s2l "INDEX") then
    Ok (Some (s2l "generation"))
  else Ok None.

(** [pos >= self._fullpos[self.index+1]] under [num_fulltimes > 1 and index < num_fulltimes-1] *)
Definition past_next_set (fullpos : list cur) (index : Z) (c : cur) : res bool :=
  let n := Z.of_nat (length fullpos) in
  if ((1 <? n) && (index <? n - 1))%Z then
    match pyindex (index + 1)%Z fullpos with
    | None => Raise IndexError
    | Some p => Ok (length c <=? length p)%nat
    end
  else Ok false.
Definition mass_flow_title : str := s2l "MASS FLOW RATES (KG/S) FROM DIFFUSION".
Fixpoint next_table_T2 (fuel : nat) (fullpos : list cur) (index : Z) (c : cur) : res (option str * cur) :=
  match fuel with
  | O => Raise OutOfFuel
  | S f =>
      match scan_past is_kcyc c with
      | None => Ok (None, [])
      | Some c1 =>
          do past <- past_next_set fullpos index c1;
          if past then Ok (None, c1)
          else
            do c2 <- skip_to_nonblank c1;
            let (l, c3) := readline c2 in
            if str_eqb (fstrip l) mass_flow_title then next_table_T2 f fullpos index (snd (skipto [kw_at] 1 c3))
            else do tt <- table_type_T2 (firstn 3 (split_ws (fstrip l))); Ok (tt, c2)
      end
  end.
Definition next_table_TP (fullpos : list cur) (index : Z) (c : cur) : res (option str * cur) :=
  match skipto [kw_us] 0 c with
  | (None, c1) => Ok (None, c1)
  | (Some _, c1) =>
      let c2 := skiplines 1 c1 in
      do past <- past_next_set fullpos index c2;
      if past then Ok (None, c2)
      else do tt <- table_type_TP (firstn 3 (split_ws (fstrip (fst (readline c2))))); Ok (tt, c2)
  end.

(** ** titles *)
Definition has_c_colon (l : str) : bool := has_c ":" l.
(** [while not ('problem title' in line.lower() and ':' in line) or (line == ''): line = readline()] never
    ends at the end of the file *)
Fixpoint read_title_T2 (c : cur) : res str :=
  match c with
  | [] => Raise OutOfFuel
  | l :: r => if substr_lower (s2l "problem title") l && has_c_colon l then
                match find_c ":" l 0 with Some p => Ok (fstrip (skipn (S p) l)) | None => Ok [] end
              else read_title_T2 r
  end.
Definition read_title_MP (c : cur) : str := fstrip (fst (readline (skiplines 1 c))).

(** ** the state of an open listing *)
Record lstate := {
  s_sim : sim;
  s_title : str;
  s_skip : list str;
  s_fullpos : list cur;
  s_index : Z;
  s_time : pyval;
  s_step : pyval;
  s_tables : tabs
}.
Definition with_tables (st : lstate) (ts : tabs) : lstate :=
  {| s_sim := s_sim st; s_title := s_title st; s_skip := s_skip st; s_fullpos := s_fullpos st; s_index := s_index st;
     s_time := s_time st; s_step := s_step st; s_tables := ts |}.
Definition with_header (st : lstate) (t stp : pyval) : lstate :=
  {| s_sim := s_sim st; s_title := s_title st; s_skip := s_skip st; s_fullpos := s_fullpos st; s_index := s_index st;
     s_time := t; s_step := stp; s_tables := s_tables st |}.
Definition with_index (st : lstate) (i : Z) : lstate :=
  {| s_sim := s_sim st; s_title := s_title st; s_skip := s_skip st; s_fullpos := s_fullpos st; s_index := i;
     s_time := s_time st; s_step := s_step st; s_tables := s_tables st |}.
Definition next_table (st : lstate) (c : cur) : res (option str * cur) :=
  if sim_eqb (s_sim st) TPLUS then next_table_TP (s_fullpos st) (s_index st) c
  else next_table_T2 (S (length c)) (s_fullpos st) (s_index st) c.

(** ** setup_pos_TOUGH2 *)
Fixpoint setup_pos_T2 (fuel : nat) (s : sim) (c : cur) : res (list cur) :=
  match fuel with
  | O => Raise OutOfFuel
  | S f =>
      match scan_past is_oda c with
      | None => Ok []
      | Some c1 =>
          match scan_past has_total_time c1 with
          | None => Raise OutOfFuel
          | Some c2 =>
              do h <- read_header_T2 s c2;
              do rest <- setup_pos_T2 f s (snd (skipto [kw_at] 1 (snd h)));
              Ok (c2 :: rest)
          end
      end
  end.

(** ** setup_tables_TOUGH2 / _TOUGHplus: the loop after the first header *)
Definition elem_n (n : nat) : str := s2l "element" ++ z_to_str (Z.of_nat n).
(** TOUGH+: [if tablename == 'element': nelt_tables += 1; tablename += str(nelt_tables)] *)
Definition tp_rename (s : sim) (tn : option str) (nelt : nat) : option str * nat :=
  match tn with
  | Some n => if sim_eqb s TPLUS && str_eqb n (s2l "element") then (Some (elem_n (S nelt)), S nelt) else (tn, nelt)
  | None => (None, nelt)
  end.
Fixpoint setup_tables_loop (fuel : nat) (st : lstate) (tablename : str) (nelt : nat) (c : cur) : res lstate :=
  match fuel with
  | O => Raise OutOfFuel
  | S f =>
      do stc <- (if in_names tablename (s_skip st) then Ok (st, skip_table_T2 (s_sim st) (s_tables st) tablename c)
                 else do tc <- setup_table_T2 (s_sim st) (s_title st) tablename c;
                      Ok (with_tables st (tab_add tablename (fst tc) (s_tables st)), snd tc));
      let (st1, c1) := stc in
      do nt <- next_table st1 c1;
      match tp_rename (s_sim st1) (fst nt) nelt with
      | (None, _) => Ok st1
      | (Some tn, nelt') => setup_tables_loop f st1 tn nelt' (snd nt)
      end
  end.

(** ** read_tables_TOUGH2 / _TOUGHplus: the loop after the header *)
Fixpoint read_tables_loop (fuel : nat) (st : lstate) (tablename : str) (nelt : nat) (c : cur) : res lstate :=
  match fuel with
  | O => Raise OutOfFuel
  | S f =>
      do stc <- (if in_names tablename (s_skip st) then Ok (st, skip_table_T2 (s_sim st) (s_tables st) tablename c)
                 else match tab_get tablename (s_tables st) with
                      | Some T => do tc <- read_table_T2 T c; Ok (with_tables st (tab_set tablename (fst tc) (s_tables st)), snd tc)
                      | None =>
                          if sim_eqb (s_sim st) TPLUS then Raise KeyError        (* read_table_TOUGH2: self._table[tablename] *)
                          else Ok (st, skip_table_T2 (s_sim st) (s_tables st) tablename c)   (* table not present at first time step *)
                      end);
      let (st1, c1) := stc in
      do nt <- next_table st1 c1;
      match tp_rename (s_sim st1) (fst nt) nelt with
      | (None, _) => Ok st1
      | (Some tn, nelt') => read_tables_loop f st1 tn nelt' (snd nt)
      end
  end.
Definition n_element : str := s2l "element".
Definition read_tables_T2 (st : lstate) (c : cur) : res lstate :=
  do h <- read_header_T2 (s_sim st) c;
  let '(t, stp, c1) := h in
  read_tables_loop (S (length c1)) (with_header st t stp) n_element 0 c1.

(** ** AUTOUGH2 *)
Definition kw5 (ch : ascii) : str := repeat ch 5.
Definition table_type_AUT (kw : str) : option str :=
  if str_eqb kw (kw5 "E") then Some (s2l "element") else if str_eqb kw (kw5 "C") then Some (s2l "connection")
  else if str_eqb kw (kw5 "G") then Some (s2l "generation") else None.
Definition first_upper (tablename : str) : ascii := match tablename with c :: _ => upper_c c | [] => " " end.
(** [s.find(sub)] *)
Fixpoint find_sub (p s : str) (i : Z) : Z :=
  if prefix p s then i else match s with [] => (-1)%Z | _ :: r => find_sub p r (i + 1)%Z end.
Definition read_header_AUT (c : cur) : str * pyval * pyval * cur :=
  let (tl, c1) := readline c in
  let (l, c2) := readline c1 in
  let istart := (find_sub (s2l "AFTER") l 0 + 5)%Z in
  let iend := find_sub (s2l "TIME STEPS") l 0 in
  let stp := fortran_int (pyslice (Some istart) (Some iend) l) (VInt 0) in
  let t := fortran_float (pyslice (Some (iend + 10)%Z) (Some (find_sub (s2l "SECONDS") l 0)) l) zero in
  (fstrip tl, t, stp, skiplines 1 c2).
Definition short_kws : list str := [s2l "ESHORT"; s2l "CSHORT"; s2l "GSHORT"].
Fixpoint setup_short_types (fuel : nat) (acc : list str) (c : cur) : res (list str) :=
  match fuel with
  | O => Raise OutOfFuel
  | S f => match skipto short_kws 1 c with
           | (None, _) => Ok acc
           | (Some kw, c1) => if in_names kw acc then Ok acc
                              else setup_short_types f (acc ++ [kw]) (snd (skipto [kw] 1 (snd (skipto [kw] 1 c1))))
           end
  end.
Fixpoint setup_pos_AUT (fuel : nat) (kws : list str) (c : cur) : res (list cur) :=
  match fuel with
  | O => Raise OutOfFuel
  | S f => match skipto kws 1 c with
           | (None, _) => Ok []
           | (Some kw, c1) =>
               let '(_, _, _, c2) := read_header_AUT c1 in
               do rest <- setup_pos_AUT f kws (snd (skipto [kw] 1 (skiplines 1 c2)));
               Ok (if str_eqb kw (kw5 "E") then c1 :: rest else rest)
           end
  end.
(** parse_table_header_AUTOUGH2: a word that starts with a non-upper-case character continues the column name *)
Fixpoint glue_cols_AUT (acc : list str) (ws : list str) : res (list str) :=
  match ws with
  | [] => Ok (rev acc)
  | w :: r => match w with
              | [] => Raise IndexError
              | ch :: _ => if ceqb ch (upper_c ch) then glue_cols_AUT (w :: acc) r
                           else match acc with [] => Raise IndexError | a :: acc' => glue_cols_AUT ((a ++ " " :: w) :: acc') r end
              end
  end.
Definition parse_header_AUT (headline : str) : res (nat * list str) :=
  let hs := split_ws (fstrip headline) in
  match index_of (s2l "INDEX") hs 0 with
  | None => Raise ValueError
  | Some nkeys => do cols <- glue_cols_AUT [] (skipn (nkeys + 1) hs); Ok (nkeys, cols)
  end.
(** rows up to the line whose characters 1..5 are the keyword; at the end of the file the loop never ends *)
Fixpoint rows_AUT (kw : str) (keypos : list Z) (line : str) (c : cur) : res (list (list str) * cur) :=
  if str_eqb (slice 1 6 line) kw then Ok ([], c)
  else do k <- key_from_line line keypos;
       match c with
       | [] => Raise OutOfFuel
       | l :: r => do rc <- rows_AUT kw keypos l r; Ok (k :: fst rc, snd rc)
       end.
Definition setup_table_AUT (tablename : str) (c : cur) : res (ltable * cur) :=
  let kw := kw5 (first_upper tablename) in
  let (headline, c1) := readline (skiplines 3 c) in
  do nc <- parse_header_AUT headline;
  let (nkeys, cols) := nc in
  let (line, c2) := readline (skiplines 1 c1) in
  do i0 <- col0_is_I cols;
  do start <- start_of_values line i0;
  let nvalues := length (split_ws (fstrip (match start with Some z => pyslice (Some z) None line | None => line end))) in
  if negb (length cols =? nvalues)%nat then Raise PlainException
  else
    do kp <- key_positions (match start with Some z => pyslice None (Some z) line | None => line end) nkeys;
    match kp, start with
    | Some ((_ :: _) as keypos), Some st =>
        do rc <- rows_AUT kw keypos line c2;
        Ok (new_table cols (fst rc) nkeys keypos [st] [] 0 [], skiplines 1 (snd rc))
    | Some ((_ :: _) as keypos), None => Raise TypeError
    | _, _ => Raise PlainException
    end.
Fixpoint read_rows_AUT (kw : str) (T : ltable) (row : nat) (line : str) (c : cur) : res (ltable * cur) :=
  if str_eqb (slice 1 6 line) kw then Ok (T, c)
  else
    match lt_values T with
    | [] => Raise IndexError
    | st :: _ =>
        do T' <- assign_row T row (read_table_line_AUTOUGH2 line st);
        match c with
        | [] => Raise OutOfFuel
        | l :: r => read_rows_AUT kw T' (S row) l r
        end
    end.
Definition read_table_AUT (tablename : str) (T : ltable) (c : cur) : res (ltable * cur) :=
  let c1 := skip_to_blank (skiplines 1 (skip_to_blank c)) in
  do c2 <- skip_to_nonblank c1;
  let (line, c3) := readline c2 in
  do tc <- read_rows_AUT (kw5 (first_upper tablename)) T 0 line c3;
  Ok (fst tc, skiplines 1 (snd tc)).
Fixpoint skip_rows_AUT (kw : str) (line : str) (c : cur) : res cur :=
  if str_eqb (slice 1 6 line) kw then Ok c
  else match c with [] => Raise OutOfFuel | l :: r => skip_rows_AUT kw l r end.
Definition skip_table_AUT (tablename : str) (c : cur) : res cur :=
  let (line, c1) := readline (skip_to_blank c) in
  do c2 <- skip_rows_AUT (kw5 (first_upper tablename)) line c1;
  Ok (skiplines 1 c2).
Definition next_table_AUT (c : cur) : option str * cur :=
  let (l, c1) := readline c in (table_type_AUT (slice 1 6 l), c1).
(** setup_tables_AUTOUGH2 ([setup] = true) and read_tables_AUTOUGH2 ([setup] = false) *)
Fixpoint tables_loop_AUT (fuel : nat) (setup : bool) (st : lstate) (tablename : str) (c : cur) : res lstate :=
  match fuel with
  | O => Raise OutOfFuel
  | S f =>
      let '(title, t, stp, c0) := read_header_AUT c in
      let st0 := {| s_sim := s_sim st; s_title := title; s_skip := s_skip st; s_fullpos := s_fullpos st; s_index := s_index st;
                    s_time := t; s_step := stp; s_tables := s_tables st |} in
      do stc <- (if in_names tablename (s_skip st0) then do c' <- skip_table_AUT tablename c0; Ok (st0, c')
                 else if setup then do tc <- setup_table_AUT tablename c0;
                                    Ok (with_tables st0 (tab_add tablename (fst tc) (s_tables st0)), snd tc)
                 else match tab_get tablename (s_tables st0) with
                      | None => Raise KeyError
                      | Some T => do tc <- read_table_AUT tablename T c0;
                                  Ok (with_tables st0 (tab_set tablename (fst tc) (s_tables st0)), snd tc)
                      end);
      let (st1, c1) := stc in
      match next_table_AUT c1 with
      | (None, _) => Ok st1
      | (Some tn, c2) => tables_loop_AUT f setup st1 tn c2
      end
  end.

(** ** t2listing.set_index / __init__ *)
Definition read_tables (st : lstate) (c : cur) : res lstate :=
  if sim_eqb (s_sim st) AUT then tables_loop_AUT (S (length c)) false st n_element c else read_tables_T2 st c.
(** [self._file.seek(self._fullpos[i]); self._index = i; if self._index < 0: self._index += num_fulltimes; read_tables()] *)
Definition set_index (st : lstate) (i : Z) : res lstate :=
  match pyindex i (s_fullpos st) with
  | None => Raise IndexError
  | Some c => let i' := if (i <? 0)%Z then (i + Z.of_nat (length (s_fullpos st)))%Z else i in
              read_tables (with_index st i') c
  end.
(** [t2listing(filename, skip_tables)] once the simulator is known *)
Definition open_listing (s : sim) (skip : list str) (file : cur) : res lstate :=
  let n := S (length file) in
  do fullpos <- (if sim_eqb s AUT then
                   do sh <- setup_short_types n [] file;
                   setup_pos_AUT n (kw5 "E" :: firstn 1 sh) file
                 else setup_pos_T2 n s file);
  match fullpos with
  | [] => Raise PlainException                   (* 'No full results found in listing file.' *)
  | c0 :: _ =>
      let st0 := {| s_sim := s; s_title := []; s_skip := skip; s_fullpos := fullpos; s_index := 0%Z;
                    s_time := VNone; s_step := VNone; s_tables := [] |} in
      do st1 <- (if sim_eqb s AUT then tables_loop_AUT n true st0 n_element c0
                 else
                   do title <- (if sim_eqb s T2MP then Ok (read_title_MP file) else read_title_T2 file);
                   do h <- read_header_T2 s c0;
                   let '(t, stp, c1) := h in
                   setup_tables_loop n {| s_sim := s; s_title := title; s_skip := skip; s_fullpos := fullpos; s_index := 0%Z;
                                          s_time := t; s_step := stp; s_tables := [] |} n_element 0 c1);
      set_index st1 0%Z
  end.
