(** C05 -- an executable checker for the hypotheses of the whole-file theorem (CodecT2.v) and its soundness:
    [file_check s sets = Some (title, Ts)] implies [file_ok s title x0 more Ts].  The checker is run (extracted)
    on the abstraction of every shipped TOUGH2-family listing, so that the theorem is known to apply to the
    real files, and inside Coq on a small listing (Witness of non-vacuity). *)
From Coq Require Import Ascii String List Bool Arith ZArith NArith Lia.
From PTBase Require Import Exn PyStr PyNum PyVal.
From PTModel Require Import Fortran.
From P Require Import Model Table Reader TableT2 SetT2 FileT2 CodecT2.
Import ListNotations.
Open Scope char_scope.

(** ** reflection helpers *)
Lemma forallb_Forall {A} (p : A -> bool) (P : A -> Prop) l : (forall x, p x = true -> P x) -> forallb p l = true -> Forall P l.
Proof. intros H F. apply Forall_forall. intros x Hx. apply H. rewrite forallb_forall in F. apply F. exact Hx. Qed.
Lemma negb_true b : negb b = true -> b = false.
Proof. destruct b; [discriminate|reflexivity]. Qed.
Fixpoint break_at {A} (p : A -> bool) (l : list A) : option (list A * A * list A) :=
  match l with
  | [] => None
  | x :: r => if p x then Some ([], x, r)
              else match break_at p r with Some (a, y, b) => Some (x :: a, y, b) | None => None end
  end.
Lemma break_at_spec {A} (p : A -> bool) l : forall a y b, break_at p l = Some (a, y, b) -> l = a ++ y :: b /\ Forall (fun x => p x = false) a /\ p y = true.
Proof.
  induction l as [|x l IH]; intros a y b H; cbn [break_at] in H; [discriminate|].
  destruct (p x) eqn:E.
  - inversion H; subst. repeat split; [constructor|exact E].
  - destruct (break_at p l) as [[[a' y'] b']|]; [|discriminate]. inversion H; subst.
    destruct (IH a' y b eq_refl) as [E1 [E2 E3]]. subst l. repeat split; [constructor; assumption|exact E3].
Qed.
Fixpoint forall2b {A B} (p : A -> B -> bool) (l : list A) (m : list B) : bool :=
  match l, m with [], [] => true | x :: l', y :: m' => p x y && forall2b p l' m' | _, _ => false end.
Lemma forall2b_Forall2 {A B} (p : A -> B -> bool) (P : A -> B -> Prop) l : (forall x y, p x y = true -> P x y) ->
  forall m, forall2b p l m = true -> Forall2 P l m.
Proof.
  intro H. induction l as [|x l IH]; intros [|y m] F; cbn [forall2b] in F; try discriminate; constructor.
  - apply H. apply andb_prop in F as [F _]. exact F.
  - apply IH. apply andb_prop in F as [_ F]. exact F.
Qed.
Fixpoint nodupb {A} (eqb : A -> A -> bool) (l : list A) : bool :=
  match l with [] => true | x :: r => negb (existsb (eqb x) r) && nodupb eqb r end.
Lemma nodupb_NoDup {A} (eqb : A -> A -> bool) (spec : forall a b, eqb a b = true <-> a = b) l : nodupb eqb l = true -> NoDup l.
Proof.
  induction l as [|x l IH]; intro H; constructor; cbn [nodupb] in H; apply andb_prop in H as [H1 H2].
  - intro Hin. apply negb_true in H1. assert (E : existsb (eqb x) l = true) by (apply existsb_exists; exists x; split; [exact Hin|apply spec; reflexivity]). congruence.
  - apply IH. exact H2.
Qed.
Fixpoint nats_eqb (a b : list nat) : bool :=
  match a, b with [], [] => true | x :: a', y :: b' => (x =? y)%nat && nats_eqb a' b' | _, _ => false end.
Lemma nats_eqb_eq a : forall b, nats_eqb a b = true -> a = b.
Proof.
  induction a as [|x a IH]; intros [|y b] H; cbn [nats_eqb] in H; try discriminate; [reflexivity|].
  apply andb_prop in H as [H1 H2]. apply Nat.eqb_eq in H1. rewrite (IH b H2), H1. reflexivity.
Qed.
Fixpoint increasingb (lo : Z) (es : list entry) : bool :=
  match es with [] => true | e :: r => (lo <? fst e)%Z && increasingb (fst e) r end.
Lemma increasingb_spec es : forall lo, increasingb lo es = true -> increasing lo es.
Proof.
  induction es as [|e es IH]; intros lo H; cbn [increasingb increasing] in *; [exact I|].
  apply andb_prop in H as [H1 H2]. split; [apply Z.ltb_lt; exact H1|apply IH; exact H2].
Qed.

(** ** result sets *)
Definition lead_okb (lead : list str) : bool :=
  match break_at is_oda lead with
  | Some (_, _, rest) => match rev rest with
                         | tl0 :: Brev => has_total_time tl0 && forallb (fun l => negb (has_total_time l)) Brev
                         | [] => false
                         end
  | None => false
  end.
Lemma lead_okb_spec lead : lead_okb lead = true ->
  exists A oda B tt, lead = A ++ oda :: B ++ [tt] /\ Forall not_oda A /\ is_oda oda = true /\ Forall not_tt B /\ has_total_time tt = true.
Proof.
  unfold lead_okb. destruct (break_at is_oda lead) as [[[A oda] rest]|] eqn:E; [|discriminate].
  destruct (break_at_spec _ _ _ _ _ E) as [E1 [E2 E3]].
  destruct (rev rest) as [|tl0 Brev] eqn:Er; [discriminate|]. intro H. apply andb_prop in H as [H1 H2].
  exists A, oda, (rev Brev), tl0. split.
  - rewrite E1. f_equal. f_equal. rewrite <- (rev_involutive rest), Er. reflexivity.
  - split; [exact E2|]. split; [exact E3|]. split; [|exact H1].
    apply Forall_rev. apply (forallb_Forall _ _ _ (fun x Hx => negb_true _ Hx) H2).
Qed.
Definition skip_okb (t : ptable) : bool := forallb (fun l => negb (starts_at 1 kw_at l)) (p_front t) && starts_at 1 kw_at (p_sep t).
Lemma skip_okb_spec t : skip_okb t = true -> skip_ok t.
Proof.
  unfold skip_okb, skip_ok. intro H. apply andb_prop in H as [H1 H2]. split; [|exact H2].
  apply (forallb_Forall _ _ _ (fun x Hx => negb_true _ Hx) H1).
Qed.
Definition extra_okb (xs : list str) (hdr : str) : bool :=
  match xs with
  | [] => negb (length (split_ws hdr) <? 4)%nat
  | e :: bl2 => negb (is_blank e) && (length (split_ws e) <? 4)%nat && forallb is_blank bl2
  end.
Lemma extra_okb_spec xs hdr : extra_okb xs hdr = true -> extra_ok xs hdr.
Proof.
  unfold extra_okb, extra_ok. destruct xs as [|e bl2]; intro H.
  - left. split; [reflexivity|apply negb_true; exact H].
  - right. apply andb_prop in H as [H H3]. apply andb_prop in H as [H1 H2]. exists e, bl2. repeat split; [apply negb_true; exact H1|exact H2|].
    apply (forallb_Forall _ _ _ (fun y Hy => Hy) H3).
Qed.
Definition set_okb (x : pset) : bool :=
  lead_okb (ps_lead x)
  && (match split_ws (ps_time x) with _ :: _ :: _ => true | _ => false end)
  && forallb (fun l => negb (starts_at 1 kw_at l)) (ps_h1 x)
  && starts_at 1 kw_at (ps_sep x)
  && forallb is_blank (ps_bl x)
  && negb (is_blank (p_hdr (ps_first x))) && extra_okb (ps_x x) (p_hdr (ps_first x))
  && skip_okb (ps_first x)
  && forallb (fun l => negb (is_oda l)) (rest_lines (ps_rest x) (ps_tail x))
  && forallb (fun l => negb (is_kcyc l)) (ps_lead x)
  && forallb (fun l => negb (is_kcyc l)) (ps_tail x).
Lemma set_okb_spec x : set_okb x = true -> set_ok x.
Proof.
  unfold set_okb. intro H.
  repeat (let Hn := fresh "C" in apply andb_prop in H as [H Hn]).
  constructor.
  - apply lead_okb_spec. exact H.
  - destruct (split_ws (ps_time x)) as [|a [|b r]]; try discriminate. exists a, b, r. reflexivity.
  - apply (forallb_Forall _ _ _ (fun y Hy => negb_true _ Hy) C7).
  - exact C6.
  - apply (forallb_Forall _ _ _ (fun y Hy => Hy) C5).
  - split; [apply negb_true; assumption|apply extra_okb_spec; assumption].
  - apply skip_okb_spec. exact C2.
  - apply (forallb_Forall _ _ _ (fun y Hy => negb_true _ Hy) C1).
  - apply (forallb_Forall _ _ _ (fun y Hy => negb_true _ Hy) C0).
  - apply (forallb_Forall _ _ _ (fun y Hy => negb_true _ Hy) C).
Qed.

(** ** the lines between two tables *)
(** the mass-flow blocks at the start of [inter] are split off; what remains must be lines, a KCYC/ITER line, blank lines *)
Fixpoint split_blocks (fuel : nat) (inter : list str) : option (list (list str) * list str) :=
  match fuel with
  | O => None
  | S f =>
      match break_at is_kcyc inter with
      | None => None
      | Some (nk, kc, rest) =>
          match break_at (fun l => negb (is_blank l)) rest with
          | Some (bl, m, rest2) =>
              if str_eqb (fstrip m) mass_flow_title then
                match break_at (starts_at 1 kw_at) rest2 with
                | Some (body, sp, rest3) =>
                    match split_blocks f rest3 with
                    | Some (bs, fin) => Some ((nk ++ kc :: bl ++ m :: body ++ [sp]) :: bs, fin)
                    | None => None
                    end
                | None => None
                end
              else None
          | None => if forallb is_blank rest then Some ([], inter) else None
          end
      end
  end.
Lemma split_blocks_spec fuel : forall inter bs fin, split_blocks fuel inter = Some (bs, fin) ->
  inter = concat bs ++ fin /\ Forall mblock bs /\ exists nk kc bl, fin = nk ++ kc :: bl /\ Forall not_kcyc nk /\ is_kcyc kc = true /\ Forall (fun l => is_blank l = true) bl.
Proof.
  induction fuel as [|f IH]; intros inter bs fin H; cbn [split_blocks] in H; [discriminate|].
  destruct (break_at is_kcyc inter) as [[[nk kc] rest]|] eqn:E1; [|discriminate].
  destruct (break_at_spec _ _ _ _ _ E1) as [A1 [A2 A3]].
  destruct (break_at (fun l => negb (is_blank l)) rest) as [[[bl m] rest2]|] eqn:E2.
  - destruct (break_at_spec _ _ _ _ _ E2) as [B1 [B2 B3]].
    destruct (str_eqb (fstrip m) mass_flow_title) eqn:E3; [|discriminate].
    destruct (break_at (starts_at 1 kw_at) rest2) as [[[body sp] rest3]|] eqn:E4; [|discriminate].
    destruct (break_at_spec _ _ _ _ _ E4) as [C1 [C2 C3]].
    destruct (split_blocks f rest3) as [[bs' fin']|] eqn:E5; [|discriminate]. inversion H; subst bs fin. clear H.
    destruct (IH _ _ _ E5) as [D1 [D2 D3]]. split; [|split; [|exact D3]].
    + cbn [concat]. rewrite A1, B1, C1, D1. repeat (rewrite <- app_assoc; cbn [app]). reflexivity.
    + constructor; [|exact D2]. exists nk, kc, bl, m, body, sp. split; [reflexivity|]. split; [exact A2|]. split; [exact A3|].
      split; [eapply Forall_impl; [|exact B2]; cbn; intros l Hl; apply negb_false_iff in Hl; exact Hl|].
      split; [apply negb_true_iff in B3; exact B3|]. split; [exact E3|]. split; [exact C2|exact C3].
  - destruct (forallb is_blank rest) eqn:E3; [|discriminate]. inversion H; subst bs fin. clear H.
    split; [reflexivity|]. split; [constructor|]. exists nk, kc, rest. split; [exact A1|]. split; [exact A2|]. split; [exact A3|].
    apply (forallb_Forall _ _ _ (fun y Hy => Hy) E3).
Qed.
Definition inter_shapeb (inter : list str) (hdr name : str) : bool :=
  (match split_blocks (S (length inter)) inter with Some _ => true | None => false end)
  && negb (is_blank hdr) && negb (str_eqb (fstrip hdr) mass_flow_title)
  && (match table_type_T2 (firstn 3 (split_ws (fstrip hdr))) with Ok (Some n) => str_eqb n name | _ => false end).
Lemma inter_shapeb_spec inter hdr name : inter_shapeb inter hdr name = true -> inter_shape inter hdr name.
Proof.
  unfold inter_shapeb. intro H. repeat (let Hn := fresh "C" in apply andb_prop in H as [H Hn]).
  constructor.
  - destruct (split_blocks (S (length inter)) inter) as [[bs fin]|] eqn:E; [|discriminate].
    destruct (split_blocks_spec _ _ _ _ E) as [E1 [E2 [nk [kc [bl [E3 [E4 [E5 E6]]]]]]]]. exists bs, nk, kc, bl. subst fin. repeat split; assumption.
  - apply negb_true. exact C1.
  - apply negb_true. exact C0.
  - destruct (table_type_T2 (firstn 3 (split_ws (fstrip hdr)))) as [[n|]|]; try discriminate. apply str_eqb_eq in C. subst n. reflexivity.
Qed.

(** ** a table at the first result time: the parts are computed by the reader's own line-level functions *)
Definition tshape_check (s : sim) (title : str) (t : ptable) : option tparts :=
  match parse_header_T2 s (p_hdr t) with
  | Ok (nkeys, cols) =>
    match expected_floats (p_name t) cols with
    | Ok e =>
      match col0_is_I cols with
      | Ok i0 =>
        match start_of_values (p_row0 t) i0 with
        | Ok (Some st) =>
          match key_positions (pyslice None (Some st) (p_row0 t)) nkeys with
          | Ok (Some kp) =>
            match last_z kp with
            | Ok lastk =>
              match entries kp (lastk + 5)%Z (Some st) (p_row0 t) 0 (-1)%Z (p_more t) with
              | Ok es =>
                let longest := fold_left longer (map snd (p_more t)) (longer (p_row0 t) (p_row0 t)) in
                match parse_table_line longest st i0 with
                | Some numpos =>
                    if forallb (fun l => negb (is_results_line (fstrip l) e)) (p_fill t)
                       && is_results_line (fstrip (p_row0 t)) e
                       && (match kp with [] => false | _ => true end)
                       && gaps_ok cols title e None (p_more t)
                       && end_check cols title (p_end t)
                       && increasingb (-1)%Z es
                    then Some {| tp_nkeys := nkeys; tp_cols := cols; tp_expected := e; tp_i0 := i0; tp_start := st; tp_keypos := kp;
                                 tp_lastk := lastk; tp_entries := es; tp_longest := longest; tp_numpos := numpos |}
                    else None
                | None => None
                end
              | Raise _ => None
              end
            | Raise _ => None
            end
          | _ => None
          end
        | _ => None
        end
      | Raise _ => None
      end
    | Raise _ => None
    end
  | Raise _ => None
  end.
Lemma tshape_check_spec s title t P : tshape_check s title t = Some P -> tshape s title t P.
Proof.
  unfold tshape_check.
  destruct (parse_header_T2 s (p_hdr t)) as [[nkeys cols]|] eqn:E1; [|discriminate].
  destruct (expected_floats (p_name t) cols) as [e|] eqn:E2; [|discriminate].
  destruct (col0_is_I cols) as [i0|] eqn:E3; [|discriminate].
  destruct (start_of_values (p_row0 t) i0) as [[st|]|] eqn:E4; try discriminate.
  destruct (key_positions (pyslice None (Some st) (p_row0 t)) nkeys) as [[kp|]|] eqn:E5; try discriminate.
  destruct (last_z kp) as [lastk|] eqn:E6; [|discriminate].
  destruct (entries kp (lastk + 5)%Z (Some st) (p_row0 t) 0 (-1)%Z (p_more t)) as [es|] eqn:E7; [|discriminate].
  destruct (parse_table_line _ st i0) as [numpos|] eqn:E8; [|discriminate].
  destruct (forallb _ (p_fill t) && _ && _ && _ && _ && _) eqn:C; [|discriminate].
  intro H. inversion H; subst. clear H.
  repeat (let Hn := fresh "C" in apply andb_prop in C as [C Hn]).
  constructor; cbn [tp_nkeys tp_cols tp_expected tp_i0 tp_start tp_keypos tp_lastk tp_entries tp_longest tp_numpos]; try assumption.
  - apply (forallb_Forall _ _ _ (fun y Hy => negb_true _ Hy) C).
  - destruct kp; [discriminate|discriminate].
  - apply increasingb_spec. exact C0.
  - reflexivity.
Qed.

(** ** structures and later tables *)
Definition struct_okb (T : ltable) : bool :=
  nodupb names_eqb (lt_rows T) && (1 <=? length (lt_values T))%nat && (length (lt_values T) <=? S (length (lt_cols T)))%nat.
Lemma struct_okb_spec T : struct_okb T = true -> struct_ok T.
Proof.
  unfold struct_okb, struct_ok. intro H. repeat (let Hn := fresh "C" in apply andb_prop in H as [H Hn]).
  split; [apply (nodupb_NoDup names_eqb names_eqb_eq); exact H|]. apply Nat.leb_le in C0. apply Nat.leb_le in C. lia.
Qed.
Definition tlaterb (T : ltable) (u : ptable) : bool :=
  (S (length (p_fill u)) =? lt_hskip T)%nat
  && nats_eqb (gap_lengths (p_more u) ++ [length (p_eb u)]) (lt_skips T)
  && forall2b (fun l k => match key_from_line l (lt_keypos T) with Ok k' => names_eqb k' k | Raise _ => false end) (p_rows u) (lt_rows T).
Lemma tlaterb_spec T u : tlaterb T u = true -> tlater T u.
Proof.
  unfold tlaterb. intro H. repeat (let Hn := fresh "C" in apply andb_prop in H as [H Hn]).
  constructor; [apply Nat.eqb_eq; exact H|apply nats_eqb_eq; exact C0|].
  assert (K : forall l k, match key_from_line l (lt_keypos T) with Ok k' => names_eqb k' k | Raise _ => false end = true ->
                          key_from_line l (lt_keypos T) = Ok k).
  { intros l k Hlk. destruct (key_from_line l (lt_keypos T)) as [k'|]; [|discriminate]. apply names_eqb_eq in Hlk. subst k'. reflexivity. }
  apply (forall2b_Forall2 _ _ _ K _ C).
Qed.

(** ** the whole listing *)
Fixpoint shapes (s : sim) (title : str) (us : list ptable) : option (list ltable) :=
  match us with
  | [] => Some []
  | t :: r => match tshape_check s title t, shapes s title r with
              | Some P, Some Ts => Some (table_of P t :: Ts)
              | _, _ => None
              end
  end.
Lemma shapes_spec s title us : forall Ts, shapes s title us = Some Ts ->
  Forall2 (fun t T => exists P, tshape s title t P /\ T = table_of P t) us Ts.
Proof.
  induction us as [|t us IH]; intros Ts H; cbn [shapes] in H.
  - inversion H; subst. constructor.
  - destruct (tshape_check s title t) as [P|] eqn:E; [|discriminate]. destruct (shapes s title us) as [Ts'|]; [|discriminate].
    inversion H; subst. constructor; [exists P; split; [apply tshape_check_spec; exact E|reflexivity]|apply IH; reflexivity].
Qed.
Definition like_okb (names : list str) (x : pset) : bool :=
  strs_eqb (map p_name (set_tables x)) names
  && forallb (fun u => skip_okb u && negb (is_kcyc (p_sep u))) (set_tables x)
  && forallb (fun it => inter_shapeb (fst it) (p_hdr (snd it)) (p_name (snd it))) (ps_rest x).
Lemma like_okb_spec names x : like_okb names x = true ->
  map p_name (set_tables x) = names /\ Forall (fun u => skip_ok u /\ not_kcyc (p_sep u)) (set_tables x) /\ inters_shape (ps_rest x).
Proof.
  unfold like_okb. intro Hx. repeat (let Hn := fresh "D" in apply andb_prop in Hx as [Hx Hn]).
  split; [apply strs_eqb_eq; exact Hx|]. split.
  - assert (K : forall u, skip_okb u && negb (is_kcyc (p_sep u)) = true -> skip_ok u /\ not_kcyc (p_sep u)).
    { intros u Hu. apply andb_prop in Hu as [U1 U2]. split; [apply skip_okb_spec; exact U1|apply negb_true; exact U2]. }
    apply (forallb_Forall _ _ _ K D0).
  - apply (forallb_Forall _ _ _ (fun it Hit => inter_shapeb_spec _ _ _ Hit) D).
Qed.
Definition file_check (s : sim) (sets : list pset) : option (str * list ltable) :=
  match sets with
  | [] => None
  | x0 :: more =>
      match (if sim_eqb s T2MP then Ok (read_title_MP (file_from sets)) else read_title_T2 (file_from sets)) with
      | Ok title =>
          match shapes s title (set_tables x0) with
          | Some Ts =>
              let names := map p_name (set_tables x0) in
              if forallb set_okb sets && str_eqb (p_name (ps_first x0)) n_element && forallb struct_okb Ts
                 && nodupb str_eqb names && forallb (like_okb names) sets
                 && forallb (fun x => forall2b tlaterb Ts (set_tables x)) more
              then Some (title, Ts) else None
          | None => None
          end
      | Raise _ => None
      end
  end.
Theorem file_check_sound s x0 more title Ts : file_check s (x0 :: more) = Some (title, Ts) -> file_ok s title x0 more Ts.
Proof.
  unfold file_check.
  destruct (if sim_eqb s T2MP then Ok (read_title_MP (file_from (x0 :: more))) else read_title_T2 (file_from (x0 :: more))) as [ti|] eqn:Et; [|discriminate].
  destruct (shapes s ti (set_tables x0)) as [Ts'|] eqn:Es; [|discriminate].
  destruct (forallb set_okb (x0 :: more) && _ && _ && _ && _ && _) eqn:C; [|discriminate].
  intro H. inversion H; subst. clear H.
  do 5 (let Hn := fresh "C" in apply andb_prop in C as [C Hn]).
  constructor.
  - apply (forallb_Forall _ _ _ set_okb_spec C).
  - exact Et.
  - apply str_eqb_eq. exact C4.
  - apply shapes_spec. exact Es.
  - apply (forallb_Forall _ _ _ struct_okb_spec C3).
  - apply (nodupb_NoDup str_eqb str_eqb_eq). exact C2.
  - apply (forallb_Forall _ _ _ (like_okb_spec _) C1).
  - apply (forallb_Forall _ _ _ (fun x Hx => forall2b_Forall2 _ _ _ tlaterb_spec _ Hx) C0).
Qed.
